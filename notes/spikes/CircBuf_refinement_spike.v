(* Spike C08: circularbuffer (with the D19 repair) refines "the last cap elements, oldest first" *)
From Coq Require Import List Arith Lia Bool.
Import ListNotations.

Section CB.
Variable A : Type.
Variable zero : A.
Variable cap : nat.
Hypothesis cap_pos : 1 <= cap.

Record cb := { vals : list A; st : nat; en : nat; full : bool; size : nat }.

Fixpoint upd (l : list A) (i : nat) (x : A) : list A :=
  match l, i with
  | [], _ => []
  | _ :: t, O => x :: t
  | a :: t, S i' => a :: upd t i' x
  end.

Definition calc_size (s e : nat) (f : bool) : nat :=
  if e <? s then cap - s + e else if e =? s then (if f then cap else 0) else e - s.

Definition empty_cb : cb := {| vals := repeat zero cap; st := 0; en := 0; full := false; size := 0 |}.

Definition dequeue (q : cb) : cb * option A :=
  if size q =? 0 then (q, None)
  else
    let v := nth (st q) (vals q) zero in
    let s' := if cap <=? st q + 1 then 0 else st q + 1 in
    ({| vals := upd (vals q) (st q) zero; st := s'; en := en q; full := false; size := size q - 1 |}, Some v).

Definition enqueue (q : cb) (v : A) : cb :=
  let q1 := if size q =? cap then fst (dequeue q) else q in
  let e' := if cap <=? en q1 + 1 then 0 else en q1 + 1 in
  let f' := if e' =? st q1 then true else full q1 in
  {| vals := upd (vals q1) (en q1) v; st := st q1; en := e'; full := f'; size := calc_size (st q1) e' f' |}.

Definition values (q : cb) : list A :=
  map (fun i => nth ((st q + i) mod cap) (vals q) zero) (seq 0 (size q)).

(* reference *)
Definition ref_enq (l : list A) (v : A) : list A := (if length l =? cap then tl l else l) ++ [v].

Record Inv (q : cb) (l : list A) : Prop := {
  i_len : length (vals q) = cap;
  i_st : st q < cap;
  i_size : size q = length l;
  i_le : length l <= cap;
  i_en : en q = (st q + length l) mod cap;
  i_full : full q = (length l =? cap);
  i_vals : forall i, i < length l -> nth ((st q + i) mod cap) (vals q) zero = nth i l zero
}.

Lemma upd_length l i x : length (upd l i x) = length l.
Proof. revert i. induction l; destruct i; simpl; auto. Qed.
Lemma nth_upd_same l i x : i < length l -> nth i (upd l i x) zero = x.
Proof. revert i. induction l; destruct i; simpl; intros; try lia; auto. apply IHl. lia. Qed.
Lemma nth_upd_other l i j x : i <> j -> nth j (upd l i x) zero = nth j l zero.
Proof. revert i j. induction l; destruct i, j; simpl; intros; try lia; auto. Qed.

Lemma wrap_succ a : a < cap -> (if cap <=? a + 1 then 0 else a + 1) = (a + 1) mod cap.
Proof.
  intros H. destruct (cap <=? a + 1) eqn:E.
  - apply Nat.leb_le in E. assert (a + 1 = cap) by lia. rewrite H0. now rewrite Nat.mod_same by lia.
  - apply Nat.leb_gt in E. now rewrite Nat.mod_small by lia.
Qed.

Lemma mod_inj_small a i j : i < cap -> j < cap -> (a + i) mod cap = (a + j) mod cap -> i = j.
Proof.
  intros Hi Hj H.
  assert (E : forall x y, x <= y -> y < cap -> (a + x) mod cap = (a + y) mod cap -> x = y).
  { intros x y Hxy Hy Hm.
    assert (((a + y) - (a + x)) mod cap = 0).
    { pose proof (Nat.div_mod (a + x) cap). pose proof (Nat.div_mod (a + y) cap).
      assert (cap <> 0) by lia. specialize (H0 H2). specialize (H1 H2).
      rewrite Hm in H0.
      replace (a + y - (a + x)) with (cap * ((a + y) / cap - (a + x) / cap)).
      - rewrite Nat.mul_comm. apply Nat.mod_mul. lia.
      - assert ((a + x) / cap <= (a + y) / cap) by (apply Nat.div_le_mono; lia). nia. }
    replace (a + y - (a + x)) with (y - x) in H0 by lia.
    rewrite Nat.mod_small in H0 by lia. lia. }
  destruct (Nat.le_ge_cases i j); [apply E; auto|symmetry; apply E; auto].
Qed.

Theorem dequeue_ok q x l :
  Inv q (x :: l) -> let '(q', r) := dequeue q in r = Some x /\ Inv q' l.
Proof.
  intros [Hlen Hst Hsize Hle Hen Hfull Hvals]. unfold dequeue. simpl length in *.
  rewrite Hsize. simpl Nat.eqb. split.
  - f_equal. specialize (Hvals 0). rewrite Nat.add_0_r, Nat.mod_small in Hvals by lia. apply Hvals. lia.
  - rewrite wrap_succ by auto.
    constructor; cbn [vals st en full size].
    + now rewrite upd_length.
    + apply Nat.mod_upper_bound. lia.
    + lia.
    + lia.
    + rewrite Hen. rewrite Nat.add_mod_idemp_l by lia. f_equal. lia.
    + symmetry. apply Nat.eqb_neq. lia.
    + intros i Hi. rewrite Nat.add_mod_idemp_l by lia.
      replace (st q + 1 + i) with (st q + S i) by lia.
      rewrite nth_upd_other.
      * apply (Hvals (S i)). lia.
      * intros Hc. assert (st q = (st q + 0) mod cap) by (rewrite Nat.add_0_r, Nat.mod_small; lia).
        rewrite H in Hc at 1. apply mod_inj_small in Hc; lia.
Qed.

Lemma mod_wrap a m : a < cap -> m <= cap -> (a + m) mod cap = if a + m <? cap then a + m else a + m - cap.
Proof.
  intros Ha Hm. destruct (a + m <? cap) eqn:E.
  - apply Nat.ltb_lt in E. now apply Nat.mod_small.
  - apply Nat.ltb_ge in E. replace (a + m) with ((a + m - cap) + 1 * cap) at 1 by lia.
    rewrite Nat.mod_add by lia. apply Nat.mod_small. lia.
Qed.

Lemma enqueue_room q l v :
  Inv q l -> length l < cap -> Inv (enqueue q v) (l ++ [v]).
Proof.
  intros [Hlen Hst Hsize Hle Hen Hfull Hvals] Hroom. unfold enqueue.
  assert (E0 : (size q =? cap) = false) by (apply Nat.eqb_neq; lia). rewrite E0.
  assert (Hen_lt : en q < cap) by (rewrite Hen; apply Nat.mod_upper_bound; lia).
  rewrite wrap_succ by auto.
  assert (He' : (en q + 1) mod cap = (st q + (length l + 1)) mod cap).
  { rewrite Hen. rewrite Nat.add_mod_idemp_l by lia. f_equal. lia. }
  rewrite He'. rewrite (mod_wrap (st q) (length l + 1)) by lia.
  assert (Hfq : full q = false) by (rewrite Hfull; apply Nat.eqb_neq; lia).
  constructor; cbn [vals st en full size]; rewrite ?app_length; simpl length.
  - now rewrite upd_length.
  - auto.
  - unfold calc_size. rewrite Hfq.
    destruct (st q + (length l + 1) <? cap) eqn:E1.
    + apply Nat.ltb_lt in E1.
      assert (E2 : (st q + (length l + 1) <? st q) = false) by (apply Nat.ltb_ge; lia).
      assert (E3 : (st q + (length l + 1) =? st q) = false) by (apply Nat.eqb_neq; lia).
      rewrite E2, E3. lia.
    + apply Nat.ltb_ge in E1.
      destruct (st q + (length l + 1) - cap =? st q) eqn:E3.
      * apply Nat.eqb_eq in E3.
        assert (E2 : (st q + (length l + 1) - cap <? st q) = false) by (apply Nat.ltb_ge; lia).
        rewrite E2. lia.
      * apply Nat.eqb_neq in E3.
        assert (E2 : (st q + (length l + 1) - cap <? st q) = true) by (apply Nat.ltb_lt; lia).
        rewrite E2. lia.
  - lia.
  - rewrite (mod_wrap (st q) (length l + 1)) by lia. reflexivity.
  - rewrite Hfq.
    destruct (st q + (length l + 1) <? cap) eqn:E1.
    + apply Nat.ltb_lt in E1.
      assert (E3 : (st q + (length l + 1) =? st q) = false) by (apply Nat.eqb_neq; lia). rewrite E3.
      symmetry. apply Nat.eqb_neq. lia.
    + apply Nat.ltb_ge in E1.
      destruct (st q + (length l + 1) - cap =? st q) eqn:E3.
      * apply Nat.eqb_eq in E3. symmetry. apply Nat.eqb_eq. lia.
      * apply Nat.eqb_neq in E3. symmetry. apply Nat.eqb_neq. lia.
  - intros i Hi. destruct (Nat.eq_dec i (length l)) as [->|Hne].
    + rewrite <- Hen. rewrite nth_upd_same by lia. rewrite app_nth2 by lia. now rewrite Nat.sub_diag.
    + rewrite nth_upd_other.
      * rewrite app_nth1 by lia. apply Hvals. lia.
      * rewrite Hen. intros Hc. apply mod_inj_small in Hc; lia.
Qed.

Theorem enqueue_ok q l v : Inv q l -> Inv (enqueue q v) (ref_enq l v).
Proof.
  intros HI. unfold ref_enq. destruct (length l =? cap) eqn:E.
  - apply Nat.eqb_eq in E. destruct l as [|x l']; [simpl in E; lia|].
    pose proof (dequeue_ok q x l' HI) as D.
    assert (Hsz : size q = cap) by (rewrite (i_size _ _ HI); exact E).
    unfold enqueue. rewrite Hsz, Nat.eqb_refl.
    destruct (dequeue q) as [q1 r] eqn:Ed. destruct D as [_ HI1]. simpl fst. simpl tl.
    pose proof (enqueue_room q1 l' v HI1) as R. unfold enqueue in R.
    assert (E1 : (size q1 =? cap) = false) by (apply Nat.eqb_neq; rewrite (i_size _ _ HI1); simpl in E; lia).
    rewrite E1 in R. apply R. simpl in E. lia.
  - apply Nat.eqb_neq in E. apply enqueue_room; auto. pose proof (i_le _ _ HI). lia.
Qed.

Theorem values_ok q l : Inv q l -> values q = l.
Proof.
  intros [Hlen Hst Hsize Hle Hen Hfull Hvals]. unfold values. rewrite Hsize.
  apply nth_ext with (d := zero) (d' := zero).
  - now rewrite map_length, seq_length.
  - intros i Hi. rewrite map_length, seq_length in Hi.
    rewrite (nth_indep _ zero (nth ((st q + 0) mod cap) (vals q) zero)) by (rewrite map_length, seq_length; auto).
    rewrite (map_nth (fun i => nth ((st q + i) mod cap) (vals q) zero) (seq 0 (length l)) 0 i).
    rewrite seq_nth by auto. simpl. now apply Hvals.
Qed.

Lemma empty_inv : Inv empty_cb [].
Proof.
  constructor; simpl; try lia.
  - apply repeat_length.
  - rewrite Nat.mod_small; lia.
  - destruct cap; [lia|reflexivity].
Qed.

End CB.
Print Assumptions enqueue_ok.
Print Assumptions dequeue_ok.
