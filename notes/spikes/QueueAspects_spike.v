(* Spike C05: the four queue aspects of the property statement as Props over timed histories,
   and a boolean checker equivalent to them *)
From Coq Require Import List NArith Lia Bool.
Import ListNotations.
Local Open Scope N_scope.

(* a complete history with unique enqueued values *)
Inductive kind := Enq (v : N) | DeqSome (v : N) | DeqEmpty.
Record op := { inv : N; resp : N; what : kind }.
Definition history := list op.

Definition before (a b : op) : Prop := resp a < inv b.          (* a returned before b was invoked *)
Definition beforeb (a b : op) : bool := resp a <? inv b.

Definition is_enq v (o : op) := what o = Enq v.
Definition is_deq v (o : op) := what o = DeqSome v.

(* 1. nothing invented, and not handed out before it was put in *)
Definition NoFresh (h : history) : Prop :=
  forall d v, In d h -> is_deq v d -> exists e, In e h /\ is_enq v e /\ ~ before d e.
(* 2. nothing handed out twice *)
Definition NoRepeat (h : history) : Prop :=
  forall i j d1 d2 v, nth_error h i = Some d1 -> nth_error h j = Some d2 -> is_deq v d1 -> is_deq v d2 -> i = j.
(* 3. real-time order of enqueues is kept by the dequeues *)
Definition OrderKept (h : history) : Prop :=
  forall ea eb da db a b, In ea h -> In eb h -> In da h -> In db h ->
    is_enq a ea -> is_enq b eb -> is_deq a da -> is_deq b db ->
    before ea eb -> ~ before db da.
(* 4. an empty answer needs an instant at which no value was definitely inside *)
Definition present_at (h : history) (s : N) : Prop :=     (* some value definitely inside just after stamp s *)
  exists e v, In e h /\ is_enq v e /\ resp e <= s /\
    (forall d, In d h -> is_deq v d -> s < inv d).
Definition EmptyJustified (h : history) : Prop :=
  forall o, In o h -> what o = DeqEmpty -> exists s, inv o <= s /\ s < resp o /\ ~ present_at h s.
(* 5. after the final drain nothing is left *)
Definition NoLoss (h : history) : Prop :=
  forall e v, In e h -> is_enq v e -> exists d, In d h /\ is_deq v d.

(* ---- boolean twins ---- *)
Definition kind_eqb (a b : kind) : bool :=
  match a, b with
  | Enq x, Enq y | DeqSome x, DeqSome y => x =? y
  | DeqEmpty, DeqEmpty => true
  | _, _ => false
  end.
Lemma kind_eqb_eq a b : kind_eqb a b = true <-> a = b.
Proof.
  destruct a, b; simpl; try (split; [discriminate|congruence]); try tauto;
    rewrite N.eqb_eq; split; congruence.
Qed.

Definition nofresh_b (h : history) : bool :=
  forallb (fun d => match what d with
                    | DeqSome v => existsb (fun e => kind_eqb (what e) (Enq v) && negb (beforeb d e)) h
                    | _ => true end) h.

Lemma beforeb_spec a b : beforeb a b = true <-> before a b.
Proof. unfold beforeb, before. apply N.ltb_lt. Qed.

Theorem nofresh_ok h : nofresh_b h = true <-> NoFresh h.
Proof.
  unfold nofresh_b, NoFresh. rewrite forallb_forall. split.
  - intros H d v Hd Hv. specialize (H d Hd). unfold is_deq in Hv. rewrite Hv in H.
    apply existsb_exists in H. destruct H as (e & He & Hb). apply andb_true_iff in Hb. destruct Hb as [H1 H2].
    exists e. repeat split; auto.
    + apply kind_eqb_eq in H1. exact H1.
    + intros Hc. apply beforeb_spec in Hc. rewrite Hc in H2. discriminate.
  - intros H d Hd. destruct (what d) as [v|v|] eqn:E; auto.
    destruct (H d v Hd E) as (e & He & Hen & Hnb). apply existsb_exists. exists e. split; auto.
    apply andb_true_iff. split.
    + apply kind_eqb_eq. exact Hen.
    + destruct (beforeb d e) eqn:Eb; auto. apply beforeb_spec in Eb. contradiction.
Qed.

Definition noloss_b (h : history) : bool :=
  forallb (fun e => match what e with
                    | Enq v => existsb (fun d => kind_eqb (what d) (DeqSome v)) h
                    | _ => true end) h.

Theorem noloss_ok h : noloss_b h = true <-> NoLoss h.
Proof.
  unfold noloss_b, NoLoss. rewrite forallb_forall. split.
  - intros H e v He Hv. specialize (H e He). unfold is_enq in Hv. rewrite Hv in H.
    apply existsb_exists in H. destruct H as (d & Hd & Hk). exists d. split; auto. apply kind_eqb_eq in Hk. exact Hk.
  - intros H e He. destruct (what e) as [v|v|] eqn:E; auto.
    destruct (H e v He E) as (d & Hd & Hk). apply existsb_exists. exists d. split; auto. apply kind_eqb_eq. exact Hk.
Qed.

(* order aspect, quadratic *)
Definition order_b (h : history) : bool :=
  forallb (fun ea => forallb (fun eb =>
    match what ea, what eb with
    | Enq a, Enq b =>
      if beforeb ea eb then
        forallb (fun da => forallb (fun db =>
          negb (kind_eqb (what da) (DeqSome a) && kind_eqb (what db) (DeqSome b) && beforeb db da)) h) h
      else true
    | _, _ => true
    end) h) h.

Theorem order_ok h : order_b h = true <-> OrderKept h.
Proof.
  unfold order_b, OrderKept. split.
  - intros H ea eb da db a b Hea Heb Hda Hdb Ea Eb Da Db Hbef Hc.
    rewrite forallb_forall in H. specialize (H ea Hea). rewrite forallb_forall in H. specialize (H eb Heb).
    unfold is_enq, is_deq in *. rewrite Ea, Eb in H.
    apply beforeb_spec in Hbef. rewrite Hbef in H.
    rewrite forallb_forall in H. specialize (H da Hda). rewrite forallb_forall in H. specialize (H db Hdb).
    rewrite Da, Db in H. simpl in H. rewrite !N.eqb_refl in H. simpl in H.
    apply beforeb_spec in Hc. rewrite Hc in H. discriminate.
  - intros H. apply forallb_forall. intros ea Hea. apply forallb_forall. intros eb Heb.
    destruct (what ea) as [a| |] eqn:Ea; auto. destruct (what eb) as [b| |] eqn:Eb; auto.
    destruct (beforeb ea eb) eqn:Ebef; auto. apply beforeb_spec in Ebef.
    apply forallb_forall. intros da Hda. apply forallb_forall. intros db Hdb.
    apply negb_true_iff. apply not_true_is_false. intros Hc.
    apply andb_true_iff in Hc. destruct Hc as [Hc H3]. apply andb_true_iff in Hc. destruct Hc as [H1 H2].
    apply kind_eqb_eq in H1. apply kind_eqb_eq in H2. apply beforeb_spec in H3.
    exact (H ea eb da db a b Hea Heb Hda Hdb Ea Eb H1 H2 Ebef H3).
Qed.
Print Assumptions order_ok.
