(* Spike C13: syncx.Pool ownership.  Get/Put are atomic per P (the goroutine is pinned); the only
   cross-P interaction is stealing a whole block from another P's chain (one atomic popTail).
   Steal targets are chosen by an oracle, which over-approximates every timing of getSlow. *)
From Coq Require Import List Arith Lia Bool Permutation.
Import ListNotations.

Section Pool.
Variable B : nat.                    (* blockSize, >= 1 *)
Hypothesis B_pos : 1 <= B.

Definition obj := nat.
Definition block := list obj.        (* the filled prefix private[0..pidx) *)

Record plocal := { priv : option block; shared : list block; unused : nat (* count of empty blocks *) }.

Record world := {
  ps : list plocal;
  out : list obj;                    (* objects currently owned by callers *)
  fresh : nat                        (* next id New() will produce *)
}.

Fixpoint upd {A} (l : list A) (i : nat) (x : A) : list A :=
  match l, i with [], _ => [] | _ :: t, O => x :: t | a :: t, S i' => a :: upd t i' x end.

Definition stored_p (p : plocal) : list obj :=
  match priv p with Some b => b | None => [] end ++ concat (shared p).
Definition stored (w : world) : list obj := concat (map stored_p (ps w)).

Inductive act :=
| Put (p : nat) (x : obj)
| Get (p : nat) (steal_from : option nat)     (* oracle: which other P getSlow succeeds on, if any *)
| GC (p : nat).                               (* drop p's chains *)

Definition step (w : world) (a : act) : world * option obj :=
  match a with
  | Put p x =>
    match nth_error (ps w) p with
    | None => (w, None)
    | Some l =>
      if negb (existsb (Nat.eqb x) (out w)) then (w, None)      (* caller must own x *)
      else
        let out' := remove Nat.eq_dec x (out w) in
        match priv l with
        | Some b =>
          if B <=? length b then
            (* private block full: push it to shared, start a new one *)
            ({| ps := upd (ps w) p {| priv := Some [x]; shared := b :: shared l; unused := unused l - 1 |};
                out := out'; fresh := fresh w |}, None)
          else
            ({| ps := upd (ps w) p {| priv := Some (b ++ [x]); shared := shared l; unused := unused l |};
                out := out'; fresh := fresh w |}, None)
        | None =>
          ({| ps := upd (ps w) p {| priv := Some [x]; shared := shared l; unused := unused l - 1 |};
              out := out'; fresh := fresh w |}, None)
        end
    end
  | Get p st =>
    match nth_error (ps w) p with
    | None => (w, None)
    | Some l =>
      match priv l with
      | Some (_ :: _ as b) =>
        let x := last b 0 in
        ({| ps := upd (ps w) p {| priv := Some (removelast b); shared := shared l; unused := unused l |};
            out := x :: out w; fresh := fresh w |}, Some x)
      | _ =>
        match shared l with
        | b :: rest =>          (* popHead of the own chain *)
          let x := last b 0 in
          ({| ps := upd (ps w) p {| priv := Some (removelast b); shared := rest; unused := unused l + 1 |};
              out := x :: out w; fresh := fresh w |}, Some x)
        | [] =>
          match st with
          | Some q =>
            match nth_error (ps w) q with
            | Some lq =>
              match rev (shared lq) with
              | b :: restrev =>   (* popTail of q's chain *)
                if q =? p then (w, None) else
                let x := last b 0 in
                let ps1 := upd (ps w) q {| priv := priv lq; shared := rev restrev; unused := unused lq |} in
                ({| ps := upd ps1 p {| priv := Some (removelast b); shared := []; unused := unused l + 1 |};
                    out := x :: out w; fresh := fresh w |}, Some x)
              | [] => ({| ps := ps w; out := fresh w :: out w; fresh := S (fresh w) |}, Some (fresh w))
              end
            | None => ({| ps := ps w; out := fresh w :: out w; fresh := S (fresh w) |}, Some (fresh w))
            end
          | None => ({| ps := ps w; out := fresh w :: out w; fresh := S (fresh w) |}, Some (fresh w))
          end
        end
      end
    end
  | GC p =>
    match nth_error (ps w) p with
    | None => (w, None)
    | Some l => ({| ps := upd (ps w) p {| priv := priv l; shared := []; unused := 0 |}; out := out w; fresh := fresh w |}, None)
    end
  end.

(* every object the pool or a caller holds is distinct, and below the New counter *)
Definition Inv (w : world) : Prop :=
  NoDup (stored w ++ out w) /\ Forall (fun x => x < fresh w) (stored w ++ out w).

(* ---- bookkeeping: replacing one P's state ---- *)
Lemma stored_split (g : plocal -> list obj) : forall (l0 : list plocal) p l,
  nth_error l0 p = Some l ->
  exists rest, Permutation (concat (map g l0)) (g l ++ rest) /\
               forall l', Permutation (concat (map g (upd l0 p l'))) (g l' ++ rest).
Proof.
  induction l0 as [|a l0 IH]; intros p l H; [destruct p; discriminate|].
  destruct p as [|p]; simpl in *.
  - inversion H; subst. exists (concat (map g l0)). split; [reflexivity|intros; reflexivity].
  - destruct (IH p l H) as (rest & P1 & P2). exists (g a ++ rest). split.
    + rewrite P1. rewrite !app_assoc. apply Permutation_app_tail. apply Permutation_app_comm.
    + intros l'. rewrite (P2 l'). rewrite !app_assoc. apply Permutation_app_tail. apply Permutation_app_comm.
Qed.

Lemma last_removelast (b : block) : b <> [] -> Permutation b (last b 0 :: removelast b).
Proof.
  intros H. rewrite (app_removelast_last 0 H) at 1. apply Permutation_sym, Permutation_cons_append.
Qed.

Lemma NoDup_perm_fresh (l : list obj) (n : nat) :
  NoDup l -> Forall (fun x => x < n) l -> NoDup (n :: l).
Proof.
  intros H F. constructor; auto. intros Hin. rewrite Forall_forall in F. specialize (F n Hin). lia.
Qed.

Lemma Forall_lt_S (l : list obj) n : Forall (fun x => x < n) l -> Forall (fun x => x < S n) l.
Proof. intros H. eapply Forall_impl; [|exact H]. simpl. intros; lia. Qed.

(* the objects known to the system after a step are a permutation of those before,
   or those plus one fresh object, or a subset (GC) *)
Definition all (w : world) := stored w ++ out w.

Lemma inv_from_perm w w' :
  Inv w -> Permutation (all w') (all w) -> fresh w' = fresh w -> Inv w'.
Proof.
  intros [Hn Hf] HP Hfr. unfold Inv. fold (all w) in *. fold (all w').
  split.
  - eapply Permutation_NoDup; [symmetry; exact HP|exact Hn].
  - rewrite Hfr. rewrite Forall_forall in *. intros x Hx. apply Hf. eapply Permutation_in; eauto.
Qed.

Lemma inv_new w :
  Inv w -> Inv {| ps := ps w; out := fresh w :: out w; fresh := S (fresh w) |}.
Proof.
  intros [Hn Hf]. unfold Inv, stored in *. simpl.
  assert (HP : Permutation (concat (map stored_p (ps w)) ++ fresh w :: out w)
                           (fresh w :: concat (map stored_p (ps w)) ++ out w))
    by (symmetry; apply Permutation_middle).
  split.
  - eapply Permutation_NoDup; [symmetry; exact HP|]. now apply NoDup_perm_fresh.
  - rewrite Forall_forall. intros x Hx. eapply Permutation_in in Hx; [|exact HP].
    destruct Hx as [<-|Hx]; [lia|]. rewrite Forall_forall in Hf. specialize (Hf x Hx). lia.
Qed.

End Pool.
