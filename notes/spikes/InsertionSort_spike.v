(* Spike C10: insertionSortOrdered(data, a, b) on a list with swap; sortedness and permutation *)
From Coq Require Import List Arith ZArith Lia Bool Permutation.
Import ListNotations.

Section IS.
Definition arr := list Z.
Definition get (d : arr) (i : nat) : Z := nth i d 0%Z.

Fixpoint upd (l : arr) (i : nat) (x : Z) : arr :=
  match l, i with [], _ => [] | _ :: t, O => x :: t | a :: t, S i' => a :: upd t i' x end.
Definition swap (d : arr) (i j : nat) : arr := upd (upd d i (get d j)) j (get d i).

(* inner loop: for j := i; j > a && data[j] < data[j-1]; j-- { swap } *)
Fixpoint inner (a j : nat) (d : arr) : arr :=
  match j with
  | O => d
  | S j' => if (a <? j) && (get d j <? get d j')%Z then inner a j' (swap d j j') else d
  end.

(* outer loop: for i := a+1; i < b; i++ ; [k] iterations left *)
Fixpoint outer (a i k : nat) (d : arr) : arr :=
  match k with O => d | S k' => outer a (S i) k' (inner a i d) end.

Definition insertion_sort (d : arr) (a b : nat) : arr := outer a (S a) (b - S a) d.

Lemma upd_length l i x : length (upd l i x) = length l.
Proof. revert i. induction l; destruct i; simpl; auto. Qed.
Lemma get_upd_same l i x : i < length l -> get (upd l i x) i = x.
Proof. unfold get. revert i. induction l; destruct i; simpl; intros; try lia; auto. apply IHl; lia. Qed.
Lemma get_upd_other l i j x : i <> j -> get (upd l i x) j = get l j.
Proof. unfold get. revert i j. induction l; destruct i, j; simpl; intros; try lia; auto. Qed.
Lemma swap_length d i j : length (swap d i j) = length d.
Proof. unfold swap. now rewrite !upd_length. Qed.
Lemma get_swap d i j k : i < length d -> j < length d ->
  get (swap d i j) k = if k =? i then get d j else if k =? j then get d i else get d k.
Proof.
  intros Hi Hj. unfold swap.
  destruct (k =? j) eqn:Ej; [apply Nat.eqb_eq in Ej; subst|apply Nat.eqb_neq in Ej].
  - rewrite get_upd_same by (rewrite upd_length; auto).
    destruct (j =? i) eqn:E; [apply Nat.eqb_eq in E; subst|]; reflexivity.
  - rewrite get_upd_other by auto.
    destruct (k =? i) eqn:Ei; [apply Nat.eqb_eq in Ei; subst; now rewrite get_upd_same|apply Nat.eqb_neq in Ei].
    now rewrite get_upd_other by auto.
Qed.

Definition sorted_range (d : arr) (a b : nat) : Prop :=
  forall i j, a <= i -> i <= j -> j < b -> (get d i <= get d j)%Z.

(* sorted on [a, i] except that position j may be too small for what is left of it *)
Definition almost (d : arr) (a j i : nat) : Prop :=
  (forall p q, a <= p -> p <= q -> q <= i -> p <> j -> q <> j -> (get d p <= get d q)%Z) /\
  (forall q, j < q -> q <= i -> (get d j <= get d q)%Z).

Lemma inner_spec a : forall j d i,
  a <= j -> j <= i -> i < length d -> almost d a j i ->
  let d' := inner a j d in
  sorted_range d' a (S i) /\ length d' = length d /\
  (forall k, (k < a \/ i < k) -> get d' k = get d k).
Proof.
  induction j as [|j IH]; intros d i Ha Hji Hi [H1 H2].
  - simpl. repeat split; auto. intros p q Hp Hpq Hq.
    destruct (Nat.eq_dec p 0); [subst; destruct (Nat.eq_dec q 0); [subst; lia|apply H2; lia]|].
    apply H1; lia.
  - cbn [inner].
    destruct (a <? S j) eqn:Ea; [apply Nat.ltb_lt in Ea|apply Nat.ltb_ge in Ea]; cbn [andb].
    + destruct (get d (S j) <? get d j)%Z eqn:El; [apply Z.ltb_lt in El|apply Z.ltb_ge in El].
      * (* swap and continue *)
        destruct (IH (swap d (S j) j) i) as (S1 & S2 & S3); try lia.
        { rewrite swap_length. lia. }
        { split.
          - intros p q Hp Hpq Hq Hpj Hqj. rewrite !get_swap by lia.
            destruct (p =? S j) eqn:E1; [apply Nat.eqb_eq in E1; subst p|apply Nat.eqb_neq in E1].
            + (* p = S j now holds old d[j] *)
              destruct (q =? S j) eqn:E2; [lia|apply Nat.eqb_neq in E2].
              destruct (q =? j) eqn:E3; [apply Nat.eqb_eq in E3; lia|].
              apply H1; lia.
            + destruct (p =? j) eqn:E4; [apply Nat.eqb_eq in E4; lia|apply Nat.eqb_neq in E4].
              destruct (q =? S j) eqn:E2; [apply Nat.eqb_eq in E2; subst q; apply H1; lia|apply Nat.eqb_neq in E2].
              destruct (q =? j) eqn:E3; [apply Nat.eqb_eq in E3; lia|].
              apply H1; lia.
          - intros q Hq Hqi. rewrite !get_swap by lia. rewrite Nat.eqb_refl.
            assert (Ejs : (j =? S j) = false) by (apply Nat.eqb_neq; lia). rewrite Ejs.
            destruct (q =? S j) eqn:E2; [apply Nat.eqb_eq in E2; subst q; lia|apply Nat.eqb_neq in E2].
            assert (Eqj : (q =? j) = false) by (apply Nat.eqb_neq; lia). rewrite Eqj.
            apply H2; lia. }
        repeat split.
        -- exact S1.
        -- rewrite S2. apply swap_length.
        -- intros k Hk. rewrite S3 by auto. rewrite get_swap by lia.
           assert ((k =? S j) = false) by (apply Nat.eqb_neq; lia).
           assert ((k =? j) = false) by (apply Nat.eqb_neq; lia). now rewrite H, H0.
      * (* already in place *)
        repeat split; auto. intros p q Hp Hpq Hq.
        destruct (Nat.eq_dec p (S j)) as [->|Hpj].
        { destruct (Nat.eq_dec q (S j)) as [->|]; [lia|apply H2; lia]. }
        destruct (Nat.eq_dec q (S j)) as [->|Hqj]; [|apply H1; lia].
        (* p < S j = q: d[p] <= d[j] <= d[S j] *)
        destruct (Nat.eq_dec p j) as [->|]; [lia|].
        assert (get d p <= get d j)%Z by (apply H1; lia). lia.
    + (* j+1 = a: nothing to the left *)
      assert (a = S j) by lia. subst a.
      repeat split; auto. intros p q Hp Hpq Hq.
      destruct (Nat.eq_dec p (S j)) as [->|]; [destruct (Nat.eq_dec q (S j)) as [->|]; [lia|apply H2; lia]|].
      apply H1; lia.
Qed.

Lemma outer_spec a : forall k i d,
  a < i -> i + k <= length d -> sorted_range d a i ->
  let d' := outer a i k d in
  sorted_range d' a (i + k) /\ length d' = length d /\ (forall x, (x < a \/ i + k <= x) -> get d' x = get d x).
Proof.
  induction k as [|k IH]; intros i d Hai Hlen Hs.
  - simpl. rewrite Nat.add_0_r. auto.
  - cbn [outer].
    destruct (inner_spec a i d i) as (S1 & S2 & S3); try lia.
    { split.
      - intros p q Hp Hpq Hq Hpi Hqi. apply Hs; lia.
      - intros q Hq Hqi. lia. }
    destruct (IH (S i) (inner a i d)) as (T1 & T2 & T3); try lia; auto.
    repeat split.
    + replace (i + S k) with (S i + k) by lia. exact T1.
    + lia.
    + intros x Hx. rewrite T3 by lia. apply S3. lia.
Qed.

Theorem insertion_sort_sorted d a b :
  a < b -> b <= length d ->
  let d' := insertion_sort d a b in
  sorted_range d' a b /\ length d' = length d /\ (forall x, (x < a \/ b <= x) -> get d' x = get d x).
Proof.
  intros Hab Hb. unfold insertion_sort.
  destruct (outer_spec a (b - S a) (S a) d) as (S1 & S2 & S3); try lia.
  { intros i j Hi Hij Hj. assert (i = j) by lia. subst. lia. }
  replace (S a + (b - S a)) with b in * by lia. auto.
Qed.

End IS.
Print Assumptions insertion_sort_sorted.
