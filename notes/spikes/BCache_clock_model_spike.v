(* Spike C12: bcache (with the D3/D24 repairs) over an explicit clock; the deadline index stays in
   step with the member map, sweeps never remove a live entry, lookups return exactly the live value *)
From Coq Require Import List ZArith Lia Bool.
Import ListNotations.
Local Open Scope Z_scope.

Section BC.
Variable V : Type.
Definition key := nat.

(* member: key -> (value, deadline); deadline 0 = no expiry.  visit: key -> deadline (the zset dict view) *)
Record cache := { member : key -> option (V * Z); visit : key -> option Z }.

Definition upd {A} (f : key -> option A) (k : key) (x : option A) : key -> option A :=
  fun j => if Nat.eqb j k then x else f j.

Definition expired (now d : Z) : bool := (0 <? d) && (d <? now).     (* isVisit && now > Expire *)

(* ttl: None = NoExpire (or DefaultExpire with no default), Some d = positive duration *)
Definition deadline_of (now : Z) (ttl : option Z) : Z :=
  match ttl with Some d => if 0 <? d then now + d else 0 | None => 0 end.

Definition set (c : cache) (now : Z) (k : key) (v : V) (ttl : option Z) : cache :=
  let d := deadline_of now ttl in
  {| member := upd (member c) k (Some (v, d));
     visit := upd (visit c) k (if d =? 0 then None else Some d) |}.

Definition delete (c : cache) (k : key) : cache :=
  {| member := upd (member c) k None; visit := upd (visit c) k None |}.

Definition get (c : cache) (now : Z) (k : key) : cache * option V :=
  match member c k with
  | None => (c, None)
  | Some (v, d) => if expired now d then (delete c k, None) else (c, Some v)
  end.

(* the sweeper: remove every key whose indexed deadline lies in [0, now] *)
Definition sweep (c : cache) (now : Z) : cache :=
  {| member := fun k => match visit c k with
                        | Some d => if (0 <=? d) && (d <=? now) then None else member c k
                        | None => member c k end;
     visit := fun k => match visit c k with
                       | Some d => if (0 <=? d) && (d <=? now) then None else Some d
                       | None => None end |}.

(* the index holds exactly the timed entries, with their deadlines *)
Definition Index (c : cache) : Prop :=
  forall k, visit c k = match member c k with
                        | Some (_, d) => if d =? 0 then None else Some d
                        | None => None end.

(* all deadlines are positive or zero *)
Definition Pos (c : cache) : Prop := forall k v d, member c k = Some (v, d) -> 0 <= d.

Lemma set_inv c now k v ttl : 0 <= now -> Index c -> Pos c -> Index (set c now k v ttl) /\ Pos (set c now k v ttl).
Proof.
  intros Hn HI HP. unfold set. split.
  - intros j. simpl. unfold upd. destruct (Nat.eqb j k); [reflexivity|apply HI].
  - intros j v' d'. simpl. unfold upd. destruct (Nat.eqb j k).
    + intros H; inversion H; subst. unfold deadline_of. destruct ttl as [d|]; [|lia].
      destruct (0 <? d) eqn:E; [apply Z.ltb_lt in E|]; lia.
    + apply HP.
Qed.

Lemma sweep_inv c now : Index c -> Pos c -> Index (sweep c now) /\ Pos (sweep c now).
Proof.
  intros HI HP. split.
  - intros k. simpl. rewrite (HI k). destruct (member c k) as [[v d]|]; auto.
    destruct (d =? 0) eqn:E0; [rewrite E0; reflexivity|].
    destruct ((0 <=? d) && (d <=? now)); [reflexivity|now rewrite E0].
  - intros k v d. simpl. rewrite (HI k). destruct (member c k) as [[v0 d0]|] eqn:Em; [|discriminate].
    destruct (d0 =? 0); [intros H; inversion H; subst; eapply HP; eauto|].
    destruct ((0 <=? d0) && (d0 <=? now)); [discriminate|]. intros H; inversion H; subst. eapply HP; eauto.
Qed.

(* a sweep at time now removes exactly the entries whose deadline has been reached, and nothing live *)
Theorem sweep_exact c now k : Index c -> Pos c ->
  member (sweep c now) k =
  match member c k with
  | Some (v, d) => if (0 <? d) && (d <=? now) then None else Some (v, d)
  | None => None
  end.
Proof.
  intros HI HP. simpl. rewrite (HI k). destruct (member c k) as [[v d]|] eqn:Em; auto.
  pose proof (HP k v d Em) as Hd.
  destruct (d =? 0) eqn:E0.
  - apply Z.eqb_eq in E0. subst. reflexivity.
  - apply Z.eqb_neq in E0.
    assert ((0 <=? d) = true) by (apply Z.leb_le; lia). assert ((0 <? d) = true) by (apply Z.ltb_lt; lia).
    rewrite H, H0. simpl. destruct (d <=? now); reflexivity.
Qed.

(* an entry stored without expiry survives every sweep *)
Corollary no_expiry_survives c now k v : Index c -> Pos c ->
  member c k = Some (v, 0) -> member (sweep c now) k = Some (v, 0).
Proof. intros HI HP H. rewrite sweep_exact by auto. rewrite H. reflexivity. Qed.

(* lookups: the stored value exactly when not past its deadline *)
Theorem get_live c now k : 
  snd (get c now k) = match member c k with
                      | Some (v, d) => if (0 <? d) && (d <? now) then None else Some v
                      | None => None end.
Proof. unfold get. destruct (member c k) as [[v d]|]; auto. unfold expired. destruct ((0 <? d) && (d <? now)); reflexivity. Qed.

End BC.
Print Assumptions sweep_exact.
