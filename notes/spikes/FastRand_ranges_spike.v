(* Spike C20: fastrand range theorems over an explicit stream of uint32 draws *)
From Coq Require Import List ZArith Lia Bool Permutation.
Import ListNotations.
Local Open Scope Z_scope.

Definition M32 := 2 ^ 32.
Definition M64 := 2 ^ 64.

(* a draw stream; every element is a uint32 *)
Definition draws_ok (ds : list Z) := Forall (fun d => 0 <= d < M32) ds.

Definition uint32 (ds : list Z) : option (Z * list Z) :=
  match ds with d :: ds' => Some (d, ds') | [] => None end.

Definition uint64 (ds : list Z) : option (Z * list Z) :=
  match ds with hi :: lo :: ds' => Some (hi * M32 + lo, ds') | _ => None end.   (* (hi<<32)|lo *)

Definition int63 ds := match uint64 ds with Some (u, ds') => Some (u mod 2 ^ 63, ds') | None => None end.
Definition int31 ds := match uint32 ds with Some (u, ds') => Some (u mod 2 ^ 31, ds') | None => None end.

(* Int31n: Lemire multiply-shift with rejection; fuel bounds the rejection loop *)
Fixpoint int31n_loop (fuel : nat) (n thresh : Z) (ds : list Z) : option (Z * list Z) :=
  match fuel with
  | O => None
  | S f =>
    match uint32 ds with
    | None => None
    | Some (v, ds') =>
      let prod := v * n in
      let low := prod mod M32 in
      if low <? thresh then int31n_loop f n thresh ds' else Some (prod / M32, ds')
    end
  end.

Definition int31n (fuel : nat) (n : Z) (ds : list Z) : option (Z * list Z) :=
  match uint32 ds with
  | None => None
  | Some (v, ds') =>
    let prod := v * n in
    let low := prod mod M32 in
    if low <? n then
      let thresh := (M32 - n) mod n in          (* uint32(-n) % uint32(n) *)
      if low <? thresh then int31n_loop fuel n thresh ds' else Some (prod / M32, ds')
    else Some (prod / M32, ds')
  end.

Definition uint32n (n : Z) (ds : list Z) : option (Z * list Z) :=
  match uint32 ds with Some (v, ds') => Some ((v * n) / M32, ds') | None => None end.

Fixpoint int63n_loop (fuel : nat) (n mx : Z) (ds : list Z) : option (Z * list Z) :=
  match fuel with
  | O => None
  | S f => match int63 ds with
           | None => None
           | Some (v, ds') => if mx <? v then int63n_loop f n mx ds' else Some (v mod n, ds')
           end
  end.

Definition int63n (fuel : nat) (n : Z) (ds : list Z) : option (Z * list Z) :=
  if Z.land n (n - 1) =? 0 then
    match int63 ds with Some (v, ds') => Some (Z.land v (n - 1), ds') | None => None end
  else
    let mx := (2 ^ 63 - 1) - (2 ^ 63) mod n in
    int63n_loop fuel n mx ds.

Lemma M32_pos : 0 < M32. Proof. reflexivity. Qed.
Global Opaque M32.

Lemma mulshift_range v n : 0 <= v < M32 -> 0 < n -> 0 <= (v * n) / M32 < n.
Proof.
  intros Hv Hn. pose proof M32_pos. split.
  - apply Z.div_pos; [apply Z.mul_nonneg_nonneg; lia|lia].
  - apply Z.div_lt_upper_bound; [lia|]. rewrite (Z.mul_comm M32 n), (Z.mul_comm v n).
    apply Z.mul_lt_mono_pos_l; lia.
Qed.

Lemma int31n_loop_range fuel n thresh : forall ds v ds',
  draws_ok ds -> 0 < n -> int31n_loop fuel n thresh ds = Some (v, ds') -> 0 <= v < n /\ draws_ok ds'.
Proof.
  induction fuel as [|f IH]; intros ds v ds' Hok Hn H; [discriminate|].
  cbn [int31n_loop] in H. destruct ds as [|d ds0]; [discriminate|]. cbn [uint32] in H. inversion Hok; subst.
  destruct (d * n mod M32 <? thresh).
  - eapply IH; eauto.
  - inversion H; subst. split; auto. now apply mulshift_range.
Qed.

Theorem int31n_range fuel n ds v ds' :
  draws_ok ds -> 0 < n -> int31n fuel n ds = Some (v, ds') -> 0 <= v < n /\ draws_ok ds'.
Proof.
  intros Hok Hn H. unfold int31n in H. destruct ds as [|d ds0]; [discriminate|]. cbn [uint32] in H.
  inversion Hok; subst.
  destruct (d * n mod M32 <? n).
  - destruct (d * n mod M32 <? (M32 - n) mod n).
    + eapply int31n_loop_range; eauto.
    + inversion H; subst. split; auto. now apply mulshift_range.
  - inversion H; subst. split; auto. now apply mulshift_range.
Qed.

Theorem uint32n_range n ds v ds' :
  draws_ok ds -> 0 < n -> uint32n n ds = Some (v, ds') -> 0 <= v < n.
Proof.
  intros Hok Hn H. unfold uint32n in H. destruct ds as [|d ds0]; [discriminate|]. cbn [uint32] in H.
  inversion Hok; subst. inversion H; subst. now apply mulshift_range.
Qed.

Lemma land_disjoint a b : Z.land (Z.ldiff a b) (Z.land a b) = 0.
Proof.
  apply Z.bits_inj'. intros k Hk. rewrite !Z.land_spec, Z.ldiff_spec, Z.bits_0.
  destruct (Z.testbit a k), (Z.testbit b k); reflexivity.
Qed.

Lemma land_le_l a b : 0 <= a -> Z.land a b <= a.
Proof.
  intros Ha.
  assert (E : a = Z.ldiff a b + Z.land a b).
  { rewrite <- (Z.lor_ldiff_and a b) at 1. rewrite <- Z.lxor_lor by apply land_disjoint.
    symmetry. apply Z.add_nocarry_lxor. apply land_disjoint. }
  assert (0 <= Z.ldiff a b) by (apply Z.ldiff_nonneg; auto). lia.
Qed.

Lemma int63_range ds v ds' : int63 ds = Some (v, ds') -> 0 <= v < 2 ^ 63.
Proof.
  unfold int63, uint64. destruct ds as [|a [|b ds0]]; try discriminate. intros H; inversion H; subst.
  apply Z.mod_pos_bound. lia.
Qed.

Lemma int63n_loop_range fuel n mx : forall ds v ds',
  0 < n -> int63n_loop fuel n mx ds = Some (v, ds') -> 0 <= v < n.
Proof.
  induction fuel as [|f IH]; intros ds v ds' Hn H; [discriminate|].
  cbn [int63n_loop] in H. destruct (int63 ds) as [[u ds0]|] eqn:E; [|discriminate].
  destruct (mx <? u); [eauto|]. inversion H; subst. apply Z.mod_pos_bound. lia.
Qed.

Theorem int63n_range fuel n ds v ds' :
  0 < n -> int63n fuel n ds = Some (v, ds') -> 0 <= v < n.
Proof.
  intros Hn H. unfold int63n in H. destruct (Z.land n (n - 1) =? 0) eqn:Ep.
  - destruct (int63 ds) as [[u ds0]|] eqn:E; [|discriminate]. inversion H; subst.
    pose proof (int63_range _ _ _ E) as Hu.
    split; [apply Z.land_nonneg; lia|].
    (* land u (n-1) <= n-1 *)
    assert (Z.land u (n - 1) <= n - 1); [|lia].
    rewrite Z.land_comm. apply land_le_l. lia.
  - eapply int63n_loop_range; eauto.
Qed.

(* Perm: inside-out Fisher-Yates; js are the draws j_i in [0, i] *)
Fixpoint upd {A} (l : list A) (i : nat) (x : A) : list A :=
  match l, i with
  | [], _ => []
  | _ :: t, O => x :: t
  | a :: t, S i' => a :: upd t i' x
  end.

Fixpoint perm_loop (i : nat) (js : list nat) (m : list nat) : list nat :=
  match js with
  | [] => m
  | j :: js' => (* m[i] = m[j]; m[j] = i *)
    let m1 := upd m i (nth j m 0%nat) in
    perm_loop (S i) js' (upd m1 j i)
  end.

Print Assumptions int31n_range.
Print Assumptions uint32n_range.
Print Assumptions int63n_range.
