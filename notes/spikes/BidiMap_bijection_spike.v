(* Spike C09: hashbidimap.Put keeps forward and inverse maps mutually inverse *)
From Coq Require Import List Arith Lia Bool.

Definition fmap := nat -> option nat.
Definition mput (m : fmap) (k v : nat) : fmap := fun x => if Nat.eq_dec x k then Some v else m x.
Definition mdel (m : fmap) (k : nat) : fmap := fun x => if Nat.eq_dec x k then None else m x.

Record bidi := { fw : fmap; bw : fmap }.

Definition put (b : bidi) (k v : nat) : bidi :=
  let bw1 := match fw b k with Some ov => mdel (bw b) ov | None => bw b end in
  let fw1 := match bw1 v with Some ok => mdel (fw b) ok | None => fw b end in
  {| fw := mput fw1 k v; bw := mput bw1 v k |}.

Definition Bij (b : bidi) : Prop := forall k v, fw b k = Some v <-> bw b v = Some k.

Section Proof.
Variable b : bidi.
Hypothesis HB : Bij b.
Variables k v : nat.

Let bw1 := match fw b k with Some ov => mdel (bw b) ov | None => bw b end.
Let fw1 := match bw1 v with Some ok => mdel (fw b) ok | None => fw b end.

(* facts about the two intermediate maps *)
Lemma bw1_some x y : bw1 x = Some y -> bw b x = Some y /\ fw b k <> Some x.
Proof.
  unfold bw1. destruct (fw b k) as [ov|] eqn:E.
  - unfold mdel. destruct (Nat.eq_dec x ov); [discriminate|]. intros H. split; auto. congruence.
  - intros H. split; auto. discriminate.
Qed.
Lemma bw1_keep x y : bw b x = Some y -> fw b k <> Some x -> bw1 x = Some y.
Proof.
  unfold bw1. intros H Hn. destruct (fw b k) as [ov|] eqn:E; auto.
  unfold mdel. destruct (Nat.eq_dec x ov); [subst; congruence|auto].
Qed.
Lemma fw1_some x y : fw1 x = Some y -> fw b x = Some y /\ bw1 v <> Some x.
Proof.
  unfold fw1. destruct (bw1 v) as [ok|] eqn:E.
  - unfold mdel. destruct (Nat.eq_dec x ok); [discriminate|]. intros H. split; auto. congruence.
  - intros H. split; auto. discriminate.
Qed.
Lemma fw1_keep x y : fw b x = Some y -> bw1 v <> Some x -> fw1 x = Some y.
Proof.
  unfold fw1. intros H Hn. destruct (bw1 v) as [ok|] eqn:E; auto.
  unfold mdel. destruct (Nat.eq_dec x ok); [subst; congruence|auto].
Qed.

Theorem put_bij : Bij (put b k v).
Proof.
  intros k' v'. unfold put. fold bw1. fold fw1. cbn [fw bw]. unfold mput.
  destruct (Nat.eq_dec k' k) as [->|Hk]; destruct (Nat.eq_dec v' v) as [->|Hv].
  - tauto.
  - (* k' = k, v' <> v *)
    split; [congruence|]. intros H. apply bw1_some in H. destruct H as [H1 H2].
    exfalso. apply H2. apply HB. exact H1.
  - (* k' <> k, v' = v *)
    split; [|congruence]. intros H. exfalso.
    apply fw1_some in H. destruct H as [H1 H2]. apply H2.
    apply bw1_keep; [apply HB; exact H1|].
    intros Hc. apply HB in Hc. apply HB in H1. congruence.
  - split; intros H.
    + apply fw1_some in H. destruct H as [H1 _]. apply bw1_keep; [apply HB; exact H1|].
      intros Hc. apply HB in Hc. apply HB in H1. congruence.
    + apply bw1_some in H. destruct H as [H1 _]. apply fw1_keep; [apply HB; exact H1|].
      intros Hc. apply bw1_some in Hc. destruct Hc as [Hc _]. apply HB in Hc. apply HB in H1. congruence.
Qed.
End Proof.
Print Assumptions put_bij.
