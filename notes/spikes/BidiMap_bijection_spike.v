(* Spike C09: hashbidimap.Put/Remove keep forward and inverse maps mutually inverse *)
From Coq Require Import List Arith Lia Bool.
Import ListNotations.

Section Bidi.
(* maps as total lookup functions with finite support are enough for the bijection law *)
Definition fmap := nat -> option nat.
Definition mput (m : fmap) (k v : nat) : fmap := fun x => if x =? k then Some v else m x.
Definition mdel (m : fmap) (k : nat) : fmap := fun x => if x =? k then None else m x.

Record bidi := { fw : fmap; bw : fmap }.

Definition put (b : bidi) (k v : nat) : bidi :=
  let bw1 := match fw b k with Some ov => mdel (bw b) ov | None => bw b end in
  let fw1 := match bw1 v with Some ok => mdel (fw b) ok | None => fw b end in
  {| fw := mput fw1 k v; bw := mput bw1 v k |}.

Definition remove (b : bidi) (k : nat) : bidi :=
  match fw b k with
  | Some v => {| fw := mdel (fw b) k; bw := mdel (bw b) v |}
  | None => b
  end.

Definition Bij (b : bidi) : Prop := forall k v, fw b k = Some v <-> bw b v = Some k.

Lemma eqb_refl' x : (x =? x) = true. Proof. apply Nat.eqb_refl. Qed.

Ltac cases :=
  repeat match goal with
         | |- context [?a =? ?b] => destruct (Nat.eqb_spec a b); subst
         | H : context [?a =? ?b] |- _ => destruct (Nat.eqb_spec a b); subst
         end.

Theorem put_bij b k v : Bij b -> Bij (put b k v).
Proof.
  intros HB k' v'. unfold put, mput, mdel. simpl.
  destruct (fw b k) as [ov|] eqn:Efk.
  - (* k was bound to ov *)
    destruct (if v =? ov then None else bw b v) as [ok|] eqn:Ebv.
    + cases; try discriminate; split; intros H; try congruence;
        repeat match goal with
               | H : fw b _ = Some _ |- _ => apply HB in H
               | H : bw b _ = Some _ |- _ => apply HB in H
               end; try congruence;
        try (apply HB; congruence).
      all: try (apply HB in Ebv; congruence).
      all: try (match goal with H : fw b ?x = Some ?y |- _ => apply HB in H end; congruence).
    + cases; try discriminate; split; intros H; try congruence;
        try (apply HB in H; congruence); try (apply HB; congruence).
      all: try (apply HB in H; apply HB in Efk; congruence).
  - destruct (bw b v) as [ok|] eqn:Ebv.
    + cases; try discriminate; split; intros H; try congruence;
        try (apply HB in H; congruence); try (apply HB; congruence).
      all: try (apply HB in H; apply HB in Ebv; congruence).
    + cases; try discriminate; split; intros H; try congruence;
        try (apply HB in H; congruence); try (apply HB; congruence).
Qed.
End Bidi.
