(* Spike C16: XXH3-64 (seed 0, default secret) written from the algorithm description, checked against
   digests printed by the Go implementation *)
From Coq Require Import List ZArith Lia.
Import ListNotations.
Local Open Scope Z_scope.

Definition M64 := 2 ^ 64.
Definition w (x : Z) := x mod M64.
Definition P32_1 := 2654435761. Definition P32_2 := 2246822519. Definition P32_3 := 3266489917.
Definition P64_1 := 11400714785074694791. Definition P64_2 := 14029467366897019727.
Definition P64_3 := 1609587929392839161. Definition P64_4 := 9650029242287828579. Definition P64_5 := 2870177450012600261.

Definition secret : list Z := [184; 254; 108; 57; 35; 164; 75; 190; 124; 1; 129; 44; 247; 33; 173; 28; 222; 212; 109; 233; 131; 144; 151; 219; 114; 64; 164; 164; 183; 179; 103; 31; 203; 121; 230; 78; 204; 192; 229; 120; 130; 90; 208; 125; 204; 255; 114; 33; 184; 8; 70; 116; 247; 67; 36; 142; 224; 53; 144; 230; 129; 58; 38; 76; 60; 40; 82; 187; 145; 195; 0; 203; 136; 208; 101; 139; 27; 83; 46; 163; 113; 100; 72; 151; 162; 13; 249; 78; 56; 25; 239; 70; 169; 222; 172; 216; 168; 250; 118; 63; 227; 156; 52; 63; 249; 220; 187; 199; 199; 11; 79; 29; 138; 81; 224; 75; 205; 180; 89; 49; 200; 159; 126; 201; 217; 120; 115; 100; 234; 197; 172; 131; 52; 211; 235; 195; 197; 129; 160; 255; 250; 19; 99; 235; 23; 13; 221; 81; 183; 240; 218; 73; 211; 22; 85; 38; 41; 212; 104; 158; 43; 22; 190; 88; 125; 71; 161; 252; 143; 248; 184; 209; 122; 208; 49; 206; 69; 203; 58; 143; 149; 22; 4; 40; 175; 215; 251; 202; 187; 75; 64; 126].

Definition rd8 (l : list Z) (o : Z) : Z := nth (Z.to_nat o) l 0.
Definition rd32 l o := rd8 l o + 2^8 * rd8 l (o+1) + 2^16 * rd8 l (o+2) + 2^24 * rd8 l (o+3).
Definition rd64 l o := rd32 l o + 2^32 * rd32 l (o+4).

Definition mix (a b : Z) : Z := let p := a * b in Z.lxor (p mod M64) (p / M64).
Definition avalanche3 (x : Z) : Z :=
  let x := Z.lxor x (Z.shiftr x 37) in let x := w (x * 0x165667919e3779f9) in Z.lxor x (Z.shiftr x 32).
Definition avalanche64 (h : Z) : Z :=
  let h := Z.lxor h (Z.shiftr h 33) in
  let h := w (h * P64_2) in let h := Z.lxor h (Z.shiftr h 29) in
  let h := w (h * P64_3) in Z.lxor h (Z.shiftr h 32).
Definition rotl64 (x r : Z) : Z := w (Z.lor (Z.shiftl x r) (Z.shiftr x (64 - r))).
Definition bswap64 (x : Z) : Z :=
  let b i := Z.land (Z.shiftr x (8 * i)) 255 in
  b 0 * 2^56 + b 1 * 2^48 + b 2 * 2^40 + b 3 * 2^32 + b 4 * 2^24 + b 5 * 2^16 + b 6 * 2^8 + b 7.
Definition rrmxmx (h len : Z) : Z :=
  let h := Z.lxor h (Z.lxor (rotl64 h 49) (rotl64 h 24)) in
  let h := w (h * 0x9fb21c651e98df25) in
  let h := Z.lxor h (w (Z.shiftr h 35 + len)) in
  let h := w (h * 0x9fb21c651e98df25) in
  Z.lxor h (Z.shiftr h 28).

Definition mix16 (inp : list Z) (o so : Z) : Z :=
  mix (Z.lxor (rd64 inp o) (rd64 secret so)) (Z.lxor (rd64 inp (o + 8)) (rd64 secret (so + 8))).

Definition len_0 : Z := avalanche64 (Z.lxor (rd64 secret 56) (rd64 secret 64)).
Definition len_1to3 (inp : list Z) (len : Z) : Z :=
  let c1 := rd8 inp 0 in let c2 := rd8 inp (Z.shiftr len 1) in let c3 := rd8 inp (len - 1) in
  let combined := Z.lor (Z.lor (Z.lor (Z.shiftl c1 16) (Z.shiftl c2 24)) c3) (Z.shiftl len 8) in
  avalanche64 (Z.lxor combined (Z.lxor (rd32 secret 0) (rd32 secret 4))).
Definition len_4to8 (inp : list Z) (len : Z) : Z :=
  let in1 := rd32 inp 0 in let in2 := rd32 inp (len - 4) in
  let bitflip := Z.lxor (rd64 secret 8) (rd64 secret 16) in
  rrmxmx (Z.lxor (in2 + in1 * 2^32) bitflip) len.
Definition len_9to16 (inp : list Z) (len : Z) : Z :=
  let lo := Z.lxor (rd64 inp 0) (Z.lxor (rd64 secret 24) (rd64 secret 32)) in
  let hi := Z.lxor (rd64 inp (len - 8)) (Z.lxor (rd64 secret 40) (rd64 secret 48)) in
  avalanche3 (w (len + bswap64 lo + hi + mix lo hi)).

Definition sumZ (l : list Z) : Z := fold_left Z.add l 0.

Definition len_17to128 (inp : list Z) (len : Z) : Z :=
  let n := Z.to_nat ((len - 1) / 32) in
  let terms := flat_map (fun i => let i := Z.of_nat i in
                 [mix16 inp (16 * i) (32 * i); mix16 inp (len - 16 * (i + 1)) (32 * i + 16)]) (seq 0 (S n)) in
  avalanche3 (w (len * P64_1 + sumZ terms)).

Definition len_129to240 (inp : list Z) (len : Z) : Z :=
  let a1 := w (len * P64_1 + sumZ (map (fun i => let i := Z.of_nat i in mix16 inp (16 * i) (16 * i)) (seq 0 8))) in
  let a2 := avalanche3 a1 in
  let rounds := Z.to_nat (len / 16) in
  let a3 := w (a2 + sumZ (map (fun i => let i := Z.of_nat i in mix16 inp (16 * i) (16 * (i - 8) + 3)) (seq 8 (rounds - 8)))) in
  avalanche3 (w (a3 + mix16 inp (len - 16) 119)).

(* long inputs *)
Definition acc0 : list Z := [P32_3; P64_1; P64_2; P64_3; P64_4; P32_2; P64_5; P32_1].
Definition accumulate (acc : list Z) (inp : list Z) (o so : Z) : list Z :=
  let dv i := rd64 inp (o + 8 * i) in
  let dk i := Z.lxor (dv i) (rd64 secret (so + 8 * i)) in
  map (fun i => let i := Z.of_nat i in
         let j := Z.lxor i 1 in
         w (nth (Z.to_nat i) acc 0 + dv j + (Z.land (dk i) 0xFFFFFFFF) * (Z.shiftr (dk i) 32)))
      (seq 0 8).
Definition scramble (acc : list Z) : list Z :=
  map (fun i => let a := nth i acc 0 in
         w (Z.lxor (Z.lxor a (Z.shiftr a 47)) (rd64 secret (128 + 8 * Z.of_nat i)) * P32_1)) (seq 0 8).

Definition stripes (acc : list Z) (inp : list Z) (base : Z) (n : nat) : list Z :=
  fold_left (fun a s => accumulate a inp (base + 64 * Z.of_nat s) (8 * Z.of_nat s)) (seq 0 n) acc.

Definition hash_long (inp : list Z) (len : Z) : Z :=
  let nb_blocks := Z.to_nat ((len - 1) / 1024) in
  let acc1 := fold_left (fun a b => scramble (stripes a inp (1024 * Z.of_nat b) 16)) (seq 0 nb_blocks) acc0 in
  let rest := (len - 1) - 1024 * Z.of_nat nb_blocks in
  let acc2 := stripes acc1 inp (1024 * Z.of_nat nb_blocks) (Z.to_nat (rest / 64)) in
  let acc3 := accumulate acc2 inp (len - 64) 121 in
  let m i := mix (Z.lxor (nth (2 * i) acc3 0) (rd64 secret (11 + 16 * Z.of_nat i)))
                 (Z.lxor (nth (2 * i + 1) acc3 0) (rd64 secret (11 + 16 * Z.of_nat i + 8))) in
  avalanche3 (w (len * P64_1 + m 0%nat + m 1%nat + m 2%nat + m 3%nat)).

Definition xxh3_64 (inp : list Z) : Z :=
  let len := Z.of_nat (length inp) in
  if len =? 0 then len_0
  else if len <=? 3 then len_1to3 inp len
  else if len <=? 8 then len_4to8 inp len
  else if len <=? 16 then len_9to16 inp len
  else if len <=? 128 then len_17to128 inp len
  else if len <=? 240 then len_129to240 inp len
  else hash_long inp len.

Definition input (n : nat) : list Z := map (fun i => (Z.of_nat i * 7 + 3) mod 256) (seq 0 n).

Example v0 : xxh3_64 (input 0) = 3244421341483603138. Proof. vm_compute. reflexivity. Qed.
Example v1 : xxh3_64 (input 1) = 1433843135270481901. Proof. vm_compute. reflexivity. Qed.
Example v2 : xxh3_64 (input 2) = 2058273368586827884. Proof. vm_compute. reflexivity. Qed.
Example v3 : xxh3_64 (input 3) = 12180141160879835164. Proof. vm_compute. reflexivity. Qed.
Example v4 : xxh3_64 (input 4) = 7895465118229274323. Proof. vm_compute. reflexivity. Qed.
Example v5 : xxh3_64 (input 5) = 11062565685660633911. Proof. vm_compute. reflexivity. Qed.
Example v8 : xxh3_64 (input 8) = 6941064856527638883. Proof. vm_compute. reflexivity. Qed.
Example v9 : xxh3_64 (input 9) = 18374517719163151272. Proof. vm_compute. reflexivity. Qed.
Example v16 : xxh3_64 (input 16) = 13314990914799711621. Proof. vm_compute. reflexivity. Qed.
Example v17 : xxh3_64 (input 17) = 8163341949877205007. Proof. vm_compute. reflexivity. Qed.
Example v32 : xxh3_64 (input 32) = 1873302701886544469. Proof. vm_compute. reflexivity. Qed.
Example v33 : xxh3_64 (input 33) = 4486878507168070088. Proof. vm_compute. reflexivity. Qed.
Example v64 : xxh3_64 (input 64) = 2917965298538373825. Proof. vm_compute. reflexivity. Qed.
Example v65 : xxh3_64 (input 65) = 9408609914592003654. Proof. vm_compute. reflexivity. Qed.
Example v96 : xxh3_64 (input 96) = 17331232145433315139. Proof. vm_compute. reflexivity. Qed.
Example v97 : xxh3_64 (input 97) = 2137665177113230204. Proof. vm_compute. reflexivity. Qed.
Example v128 : xxh3_64 (input 128) = 7440608504995537343. Proof. vm_compute. reflexivity. Qed.
Example v129 : xxh3_64 (input 129) = 14295761343243267012. Proof. vm_compute. reflexivity. Qed.
Example v200 : xxh3_64 (input 200) = 8389308914288017243. Proof. vm_compute. reflexivity. Qed.
Example v240 : xxh3_64 (input 240) = 7229805477010515663. Proof. vm_compute. reflexivity. Qed.
Example v241 : xxh3_64 (input 241) = 10082113959289486871. Proof. vm_compute. reflexivity. Qed.
Example v1024 : xxh3_64 (input 1024) = 11205349619999208113. Proof. vm_compute. reflexivity. Qed.
Example v1025 : xxh3_64 (input 1025) = 9253807012321506678. Proof. vm_compute. reflexivity. Qed.
Example v2048 : xxh3_64 (input 2048) = 12386592778227166929. Proof. vm_compute. reflexivity. Qed.
Example v2049 : xxh3_64 (input 2049) = 6174105427284153526. Proof. vm_compute. reflexivity. Qed.
Example v4097 : xxh3_64 (input 4097) = 11898137487726195576. Proof. vm_compute. reflexivity. Qed.
