(* Spike C16: the Go code's unrolled 17..128 class equals the loop-form spec, for every input *)
From Coq Require Import List ZArith Lia.
Require Import XXH3Spec.
Import ListNotations.
Local Open Scope Z_scope.
Ltac Zify.zify_post_hook ::= Z.div_mod_to_equations.

(* hash.go, xxh3HashLarge, branch length <= 128, with acc += ... wrapping at every step *)
Definition impl_17to128 (inp : list Z) (len : Z) : Z :=
  let acc := w (len * P64_1) in
  let acc :=
    if 32 <? len then
      let acc :=
        if 64 <? len then
          let acc :=
            if 96 <? len then
              let acc := w (acc + mix16 inp 48 96) in
              w (acc + mix16 inp (len - 64) 112)
            else acc in
          let acc := w (acc + mix16 inp 32 64) in
          w (acc + mix16 inp (len - 48) 80)
        else acc in
      let acc := w (acc + mix16 inp 16 32) in
      w (acc + mix16 inp (len - 32) 48)
    else acc in
  let acc := w (acc + mix16 inp 0 0) in
  let acc := w (acc + mix16 inp (len - 16) 16) in
  avalanche3 acc.

Lemma w_add_l a b : w (w a + b) = w (a + b).
Proof. unfold w. apply Zplus_mod_idemp_l. Qed.

(* wrapping additions performed one by one = one wrapped sum *)
Lemma wrap_fold ts : forall x, fold_left (fun acc t => w (acc + t)) ts (w x) = w (x + sumZ ts).
Proof.
  unfold sumZ. induction ts as [|t ts IH]; intros x; simpl.
  - now rewrite Z.add_0_r.
  - rewrite w_add_l, IH. f_equal.
    assert (H : forall l a, fold_left Z.add l a = a + fold_left Z.add l 0).
    { induction l as [|y l IHl]; intros a0; simpl; [lia|]. rewrite IHl, (IHl y). lia. }
    rewrite (H ts t). lia.
Qed.

Theorem impl_17to128_ok inp len : 17 <= len <= 128 -> impl_17to128 inp len = len_17to128 inp len.
Proof.
  intros H. unfold impl_17to128, len_17to128.
  assert (Hq : (len - 1) / 32 = 0 \/ (len - 1) / 32 = 1 \/ (len - 1) / 32 = 2 \/ (len - 1) / 32 = 3) by lia.
  destruct Hq as [Hq|[Hq|[Hq|Hq]]]; rewrite Hq;
    [ assert (len <= 32) by lia | assert (32 < len <= 64) by lia
    | assert (64 < len <= 96) by lia | assert (96 < len) by lia ].
  all: repeat match goal with
       | |- context [?a <? ?l] => let E := fresh "E" in
           first [ assert (E : (a <? l) = true) by (apply Z.ltb_lt; lia)
                 | assert (E : (a <? l) = false) by (apply Z.ltb_ge; lia) ]; rewrite E
       end.
  all: f_equal.
  - change (fold_left (fun acc t => w (acc + t)) [mix16 inp 0 0; mix16 inp (len - 16) 16] (w (len * P64_1)) = 
            w (len * P64_1 + sumZ [mix16 inp (16 * 0) (32 * 0); mix16 inp (len - 16 * (0 + 1)) (32 * 0 + 16)])).
    rewrite wrap_fold. reflexivity.
  - change (fold_left (fun acc t => w (acc + t))
              [mix16 inp 16 32; mix16 inp (len - 32) 48; mix16 inp 0 0; mix16 inp (len - 16) 16] (w (len * P64_1)) =
            w (len * P64_1 + sumZ [mix16 inp 0 0; mix16 inp (len - 16) 16; mix16 inp 16 32; mix16 inp (len - 32) 48])).
    rewrite wrap_fold. f_equal. unfold sumZ. cbn [fold_left]. ring.
  - change (fold_left (fun acc t => w (acc + t))
              [mix16 inp 32 64; mix16 inp (len - 48) 80; mix16 inp 16 32; mix16 inp (len - 32) 48;
               mix16 inp 0 0; mix16 inp (len - 16) 16] (w (len * P64_1)) =
            w (len * P64_1 + sumZ [mix16 inp 0 0; mix16 inp (len - 16) 16; mix16 inp 16 32; mix16 inp (len - 32) 48;
                                   mix16 inp 32 64; mix16 inp (len - 48) 80])).
    rewrite wrap_fold. f_equal. unfold sumZ. cbn [fold_left]. ring.
  - change (fold_left (fun acc t => w (acc + t))
              [mix16 inp 48 96; mix16 inp (len - 64) 112; mix16 inp 32 64; mix16 inp (len - 48) 80;
               mix16 inp 16 32; mix16 inp (len - 32) 48; mix16 inp 0 0; mix16 inp (len - 16) 16] (w (len * P64_1)) =
            w (len * P64_1 + sumZ [mix16 inp 0 0; mix16 inp (len - 16) 16; mix16 inp 16 32; mix16 inp (len - 32) 48;
                                   mix16 inp 32 64; mix16 inp (len - 48) 80; mix16 inp 48 96; mix16 inp (len - 64) 112])).
    rewrite wrap_fold. f_equal. unfold sumZ. cbn [fold_left]. ring.
Qed.
Print Assumptions impl_17to128_ok.
