(* Spike: a brute-force linearizability checker, sound and complete *)
From Coq Require Import List NArith Lia Bool Permutation.
Import ListNotations.

Section Lin.
Variables (S C R : Type).
Variable step : S -> C -> S * R.
Variable req : R -> R -> bool.
Hypothesis req_spec : forall a b, req a b = true <-> a = b.

Record op := { inv : N; resp : N; call : C; ret : R }.

(* a sequential order is acceptable if no later operation had already responded
   before an earlier one was invoked, and the spec reproduces every result *)
Fixpoint rt_ok (l : list op) : Prop :=
  match l with
  | [] => True
  | o :: l' => (forall p, In p l' -> ~ (resp p < inv o)%N) /\ rt_ok l'
  end.

Fixpoint seq_ok (s : S) (l : list op) : Prop :=
  match l with
  | [] => True
  | o :: l' => let '(s', r) := step s (call o) in r = ret o /\ seq_ok s' l'
  end.

Definition linearizable (s : S) (h : list op) : Prop :=
  exists l, Permutation h l /\ rt_ok l /\ seq_ok s l.

(* all ways of picking one element, with the remainder *)
Fixpoint picks {A} (l : list A) : list (A * list A) :=
  match l with
  | [] => []
  | x :: l' => (x, l') :: map (fun '(y, r) => (y, x :: r)) (picks l')
  end.

Definition minimal (o : op) (rest : list op) : bool :=
  forallb (fun p => negb (resp p <? inv o)%N) rest.

Fixpoint search (fuel : nat) (s : S) (pending : list op) : bool :=
  match pending with
  | [] => true
  | _ =>
    match fuel with
    | O => false
    | Datatypes.S fuel' =>
      existsb (fun '(o, rest) =>
                 let '(s', r) := step s (call o) in
                 minimal o rest && req r (ret o) && search fuel' s' rest)
              (picks pending)
    end
  end.

Definition lin_check (s : S) (h : list op) : bool := search (length h) s h.

Lemma picks_perm {A} (l : list A) x r : In (x, r) (picks l) -> Permutation l (x :: r).
Proof.
  revert x r. induction l as [|a l IH]; simpl; intros x r H; [tauto|].
  destruct H as [H|H].
  - inversion H; subst. reflexivity.
  - apply in_map_iff in H. destruct H as ([y r'] & Heq & Hin). inversion Heq; subst.
    apply IH in Hin. rewrite Hin. apply perm_swap.
Qed.

Lemma picks_complete {A} (l : list A) x l' :
  Permutation l (x :: l') -> exists r, In (x, r) (picks l) /\ Permutation r l'.
Proof.
  revert x l'. induction l as [|a l IH]; intros x l' HP.
  - apply Permutation_nil in HP. discriminate.
  - assert (Hin : In x (a :: l)) by (eapply Permutation_in; [symmetry; exact HP|left; reflexivity]).
    destruct Hin as [->|Hin].
    + exists l. split; [left; reflexivity|]. eapply Permutation_cons_inv; eauto.
    + destruct (in_split _ _ Hin) as (l1 & l2 & ->).
      assert (HP' : Permutation (l1 ++ x :: l2) (x :: l1 ++ l2)) by (symmetry; apply Permutation_middle).
      destruct (IH x (l1 ++ l2) HP') as (r & Hr & Hperm).
      exists (a :: r). split.
      * right. apply in_map_iff. exists (x, r). auto.
      * (* a :: r ~ l' *)
        apply Permutation_cons_inv with x.
        rewrite <- HP. rewrite perm_swap. constructor. rewrite Hperm. apply Permutation_middle.
Qed.

Lemma picks_length {A} (l : list A) x r : In (x, r) (picks l) -> Datatypes.S (length r) = length l.
Proof. intros H. apply picks_perm in H. apply Permutation_length in H. simpl in H. lia. Qed.

Lemma minimal_spec o rest : minimal o rest = true <-> (forall p, In p rest -> ~ (resp p < inv o)%N).
Proof.
  unfold minimal. rewrite forallb_forall. split; intros H p Hp; specialize (H p Hp).
  - rewrite negb_true_iff, N.ltb_ge in H. lia.
  - rewrite negb_true_iff, N.ltb_ge. lia.
Qed.

Theorem search_sound fuel s pending :
  search fuel s pending = true ->
  exists l, Permutation pending l /\ rt_ok l /\ seq_ok s l.
Proof.
  revert s pending. induction fuel as [|fuel IH]; intros s pending H.
  - destruct pending; simpl in H; [|discriminate]. exists []. simpl. auto.
  - destruct pending as [|o0 pend]; [exists []; simpl; auto|].
    cbn [search] in H. apply existsb_exists in H. destruct H as ([o rest] & Hin & H).
    destruct (step s (call o)) as [s' r] eqn:Es.
    apply andb_true_iff in H. destruct H as [H Hs]. apply andb_true_iff in H. destruct H as [Hm Hr].
    apply IH in Hs. destruct Hs as (l & HP & Hrt & Hseq).
    exists (o :: l). split; [|split].
    + rewrite (picks_perm _ _ _ Hin). constructor. exact HP.
    + simpl. split; auto. rewrite minimal_spec in Hm. intros p Hp. apply Hm.
      eapply Permutation_in; [symmetry; exact HP|exact Hp].
    + simpl. rewrite Es. split; auto. now apply req_spec.
Qed.

Theorem search_complete l : forall fuel s pending,
  Permutation pending l -> rt_ok l -> seq_ok s l -> length pending <= fuel ->
  search fuel s pending = true.
Proof.
  induction l as [|o l IH]; intros fuel s pending HP Hrt Hseq Hlen.
  - apply Permutation_sym, Permutation_nil in HP. subst. destruct fuel; reflexivity.
  - destruct pending as [|o0 pend]; [apply Permutation_nil in HP; discriminate|].
    destruct fuel as [|fuel]; [simpl in Hlen; lia|].
    cbn [search]. apply existsb_exists.
    destruct (picks_complete _ _ _ HP) as (rest & Hin & Hperm).
    exists (o, rest). split; [exact Hin|].
    simpl in Hrt, Hseq. destruct Hrt as [Hmin Hrt].
    destruct (step s (call o)) as [s' r] eqn:Es. destruct Hseq as [Hr Hseq].
    apply andb_true_iff. split; [apply andb_true_iff; split|].
    + apply minimal_spec. intros p Hp. apply Hmin. eapply Permutation_in; eauto.
    + now apply req_spec.
    + apply IH; auto. apply picks_length in Hin. simpl in *. lia.
Qed.

Theorem lin_check_correct s h : lin_check s h = true <-> linearizable s h.
Proof.
  unfold lin_check, linearizable. split.
  - apply search_sound.
  - intros (l & HP & Hrt & Hseq). eapply search_complete; eauto.
Qed.

End Lin.
Print Assumptions lin_check_correct.
