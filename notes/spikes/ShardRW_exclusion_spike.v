(* Spike: syncx.RWMutex = k sync.RWMutex shards; a writer locks them one after another,
   a reader read-locks one (whichever P it runs on).  Mutual exclusion for every schedule. *)
From Coq Require Import List Arith Lia Bool.
Import ListNotations.

Arguments Nat.leb : simpl never.
Arguments Nat.ltb : simpl never.

Section ShardRW.
Variable k : nat.                       (* number of shards, >= 1 *)

Record shard := { writer : option nat; readers : list nat }.

Inductive pc :=
| Idle
| RHold (i : nat)                       (* reader holds shard i *)
| WLocking (next : nat)                 (* inside Lock(): shards < next are held *)
| WHold                                 (* Lock() returned *)
| WUnlocking (next : nat).              (* inside Unlock(): shards < next already released *)

Record world := { shards : list shard; pcs : list pc }.

Definition upd {A} (l : list A) (i : nat) (x : A) : list A :=
  firstn i l ++ match skipn i l with [] => [] | _ :: t => x :: t end.

Inductive action := RLock (i : nat) | RUnlock | WStep.   (* what the scheduled thread tries next *)

Definition step (w : world) (ta : nat * action) : world :=
  let '(t, a) := ta in
  match nth_error (pcs w) t, a with
  | Some Idle, RLock i =>
    match nth_error (shards w) i with
    | Some s => match writer s with
                | None => {| shards := upd (shards w) i {| writer := None; readers := t :: readers s |};
                             pcs := upd (pcs w) t (RHold i) |}
                | Some _ => w
                end
    | None => w
    end
  | Some (RHold i), RUnlock =>
    match nth_error (shards w) i with
    | Some s => {| shards := upd (shards w) i {| writer := writer s; readers := remove Nat.eq_dec t (readers s) |};
                   pcs := upd (pcs w) t Idle |}
    | None => w
    end
  | Some Idle, WStep => {| shards := shards w; pcs := upd (pcs w) t (WLocking 0) |}
  | Some (WLocking j), WStep =>
    if j =? k then {| shards := shards w; pcs := upd (pcs w) t WHold |}
    else match nth_error (shards w) j with
         | Some s => match writer s, readers s with
                     | None, [] => {| shards := upd (shards w) j {| writer := Some t; readers := [] |};
                                      pcs := upd (pcs w) t (WLocking (S j)) |}
                     | _, _ => w
                     end
         | None => w
         end
  | Some WHold, WStep => {| shards := shards w; pcs := upd (pcs w) t (WUnlocking 0) |}
  | Some (WUnlocking j), WStep =>
    if j =? k then {| shards := shards w; pcs := upd (pcs w) t Idle |}
    else match nth_error (shards w) j with
         | Some s => {| shards := upd (shards w) j {| writer := None; readers := readers s |};
                        pcs := upd (pcs w) t (WUnlocking (S j)) |}
         | None => w
         end
  | _, _ => w
  end.

Definition run (w : world) (sched : list (nat * action)) : world := fold_left step sched w.

(* which shards a thread in state p holds for writing *)
Definition wholds (p : pc) (i : nat) : bool :=
  match p with
  | WLocking j => i <? j
  | WHold => i <? k
  | WUnlocking j => (j <=? i) && (i <? k)
  | _ => false
  end.

Record Inv (w : world) : Prop := {
  inv_len : length (shards w) = k;
  (* per-shard RWMutex exclusion *)
  inv_rw : forall i s, nth_error (shards w) i = Some s -> writer s <> None -> readers s = [];
  (* a write-held shard names its holder, and vice versa *)
  inv_w1 : forall t p i, nth_error (pcs w) t = Some p -> wholds p i = true ->
           exists s, nth_error (shards w) i = Some s /\ writer s = Some t;
  inv_w2 : forall i s t, nth_error (shards w) i = Some s -> writer s = Some t ->
           exists p, nth_error (pcs w) t = Some p /\ wholds p i = true;
  (* a reader in its critical section is registered on its shard *)
  inv_r : forall t i, nth_error (pcs w) t = Some (RHold i) ->
          exists s, nth_error (shards w) i = Some s /\ In t (readers s)
}.

Lemma nth_error_upd_same {A} (l : list A) i x y : nth_error l i = Some y -> nth_error (upd l i x) i = Some x.
Proof. unfold upd. revert l. induction i as [|i IH]; intros [|a l]; simpl; try discriminate; auto. Qed.
Lemma nth_error_upd_other {A} (l : list A) i j x : i <> j -> nth_error (upd l i x) j = nth_error l j.
Proof.
  unfold upd. revert l j. induction i as [|i IH]; intros l j H.
  - destruct l as [|a l]; simpl; auto. destruct j; [congruence|reflexivity].
  - destruct l as [|a l]; simpl; auto. destruct j; [reflexivity|]. simpl. apply IH. congruence.
Qed.
Lemma length_upd {A} (l : list A) i x : length (upd l i x) = length l.
Proof.
  unfold upd. rewrite app_length, firstn_length.
  destruct (skipn i l) eqn:E; simpl.
  - assert (length (skipn i l) = 0) by now rewrite E. rewrite skipn_length in H. lia.
  - assert (length (skipn i l) = S (length l0)) by now rewrite E. rewrite skipn_length in H. lia.
Qed.

(* look up position j in a list updated at i *)
Ltac upd_cases i j :=
  destruct (Nat.eq_dec i j) as [?|?];
  [subst; repeat match goal with
          | H : nth_error ?l ?i = Some _, H' : context [nth_error (upd ?l ?i _) ?i] |- _ =>
            rewrite (nth_error_upd_same _ _ _ _ H) in H'
          | H : nth_error ?l ?i = Some _ |- context [nth_error (upd ?l ?i _) ?i] =>
            rewrite (nth_error_upd_same _ _ _ _ H)
          end
  |repeat match goal with
          | H' : context [nth_error (upd _ i _) j] |- _ => rewrite nth_error_upd_other in H' by assumption
          | |- context [nth_error (upd _ i _) j] => rewrite nth_error_upd_other by assumption
          end].

Theorem exclusion w :
  Inv w -> 1 <= k ->
  forall tw tr i, nth_error (pcs w) tw = Some WHold -> nth_error (pcs w) tr = Some (RHold i) -> False.
Proof.
  intros HI Hk tw tr i Hw Hr.
  destruct (inv_r w HI tr i Hr) as (s & Hs & Hin).
  assert (Hi : i < k). { rewrite <- (inv_len w HI). apply nth_error_Some. congruence. }
  destruct (inv_w1 w HI tw WHold i Hw) as (s' & Hs' & Hws'). { simpl. now apply Nat.ltb_lt. }
  rewrite Hs in Hs'. inversion Hs'; subst s'.
  assert (readers s = []) by (eapply inv_rw; eauto; congruence).
  rewrite H in Hin. destruct Hin.
Qed.

Lemma wholds_false_RHold i j : wholds (RHold i) j = false. Proof. reflexivity. Qed.

Theorem step_inv w ta : Inv w -> Inv (step w ta).
Proof.
  intros HI. destruct ta as [t a]. unfold step.
  destruct (nth_error (pcs w) t) as [p|] eqn:Ep; [|exact HI].
  destruct HI as [Hlen Hrw Hw1 Hw2 Hr].
  destruct p as [|i|next| |next]; destruct a as [i0| |]; try (constructor; assumption).
  all: try rename i0 into i.
  - (* Idle, RLock i *)
    destruct (nth_error (shards w) i) as [s|] eqn:Es; [|constructor; assumption].
    destruct (writer s) eqn:Ews; [constructor; assumption|].
    constructor; cbn [shards pcs].
    + now rewrite length_upd.
    + intros i' s' Hs' Hne. upd_cases i i'.
      * inversion Hs'; subst s'. simpl in Hne. congruence.
      * eauto.
    + intros t' p' i' Hp' Hh. upd_cases t t'.
      * inversion Hp'; subst p'. discriminate.
      * destruct (Hw1 _ _ _ Hp' Hh) as (s' & Hs' & Hws').
        upd_cases i i'; [rewrite Es in Hs'; inversion Hs'; subst; congruence|eauto].
    + intros i' s' t' Hs' Hws'. upd_cases i i'.
      * inversion Hs'; subst s'. simpl in Hws'. discriminate.
      * destruct (Hw2 _ _ _ Hs' Hws') as (p' & Hp' & Hh).
        upd_cases t t'; [rewrite Ep in Hp'; inversion Hp'; subst; discriminate|eauto].
    + intros t' i' Hp'. upd_cases t t'.
      * inversion Hp'; subst i'. rewrite (nth_error_upd_same _ _ _ _ Es). eexists; split; eauto. simpl; auto.
      * destruct (Hr _ _ Hp') as (s' & Hs' & Hin). upd_cases i i'.
        -- rewrite Es in Hs'. inversion Hs'; subst s'. eexists; split; eauto. simpl; auto.
        -- eauto.
  - (* Idle, WStep: start locking *)
    constructor; cbn [shards pcs]; auto.
    + intros t' p' i' Hp' Hh. upd_cases t t'; [inversion Hp'; subst; discriminate|eauto].
    + intros i' s' t' Hs' Hws'. destruct (Hw2 _ _ _ Hs' Hws') as (p' & Hp' & Hh).
      upd_cases t t'; [rewrite Ep in Hp'; inversion Hp'; subst; discriminate|eauto].
    + intros t' i' Hp'. upd_cases t t'; [discriminate|eauto].
  - (* RHold i, RUnlock *)
    destruct (nth_error (shards w) i) as [s|] eqn:Es; [|constructor; assumption].
    constructor; cbn [shards pcs].
    + now rewrite length_upd.
    + intros i' s' Hs' Hne. upd_cases i i'.
      * inversion Hs'; subst s'. simpl in *. rewrite (Hrw _ _ Es Hne). reflexivity.
      * eauto.
    + intros t' p' i' Hp' Hh. upd_cases t t'.
      * inversion Hp'; subst p'. discriminate.
      * destruct (Hw1 _ _ _ Hp' Hh) as (s' & Hs' & Hws').
        upd_cases i i'; [rewrite Es in Hs'; inversion Hs'; subst; eexists; split; eauto|eauto].
    + intros i' s' t' Hs' Hws'. upd_cases i i'.
      * inversion Hs'; subst s'. simpl in Hws'.
        destruct (Hw2 _ _ _ Es Hws') as (p' & Hp' & Hh).
        upd_cases t t'; [rewrite Ep in Hp'; inversion Hp'; subst; discriminate|eauto].
      * destruct (Hw2 _ _ _ Hs' Hws') as (p' & Hp' & Hh).
        upd_cases t t'; [rewrite Ep in Hp'; inversion Hp'; subst; discriminate|eauto].
    + intros t' i' Hp'. upd_cases t t'; [discriminate|].
      destruct (Hr _ _ Hp') as (s' & Hs' & Hin). upd_cases i i'.
      * rewrite Es in Hs'. inversion Hs'; subst s'. eexists; split; eauto. simpl.
        apply in_in_remove; auto.
      * eauto.
  - (* WLocking next *)
    destruct (next =? k) eqn:Ek.
    + apply Nat.eqb_eq in Ek. subst next.
      constructor; cbn [shards pcs]; auto.
      * intros t' p' i' Hp' Hh. upd_cases t t'; [inversion Hp'; subst p'; apply (Hw1 _ _ _ Ep); exact Hh|eauto].
      * intros i' s' t' Hs' Hws'. destruct (Hw2 _ _ _ Hs' Hws') as (p' & Hp' & Hh).
        upd_cases t t'; [rewrite Ep in Hp'; inversion Hp'; subst; eexists; split; eauto|eauto].
      * intros t' i' Hp'. upd_cases t t'; [discriminate|eauto].
    + apply Nat.eqb_neq in Ek.
      destruct (nth_error (shards w) next) as [s|] eqn:Es; [|constructor; assumption].
      destruct (writer s) eqn:Ews; [constructor; assumption|].
      destruct (readers s) eqn:Ers; [|constructor; assumption].
      constructor; cbn [shards pcs].
      * now rewrite length_upd.
      * intros i' s' Hs' Hne. upd_cases next i'; [inversion Hs'; subst; reflexivity|eauto].
      * intros t' p' i' Hp' Hh. upd_cases t t'.
        -- inversion Hp'; subst p'. simpl in Hh. apply Nat.ltb_lt in Hh.
           upd_cases next i'; [eexists; split; eauto|].
           apply (Hw1 _ _ _ Ep). simpl. apply Nat.ltb_lt. lia.
        -- destruct (Hw1 _ _ _ Hp' Hh) as (s' & Hs' & Hws').
           upd_cases next i'; [rewrite Es in Hs'; inversion Hs'; subst; congruence|eauto].
      * intros i' s' t' Hs' Hws'. upd_cases next i'.
        -- inversion Hs'; subst s'. simpl in Hws'. inversion Hws'; subst t'.
           rewrite (nth_error_upd_same _ _ _ _ Ep). eexists; split; eauto. simpl. apply Nat.ltb_lt. lia.
        -- destruct (Hw2 _ _ _ Hs' Hws') as (p' & Hp' & Hh).
           upd_cases t t'.
           ++ rewrite Ep in Hp'. inversion Hp'; subst p'. eexists; split; eauto.
              simpl in *. apply Nat.ltb_lt in Hh. apply Nat.ltb_lt. lia.
           ++ eauto.
      * intros t' i' Hp'. upd_cases t t'; [discriminate|].
        destruct (Hr _ _ Hp') as (s' & Hs' & Hin).
        upd_cases next i'; [rewrite Es in Hs'; inversion Hs'; subst; rewrite Ers in Hin; destruct Hin|eauto].
  - (* WHold, WStep: start unlocking *)
    constructor; cbn [shards pcs]; auto.
    + intros t' p' i' Hp' Hh. upd_cases t t'; [inversion Hp'; subst p'; apply (Hw1 _ _ _ Ep); simpl in *; exact Hh|eauto].
    + intros i' s' t' Hs' Hws'. destruct (Hw2 _ _ _ Hs' Hws') as (p' & Hp' & Hh).
      upd_cases t t'; [rewrite Ep in Hp'; inversion Hp'; subst; eexists; split; eauto|eauto].
    + intros t' i' Hp'. upd_cases t t'; [discriminate|eauto].
  - (* WUnlocking next *)
    destruct (next =? k) eqn:Ek.
    + apply Nat.eqb_eq in Ek. subst next.
      constructor; cbn [shards pcs]; auto.
      * intros t' p' i' Hp' Hh. upd_cases t t'; [inversion Hp'; subst; discriminate|eauto].
      * intros i' s' t' Hs' Hws'. destruct (Hw2 _ _ _ Hs' Hws') as (p' & Hp' & Hh).
        upd_cases t t'; [|eauto].
        rewrite Ep in Hp'. inversion Hp'; subst p'. simpl in Hh.
        apply andb_true_iff in Hh. destruct Hh as [H1 H2]. apply Nat.leb_le in H1. apply Nat.ltb_lt in H2. lia.
      * intros t' i' Hp'. upd_cases t t'; [discriminate|eauto].
    + apply Nat.eqb_neq in Ek.
      destruct (nth_error (shards w) next) as [s|] eqn:Es; [|constructor; assumption].
      constructor; cbn [shards pcs].
      * now rewrite length_upd.
      * intros i' s' Hs' Hne. upd_cases next i'; [inversion Hs'; subst; simpl in Hne; congruence|eauto].
      * intros t' p' i' Hp' Hh. upd_cases t t'.
        -- inversion Hp'; subst p'. simpl in Hh. apply andb_true_iff in Hh. destruct Hh as [H1 H2].
           apply Nat.leb_le in H1. apply Nat.ltb_lt in H2.
           upd_cases next i'; [lia|].
           apply (Hw1 _ _ _ Ep). simpl. apply andb_true_iff. split; [apply Nat.leb_le; lia|apply Nat.ltb_lt; lia].
        -- destruct (Hw1 _ _ _ Hp' Hh) as (s' & Hs' & Hws').
           upd_cases next i'; [|eauto].
           (* shard next is held by t, not by t' *)
           rewrite Es in Hs'. inversion Hs'; subst s'.
           assert (Hn : i' < k) by (rewrite <- Hlen; apply nth_error_Some; congruence).
           destruct (Hw1 t (WUnlocking i') i' Ep) as (s2 & Hs2 & Hws2).
           { simpl. apply andb_true_iff. split; [apply Nat.leb_le; lia|apply Nat.ltb_lt; lia]. }
           rewrite Es in Hs2. inversion Hs2; subst s2. congruence.
      * intros i' s' t' Hs' Hws'. upd_cases next i'; [inversion Hs'; subst; discriminate|].
        destruct (Hw2 _ _ _ Hs' Hws') as (p' & Hp' & Hh).
        upd_cases t t'; [|eauto].
        rewrite Ep in Hp'. inversion Hp'; subst p'. eexists; split; eauto.
        simpl in *. apply andb_true_iff in Hh. destruct Hh as [H1 H2]. apply Nat.leb_le in H1.
        apply andb_true_iff. split; [apply Nat.leb_le; lia|exact H2].
      * intros t' i' Hp'. upd_cases t t'; [discriminate|].
        destruct (Hr _ _ Hp') as (s' & Hs' & Hin).
        upd_cases next i'; [rewrite Es in Hs'; inversion Hs'; subst; eexists; split; eauto|eauto].
Qed.

Definition init (nthreads : nat) : world :=
  {| shards := repeat {| writer := None; readers := [] |} k; pcs := repeat Idle nthreads |}.

Lemma init_inv nthreads : Inv (init nthreads).
Proof.
  constructor; simpl.
  - apply repeat_length.
  - intros i s Hs Hne. apply nth_error_In in Hs. apply repeat_spec in Hs. subst. simpl in Hne. congruence.
  - intros t p i Hp Hh. apply nth_error_In in Hp. apply repeat_spec in Hp. subst. discriminate.
  - intros i s t Hs Hw. apply nth_error_In in Hs. apply repeat_spec in Hs. subst. discriminate.
  - intros t i Hp. apply nth_error_In in Hp. apply repeat_spec in Hp. discriminate.
Qed.

Theorem rw_exclusion nthreads sched :
  1 <= k ->
  let w := run (init nthreads) sched in
  forall tw tr i, nth_error (pcs w) tw = Some WHold -> nth_error (pcs w) tr = Some (RHold i) -> False.
Proof.
  intros Hk w. apply exclusion; auto. subst w.
  assert (H : Inv (init nthreads)) by apply init_inv.
  revert H. generalize (init nthreads). induction sched as [|a sched IH]; simpl; intros w0 H; auto.
  apply IH. now apply step_inv.
Qed.

End ShardRW.
Print Assumptions rw_exclusion.
