(* Spike: AVL tree, functional mirror of avltree.go (see avl_functional_mirror.py) *)
From Coq Require Import List ZArith Lia Bool.
Import ListNotations.
Local Open Scope Z_scope.

Section AVL.
Variables K V : Type.
Variable cmp : K -> K -> Z.

Inductive tree := E | T (l : tree) (k : K) (v : V) (b : Z) (r : tree).
Inductive dir := Lft | Rgt.          (* c = -1 / +1 ; child index a = 0 / 1 *)
Definition sg (d : dir) : Z := match d with Lft => -1 | Rgt => 1 end.
Definition opp (d : dir) := match d with Lft => Rgt | Rgt => Lft end.

Definition ch (d : dir) (t : tree) : tree :=
  match t with E => E | T l _ _ _ r => match d with Lft => l | Rgt => r end end.
Definition setch (d : dir) (t x : tree) : tree :=
  match t with E => E | T l k v b r => match d with Lft => T x k v b r | Rgt => T l k v b x end end.
Definition bal (t : tree) : Z := match t with E => 0 | T _ _ _ b _ => b end.
Definition setb (t : tree) (b : Z) : tree := match t with E => E | T l k v _ r => T l k v b r end.

Definition rotate (c : dir) (s : tree) : tree :=
  let r := ch c s in
  let s2 := setch c s (ch (opp c) r) in
  setch (opp c) r s2.

Definition singlerot (c : dir) (s : tree) : tree := setb (rotate c (setb s 0)) 0.

Definition doublerot (c : dir) (s : tree) : tree :=
  let r := ch c s in
  let s1 := setch c s (rotate (opp c) r) in
  let p := rotate c s1 in
  let pb := bal p in
  let '(sb, rb) := if pb =? sg c then (- sg c, 0) else if pb =? - sg c then (0, sg c) else (0, 0) in
  let olds := setb (ch (opp c) p) sb in
  let oldr := setb (ch c p) rb in
  setb (setch c (setch (opp c) p olds) oldr) 0.

Definition putFix (c : dir) (s : tree) : tree * bool :=
  if bal s =? 0 then (setb s (sg c), true)
  else if bal s =? - sg c then (setb s 0, false)
  else if bal (ch c s) =? sg c then (singlerot c s, false)
  else (doublerot c s, false).

Definition removeFix (c : dir) (s : tree) : tree * bool :=
  if bal s =? 0 then (setb s (sg c), false)
  else if bal s =? - sg c then (setb s 0, true)
  else if bal (ch c s) =? 0 then (setb (rotate c s) (- sg c), false)
  else if bal (ch c s) =? sg c then (singlerot c s, true)
  else (doublerot c s, true).

Fixpoint put (k : K) (v : V) (q : tree) : tree * bool :=
  match q with
  | E => (T E k v 0 E, true)
  | T l k' v' b r =>
    let d := cmp k k' in
    if d =? 0 then (T l k v b r, false)
    else if d <? 0 then
      let '(l', fix_) := put k v l in
      if fix_ then putFix Lft (T l' k' v' b r) else (T l' k' v' b r, false)
    else
      let '(r', fix_) := put k v r in
      if fix_ then putFix Rgt (T l k' v' b r') else (T l k' v' b r', false)
  end.

Fixpoint removeMin (q : tree) : tree * option (K * V) * bool :=
  match q with
  | E => (E, None, false)
  | T l k v b r =>
    match l with
    | E => (r, Some (k, v), true)
    | _ => let '(l', mk, fix_) := removeMin l in
           if fix_ then let '(q', f) := removeFix Rgt (T l' k v b r) in (q', mk, f)
           else (T l' k v b r, mk, false)
    end
  end.

Fixpoint remove (x : K) (q : tree) : tree * bool :=
  match q with
  | E => (E, false)
  | T l k v b r =>
    let d := cmp x k in
    if d =? 0 then
      match r with
      | E => (l, true)
      | _ => let '(r', mk, fix_) := removeMin r in
             match mk with
             | Some (mk', mv') =>
               if fix_ then removeFix Lft (T l mk' mv' b r') else (T l mk' mv' b r', false)
             | None => (q, false)
             end
      end
    else if d <? 0 then
      let '(l', fix_) := remove x l in
      if fix_ then removeFix Rgt (T l' k v b r) else (T l' k v b r, false)
    else
      let '(r', fix_) := remove x r in
      if fix_ then removeFix Lft (T l k v b r') else (T l k v b r', false)
  end.

(* invariant: stored balance = height(right) - height(left) in {-1,0,1} *)
Fixpoint height (t : tree) : Z :=
  match t with E => 0 | T l _ _ _ r => 1 + Z.max (height l) (height r) end.
Fixpoint ok (t : tree) : Prop :=
  match t with
  | E => True
  | T l _ _ b r => ok l /\ ok r /\ b = height r - height l /\ -1 <= b <= 1
  end.

Lemma height_nonneg t : 0 <= height t.
Proof. induction t; cbn [height]; lia. Qed.

Ltac inv H := inversion H; subst; clear H.

(* open up every subtree that a rotation looks into, then arithmetic *)
Ltac open_tree t :=
  is_var t; let l := fresh "l" in let k := fresh "k" in let v := fresh "v" in
  let b := fresh "b" in let r := fresh "r" in
  pose proof (height_nonneg t); destruct t as [|l k v b r].

Ltac heights :=
  repeat match goal with
         | t : tree |- _ =>
           lazymatch goal with
           | H : 0 <= height t |- _ => fail
           | _ => pose proof (height_nonneg t)
           end
         end.

Ltac red_all := cbn [height ok bal ch setch setb opp sg Z.opp] in *.
Ltac finish := red_all; heights; repeat split; try (intros; lia); try assumption; try tauto.

Lemma putFix_spec c l k v b r res f :
  ok l -> ok r -> -1 <= b <= 1 ->
  (* side c has just grown by one; b is the balance recorded before that *)
  b = (match c with Lft => height r - (height l - 1) | Rgt => (height r - 1) - height l end) ->
  (match c with
   | Lft => 1 <= height l /\ (2 <= height l -> bal l <> 0)
   | Rgt => 1 <= height r /\ (2 <= height r -> bal r <> 0) end) ->
  putFix c (T l k v b r) = (res, f) ->
  ok res /\
  height res = (1 + (match c with Lft => Z.max (height l - 1) (height r) | Rgt => Z.max (height l) (height r - 1) end))
               + (if f then 1 else 0) /\
  (f = true -> bal res <> 0).
Proof.
  intros Hl Hr Hb Hbe Hside. unfold putFix. cbn [bal].
  destruct (b =? 0) eqn:E0; [apply Z.eqb_eq in E0|apply Z.eqb_neq in E0].
  { intros Heq; inv Heq. destruct c; finish. }
  destruct (b =? - sg c) eqn:E1; [apply Z.eqb_eq in E1|apply Z.eqb_neq in E1].
  { intros Heq; inv Heq. destruct c; finish; discriminate. }
  destruct c; cbn [ch sg] in *.
  - (* left side too tall *)
    destruct l as [|ll lk lv lb lr]; [red_all; lia|].
    cbn [bal]. destruct (lb =? -1) eqn:E2; [apply Z.eqb_eq in E2|apply Z.eqb_neq in E2];
      intros Heq; inv Heq.
    + unfold singlerot, rotate. finish; discriminate.
    + (* double rotation: the inner grandchild exists *)
      assert (lb = 1) by (red_all; heights; destruct Hside as [_ Hs]; lia). subst lb.
      destruct lr as [|a ak av ab ar]; [red_all; heights; lia|].
      unfold doublerot, rotate. cbn [ch opp setch setb bal sg].
      destruct (ab =? -1) eqn:Ea; [apply Z.eqb_eq in Ea|apply Z.eqb_neq in Ea].
      * finish; discriminate.
      * cbn [Z.opp]. destruct (ab =? 1) eqn:Eb; [apply Z.eqb_eq in Eb|apply Z.eqb_neq in Eb];
          finish; discriminate.
  - destruct r as [|rl rk rv rb rr]; [red_all; lia|].
    cbn [bal]. destruct (rb =? 1) eqn:E2; [apply Z.eqb_eq in E2|apply Z.eqb_neq in E2];
      intros Heq; inv Heq.
    + unfold singlerot, rotate. finish; discriminate.
    + assert (rb = -1) by (red_all; heights; destruct Hside as [_ Hs]; lia). subst rb.
      destruct rl as [|a ak av ab ar]; [red_all; heights; lia|].
      unfold doublerot, rotate. cbn [ch opp setch setb bal sg].
      destruct (ab =? 1) eqn:Ea; [apply Z.eqb_eq in Ea|apply Z.eqb_neq in Ea].
      * finish; discriminate.
      * cbn [Z.opp]. destruct (ab =? -1) eqn:Eb; [apply Z.eqb_eq in Eb|apply Z.eqb_neq in Eb];
          finish; discriminate.
Qed.

Lemma removeFix_spec c l k v b r res f :
  ok l -> ok r -> -1 <= b <= 1 ->
  (* the side opposite to c has just shrunk by one; b is the balance recorded before that *)
  b = (match c with Rgt => height r - (height l + 1) | Lft => (height r + 1) - height l end) ->
  removeFix c (T l k v b r) = (res, f) ->
  ok res /\
  height res = (1 + (match c with Rgt => Z.max (height l + 1) (height r) | Lft => Z.max (height l) (height r + 1) end))
               - (if f then 1 else 0).
Proof.
  intros Hl Hr Hb Hbe. unfold removeFix. cbn [bal].
  destruct (b =? 0) eqn:E0; [apply Z.eqb_eq in E0|apply Z.eqb_neq in E0].
  { intros Heq; inv Heq. destruct c; finish. }
  destruct (b =? - sg c) eqn:E1; [apply Z.eqb_eq in E1|apply Z.eqb_neq in E1].
  { intros Heq; inv Heq. destruct c; finish. }
  destruct c; cbn [ch sg] in *.
  - destruct l as [|ll lk lv lb lr]; [red_all; heights; lia|].
    cbn [bal]. destruct (lb =? 0) eqn:E2; [apply Z.eqb_eq in E2|apply Z.eqb_neq in E2].
    { intros Heq; inv Heq. unfold rotate. finish. }
    destruct (lb =? -1) eqn:E3; [apply Z.eqb_eq in E3|apply Z.eqb_neq in E3]; intros Heq; inv Heq.
    + unfold singlerot, rotate. finish.
    + assert (lb = 1) by (red_all; lia). subst lb.
      destruct lr as [|a ak av ab ar]; [red_all; heights; lia|].
      unfold doublerot, rotate. cbn [ch opp setch setb bal sg].
      destruct (ab =? -1) eqn:Ea; [apply Z.eqb_eq in Ea|apply Z.eqb_neq in Ea].
      * finish.
      * cbn [Z.opp]. destruct (ab =? 1) eqn:Eb; [apply Z.eqb_eq in Eb|apply Z.eqb_neq in Eb]; finish.
  - destruct r as [|rl rk rv rb rr]; [red_all; heights; lia|].
    cbn [bal]. destruct (rb =? 0) eqn:E2; [apply Z.eqb_eq in E2|apply Z.eqb_neq in E2].
    { intros Heq; inv Heq. unfold rotate. finish. }
    destruct (rb =? 1) eqn:E3; [apply Z.eqb_eq in E3|apply Z.eqb_neq in E3]; intros Heq; inv Heq.
    + unfold singlerot, rotate. finish.
    + assert (rb = -1) by (red_all; lia). subst rb.
      destruct rl as [|a ak av ab ar]; [red_all; heights; lia|].
      unfold doublerot, rotate. cbn [ch opp setch setb bal sg].
      destruct (ab =? 1) eqn:Ea; [apply Z.eqb_eq in Ea|apply Z.eqb_neq in Ea].
      * finish.
      * cbn [Z.opp]. destruct (ab =? -1) eqn:Eb; [apply Z.eqb_eq in Eb|apply Z.eqb_neq in Eb]; finish.
Qed.

Lemma put_spec k v t : forall t' f, ok t -> put k v t = (t', f) ->
  ok t' /\ height t' = height t + (if f then 1 else 0) /\ (f = true -> 1 <= height t -> bal t' <> 0).
Proof.
  induction t as [|l IHl k' v' b r IHr]; intros t' f Hok Hput; cbn [put] in Hput.
  - inv Hput. finish.
  - cbn [ok] in Hok. destruct Hok as (Hl & Hr & Hb & Hbr).
    destruct (cmp k k' =? 0).
    { inv Hput. finish; discriminate. }
    destruct (cmp k k' <? 0).
    + destruct (put k v l) as [l' fl] eqn:El. destruct (IHl _ _ Hl eq_refl) as (Hl' & Hh & Hbal).
      destruct fl.
      * apply putFix_spec in Hput; auto; [|lia|heights; split; [lia|intros; apply Hbal; auto; lia]].
        destruct Hput as (H1 & H2 & H3). repeat split; auto. cbn [height]. rewrite H2, Hh. destruct f; lia.
      * inv Hput. finish; discriminate.
    + destruct (put k v r) as [r' fr] eqn:Er. destruct (IHr _ _ Hr eq_refl) as (Hr' & Hh & Hbal).
      destruct fr.
      * apply putFix_spec in Hput; auto; [|lia|heights; split; [lia|intros; apply Hbal; auto; lia]].
        destruct Hput as (H1 & H2 & H3). repeat split; auto. cbn [height]. rewrite H2, Hh. destruct f; lia.
      * inv Hput. finish; discriminate.
Qed.

Definition isE (t : tree) : bool := match t with E => true | _ => false end.

Lemma removeMin_eq l k v b r :
  removeMin (T l k v b r) =
  if isE l then (r, Some (k, v), true)
  else let '(l', mk, fix_) := removeMin l in
       if fix_ then let '(q', f) := removeFix Rgt (T l' k v b r) in (q', mk, f)
       else (T l' k v b r, mk, false).
Proof. destruct l; reflexivity. Qed.

Lemma remove_eq x l k v b r :
  remove x (T l k v b r) =
  let d := cmp x k in
  if d =? 0 then
    if isE r then (l, true)
    else let '(r', mk, fix_) := removeMin r in
         match mk with
         | Some (mk', mv') => if fix_ then removeFix Lft (T l mk' mv' b r') else (T l mk' mv' b r', false)
         | None => (T l k v b r, false)
         end
  else if d <? 0 then
    let '(l', fix_) := remove x l in
    if fix_ then removeFix Rgt (T l' k v b r) else (T l' k v b r, false)
  else
    let '(r', fix_) := remove x r in
    if fix_ then removeFix Lft (T l k v b r') else (T l k v b r', false).
Proof. destruct r; reflexivity. Qed.

Lemma removeMin_spec t : forall t' mk f, ok t -> t <> E -> removeMin t = (t', mk, f) ->
  mk <> None /\ ok t' /\ height t' = height t - (if f then 1 else 0).
Proof.
  induction t as [|l IHl k v b r IHr]; intros t' mk f Hok Hne Hrm; [congruence|].
  rewrite removeMin_eq in Hrm. cbn [ok] in Hok. destruct Hok as (Hl & Hr & Hb & Hbr).
  destruct (isE l) eqn:HE.
  - destruct l; [|discriminate]. inv Hrm. split; [discriminate|]. finish.
  - assert (Hlne : l <> E) by (destruct l; [discriminate|congruence]).
    destruct (removeMin l) as [[l' mk'] fl] eqn:El.
    destruct (IHl _ _ _ Hl Hlne eq_refl) as (Hmk & Hl' & Hh).
    destruct fl.
    + destruct (removeFix Rgt (T l' k v b r)) as [q' f'] eqn:Ef. inv Hrm.
      apply removeFix_spec in Ef; auto; [|lia]. destruct Ef as (H1 & H2).
      repeat split; auto. cbn [height]. rewrite H2, Hh. destruct f; lia.
    + inv Hrm. repeat split; auto; finish.
Qed.

Lemma remove_spec x t : forall t' f, ok t -> remove x t = (t', f) ->
  ok t' /\ height t' = height t - (if f then 1 else 0).
Proof.
  induction t as [|l IHl k v b r IHr]; intros t' f Hok Hrm.
  - inv Hrm. finish.
  - rewrite remove_eq in Hrm. cbv zeta in Hrm.
    cbn [ok] in Hok. destruct Hok as (Hl & Hr & Hb & Hbr).
    destruct (cmp x k =? 0).
    { destruct (isE r) eqn:HE.
      - destruct r; [|discriminate]. inv Hrm. finish.
      - assert (Hrne : r <> E) by (destruct r; [discriminate|congruence]).
        destruct (removeMin r) as [[r' mk] fr] eqn:Er.
        destruct (removeMin_spec _ _ _ _ Hr Hrne Er) as (Hmk & Hr' & Hh).
        destruct mk as [[mk' mv']|]; [|congruence]. destruct fr.
        + apply removeFix_spec in Hrm; auto; [|lia]. destruct Hrm as (H1 & H2).
          split; auto. cbn [height]. rewrite H2, Hh. destruct f; lia.
        + inv Hrm. finish. }
    destruct (cmp x k <? 0).
    + destruct (remove x l) as [l' fl] eqn:El. destruct (IHl _ _ Hl eq_refl) as (Hl' & Hh).
      destruct fl.
      * apply removeFix_spec in Hrm; auto; [|lia]. destruct Hrm as (H1 & H2).
        split; auto. cbn [height]. rewrite H2, Hh. destruct f; lia.
      * inv Hrm. finish.
    + destruct (remove x r) as [r' fr] eqn:Er. destruct (IHr _ _ Hr eq_refl) as (Hr' & Hh).
      destruct fr.
      * apply removeFix_spec in Hrm; auto; [|lia]. destruct Hrm as (H1 & H2).
        split; auto. cbn [height]. rewrite H2, Hh. destruct f; lia.
      * inv Hrm. finish.
Qed.

Theorem avl_put_inv k v t : ok t -> ok (fst (put k v t)).
Proof. intros H. destruct (put k v t) as [t' f] eqn:E. apply (put_spec k v t t' f H E). Qed.

Theorem avl_remove_inv x t : ok t -> ok (fst (remove x t)).
Proof. intros H. destruct (remove x t) as [t' f] eqn:E. apply (remove_spec x t t' f H E). Qed.

(* size versus height: n >= 2^(h/2) - 1, the bound C17 needs *)
End AVL.
Print Assumptions avl_put_inv.
Print Assumptions avl_remove_inv.
