(* Spike: a memory model for Go slices (array identity, offset, len, cap) and bslice.Insert on it *)
From Coq Require Import List Arith Lia Bool.
Import ListNotations.
Arguments firstn : simpl never.
Arguments skipn : simpl never.

Section GoSlice.
Variable A : Type.
Variable zero : A.

Definition heap := list (list A).                 (* backing arrays by identity *)
Record slice := { arr : nat; off : nat; len : nat; cap : nat }.

Definition arrOf (h : heap) (s : slice) : list A := nth (arr s) h [].
Definition wfs (h : heap) (s : slice) : Prop :=
  arr s < length h /\ off s + cap s <= length (arrOf h s) /\ len s <= cap s.
Definition window (h : heap) (s : slice) (n : nat) : list A := firstn n (skipn (off s) (arrOf h s)).
Definition contents (h : heap) (s : slice) : list A := window h s (len s).

Definition write (a : list A) (pos : nat) (xs : list A) : list A :=
  firstn pos a ++ xs ++ skipn (pos + length xs) a.
Definition set_arr (h : heap) (id : nat) (a : list A) : heap := firstn id h ++ a :: skipn (S id) h.

(* copy(dst[p:], src) where dst is the window of s of length n: writes min(n-p, |src|) elements *)
Definition copy_into (h : heap) (s : slice) (n p : nat) (src : list A) : heap :=
  let k := Nat.min (n - p) (length src) in
  set_arr h (arr s) (write (arrOf h s) (off s + p) (firstn k src)).

Definition reslice_len (s : slice) (n : nat) : slice := {| arr := arr s; off := off s; len := n; cap := cap s |}.

Definition make (h : heap) (n : nat) : heap * slice :=
  (h ++ [repeat zero n], {| arr := length h; off := 0; len := n; cap := n |}).

(* bslice.Insert *)
Definition insert (h : heap) (s : slice) (i : nat) (v : list A) : heap * slice :=
  let tot := len s + length v in
  let c := contents h s in
  if tot <=? cap s then
    let s2 := reslice_len s tot in
    let h1 := copy_into h s2 tot (i + length v) (skipn i c) in
    let h2 := copy_into h1 s2 tot i v in
    (h2, s2)
  else
    let '(h0, s2) := make h tot in
    let h1 := copy_into h0 s2 tot 0 (firstn i c) in
    let h2 := copy_into h1 s2 tot i v in
    let h3 := copy_into h2 s2 tot (i + length v) (skipn i c) in
    (h3, s2).

(* ---- list facts ---- *)
Lemma length_write a pos xs : pos + length xs <= length a -> length (write a pos xs) = length a.
Proof. intros. unfold write. rewrite !app_length, firstn_length, skipn_length. lia. Qed.

Lemma nth_set_arr_same h id a : id < length h -> nth id (set_arr h id a) [] = a.
Proof.
  intros. unfold set_arr. rewrite app_nth2; rewrite firstn_length; [|lia].
  replace (id - Nat.min id (length h)) with 0 by lia. reflexivity.
Qed.
Lemma nth_set_arr_other h id a j : id < length h -> j <> id -> nth j (set_arr h id a) [] = nth j h [].
Proof.
  intros Hid Hj. unfold set_arr.
  destruct (Nat.lt_ge_cases j id).
  - rewrite app_nth1 by (rewrite firstn_length; lia).
    rewrite <- (firstn_skipn id h) at 2. rewrite app_nth1 by (rewrite firstn_length; lia). reflexivity.
  - rewrite app_nth2 by (rewrite firstn_length; lia). rewrite firstn_length.
    replace (j - Nat.min id (length h)) with (S (j - S id)) by lia. simpl.
    rewrite <- (firstn_skipn (S id) h) at 2. rewrite app_nth2 by (rewrite firstn_length; lia).
    rewrite firstn_length. f_equal. lia.
Qed.
Lemma length_set_arr h id a : id < length h -> length (set_arr h id a) = length h.
Proof. intros. unfold set_arr. rewrite app_length. simpl. rewrite firstn_length, skipn_length. lia. Qed.

Lemma skipn_app_le {B} n (l1 l2 : list B) : n <= length l1 -> skipn n (l1 ++ l2) = skipn n l1 ++ l2.
Proof. intros. rewrite skipn_app. replace (n - length l1) with 0 by lia. now rewrite skipn_O. Qed.
Lemma firstn_app_le {B} n (l1 l2 : list B) : n <= length l1 -> firstn n (l1 ++ l2) = firstn n l1.
Proof. intros. rewrite firstn_app. replace (n - length l1) with 0 by lia. rewrite firstn_O. now rewrite app_nil_r. Qed.
Lemma skipn_skipn' {B} : forall m n (l : list B), skipn m (skipn n l) = skipn (n + m) l.
Proof.
  intros m n. induction n as [|n IH]; intros l; [now rewrite skipn_O|].
  destruct l; [now rewrite !skipn_nil|]. rewrite !skipn_cons. simpl. rewrite skipn_cons. apply IH.
Qed.

(* writing inside a window changes the window as a plain list write *)
Lemma firstn_app3 {B} n (l1 l2 l3 : list B) :
  length l1 + length l2 <= n ->
  firstn n (l1 ++ l2 ++ l3) = l1 ++ l2 ++ firstn (n - length l1 - length l2) l3.
Proof.
  intros H. rewrite firstn_app. rewrite (firstn_all2 (n:=n) l1) by lia. f_equal.
  rewrite firstn_app. rewrite (firstn_all2 (n:=n - length l1) l2) by lia. reflexivity.
Qed.

Lemma window_write a o p xs n :
  o + n <= length a -> p + length xs <= n ->
  firstn n (skipn o (write a (o + p) xs)) = write (firstn n (skipn o a)) p xs.
Proof.
  intros Ha Hp. unfold write.
  set (B := skipn o a).
  assert (HB : n <= length B) by (unfold B; rewrite skipn_length; lia).
  assert (E1 : skipn o (firstn (o + p) a) = firstn p B) by (symmetry; apply firstn_skipn_comm).
  assert (E2 : skipn (o + p + length xs) a = skipn (p + length xs) B)
    by (unfold B; rewrite skipn_skipn'; f_equal; lia).
  rewrite skipn_app_le by (rewrite firstn_length; lia).
  rewrite E1, E2.
  rewrite firstn_app3 by (rewrite firstn_length; lia).
  rewrite firstn_length. replace (Nat.min p (length B)) with p by lia.
  rewrite firstn_firstn. replace (Nat.min p n) with p by lia.
  f_equal. f_equal.
  rewrite skipn_firstn_comm. f_equal. lia.
Qed.

(* what a window looks like after copy_into *)
Lemma copy_into_window h s n p src :
  arr s < length h -> off s + n <= length (arrOf h s) -> p + length src <= n ->
  let h' := copy_into h s n p src in
  arrOf h' s = write (arrOf h s) (off s + p) src /\
  window h' s n = write (window h s n) p src /\
  length h' = length h /\
  (forall j, j <> arr s -> nth j h' [] = nth j h []).
Proof.
  intros Harr Hlen Hp h'. unfold h', copy_into.
  replace (Nat.min (n - p) (length src)) with (length src) by lia. rewrite firstn_all.
  assert (Ha : arrOf (set_arr h (arr s) (write (arrOf h s) (off s + p) src)) s = write (arrOf h s) (off s + p) src)
    by (unfold arrOf; apply nth_set_arr_same; auto).
  repeat split.
  - exact Ha.
  - unfold window. rewrite Ha. apply window_write; auto.
  - apply length_set_arr; auto.
  - intros j Hj. apply nth_set_arr_other; auto.
Qed.

Lemma write_at_end {B} (W : list B) p xs : p + length xs = length W -> 
  (firstn p W ++ xs ++ skipn (p + length xs) W) = firstn p W ++ xs.
Proof. intros H. rewrite H, skipn_all. now rewrite app_nil_r. Qed.

Lemma insert_algebra (W c : list A) i v :
  i <= length c -> length W = length c + length v -> firstn (length c) W = c ->
  write (write W (i + length v) (skipn i c)) i v = firstn i c ++ v ++ skipn i c.
Proof.
  intros Hi HW Hc. unfold write.
  assert (Hs : length (skipn i c) = length c - i) by apply skipn_length.
  rewrite (skipn_all2 (n := i + length v + length (skipn i c)) W) by lia. rewrite app_nil_r.
  set (X := firstn (i + length v) W ++ skipn i c).
  assert (HX1 : firstn i X = firstn i c).
  { unfold X. rewrite firstn_app_le by (rewrite firstn_length; lia).
    rewrite firstn_firstn. replace (Nat.min i (i + length v)) with i by lia.
    rewrite <- Hc. rewrite firstn_firstn. replace (Nat.min i (length c)) with i by lia. reflexivity. }
  assert (HX2 : skipn (i + length v) X = skipn i c).
  { unfold X. rewrite skipn_app. rewrite firstn_length.
    replace (Nat.min (i + length v) (length W)) with (i + length v) by lia.
    rewrite Nat.sub_diag, skipn_O.
    rewrite (skipn_all2 (n := i + length v) (firstn (i + length v) W)) by (rewrite firstn_length; lia).
    reflexivity. }
  now rewrite HX1, HX2.
Qed.

Lemma window_split h s n : len s <= n -> firstn (len s) (window h s n) = contents h s.
Proof. intros. unfold window, contents, window. rewrite firstn_firstn. f_equal. lia. Qed.

Theorem insert_inplace h s i v :
  wfs h s -> i <= len s -> len s + length v <= cap s ->
  let '(h', s') := insert h s i v in
  contents h' s' = firstn i (contents h s) ++ v ++ skipn i (contents h s)
  /\ arr s' = arr s /\ off s' = off s /\ cap s' = cap s.
Proof.
  intros (Harr & Hcap & Hlc) Hi Htot. unfold insert.
  assert (Eb : (len s + length v <=? cap s) = true) by (apply Nat.leb_le; lia). rewrite Eb.
  set (tot := len s + length v). set (c := contents h s). set (s2 := reslice_len s tot).
  assert (Hc : length c = len s).
  { unfold c, contents, window. rewrite firstn_length, skipn_length. lia. }
  assert (Hs2a : arrOf h s2 = arrOf h s) by reflexivity.
  (* first copy *)
  destruct (copy_into_window h s2 tot (i + length v) (skipn i c)) as (A1 & W1 & L1 & O1).
  { exact Harr. } { simpl. rewrite Hs2a. unfold tot. lia. } { rewrite skipn_length. unfold tot. lia. }
  set (h1 := copy_into h s2 tot (i + length v) (skipn i c)) in *.
  (* second copy *)
  destruct (copy_into_window h1 s2 tot i v) as (A2 & W2 & L2 & O2).
  { simpl. rewrite L1. exact Harr. }
  { simpl. rewrite A1. rewrite length_write; [rewrite Hs2a; unfold tot; lia|].
    rewrite skipn_length, Hs2a. simpl. unfold tot. lia. }
  { unfold tot. lia. }
  set (h2 := copy_into h1 s2 tot i v) in *.
  repeat split; try reflexivity.
  change (contents h2 s2) with (window h2 s2 tot).
  rewrite W2, W1. apply insert_algebra.
  - lia.
  - unfold window. rewrite firstn_length, skipn_length. simpl. rewrite Hs2a. unfold tot. lia.
  - rewrite Hc. change (window h s2 tot) with (window h s tot). apply window_split. unfold tot. lia.
Qed.

Lemma fresh_algebra (c : list A) i v (Z0 : list A) :
  i <= length c -> length Z0 = length c + length v ->
  write (write (write Z0 0 (firstn i c)) i v) (i + length v) (skipn i c) = firstn i c ++ v ++ skipn i c.
Proof.
  intros Hi HZ. unfold write at 3. rewrite firstn_O. simpl app.
  assert (L1 : length (firstn i c) = i) by (rewrite firstn_length; lia).
  rewrite L1. set (X1 := firstn i c ++ skipn i Z0).
  unfold write at 2.
  assert (HX1 : firstn i X1 = firstn i c).
  { unfold X1. rewrite firstn_app_le by lia. rewrite firstn_firstn. f_equal. lia. }
  rewrite HX1. set (X2 := firstn i c ++ v ++ skipn (i + length v) X1).
  unfold write.
  assert (L2 : length (skipn i c) = length c - i) by apply skipn_length.
  assert (HX2 : firstn (i + length v) X2 = firstn i c ++ v).
  { unfold X2. rewrite app_assoc. rewrite firstn_app_le by (rewrite app_length; lia).
    apply firstn_all2. rewrite app_length. lia. }
  rewrite HX2.
  assert (HX3 : skipn (i + length v + length (skipn i c)) X2 = []).
  { apply skipn_all2. unfold X2, X1. rewrite !app_length, !skipn_length, app_length, skipn_length. lia. }
  rewrite HX3, app_nil_r. now rewrite <- app_assoc.
Qed.

Theorem insert_fresh h s i v :
  wfs h s -> i <= len s -> cap s < len s + length v ->
  let '(h', s') := insert h s i v in
  contents h' s' = firstn i (contents h s) ++ v ++ skipn i (contents h s)
  /\ arr s' = length h                      (* a new backing array ... *)
  /\ (forall j, j < length h -> nth j h' [] = nth j h []).   (* ... and no old array is touched *)
Proof.
  intros (Harr & Hcap & Hlc) Hi Htot. unfold insert.
  assert (Eb : (len s + length v <=? cap s) = false) by (apply Nat.leb_gt; lia). rewrite Eb.
  set (tot := len s + length v). set (c := contents h s).
  assert (Hc : length c = len s).
  { unfold c, contents, window. rewrite firstn_length, skipn_length. lia. }
  unfold make. set (h0 := h ++ [repeat zero tot]).
  set (s2 := {| arr := length h; off := 0; len := tot; cap := tot |}).
  assert (Ha0 : arrOf h0 s2 = repeat zero tot).
  { unfold arrOf, h0. simpl. rewrite app_nth2 by lia. now rewrite Nat.sub_diag. }
  assert (Lh0 : length h0 = S (length h)) by (unfold h0; rewrite app_length; simpl; lia).
  destruct (copy_into_window h0 s2 tot 0 (firstn i c)) as (A1 & W1 & L1 & O1).
  { simpl. lia. } { simpl. rewrite Ha0, repeat_length. lia. } { rewrite firstn_length. unfold tot. lia. }
  set (h1 := copy_into h0 s2 tot 0 (firstn i c)) in *.
  assert (La1 : length (arrOf h1 s2) = tot).
  { rewrite A1, length_write; rewrite Ha0, repeat_length; auto. simpl. rewrite firstn_length. unfold tot. lia. }
  destruct (copy_into_window h1 s2 tot i v) as (A2 & W2 & L2 & O2).
  { simpl. lia. } { simpl. lia. } { unfold tot. lia. }
  set (h2 := copy_into h1 s2 tot i v) in *.
  assert (La2 : length (arrOf h2 s2) = tot).
  { rewrite A2, length_write; auto. simpl. unfold tot in *. lia. }
  destruct (copy_into_window h2 s2 tot (i + length v) (skipn i c)) as (A3 & W3 & L3 & O3).
  { simpl. lia. } { simpl. lia. } { rewrite skipn_length. unfold tot. lia. }
  set (h3 := copy_into h2 s2 tot (i + length v) (skipn i c)) in *.
  repeat split.
  - change (contents h3 s2) with (window h3 s2 tot). rewrite W3, W2, W1.
    apply fresh_algebra; [lia|].
    unfold window. rewrite firstn_length, skipn_length. simpl. rewrite Ha0, repeat_length. unfold tot. lia.
  - intros j Hj. rewrite O3, O2, O1 by (simpl; lia).
    unfold h0. rewrite app_nth1 by lia. reflexivity.
Qed.

End GoSlice.
Print Assumptions insert_inplace.
Print Assumptions insert_fresh.
