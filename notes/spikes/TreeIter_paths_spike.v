(* Spike C14: the red-black iterator's Next (descend right-then-leftmost, else climb while coming
   from the right) on paths, shown to enumerate the in-order sequence *)
From Coq Require Import List Arith Lia Bool.
Import ListNotations.

Section TI.
Variable A : Type.
Inductive tree := E | T (l : tree) (x : A) (r : tree).
Inductive dir := L | R.
Definition path := list dir.              (* from the root; the node itself *)

Fixpoint elements (t : tree) : list A :=
  match t with E => [] | T l x r => elements l ++ x :: elements r end.

Fixpoint subtree (t : tree) (p : path) : tree :=
  match p, t with
  | [], _ => t
  | L :: p', T l _ _ => subtree l p'
  | R :: p', T _ _ r => subtree r p'
  | _ :: _, E => E
  end.

Definition key_at (t : tree) (p : path) : option A :=
  match subtree t p with T _ x _ => Some x | E => None end.

(* path of the leftmost node of the subtree at p (tree.Left() restricted to a subtree) *)
Fixpoint leftmost (t : tree) : path :=
  match t with T (T _ _ _ as l) _ _ => L :: leftmost l | _ => [] end.
Arguments leftmost : simpl never.

(* climb: pop the last step; stop after popping an L (we came from a left child) *)
Fixpoint climb (rp : list dir) : option (list dir) :=      (* rp = reversed path *)
  match rp with
  | [] => None
  | L :: rp' => Some rp'
  | R :: rp' => climb rp'
  end.

(* iterator.Next() in the "between" state, node given by its path *)
Definition next (t : tree) (p : path) : option path :=
  match subtree t p with
  | T _ _ (T _ _ _ as r) => Some (p ++ R :: leftmost r)
  | _ => match climb (rev p) with Some rp => Some (rev rp) | None => None end
  end.

(* first element: tree.Left() *)
Definition first (t : tree) : option path := match t with E => None | _ => Some (leftmost t) end.

Fixpoint iterate (fuel : nat) (t : tree) (p : option path) : list A :=
  match fuel, p with
  | S f, Some q => match key_at t q with
                   | Some x => x :: iterate f t (next t q)
                   | None => []
                   end
  | _, _ => []
  end.

(* in-order position of the node at path p *)
Fixpoint index_of (t : tree) (p : path) : nat :=
  match p, t with
  | [], T l _ _ => length (elements l)
  | L :: p', T l _ _ => index_of l p'
  | R :: p', T l _ r => length (elements l) + 1 + index_of r p'
  | _, E => 0
  end.

Definition valid (t : tree) (p : path) := subtree t p <> E.
Lemma subtree_R l x r p : subtree (T l x r) (R :: p) = subtree r p. Proof. reflexivity. Qed.
Lemma subtree_L l x r p : subtree (T l x r) (L :: p) = subtree l p. Proof. reflexivity. Qed.
Lemma index_R l x r p : index_of (T l x r) (R :: p) = length (elements l) + 1 + index_of r p. Proof. reflexivity. Qed.
Lemma index_L l x r p : index_of (T l x r) (L :: p) = index_of l p. Proof. reflexivity. Qed.
Lemma index_nil l x r : index_of (T l x r) [] = length (elements l). Proof. reflexivity. Qed.

Lemma index_leftmost t : t <> E -> index_of t (leftmost t) = 0.
Proof.
  induction t as [|l IHl x r IHr]; intros H; [congruence|].
  destruct l as [|ll lx lr]; [reflexivity|]. cbn [leftmost index_of]. apply IHl. discriminate.
Qed.

Lemma valid_leftmost t : t <> E -> valid t (leftmost t).
Proof.
  induction t as [|l IHl x r IHr]; intros H; [congruence|].
  destruct l as [|ll lx lr]; [unfold valid; cbn [leftmost subtree]; discriminate|].
  unfold valid in *. cbn [leftmost subtree]. apply IHl. discriminate.
Qed.

Lemma key_at_index t p : valid t p -> key_at t p = nth_error (elements t) (index_of t p).
Proof.
  revert p. induction t as [|l IHl x r IHr]; intros p Hv.
  - unfold valid in Hv. destruct p as [|[] p]; simpl in Hv; congruence.
  - destruct p as [|[|] p]; unfold key_at in *; simpl.
    + rewrite nth_error_app2 by lia. now rewrite Nat.sub_diag.
    + unfold valid in *. simpl in Hv. rewrite (IHl p Hv).
      rewrite nth_error_app1; auto. apply nth_error_Some. rewrite <- (IHl p Hv).
      destruct (subtree l p); congruence.
    + unfold valid in *. simpl in Hv. rewrite (IHr p Hv).
      rewrite nth_error_app2 by lia.
      replace (length (elements l) + 1 + index_of r p - length (elements l)) with (S (index_of r p)) by lia.
      reflexivity.
Qed.

Lemma index_lt t p : valid t p -> index_of t p < length (elements t).
Proof.
  intros Hv. apply nth_error_Some. rewrite <- key_at_index by auto.
  unfold key_at, valid in *. destruct (subtree t p); congruence.
Qed.

Lemma climb_snoc_L q : climb (q ++ [L]) = match climb q with Some rp => Some (rp ++ [L]) | None => Some [] end.
Proof. induction q as [|[] q IH]; simpl; auto. Qed.
Lemma climb_snoc_R q : climb (q ++ [R]) = match climb q with Some rp => Some (rp ++ [R]) | None => None end.
Proof. induction q as [|[] q IH]; simpl; auto. Qed.

Lemma next_nil l x r : next (T l x r) [] = match r with E => None | _ => Some (R :: leftmost r) end.
Proof. unfold next. simpl. destruct r; reflexivity. Qed.

Lemma next_L l x r p :
  next (T l x r) (L :: p) = match next l p with Some q => Some (L :: q) | None => Some [] end.
Proof.
  unfold next. rewrite subtree_L. destruct (subtree l p) as [|sl sx [|a b c]].
  - simpl rev. rewrite climb_snoc_L. destruct (climb (rev p)); [rewrite rev_app_distr|]; reflexivity.
  - simpl rev. rewrite climb_snoc_L. destruct (climb (rev p)); [rewrite rev_app_distr|]; reflexivity.
  - reflexivity.
Qed.

Lemma next_R l x r p :
  next (T l x r) (R :: p) = match next r p with Some q => Some (R :: q) | None => None end.
Proof.
  unfold next. rewrite subtree_R. destruct (subtree r p) as [|sl sx [|a b c]].
  - simpl rev. rewrite climb_snoc_R. destruct (climb (rev p)); [rewrite rev_app_distr|]; reflexivity.
  - simpl rev. rewrite climb_snoc_R. destruct (climb (rev p)); [rewrite rev_app_distr|]; reflexivity.
  - reflexivity.
Qed.

(* the heart: next moves to the in-order successor, or stops at the last element *)
Lemma next_spec t : forall p, valid t p ->
  match next t p with
  | Some q => valid t q /\ index_of t q = S (index_of t p)
  | None => S (index_of t p) = length (elements t)
  end.
Proof.
  induction t as [|l IHl x r IHr]; intros p Hv.
  - unfold valid in Hv. destruct p as [|[] p]; simpl in Hv; congruence.
  - destruct p as [|[|] p].
    + rewrite next_nil, index_nil. destruct r as [|rl rx rr].
      * simpl. rewrite app_length. simpl. lia.
      * split.
        -- unfold valid. rewrite subtree_R. apply valid_leftmost. discriminate.
        -- rewrite index_R. rewrite index_leftmost by discriminate. lia.
    + unfold valid in Hv. rewrite subtree_L in Hv. specialize (IHl p Hv).
      rewrite next_L, index_L. destruct (next l p) as [q|].
      * destruct IHl as [V I]. split; [unfold valid; rewrite subtree_L; exact V|rewrite index_L; exact I].
      * split; [unfold valid; simpl; discriminate|]. rewrite index_nil. lia.
    + unfold valid in Hv. rewrite subtree_R in Hv. specialize (IHr p Hv).
      rewrite next_R, index_R. destruct (next r p) as [q|].
      * destruct IHr as [V I]. split; [unfold valid; rewrite subtree_R; exact V|rewrite index_R; lia].
      * simpl elements. rewrite app_length. simpl length. lia.
Qed.

(* iterating from position i yields the rest of the in-order sequence *)
Lemma iterate_from t : forall fuel p,
  valid t p -> length (elements t) - index_of t p <= fuel ->
  iterate fuel t (Some p) = skipn (index_of t p) (elements t).
Proof.
  induction fuel as [|f IH]; intros p Hv Hf.
  - pose proof (index_lt t p Hv). lia.
  - simpl. rewrite (key_at_index t p Hv).
    pose proof (index_lt t p Hv) as Hlt.
    destruct (nth_error (elements t) (index_of t p)) as [x|] eqn:En; [|apply nth_error_None in En; lia].
    pose proof (next_spec t p Hv) as Hn.
    assert (Hsk : skipn (index_of t p) (elements t) = x :: skipn (S (index_of t p)) (elements t)).
    { clear - En. revert En. generalize (index_of t p). generalize (elements t).
      induction l as [|a l IHl]; intros [|n] H; simpl in *; try discriminate.
      - inversion H; reflexivity.
      - apply IHl in H. exact H. }
    rewrite Hsk. f_equal.
    destruct (next t p) as [q|].
    + destruct Hn as [Vq Iq]. rewrite IH; auto; [now rewrite Iq|lia].
    + rewrite Hn. rewrite skipn_all. destruct f; reflexivity.
Qed.

Theorem iterate_all t : iterate (length (elements t)) t (first t) = elements t.
Proof.
  destruct t as [|l x r]; [reflexivity|].
  unfold first. rewrite iterate_from.
  - now rewrite index_leftmost by discriminate.
  - apply valid_leftmost. discriminate.
  - lia.
Qed.

End TI.
Print Assumptions iterate_all.
