(* Spike: sequential behaviour of one SCQ ring (point.go) for every ring size n >= 1 *)
From Coq Require Import List ZArith Lia Bool.
Import ListNotations.
Local Open Scope Z_scope.

Section SCQ.
Variable D : Type.
Variable n : Z.
Hypothesis n_pos : 1 <= n.

Record entry := { safe : bool; emp : bool; cyc : Z; dat : option D }.
Record scq := { ring : Z -> entry; hd : Z; tl : Z; closed : bool; thr : Z }.

Definition upd (r : Z -> entry) (i : Z) (e : entry) : Z -> entry := fun j => if j =? i then e else r j.

(* one iteration of SCQ.Enqueue's loop; None = go round again *)
Definition enq1 (q : scq) (d : D) : scq * option bool :=
  let T := tl q in
  if closed q then ({| ring := ring q; hd := hd q; tl := T + 1; closed := true; thr := thr q |}, Some false)
  else
    let e := ring q (T mod n) in
    if (cyc e <? T / n) && emp e && (safe e || (hd q <=? T)) then
      ({| ring := upd (ring q) (T mod n) {| safe := true; emp := false; cyc := T / n; dat := Some d |};
          hd := hd q; tl := T + 1; closed := false; thr := 2 * n - 1 |}, Some true)
    else if hd q + n <=? T + 1 then
      ({| ring := ring q; hd := hd q; tl := T + 1; closed := false; thr := thr q |}, Some false)
    else ({| ring := ring q; hd := hd q; tl := T + 1; closed := false; thr := thr q |}, None).

Inductive dres := Got (d : option D) | Empty | Again.

(* one iteration of SCQ.Dequeue's loop (after the threshold test) *)
Definition deq1 (q : scq) : scq * dres :=
  let H := hd q in
  let e := ring q (H mod n) in
  if cyc e =? H / n then
    ({| ring := upd (ring q) (H mod n) {| safe := safe e; emp := true; cyc := cyc e; dat := None |};
        hd := H + 1; tl := tl q; closed := closed q; thr := thr q |}, Got (dat e))
  else
    let r2 := if cyc e <? H / n then
                upd (ring q) (H mod n)
                    (if emp e then {| safe := safe e; emp := true; cyc := H / n; dat := None |}
                     else {| safe := false; emp := false; cyc := cyc e; dat := dat e |})
              else ring q in
    if tl q <=? H + 1 then
      (* fixstate (H+1), then threshold-- *)
      let t' := if negb (closed q) && (tl q <? H + 1) then H + 1 else tl q in
      ({| ring := r2; hd := H + 1; tl := t'; closed := closed q; thr := thr q - 1 |}, Empty)
    else if thr q <=? 0 then
      ({| ring := r2; hd := H + 1; tl := tl q; closed := closed q; thr := thr q - 1 |}, Empty)
    else ({| ring := r2; hd := H + 1; tl := tl q; closed := closed q; thr := thr q - 1 |}, Again).

Definition deq_first (q : scq) : scq * dres := if thr q <? 0 then (q, Empty) else deq1 q.

(* ---- arithmetic ---- *)
Lemma div_add_n t : (t + n) / n = t / n + 1.
Proof. replace (t + n) with (t + 1 * n) by lia. rewrite Z.div_add by lia. reflexivity. Qed.
Lemma mod_add_n t : (t + n) mod n = t mod n.
Proof. replace (t + n) with (t + 1 * n) by lia. apply Z.mod_add. lia. Qed.
Lemma mod_inj a b : a mod n = b mod n -> a <= b < a + n -> a = b.
Proof.
  intros Hm Hr.
  assert (H : (b - a) mod n = 0).
  { rewrite Zminus_mod, Hm, Z.sub_diag. apply Z.mod_0_l. lia. }
  rewrite Z.mod_small in H by lia. lia.
Qed.
Lemma mod_inj' a b : a mod n = b mod n -> - n < b - a < n -> a = b.
Proof.
  intros Hm Hr. destruct (Z_le_gt_dec a b).
  - apply mod_inj; auto. lia.
  - symmetry. apply mod_inj; auto. lia.
Qed.

(* ---- the invariant of an open ring holding the list l (oldest first) ---- *)
Definition filled (q : scq) (i : Z) (d : D) : Prop :=
  let e := ring q ((hd q + i) mod n) in
  safe e = true /\ emp e = false /\ cyc e = (hd q + i) / n /\ dat e = Some d.

Definition free_ok (q : scq) (len : Z) : Prop :=
  forall tau, hd q + len <= tau < hd q + n ->
    let e := ring q (tau mod n) in emp e = true /\ safe e = true /\ cyc e < tau / n.

Record Inv (q : scq) (l : list D) : Prop := {
  inv_hd : n <= hd q;
  inv_open : closed q = false;
  inv_tl : tl q = hd q + Z.of_nat (length l);
  inv_len : Z.of_nat (length l) <= n;
  inv_filled : forall i d, nth_error l i = Some d -> filled q (Z.of_nat i) d;
  inv_free : free_ok q (Z.of_nat (length l));
  inv_thr : l <> [] -> 0 <= thr q
}.

Definition init : scq :=
  {| ring := fun _ => {| safe := true; emp := true; cyc := 0; dat := None |};
     hd := n; tl := n; closed := false; thr := -1 |}.

Lemma init_inv : Inv init [].
Proof.
  constructor; simpl; try lia; auto.
  - intros [|i] d H; discriminate.
  - intros tau Ht. unfold init in Ht. simpl in Ht. simpl. repeat split; auto.
    assert (1 <= tau / n); [|lia]. apply Z.div_le_lower_bound; lia.
  - congruence.
Qed.

Theorem enq_ok q l d :
  Inv q l -> Z.of_nat (length l) < n ->
  exists q', enq1 q d = (q', Some true) /\ Inv q' (l ++ [d]).
Proof.
  intros [Hhd Hop Htl Hlen Hfill Hfree Hthr] Hroom. unfold enq1. rewrite Hop.
  destruct (Hfree (tl q)) as (He & Hs & Hc); [lia|]. cbv zeta in *.
  rewrite He, Hs. assert (Hcb : (cyc (ring q (tl q mod n)) <? tl q / n) = true) by (apply Z.ltb_lt; lia).
  rewrite Hcb. cbn [andb orb]. eexists. split; [reflexivity|].
  constructor; cbn [ring hd tl closed thr]; auto.
  - rewrite app_length. simpl. lia.
  - rewrite app_length. simpl. lia.
  - (* filled *)
    intros i x Hnth. unfold filled; simpl.
    destruct (Nat.lt_ge_cases i (length l)) as [Hi|Hi].
    + rewrite nth_error_app1 in Hnth by auto. specialize (Hfill i x Hnth). unfold filled in Hfill.
      unfold upd. destruct ((hd q + Z.of_nat i) mod n =? tl q mod n) eqn:E; auto.
      apply Z.eqb_eq in E. apply mod_inj in E; lia.
    + rewrite nth_error_app2 in Hnth by auto.
      destruct (i - length l)%nat eqn:Ei; [|destruct n0; discriminate]. simpl in Hnth. inversion Hnth; subst x.
      assert (hd q + Z.of_nat i = tl q) by lia. rewrite H. unfold upd. rewrite Z.eqb_refl. simpl. auto.
  - (* free *)
    intros tau Ht. rewrite app_length in Ht. simpl in Ht. simpl.
    unfold upd. destruct (tau mod n =? tl q mod n) eqn:E.
    + apply Z.eqb_eq in E. apply mod_inj' in E; lia.
    + apply Hfree. lia.
  - intros _. lia.
Qed.

Theorem enq_full q l d :
  Inv q l -> Z.of_nat (length l) = n ->
  exists q', enq1 q d = (q', Some false) /\ ring q' = ring q /\ hd q' = hd q /\ tl q' = tl q + 1.
Proof.
  intros [Hhd Hop Htl Hlen Hfill Hfree Hthr] Hfull. unfold enq1. rewrite Hop.
  (* the slot of ticket tl q still holds the oldest element *)
  destruct l as [|x l']; [simpl in Hfull; lia|].
  pose proof (Hfill 0%nat x eq_refl) as (Hs & He & Hc & Hd). simpl in *.
  rewrite Z.add_0_r in *.
  assert (Hm : tl q mod n = hd q mod n).
  { rewrite Htl. replace (hd q + Z.pos (Pos.of_succ_nat (length l'))) with (hd q + n) by lia. apply mod_add_n. }
  rewrite Hm, He. rewrite andb_false_r. simpl.
  assert (Hb : (hd q + n <=? tl q + 1) = true) by (apply Z.leb_le; lia). rewrite Hb.
  eexists. split; [reflexivity|]. simpl. auto.
Qed.

Theorem deq_ok q x l :
  Inv q (x :: l) ->
  exists q', deq_first q = (q', Got (Some x)) /\ Inv q' l.
Proof.
  intros [Hhd Hop Htl Hlen Hfill Hfree Hthr]. unfold deq_first.
  assert (Ht : (thr q <? 0) = false) by (apply Z.ltb_ge; apply Hthr; discriminate). rewrite Ht.
  unfold deq1. pose proof (Hfill 0%nat x eq_refl) as (Hs & He & Hc & Hd). simpl in *. rewrite Z.add_0_r in *.
  rewrite Hc, Z.eqb_refl, Hd. eexists. split; [reflexivity|].
  simpl length in *.
  constructor; simpl; auto; try lia.
  - intros i d Hnth. specialize (Hfill (S i) d Hnth). unfold filled in *. simpl.
    replace (hd q + 1 + Z.of_nat i) with (hd q + Z.of_nat (S i)) by lia.
    unfold upd. destruct ((hd q + Z.of_nat (S i)) mod n =? hd q mod n) eqn:E; auto.
    apply Z.eqb_eq in E. symmetry in E. apply mod_inj in E; [lia|].
    assert (i < length l)%nat by (apply nth_error_Some; simpl in Hnth; congruence). lia.
  - intros tau Htau. cbn [hd] in Htau. simpl. unfold upd. destruct (tau mod n =? hd q mod n) eqn:E.
    + apply Z.eqb_eq in E. simpl.
      (* tau is the next ticket of the slot just emptied: tau = hd q + n *)
      assert (tau = hd q + n).
      { assert (tau mod n = (hd q + n) mod n) by (rewrite mod_add_n; auto).
        apply mod_inj' in H; lia. }
      subst tau. rewrite div_add_n. repeat split; auto. lia.
    + assert (tau <> hd q + n) by (intros ->; rewrite mod_add_n, Z.eqb_refl in E; discriminate).
      apply Hfree. lia.
Qed.

Theorem deq_empty q :
  Inv q [] -> exists q', deq_first q = (q', Empty) /\ Inv q' [].
Proof.
  intros HI. unfold deq_first. destruct (thr q <? 0) eqn:Et; [eauto|].
  destruct HI as [Hhd Hop Htl Hlen Hfill Hfree Hthr]. simpl length in *. rewrite Z.add_0_r in *.
  unfold deq1.
  destruct (Hfree (hd q)) as (He & Hs & Hc); [lia|]. cbv zeta in *.
  assert (E1 : (cyc (ring q (hd q mod n)) =? hd q / n) = false) by (apply Z.eqb_neq; lia).
  assert (E2 : (cyc (ring q (hd q mod n)) <? hd q / n) = true) by (apply Z.ltb_lt; lia).
  rewrite E1, E2, He, Htl.
  assert (E3 : (hd q <=? hd q + 1) = true) by (apply Z.leb_le; lia). rewrite E3.
  rewrite Hop. assert (E4 : (hd q <? hd q + 1) = true) by (apply Z.ltb_lt; lia). rewrite E4. cbn [negb andb].
  eexists. split; [reflexivity|].
  constructor; cbn [ring hd tl closed thr length]; auto; try lia.
  - intros [|i] d H; discriminate.
  - intros tau Htau. cbn [hd] in Htau. simpl Z.of_nat in Htau. cbv zeta. cbn [ring].
    unfold upd. destruct (tau mod n =? hd q mod n) eqn:E.
    + apply Z.eqb_eq in E. cbn [emp safe cyc].
      assert (tau = hd q + n).
      { assert (tau mod n = (hd q + n) mod n) by (rewrite mod_add_n; auto). apply mod_inj' in H; lia. }
      subst tau. rewrite div_add_n. repeat split; auto. lia.
    + assert (tau <> hd q + n) by (intros ->; rewrite mod_add_n, Z.eqb_refl in E; discriminate).
      apply Hfree. lia.
  - congruence.
Qed.

End SCQ.
Print Assumptions enq_ok.
Print Assumptions deq_ok.
Print Assumptions deq_empty.
