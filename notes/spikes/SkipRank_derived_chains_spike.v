(* Spike C03/C17: skip-list search over derived chains.  Nodes 1..n in level-0 order (0 = header),
   key k(p) strictly increasing, height h(p) >= 1.  next_i(p) = the first q > p with h(q) > i;
   the span of that link is q - p, so the accumulated rank always equals the current position, and
   the walk ends on the last node whose key is <= the target. *)
From Coq Require Import List Arith ZArith Lia Bool.
Import ListNotations.

Section SK.
Variable keys : list Z.            (* strictly increasing *)
Variable hs : list nat.            (* heights, same length *)
Let n := length keys.
Definition key (p : nat) : Z := nth (p - 1) keys 0%Z.          (* p in 1..n *)
Definition height (p : nat) : nat := nth (p - 1) hs 0.

(* next node on level i after position p, searching forward with fuel *)
Fixpoint next_from (i : nat) (q fuel : nat) : option nat :=
  match fuel with
  | O => None
  | S f => if (q <=? n) && (i <? height q) then Some q else next_from i (S q) f
  end.
Definition next (i p : nat) : option nat := next_from i (S p) (n - p).

(* one level: advance while the next key is <= target; rank accumulates spans *)
Fixpoint level_walk (i : nat) (target : Z) (p rank fuel : nat) : nat * nat :=
  match fuel with
  | O => (p, rank)
  | S f => match next i p with
           | Some q => if (key q <=? target)%Z then level_walk i target q (rank + (q - p)) f else (p, rank)
           | None => (p, rank)
           end
  end.

Fixpoint walk (levels : nat) (target : Z) (p rank : nat) : nat * nat :=
  match levels with
  | O => (p, rank)
  | S i => let '(p', r') := level_walk i target p rank (S n) in walk i target p' r'
  end.

Definition sorted := forall a b, 1 <= a -> a < b -> b <= n -> (key a < key b)%Z.

Lemma next_from_spec i : forall fuel q r,
  next_from i q fuel = Some r -> q <= r /\ r <= n /\ i < height r /\ (forall x, q <= x < r -> ~ (i < height x /\ x <= n)).
Proof.
  induction fuel as [|f IH]; intros q r H; [discriminate|]. simpl in H.
  destruct ((q <=? n) && (i <? height q)) eqn:E.
  - inversion H; subst. apply andb_true_iff in E. destruct E as [E1 E2].
    apply Nat.leb_le in E1. apply Nat.ltb_lt in E2. repeat split; auto. intros x Hx. lia.
  - destruct (IH _ _ H) as (A & B & C & D). repeat split; auto; try lia.
    intros x Hx. destruct (Nat.eq_dec x q) as [->|].
    + intros [H1 H2]. apply andb_false_iff in E. destruct E as [E|E].
      * apply Nat.leb_gt in E. lia.
      * apply Nat.ltb_ge in E. lia.
    + apply D. lia.
Qed.

Lemma next_from_none i : forall fuel q,
  next_from i q fuel = None -> forall x, q <= x < q + fuel -> ~ (i < height x /\ x <= n).
Proof.
  induction fuel as [|f IH]; intros q H x Hx; [lia|]. simpl in H.
  destruct ((q <=? n) && (i <? height q)) eqn:E; [discriminate|].
  destruct (Nat.eq_dec x q) as [->|].
  - intros [H1 H2]. apply andb_false_iff in E. destruct E as [E|E].
    + apply Nat.leb_gt in E. lia.
    + apply Nat.ltb_ge in E. lia.
  - apply (IH _ H). lia.
Qed.

(* the level walk keeps rank = position, never passes the target, and stops only in front of a
   level-i node that is beyond the target (or at the end of the level) *)
Lemma level_walk_spec i target : forall fuel p rank,
  sorted -> rank = p -> (p = 0 \/ (1 <= p <= n /\ (key p <= target)%Z)) -> n - p < fuel ->
  let '(p', r') := level_walk i target p rank fuel in
  r' = p' /\ p <= p' /\ (p' = 0 \/ (1 <= p' <= n /\ (key p' <= target)%Z)) /\
  (forall x, p' < x <= n -> i < height x -> (target < key x)%Z).
Proof.
  induction fuel as [|f IH]; intros p rank Hs Hr Hp Hf; [lia|]. simpl.
  destruct (next i p) as [q|] eqn:En.
  - unfold next in En. destruct (next_from_spec _ _ _ _ En) as (A & B & C & D).
    destruct (key q <=? target)%Z eqn:Ek.
    + apply Z.leb_le in Ek.
      assert (Hq1 : rank + (q - p) = q) by lia.
      assert (Hq2 : q = 0 \/ (1 <= q <= n /\ (key q <= target)%Z)) by (right; split; [lia|auto]).
      assert (Hq3 : n - q < f) by lia.
      pose proof (IH q (rank + (q - p)) Hs Hq1 Hq2 Hq3) as IHq.
      destruct (level_walk i target q (rank + (q - p)) f) as [p' r'].
      destruct IHq as (I1 & I2 & I3 & I4).
      repeat split; auto. lia.
    + apply Z.leb_gt in Ek. repeat split; auto.
      intros x Hx Hh. destruct (Nat.lt_ge_cases x q) as [Hlt|Hge].
      * exfalso. apply (D x); [lia|]. split; auto. lia.
      * destruct (Nat.eq_dec x q) as [->|]; [lia|].
        assert (key q < key x)%Z by (apply Hs; lia). lia.
  - repeat split; auto. intros x Hx Hh. exfalso.
    unfold next in En. apply (next_from_none _ _ _ En x); [lia|]. split; auto. lia.
Qed.

Lemma walk_spec target : forall levels p rank p' r',
  sorted -> rank = p -> (p = 0 \/ (1 <= p <= n /\ (key p <= target)%Z)) ->
  walk levels target p rank = (p', r') ->
  r' = p' /\ p <= p' /\ (p' = 0 \/ (1 <= p' <= n /\ (key p' <= target)%Z)) /\
  (levels = 0 \/ forall x, p' < x <= n -> 0 < height x -> (target < key x)%Z).
Proof.
  induction levels as [|i IH]; intros p rank p' r' Hs Hr Hp Hw; cbn [walk] in Hw.
  - inversion Hw; subst. repeat split; auto.
  - pose proof (level_walk_spec i target (S n) p rank Hs Hr Hp ltac:(lia)) as L.
    destruct (level_walk i target p rank (S n)) as [p1 r1]. destruct L as (L1 & L2 & L3 & L4).
    destruct (IH p1 r1 p' r' Hs L1 L3 Hw) as (W1 & W2 & W3 & W4).
    repeat split; auto; try lia. right.
    destruct W4 as [->|W4]; [|exact W4].
    cbn [walk] in Hw. inversion Hw; subst. intros x Hx Hh. apply L4; auto.
Qed.

(* Rank/lookup position: the walk from the header ends on the last node <= target, and the sum of
   the spans it crossed is that node's position *)
Theorem rank_is_position levels target :
  sorted -> 1 <= levels -> (forall x, 1 <= x <= n -> 1 <= height x) ->
  let '(p, r) := walk levels target 0 0 in
  r = p /\ (p = 0 \/ (1 <= p <= n /\ (key p <= target)%Z)) /\ (forall x, p < x <= n -> (target < key x)%Z).
Proof.
  intros Hs Hl Hh. destruct (walk levels target 0 0) as [p r] eqn:Ew.
  destruct (walk_spec target levels 0 0 p r Hs eq_refl (or_introl eq_refl) Ew) as (W1 & W2 & W3 & W4).
  repeat split; auto. destruct W4 as [->|W4]; [lia|].
  intros x Hx. apply W4; auto. specialize (Hh x). lia.
Qed.

End SK.
Print Assumptions rank_is_position.
