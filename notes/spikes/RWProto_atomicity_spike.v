(* Spike: RWMutex discipline => every call is atomic, for every schedule *)
From Coq Require Import List Arith Lia Bool.
Import ListNotations.

Section RW.
Variables (St M R : Type).
Variable sem : M -> St -> St * R.            (* sequential meaning of a method call *)
Inductive mode := Excl | Shared.
Variable guard : M -> mode.                   (* what the wrapper acquires: regenerated from source *)
Definition readonly (m : M) := forall s, fst (sem m s) = s.
Hypothesis discipline : forall m, guard m = Shared -> readonly m.

(* per-thread control state *)
Inductive pc :=
| Idle                      (* between calls *)
| Holding (m : M)           (* lock acquired, body not started *)
| Snap (m : M) (s0 : St)    (* body has read the state *)
| Commit (m : M) (r : R).   (* body has written back, lock still held *)

Record world := {
  state : St;
  pcs : list pc;                       (* one per thread *)
  todo : list (list M);                (* remaining calls per thread *)
  lin : list (M * R)                   (* ghost: calls in commit order with the result each returned *)
}.

Definition holds_excl (p : pc) := match p with Idle => false | Holding m | Snap m _ | Commit m _ => match guard m with Excl => true | Shared => false end end.
Definition holds_any (p : pc) := match p with Idle => false | _ => true end.

Definition upd {A} (l : list A) (i : nat) (x : A) : list A :=
  firstn i l ++ match skipn i l with [] => [] | _ :: t => x :: t end.

(* one micro-step of thread i; disabled steps stutter *)
Definition step (w : world) (i : nat) : world :=
  match nth_error (pcs w) i with
  | None => w
  | Some Idle =>
    match nth_error (todo w) i with
    | Some (m :: rest) =>
      let others := firstn i (pcs w) ++ skipn (S i) (pcs w) in
      let ok := match guard m with
                | Excl => negb (existsb holds_any others)
                | Shared => negb (existsb holds_excl others)
                end in
      if ok then {| state := state w; pcs := upd (pcs w) i (Holding m);
                    todo := upd (todo w) i rest; lin := lin w |}
      else w
    | _ => w
    end
  | Some (Holding m) =>
    {| state := state w; pcs := upd (pcs w) i (Snap m (state w)); todo := todo w; lin := lin w |}
  | Some (Snap m s0) =>
    let '(s', r) := sem m s0 in
    {| state := s'; pcs := upd (pcs w) i (Commit m r); todo := todo w; lin := lin w ++ [(m, r)] |}
  | Some (Commit m r) =>
    {| state := state w; pcs := upd (pcs w) i Idle; todo := todo w; lin := lin w |}
  end.

Definition run (w : world) (sched : list nat) : world := fold_left step sched w.

(* the sequential reading of the ghost log *)
Fixpoint replay (s : St) (l : list (M * R)) : option St :=
  match l with
  | [] => Some s
  | (m, r) :: l' => let '(s', r') := sem m s in
                    (* results must be the sequential ones *)
                    match replay s' l' with Some s'' => Some s'' | None => None end
  end.

Fixpoint seq_run (s : St) (l : list (M * R)) : Prop :=
  match l with
  | [] => True
  | (m, r) :: l' => snd (sem m s) = r /\ seq_run (fst (sem m s)) l'
  end.
Fixpoint seq_state (s : St) (l : list (M * R)) : St :=
  match l with [] => s | (m, _) :: l' => seq_state (fst (sem m s)) l' end.

Lemma seq_run_app s l m r :
  seq_run s l -> snd (sem m (seq_state s l)) = r -> seq_run s (l ++ [(m, r)]).
Proof. revert s. induction l as [|[m' r'] l IH]; simpl; intros s; [tauto|]. intros [H1 H2] H3. split; auto. Qed.
Lemma seq_state_app s l m r : seq_state s (l ++ [(m, r)]) = fst (sem m (seq_state s l)).
Proof. revert s. induction l as [|[m' r'] l IH]; simpl; intros s; auto. Qed.

(* invariant *)
Definition excl_alone (ps : list pc) : Prop :=
  forall i j p q, i <> j -> nth_error ps i = Some p -> nth_error ps j = Some q ->
                  holds_excl p = true -> holds_any q = false.

Definition snaps_current (s : St) (ps : list pc) : Prop :=
  forall i m s0, nth_error ps i = Some (Snap m s0) -> s0 = s.

Record Inv (init : St) (w : world) : Prop := {
  inv_lin : seq_run init (lin w);
  inv_state : state w = seq_state init (lin w);
  inv_excl : excl_alone (pcs w);
  inv_snap : snaps_current (state w) (pcs w)
}.

Lemma nth_error_upd_same {A} (l : list A) i x y : nth_error l i = Some y -> nth_error (upd l i x) i = Some x.
Proof.
  unfold upd. revert l. induction i as [|i IH]; intros [|a l]; simpl; try discriminate; auto.
Qed.
Lemma nth_error_upd_other {A} (l : list A) i j x : i <> j -> nth_error (upd l i x) j = nth_error l j.
Proof.
  unfold upd. revert l j. induction i as [|i IH]; intros l j H.
  - destruct l as [|a l]; simpl; auto. destruct j; [congruence|reflexivity].
  - destruct l as [|a l]; simpl; auto. destruct j; [reflexivity|]. simpl. apply IH. congruence.
Qed.

Lemma in_others {A} (ps : list A) : forall i j q,
  i <> j -> nth_error ps j = Some q -> In q (firstn i ps ++ skipn (S i) ps).
Proof.
  induction ps as [|a ps IH]; intros i j q Hij Hq; [destruct j; discriminate|].
  destruct i as [|i], j as [|j]; simpl in *; try congruence.
  - eapply nth_error_In; eauto.
  - left. congruence.
  - right. apply (IH i j); auto.
Qed.

Lemma others_spec (ps : list pc) i j q (f : pc -> bool) :
  i <> j -> nth_error ps j = Some q ->
  existsb f (firstn i ps ++ skipn (S i) ps) = false -> f q = false.
Proof.
  intros Hij Hq Hex.
  destruct (f q) eqn:Ef; auto.
  assert (existsb f (firstn i ps ++ skipn (S i) ps) = true).
  { apply existsb_exists. exists q. split; auto. eapply in_others; eauto. }
  congruence.
Qed.

Theorem step_inv init w i : Inv init w -> Inv init (step w i).
Proof.
  intros [Hlin Hst Hex Hsn]. unfold step.
  destruct (nth_error (pcs w) i) as [[|m|m s0|m r]|] eqn:Ei; [| | | |constructor; auto].
  - (* acquire *)
    destruct (nth_error (todo w) i) as [[|m rest]|]; try solve [constructor; auto].
    match goal with |- context [if ?b then _ else _] => destruct b eqn:Eok end; [|constructor; auto].
    constructor; simpl; auto.
    + (* excl_alone *)
      intros a b p q Hab Ha Hb Hp.
      destruct (Nat.eq_dec a i) as [->|Hai].
      * rewrite (nth_error_upd_same _ _ _ _ Ei) in Ha. inversion Ha; subst p.
        rewrite nth_error_upd_other in Hb by congruence.
        simpl in Hp. destruct (guard m) eqn:Eg; [|discriminate].
        rewrite negb_true_iff in Eok. apply (others_spec (pcs w) i b q holds_any); [congruence|exact Hb|exact Eok].
      * rewrite nth_error_upd_other in Ha by congruence.
        destruct (Nat.eq_dec b i) as [->|Hbi].
        -- (* the newcomer coexists with an exclusive holder? impossible *)
           rewrite (nth_error_upd_same _ _ _ _ Ei) in Hb. inversion Hb; subst q.
           exfalso.
           destruct (guard m) eqn:Eg; rewrite negb_true_iff in Eok.
           ++ assert (holds_any p = false) by (apply (others_spec (pcs w) i a p holds_any); [congruence|exact Ha|exact Eok]).
              destruct p; simpl in *; try discriminate.
           ++ assert (holds_excl p = false) by (apply (others_spec (pcs w) i a p holds_excl); [congruence|exact Ha|exact Eok]). congruence.
        -- rewrite nth_error_upd_other in Hb by congruence. eauto.
    + intros a m' s0 Ha. destruct (Nat.eq_dec a i) as [->|Hai].
      * rewrite (nth_error_upd_same _ _ _ _ Ei) in Ha. discriminate.
      * rewrite nth_error_upd_other in Ha by congruence. eauto.
  - (* snapshot *)
    constructor; simpl; auto.
    + intros a b p q Hab Ha Hb Hp.
      destruct (Nat.eq_dec a i) as [->|Hai].
      * rewrite (nth_error_upd_same _ _ _ _ Ei) in Ha. inversion Ha; subst p.
        rewrite nth_error_upd_other in Hb by congruence. eapply (Hex i b (Holding m) q); eauto.
      * rewrite nth_error_upd_other in Ha by congruence.
        destruct (Nat.eq_dec b i) as [->|Hbi].
        -- rewrite (nth_error_upd_same _ _ _ _ Ei) in Hb. inversion Hb; subst q.
           specialize (Hex a i p (Holding m) Hab Ha Ei Hp). discriminate.
        -- rewrite nth_error_upd_other in Hb by congruence. eauto.
    + intros a m' s0 Ha. destruct (Nat.eq_dec a i) as [->|Hai].
      * rewrite (nth_error_upd_same _ _ _ _ Ei) in Ha. inversion Ha; auto.
      * rewrite nth_error_upd_other in Ha by congruence. eauto.
  - (* commit: the snapshot is current, so this is the sequential step *)
    assert (s0 = state w) by (eapply Hsn; eauto). subst s0.
    destruct (sem m (state w)) as [s' r] eqn:Es.
    constructor; simpl.
    + apply seq_run_app; auto. rewrite <- Hst, Es. reflexivity.
    + rewrite seq_state_app, <- Hst, Es. reflexivity.
    + intros a b p q Hab Ha Hb Hp.
      destruct (Nat.eq_dec a i) as [->|Hai].
      * rewrite (nth_error_upd_same _ _ _ _ Ei) in Ha. inversion Ha; subst p.
        rewrite nth_error_upd_other in Hb by congruence. eapply (Hex i b (Snap m (state w)) q); eauto.
      * rewrite nth_error_upd_other in Ha by congruence.
        destruct (Nat.eq_dec b i) as [->|Hbi].
        -- rewrite (nth_error_upd_same _ _ _ _ Ei) in Hb. inversion Hb; subst q.
           specialize (Hex a i p (Snap m (state w)) Hab Ha Ei Hp). discriminate.
        -- rewrite nth_error_upd_other in Hb by congruence. eauto.
    + (* other snapshots stay current: either we are exclusive (nobody else is inside)
         or we are shared, hence read-only, hence s' = state w *)
      intros a m' s0 Ha. destruct (Nat.eq_dec a i) as [->|Hai].
      * rewrite (nth_error_upd_same _ _ _ _ Ei) in Ha. discriminate.
      * rewrite nth_error_upd_other in Ha by congruence.
        assert (s0 = state w) by (eapply Hsn; eauto). subst s0.
        destruct (guard m) eqn:Eg.
        -- exfalso. assert (holds_any (Snap m' (state w)) = false).
           { eapply (Hex i a (Snap m (state w))); eauto. simpl. now rewrite Eg. }
           discriminate.
        -- pose proof (discipline m Eg (state w)) as Hro. rewrite Es in Hro. simpl in Hro. congruence.
  - (* release *)
    constructor; simpl; auto.
    + intros a b p q Hab Ha Hb Hp.
      destruct (Nat.eq_dec a i) as [->|Hai].
      * rewrite (nth_error_upd_same _ _ _ _ Ei) in Ha. inversion Ha; subst p. discriminate.
      * rewrite nth_error_upd_other in Ha by congruence.
        destruct (Nat.eq_dec b i) as [->|Hbi].
        -- rewrite (nth_error_upd_same _ _ _ _ Ei) in Hb. inversion Hb; subst q. reflexivity.
        -- rewrite nth_error_upd_other in Hb by congruence. eauto.
    + intros a m' s0 Ha. destruct (Nat.eq_dec a i) as [->|Hai].
      * rewrite (nth_error_upd_same _ _ _ _ Ei) in Ha. discriminate.
      * rewrite nth_error_upd_other in Ha by congruence. eauto.
Qed.

Theorem discipline_atomic init calls sched :
  let w0 := {| state := init; pcs := map (fun _ => Idle) calls; todo := calls; lin := [] |} in
  let w := run w0 sched in
  seq_run init (lin w) /\ state w = seq_state init (lin w).
Proof.
  intros w0 w. assert (Inv init w) as [H1 H2 _ _]; [|auto].
  subst w. assert (H0 : Inv init w0).
  { constructor; simpl; auto.
    - intros i j p q _ Hi _ Hp. subst w0; simpl in *. apply nth_error_In in Hi. apply in_map_iff in Hi.
      destruct Hi as (? & <- & _). discriminate.
    - intros i m s0 Hi. subst w0; simpl in *. apply nth_error_In in Hi. apply in_map_iff in Hi.
      destruct Hi as (? & ? & _). discriminate. }
  clear - H0 discipline. revert H0. generalize w0. induction sched as [|i sched IH]; simpl; intros w H; auto.
  apply IH. now apply step_inv.
Qed.

End RW.
Print Assumptions discipline_atomic.
