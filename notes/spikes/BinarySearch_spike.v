(* Spike C10: bslice.BinarySearch returns the lowest insertion position *)
From Coq Require Import List ZArith Lia Bool Sorted.
Import ListNotations.
Local Open Scope Z_scope.

Section BS.
Variable xs : list Z.
Variable target : Z.
Let n := Z.of_nat (length xs).
Definition at_ (k : Z) : Z := nth (Z.to_nat k) xs 0.

Fixpoint loop (fuel : nat) (i j : Z) : Z :=
  match fuel with
  | O => i
  | S f => if i <? j then
             let h := (i + j) / 2 in          (* int(uint(i+j) >> 1) *)
             if at_ h <? target then loop f (h + 1) j else loop f i h
           else i
  end.

Definition bsearch : Z * bool :=
  let i := loop (length xs + 1) 0 n in
  (i, (i <? n) && (at_ i =? target)).

Definition sorted := forall a b, 0 <= a <= b -> b < n -> at_ a <= at_ b.

Lemma loop_spec fuel : forall i j,
  sorted -> 0 <= i <= j -> j <= n -> (j - i < Z.of_nat fuel) ->
  (forall k, 0 <= k < i -> at_ k < target) ->
  (forall k, j <= k < n -> target <= at_ k) ->
  let r := loop fuel i j in
  i <= r <= j /\ (forall k, 0 <= k < r -> at_ k < target) /\ (forall k, r <= k < n -> target <= at_ k).
Proof.
  induction fuel as [|f IH]; intros i j Hs Hij Hj Hf Hlo Hhi; [lia|].
  cbn [loop]. destruct (i <? j) eqn:E; [apply Z.ltb_lt in E|apply Z.ltb_ge in E].
  - set (h := (i + j) / 2).
    assert (Hh : i <= h < j) by (unfold h; split; [apply Z.div_le_lower_bound|apply Z.div_lt_upper_bound]; lia).
    destruct (at_ h <? target) eqn:E2; [apply Z.ltb_lt in E2|apply Z.ltb_ge in E2].
    + destruct (IH (h + 1) j) as (R1 & R2 & R3); auto; try lia.
      * intros k Hk. destruct (Z_lt_le_dec k i); [apply Hlo; lia|].
        pose proof (Hs k h). lia.
      * repeat split; auto; lia.
    + destruct (IH i h) as (R1 & R2 & R3); auto; try lia.
      * intros k Hk. destruct (Z_lt_le_dec k j); [|apply Hhi; lia].
        pose proof (Hs h k). lia.
      * repeat split; auto; lia.
  - assert (i = j) by lia. subst. repeat split; auto; lia.
Qed.

Theorem bsearch_ok :
  sorted ->
  let '(p, found) := bsearch in
  0 <= p <= n /\ (forall k, 0 <= k < p -> at_ k < target) /\ (forall k, p <= k < n -> target <= at_ k)
  /\ (found = true <-> exists k, 0 <= k < n /\ at_ k = target).
Proof.
  intros Hs. unfold bsearch.
  assert (Hn : 0 <= n) by (unfold n; lia).
  assert (Hf : n - 0 < Z.of_nat (length xs + 1)) by (unfold n; lia).
  destruct (loop_spec (length xs + 1) 0 n) as (R1 & R2 & R3); auto; try lia; try (intros; lia).
  set (p := loop (length xs + 1) 0 n) in *.
  repeat split; auto; try lia.
  - intros H. apply andb_true_iff in H. destruct H as [H1 H2]. apply Z.ltb_lt in H1. apply Z.eqb_eq in H2.
    exists p. lia.
  - intros (k & Hk & Hat). apply andb_true_iff.
    assert (p <= k) by (destruct (Z_lt_le_dec k p); auto; specialize (R2 k); lia).
    split; [apply Z.ltb_lt; lia|apply Z.eqb_eq].
    pose proof (R3 p). pose proof (Hs p k). lia.
Qed.

End BS.
Print Assumptions bsearch_ok.
