(* Spike C17: the red-black invariant bounds the height, hence the comparisons of a lookup, by 2*log2(n+1) *)
From Coq Require Import List Arith Lia Bool.

Inductive color := R | B.
Inductive tree := E | T (c : color) (l : tree) (r : tree).      (* keys are irrelevant here *)
Definition is_red t := match t with T R _ _ => true | _ => false end.

Inductive rbt : nat -> tree -> Prop :=
| RB_E : rbt 0 E
| RB_R n l r : is_red l = false -> is_red r = false -> rbt n l -> rbt n r -> rbt n (T R l r)
| RB_B n l r : rbt n l -> rbt n r -> rbt (S n) (T B l r).

Fixpoint size t := match t with E => 0 | T _ l r => size l + 1 + size r end.
Fixpoint height t := match t with E => 0 | T _ l r => 1 + Nat.max (height l) (height r) end.

Lemma size_lower n t : rbt n t -> 2 ^ n <= size t + 1.
Proof.
  induction 1; simpl in *; lia.
Qed.

Lemma height_upper n t : rbt n t -> height t <= 2 * n + (if is_red t then 1 else 0).
Proof.
  induction 1 as [|n l r Hl Hr H1 IH1 H2 IH2|n l r H1 IH1 H2 IH2]; simpl in *; try lia.
  - rewrite Hl, Hr in *. lia.
  - destruct (is_red l), (is_red r); lia.
Qed.

(* a lookup makes at most [height] comparisons; with a black root: height <= 2 * log2 (size + 1) *)
Theorem rb_height_log t n : rbt n t -> is_red t = false -> height t <= 2 * Nat.log2 (size t + 1).
Proof.
  intros H Hb. pose proof (height_upper n t H) as Hh. rewrite Hb in Hh.
  pose proof (size_lower n t H) as Hs.
  assert (n <= Nat.log2 (size t + 1)).
  { apply Nat.log2_le_pow2; lia. }
  lia.
Qed.
Print Assumptions rb_height_log.
