(* Spike C18: a ctx-aware stage (TaskFn = filter) as a labelled transition system; every trace
   delivers a prefix of filter f inputs, closes exactly once, and is never stuck after cancel *)
From Coq Require Import List Bool Lia.
Import ListNotations.

Section Stage.
Variable T : Type.
Variable f : T -> bool.

Inductive pc := Recv | Send (v : T) | Done.
Inductive label := recv (v : T) | recv_closed | send (v : T) | ctx_done.

(* one step of the goroutine; None = label not enabled in this state *)
Definition step (s : pc) (l : label) : option pc :=
  match s, l with
  | Recv, recv v => Some (if f v then Send v else Recv)
  | Recv, recv_closed => Some Done
  | Recv, ctx_done => Some Done
  | Send v, send v' => Some Recv          (* the value sent is the pending one, see [out_of] *)
  | Send _, ctx_done => Some Done
  | _, _ => None
  end.

(* what the environment observes *)
Definition in_of (s : pc) (l : label) : list T := match s, l with Recv, recv v => [v] | _, _ => [] end.
Definition out_of (s : pc) (l : label) : list T := match s, l with Send v, send _ => [v] | _, _ => [] end.

Fixpoint run (s : pc) (tr : list label) : option (pc * list T * list T) :=   (* final state, inputs, outputs *)
  match tr with
  | [] => Some (s, [], [])
  | l :: tr' =>
    match step s l with
    | None => None
    | Some s' => match run s' tr' with
                 | Some (s'', i, o) => Some (s'', in_of s l ++ i, out_of s l ++ o)
                 | None => None
                 end
    end
  end.

Definition pending (s : pc) : list T := match s with Send v => [v] | _ => [] end.

Lemma run_inv : forall tr s sf i o,
  run s tr = Some (sf, i, o) ->
  (sf <> Done -> pending s ++ filter f i = o ++ pending sf) /\
  (sf = Done -> exists rest, pending s ++ filter f i = o ++ rest).
Proof.
  induction tr as [|l tr IH]; intros s sf i o H; simpl in H.
  - inversion H; subst. simpl. rewrite app_nil_r. split; intros; eauto.
  - destruct (step s l) as [s'|] eqn:Es; [|discriminate].
    destruct (run s' tr) as [[[s'' i'] o']|] eqn:Er; [|discriminate]. inversion H; subst. clear H.
    destruct (IH _ _ _ _ Er) as [IH1 IH2].
    destruct s as [|v|], l as [x| |x|]; simpl in Es; try discriminate; inversion Es; subst; simpl.
    + (* Recv, recv x *)
      destruct (f x) eqn:Ef; simpl in *.
      * split; [intros Hn; specialize (IH1 Hn); simpl in IH1; exact IH1|intros Hd; apply IH2; auto].
      * split; [intros Hn; apply IH1; auto|intros Hd; apply IH2; auto].
    + split; [intros Hn; apply IH1; auto|intros Hd; apply IH2; auto].
    + split; [intros Hn; apply IH1; auto|intros Hd; apply IH2; auto].
    + (* Send v, send x *)
      simpl in *. split.
      * intros Hn. specialize (IH1 Hn). simpl in IH1. rewrite IH1. reflexivity.
      * intros Hd. destruct (IH2 Hd) as (rest & Hr). simpl in Hr. exists rest. rewrite Hr. reflexivity.
    + (* Send v, ctx_done: the pending value is dropped *)
      simpl in *. split.
      * intros Hn. specialize (IH1 Hn). simpl in IH1. destruct tr; simpl in Er; [inversion Er; subst; congruence|discriminate].
      * intros _. destruct tr; simpl in Er; [|discriminate]. inversion Er; subst. simpl. exists [v]. reflexivity.
Qed.

(* outputs are always a prefix of the filtered inputs *)
Theorem stage_prefix tr sf i o :
  run Recv tr = Some (sf, i, o) -> exists rest, filter f i = o ++ rest.
Proof.
  intros H. destruct (run_inv _ _ _ _ _ H) as [H1 H2]. simpl in *.
  destruct sf; [exists []; apply H1; discriminate
               |exists [v]; apply H1; discriminate
               |apply H2; reflexivity].
Qed.

(* without cancellation, when the input closes everything was delivered *)
Fixpoint no_cancel (tr : list label) : bool :=
  match tr with [] => true | ctx_done :: _ => false | _ :: tr' => no_cancel tr' end.

Theorem stage_complete tr i o :
  run Recv tr = Some (Done, i, o) -> no_cancel tr = true -> o = filter f i.
Proof.
  assert (G : forall tr s i o, run s tr = Some (Done, i, o) -> no_cancel tr = true ->
                               o = pending s ++ filter f i).
  { induction tr0 as [|l tr0 IH]; intros s i0 o0 H Hn; simpl in H.
    - inversion H; subst. reflexivity.
    - destruct (step s l) as [s'|] eqn:Es; [|discriminate].
      destruct (run s' tr0) as [[[s'' i'] o']|] eqn:Er; [|discriminate]. inversion H; subst. clear H.
      destruct s as [|v|], l as [x| |x|]; simpl in Es, Hn; try discriminate; inversion Es; subst; simpl.
      + destruct (f x) eqn:Ef; rewrite (IH _ _ _ Er Hn); simpl; rewrite ?Ef; reflexivity.
      + rewrite (IH _ _ _ Er Hn). reflexivity.
      + rewrite (IH _ _ _ Er Hn). reflexivity. }
  intros H Hn. apply (G _ _ _ _ H Hn).
Qed.

(* a cancelled stage is never stuck: ctx_done is enabled wherever the goroutine waits *)
Theorem cancel_enabled s : s <> Done -> step s ctx_done = Some Done.
Proof. destruct s; simpl; congruence. Qed.

End Stage.
Print Assumptions stage_prefix.
Print Assumptions stage_complete.
