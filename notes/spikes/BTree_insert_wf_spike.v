(* Spike: B-tree of order m, functional mirror (see btree_functional_mirror.py): insert + shape invariant *)
From Coq Require Import List ZArith Lia Bool Arith ZifyNat ZifyBool.
Import ListNotations.
Ltac Zify.zify_post_hook ::= Z.div_mod_to_equations.

Arguments firstn : simpl never.
Arguments skipn : simpl never.

Section BT.
Variables K V : Type.
Variable cmp : K -> K -> Z.
Variable m : nat.
Hypothesis m_ge_3 : 3 <= m.

Definition entry := (K * V)%type.
Inductive node := Node (es : list entry) (cs : list node).

Definition maxE := m - 1.
Definition minE := (m + 1) / 2 - 1.
Definition middle := (m - 1) / 2.

Fixpoint search (k : K) (es : list entry) : nat * bool :=
  match es with
  | [] => (0, false)
  | (k', _) :: es' =>
    let d := cmp k k' in
    if (d =? 0)%Z then (0, true)
    else if (d <? 0)%Z then (0, false)
    else let '(i, f) := search k es' in (S i, f)
  end.

Definition insert_at {A} (i : nat) (x : A) (l : list A) : list A := firstn i l ++ x :: skipn i l.
Definition set_nth {A} (i : nat) (x : A) (l : list A) : list A :=
  firstn i l ++ match skipn i l with [] => [] | _ :: t => x :: t end.

Inductive res := RN (n : node) | RS (l : node) (e : entry) (r : node).

Definition split_if (es : list entry) (cs : list node) : option res :=
  if maxE <? length es then
    match nth_error es middle with
    | Some e => Some (RS (Node (firstn middle es) (firstn (S middle) cs)) e
                         (Node (skipn (S middle) es) (skipn (S middle) cs)))
    | None => None
    end
  else Some (RN (Node es cs)).

Fixpoint ins (fuel : nat) (k : K) (v : V) (t : node) : option (res * bool) :=
  match fuel with
  | O => None
  | S f =>
    let '(Node es cs) := t in
    let '(i, found) := search k es in
    if found then Some (RN (Node (set_nth i (k, v) es) cs), false)
    else match cs with
         | [] => match split_if (insert_at i (k, v) es) [] with Some r => Some (r, true) | None => None end
         | _ => match nth_error cs i with
                | None => None
                | Some c =>
                  match ins f k v c with
                  | None => None
                  | Some (RN c', b) => Some (RN (Node es (set_nth i c' cs)), b)
                  | Some (RS l e r, b) =>
                    match split_if (insert_at i e es) (firstn i cs ++ l :: r :: skipn (S i) cs) with
                    | Some r' => Some (r', b) | None => None end
                  end
                end
         end
  end.

(* shape invariant: uniform depth d, entry bounds (lower bound lo at this node, minE below), child counts *)
Fixpoint wf (lo : nat) (d : nat) (t : node) : Prop :=
  let '(Node es cs) := t in
  lo <= length es /\ length es <= maxE /\
  match d with
  | O => cs = []
  | S d' => length cs = S (length es) /\ Forall (wf minE d') cs
  end.

Lemma search_le k es : fst (search k es) <= length es.
Proof.
  induction es as [|[k' v'] es IH]; simpl; [lia|].
  destruct (cmp k k' =? 0)%Z; simpl; [lia|]. destruct (cmp k k' <? 0)%Z; simpl; [lia|].
  destruct (search k es); simpl in *; lia.
Qed.

Lemma search_found_lt k es i : search k es = (i, true) -> i < length es.
Proof.
  revert i. induction es as [|[k' v'] es IH]; simpl; intros i H; [discriminate|].
  destruct (cmp k k' =? 0)%Z; [inversion H; lia|]. destruct (cmp k k' <? 0)%Z; [discriminate|].
  destruct (search k es) as [j f]. inversion H; subst. specialize (IH j eq_refl). lia.
Qed.

Lemma length_insert_at {A} i (x : A) l : i <= length l -> length (insert_at i x l) = S (length l).
Proof. intros. unfold insert_at. rewrite app_length. simpl. rewrite firstn_length, skipn_length. lia. Qed.

Lemma length_set_nth {A} i (x : A) l : length (set_nth i x l) = length l.
Proof.
  unfold set_nth. rewrite app_length, firstn_length.
  destruct (skipn i l) eqn:E; simpl.
  - assert (length (skipn i l) = 0) by now rewrite E. rewrite skipn_length in H. lia.
  - assert (length (skipn i l) = S (length l0)) by now rewrite E. rewrite skipn_length in H. lia.
Qed.

Lemma Forall_firstn {A} (P : A -> Prop) n l : Forall P l -> Forall P (firstn n l).
Proof. intros H. rewrite <- (firstn_skipn n l) in H. apply Forall_app in H. tauto. Qed.
Lemma Forall_skipn {A} (P : A -> Prop) n l : Forall P l -> Forall P (skipn n l).
Proof. intros H. rewrite <- (firstn_skipn n l) in H. apply Forall_app in H. tauto. Qed.

Lemma Forall_set_nth {A} (P : A -> Prop) i x l : Forall P l -> P x -> Forall P (set_nth i x l).
Proof.
  intros HF Hx. unfold set_nth. apply Forall_app. split; [now apply Forall_firstn|].
  pose proof (Forall_skipn P i l HF) as Hs. destruct (skipn i l); auto. inversion Hs; subst. constructor; auto.
Qed.

Lemma nth_error_Forall {A} (P : A -> Prop) l i x : Forall P l -> nth_error l i = Some x -> P x.
Proof. intros HF H. rewrite Forall_forall in HF. apply HF. eapply nth_error_In; eauto. Qed.

Definition kids_ok (d : nat) (es : list entry) (cs : list node) : Prop :=
  match d with
  | O => cs = []
  | S d' => length cs = S (length es) /\ Forall (wf minE d') cs
  end.

Lemma wf_unfold lo d es cs : wf lo d (Node es cs) <-> lo <= length es /\ length es <= maxE /\ kids_ok d es cs.
Proof. destruct d; simpl; tauto. Qed.

Lemma arith_facts : middle <= maxE /\ minE <= middle /\ minE <= m - middle - 1 /\ m - middle - 1 <= maxE /\ 1 <= maxE.
Proof.
  unfold middle, minE, maxE. pose proof m_ge_3. lia.
Qed.

Lemma split_if_wf lo d es cs r :
  lo <= length es -> length es <= S maxE -> kids_ok d es cs -> split_if es cs = Some r ->
  match r with RN t' => wf lo d t' | RS l e r' => wf minE d l /\ wf minE d r' end.
Proof.
  intros Hlo Hhi Hk. unfold split_if.
  destruct (maxE <? length es) eqn:E.
  - apply Nat.ltb_lt in E. assert (Hlen : length es = m) by (unfold maxE in *; lia).
    destruct (nth_error es middle) as [e|] eqn:En; [|discriminate]. intros H; inversion H; subst r; clear H.
    pose proof arith_facts as (A1 & A2 & A3 & A4 & A5). unfold maxE in *.
    split; apply wf_unfold.
    + rewrite firstn_length. split; [lia|]. split; [unfold maxE; lia|].
      destruct d; cbn [kids_ok] in *.
      * subst cs. rewrite ?firstn_nil; reflexivity.
      * destruct Hk as [Hc HF]. split; [|now apply Forall_firstn].
        rewrite !firstn_length. lia.
    + rewrite skipn_length. split; [lia|]. split; [unfold maxE; lia|].
      destruct d; cbn [kids_ok] in *.
      * subst cs. rewrite ?skipn_nil; reflexivity.
      * destruct Hk as [Hc HF]. split; [|now apply Forall_skipn].
        rewrite !skipn_length. lia.
  - apply Nat.ltb_ge in E. intros H; inversion H; subst r. apply wf_unfold. auto.
Qed.

Lemma ins_wf d : forall fuel lo t k v r b,
  wf lo d t -> ins fuel k v t = Some (r, b) ->
  match r with RN t' => wf lo d t' | RS l e r' => wf minE d l /\ wf minE d r' end.
Proof.
  induction d as [|d IH]; intros fuel lo [es cs] k v r b Hwf Hins;
    (destruct fuel as [|f]; [discriminate|]); cbn [ins] in Hins;
    apply wf_unfold in Hwf; destruct Hwf as (Hlo & Hhi & Hk);
    destruct (search k es) as [i found] eqn:Es;
    pose proof (search_le k es) as Hile; rewrite Es in Hile; simpl in Hile.
  - (* leaf *)
    simpl in Hk. subst cs. destruct found.
    + inversion Hins; subst. apply wf_unfold. simpl. rewrite ?length_set_nth. auto.
    + destruct (split_if (insert_at i (k, v) es) []) as [r'|] eqn:Esp; [|discriminate].
      inversion Hins; subst. eapply split_if_wf in Esp; eauto.
      * rewrite length_insert_at; lia.
      * rewrite length_insert_at; lia.
      * simpl. reflexivity.
  - (* internal *)
    destruct Hk as [Hc HF]. destruct found.
    + inversion Hins; subst. apply wf_unfold. simpl. rewrite ?length_set_nth. auto.
    + destruct cs as [|c0 cs']; [simpl in Hc; discriminate|].
      destruct (nth_error (c0 :: cs') i) as [c|] eqn:En; [|discriminate].
      pose proof (nth_error_Forall _ _ _ _ HF En) as Hcwf.
      destruct (ins f k v c) as [[[c'|l e r'] b']|] eqn:Ei; [| |discriminate].
      * inversion Hins; subst. apply (IH _ _ _ _ _ _ _ Hcwf) in Ei.
        apply wf_unfold. simpl. rewrite length_set_nth. repeat split; auto.
        apply Forall_set_nth; auto.
      * apply (IH _ _ _ _ _ _ _ Hcwf) in Ei. destruct Ei as [Hl Hr].
        destruct (split_if (insert_at i e es) (firstn i (c0 :: cs') ++ l :: r' :: skipn (S i) (c0 :: cs'))) as [r2|] eqn:Esp; [|discriminate].
        inversion Hins; subst. eapply split_if_wf in Esp; eauto.
        -- rewrite length_insert_at; lia.
        -- rewrite length_insert_at; lia.
        -- simpl. rewrite length_insert_at by lia. split.
           ++ rewrite app_length. simpl. rewrite firstn_length, skipn_length. simpl in *. lia.
           ++ apply Forall_app. split; [now apply Forall_firstn|].
              constructor; auto. constructor; auto. now apply Forall_skipn.
Qed.

(* ---------------- delete: parent repairs a deficient child ---------------- *)

Definition remove_nth {A} (i : nat) (l : list A) : list A := firstn i l ++ skipn (S i) l.
Definition replace2 {A} (i : nat) (a b : A) (l : list A) : list A := firstn i l ++ a :: b :: skipn (S (S i)) l.
Definition merge2 {A} (i : nat) (a : A) (l : list A) : list A := firstn i l ++ a :: skipn (S (S i)) l.

Definition nes (t : node) := let '(Node es _) := t in es.
Definition ncs (t : node) := let '(Node _ cs) := t in cs.

(* child i of (es, cs) may have one entry too few *)
Definition fix_child (es : list entry) (cs : list node) (i : nat) : option (list entry * list node) :=
  match nth_error cs i with
  | None => None
  | Some (Node ne nc) =>
    if minE <=? length ne then Some (es, cs)
    else
      let left := match i with O => None | S j => nth_error cs j end in
      let right := nth_error cs (S i) in
      match left with
      | Some (Node le lc) =>
        if minE <? length le then
          (* borrow from the left sibling *)
          match i, nth_error es (i - 1), rev le with
          | S j, Some sep, lastE :: _ =>
            let nc' := match rev lc with [] => nc | lastC :: _ => lastC :: nc end in
            Some (set_nth j lastE es,
                  replace2 j (Node (removelast le) (removelast lc)) (Node (sep :: ne) nc') cs)
          | _, _, _ => None
          end
        else
          match right with
          | Some (Node re rc) =>
            if minE <? length re then
              match nth_error es i, re with
              | Some sep, firstE :: re' =>
                let nc' := match rc with [] => nc | firstC :: _ => nc ++ [firstC] end in
                Some (set_nth i firstE es, replace2 i (Node (ne ++ [sep]) nc') (Node re' (tl rc)) cs)
              | _, _ => None
              end
            else
              match nth_error es i with
              | Some sep => Some (remove_nth i es, merge2 i (Node (ne ++ sep :: re) (nc ++ rc)) cs)
              | None => None
              end
          | None =>
            match i, nth_error es (i - 1) with
            | S j, Some sep => Some (remove_nth j es, merge2 j (Node (le ++ sep :: ne) (lc ++ nc)) cs)
            | _, _ => None
            end
          end
      | None =>
        match right with
        | Some (Node re rc) =>
          if minE <? length re then
            match nth_error es i, re with
            | Some sep, firstE :: re' =>
              let nc' := match rc with [] => nc | firstC :: _ => nc ++ [firstC] end in
              Some (set_nth i firstE es, replace2 i (Node (ne ++ [sep]) nc') (Node re' (tl rc)) cs)
            | _, _ => None
            end
          else
            match nth_error es i with
            | Some sep => Some (remove_nth i es, merge2 i (Node (ne ++ sep :: re) (nc ++ rc)) cs)
            | None => None
            end
        | None => Some (es, cs)
        end
      end
  end.

End BT.
