(* Spike: gods-variant red-black tree, recursive functional mirror (see rb_functional_mirror.py) *)
From Coq Require Import List ZArith Lia Bool Sorted.
Import ListNotations.
Local Open Scope Z_scope.

Section RB.
Variables K V : Type.
Variable cmp : K -> K -> Z.

Inductive color := R | B.
Inductive tree := E | T (c : color) (l : tree) (k : K) (v : V) (r : tree).
Inductive side := SL | SR.

Definition col t := match t with E => B | T c _ _ _ _ => c end.
Definition is_red t := match t with T R _ _ _ _ => true | _ => false end.
Definition is_black t := negb (is_red t).
Definition has_red_child p := match p with E => false | T _ l _ _ r => is_red l || is_red r end.
Definition blacken t := match t with E => E | T _ l k v r => T B l k v r end.
Definition redden t := match t with E => E | T _ l k v r => T R l k v r end.

(* insertCase3..5 seen from the grandparent; [l] is the subtree that was just rebuilt *)
Definition fixL c l k v r :=
  if is_red l && has_red_child l then
    if is_red r then T R (blacken l) k v (blacken r)
    else match l with
         | T _ ll lk lv lr =>
           if is_red lr && is_black ll then
             match lr with
             | T _ nl nk nv nr => T B (T R ll lk lv nl) nk nv (T R nr k v r)
             | E => T c l k v r
             end
           else T B ll lk lv (T R lr k v r)
         | E => T c l k v r
         end
  else T c l k v r.

Definition fixR c l k v r :=
  if is_red r && has_red_child r then
    if is_red l then T R (blacken l) k v (blacken r)
    else match r with
         | T _ rl rk rv rr =>
           if is_red rl && is_black rr then
             match rl with
             | T _ nl nk nv nr => T B (T R l k v nl) nk nv (T R nr rk rv rr)
             | E => T c l k v r
             end
           else T B (T R l k v rl) rk rv rr
         | E => T c l k v r
         end
  else T c l k v r.

Fixpoint ins (k : K) (v : V) (t : tree) : tree :=
  match t with
  | E => T R E k v E
  | T c l k' v' r =>
    let d := cmp k k' in
    if d =? 0 then T c l k v r
    else if d <? 0 then fixL c (ins k v l) k' v' r
    else fixR c l k' v' (ins k v r)
  end.

Definition put k v t := blacken (ins k v t).

(* deleteCase3..6: parent colour c, deficient child n on side sd, sibling s *)
Definition mk sd c k v n s := match sd with SL => T c n k v s | SR => T c s k v n end.

Definition cases3to6 (c : color) (k : K) (v : V) (n s : tree) (sd : side) : tree * bool :=
  match s with
  | E => (mk sd c k v n s, false) (* unreachable on valid trees: the Go code would panic *)
  | T sc sl sk sv sr =>
    if is_black s && is_black sl && is_black sr then
      match c with
      | B => (mk sd B k v n (T R sl sk sv sr), true)            (* case 3 *)
      | R => (mk sd B k v n (T R sl sk sv sr), false)           (* case 4 *)
      end
    else
      (* case 5 *)
      let s5 :=
        match sd with
        | SL => if is_black s && is_red sl && is_black sr then
                  match sl with T _ ll lk lv lr => T B ll lk lv (T R lr sk sv sr) | E => s end
                else s
        | SR => if is_black s && is_red sr && is_black sl then
                  match sr with T _ rl rk rv rr => T B (T R sl sk sv rl) rk rv rr | E => s end
                else s
        end in
      (* case 6 *)
      match s5 with
      | E => (mk sd c k v n s5, false)
      | T _ l6 k6 v6 r6 =>
        match sd with
        | SL => if is_red r6 then (T c (T B n k v l6) k6 v6 (blacken r6), false)
                else (T B n k v (T c l6 k6 v6 r6), false) (* includes the Go code's odd else-if; unreachable *)
        | SR => if is_red l6 then (T c (blacken l6) k6 v6 (T B r6 k v n), false)
                else (T B (T c l6 k6 v6 r6) k v n, false)
        end
      end
  end.

Definition fix_deficit (c : color) (k : K) (v : V) (n s : tree) (sd : side) : tree * bool :=
  match s with
  | T R sl sk sv sr =>  (* case 2 *)
    match sd with
    | SL => let '(sub, _) := cases3to6 R k v n sl SL in (T B sub sk sv sr, false)
    | SR => let '(sub, _) := cases3to6 R k v n sr SR in (T B sl sk sv sub, false)
    end
  | _ => cases3to6 c k v n s sd
  end.

(* physical removal of a node with at most one child *)
Definition unlink (c : color) (child : tree) : tree * bool :=
  match c with B => (child, true) | R => (child, false) end.

Fixpoint del_max (t : tree) : option (K * V) * tree * bool :=
  match t with
  | E => (None, E, false)
  | T c l k v r =>
    match r with
    | E => let '(t', d) := unlink c l in (Some (k, v), t', d)
    | _ => let '(m, r', d) := del_max r in
           if d then let '(t', d') := fix_deficit c k v r' l SR in (m, t', d')
           else (m, T c l k v r', false)
    end
  end.

Fixpoint del (x : K) (t : tree) : tree * bool :=
  match t with
  | E => (E, false)
  | T c l k v r =>
    let d := cmp x k in
    if d <? 0 then
      let '(l', df) := del x l in
      if df then fix_deficit c k v l' r SL else (T c l' k v r, false)
    else if d >? 0 then
      let '(r', df) := del x r in
      if df then fix_deficit c k v r' l SR else (T c l k v r', false)
    else
      match l, r with
      | T _ _ _ _ _, T _ _ _ _ _ =>
        let '(m, l', df) := del_max l in
        match m with
        | Some (pk, pv) =>
          if df then fix_deficit c pk pv l' r SL else (T c l' pk pv r, false)
        | None => (t, false)
        end
      | _, E => unlink c l
      | E, _ => unlink c r
      end
  end.

Definition remove x t := blacken (fst (del x t)).

(* ---------- colour / black-height invariants ---------- *)

Inductive rbt : nat -> tree -> Prop :=
| RB_E : rbt 0 E
| RB_R n l k v r : is_red l = false -> is_red r = false -> rbt n l -> rbt n r -> rbt n (T R l k v r)
| RB_B n l k v r : rbt n l -> rbt n r -> rbt (S n) (T B l k v r).

(* red-red allowed at the root only, and then on one side only *)
Inductive arbt : nat -> tree -> Prop :=
| ARB_R n l k v r : rbt n l -> rbt n r -> (is_red l = false \/ is_red r = false) -> arbt n (T R l k v r)
| ARB_B n l k v r : rbt n l -> rbt n r -> arbt (S n) (T B l k v r).

Hint Constructors rbt arbt : core.

Ltac inv H := inversion H; subst; clear H.

(* split every tree whose colour is inspected, invert every rbt/arbt fact about a constructor *)
Ltac crunch :=
  repeat (simpl in *; subst;
    match goal with
    | H : rbt _ (T _ _ _ _ _) |- _ => inv H
    | H : rbt _ E |- _ => inv H
    | H : arbt _ (T _ _ _ _ _) |- _ => inv H
    | H : arbt _ E |- _ => inv H
    | H : _ \/ _ |- _ => destruct H
    | H : _ /\ _ |- _ => destruct H
    | H : true = false |- _ => discriminate H
    | H : false = true |- _ => discriminate H
    | H : S _ = S _ |- _ => injection H as H
    | |- context [is_red ?t] => is_var t; destruct t as [|[] ? ? ? ?]
    | H : context [is_red ?t] |- _ => is_var t; destruct t as [|[] ? ? ? ?]
    | |- context [is_black ?t] => is_var t; destruct t as [|[] ? ? ? ?]
    end); unfold is_black in *; simpl in *.

Lemma fixL_B n l k v r : arbt n l -> rbt n r -> rbt (S n) (fixL B l k v r).
Proof. intros Hl Hr. unfold fixL. crunch; auto 8. Qed.

Lemma fixR_B n l k v r : rbt n l -> arbt n r -> rbt (S n) (fixR B l k v r).
Proof. intros Hl Hr. unfold fixR. crunch; auto 8. Qed.

(* under a red parent the rebuilt child is a proper tree, nothing fires *)
Lemma fixL_R n l k v r : rbt n l -> rbt n r -> is_red r = false -> arbt n (fixL R l k v r).
Proof. intros Hl Hr Hb. unfold fixL. crunch; auto 8. Qed.

Lemma fixR_R n l k v r : rbt n l -> rbt n r -> is_red l = false -> arbt n (fixR R l k v r).
Proof. intros Hl Hr Hb. unfold fixR. crunch; auto 8. Qed.

Lemma rbt_arbt n t : rbt n t -> t <> E -> arbt n t.
Proof. destruct 1; intros; try congruence; auto. Qed.

Lemma fixL_nonE c l k v r : fixL c l k v r <> E.
Proof. unfold fixL. repeat match goal with |- context [match ?x with _ => _ end] => destruct x end; discriminate. Qed.
Lemma fixR_nonE c l k v r : fixR c l k v r <> E.
Proof. unfold fixR. repeat match goal with |- context [match ?x with _ => _ end] => destruct x end; discriminate. Qed.

Lemma ins_rb k v t n : rbt n t ->
  arbt n (ins k v t) /\ (is_red t = false -> rbt n (ins k v t)).
Proof.
  induction 1 as [|n l k' v' r Hl Hr H1 [IH1a IH1b] H2 [IH2a IH2b]|n l k' v' r H1 [IH1a IH1b] H2 [IH2a IH2b]]; simpl.
  - split; auto.
  - destruct (cmp k k' =? 0); [split; [auto|discriminate]|].
    destruct (cmp k k' <? 0); (split; [|discriminate]).
    + apply fixL_R; auto.
    + apply fixR_R; auto.
  - destruct (cmp k k' =? 0); [split; auto|].
    destruct (cmp k k' <? 0).
    + assert (rbt (S n) (fixL B (ins k v l) k' v' r)) by (apply fixL_B; auto).
      split; auto. apply rbt_arbt; auto using fixL_nonE.
    + assert (rbt (S n) (fixR B l k' v' (ins k v r))) by (apply fixR_B; auto).
      split; auto. apply rbt_arbt; auto using fixR_nonE.
Qed.

Definition RBInv t := exists n, rbt n t /\ is_red t = false.

Theorem put_inv k v t : RBInv t -> RBInv (put k v t).
Proof.
  intros (n & H & Hb). destruct (ins_rb k v t n H) as [Ha _]. unfold put.
  inv Ha; simpl.
  - exists (S n). split; auto.
  - exists (S n0). split; auto.
Qed.

(* ---------------- delete ---------------- *)

Definition after_fix (c : color) (m : nat) (res : tree) (d : bool) : Prop :=
  if d then c = B /\ rbt (S m) res /\ is_red res = false
  else rbt (match c with B => S (S m) | R => S m end) res /\ (c = B -> is_red res = false).

Lemma cases3to6_spec c k v n s sd m res d :
  rbt m n -> rbt (S m) s -> is_red s = false ->
  cases3to6 c k v n s sd = (res, d) -> after_fix c m res d.
Proof.
  intros Hn Hs Hb. unfold cases3to6, after_fix.
  destruct s as [|sc sl sk sv sr]; [inv Hs|].
  destruct sc; [discriminate|]. inv Hs.
  destruct c, sd; crunch;
    intro Heq; inv Heq; repeat split; auto 8; try discriminate; try congruence.
Qed.

Lemma fix_deficit_spec c k v n s sd m res d :
  rbt m n -> rbt (S m) s -> (c = R -> is_red s = false) ->
  fix_deficit c k v n s sd = (res, d) -> after_fix c m res d.
Proof.
  intros Hn Hs Hc. unfold fix_deficit.
  destruct s as [|[] sl sk sv sr].
  - inv Hs.
  - (* case 2: red sibling, so c = B *)
    destruct c; [specialize (Hc eq_refl); discriminate|]. inv Hs.
    destruct sd.
    + destruct (cases3to6 R k v n sl SL) as [sub d0] eqn:E0. intro Heq; inv Heq.
      apply cases3to6_spec with (m := m) in E0; auto.
      unfold after_fix in *. destruct d0; [destruct E0; discriminate|]. destruct E0. split; auto.
    + destruct (cases3to6 R k v n sr SR) as [sub d0] eqn:E0. intro Heq; inv Heq.
      apply cases3to6_spec with (m := m) in E0; auto.
      unfold after_fix in *. destruct d0; [destruct E0; discriminate|]. destruct E0. split; auto.
  - intro Heq. eapply cases3to6_spec; eauto.
Qed.

Definition after_del (t : tree) (n : nat) (t' : tree) (d : bool) : Prop :=
  if d then is_red t = false /\ exists m, n = S m /\ rbt m t'
  else rbt n t' /\ (is_red t = false -> is_red t' = false).

Lemma after_fix_del c l k v r m res d :
  rbt (S m) l -> rbt (S m) r -> (c = R -> is_red l = false /\ is_red r = false) ->
  after_fix c m res d ->
  after_del (T c l k v r) (match c with B => S (S m) | R => S m end) res d.
Proof.
  unfold after_fix, after_del. intros Hl Hr Hc. destruct d.
  - intros (-> & H & Hb). split; auto. eauto.
  - intros (H & Hb). split; auto. destruct c; simpl; auto. discriminate.
Qed.

Lemma unlink_spec c l k v n :
  rbt n (T c l k v E) -> let '(t', d) := unlink c l in after_del (T c l k v E) n t' d.
Proof.
  intros H. unfold unlink, after_del. destruct c; inv H.
  - match goal with H : rbt _ E |- _ => inv H end. split; auto.
  - match goal with H : rbt _ E |- _ => inv H end. split; auto. eauto.
Qed.

Lemma unlink_spec_r c r k v n :
  rbt n (T c E k v r) -> let '(t', d) := unlink c r in after_del (T c E k v r) n t' d.
Proof.
  intros H. unfold unlink, after_del. destruct c; inv H.
  - match goal with H : rbt _ E |- _ => inv H end. split; auto.
  - match goal with H : rbt _ E |- _ => inv H end. split; auto. eauto.
Qed.

Lemma rbt_children c l k v r n :
  rbt n (T c l k v r) ->
  exists m, rbt m l /\ rbt m r /\ n = (match c with B => S m | R => m end) /\
            (c = R -> is_red l = false /\ is_red r = false).
Proof. intros H; inv H; eexists; repeat split; eauto; discriminate. Qed.

Lemma del_max_spec t n : rbt n t -> t <> E ->
  let '(mx, t', d) := del_max t in mx <> None /\ after_del t n t' d.
Proof.
  induction 1 as [|n l k v r Hl Hr H1 IH1 H2 IH2|n l k v r H1 IH1 H2 IH2]; intros Hne; try congruence.
  - (* red node *)
    simpl. destruct r as [|rc rl rk rv rr].
    + pose proof (unlink_spec R l k v n) as U. simpl in U. split; [discriminate|]. apply U. auto.
    + assert (Hr' : T rc rl rk rv rr <> E) by discriminate. specialize (IH2 Hr').
      destruct (del_max (T rc rl rk rv rr)) as [[mx r'] d]. destruct IH2 as [Hm Had].
      unfold after_del in Had. destruct d.
      * destruct Had as (_ & m & -> & Hr2).
        destruct (fix_deficit R k v r' l SR) as [res d'] eqn:Ef. split; auto.
        apply fix_deficit_spec with (m := m) in Ef; auto.
        apply (after_fix_del R l k v (T rc rl rk rv rr) m) in Ef; auto.
      * destruct Had as (Hr2 & Hb). split; auto. unfold after_del. split; [|discriminate].
        constructor; auto.
  - simpl. destruct r as [|rc rl rk rv rr].
    + pose proof (unlink_spec B l k v (S n)) as U. simpl in U. split; [discriminate|]. apply U. auto.
    + assert (Hr' : T rc rl rk rv rr <> E) by discriminate. specialize (IH2 Hr').
      destruct (del_max (T rc rl rk rv rr)) as [[mx r'] d]. destruct IH2 as [Hm Had].
      unfold after_del in Had. destruct d.
      * destruct Had as (_ & m & -> & Hr2).
        destruct (fix_deficit B k v r' l SR) as [res d'] eqn:Ef. split; auto.
        apply fix_deficit_spec with (m := m) in Ef; auto; [|discriminate].
        apply (after_fix_del B l k v (T rc rl rk rv rr) m) in Ef; auto. discriminate.
      * destruct Had as (Hr2 & Hb). split; auto. unfold after_del. split; auto.
Qed.

Lemma del_spec x t n : rbt n t ->
  let '(t', d) := del x t in after_del t n t' d.
Proof.
  induction 1 as [|n l k v r Hl Hr H1 IH1 H2 IH2|n l k v r H1 IH1 H2 IH2].
  - simpl. split; auto.
  - (* red node: children black, same height n *)
    simpl. destruct (cmp x k <? 0).
    { destruct (del x l) as [l' df]. unfold after_del in IH1. destruct df.
      - destruct IH1 as (_ & m & -> & Hl2).
        destruct (fix_deficit R k v l' r SL) as [res d'] eqn:Ef.
        apply fix_deficit_spec with (m := m) in Ef; auto.
        apply (after_fix_del R l k v r m) in Ef; auto.
      - destruct IH1 as (Hl2 & Hb). split; [|discriminate]. constructor; auto. }
    destruct (cmp x k >? 0).
    { destruct (del x r) as [r' df]. unfold after_del in IH2. destruct df.
      - destruct IH2 as (_ & m & -> & Hr2).
        destruct (fix_deficit R k v r' l SR) as [res d'] eqn:Ef.
        apply fix_deficit_spec with (m := m) in Ef; auto.
        apply (after_fix_del R l k v r m) in Ef; auto.
      - destruct IH2 as (Hr2 & Hb). split; [|discriminate]. constructor; auto. }
    destruct l as [|lc ll lk lv lr].
    { destruct r as [|rc rl rk rv rr].
      - apply (unlink_spec R E k v n). auto.
      - apply (unlink_spec_r R (T rc rl rk rv rr) k v n). auto. }
    destruct r as [|rc rl rk rv rr].
    { apply (unlink_spec R (T lc ll lk lv lr) k v n). auto. }
    pose proof (del_max_spec (T lc ll lk lv lr) n H1) as DM.
    destruct (del_max (T lc ll lk lv lr)) as [[mx l'] df].
    destruct DM as [Hm Had]; [discriminate|]. destruct mx as [[pk pv]|]; [|congruence].
    unfold after_del in Had. destruct df.
    + destruct Had as (_ & m & -> & Hl2).
      destruct (fix_deficit R pk pv l' (T rc rl rk rv rr) SL) as [res d'] eqn:Ef.
      apply fix_deficit_spec with (m := m) in Ef; auto.
      apply (after_fix_del R (T lc ll lk lv lr) k v (T rc rl rk rv rr) m) in Ef; auto.
    + destruct Had as (Hl2 & Hb). split; [|discriminate]. constructor; auto.
  - (* black node *)
    simpl. destruct (cmp x k <? 0).
    { destruct (del x l) as [l' df]. unfold after_del in IH1. destruct df.
      - destruct IH1 as (_ & m & -> & Hl2).
        destruct (fix_deficit B k v l' r SL) as [res d'] eqn:Ef.
        apply fix_deficit_spec with (m := m) in Ef; auto; [|discriminate].
        apply (after_fix_del B l k v r m) in Ef; auto. discriminate.
      - destruct IH1 as (Hl2 & Hb). split; auto. }
    destruct (cmp x k >? 0).
    { destruct (del x r) as [r' df]. unfold after_del in IH2. destruct df.
      - destruct IH2 as (_ & m & -> & Hr2).
        destruct (fix_deficit B k v r' l SR) as [res d'] eqn:Ef.
        apply fix_deficit_spec with (m := m) in Ef; auto; [|discriminate].
        apply (after_fix_del B l k v r m) in Ef; auto. discriminate.
      - destruct IH2 as (Hr2 & Hb). split; auto. }
    destruct l as [|lc ll lk lv lr].
    { destruct r as [|rc rl rk rv rr].
      - apply (unlink_spec B E k v (S n)). auto.
      - apply (unlink_spec_r B (T rc rl rk rv rr) k v (S n)). auto. }
    destruct r as [|rc rl rk rv rr].
    { apply (unlink_spec B (T lc ll lk lv lr) k v (S n)). auto. }
    pose proof (del_max_spec (T lc ll lk lv lr) n H1) as DM.
    destruct (del_max (T lc ll lk lv lr)) as [[mx l'] df].
    destruct DM as [Hm Had]; [discriminate|]. destruct mx as [[pk pv]|]; [|congruence].
    unfold after_del in Had. destruct df.
    + destruct Had as (_ & m & -> & Hl2).
      destruct (fix_deficit B pk pv l' (T rc rl rk rv rr) SL) as [res d'] eqn:Ef.
      apply fix_deficit_spec with (m := m) in Ef; auto; [|discriminate].
      apply (after_fix_del B (T lc ll lk lv lr) k v (T rc rl rk rv rr) m) in Ef; auto. discriminate.
    + destruct Had as (Hl2 & Hb). split; auto.
Qed.

Lemma rbt_blacken n t : rbt n t -> exists m, rbt m (blacken t) /\ is_red (blacken t) = false.
Proof. destruct 1; simpl; eauto. Qed.

Theorem remove_inv x t : RBInv t -> RBInv (remove x t).
Proof.
  intros (n & H & Hb). unfold remove, RBInv.
  pose proof (del_spec x t n H) as D. destruct (del x t) as [t' d]. simpl.
  unfold after_del in D. destruct d.
  - destruct D as (_ & m & -> & H'). eapply rbt_blacken; eauto.
  - destruct D as (H' & _). eapply rbt_blacken; eauto.
Qed.

(* ---------------- refinement to a sorted association list ---------------- *)

Hypothesis cmp_antisym_lt : forall a b, cmp a b < 0 <-> cmp b a > 0.
Hypothesis cmp_antisym_eq : forall a b, cmp a b = 0 <-> cmp b a = 0.
Hypothesis cmp_trans : forall a b c, cmp a b <= 0 -> cmp b c <= 0 -> cmp a c <= 0.

Lemma lt_le_trans a b c : cmp a b < 0 -> cmp b c <= 0 -> cmp a c < 0.
Proof.
  intros H1 H2. assert (H3 : cmp a c <= 0) by (apply cmp_trans with b; lia).
  destruct (Z.eq_dec (cmp a c) 0) as [E0|]; [|lia].
  (* a ~ c, so c <= a, b <= c <= a, contradiction with a < b *)
  assert (cmp c a <= 0) by (apply cmp_antisym_eq in E0; lia).
  assert (cmp b a <= 0) by (apply cmp_trans with c; lia).
  apply cmp_antisym_lt in H1. lia.
Qed.

Lemma le_lt_trans a b c : cmp a b <= 0 -> cmp b c < 0 -> cmp a c < 0.
Proof.
  intros H1 H2. assert (H3 : cmp a c <= 0) by (apply cmp_trans with b; lia).
  destruct (Z.eq_dec (cmp a c) 0) as [E0|]; [|lia].
  assert (cmp c a <= 0) by (apply cmp_antisym_eq in E0; lia).
  assert (cmp c b <= 0) by (apply cmp_trans with a; lia).
  apply cmp_antisym_lt in H2. lia.
Qed.

Lemma lt_trans a b c : cmp a b < 0 -> cmp b c < 0 -> cmp a c < 0.
Proof. intros; apply lt_le_trans with b; lia. Qed.

Fixpoint elements (t : tree) : list (K * V) :=
  match t with E => [] | T _ l k v r => elements l ++ (k, v) :: elements r end.

Fixpoint sm_put (k : K) (v : V) (m : list (K * V)) : list (K * V) :=
  match m with
  | [] => [(k, v)]
  | (k', v') :: m' =>
    let d := cmp k k' in
    if d =? 0 then (k, v) :: m'
    else if d <? 0 then (k, v) :: (k', v') :: m'
    else (k', v') :: sm_put k v m'
  end.

Fixpoint sm_remove (k : K) (m : list (K * V)) : list (K * V) :=
  match m with
  | [] => []
  | (k', v') :: m' =>
    let d := cmp k k' in
    if d <? 0 then m
    else if d >? 0 then (k', v') :: sm_remove k m'
    else m'
  end.

Definition ltk (a b : K * V) := cmp (fst a) (fst b) < 0.
Definition sorted (m : list (K * V)) := StronglySorted ltk m.

Lemma app_assoc' {A} (a b c : list A) x : (a ++ x :: b) ++ c = a ++ x :: b ++ c.
Proof. now rewrite <- app_assoc. Qed.

Ltac norm_app := repeat (rewrite <- ?app_assoc; simpl).

Lemma elements_blacken t : elements (blacken t) = elements t.
Proof. destruct t; reflexivity. Qed.

Lemma elements_fixL c l k v r : elements (fixL c l k v r) = elements l ++ (k, v) :: elements r.
Proof.
  unfold fixL.
  repeat match goal with |- context [match ?x with _ => _ end] => destruct x end;
    simpl; rewrite ?elements_blacken; simpl; norm_app; reflexivity.
Qed.

Lemma elements_fixR c l k v r : elements (fixR c l k v r) = elements l ++ (k, v) :: elements r.
Proof.
  unfold fixR.
  repeat match goal with |- context [match ?x with _ => _ end] => destruct x end;
    simpl; rewrite ?elements_blacken; simpl; norm_app; reflexivity.
Qed.

Lemma sorted_app_inv l1 x l2 :
  sorted (l1 ++ x :: l2) ->
  sorted l1 /\ sorted l2 /\ Forall (fun a => ltk a x) l1 /\ Forall (ltk x) l2.
Proof.
  induction l1 as [|a l1 IH]; simpl; intros H.
  - inv H. repeat split; auto. constructor.
  - inv H. destruct (IH H2) as (S1 & S2 & F1 & F2). repeat split; auto.
    + constructor; auto. rewrite Forall_app in H3. tauto.
    + constructor; auto. rewrite Forall_app in H3. destruct H3 as [_ H3]. inv H3. auto.
Qed.

Lemma sm_put_left k v l1 k' v' l2 :
  cmp k k' < 0 -> sm_put k v (l1 ++ (k', v') :: l2) = sm_put k v l1 ++ (k', v') :: l2.
Proof.
  intros Hlt. induction l1 as [|[a b] l1 IH]; simpl.
  - destruct (cmp k k' =? 0) eqn:E1; [lia|]. destruct (cmp k k' <? 0) eqn:E2; [reflexivity|lia].
  - destruct (cmp k a =? 0); [reflexivity|]. destruct (cmp k a <? 0); [reflexivity|]. now rewrite IH.
Qed.

Lemma sm_put_right k v l1 k' v' l2 :
  cmp k k' > 0 -> Forall (fun a => ltk a (k', v')) l1 ->
  sm_put k v (l1 ++ (k', v') :: l2) = l1 ++ (k', v') :: sm_put k v l2.
Proof.
  intros Hgt HF. induction l1 as [|[a b] l1 IH]; simpl.
  - destruct (cmp k k' =? 0) eqn:E1; [lia|]. destruct (cmp k k' <? 0) eqn:E2; [lia|reflexivity].
  - inv HF. unfold ltk in H1; simpl in H1.
    assert (cmp a k < 0) by (apply lt_trans with k'; auto; apply cmp_antisym_lt; lia).
    apply cmp_antisym_lt in H.
    destruct (cmp k a =? 0) eqn:E1; [lia|]. destruct (cmp k a <? 0) eqn:E2; [lia|]. now rewrite IH.
Qed.

Lemma sm_put_here k v l1 k' v' l2 :
  cmp k k' = 0 -> Forall (fun a => ltk a (k', v')) l1 ->
  sm_put k v (l1 ++ (k', v') :: l2) = l1 ++ (k, v) :: l2.
Proof.
  intros Heq HF. induction l1 as [|[a b] l1 IH]; simpl.
  - destruct (cmp k k' =? 0) eqn:E1; [reflexivity|lia].
  - inv HF. unfold ltk in H1; simpl in H1.
    assert (cmp a k < 0) by (apply lt_le_trans with k'; auto; apply cmp_antisym_eq in Heq; lia).
    apply cmp_antisym_lt in H.
    destruct (cmp k a =? 0) eqn:E1; [lia|]. destruct (cmp k a <? 0) eqn:E2; [lia|]. now rewrite IH.
Qed.

Theorem ins_elements k v t :
  sorted (elements t) -> elements (ins k v t) = sm_put k v (elements t).
Proof.
  induction t as [|c l IHl k' v' r IHr]; simpl; intros HS; [reflexivity|].
  destruct (sorted_app_inv _ _ _ HS) as (S1 & S2 & F1 & F2).
  destruct (cmp k k' =? 0) eqn:E1.
  - simpl. symmetry. apply sm_put_here; auto. lia.
  - destruct (cmp k k' <? 0) eqn:E2.
    + rewrite elements_fixL, IHl by auto. symmetry. apply sm_put_left. lia.
    + rewrite elements_fixR, IHr by auto. symmetry. apply sm_put_right; auto. lia.
Qed.

Corollary put_elements k v t :
  sorted (elements t) -> elements (put k v t) = sm_put k v (elements t).
Proof. intros. unfold put. rewrite elements_blacken. now apply ins_elements. Qed.

(* ---------------- delete refines sm_remove ---------------- *)

Lemma elements_mk sd c k v n s :
  elements (mk sd c k v n s) =
  match sd with SL => elements n ++ (k, v) :: elements s | SR => elements s ++ (k, v) :: elements n end.
Proof. destruct sd; reflexivity. Qed.

Ltac split_colours :=
  repeat (simpl;
    match goal with
    | |- context [is_red ?t] => is_var t; destruct t as [|[] ? ? ? ?]
    | |- context [is_black ?t] => is_var t; destruct t as [|[] ? ? ? ?]
    end); unfold is_black; simpl.

Lemma elements_cases3to6 c k v n s sd :
  elements (fst (cases3to6 c k v n s sd)) =
  match sd with SL => elements n ++ (k, v) :: elements s | SR => elements s ++ (k, v) :: elements n end.
Proof.
  unfold cases3to6. destruct s as [|sc sl sk sv sr]; [destruct sd; reflexivity|].
  destruct sc, c, sd; split_colours; rewrite ?elements_blacken; simpl; norm_app; reflexivity.
Qed.

Lemma elements_fix_deficit c k v n s sd :
  elements (fst (fix_deficit c k v n s sd)) =
  match sd with SL => elements n ++ (k, v) :: elements s | SR => elements s ++ (k, v) :: elements n end.
Proof.
  unfold fix_deficit. destruct s as [|[] sl sk sv sr]; try apply elements_cases3to6.
  destruct sd.
  - pose proof (elements_cases3to6 R k v n sl SL) as H. destruct (cases3to6 R k v n sl SL). simpl in *.
    rewrite H. norm_app. reflexivity.
  - pose proof (elements_cases3to6 R k v n sr SR) as H. destruct (cases3to6 R k v n sr SR). simpl in *.
    rewrite H. norm_app. reflexivity.
Qed.

Lemma elements_unlink c t : elements (fst (unlink c t)) = elements t.
Proof. destruct c; reflexivity. Qed.

Lemma del_max_elements t : t <> E ->
  let '(mx, t', _) := del_max t in
  exists p, mx = Some p /\ elements t = elements t' ++ [p].
Proof.
  induction t as [|c l IHl k v r IHr]; intros Hne; [congruence|]. simpl.
  destruct r as [|rc rl rk rv rr].
  - destruct c; simpl; exists (k, v); split; auto.
  - assert (Hr : T rc rl rk rv rr <> E) by discriminate. specialize (IHr Hr).
    destruct (del_max (T rc rl rk rv rr)) as [[mx r'] d]. destruct IHr as (p & -> & He).
    destruct d.
    + pose proof (elements_fix_deficit c k v r' l SR) as Hf.
      destruct (fix_deficit c k v r' l SR) as [t' d']. simpl in Hf. exists p. split; auto.
      rewrite Hf. simpl in He |- *. rewrite He. norm_app. reflexivity.
    + exists p. split; auto. simpl in He |- *. rewrite He. norm_app. reflexivity.
Qed.

Lemma sm_remove_left x l1 k' v' l2 :
  cmp x k' < 0 -> sm_remove x (l1 ++ (k', v') :: l2) = sm_remove x l1 ++ (k', v') :: l2.
Proof.
  intros Hlt. induction l1 as [|[a b] l1 IH]; simpl.
  - destruct (cmp x k' <? 0) eqn:E1; [reflexivity|lia].
  - destruct (cmp x a <? 0); [reflexivity|]. destruct (cmp x a >? 0); [now rewrite IH|reflexivity].
Qed.

Lemma sm_remove_right x l1 k' v' l2 :
  cmp x k' > 0 -> Forall (fun a => ltk a (k', v')) l1 ->
  sm_remove x (l1 ++ (k', v') :: l2) = l1 ++ (k', v') :: sm_remove x l2.
Proof.
  intros Hgt HF. induction l1 as [|[a b] l1 IH]; simpl.
  - destruct (cmp x k' <? 0) eqn:E1; [lia|]. destruct (cmp x k' >? 0) eqn:E2; [reflexivity|lia].
  - inv HF. unfold ltk in H1; simpl in H1.
    assert (cmp a x < 0) by (apply lt_trans with k'; auto; apply cmp_antisym_lt; lia).
    apply cmp_antisym_lt in H.
    destruct (cmp x a <? 0) eqn:E1; [lia|]. destruct (cmp x a >? 0) eqn:E2; [|lia]. now rewrite IH.
Qed.

Lemma sm_remove_here x l1 k' v' l2 :
  cmp x k' = 0 -> Forall (fun a => ltk a (k', v')) l1 ->
  sm_remove x (l1 ++ (k', v') :: l2) = l1 ++ l2.
Proof.
  intros Heq HF. induction l1 as [|[a b] l1 IH]; simpl.
  - destruct (cmp x k' <? 0) eqn:E1; [lia|]. destruct (cmp x k' >? 0) eqn:E2; [lia|reflexivity].
  - inv HF. unfold ltk in H1; simpl in H1.
    assert (cmp a x < 0) by (apply lt_le_trans with k'; auto; apply cmp_antisym_eq in Heq; lia).
    apply cmp_antisym_lt in H.
    destruct (cmp x a <? 0) eqn:E1; [lia|]. destruct (cmp x a >? 0) eqn:E2; [|lia]. now rewrite IH.
Qed.

Theorem del_elements x t :
  sorted (elements t) -> elements (fst (del x t)) = sm_remove x (elements t).
Proof.
  induction t as [|c l IHl k v r IHr]; simpl; intros HS; [reflexivity|].
  destruct (sorted_app_inv _ _ _ HS) as (S1 & S2 & F1 & F2).
  destruct (cmp x k <? 0) eqn:E1.
  - specialize (IHl S1). destruct (del x l) as [l' df]. simpl in IHl.
    rewrite sm_remove_left by lia. rewrite <- IHl. destruct df.
    + apply (elements_fix_deficit c k v l' r SL).
    + reflexivity.
  - destruct (cmp x k >? 0) eqn:E2.
    + specialize (IHr S2). destruct (del x r) as [r' df]. simpl in IHr.
      rewrite sm_remove_right by (auto; lia). rewrite <- IHr. destruct df.
      * apply (elements_fix_deficit c k v r' l SR).
      * reflexivity.
    + rewrite sm_remove_here by (auto; lia).
      destruct l as [|lc ll lk lv lr].
      { destruct r as [|rc rl rk rv rr]; rewrite elements_unlink; simpl; auto. }
      destruct r as [|rc rl rk rv rr].
      { rewrite elements_unlink. simpl. now rewrite app_nil_r. }
      pose proof (del_max_elements (T lc ll lk lv lr)) as DM.
      destruct (del_max (T lc ll lk lv lr)) as [[mx l'] df].
      destruct DM as (p & -> & He); [discriminate|]. destruct p as [pk pv].
      rewrite He. destruct df.
      * rewrite (elements_fix_deficit c pk pv l' (T rc rl rk rv rr) SL). norm_app. reflexivity.
      * simpl. norm_app. reflexivity.
Qed.

Corollary remove_elements x t :
  sorted (elements t) -> elements (remove x t) = sm_remove x (elements t).
Proof. intros. unfold remove. rewrite elements_blacken. now apply del_elements. Qed.

(* the reference operations keep the list sorted *)
Lemma Forall_ltk_trans a b l : ltk a b -> Forall (ltk b) l -> Forall (ltk a) l.
Proof.
  intros Hab HF. rewrite Forall_forall in *. intros x Hx. unfold ltk in *.
  apply lt_trans with (fst b); auto.
Qed.

Lemma sm_put_Forall (P : K * V -> Prop) k v m : Forall P m -> P (k, v) -> Forall P (sm_put k v m).
Proof.
  induction m as [|[k' v'] m IH]; simpl; intros HF HP; [constructor; auto|].
  inv HF. destruct (cmp k k' =? 0); [constructor; auto|].
  destruct (cmp k k' <? 0); constructor; auto.
Qed.

Lemma sm_remove_Forall (P : K * V -> Prop) k m : Forall P m -> Forall P (sm_remove k m).
Proof.
  induction m as [|[k' v'] m IH]; simpl; intros HF; [constructor|].
  inv HF. destruct (cmp k k' <? 0); [constructor; auto|].
  destruct (cmp k k' >? 0); [constructor; auto|auto].
Qed.

Lemma sm_put_sorted k v m : sorted m -> sorted (sm_put k v m).
Proof.
  induction m as [|[k' v'] m IH]; simpl; intros HS.
  - repeat constructor.
  - inv HS. destruct (cmp k k' =? 0) eqn:E1.
    + constructor; auto. rewrite Forall_forall in *. intros x Hx. specialize (H2 x Hx).
      unfold ltk in *. simpl in *. apply le_lt_trans with k'; auto. lia.
    + destruct (cmp k k' <? 0) eqn:E2.
      * constructor; [constructor; auto|]. constructor; [unfold ltk; simpl; lia|].
        apply Forall_ltk_trans with (k', v'); auto. unfold ltk; simpl; lia.
      * constructor; [apply IH; auto|]. apply sm_put_Forall; auto.
        unfold ltk; simpl. apply cmp_antisym_lt. lia.
Qed.

Lemma sm_remove_sorted k m : sorted m -> sorted (sm_remove k m).
Proof.
  induction m as [|[k' v'] m IH]; simpl; intros HS; [constructor|].
  inv HS. destruct (cmp k k' <? 0); [constructor; auto|].
  destruct (cmp k k' >? 0); [|auto].
  constructor; [apply IH; auto|]. now apply sm_remove_Forall.
Qed.

(* lookup *)
Fixpoint lookup (x : K) (t : tree) : option V :=
  match t with
  | E => None
  | T _ l k v r => let d := cmp x k in if d =? 0 then Some v else if d <? 0 then lookup x l else lookup x r
  end.

Fixpoint sm_get (x : K) (m : list (K * V)) : option V :=
  match m with
  | [] => None
  | (k, v) :: m' => let d := cmp x k in if d =? 0 then Some v else if d <? 0 then None else sm_get x m'
  end.

Lemma sm_get_left x l1 k' v' l2 : cmp x k' < 0 -> sm_get x (l1 ++ (k', v') :: l2) = sm_get x l1.
Proof.
  intros Hlt. induction l1 as [|[a b] l1 IH]; simpl.
  - destruct (cmp x k' =? 0) eqn:E1; [lia|]. destruct (cmp x k' <? 0) eqn:E2; [reflexivity|lia].
  - destruct (cmp x a =? 0); [reflexivity|]. destruct (cmp x a <? 0); [reflexivity|]. exact IH.
Qed.

Lemma sm_get_right x l1 k' v' l2 :
  cmp x k' >= 0 -> Forall (fun a => ltk a (k', v')) l1 ->
  sm_get x (l1 ++ (k', v') :: l2) = sm_get x ((k', v') :: l2).
Proof.
  intros Hge HF. induction l1 as [|[a b] l1 IH]; [reflexivity|].
  inv HF. unfold ltk in H1; simpl in H1.
  assert (cmp a x < 0).
  { apply lt_le_trans with k'; auto. destruct (Z.eq_dec (cmp x k') 0) as [E0|];
      [apply cmp_antisym_eq in E0; lia|]. assert (cmp x k' > 0) by lia. apply cmp_antisym_lt in H. lia. }
  apply cmp_antisym_lt in H. cbn [app sm_get].
  destruct (cmp x a =? 0) eqn:E1; [lia|]. destruct (cmp x a <? 0) eqn:E2; [lia|]. now apply IH.
Qed.

Theorem lookup_elements x t : sorted (elements t) -> lookup x t = sm_get x (elements t).
Proof.
  induction t as [|c l IHl k v r IHr]; simpl; intros HS; [reflexivity|].
  destruct (sorted_app_inv _ _ _ HS) as (S1 & S2 & F1 & F2).
  destruct (cmp x k =? 0) eqn:E1.
  - rewrite sm_get_right by (auto; lia). simpl. now rewrite E1.
  - destruct (cmp x k <? 0) eqn:E2.
    + rewrite sm_get_left by lia. auto.
    + rewrite sm_get_right by (auto; lia). simpl. rewrite E1, E2. auto.
Qed.

(* every reachable tree is a valid red-black search tree and agrees with the reference map *)
Definition Good t := RBInv t /\ sorted (elements t).

Theorem put_good k v t : Good t -> Good (put k v t) /\ elements (put k v t) = sm_put k v (elements t).
Proof.
  intros [HI HS]. assert (He := put_elements k v t HS). repeat split; auto.
  - now apply put_inv.
  - rewrite He. now apply sm_put_sorted.
Qed.

Theorem remove_good x t : Good t -> Good (remove x t) /\ elements (remove x t) = sm_remove x (elements t).
Proof.
  intros [HI HS]. assert (He := remove_elements x t HS). repeat split; auto.
  - now apply remove_inv.
  - rewrite He. now apply sm_remove_sorted.
Qed.

End RB.

Print Assumptions put_good.
Print Assumptions remove_good.
Print Assumptions lookup_elements.
