import sys
sys.setrecursionlimit(10000)
# tree: None | (c,k,l,r)  c in 'R','B'
def col(t): return 'B' if t is None else t[0]

def parse(s):
    pos=[0]
    def p():
        if s[pos[0]]=='.':
            pos[0]+=1; return None
        assert s[pos[0]]=='('; pos[0]+=1
        c=s[pos[0]]; pos[0]+=1
        j=s.index(' ',pos[0]); k=int(s[pos[0]:j]); pos[0]=j+1
        l=p(); assert s[pos[0]]==' '; pos[0]+=1
        r=p(); assert s[pos[0]]==')'; pos[0]+=1
        return (c,k,l,r)
    return p()
def show(t):
    if t is None: return '.'
    return '(%s%d %s %s)'%(t[0],t[1],show(t[2]),show(t[3]))

def has_red_child(p): return p is not None and (col(p[2])=='R' or col(p[3])=='R')

def fix_ins(c,k,l,r,side):
    p = l if side=='L' else r
    u = r if side=='L' else l
    if not (col(p)=='R' and has_red_child(p)):
        return (c,k,l,r)
    if col(u)=='R':   # case 3
        p2=('B',)+p[1:]; u2=('B',)+u[1:]
        return ('R',k,p2,u2) if side=='L' else ('R',k,u2,p2)
    # case 4/5
    if side=='L':
        pc,pk,pl,pr=p
        if col(pr)=='R' and col(pl)!='R':   # inner: n = p.right
            n=pr; nc,nk,nl,nr=n
            # rotateLeft(p): n root, p left child with p.right = n.left
            p=('R',pk,pl,nl); 
            # now node = p, parent = n, case5: parent black, g red, rotateRight(g)
            return ('B',nk,p,('R',k,nr,r))
        else:  # outer: n = p.left
            return ('B',pk,pl,('R',k,pr,r))
    else:
        pc,pk,pl,pr=p
        if col(pl)=='R' and col(pr)!='R':
            n=pl; nc,nk,nl,nr=n
            p=('R',pk,nr,pr)
            return ('B',nk,('R',k,l,nl),p)
        else:
            return ('B',pk,('R',k,l,pl),pr)

def ins(t,k):
    if t is None: return ('R',k,None,None)
    c,key,l,r=t
    if k==key: return t
    if k<key: return fix_ins(c,key,ins(l,k),r,'L')
    return fix_ins(c,key,l,ins(r,k),'R')

def put(t,k):
    t2=ins(t,k)
    return ('B',)+t2[1:]

def cases3to6(c,k,n,s,side):
    # parent (c,k), deficient child n on side, sibling s. returns (tree, deficit)
    sc,sk,sl,sr = s
    if c=='B' and sc=='B' and col(sl)=='B' and col(sr)=='B':    # case 3
        s2=('R',sk,sl,sr)
        return ((c,k,n,s2) if side=='L' else (c,k,s2,n)), True
    if c=='R' and sc=='B' and col(sl)=='B' and col(sr)=='B':    # case 4
        s2=('R',sk,sl,sr)
        return (('B',k,n,s2) if side=='L' else ('B',k,s2,n)), False
    # case 5
    if side=='L' and sc=='B' and col(sl)=='R' and col(sr)=='B':
        # sibling red, sl black, rotateRight(s)
        lc,lk,ll,lr = sl
        s=('B',lk,ll,('R',sk,lr,sr))
    elif side=='R' and sc=='B' and col(sr)=='R' and col(sl)=='B':
        rc,rk,rl,rr = sr
        s=('B',rk,('R',sk,sl,rl),rr)
    # case 6
    sc,sk,sl,sr=s
    scol=c   # sibling.color = parent color ; parent black
    if side=='L' and col(sr)=='R':
        sr2=('B',)+sr[1:]
        # rotateLeft(P): s root, P left child with right = s.left
        return (scol,sk,('B',k,n,sl),sr2), False
    elif col(sl)=='R':
        sl2=('B',)+sl[1:]
        # rotateRight(P): s root, P right child with left = s.right
        if side=='R':
            return (scol,sk,sl2,('B',k,sr,n)), False
        else:
            # weird: node is left but rotating right -- model literally: P.left is n... rotateRight(P) uses P.Left = n as pivot!
            raise Exception('weird case6')
    else:
        # no rotation
        return ((('B',k,n,(scol,sk,sl,sr))) if side=='L' else ('B',k,(scol,sk,sl,sr),n)), False

def fix_deficit(c,k,l,r,side):
    n = l if side=='L' else r
    s = r if side=='L' else l
    if col(s)=='R':   # case 2
        sc,sk,sl,sr=s
        if side=='L':
            # rotateLeft(P): s root(black), P red left child: children n, sl
            sub,d = cases3to6('R',k,n,sl,'L')
            assert not d
            return ('B',sk,sub,sr), False
        else:
            sub,d = cases3to6('R',k,n,sr,'R')
            assert not d
            return ('B',sk,sl,sub), False
    return cases3to6(c,k,n,s,side)

def del_max(t):
    # remove max node of t; returns (maxkey, t', deficit)
    c,k,l,r=t
    if r is None:
        # this node has no right child: physical removal
        child=l
        if c=='B': return k, child, True
        return k, child, False
    mk, r2, d = del_max(r)
    if d:
        t2,d2 = fix_deficit(c,k,l,r2,'R')
        return mk,t2,d2
    return mk,(c,k,l,r2),False

def dele(t,k):
    if t is None: return None, False
    c,key,l,r=t
    if k<key:
        l2,d=dele(l,k)
        if d: return fix_deficit(c,key,l2,r,'L')
        return (c,key,l2,r), False
    if k>key:
        r2,d=dele(r,k)
        if d: return fix_deficit(c,key,l,r2,'R')
        return (c,key,l,r2), False
    if l is not None and r is not None:
        mk,l2,d = del_max(l)
        if d: return fix_deficit(c,mk,l2,r,'L')
        return (c,mk,l2,r), False
    child = l if r is None else r
    if c=='B': return child, True
    return child, False

def remove(t,k):
    if t is None: return None
    # root physical removal?
    c,key,l,r=t
    if key==k and (l is None or r is None):
        child = l if r is None else r
        if child is not None: child=('B',)+child[1:]
        return child
    t2,_=dele(t,k)
    return t2

bad=0; n=0
for line in open(sys.argv[1]):
    a,o,b=line.rstrip('\n').split('\t')
    o=int(o); t=parse(a)
    t2 = put(t,o) if o>0 else remove(t,-o)
    n+=1
    if show(t2)!=b:
        bad+=1
        if bad<10: print('MISMATCH',a,o,'go',b,'model',show(t2))
print('checked',n,'bad',bad)
