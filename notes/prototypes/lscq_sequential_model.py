import random, sys
class SCQ:
    def __init__(s,n):
        s.n=n; s.ring=[[True,True,0,None] for _ in range(n)]; s.head=n; s.tail=n; s.closed=False; s.thr=-1; s.next=None
    def enq(s,d):
        n=s.n
        while True:
            T=s.tail; s.tail+=1
            if s.closed: return False
            e=s.ring[T%n]; cT=T//n
            if e[2]<cT and e[1] and (e[0] or s.head<=T):
                s.ring[T%n]=[True,False,cT,d]
                if s.thr!=2*n-1: s.thr=2*n-1
                return True
            if T+1>=s.head+n: return False
    def deq(s):
        n=s.n
        if s.thr<0: return None
        while True:
            H=s.head; s.head+=1
            e=s.ring[H%n]; cH=H//n
            if e[2]==cH:
                d=e[3]; e[3]=None; e[1]=True
                return d
            if e[2]<cH:
                if e[1]: s.ring[H%n]=[e[0],True,cH,None]
                else: s.ring[H%n]=[False,False,e[2],e[3]]
            T=s.tail
            if T<=H+1:
                # fixstate
                if not s.closed and s.tail<s.head: s.tail=s.head
                s.thr-=1
                return None
            s.thr-=1
            if s.thr+1<=0: return None
class LSCQ:
    def __init__(s,n): s.n=n; q=SCQ(n); s.head=q; s.tail=q
    def enq(s,d):
        while True:
            cq=s.tail
            if cq.next is not None: s.tail=cq.next; continue
            if cq.enq(d): return
            cq.closed=True
            ncq=SCQ(s.n); ncq.enq(d); cq.next=ncq; s.tail=ncq; return
    def deq(s):
        while True:
            cq=s.head
            d=cq.deq()
            if d is not None: return d
            if cq.next is None: return None
            cq.thr=2*s.n-1
            d=cq.deq()
            if d is not None: return d
            s.head=cq.next
for n in [1,2,3,4,8]:
    bad=0
    for trial in range(3000):
        q=LSCQ(n); ref=[]; ctr=0
        rnd=random.Random(trial)
        p=rnd.choice([0.3,0.5,0.7])
        for step in range(rnd.randint(1,80)):
            if rnd.random()<p:
                ctr+=1; q.enq(ctr); ref.append(ctr)
            else:
                d=q.deq(); exp=ref.pop(0) if ref else None
                if d!=exp: bad+=1; break
    print('n',n,'bad',bad)
