import sys
sys.setrecursionlimit(10000)
# tree: None | [key, b, left, right]   (mutable lists used functionally: always copy)
def parse(s):
    s,size=s.split('#'); pos=[0]
    def p():
        if s[pos[0]]=='.':
            pos[0]+=1; return None
        assert s[pos[0]]=='('; pos[0]+=1
        j=s.index(':',pos[0]); k=int(s[pos[0]:j]); pos[0]=j+1
        j=s.index(' ',pos[0]); b=int(s[pos[0]:j]); pos[0]=j+1
        l=p(); assert s[pos[0]]==' '; pos[0]+=1
        r=p(); assert s[pos[0]]==')'; pos[0]+=1
        return (k,b,l,r)
    return p(),int(size)
def show(t,size):
    def sh(t):
        if t is None: return '.'
        return '(%d:%d %s %s)'%(t[0],t[1],sh(t[2]),sh(t[3]))
    return sh(t)+'#'+str(size)
# direction c in {-1,1}; child index a=(c+1)//2 : 0 left, 1 right
def ch(t,a): return t[2+a]
def setch(t,a,x):
    l=list(t); l[2+a]=x; return tuple(l)
def setb(t,b): return (t[0],b,t[2],t[3])
def rotate(c,s):
    a=(c+1)//2
    r=ch(s,a)
    s2=setch(s,a,ch(r,a^1))
    return setch(r,a^1,s2)
def singlerot(c,s):
    s=setb(s,0)
    r=rotate(c,s)
    return setb(r,0)
def doublerot(c,s):
    a=(c+1)//2
    r=ch(s,a)
    s=setch(s,a,rotate(-c,r))
    p=rotate(c,s)
    # p's children: side a^1 is old s, side a is old r
    pb=p[1]
    if pb==c: sb,rb=-c,0
    elif pb==-c: sb,rb=0,c
    else: sb,rb=0,0
    olds=setb(ch(p,a^1),sb); oldr=setb(ch(p,a),rb)
    p=setch(p,a^1,olds); p=setch(p,a,oldr)
    return setb(p,0)
def putFix(c,s):
    if s[1]==0: return setb(s,c),True
    if s[1]==-c: return setb(s,0),False
    a=(c+1)//2
    if ch(s,a)[1]==c: return singlerot(c,s),False
    return doublerot(c,s),False
def removeFix(c,s):
    if s[1]==0: return setb(s,c),False
    if s[1]==-c: return setb(s,0),True
    a=(c+1)//2
    if ch(s,a)[1]==0:
        s=rotate(c,s)
        return setb(s,-c),False
    if ch(s,a)[1]==c: return singlerot(c,s),True
    return doublerot(c,s),True
def put(q,key):
    if q is None: return (key,0,None,None),True,True   # tree, fix, inserted
    if key==q[0]: return q,False,False
    c=-1 if key<q[0] else 1
    a=(c+1)//2
    sub,fix,ins=put(ch(q,a),key)
    q=setch(q,a,sub)
    if fix:
        q,f=putFix(c,q); return q,f,ins
    return q,False,ins
def removeMin(q):
    if q[2] is None: return q[3],q[0],True
    sub,mk,fix=removeMin(q[2])
    q=setch(q,0,sub)
    if fix:
        q,f=removeFix(1,q); return q,mk,f
    return q,mk,False
def remove(q,key):
    if q is None: return None,False,False
    if key==q[0]:
        if q[3] is None: return q[2],True,True
        sub,mk,fix=removeMin(q[3])
        q=(mk,q[1],q[2],sub)
        if fix:
            q,f=removeFix(-1,q); return q,f,True
        return q,False,True
    c=-1 if key<q[0] else 1
    a=(c+1)//2
    sub,fix,rem=remove(ch(q,a),key)
    q=setch(q,a,sub)
    if fix:
        q,f=removeFix(-c,q); return q,f,rem
    return q,False,rem
bad=0;n=0
for line in open(sys.argv[1]):
    a,o,b=line.rstrip('\n').split('\t'); o=int(o)
    t,size=parse(a)
    if o>0:
        t2,_,ins=put(t,o); s2=size+(1 if ins else 0)
    else:
        t2,_,rem=remove(t,-o); s2=size-(1 if rem else 0)
    n+=1
    if show(t2,s2)!=b:
        bad+=1
        if bad<8: print('MISMATCH',a,o,'go',b,'model',show(t2,s2))
print('checked',n,'bad',bad)
