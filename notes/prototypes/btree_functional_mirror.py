import sys
M=int(sys.argv[1])
def maxE(): return M-1
def minE(): return (M+1)//2-1
def middle(): return (M-1)//2

def parse(s):
    s,size=s.split('#')
    pos=[0]
    def p():
        if s[pos[0]]=='.':
            pos[0]+=1; return None
        assert s[pos[0]]=='['; pos[0]+=1
        j=s.index('|',pos[0]); es=s[pos[0]:j]; pos[0]=j+1
        ents=[int(x) for x in es.split(',')] if es else []
        ch=[]
        while s[pos[0]]!=']':
            ch.append(p())
        pos[0]+=1
        return (ents,ch)
    return p(), int(size)
def show(t,size):
    def sh(n):
        if n is None: return '.'
        return '['+','.join(map(str,n[0]))+'|'+''.join(sh(c) for c in n[1])+']'
    return sh(t)+'#'+str(size)

def search(ents,key):
    lo,hi=0,len(ents)-1
    while lo<=hi:
        mid=(hi+lo)//2
        if key>ents[mid]: lo=mid+1
        elif key<ents[mid]: hi=mid-1
        else: return mid,True
    return lo,False

def split_if(ents,ch):
    if len(ents)>maxE():
        m=middle()
        left=(ents[:m], ch[:m+1] if ch else [])
        right=(ents[m+1:], ch[m+1:] if ch else [])
        return ('S',left,ents[m],right)
    return ('N',(ents,ch))

def insert(node,key):
    ents,ch=node
    pos,found=search(ents,key)
    if found: return ('N',node),False
    if not ch:
        e2=ents[:pos]+[key]+ents[pos:]
        return split_if(e2,[]),True
    r,ins=insert(ch[pos],key)
    if r[0]=='N':
        c2=ch[:pos]+[r[1]]+ch[pos+1:]
        return ('N',(ents,c2)),ins
    _,l,mid,rt=r
    e2=ents[:pos]+[mid]+ents[pos:]
    c2=ch[:pos]+[l,rt]+ch[pos+1:]
    return split_if(e2,c2),ins

def put(t,size,key):
    if t is None: return ([key],[]),size+1
    r,ins=insert(t,key)
    if r[0]=='N': t2=r[1]
    else: t2=([r[2]],[r[1],r[3]])
    return t2,size+(1 if ins else 0)

def fix_child(ents,ch,i):
    # child i of (ents,ch) may underflow -> returns new (ents,ch)
    node=ch[i]
    if len(node[0])>=minE(): return ents,ch
    ne,nc=node
    left = ch[i-1] if i-1>=0 else None
    if left is not None and len(left[0])>minE():
        le,lc=left
        ne2=[ents[i-1]]+ne
        ents2=ents[:i-1]+[le[-1]]+ents[i:]
        le2=le[:-1]
        if lc:
            nc2=[lc[-1]]+nc; lc2=lc[:-1]
        else: nc2=nc; lc2=lc
        ch2=ch[:i-1]+[(le2,lc2),(ne2,nc2)]+ch[i+1:]
        return ents2,ch2
    right = ch[i+1] if i+1<len(ch) else None
    if right is not None and len(right[0])>minE():
        re,rc=right
        ne2=ne+[ents[i]]
        ents2=ents[:i]+[re[0]]+ents[i+1:]
        re2=re[1:]
        if rc:
            nc2=nc+[rc[0]]; rc2=rc[1:]
        else: nc2=nc; rc2=rc
        ch2=ch[:i]+[(ne2,nc2),(re2,rc2)]+ch[i+2:]
        return ents2,ch2
    if right is not None:
        re,rc=right
        ne2=ne+[ents[i]]+re
        nc2=nc+rc
        ents2=ents[:i]+ents[i+1:]
        ch2=ch[:i]+[(ne2,nc2)]+ch[i+2:]
        return ents2,ch2
    if left is not None:
        le,lc=left
        ne2=le+[ents[i-1]]+ne
        nc2=lc+nc
        ents2=ents[:i-1]+ents[i:]
        ch2=ch[:i-1]+[(ne2,nc2)]+ch[i+1:]
        return ents2,ch2
    return ents,ch

def del_max(node):
    ents,ch=node
    if not ch:
        return ents[-1],(ents[:-1],[])
    k,c2=del_max(ch[-1])
    ch2=ch[:-1]+[c2]
    e3,c3=fix_child(ents,ch2,len(ch2)-1)
    return k,(e3,c3)

def delete(node,key):
    ents,ch=node
    pos,found=search(ents,key)
    if not ch:
        if not found: return node,False
        return (ents[:pos]+ents[pos+1:],[]),True
    if found:
        k,c2=del_max(ch[pos])
        ents2=ents[:pos]+[k]+ents[pos+1:]
        ch2=ch[:pos]+[c2]+ch[pos+1:]
        e3,c3=fix_child(ents2,ch2,pos)
        return (e3,c3),True
    c2,d=delete(ch[pos],key)
    if not d: return node,False
    ch2=ch[:pos]+[c2]+ch[pos+1:]
    e3,c3=fix_child(ents,ch2,pos)
    return (e3,c3),True

def remove(t,size,key):
    if t is None: return None,size
    t2,d=delete(t,key)
    if not d: return t,size
    ents,ch=t2
    if not ents:
        if ch: t2=ch[0]
        else: t2=None
    return t2,size-1

bad=0;n=0
for line in open(sys.argv[2]):
    a,o,b=line.rstrip('\n').split('\t'); o=int(o)
    t,size=parse(a)
    t2,s2 = put(t,size,o) if o>0 else remove(t,size,-o)
    n+=1
    if show(t2,s2)!=b:
        bad+=1
        if bad<8: print('MISMATCH',a,o,'go',b,'model',show(t2,s2))
print('order',M,'checked',n,'bad',bad)
