import re,sys
def parse(d):
    head,hdr,nodes=d.split('|')
    H,L,T=[int(x[1:]) for x in head.split()]
    hl={int(m.group(1)):(int(m.group(2)),int(m.group(3))) for m in re.finditer(r'h(\d+)\((-?\d+),(-?\d+)\)',hdr)}
    ns=[]
    for item in nodes.split(';'):
        if not item: continue
        m=re.match(r'(-?\d+):(-?[\d.e+]+):(\d+)((?:\(-?\d+,-?\d+\))*)p(-?\d+)$',item)
        val,score,lvl=int(m.group(1)),float(m.group(2)),int(m.group(3))
        lv=[(int(a),int(b)) for a,b in re.findall(r'\((-?\d+),(-?\d+)\)',m.group(4))]
        ns.append((val,score,lvl,lv,int(m.group(5))))
    return H,L,T,hl,ns
cats={}
def bump(k): cats[k]=cats.get(k,0)+1
tot=0
for line in open(sys.argv[1]):
    if not line.startswith('DUMP'): continue
    tot+=1
    H,L,T,hl,ns=parse(line[5:].strip())
    n=len(ns)
    if L!=n: bump('length')
    if T!=(n-1 if n else -1): bump('tail')
    # order sorted by (score,value), unique values
    keys=[(s,v) for v,s,_,_,_ in ns]
    if keys!=sorted(keys) or len(set(v for v,_,_,_,_ in ns))!=n: bump('order')
    maxh=max([x[2] for x in ns],default=0)
    # derived chains
    ok_lanes=True
    for i in range(max(H,maxh)):
        chain=[j for j in range(n) if ns[j][2]>i]
        # header
        exp_next=chain[0] if chain else -1
        got=hl.get(i,(-1,0))
        if i<H:
            if got[0]!=exp_next: bump('hdr_next'); ok_lanes=False
            elif exp_next!=-1 and got[1]!=exp_next+1: bump('hdr_span')
        else:
            if chain: bump('lane_above_highest'); ok_lanes=False
        for a,j in enumerate(chain):
            nxt=chain[a+1] if a+1<len(chain) else -1
            gn,gs=ns[j][3][i]
            if gn!=nxt: bump('node_next')
            elif nxt!=-1 and gs!=nxt-j: bump('node_span')
            elif nxt==-1:
                exp = 0 if i==0 else n-(j+1)
                if gs!=exp: bump('nil_span_%s'%('l0' if i==0 else 'hi'))
    for j in range(n):
        if ns[j][4]!=j-1: bump('prev')
print('dumps',tot,'mismatch categories',cats)
