package main

// Registry of every type the library offers as concurrency-safe, instantiated at int keys/values, together with the
// unguarded container it wraps ("twin") where one exists. Unverified glue.

import (
	"fmt"
	"sort"
	"sync/atomic"
	"time"

	"github.com/songzhibin97/go-baseutils/app/bcache"
	"github.com/songzhibin97/go-baseutils/base/bcomparator"
	"github.com/songzhibin97/go-baseutils/base/bmap"
	"github.com/songzhibin97/go-baseutils/base/bobjectstorage"
	"github.com/songzhibin97/go-baseutils/base/bslice"
	"github.com/songzhibin97/go-baseutils/structure/lists/arraylist"
	"github.com/songzhibin97/go-baseutils/structure/lists/doublylinkedlist"
	"github.com/songzhibin97/go-baseutils/structure/lists/singlylinkedlist"
	"github.com/songzhibin97/go-baseutils/structure/maps/hashbidimap"
	"github.com/songzhibin97/go-baseutils/structure/maps/hashmap"
	"github.com/songzhibin97/go-baseutils/structure/maps/linkedhashmap"
	"github.com/songzhibin97/go-baseutils/structure/maps/skipmap"
	"github.com/songzhibin97/go-baseutils/structure/maps/treebidimap"
	"github.com/songzhibin97/go-baseutils/structure/maps/treemap"
	"github.com/songzhibin97/go-baseutils/structure/queues/arrayqueue"
	"github.com/songzhibin97/go-baseutils/structure/queues/circularbuffer"
	"github.com/songzhibin97/go-baseutils/structure/queues/linkedlistqueue"
	"github.com/songzhibin97/go-baseutils/structure/queues/lscq"
	"github.com/songzhibin97/go-baseutils/structure/queues/priorityqueue"
	"github.com/songzhibin97/go-baseutils/structure/sets/hashset"
	"github.com/songzhibin97/go-baseutils/structure/sets/linkedhashset"
	"github.com/songzhibin97/go-baseutils/structure/sets/skipset"
	"github.com/songzhibin97/go-baseutils/structure/sets/treeset"
	"github.com/songzhibin97/go-baseutils/structure/sets/zset"
	"github.com/songzhibin97/go-baseutils/structure/stacks/arraystack"
	"github.com/songzhibin97/go-baseutils/structure/stacks/linkedliststack"
	"github.com/songzhibin97/go-baseutils/structure/trees/avltree"
	"github.com/songzhibin97/go-baseutils/structure/trees/binaryheap"
	"github.com/songzhibin97/go-baseutils/structure/trees/btree"
	"github.com/songzhibin97/go-baseutils/structure/trees/redblacktree"
)

type spec struct {
	name   string   // table name of the outermost type
	tnames []string // table names of every type whose methods are in the method set (embedding chain), outermost first
	kind   string   // kind of the wrapped container (Classify.ro_table key), "" if there is no twin
	mk     func(n int) interface{}
	mkS    func(n int) interface{} // instance for the long concurrent mixes, if it differs from mk
	mkDoc  func(n int) interface{} // instance whose serialisation is used as a valid document, if it differs from mk
	mkU    func(n int) interface{}
	sorted bool // observations must be sorted (hash iteration order)
	dump   func(x interface{}) []int64
}

func seq(n int) []int {
	s := make([]int, n)
	for i := range s {
		s[i] = i + 1
	}
	return s
}

func ints64(v []int) []int64 {
	r := make([]int64, len(v))
	for i, x := range v {
		r[i] = int64(x)
	}
	return r
}

type valuer interface{ Values() []int }
type keyGetter interface {
	Keys() []int
	Get(int) (int, bool)
}

func dumpValues(x interface{}) []int64 { return ints64(x.(valuer).Values()) }
func dumpValuesSorted(x interface{}) []int64 {
	v := append([]int(nil), x.(valuer).Values()...)
	sort.Ints(v)
	return ints64(v)
}
func dumpMapOrdered(x interface{}) []int64 {
	m := x.(keyGetter)
	var r []int64
	for _, k := range m.Keys() {
		v, ok := m.Get(k)
		r = append(r, int64(k), int64(v), b2i(ok))
	}
	return r
}
func dumpMapSorted(x interface{}) []int64 {
	m := x.(keyGetter)
	ks := append([]int(nil), m.Keys()...)
	sort.Ints(ks)
	var r []int64
	for _, k := range ks {
		v, ok := m.Get(k)
		r = append(r, int64(k), int64(v), b2i(ok))
	}
	return r
}
func b2i(b bool) int64 {
	if b {
		return 1
	}
	return 0
}
func dumpBSlice(x interface{}) []int64 {
	return ints64(x.(interface{ CloneToSlice() []int }).CloneToSlice())
}
func dumpBMap(x interface{}) []int64 {
	m := x.(interface{ CloneToMap() map[int]int }).CloneToMap()
	ks := make([]int, 0, len(m))
	for k := range m {
		ks = append(ks, k)
	}
	sort.Ints(ks)
	var r []int64
	for _, k := range ks {
		r = append(r, int64(k), int64(m[k]))
	}
	return r
}
func dumpZset(x interface{}) []int64 {
	z := x.(interface {
		Range(int, int) []zset.Node[int]
		Len() int
	})
	r := []int64{int64(z.Len())}
	for _, n := range z.Range(0, -1) {
		r = append(r, int64(n.Value), int64(n.Score*4))
	}
	return r
}
func dumpLscq(x interface{}) []int64 { // destructive: only ever used on a final state
	q := x.(interface{ Dequeue() (int, bool) })
	var r []int64
	for i := 0; i < 1<<20; i++ {
		v, ok := q.Dequeue()
		if !ok {
			break
		}
		r = append(r, int64(v))
	}
	return r
}

const cacheKeys = 24

func dumpCache(x interface{}) []int64 {
	c := x.(*bcache.BCache[int, int])
	r := []int64{int64(c.Count())}
	for k := 0; k < cacheKeys; k++ {
		v, ok := c.Get(k)
		r = append(r, int64(v), b2i(ok))
	}
	return r
}

// bobjectstorage is a package-level facade over one SafeAnyBMap[string, any]; an "instance" is a key namespace.
type objFacade struct{ prefix string }

var objSeq int64

func (o *objFacade) key(k int) string {
	return fmt.Sprintf("%s/%d", o.prefix, ((k%cacheKeys)+cacheKeys)%cacheKeys)
}
func (o *objFacade) Set(k int, v int) { bobjectstorage.Set[int](o.key(k), v) }
func (o *objFacade) Get(k int) int    { return bobjectstorage.Get[int](o.key(k)) }
func (o *objFacade) GetSafeAssertion(k int) (int, bool) {
	return bobjectstorage.GetSafeAssertion[int](o.key(k))
}
func dumpObj(x interface{}) []int64 {
	o := x.(*objFacade)
	var r []int64
	for k := 0; k < cacheKeys; k++ {
		v, ok := o.GetSafeAssertion(k)
		r = append(r, int64(v), b2i(ok))
	}
	return r
}

func icmp() bcomparator.Comparator[int] { return bcomparator.IntComparator() }

func kv(put func(int, int), n int) {
	for _, k := range seq(n) {
		put(k, k*10)
	}
}

func registry() []*spec {
	var r []*spec
	add := func(s *spec) {
		if len(s.tnames) == 0 {
			s.tnames = []string{s.name}
		}
		r = append(r, s)
	}
	// ---- lists
	add(&spec{name: "arraylist.ListSafe", kind: "arraylist.List", dump: dumpValues,
		mk: func(n int) interface{} { return arraylist.NewSafe[int](seq(n)...) }, mkU: func(n int) interface{} { return arraylist.New[int](seq(n)...) }})
	add(&spec{name: "doublylinkedlist.ListSafe", kind: "doublylinkedlist.List", dump: dumpValues,
		mk: func(n int) interface{} { return doublylinkedlist.NewSafe[int](seq(n)...) }, mkU: func(n int) interface{} { return doublylinkedlist.New[int](seq(n)...) }})
	add(&spec{name: "singlylinkedlist.ListSafe", kind: "singlylinkedlist.List", dump: dumpValues,
		mk: func(n int) interface{} { return singlylinkedlist.NewSafe[int](seq(n)...) }, mkU: func(n int) interface{} { return singlylinkedlist.New[int](seq(n)...) }})
	// ---- maps
	add(&spec{name: "hashmap.MapSafe", kind: "hashmap.Map", dump: dumpMapSorted, sorted: true,
		mk:  func(n int) interface{} { m := hashmap.NewSafe[int, int](); kv(m.Put, n); return m },
		mkU: func(n int) interface{} { m := hashmap.New[int, int](); kv(m.Put, n); return m }})
	add(&spec{name: "linkedhashmap.MapSafe", kind: "linkedhashmap.Map", dump: dumpMapOrdered,
		mk:  func(n int) interface{} { m := linkedhashmap.NewSafe[int, int](); kv(m.Put, n); return m },
		mkU: func(n int) interface{} { m := linkedhashmap.New[int, int](); kv(m.Put, n); return m }})
	add(&spec{name: "treemap.MapSafe", kind: "treemap.Map", dump: dumpMapOrdered,
		mk:  func(n int) interface{} { m := treemap.NewSafeWithIntComparator[int](); kv(m.Put, n); return m },
		mkU: func(n int) interface{} { m := treemap.NewWithIntComparator[int](); kv(m.Put, n); return m }})
	add(&spec{name: "hashbidimap.MapSafe", kind: "hashbidimap.Map", dump: dumpMapSorted, sorted: true,
		mk:  func(n int) interface{} { m := hashbidimap.NewSafe[int, int](); kv(m.Put, n); return m },
		mkU: func(n int) interface{} { m := hashbidimap.New[int, int](); kv(m.Put, n); return m }})
	add(&spec{name: "treebidimap.MapSafe", kind: "treebidimap.Map", dump: dumpMapOrdered,
		mk:  func(n int) interface{} { m := treebidimap.NewSafeWithIntComparators(); kv(m.Put, n); return m },
		mkU: func(n int) interface{} { m := treebidimap.NewWithIntComparators(); kv(m.Put, n); return m }})
	add(&spec{name: "skipmap.MapSafe", kind: "skipmap.Map", dump: dumpMapOrdered,
		mk:  func(n int) interface{} { m := skipmap.NewSafe[int, int](icmp()); kv(m.Put, n); return m },
		mkU: func(n int) interface{} { m := skipmap.New[int, int](icmp()); kv(m.Put, n); return m }})
	// ---- sets
	add(&spec{name: "hashset.SetSafe", kind: "hashset.Set", dump: dumpValuesSorted, sorted: true,
		mk: func(n int) interface{} { return hashset.VerifNewSafe[int](seq(n)...) }, mkU: func(n int) interface{} { return hashset.New[int](seq(n)...) }})
	add(&spec{name: "linkedhashset.SetSafe", kind: "linkedhashset.Set", dump: dumpValues,
		mk: func(n int) interface{} { return linkedhashset.NewSafe[int](seq(n)...) }, mkU: func(n int) interface{} { return linkedhashset.New[int](seq(n)...) }})
	add(&spec{name: "treeset.SetSafe", kind: "treeset.Set", dump: dumpValues,
		mk: func(n int) interface{} { return treeset.NewSafeWithIntComparator(seq(n)...) }, mkU: func(n int) interface{} { return treeset.NewWithIntComparator(seq(n)...) }})
	add(&spec{name: "skipset.SetSafe", kind: "skipset.Set", dump: dumpValues,
		mk:  func(n int) interface{} { s := skipset.NewSafe[int](icmp()); s.Add(seq(n)...); return s },
		mkU: func(n int) interface{} { s := skipset.New[int](icmp()); s.Add(seq(n)...); return s }})
	zfill := func(add func(float64, int) bool, n int) {
		for _, k := range seq(n) {
			add(float64(k), k)
		}
	}
	add(&spec{name: "zset.SetSafe", kind: "zset.Set", dump: dumpZset,
		mk:  func(n int) interface{} { s := zset.NewSafe[int](icmp()); zfill(s.AddB, n); return s },
		mkU: func(n int) interface{} { s := zset.New[int](icmp()); zfill(s.AddB, n); return s }})
	add(&spec{name: "zset.Set", dump: dumpZset,
		mk: func(n int) interface{} { s := zset.New[int](icmp()); zfill(s.AddB, n); return s }})
	// ---- queues, stacks, heap
	add(&spec{name: "arrayqueue.QueueSafe", kind: "arrayqueue.Queue", dump: dumpValues,
		mk:  func(n int) interface{} { q := arrayqueue.NewSafe[int](); each(q.Enqueue, n); return q },
		mkU: func(n int) interface{} { q := arrayqueue.New[int](); each(q.Enqueue, n); return q }})
	add(&spec{name: "linkedlistqueue.QueueSafe", kind: "linkedlistqueue.Queue", dump: dumpValues,
		mk:  func(n int) interface{} { q := linkedlistqueue.NewSafe[int](); each(q.Enqueue, n); return q },
		mkU: func(n int) interface{} { q := linkedlistqueue.New[int](); each(q.Enqueue, n); return q }})
	add(&spec{name: "circularbuffer.QueueSafe", kind: "circularbuffer.Queue", dump: dumpValues,
		mk:  func(n int) interface{} { q := circularbuffer.NewSafe[int](4096); each(q.Enqueue, n); return q },
		mkU: func(n int) interface{} { q := circularbuffer.New[int](4096); each(q.Enqueue, n); return q }})
	add(&spec{name: "priorityqueue.QueueSafe", kind: "priorityqueue.Queue", dump: dumpValues,
		mk:  func(n int) interface{} { q := priorityqueue.NewSafeWith[int](icmp()); each(q.Enqueue, n); return q },
		mkU: func(n int) interface{} { q := priorityqueue.NewWith[int](icmp()); each(q.Enqueue, n); return q }})
	add(&spec{name: "lscq.QueueSafe", kind: "lscq.Queue", dump: dumpLscq,
		mk:  func(n int) interface{} { q := lscq.NewSafe[int](); each(q.Enqueue, n); return q },
		mkU: func(n int) interface{} { q := lscq.New[int](); each(q.Enqueue, n); return q }})
	add(&spec{name: "arraystack.StackSafe", kind: "arraystack.Stack", dump: dumpValues,
		mk:  func(n int) interface{} { q := arraystack.NewSafe[int](); each(q.Push, n); return q },
		mkU: func(n int) interface{} { q := arraystack.New[int](); each(q.Push, n); return q }})
	add(&spec{name: "linkedliststack.StackSafe", kind: "linkedliststack.Stack", dump: dumpValues,
		mk:  func(n int) interface{} { q := linkedliststack.NewSafe[int](); each(q.Push, n); return q },
		mkU: func(n int) interface{} { q := linkedliststack.New[int](); each(q.Push, n); return q }})
	add(&spec{name: "binaryheap.HeapSafe", kind: "binaryheap.Heap", dump: dumpValues,
		mk:  func(n int) interface{} { q := binaryheap.NewSafeWithIntComparator(); q.Push(seq(n)...); return q },
		mkU: func(n int) interface{} { q := binaryheap.NewWithIntComparator(); q.Push(seq(n)...); return q }})
	// ---- trees
	add(&spec{name: "avltree.TreeSafe", kind: "avltree.Tree", dump: dumpMapOrdered,
		mk:  func(n int) interface{} { m := avltree.NewSafeWithIntComparator[int](); kv(m.Put, n); return m },
		mkU: func(n int) interface{} { m := avltree.NewWithIntComparator[int](); kv(m.Put, n); return m }})
	add(&spec{name: "redblacktree.TreeSafe", kind: "redblacktree.Tree", dump: dumpMapOrdered,
		mk:  func(n int) interface{} { m := redblacktree.NewSafeWithIntComparator[int](); kv(m.Put, n); return m },
		mkU: func(n int) interface{} { m := redblacktree.NewWithIntComparator[int](); kv(m.Put, n); return m }})
	add(&spec{name: "btree.TreeSafe", kind: "btree.Tree", dump: dumpMapOrdered,
		mk:  func(n int) interface{} { m := btree.NewSafeWithIntComparator[int](3); kv(m.Put, n); return m },
		mkU: func(n int) interface{} { m := btree.NewWithIntComparator[int](3); kv(m.Put, n); return m }})
	// ---- bslice (four flavours; the method set of each includes the ones it embeds)
	add(&spec{name: "bslice.SafeAnyBSlice", kind: "bslice.UnsafeAnyBSlice", dump: dumpBSlice,
		mk:  func(n int) interface{} { return bslice.NewSafeAnyBSliceBySlice[int](seq(n)) },
		mkU: func(n int) interface{} { return bslice.NewUnsafeAnyBSliceBySlice[int](seq(n)) }})
	add(&spec{name: "bslice.SafeComparableBSlice", tnames: []string{"bslice.SafeComparableBSlice", "bslice.SafeAnyBSlice"},
		kind: "bslice.UnsafeComparableBSlice", dump: dumpBSlice,
		mk:  func(n int) interface{} { return bslice.NewSafeComparableBSliceBySlice[int](seq(n)) },
		mkU: func(n int) interface{} { return bslice.NewUnsafeComparableBSliceBySlice[int](seq(n)) }})
	add(&spec{name: "bslice.SafeOrderedBSlice", tnames: []string{"bslice.SafeOrderedBSlice", "bslice.SafeComparableBSlice", "bslice.SafeAnyBSlice"},
		kind: "bslice.UnsafeOrderedBSlice", dump: dumpBSlice,
		mk:  func(n int) interface{} { return bslice.NewSafeOrderedBSliceBySlice[int](seq(n)) },
		mkU: func(n int) interface{} { return bslice.NewUnsafeOrderedBSliceBySlice[int](seq(n)) }})
	add(&spec{name: "bslice.SafeCalculableBSlice", tnames: []string{"bslice.SafeCalculableBSlice", "bslice.SafeOrderedBSlice", "bslice.SafeComparableBSlice", "bslice.SafeAnyBSlice"},
		kind: "bslice.UnsafeCalculableBSlice", dump: dumpBSlice,
		mk:  func(n int) interface{} { return bslice.NewSafeCalculableBSliceBySlice[int](seq(n)) },
		mkU: func(n int) interface{} { return bslice.NewUnsafeCalculableBSliceBySlice[int](seq(n)) }})
	// ---- bmap
	mp := func(n int) map[int]int {
		m := map[int]int{}
		for _, k := range seq(n) {
			m[k] = k * 10
		}
		return m
	}
	add(&spec{name: "bmap.SafeAnyBMap", kind: "bmap.UnsafeAnyBMap", dump: dumpBMap, sorted: true,
		mk:  func(n int) interface{} { return bmap.NewSafeAnyBMapByMap[int, int](mp(n)) },
		mkU: func(n int) interface{} { return bmap.NewUnsafeAnyBMapByMap[int, int](mp(n)) }})
	add(&spec{name: "bmap.SafeComparableBMap", tnames: []string{"bmap.SafeComparableBMap", "bmap.SafeAnyBMap"},
		kind: "bmap.UnsafeComparableBMap", dump: dumpBMap, sorted: true,
		mk:  func(n int) interface{} { return bmap.NewSafeComparableBMapByMap[int, int](mp(n)) },
		mkU: func(n int) interface{} { return bmap.NewUnsafeComparableBMapByMap[int, int](mp(n)) }})
	// ---- bcache, bobjectstorage. In the long concurrent mix the sweeper goroutine runs every 300us next to the
	// callers; scenario instances have no sweeper (bcache never stops it: thousands of short-lived instances would
	// leave thousands of tickers behind).
	// Instances hold EXPIRED-BUT-STILL-STORED entries under the even keys (stored with a 1ns TTL; with the sweeper off
	// they stay in the table until a Get finds them) next to live ones under the odd keys: per-call atomicity of the entry
	// points must also hold on such keys. Documents for Load come from an all-live instance (mkDoc). sorted: exported
	// documents carry wall-clock deadlines, so only their length is an observable.
	mkCache := func(sweep time.Duration, expired bool) func(n int) interface{} {
		return func(n int) interface{} {
			c := bcache.New[int, int](icmp(), bcache.SetCapture[int, int](func(int, int) {}), bcache.SetInternal[int, int](sweep))
			for _, k := range seq(n) {
				if expired && k%2 == 0 {
					c.Set(k%cacheKeys, k*10, time.Nanosecond)
				} else {
					c.SetNoExpire(k%cacheKeys, k*10)
				}
			}
			if expired && n >= 2 {
				time.Sleep(2 * time.Microsecond) // the 1ns deadlines are now certainly in the past
			}
			return c
		}
	}
	add(&spec{name: "bcache.BCache", tnames: []string{"bcache.BCache", "bcache.bCache"}, dump: dumpCache, sorted: true,
		mk: mkCache(0, true), mkS: mkCache(300*time.Microsecond, true), mkDoc: mkCache(0, false)})
	add(&spec{name: "bobjectstorage.pkg", dump: dumpObj,
		mk: func(n int) interface{} {
			o := &objFacade{prefix: fmt.Sprintf("ns%d", atomic.AddInt64(&objSeq, 1))}
			for _, k := range seq(n) {
				o.Set(k, k*10)
			}
			return o
		}})
	return r
}

func each(f func(int), n int) {
	for _, k := range seq(n) {
		f(k)
	}
}
