package main

// Reflection plumbing: enumerate the exported method set of an instance, build random (but seed-determined) arguments
// for any method, call it with panic capture, encode results as integer vectors. Unverified glue.

import (
	"fmt"
	"hash/fnv"
	"reflect"
	"sort"
	"strings"
	"time"

	"github.com/songzhibin97/go-baseutils/base/bmap"
	"github.com/songzhibin97/go-baseutils/base/bslice"
	"github.com/songzhibin97/go-baseutils/structure/sets/hashset"
	"github.com/songzhibin97/go-baseutils/structure/sets/linkedhashset"
	"github.com/songzhibin97/go-baseutils/structure/sets/treeset"

	"vh/vhlib"
)

// methods never exercised: the lock itself (promoted from an embedded RWMutex), accessors documented as exposing
// storage. (De)serialisation methods ARE exercised (valid, invalid and empty documents, see docArg).
var lockMethods = map[string]bool{"Lock": true, "Unlock": true, "RLock": true, "RUnlock": true, "TryLock": true, "TryRLock": true, "RLocker": true}
var marshalNames = []string{"MarshalJSON", "Marshal", "Export", "ToJSON"}
var exposesMethods = map[string]bool{"ToMetaSlice": true, "ToMetaMap": true, "GetByRange": true}

// results whose comparison is skipped (none: D9/D10 are repaired; a result that aliases guarded storage is now a finding
// of aliasProbe / the retained-result reads of the stress)
var aliasResults = map[string]bool{}

type meth struct {
	name   string
	idx    int
	typ    reflect.Type // method type without receiver (from Value.Method)
	single bool         // variadic batches of exactly one element (methods that are documented per-element compounds)
}

// methods that are a sequence of separately locked single-element calls (Classify.compound_known, read from the
// regenerated table): called with one element, so that one call = one atomic step
var compoundMethods = map[string]bool{}

// batchWithKey: in the same-key scenarios a variadic/slice argument is a batch of 1-3 elements starting at the key
// (in the distinct-keys scenarios it is exactly the key)
var batchWithKey bool

// fresh values for pointer / interface parameters (another container of the same family)
var freshPool = []func(r *vhlib.Rng) interface{}{
	func(r *vhlib.Rng) interface{} { return bslice.NewUnsafeAnyBSliceBySlice[int](smallInts(r, 0, 4)) },
	func(r *vhlib.Rng) interface{} { return bmap.NewUnsafeAnyBMapByMap[int, int](smallMap(r)) },
	func(r *vhlib.Rng) interface{} { return hashset.New[int](smallInts(r, 0, 4)...) },
	func(r *vhlib.Rng) interface{} { return linkedhashset.New[int](smallInts(r, 0, 4)...) },
	func(r *vhlib.Rng) interface{} { return treeset.NewWithIntComparator(smallInts(r, 0, 4)...) },
}

func smallInts(r *vhlib.Rng, lo, hi int) []int {
	n := r.Range(lo, hi)
	s := make([]int, n)
	for i := range s {
		s[i] = r.Range(-1, 9)
	}
	return s
}
func smallMap(r *vhlib.Rng) map[int]int {
	m := map[int]int{}
	for i, n := 0, r.Intn(4); i < n; i++ {
		m[r.Range(0, 9)] = r.Range(0, 99)
	}
	return m
}

var durationT = reflect.TypeOf(time.Duration(0))

// genArg builds one argument. ok=false: parameter type not supported (the method is then skipped and listed).
func genArg(t reflect.Type, r *vhlib.Rng, key *int) (reflect.Value, bool) {
	if t == durationT {
		// bcache.NoExpire, DefaultExpire (none configured) or one hour: the clock never decides an outcome within a run
		return reflect.ValueOf([]time.Duration{-1, -1, 0, time.Hour}[r.Intn(4)]), true
	}
	switch t.Kind() {
	case reflect.Int, reflect.Int64, reflect.Int32:
		v := r.Range(-2, 11)
		if key != nil {
			v = *key
		}
		return reflect.ValueOf(v).Convert(t), true
	case reflect.Float64, reflect.Float32:
		v := float64(r.Range(-2, 11))
		if key != nil {
			v = float64(*key)
		}
		return reflect.ValueOf(v).Convert(t), true
	case reflect.Bool:
		return reflect.ValueOf(r.Bool()).Convert(t), true
	case reflect.String:
		return reflect.ValueOf(fmt.Sprintf("s%d", r.Intn(8))).Convert(t), true
	case reflect.Slice:
		if t.Elem().Kind() == reflect.Uint8 {
			return reflect.ValueOf(docArg(r)).Convert(t), true
		}
		n := r.Range(1, 3) // never an empty batch (D18)
		if key != nil && !batchWithKey {
			n = 1
		}
		s := reflect.MakeSlice(t, n, n)
		for i := 0; i < n; i++ {
			ki := key
			if key != nil && i > 0 { // a batch around the key: key, key+1, key+2
				ki = new(int)
				*ki = *key + i
			}
			e, ok := genArg(t.Elem(), r, ki)
			if !ok {
				return reflect.Value{}, false
			}
			s.Index(i).Set(e)
		}
		return s, true
	case reflect.Map:
		m := reflect.MakeMap(t)
		for i, n := 0, r.Intn(4); i < n; i++ {
			k, ok1 := genArg(t.Key(), r, nil)
			v, ok2 := genArg(t.Elem(), r, nil)
			if !ok1 || !ok2 {
				return reflect.Value{}, false
			}
			m.SetMapIndex(k, v)
		}
		return m, true
	case reflect.Func:
		return pureFunc(t, int64(r.Intn(3))), true
	case reflect.Struct:
		v := reflect.New(t).Elem()
		for i := 0; i < t.NumField(); i++ {
			if !v.Field(i).CanSet() {
				return reflect.Value{}, false
			}
			f, ok := genArg(t.Field(i).Type, r, nil)
			if !ok {
				return reflect.Value{}, false
			}
			v.Field(i).Set(f)
		}
		return v, true
	case reflect.Interface:
		if t.NumMethod() == 0 {
			return reflect.ValueOf(r.Range(0, 9)).Convert(reflect.TypeOf(0)), true
		}
		fallthrough
	case reflect.Ptr:
		for _, mk := range freshPool {
			x := reflect.ValueOf(mk(r))
			if x.Type().AssignableTo(t) {
				return x, true
			}
		}
	}
	return reflect.Value{}, false
}

// pureFunc: a side-effect free function of the given type that never touches the instance under test
// (callbacks re-entering the same instance are excluded by the property).
func pureFunc(t reflect.Type, salt int64) reflect.Value {
	return reflect.MakeFunc(t, func(args []reflect.Value) []reflect.Value {
		var xs []int64
		for _, a := range args {
			switch a.Kind() {
			case reflect.Int, reflect.Int64, reflect.Int32:
				xs = append(xs, a.Int())
			case reflect.Float64, reflect.Float32:
				xs = append(xs, int64(a.Float()))
			default:
				xs = append(xs, 0)
			}
		}
		out := make([]reflect.Value, t.NumOut())
		for i := range out {
			ot := t.Out(i)
			switch ot.Kind() {
			case reflect.Bool:
				b := false
				switch len(xs) {
				case 0:
					b = salt%2 == 0
				case 1:
					b = (xs[0]+salt)%3 != 0 // predicate
				default:
					if salt == 0 {
						b = xs[0] < xs[1] // less
					} else {
						b = xs[0] == xs[1] // eq
					}
				}
				out[i] = reflect.ValueOf(b).Convert(ot)
			case reflect.Int, reflect.Int64, reflect.Int32:
				v := int64(0)
				if len(xs) >= 2 { // comparator
					if xs[0] < xs[1] {
						v = -1
					} else if xs[0] > xs[1] {
						v = 1
					}
				} else if len(xs) == 1 {
					v = xs[0] + salt
				} else {
					v = salt
				}
				out[i] = reflect.ValueOf(v).Convert(ot)
			default:
				out[i] = reflect.Zero(ot)
			}
		}
		return out
	})
}

func usableMethods(inst interface{}) (ok []meth, skipped map[string]string) {
	v := reflect.ValueOf(inst)
	t := v.Type()
	skipped = map[string]string{}
	for i := 0; i < t.NumMethod(); i++ {
		n := t.Method(i).Name
		switch {
		case strings.HasPrefix(n, "Verif"):
			skipped[n] = "verif-tagged accessor of the harness (not part of the library's API)"
			continue
		case lockMethods[n]:
			skipped[n] = "the lock itself"
			continue
		case exposesMethods[n]:
			skipped[n] = "documented as exposing storage"
			continue
		}
		mt := v.Method(i).Type()
		r := vhlib.NewRng(1)
		good := true
		for a := 0; a < mt.NumIn(); a++ {
			if _, o := genArg(mt.In(a), r, nil); !o {
				skipped[n] = "parameter type " + mt.In(a).String() + " not supported by the generator"
				good = false
				break
			}
		}
		if good {
			ok = append(ok, meth{n, i, mt, compoundMethods[tableTypeName(t)+"."+n]})
		}
	}
	return
}

func genArgs(m meth, r *vhlib.Rng, key *int) []reflect.Value {
	args := make([]reflect.Value, m.typ.NumIn())
	for a := range args {
		args[a], _ = genArg(m.typ.In(a), r, key)
		if m.single && args[a].Kind() == reflect.Slice && args[a].Len() > 1 {
			args[a] = args[a].Slice(0, 1)
		}
	}
	return args
}

type callResult struct {
	out      []reflect.Value
	panicked bool
	pval     string
}

func invoke(inst interface{}, m meth, args []reflect.Value) (res callResult) {
	defer func() {
		if p := recover(); p != nil {
			res.panicked = true
			res.pval = fmt.Sprint(p)
		}
	}()
	f := reflect.ValueOf(inst).Method(m.idx)
	if m.typ.IsVariadic() {
		res.out = f.CallSlice(args)
	} else {
		res.out = f.Call(args)
	}
	return
}

func argString(args []reflect.Value) string {
	var p []string
	for _, a := range args {
		switch a.Kind() {
		case reflect.Slice:
			if a.Type().Elem().Kind() == reflect.Uint8 {
				p = append(p, fmt.Sprintf("%q", clipStr(string(a.Bytes()), 60)))
			} else {
				p = append(p, fmt.Sprint(a.Interface()))
			}
		case reflect.Func:
			p = append(p, "<func>")
		case reflect.Ptr, reflect.Interface:
			p = append(p, "<"+a.Type().String()+">")
		default:
			p = append(p, fmt.Sprint(a.Interface()))
		}
	}
	return strings.Join(p, ", ")
}

func hashStr(s string) int64 {
	h := fnv.New64a()
	h.Write([]byte(s))
	return int64(h.Sum64() >> 2)
}

// encode one result value (only ever called when no other goroutine is running)
func encVal(v reflect.Value, sorted bool, depth int) []int64 {
	if !v.IsValid() {
		return []int64{-1}
	}
	if v.Type() == reflect.TypeOf(time.Time{}) {
		return []int64{0}
	}
	switch v.Kind() {
	case reflect.Int, reflect.Int64, reflect.Int32, reflect.Int16, reflect.Int8:
		return []int64{v.Int()}
	case reflect.Uint, reflect.Uint64, reflect.Uint32, reflect.Uint8:
		return []int64{int64(v.Uint())}
	case reflect.Float64, reflect.Float32:
		return []int64{int64(v.Float() * 4)}
	case reflect.Bool:
		return []int64{b2i(v.Bool())}
	case reflect.String:
		if sorted {
			return []int64{0} // iteration order of a hash container: not an observable
		}
		return []int64{hashStr(v.String())}
	case reflect.Slice:
		if v.Type().Elem().Kind() == reflect.Uint8 { // a serialised document
			if sorted {
				return []int64{int64(v.Len())} // element order of a hash container is not an observable
			}
			return []int64{int64(v.Len()), hashStr(string(v.Bytes()))}
		}
		if v.Type().Elem().Kind() == reflect.Interface || depth > 2 {
			return []int64{int64(v.Len())}
		}
		var items [][]int64
		for i := 0; i < v.Len(); i++ {
			items = append(items, encVal(v.Index(i), sorted, depth+1))
		}
		if sorted {
			sort.Slice(items, func(i, j int) bool { return lessVec(items[i], items[j]) })
		}
		r := []int64{int64(v.Len())}
		for _, it := range items {
			r = append(r, it...)
		}
		return r
	case reflect.Map:
		var items [][]int64
		it := v.MapRange()
		for it.Next() {
			items = append(items, append(encVal(it.Key(), sorted, depth+1), encVal(it.Value(), sorted, depth+1)...))
		}
		sort.Slice(items, func(i, j int) bool { return lessVec(items[i], items[j]) })
		r := []int64{int64(v.Len())}
		for _, it := range items {
			r = append(r, it...)
		}
		return r
	case reflect.Struct:
		var r []int64
		for i := 0; i < v.NumField(); i++ {
			if v.Type().Field(i).IsExported() {
				r = append(r, encVal(v.Field(i), sorted, depth+1)...)
			}
		}
		return r
	case reflect.Interface, reflect.Ptr:
		if v.IsNil() {
			return []int64{0}
		}
		if v.Kind() == reflect.Interface && v.Type().Name() == "error" {
			return []int64{1}
		}
		x := v.Interface()
		switch c := x.(type) {
		case interface{ CloneToSlice() []int }:
			return append([]int64{1}, ints64(c.CloneToSlice())...)
		case interface{ CloneToMap() map[int]int }:
			return append([]int64{1}, dumpBMap(c)...)
		case interface{ Values() []int }: // a fresh set returned by Union/Intersection/Difference
			vs := append([]int(nil), c.Values()...)
			sort.Ints(vs)
			return append([]int64{1}, ints64(vs)...)
		case error:
			return []int64{1}
		}
		return []int64{1} // tree nodes etc.: only nil-ness
	}
	return []int64{-2}
}

func lessVec(a, b []int64) bool {
	for i := 0; i < len(a) && i < len(b); i++ {
		if a[i] != b[i] {
			return a[i] < b[i]
		}
	}
	return len(a) < len(b)
}

func encResult(m string, r callResult, sorted bool) []int64 {
	if r.panicked {
		return []int64{-999}
	}
	if aliasResults[m] {
		return []int64{-3}
	}
	var o []int64
	for _, v := range r.out {
		o = append(o, encVal(v, sorted, 0)...)
	}
	return o
}

// digest keeps Coq terms small: long vectors are replaced by (marker, length, sum, hash)
func digest(v []int64) []int64 {
	if len(v) <= 40 {
		return v
	}
	h := fnv.New64a()
	var sum int64
	for _, x := range v {
		sum += x
		var b [8]byte
		for i := 0; i < 8; i++ {
			b[i] = byte(uint64(x) >> (8 * i))
		}
		h.Write(b[:])
	}
	return []int64{-424242, int64(len(v)), sum, int64(h.Sum64() >> 2)}
}

// "zset.Set" for *zset.Set[int]
func tableTypeName(t reflect.Type) string {
	for t.Kind() == reflect.Ptr {
		t = t.Elem()
	}
	n := t.Name()
	if i := strings.Index(n, "["); i >= 0 {
		n = n[:i]
	}
	p := t.PkgPath()
	if i := strings.LastIndex(p, "/"); i >= 0 {
		p = p[i+1:]
	}
	return p + "." + n
}

// ---------------------------------------------------------------------------------------------------------
// documents for the (de)serialisation methods

// validDocs: documents produced by the type under test itself (its own Marshal/MarshalJSON/Export on fresh instances
// of several sizes); set per spec by setDocs.
var validDocs [][]byte

var wrongDocs = []string{`["a","b"]`, `{"a":"b"}`, `[1,"x",3]`, `{"1":"x"}`, `{"x":{"Value":"v","Expire":"e"}}`, `[[1],[2]]`, `7`, `"s"`, `true`,
	`{{{`, `]`, `nul`, `[1,2`, `{"1":`, "\x00\xff\xfe", `[1 2 3]`, `{1:2}`}
var emptyDocs = []string{``, `null`, `[]`, `{}`, ` `}

func setDocs(s *spec) {
	validDocs = nil
	mk := s.mk
	if s.mkDoc != nil {
		mk = s.mkDoc
	}
	for _, n := range []int{0, 1, 3, 6} {
		inst := mk(n)
		ms, _ := usableMethods(inst)
		for _, name := range marshalNames {
			m := findMeth(ms, name)
			if m == nil || m.typ.NumIn() != 0 || m.typ.NumOut() == 0 || m.typ.Out(0).Kind() != reflect.Slice || m.typ.Out(0).Elem().Kind() != reflect.Uint8 {
				continue
			}
			if res, blocked := invokeSeq(inst, *m, nil); !blocked && !res.panicked && len(res.out) > 0 {
				validDocs = append(validDocs, append([]byte(nil), res.out[0].Bytes()...))
			}
			break
		}
	}
}

// docArg: half of the documents are valid; the others are truncated valid ones, documents of the wrong shape or
// element type, garbage, or empty. Always a fresh byte slice.
func docArg(r *vhlib.Rng) []byte {
	pick := r.Intn(10)
	switch {
	case pick < 5 && len(validDocs) > 0:
		return append([]byte(nil), validDocs[r.Intn(len(validDocs))]...)
	case pick < 7 && len(validDocs) > 0:
		d := validDocs[r.Intn(len(validDocs))]
		if len(d) > 1 {
			return append([]byte(nil), d[:1+r.Intn(len(d)-1)]...)
		}
		return []byte("[")
	case pick < 9:
		return []byte(wrongDocs[r.Intn(len(wrongDocs))])
	}
	return []byte(emptyDocs[r.Intn(len(emptyDocs))])
}

// ---------------------------------------------------------------------------------------------------------
// sequential calls with a watchdog: a call that blocks in a run without any concurrency means the instance lock was
// left held by an earlier call (typically on an error path)

const seqTimeout = 4 * time.Second

var lastFailed string // the most recent sequential call that returned an error or panicked (reset by seqReset)
var lastFailedMeth string
var onBlocked func(blockedMeth, args, failedMeth, failedCall string)

func seqReset() { lastFailed, lastFailedMeth = "", "" }

func failed(res callResult) bool {
	if res.panicked {
		return true
	}
	if n := len(res.out); n > 0 {
		if e, ok := res.out[n-1].Interface().(error); ok && e != nil {
			return true
		}
	}
	return false
}

func invokeSeq(inst interface{}, m meth, args []reflect.Value) (callResult, bool) {
	ch := make(chan callResult, 1)
	go func() { ch <- invoke(inst, m, args) }()
	select {
	case res := <-ch:
		if failed(res) {
			lastFailedMeth = m.name
			lastFailed = m.name + "(" + clipStr(argString(args), 80) + ")"
		}
		return res, false
	case <-time.After(seqTimeout):
		if onBlocked != nil {
			onBlocked(m.name, clipStr(argString(args), 80), lastFailedMeth, lastFailed)
		}
		return callResult{panicked: true, pval: "blocked"}, true
	}
}
