// C11 harness: every type offered as concurrency-safe is exercised concurrently under the race detector.
//
// The binary is built with -race (lib/props/C11.py). The parent process does the sequential work (ties between the
// regenerated lock table and what is compiled in Coq, read-only cross-check of Classify.ro_table, wrapper-vs-twin
// sanity) and runs the concurrent work in CHILD processes (the same binary, -extra child:<mode>:<name>) with
//
//	  GORACE="halt_on_error=1 exitcode=66 log_path=..."  and GOMAXPROCS in {2,4,16}:
//	child:type:<T>            random method mixes by G goroutines on one instance of T (every usable exported method,
//	                          reflection), deadlock watchdog, panic capture; then lost-update / serial-outcome
//	                          scenarios (random small histories judged against the set of serial outcomes computed by
//	                          running the same calls sequentially on the same code; distinct-key insertions; complete
//	                          and disjoint removals; read-modify-write counters)
//	child:target:<T.M>        the offending method M (an entry on which LockTables_ok fails) against the mutators of T
//	child:lost:<T.M>          M against one mutator on a big instance, race detector not halting: a final state or a
//	                          return value that no sequential order produces is the lost update / torn read
//
// A race report, a watchdog timeout, a crash or a non-sequential panic is a direct violation labelled "Type.Method";
// serial-outcome observations are CSerial cases judged in Coq (C11/Check.v).
package main

import (
	"bytes"
	"encoding/json"
	"fmt"
	"os"
	"os/exec"
	"path/filepath"
	"reflect"
	"regexp"
	"runtime"
	"sort"
	"strings"
	"sync"
	"sync/atomic"
	"time"

	"github.com/songzhibin97/go-baseutils/base/bmap"
	"github.com/songzhibin97/go-baseutils/base/bslice"

	"vh/vhlib"
)

// ---------------------------------------------------------------------------------------------------------
// the regenerated table (JSON twin of coq/theories/C11/Gen/LockTables.v)

type tcall struct {
	Kind   string `json:"kind"`
	Method string `json:"method"`
}
type tentry struct {
	Type     string  `json:"type"`
	Method   string  `json:"method"`
	Exported bool    `json:"exported"`
	Guard    string  `json:"guard"`
	Calls    []tcall `json:"calls"`
	Self     []tcall `json:"self"`
	Mutates  bool    `json:"mutates"`
	File     string  `json:"file"`
	Line     int     `json:"line"`
	RW       bool    `json:"rw"`
}
type toff struct {
	Type   string `json:"type"`
	Method string `json:"method"`
	Reason string `json:"reason"`
	File   string `json:"file"`
	Line   int    `json:"line"`
}
type table struct {
	Repo      string              `json:"repo"`
	Entries   []tentry            `json:"entries"`
	Inner     []json.RawMessage   `json:"inner"`
	Ro        map[string][]string `json:"ro"`
	Offenders []toff              `json:"offenders"`
	Compound  []tcall             `json:"compound_known"`
	byName    map[string]*tentry
}

func loadTable() (*table, string, error) {
	work := os.Getenv("VERIF_WORK")
	if work == "" {
		work = "/verif/work"
	}
	p := filepath.Join(work, "C11", "locktables.json")
	b, err := os.ReadFile(p)
	if err != nil {
		return nil, p, err
	}
	t := &table{}
	if err := json.Unmarshal(b, t); err != nil {
		return nil, p, err
	}
	for _, c := range t.Compound { // empty today: every variadic method is exercised with several elements
		compoundMethods[c.Kind+"."+c.Method] = true
	}
	t.byName = map[string]*tentry{}
	for i := range t.Entries {
		t.byName[t.Entries[i].Type+"."+t.Entries[i].Method] = &t.Entries[i]
	}
	return t, p, nil
}

func (t *table) isRo(kind, m string) bool {
	for _, x := range t.Ro[kind] {
		if x == m {
			return true
		}
	}
	return false
}

// entry of method m in the method set of spec s (declared by one of the types of its embedding chain)
func (t *table) entryOf(s *spec, m string) *tentry {
	for _, tn := range s.tnames {
		if e := t.byName[tn+"."+m]; e != nil {
			return e
		}
	}
	return nil
}

// does the table say the method changes the state? (used to pick writers; unknown = yes)
func (t *table) mutator(s *spec, m string) bool {
	e := t.entryOf(s, m)
	for hops := 0; e != nil && e.Guard == "NoLock" && len(e.Self) > 0 && hops < 6; hops++ {
		e = t.byName[e.Self[0].Kind+"."+e.Self[0].Method]
	}
	if e == nil {
		return true
	}
	if e.Mutates {
		return true
	}
	for _, c := range e.Calls {
		if !t.isRo(c.Kind, c.Method) {
			return true
		}
	}
	return false
}

// ---------------------------------------------------------------------------------------------------------
// child output

type caseOut struct {
	Term   string      `json:"term"`
	Label  string      `json:"label"`
	NonTr  bool        `json:"nontrivial"`
	Replay interface{} `json:"replay"`
}
type violOut struct {
	Label  string      `json:"label"`
	What   string      `json:"what"`
	Detail interface{} `json:"detail"`
}
type childOut struct {
	Mode       string                 `json:"mode"`
	Name       string                 `json:"name"`
	Cases      []caseOut              `json:"cases"`
	Violations []violOut              `json:"violations"`
	Notes      map[string]interface{} `json:"notes"`
	Calls      int64                  `json:"calls"`
	Done       bool                   `json:"done"`
}

func (c *childOut) save(dir string) {
	b, _ := json.Marshal(c)
	os.WriteFile(filepath.Join(dir, "child.json.tmp"), b, 0o644)
	os.Rename(filepath.Join(dir, "child.json.tmp"), filepath.Join(dir, "child.json"))
}

func zl(v []int64) string { return vhlib.ZList(v) }

func serialTerm(obs []int64, outs [][]int64) string {
	it := make([]string, len(outs))
	for i, o := range outs {
		it[i] = zl(o)
	}
	return fmt.Sprintf("CSerial %s %s", zl(obs), vhlib.List(it))
}

// ---------------------------------------------------------------------------------------------------------
// concurrent stress (runs in a child)

type panicRec struct {
	Method string `json:"method"`
	Args   string `json:"args"`
	Msg    string `json:"msg"`
	seed   uint64
	m      meth
}

type stressCfg struct {
	s                    *spec
	tab                  *table
	methods              []meth
	weights              []int // relative frequency per method
	G                    int
	iters                int
	prefill              int
	timeout              time.Duration
	seed                 uint64
	inflight             []atomic.Value
	lastErr, lastErrMeth atomic.Value
}

// runStress: G goroutines issue random calls on ONE instance. Returns panics seen, whether the watchdog fired
// (with the goroutine dump) and the number of calls made.
func runStress(c *stressCfg) (panics []panicRec, deadlock string, calls int64) {
	mk := c.s.mk
	if c.s.mkS != nil {
		mk = c.s.mkS
	}
	inst := mk(c.prefill)
	total := 0
	for _, w := range c.weights {
		total += w
	}
	pick := func(r *vhlib.Rng) meth {
		x := r.Intn(total)
		for i, w := range c.weights {
			if x < w {
				return c.methods[i]
			}
			x -= w
		}
		return c.methods[0]
	}
	var mu sync.Mutex
	var wg sync.WaitGroup
	start := make(chan struct{})
	c.inflight = make([]atomic.Value, c.G)
	var ncalls int64
	for g := 0; g < c.G; g++ {
		wg.Add(1)
		r := vhlib.NewRng(c.seed*1000003 + uint64(g))
		go func(g int, r *vhlib.Rng) {
			defer wg.Done()
			kept := make([]reflect.Value, 6)
			nkept := 0
			<-start
			for i := 0; i < c.iters; i++ {
				m := pick(r)
				aseed := r.U64()
				args := genArgs(m, vhlib.NewRng(aseed), nil)
				c.inflight[g].Store(m.name)
				res := invoke(inst, m, args)
				c.inflight[g].Store("")
				atomic.AddInt64(&ncalls, 1)
				// keep what the call handed out, keep reading it and now and then write into it while the other goroutines
				// mutate the instance: a result that aliases guarded storage is then a race the detector reports
				for _, v := range retainable(res) {
					kept[nkept%len(kept)] = v
					nkept++
				}
				if i%3 == 0 {
					for j, v := range kept {
						if v.IsValid() {
							touch(v, (i+j)%16 == 0)
						}
					}
				}
				if !res.panicked && failed(res) {
					c.lastErr.Store(m.name + "(" + clipStr(argString(args), 60) + ")")
					c.lastErrMeth.Store(m.name)
				}
				if res.panicked {
					mu.Lock()
					if len(panics) < 200 {
						panics = append(panics, panicRec{m.name, argString(args), res.pval, aseed, m})
					}
					mu.Unlock()
				}
				if i%64 == 0 {
					runtime.Gosched()
				}
			}
		}(g, r)
	}
	done := make(chan struct{})
	go func() { wg.Wait(); close(done) }()
	close(start)
	select {
	case <-done:
	case <-time.After(c.timeout):
		buf := make([]byte, 1<<20)
		n := runtime.Stack(buf, true)
		var fl []string
		for g := range c.inflight {
			if v, _ := c.inflight[g].Load().(string); v != "" {
				fl = append(fl, v)
			}
		}
		le, _ := c.lastErr.Load().(string)
		deadlock = fmt.Sprintf("calls in flight: %v; last call that returned an error: %q\n%s", fl, le, clipStr(string(buf[:n]), 6000))
	}
	return panics, deadlock, atomic.LoadInt64(&ncalls)
}

func clipStr(s string, n int) string {
	if len(s) > n {
		return s[:n] + "…"
	}
	return s
}

// probeSeqPanics: which methods panic in a purely sequential run with the generator's arguments (unimplemented stubs,
// argument validation by panic)? They are excluded from the concurrent mixes and listed in the notes.
func probeSeqPanics(s *spec, ms []meth, seed uint64) map[string]string {
	bad := map[string]string{}
	r := vhlib.NewRng(seed ^ 0xabcdef)
	for _, m := range ms {
		for trial := 0; trial < 24 && bad[m.name] == ""; trial++ {
			inst := s.mk([]int{0, 1, 2, 5, 9}[trial%5])
			seqReset()
			for k := 0; k < 3; k++ {
				res, blocked := invokeSeq(inst, m, genArgs(m, r, nil))
				if blocked {
					return bad
				}
				if res.panicked {
					bad[m.name] = res.pval
					break
				}
			}
		}
	}
	return bad
}

// safeDump: the state dump, tolerant of a container that a failed load has left inconsistent (the dump methods then
// panic - deterministically, in sequential and concurrent runs alike)
func safeDump(s *spec, inst interface{}) (d []int64) {
	defer func() {
		if recover() != nil {
			d = []int64{-998}
		}
	}()
	return s.dump(inst)
}

func takesDoc(m meth) bool {
	for a := 0; a < m.typ.NumIn(); a++ {
		if t := m.typ.In(a); t.Kind() == reflect.Slice && t.Elem().Kind() == reflect.Uint8 {
			return true
		}
	}
	return false
}

// loadDeterministic: does loading a document give the same observable state every time? (Containers that decode
// through a Go map insert in random order: tree shapes, String() and Height() then differ from run to run, and the
// set of serial outcomes cannot be enumerated by running each order once.)
func loadDeterministic(s *spec, ms []meth) bool {
	// a big valid document (12 entries): random insertion orders then give visibly different shapes
	var big []byte
	mkd := s.mk
	if s.mkDoc != nil {
		mkd = s.mkDoc
	}
	for _, name := range marshalNames {
		if m := findMeth(ms, name); m != nil && m.typ.NumIn() == 0 {
			if res, blocked := invokeSeq(mkd(12), *m, nil); !blocked && !res.panicked && len(res.out) > 0 && res.out[0].Kind() == reflect.Slice {
				big = append([]byte(nil), res.out[0].Bytes()...)
			}
			break
		}
	}
	for _, m := range ms {
		if !takesDoc(m) {
			continue
		}
		for _, seed := range []uint64{0, 11, 12, 13, 14, 15, 16, 17, 18} {
			var first string
			for rep := 0; rep < 8; rep++ {
				inst := s.mk(2)
				seqReset()
				args := genArgs(m, vhlib.NewRng(seed), nil)
				if seed == 0 {
					if big == nil {
						break
					}
					for i := range args {
						if args[i].Kind() == reflect.Slice && args[i].Type().Elem().Kind() == reflect.Uint8 {
							args[i] = reflect.ValueOf(append([]byte(nil), big...)).Convert(args[i].Type())
						}
					}
				}
				res, blocked := invokeSeq(inst, m, args)
				if blocked {
					return false
				}
				obs := fmt.Sprint(encResult(m.name, res, s.sorted), safeDump(s, inst))
				for _, f := range ms {
					if f.typ.NumIn() == 0 && !takesDoc(f) && (f.name == "String" || f.name == "Height" || f.name == "Values" || f.name == "Keys") {
						r2, _ := invokeSeq(inst, f, nil)
						obs += fmt.Sprint(encResult(f.name, r2, s.sorted))
					}
				}
				if rep == 0 {
					first = obs
				} else if obs != first {
					return false
				}
			}
		}
	}
	return true
}

// panicClass: method + message with the numbers removed ("Peek|runtime error: index out of range [] with length ")
func panicClass(method, msg string) string {
	var b strings.Builder
	for _, c := range msg {
		if c < '0' || c > '9' {
			b.WriteRune(c)
		}
	}
	return method + "|" + clipStr(b.String(), 60)
}

// seqWorkloadPanics: the SAME operation mix as the concurrent stress (same generators, same number of calls), issued by
// one goroutine on one instance. Panics that occur here (e.g. a container left inconsistent by a failed UnmarshalJSON,
// a nil map after Unmarshal("null")) are functional defects of the sequential code, not concurrency violations.
func seqWorkloadPanics(c *stressCfg) map[string]bool {
	classes := map[string]bool{}
	total := 0
	for _, w := range c.weights {
		total += w
	}
	for round := 0; round < 3; round++ {
		mk := c.s.mk
		inst := mk(c.prefill)
		seqReset()
		r := vhlib.NewRng(c.seed*77 + uint64(round))
		for i := 0; i < c.G*c.iters/2; i++ {
			x := r.Intn(total)
			m := c.methods[0]
			for k, w := range c.weights {
				if x < w {
					m = c.methods[k]
					break
				}
				x -= w
			}
			res, blocked := invokeSeq(inst, m, genArgs(m, vhlib.NewRng(r.U64()), nil))
			if blocked {
				return classes
			}
			if res.panicked {
				classes[panicClass(m.name, res.pval)] = true
			}
		}
	}
	return classes
}

// replayPanic: can the same call panic the same way in a sequential run (in states produced by the same operation
// mix)? If so it is a functional matter, not a concurrency one.
func replayPanic(s *spec, ms []meth, p panicRec, seed uint64) bool {
	r := vhlib.NewRng(seed ^ 0x5151)
	prefix := p.Msg
	if len(prefix) > 24 {
		prefix = prefix[:24]
	}
	for trial := 0; trial < 300; trial++ {
		inst := s.mk(r.Intn(12))
		seqReset()
		steps := r.Intn(40)
		for k := 0; k < steps; k++ {
			m := ms[r.Intn(len(ms))]
			if _, blocked := invokeSeq(inst, m, genArgs(m, r, nil)); blocked {
				return true
			}
		}
		res, _ := invokeSeq(inst, p.m, genArgs(p.m, vhlib.NewRng(p.seed), nil))
		if res.panicked && strings.HasPrefix(res.pval, prefix) {
			return true
		}
	}
	return false
}

// ---------------------------------------------------------------------------------------------------------
// serial-outcome scenarios (run in a child)

type scall struct {
	m    meth
	seed uint64
	key  *int
}

type scenario struct {
	name    string
	prefill int
	threads [][]scall
	sortAll bool // compare as multisets (commutative scenario with many threads: only one serial order is computed)
}

func (sc *scenario) describe() interface{} {
	var th [][]string
	for _, t := range sc.threads {
		var l []string
		for _, c := range t {
			l = append(l, c.m.name+"("+argString(genArgs(c.m, vhlib.NewRng(c.seed), c.key))+")")
		}
		th = append(th, l)
	}
	return map[string]interface{}{"scenario": sc.name, "prefill": sc.prefill, "threads": th}
}

func observe(s *spec, inst interface{}, results [][]callResult, sc *scenario) []int64 {
	var o []int64
	if sc.sortAll {
		var all []int64
		for ti, t := range results {
			for ci, r := range t {
				all = append(all, encResult(sc.threads[ti][ci].m.name, r, true)...)
			}
		}
		sort.Slice(all, func(i, j int) bool { return all[i] < all[j] })
		d := append([]int64(nil), safeDump(s, inst)...)
		sort.Slice(d, func(i, j int) bool { return d[i] < d[j] })
		return digest(append(append(d, -7777), all...))
	}
	o = append(o, safeDump(s, inst)...)
	o = append(o, -7777)
	for ti, t := range results {
		for ci, r := range t {
			o = append(o, encResult(sc.threads[ti][ci].m.name, r, s.sorted)...)
			o = append(o, -7778)
		}
	}
	return digest(o)
}

func runSerial(s *spec, sc *scenario, order []int) []int64 {
	inst := s.mk(sc.prefill)
	seqReset()
	results := make([][]callResult, len(sc.threads))
	pos := make([]int, len(sc.threads))
	for _, t := range order {
		c := sc.threads[t][pos[t]]
		pos[t]++
		res, _ := invokeSeq(inst, c.m, genArgs(c.m, vhlib.NewRng(c.seed), c.key))
		results[t] = append(results[t], res)
	}
	return observe(s, inst, results, sc)
}

func interleavings(lens []int, cur []int, out *[][]int, limit int) {
	if len(*out) >= limit {
		return
	}
	done := true
	for t, l := range lens {
		if l > 0 {
			done = false
			lens[t]--
			interleavings(lens, append(cur, t), out, limit)
			lens[t]++
		}
	}
	if done {
		*out = append(*out, append([]int(nil), cur...))
	}
}

func serialOutcomes(s *spec, sc *scenario) [][]int64 {
	var orders [][]int
	if sc.sortAll {
		var o []int
		for t, th := range sc.threads {
			for range th {
				o = append(o, t)
			}
		}
		orders = [][]int{o}
	} else {
		lens := make([]int, len(sc.threads))
		for t, th := range sc.threads {
			lens[t] = len(th)
		}
		interleavings(lens, nil, &orders, 2000)
	}
	seen := map[string]bool{}
	var outs [][]int64
	for _, o := range orders {
		v := runSerial(s, sc, o)
		k := fmt.Sprint(v)
		if !seen[k] {
			seen[k] = true
			outs = append(outs, v)
		}
	}
	return outs
}

func runConcurrent(s *spec, sc *scenario, timeout time.Duration) ([]int64, string) {
	inst := s.mk(sc.prefill)
	results := make([][]callResult, len(sc.threads))
	var wg sync.WaitGroup
	start := make(chan struct{})
	for t := range sc.threads {
		wg.Add(1)
		go func(t int) {
			defer wg.Done()
			// arguments are built before the start signal so that the calls overlap as much as possible
			args := make([][]reflect.Value, len(sc.threads[t]))
			for i, c := range sc.threads[t] {
				args[i] = genArgs(c.m, vhlib.NewRng(c.seed), c.key)
			}
			<-start
			for i, c := range sc.threads[t] {
				results[t] = append(results[t], invoke(inst, c.m, args[i]))
			}
		}(t)
	}
	done := make(chan struct{})
	go func() { wg.Wait(); close(done) }()
	close(start)
	select {
	case <-done:
	case <-time.After(timeout):
		buf := make([]byte, 1<<19)
		n := runtime.Stack(buf, true)
		return nil, clipStr(string(buf[:n]), 6000)
	}
	return observe(s, inst, results, sc), ""
}

// judgeScenario: reps concurrent runs; one CSerial case per distinct observation.
func judgeScenario(s *spec, sc *scenario, reps int, out *childOut, label string) {
	outs := serialOutcomes(s, sc)
	if again := serialOutcomes(s, sc); fmt.Sprint(again) != fmt.Sprint(outs) {
		n, _ := out.Notes["scenarios_skipped_nondeterministic"].(int)
		out.Notes["scenarios_skipped_nondeterministic"] = n + 1
		return // the sequential code itself is not deterministic on these calls: no oracle
	}
	seen := map[string]int{}
	var order []string
	obsOf := map[string][]int64{}
	for i := 0; i < reps; i++ {
		obs, dl := runConcurrent(s, sc, 20*time.Second)
		if dl != "" {
			out.Violations = append(out.Violations, violOut{label, "deadlock (scenario did not finish within 20s)", map[string]interface{}{"scenario": sc.describe(), "goroutines": dl}})
			return
		}
		k := fmt.Sprint(obs)
		if seen[k] == 0 {
			order = append(order, k)
			obsOf[k] = obs
		}
		seen[k]++
	}
	for _, k := range order {
		out.Cases = append(out.Cases, caseOut{Term: serialTerm(obsOf[k], outs), Label: label, NonTr: len(outs) > 1 || len(sc.threads) > 2,
			Replay: map[string]interface{}{"what": sc.describe(), "times_observed": seen[k], "of": reps, "serial_outcomes": len(outs)}})
	}
}

func findMeth(ms []meth, names ...string) *meth {
	for _, n := range names {
		for i := range ms {
			if ms[i].name == n {
				return &ms[i]
			}
		}
	}
	return nil
}

func intp(v int) *int { return &v }

// structured scenarios of the property statement: distinct keys all present; removals disjoint and complete; counters
func structuredScenarios(s *spec, ms []meth, G, per int) []*scenario {
	var scs []*scenario
	if add := findMeth(ms, "Add", "Put", "Enqueue", "Push", "Append", "AddB", "Set", "Store"); add != nil {
		sc := &scenario{name: "distinct-keys/" + add.name, sortAll: true}
		for g := 0; g < G; g++ {
			var th []scall
			for k := 0; k < per; k++ {
				key := 1 + g*per + k
				if s.name == "bcache.BCache" || s.name == "bobjectstorage.pkg" {
					key = (g*per + k) % cacheKeys
					if g*per+k >= cacheKeys {
						continue
					}
				}
				th = append(th, scall{*add, uint64(key), intp(key)})
			}
			sc.threads = append(sc.threads, th)
		}
		scs = append(scs, sc)
	}
	if take := findMeth(ms, "Dequeue", "Pop"); take != nil {
		sc := &scenario{name: "complete-disjoint-removal/" + take.name, sortAll: true, prefill: G * per}
		for g := 0; g < G; g++ {
			var th []scall
			for k := 0; k < per; k++ {
				th = append(th, scall{*take, 1, nil})
			}
			sc.threads = append(sc.threads, th)
		}
		scs = append(scs, sc)
	}
	if take := findMeth(ms, "RemoveB", "LoadAndDelete", "DeleteIfPresent"); take != nil {
		sc := &scenario{name: "complete-disjoint-removal/" + take.name, sortAll: true, prefill: G * per}
		for g := 0; g < G; g++ {
			var th []scall
			for k := 0; k < per; k++ {
				key := 1 + g*per + k
				th = append(th, scall{*take, uint64(key), intp(key)})
			}
			sc.threads = append(sc.threads, th)
		}
		scs = append(scs, sc)
	}
	if rr := findMeth(ms, "RemoveRangeByRank"); rr != nil {
		// every call is RemoveRangeByRank(0, 0): it removes the lowest-ranked member; the removed members must be
		// pairwise distinct and together the whole set
		sc := &scenario{name: "complete-disjoint-removal/RemoveRangeByRank", sortAll: true, prefill: G * per}
		for g := 0; g < G; g++ {
			var th []scall
			for k := 0; k < per; k++ {
				th = append(th, scall{*rr, 77, intp(0)})
			}
			sc.threads = append(sc.threads, th)
		}
		scs = append(scs, sc)
	}
	if inc := findMeth(ms, "IncrBy"); inc != nil {
		sc := &scenario{name: "counter/IncrBy", sortAll: true, prefill: 2}
		for g := 0; g < G; g++ {
			var th []scall
			for k := 0; k < per; k++ {
				th = append(th, scall{*inc, 1, intp(1)}) // IncrBy(1, 1)
			}
			sc.threads = append(sc.threads, th)
		}
		scs = append(scs, sc)
	}
	return scs
}

// sameKeyScenarios: two or three single calls that all address the SAME key / index / element of a prefilled instance
// (every int and float argument is the key), over sampled unordered pairs of methods: read-vs-write and write-vs-write
// contention on one entry (for bcache: also on an entry that is expired but still stored - the even keys).
func sameKeyScenarios(s *spec, ms []meth, r *vhlib.Rng, max int) []*scenario {
	type pair struct{ a, b int }
	var pairs []pair
	for i := range ms {
		for j := i; j < len(ms); j++ {
			pairs = append(pairs, pair{i, j})
		}
	}
	for i := len(pairs) - 1; i > 0; i-- {
		j := r.Intn(i + 1)
		pairs[i], pairs[j] = pairs[j], pairs[i]
	}
	if len(pairs) > max {
		pairs = pairs[:max]
	}
	var scs []*scenario
	for i, p := range pairs {
		k := 1 + (i % 6)
		if i%7 == 6 { // negative: ranks / indexes counted from the end, absent keys
			k = -1 - i%2
		}
		sc := &scenario{name: fmt.Sprintf("same-key(%d)/%s+%s", k, ms[p.a].name, ms[p.b].name), prefill: 6}
		sc.threads = [][]scall{{{ms[p.a], r.U64(), intp(k)}}, {{ms[p.b], r.U64(), intp(k)}}}
		if i%4 == 3 {
			sc.threads = append(sc.threads, []scall{{ms[r.Intn(len(ms))], r.U64(), intp(k)}})
		}
		scs = append(scs, sc)
	}
	return scs
}

func randomScenario(s *spec, ms []meth, r *vhlib.Rng, i int) *scenario {
	sc := &scenario{name: fmt.Sprintf("random#%d", i), prefill: r.Intn(7)}
	nt := 2 + r.Intn(2)
	for t := 0; t < nt; t++ {
		var th []scall
		for k, n := 0, 1+r.Intn(2); k < n; k++ {
			th = append(th, scall{ms[r.Intn(len(ms))], r.U64(), nil})
		}
		sc.threads = append(sc.threads, th)
	}
	return sc
}

// ---------------------------------------------------------------------------------------------------------
// child entry points

func specByName(name string) *spec {
	for _, s := range registry() {
		if s.name == name {
			return s
		}
	}
	return nil
}

// the spec on which an offending method is exercised: the outermost type whose method set contains it
func specForMethod(tn, m string) *spec {
	var best *spec
	for _, s := range registry() {
		for _, x := range s.tnames {
			if x == tn {
				if s.name == tn {
					return s
				}
				if best == nil {
					best = s
				}
			}
		}
	}
	return best
}

func filterMeths(ms []meth, bad map[string]string) []meth {
	var r []meth
	for _, m := range ms {
		if bad[m.name] == "" {
			r = append(r, m)
		}
	}
	return r
}

// childSetup: documents of the type under test, and the handler for a sequential call that blocks (= the instance lock
// was left held by an earlier call): record the violation and stop, everything after it would block as well.
func childSetup(o vhlib.Opts, s *spec, tab *table, out *childOut) {
	onBlocked = func(blockedMeth, args, failedMeth, failedCall string) {
		label, what := s.name+"."+blockedMeth, "deadlock: "+blockedMeth+"("+args+") blocked > "+seqTimeout.String()+" in a run without concurrency"
		if failedMeth != "" {
			tn := s.name
			if e := tab.entryOf(s, failedMeth); e != nil {
				tn = e.Type
			}
			label, what = tn+"."+failedMeth, "deadlock after failed "+failedMeth
		}
		buf := make([]byte, 1<<18)
		n := runtime.Stack(buf, true)
		out.Violations = append(out.Violations, violOut{label, what, map[string]interface{}{
			"failed_call": failedCall, "then_blocked": blockedMeth + "(" + args + ")", "blocked_for": seqTimeout.String(),
			"meaning":    "the call returned an error (or panicked) and left the instance lock held: every later call on the instance blocks forever",
			"goroutines": clipStr(string(buf[:n]), 3000)}})
		out.Done = true
		out.save(o.Out)
		os.Exit(0)
	}
	setDocs(s)
}

// errorPathProbe: every method that can fail is made to fail (invalid documents, out-of-range arguments) on a fresh
// instance; afterwards the instance must still answer. A lock left held on an error path shows as a blocked follow-up
// call (onBlocked reports "Type.Method | deadlock after failed Method").
func errorPathProbe(s *spec, ms []meth, seed uint64, out *childOut) {
	r := vhlib.NewRng(seed ^ 0xe44)
	errT := reflect.TypeOf((*error)(nil)).Elem()
	probed, failures := 0, 0
	for _, m := range ms {
		n := m.typ.NumOut()
		if n == 0 || !m.typ.Out(n-1).Implements(errT) {
			continue
		}
		probed++
		for trial := 0; trial < 16; trial++ {
			inst := s.mk([]int{0, 3, 6}[trial%3])
			seqReset()
			res, _ := invokeSeq(inst, m, genArgs(m, r, nil))
			if !failed(res) {
				continue
			}
			failures++
			for k := 0; k < 3; k++ { // the instance must still be usable
				f := ms[r.Intn(len(ms))]
				invokeSeq(inst, f, genArgs(f, r, nil))
			}
		}
	}
	out.Notes["error_path_probe"] = map[string]int{"methods_returning_error": probed, "failing_calls_followed_up": failures}
}

func childType(o vhlib.Opts, name string, tab *table, out *childOut) {
	s := specByName(name)
	if s == nil {
		out.Violations = append(out.Violations, violOut{name, "harness: no registry entry", nil})
		return
	}
	childSetup(o, s, tab, out)
	all, skipped := usableMethods(s.mk(2))
	errorPathProbe(s, all, o.Seed, out)
	bad := probeSeqPanics(s, all, o.Seed)
	ms := filterMeths(all, bad)
	out.Notes["skipped"] = skipped
	out.Notes["panics_sequentially"] = bad
	var names []string
	for _, m := range ms {
		names = append(names, m.name)
	}
	out.Notes["methods"] = names
	if len(ms) == 0 {
		return
	}
	// sequential and watchdog-only probes first (a race report ends a halting child)
	if !lightChild {
		aliasProbe(s, ms, tab, o.Seed, out)
	}
	selfArgProbe(s, ms, tab, o.Seed, out)
	out.save(o.Out)
	G, iters := 8, 3000
	if o.Thorough() {
		G, iters = 12, 15000
	} else if o.Tier == "widen" {
		G, iters = 10, 4000
	}
	w := make([]int, len(ms))
	for i := range w {
		w[i] = 1
	}
	// phase 1: everything except the methods that load a document (a failed load may leave some containers in an
	// inconsistent state - a functional matter - and would then dominate the mix); phase 2: everything
	w1 := make([]int, len(ms))
	nload := 0
	for i, m := range ms {
		w1[i] = 1
		for a := 0; a < m.typ.NumIn(); a++ {
			if t := m.typ.In(a); t.Kind() == reflect.Slice && t.Elem().Kind() == reflect.Uint8 {
				w1[i] = 0
				nload++
			}
		}
	}
	var panics []panicRec
	var dl string
	var calls int64
	cfg := &stressCfg{s: s, tab: tab, methods: ms, weights: w1, G: G, iters: iters * 2 / 3, prefill: 6, timeout: 30 * time.Second, seed: o.Seed}
	if nload > 0 && nload < len(ms) {
		panics, dl, calls = runStress(cfg)
	}
	if dl == "" {
		cfg = &stressCfg{s: s, tab: tab, methods: ms, weights: w, G: G, iters: iters / 2, prefill: 6, timeout: 30 * time.Second, seed: o.Seed + 1}
		if nload == 0 {
			cfg.iters = iters
		}
		p2, d2, c2 := runStress(cfg)
		panics, dl, calls = append(panics, p2...), d2, calls+c2
	}
	out.Calls = calls
	if dl != "" {
		label, what := name, "deadlock (watchdog: calls still in flight after 30s)"
		if fm, _ := cfg.lastErrMeth.Load().(string); fm != "" {
			if e := tab.entryOf(s, fm); e != nil {
				label = e.Type + "." + fm
			}
			what = "deadlock after failed " + fm + " (watchdog: calls still in flight after 30s)"
		}
		out.Violations = append(out.Violations, violOut{label, what, dl})
		return
	}
	seenP := map[string]bool{}
	var seqClasses map[string]bool
	for _, p := range panics {
		k := panicClass(p.Method, p.Msg)
		if seenP[k] {
			continue
		}
		seenP[k] = true
		if seqClasses == nil {
			seqClasses = seqWorkloadPanics(cfg)
		}
		// If the same operation mix panics at all when issued by ONE goroutine, the container can be brought into an
		// inconsistent state sequentially (e.g. by a failed load) and a panic under concurrency cannot be attributed to
		// concurrency: noted, not reported.
		if len(seqClasses) > 0 || replayPanic(s, ms, p, o.Seed) {
			l, _ := out.Notes["sequential_panics_seen_in_stress"].([]string)
			out.Notes["sequential_panics_seen_in_stress"] = append(l, p.Method+": "+clipStr(p.Msg, 80))
			continue
		}
		tn := name
		if e := tab.entryOf(s, p.Method); e != nil {
			tn = e.Type
		}
		out.Violations = append(out.Violations, violOut{tn + "." + p.Method, "panic under concurrent use (the same call does not panic in any sequential replay)", p})
	}
	// scenarios
	r := vhlib.NewRng(o.Seed*7919 + 13)
	nrand, reps, sg, sper := 12, 25, 6, 6
	if o.Thorough() {
		nrand, reps, sg, sper = 90, 50, 8, 12
	} else if o.Tier == "widen" {
		nrand, reps, sg, sper = 16, 30, 8, 8
	}
	msScen := ms
	if !loadDeterministic(s, ms) {
		msScen = nil
		for _, m := range ms {
			if !takesDoc(m) {
				msScen = append(msScen, m)
			}
		}
		out.Notes["load_nondeterministic"] = "loading a document gives run-dependent observables (map iteration order): document-loading methods are left out of the serial-outcome scenarios of this type (they stay in the race/deadlock stress)"
	}
	for i := 0; i < nrand && len(msScen) > 0; i++ {
		judgeScenario(s, randomScenario(s, msScen, r, i), reps, out, name+" serial-outcome")
	}
	for _, sc := range structuredScenarios(s, ms, sg, sper) {
		judgeScenario(s, sc, reps/2+1, out, name+" "+sc.name)
	}
	nsk := 40
	if o.Thorough() {
		nsk = 400
	} else if o.Tier == "widen" {
		nsk = 80
	}
	if lightChild {
		nsk = 0
	}
	batchWithKey = true
	for _, sc := range sameKeyScenarios(s, msScen, r, nsk) {
		judgeScenario(s, sc, reps, out, name+" same-key")
	}
	batchWithKey = false
}

// target: the offending method against the writers of the type (race hunt, halting at the first report)
func childTarget(o vhlib.Opts, name string, tab *table, out *childOut) {
	i := strings.LastIndex(name, ".")
	tn, mn := name[:i], name[i+1:]
	s := specForMethod(tn, mn)
	if s == nil {
		out.Notes["no_spec"] = name
		return
	}
	childSetup(o, s, tab, out)
	all, _ := usableMethods(s.mk(2))
	errorPathProbe(s, all, o.Seed, out)
	ms := filterMeths(all, probeSeqPanics(s, all, o.Seed))
	w := make([]int, len(ms))
	found := false
	for i, m := range ms {
		switch {
		case m.name == mn:
			w[i] = 6 * len(ms)
			found = true
		case tab.mutator(s, m.name):
			w[i] = 6
		default:
			w[i] = 1
		}
	}
	if !found { // unexported or unusable: fall back to the uniform mix on the type
		for i := range w {
			w[i] = 1
		}
	}
	out.Notes["spec"] = s.name
	iters := 3000
	if o.Thorough() {
		iters = 20000
	}
	cfg := &stressCfg{s: s, tab: tab, methods: ms, weights: w, G: 8, iters: iters, prefill: 64, timeout: 30 * time.Second, seed: o.Seed}
	panics, dl, calls := runStress(cfg)
	out.Calls = calls
	if dl != "" {
		out.Violations = append(out.Violations, violOut{name, "deadlock (watchdog: calls still in flight after 30s)", dl})
	}
	var seqClasses map[string]bool
	seenP := map[string]bool{}
	for _, p := range panics {
		k := panicClass(p.Method, p.Msg)
		if seenP[k] {
			continue
		}
		seenP[k] = true
		if seqClasses == nil {
			seqClasses = seqWorkloadPanics(cfg)
		}
		if len(seqClasses) == 0 && !replayPanic(s, ms, p, o.Seed) {
			out.Violations = append(out.Violations, violOut{name, "panic under concurrent use while stressing " + name, p})
			break
		}
	}
}

// lost: the offending method against each writer, two or three threads on a big instance, many repetitions; the race
// detector reports but does not halt. A non-serial outcome is a CSerial case that Coq judges kind 2.
func childLost(o vhlib.Opts, name string, tab *table, out *childOut) {
	i := strings.LastIndex(name, ".")
	tn, mn := name[:i], name[i+1:]
	s := specForMethod(tn, mn)
	if s == nil {
		return
	}
	childSetup(o, s, tab, out)
	all, _ := usableMethods(s.mk(2))
	ms := filterMeths(all, probeSeqPanics(s, all, o.Seed))
	target := findMeth(ms, mn)
	if target == nil {
		out.Notes["not_callable"] = name
		return
	}
	var writers []meth
	for _, m := range ms {
		if m.name != mn && tab.mutator(s, m.name) {
			writers = append(writers, m)
		}
	}
	r := vhlib.NewRng(o.Seed*31 + 5)
	n, reps := 4*len(writers)+8, 100
	if n < 24 {
		n = 24
	}
	if n > 56 {
		n = 56
	}
	if o.Thorough() {
		n, reps = 160, 200
	} else if o.Tier == "widen" {
		n, reps = 2*n, 150
	}
	bad := 0
	batchWithKey = true
	budget := 30 * time.Second // the targeted search is bounded in time as well as in scenarios
	if o.Thorough() {
		budget = 300 * time.Second
	} else if o.Tier == "widen" {
		budget = 50 * time.Second
	}
	t0 := time.Now()
	for k := 0; k < n && bad < 3 && time.Since(t0) < budget; k++ {
		sc := &scenario{name: fmt.Sprintf("targeted#%d", k), prefill: 3000 + r.Intn(3000)}
		// four scenarios per writer: all calls on one EVEN key (2, 4, 6; for bcache an expired-but-stored entry) / random
		// arguments / all integer arguments NEGATIVE (-1, -2: ranks and indexes counted from the end, absent keys) /
		// all calls on one odd key. In the negative phase every other writer slot is the method against itself.
		var key *int
		wi, phase := k/4, k%4
		switch phase {
		case 0:
			key = intp(2 + 2*(wi%3))
		case 2:
			key = intp(-1 - wi%2)
		case 3:
			key = intp(1 + 2*(wi%3))
		}
		if key != nil {
			sc.name += fmt.Sprintf("/same-key(%d)", *key)
		}
		sc.threads = append(sc.threads, []scall{{*target, r.U64(), key}})
		if len(writers) == 0 || (phase == 2 && wi%2 == 1) || (phase == 1 && wi%5 == 4) { // the method against itself
			sc.threads = append(sc.threads, []scall{{*target, r.U64(), key}})
		} else { // the writers in turn
			sc.threads = append(sc.threads, []scall{{writers[(wi+int(o.Seed))%len(writers)], r.U64(), key}})
		}
		if k%4 == 3 && len(writers) > 0 {
			sc.threads = append(sc.threads, []scall{{writers[r.Intn(len(writers))], r.U64(), key}})
		}
		before := len(out.Cases)
		judgeScenario(s, sc, reps, out, name+" lost-update")
		// keep only the observations that are not serial outcomes (the others are the generic scenarios' business)
		outs := serialOutcomes(s, sc)
		keep := out.Cases[:before]
		for _, c := range out.Cases[before:] {
			serial := false
			for _, so := range outs {
				if strings.HasPrefix(c.Term, "CSerial "+zl(so)+" ") {
					serial = true
				}
			}
			if !serial {
				keep = append(keep, c)
				bad++
			}
		}
		out.Cases = keep
	}
	out.Notes["non_serial_observations"] = bad
}

var lightChild bool

func runChild(o vhlib.Opts) {
	parts := strings.SplitN(o.Extra, ":", 3)
	out := &childOut{Mode: parts[1], Name: parts[2], Notes: map[string]interface{}{"gomaxprocs": runtime.GOMAXPROCS(0)}}
	out.save(o.Out)
	tab, _, err := loadTable()
	if err != nil {
		out.Violations = append(out.Violations, violOut{"harness", "cannot read the regenerated table: " + err.Error(), nil})
		out.save(o.Out)
		return
	}
	switch parts[1] {
	case "type", "typeL": // typeL: the second GOMAXPROCS value of a type in the quick tier, without the same-key scenarios
		lightChild = parts[1] == "typeL"
		childType(o, parts[2], tab, out)
	case "target":
		childTarget(o, parts[2], tab, out)
	case "nest":
		i := strings.LastIndex(parts[2], ".")
		if s := specByName(parts[2][:i]); s != nil {
			childSetup(o, s, tab, out)
			all, _ := usableMethods(s.mk(2))
			pairProbe(s, filterMeths(all, probeSeqPanics(s, all, o.Seed)), tab, parts[2][i+1:], o.Seed, out)
		}
	case "lost":
		childLost(o, parts[2], tab, out)
	}
	out.Done = true
	out.save(o.Out)
}

// ---------------------------------------------------------------------------------------------------------
// parent: sequential ties

func roCrossCheck(w *vhlib.Writer, tab *table, rng *vhlib.Rng) {
	for _, s := range registry() {
		if s.mkU == nil || len(tab.Ro[s.kind]) == 0 || s.name == "lscq.QueueSafe" {
			continue
		}
		all, _ := usableMethods(s.mkU(2))
		for _, mn := range tab.Ro[s.kind] {
			m := findMeth(all, mn)
			if m == nil {
				continue
			}
			var before, after []int64
			trials := 0
			for _, n := range []int{0, 1, 4, 9} {
				for k := 0; k < 6; k++ {
					inst := s.mkU(n)
					b := safeDump(s, inst)
					res := invoke(inst, *m, genArgs(*m, rng, nil))
					if res.panicked {
						continue
					}
					trials++
					before = append(before, b...)
					before = append(before, -1)
					after = append(after, safeDump(s, inst)...)
					after = append(after, -1)
				}
			}
			term := fmt.Sprintf("CReadOnly %q %q %s %s", s.kind, mn, zl(digest(before)), zl(digest(after)))
			w.Case(term, "read-only cross-check "+s.kind, trials > 0, nil, map[string]interface{}{"kind": s.kind, "method": mn, "trials": trials})
		}
	}
	// package functions that are handed guarded state
	sl := func() []int { return []int{3, 1, 4, 1, 5, 9, 2, 6} }
	fn := func(kind, name string, f func(s []int)) {
		s := sl()
		f(s)
		term := fmt.Sprintf("CReadOnly %q %q %s %s", kind, name, zl(ints64(sl())), zl(ints64(s)))
		w.Case(term, "read-only cross-check "+kind, true, nil, map[string]interface{}{"kind": kind, "method": name})
	}
	eq := func(a, b int) bool { return a == b }
	cmp := func(a, b int) int { return a - b }
	less := func(a, b int) bool { return a < b }
	fn("func:bslice", "Contains#1", func(s []int) { bslice.Contains(s, 4) })
	fn("func:bslice", "Index#1", func(s []int) { bslice.Index(s, 4) })
	fn("func:bslice", "Equal#1", func(s []int) { bslice.Equal(s, []int{3, 1}) })
	fn("func:bslice", "Compare#1", func(s []int) { bslice.Compare(s, []int{3, 1}) })
	fn("func:bslice", "IsSorted#1", func(s []int) { bslice.IsSorted(s) })
	fn("func:bslice", "BinarySearch#1", func(s []int) { bslice.BinarySearch(s, 4) })
	fn("func:bslice", "EqualFunc#1", func(s []int) { bslice.EqualFunc(s, []int{3}, eq) })
	fn("func:bslice", "CompareFunc#1", func(s []int) { bslice.CompareFunc(s, []int{3}, cmp) })
	fn("func:bslice", "IndexFunc#1", func(s []int) { bslice.IndexFunc(s, func(x int) bool { return x == 9 }) })
	fn("func:bslice", "Clone#1", func(s []int) { c := bslice.Clone(s); c[0] = 99 })
	fn("func:bslice", "IsSortedFunc#1", func(s []int) { bslice.IsSortedFunc(s, less) })
	fn("func:bslice", "BinarySearchFunc#1", func(s []int) { bslice.BinarySearchFunc(s, 4, cmp) })
	mp := func() map[int]int { return map[int]int{1: 10, 2: 20, 3: 30} }
	enc := func(m map[int]int) []int64 { return dumpBMap(bmap.NewUnsafeAnyBMapByMap[int, int](m)) }
	fm := func(name string, f func(m map[int]int)) {
		m := mp()
		f(m)
		term := fmt.Sprintf("CReadOnly %q %q %s %s", "func:bmap", name, zl(enc(mp())), zl(enc(m)))
		w.Case(term, "read-only cross-check func:bmap", true, nil, map[string]interface{}{"kind": "func:bmap", "method": name})
	}
	fm("Equal#1", func(m map[int]int) { bmap.Equal(m, map[int]int{1: 10}) })
	fm("EqualFunc#1", func(m map[int]int) { bmap.EqualFunc(m, map[int]int{1: 10}, eq) })
	fm("Clone#1", func(m map[int]int) { c := bmap.Clone(m); c[7] = 7 })
	fm("Copy#2", func(m map[int]int) { bmap.Copy(map[int]int{9: 9}, m) })
	fm("Keys#1", func(m map[int]int) { bmap.Keys(m) })
	fm("Values#1", func(m map[int]int) { bmap.Values(m) })
}

func delegateSanity(w *vhlib.Writer, tab *table, o vhlib.Opts) {
	seed := o.Seed
	for _, s := range registry() {
		if s.mkU == nil {
			continue
		}
		s := s
		reported := false
		onBlocked = func(blockedMeth, args, failedMeth, failedCall string) {
			if reported {
				return
			}
			reported = true
			label, what := s.name+"."+blockedMeth, "deadlock: "+blockedMeth+"("+args+") blocked > "+seqTimeout.String()+" in a run without concurrency"
			if failedMeth != "" {
				tn := s.name
				if e := tab.entryOf(s, failedMeth); e != nil {
					tn = e.Type
				}
				label, what = tn+"."+failedMeth, "deadlock after failed "+failedMeth
			}
			w.Violation(label, what, map[string]interface{}{"failed_call": failedCall, "then_blocked": blockedMeth + "(" + args + ")",
				"where": "sequential wrapper-vs-container trace (no concurrency): the failed call left the instance lock held"})
		}
		setDocs(s)
		seqReset()
		safe, twin := s.mk(4), s.mkU(4)
		ms, _ := usableMethods(safe)
		ms = filterMeths(ms, probeSeqPanics(s, ms, seed))
		seqReset()
		if reported {
			continue
		}
		if !loadDeterministic(s, ms) { // map-order dependent loads: wrapper and twin would legitimately differ
			var keep []meth
			for _, m := range ms {
				if !takesDoc(m) {
					keep = append(keep, m)
				}
			}
			ms = keep
		}
		tm, _ := usableMethods(twin)
		r := vhlib.NewRng(seed*17 + 3)
		// several traces; the first step on which wrapper and wrapped container differ (result or state) ends the search
		// and becomes the case, with the calls that led to it as the replay
		ntr := 3
		if o.Thorough() {
			ntr = 12
		} else if o.Tier == "widen" {
			ntr = 6
		}
		var a, b []int64
		steps, diverged := 0, false
		var first []string
		for tr := 0; tr < ntr && !diverged && len(ms) > 0; tr++ {
			seqReset()
			safe, twin = s.mk(4), s.mkU(4)
			var trace []string
			for k := 0; k < 80; k++ {
				m := ms[r.Intn(len(ms))]
				um := findMeth(tm, m.name)
				if um == nil || um.typ.NumIn() != m.typ.NumIn() {
					continue
				}
				u2 := *um
				u2.single = m.single // identical arguments on both sides
				um = &u2
				as := r.U64()
				args := genArgs(m, vhlib.NewRng(as), nil)
				ra, blocked := invokeSeq(safe, m, args)
				if blocked {
					break
				}
				rb := invoke(twin, *um, genArgs(*um, vhlib.NewRng(as), nil))
				ea, eb := encResult(m.name, ra, s.sorted), encResult(m.name, rb, s.sorted)
				if s.name != "lscq.QueueSafe" {
					ea = append(append(ea, -6), safeDump(s, safe)...)
					eb = append(append(eb, -6), safeDump(s, twin)...)
				}
				trace = append(trace, m.name+"("+clipStr(argString(args), 60)+")")
				steps++
				if fmt.Sprint(ea) != fmt.Sprint(eb) {
					diverged = true
					tn := s.name
					if e := tab.entryOf(s, m.name); e != nil {
						tn = e.Type
					}
					term := fmt.Sprintf("CDelegate %s %s", zl(digest(ea)), zl(digest(eb)))
					w.Case(term, tn+"."+m.name+" wrapper differs from the container it wraps", true, nil, map[string]interface{}{
						"type": s.name, "prefill": 4, "calls": trace, "diverges_at": m.name,
						"wrapper_result_then_state": ea, "container_result_then_state": eb})
					break
				}
				a = append(append(a, ea...), -5)
				b = append(append(b, eb...), -5)
			}
			if tr == 0 {
				first = trace
				if len(first) > 12 {
					first = first[:12]
				}
			}
		}
		if !diverged {
			term := fmt.Sprintf("CDelegate %s %s", zl(digest(a)), zl(digest(b)))
			w.Case(term, "wrapper = wrapped container on sequential traces "+s.name, steps > 5, nil, map[string]interface{}{"type": s.name, "steps": steps, "first_calls": first})
		}
	}
}

// ---------------------------------------------------------------------------------------------------------
// parent: children and race logs

var frameRx = regexp.MustCompile(`go-baseutils/[\w/]*?(\w+)\.\(\*(\w+)(?:\[[^\]]*\])?\)\.(\w+)`)

type raceRep struct {
	What    string   `json:"what"`
	Label   string   `json:"label"`
	Methods []string `json:"methods"`
	Text    string   `json:"text"`
}

// parseRaces: one report per "WARNING: DATA RACE" block; the label is the first frame that is a method of the table
// (an offending entry if one is on either stack).
func parseRaces(txt string, tab *table, hint, jobName string) []raceRep {
	var reps []raceRep
	blocks := strings.Split(txt, "WARNING: DATA RACE")
	offender := map[string]bool{}
	for _, o := range tab.Offenders {
		offender[o.Type+"."+o.Method] = true
	}
	for _, b := range blocks[1:] {
		if i := strings.Index(b, "=================="); i >= 0 {
			b = b[:i]
		}
		var ms []string
		seen := map[string]bool{}
		for _, f := range frameRx.FindAllStringSubmatch(b, -1) {
			n := f[1] + "." + f[2] + "." + f[3]
			if tab.byName[n] != nil && !seen[n] {
				seen[n] = true
				ms = append(ms, n)
			}
		}
		label := ""
		for _, m := range ms {
			if offender[m] {
				label = m
				break
			}
		}
		if label == "" && hint != "" && seen[hint] {
			label = hint
		}
		if label == "" && len(ms) > 0 {
			label = ms[0]
		}
		if label == "" {
			label = "unattributed"
		}
		what := "data race"
		if strings.Contains(b, "main.touch(") || strings.Contains(b, "main.sentinel(") {
			// one side is the caller goroutine reading / writing a slice or map it was handed by an earlier call
			what = "data race on a retained result (a slice/map handed out by a method aliases guarded storage)"
			if jobName != "" {
				label = jobName
			}
		}
		reps = append(reps, raceRep{what, label, ms, clipStr("WARNING: DATA RACE"+b, 3500)})
	}
	return reps
}

type job struct {
	mode, name string
	gmp        int
	halt       bool
	dir        string
	out        *childOut
	stderr     string
	raceTxt    string
	exit       int
	timedOut   bool
	dur        time.Duration
}

func runJob(o vhlib.Opts, j *job, timeout time.Duration) {
	os.RemoveAll(j.dir)
	os.MkdirAll(j.dir, 0o755)
	cmd := exec.Command(os.Args[0], "-seed", fmt.Sprint(o.Seed), "-tier", o.Tier, "-out", j.dir, "-extra", "child:"+j.mode+":"+j.name)
	halt := "1"
	if !j.halt {
		halt = "0"
	}
	env := []string{}
	for _, e := range os.Environ() {
		if !strings.HasPrefix(e, "GORACE=") && !strings.HasPrefix(e, "GOMAXPROCS=") {
			env = append(env, e)
		}
	}
	env = append(env, fmt.Sprintf("GORACE=halt_on_error=%s exitcode=66 log_path=%s", halt, filepath.Join(j.dir, "race")),
		fmt.Sprintf("GOMAXPROCS=%d", j.gmp))
	cmd.Env = env
	var eb bytes.Buffer
	cmd.Stderr = &eb
	cmd.Stdout = &eb
	t0 := time.Now()
	if err := cmd.Start(); err != nil {
		j.exit, j.stderr = -1, err.Error()
		return
	}
	done := make(chan error, 1)
	go func() { done <- cmd.Wait() }()
	select {
	case err := <-done:
		if ee, ok := err.(*exec.ExitError); ok {
			j.exit = ee.ExitCode()
		} else if err != nil {
			j.exit = -1
		}
	case <-time.After(timeout):
		cmd.Process.Kill()
		<-done
		j.timedOut = true
		j.exit = -2
	}
	j.dur = time.Since(t0)
	j.stderr = clipStr(eb.String(), 8000)
	logs, _ := filepath.Glob(filepath.Join(j.dir, "race.*"))
	for _, l := range logs {
		b, _ := os.ReadFile(l)
		j.raceTxt += string(b)
	}
	if b, err := os.ReadFile(filepath.Join(j.dir, "child.json")); err == nil {
		j.out = &childOut{}
		json.Unmarshal(b, j.out)
	}
}

func main() {
	o := vhlib.ParseOpts()
	if strings.HasPrefix(o.Extra, "child:") {
		runChild(o)
		return
	}
	rng := vhlib.NewRng(o.Seed)
	w := vhlib.NewWriter(o.Out, "From Coq Require Import List String ZArith.\nFrom VF Require Import C11.Check.\nImport ListNotations.\nLocal Open Scope Z_scope.\nLocal Open Scope string_scope.",
		"case", "mismatches", 150)
	tab, tpath, err := loadTable()
	if err != nil {
		w.Violation("harness", "the regenerated lock table is missing (tools/gen_c11 did not run?): "+err.Error(), tpath)
		w.Close(o, "no table")
		return
	}
	// ---- ties between the JSON the harness works from and what Coq compiled
	w.Case(fmt.Sprintf("CTable %s %s", vhlib.Nat(len(tab.Entries)), vhlib.Nat(len(tab.Inner))), "table tie", true, nil,
		map[string]interface{}{"entries": len(tab.Entries), "inner": len(tab.Inner), "json": tpath})
	var offs []string
	for _, f := range tab.Offenders {
		offs = append(offs, fmt.Sprintf("(%q, %q)", f.Type, f.Method))
	}
	w.Case("COffenders "+vhlib.List(offs), "offender tie", true, nil, map[string]interface{}{"translator_offenders": tab.Offenders})
	w.Notes["offending_entries"] = tab.Offenders
	// coverage of the table by the registry
	reg := registry()
	covered := map[string]bool{}
	for _, s := range reg {
		for _, tn := range s.tnames {
			covered[tn] = true
		}
	}
	var uncovered []string
	types := map[string]bool{}
	for _, e := range tab.Entries {
		types[e.Type] = true
		if !covered[e.Type] {
			uncovered = append(uncovered, e.Type+"."+e.Method)
		}
	}
	if len(uncovered) > 0 {
		w.Violation("harness", "guarded types in the table that the harness has no instance of (extend cmd/c11/registry.go)", uncovered)
	}
	// ---- sequential ties
	roCrossCheck(w, tab, rng.Fork())
	delegateSanity(w, tab, o)

	// ---- concurrent work in children
	gmps := []int{2, 4, 16}
	var jobs []*job
	for i, s := range reg {
		pick := []int{gmps[(i+int(o.Seed))%3], gmps[(i+int(o.Seed)+1)%3]}
		if o.Thorough() {
			pick = gmps
		}
		if o.Tier == "widen" { // the widened search spends its budget on the offending methods
			pick = pick[:1]
		}
		for gi, g := range pick {
			mode := "type"
			if (gi > 0 && !o.Thorough()) || o.Tier == "widen" {
				mode = "typeL"
			}
			jobs = append(jobs, &job{mode: mode, name: s.name, gmp: g, halt: true})
		}
	}
	// lock-order probes: every method that accepts another instance of its own type, pair in both orders
	for _, s := range reg {
		inst := s.mk(1)
		ms, _ := usableMethods(inst)
		for _, m := range ms {
			if len(selfArgIdx(inst, m)) > 0 {
				jobs = append(jobs, &job{mode: "nest", name: s.name + "." + m.name, gmp: 4, halt: false})
			}
		}
	}
	// the methods to stress for an offending entry: itself if it is exported, else the exported entry points that
	// forward to it (bcache.BCache.Get -> bCache.get)
	var targets []string
	seenT := map[string]bool{}
	addT := func(n string) {
		if !seenT[n] {
			seenT[n] = true
			targets = append(targets, n)
		}
	}
	for _, f := range tab.Offenders {
		n := f.Type + "." + f.Method
		if e := tab.byName[n]; e == nil || e.Exported {
			addT(n)
			continue
		}
		found := false
		for i := range tab.Entries {
			e := &tab.Entries[i]
			if !e.Exported {
				continue
			}
			for cur, hops := e, 0; cur != nil && len(cur.Self) > 0 && hops < 6; hops++ {
				nx := cur.Self[0].Kind + "." + cur.Self[0].Method
				if nx == n {
					addT(e.Type + "." + e.Method)
					found = true
					break
				}
				cur = tab.byName[nx]
			}
		}
		if !found {
			addT(n)
		}
	}
	w.Notes["targeted_methods"] = targets
	for _, n := range targets {
		for _, g := range gmps {
			jobs = append(jobs, &job{mode: "target", name: n, gmp: g, halt: true})
		}
		jobs = append(jobs, &job{mode: "lost", name: n, gmp: 4, halt: false})
	}
	for i, j := range jobs {
		j.dir = filepath.Join(o.Out, "children", fmt.Sprintf("%03d_%s_%s_p%d", i, j.mode, strings.ReplaceAll(j.name, "/", "_"), j.gmp))
	}
	// offender jobs first (they are the point when the obligation is broken)
	isType := func(m string) bool { return m == "type" || m == "typeL" }
	sort.SliceStable(jobs, func(a, b int) bool { return !isType(jobs[a].mode) && isType(jobs[b].mode) })
	par := runtime.NumCPU() / 2
	if par < 2 {
		par = 2
	}
	sem := make(chan struct{}, par)
	var wg sync.WaitGroup
	tmo := 100 * time.Second
	if o.Tier == "widen" {
		tmo = 75 * time.Second
	}
	if o.Thorough() {
		tmo = 900 * time.Second
	}
	for _, j := range jobs {
		wg.Add(1)
		sem <- struct{}{}
		go func(j *job) {
			defer wg.Done()
			defer func() { <-sem }()
			runJob(o, j, tmo)
		}(j)
	}
	wg.Wait()

	// ---- merge
	var totalCalls int64
	methodsSeen := map[string]bool{}
	skippedAll := map[string]interface{}{}
	seqPanics := map[string]interface{}{}
	var slowest []string
	raceSeen := map[string]bool{}
	nestRaces := map[string]int{}
	for _, j := range jobs {
		id := fmt.Sprintf("%s:%s GOMAXPROCS=%d", j.mode, j.name, j.gmp)
		if j.dur > 30*time.Second {
			slowest = append(slowest, fmt.Sprintf("%s %.0fs", id, j.dur.Seconds()))
		}
		hint := ""
		if !isType(j.mode) {
			hint = j.name
		}
		races := parseRaces(j.raceTxt+"\n"+j.stderr, tab, hint, j.name)
		if j.mode == "nest" {
			// lock-order probe: only its watchdog is a verdict (see pairProbe); races on the ARGUMENT's storage are the
			// known note findings/C11-note-bmap-argument-maps-unsynchronised.json
			if len(races) > 0 {
				nestRaces[j.name] = len(races)
			}
			races = nil
		}
		for _, r := range races {
			k := r.Label + "|" + strings.Join(r.Methods, ",")
			if raceSeen[k] {
				continue
			}
			raceSeen[k] = true
			w.Violation(r.Label, r.What, map[string]interface{}{"job": id, "seed": o.Seed, "methods_on_the_stacks": r.Methods, "report": r.Text})
		}
		if j.out != nil {
			totalCalls += j.out.Calls
			for _, c := range j.out.Cases {
				w.Case(c.Term, c.Label, c.NonTr, nil, c.Replay)
			}
			for _, v := range j.out.Violations {
				w.Violation(v.Label, v.What, map[string]interface{}{"job": id, "seed": o.Seed, "detail": v.Detail})
			}
			if isType(j.mode) {
				if ms, ok := j.out.Notes["methods"].([]interface{}); ok {
					for _, m := range ms {
						methodsSeen[j.name+"."+fmt.Sprint(m)] = true
					}
				}
				if sk, ok := j.out.Notes["skipped"].(map[string]interface{}); ok && len(sk) > 0 {
					skippedAll[j.name] = sk
				}
				if sp, ok := j.out.Notes["panics_sequentially"].(map[string]interface{}); ok && len(sp) > 0 {
					seqPanics[j.name] = sp
				}
				if x, ok := j.out.Notes["sequential_panics_seen_in_stress"]; ok {
					seqPanics[j.name+" (in stress, reproduced sequentially)"] = x
				}
			}
		}
		finished := j.out != nil && j.out.Done
		switch {
		case finished && j.exit == 0:
		case j.mode == "nest":
			if !finished { // e.g. the runtime's "concurrent map read and map write" on the argument: same note
				nestRaces[j.name+" (ended early: "+clipStr(strings.SplitN(strings.TrimSpace(j.stderr), "\n", 2)[0], 80)+")"]++
			}
		case j.raceTxt != "" || strings.Contains(j.stderr, "WARNING: DATA RACE"):
			// reported above (halt_on_error ends the child at the first report)
		case j.timedOut:
			w.Violation(j.name, "deadlock or livelock (child process killed after "+tmo.String()+")", map[string]interface{}{"job": id, "stderr": j.stderr})
		case !finished:
			what := "crash of the process under concurrent use"
			if i := strings.Index(j.stderr, "fatal error:"); i >= 0 {
				what = clipStr(strings.SplitN(j.stderr[i:], "\n", 2)[0], 120)
			}
			label := j.name
			for _, f := range frameRx.FindAllStringSubmatch(j.stderr, -1) {
				n := f[1] + "." + f[2] + "." + f[3]
				if tab.byName[n] != nil {
					label = n
					break
				}
			}
			w.Violation(label, what, map[string]interface{}{"job": id, "exit": j.exit, "stderr": j.stderr})
		}
	}
	w.Notes["lock_order_probes_argument_races_not_judged"] = nestRaces
	w.Notes["children"] = len(jobs)
	w.Notes["concurrent_calls"] = totalCalls
	w.Notes["methods_exercised_concurrently"] = len(methodsSeen)
	w.Notes["guarded_types"] = len(types)
	w.Notes["table_methods"] = len(tab.Entries)
	w.Notes["methods_not_exercised"] = skippedAll
	w.Notes["methods_that_panic_sequentially_excluded"] = seqPanics
	w.Notes["slow_children"] = slowest
	w.Notes["race_detector"] = "binary built with -race; children run with GORACE=halt_on_error=1 (lost-update children: 0), GOMAXPROCS 2/4/16"
	w.Close(o, "cases: (1) table/offender ties; (2) one CReadOnly per (kind, method) of Classify.ro_table that exists on the unguarded container: state dump before/after over 24 random calls; (3) one CDelegate per Safe type: 80-step sequential trace on wrapper and wrapped container; (4) CSerial: one case per DISTINCT observation (final state + every return value) of a concurrent scenario, judged against the set of serial outcomes obtained by running the same calls in every interleaving order sequentially on the same code (random 2-3 thread histories; distinct-key insertions by 6 goroutines; complete/disjoint removals; IncrBy counters). Non-trivial = more than one serial outcome or more than two threads. Races, deadlocks, crashes, non-sequential panics are direct violations found by child processes under the race detector.")
}
