package main

// Two classes of misuse of the guard that neither the lock table nor a plain method mix exhibits:
//
//  1. results that ALIAS guarded storage (a Values()/Keys()/... that returns the backing array instead of a copy):
//     - concurrently: the caller goroutine keeps the slices and maps it was handed, keeps reading them and now and then
//       writes into them while other goroutines mutate the instance (retain/touch, used by runStress): the race
//       detector reports the unsynchronised access;
//     - sequentially (aliasProbe): a retained result must not change when the instance is mutated afterwards, and
//       writing into it must not change the instance - in every state in which an aliasing fast path could apply
//       (empty, one element, exactly full after a load, after shrinking removals, ...). Judged in Coq (CRetained).
//  2. nested / re-entrant acquisition (selfArgProbe, pairProbe): a method that takes another instance of the same type
//     as argument is called with the receiver ITSELF, and with a pair of instances in both orders, while a writer is
//     queued on each instance; a call that does not come back within the watchdog is a deadlock.
//
// Unverified glue.

import (
	"fmt"
	"reflect"
	"runtime"
	"sync"
	"time"

	"vh/vhlib"
)

// retainable: the slices (with elements) and maps among the results of a call
func retainable(res callResult) []reflect.Value {
	var r []reflect.Value
	if res.panicked {
		return nil
	}
	for _, v := range res.out {
		switch v.Kind() {
		case reflect.Slice:
			if v.Len() > 0 {
				r = append(r, v)
			}
		case reflect.Map:
			if !v.IsNil() {
				r = append(r, v)
			}
		}
	}
	return r
}

// touch reads every element of a retained result (reflect.Copy / map iteration are instrumented by the race
// detector) and, if write, stores into it (an existing element: harmless when the result is the private copy it
// should be).
func touch(v reflect.Value, write bool) {
	switch v.Kind() {
	case reflect.Slice:
		n := v.Len()
		if n == 0 {
			return
		}
		scratch := reflect.MakeSlice(v.Type(), n, n)
		reflect.Copy(scratch, v)
		if write {
			v.Index(0).Set(scratch.Index(n - 1))
		}
	case reflect.Map:
		it := v.MapRange()
		var k, e reflect.Value
		for it.Next() {
			k, e = it.Key(), it.Value()
		}
		if write && k.IsValid() {
			v.SetMapIndex(k, e)
		}
	}
}

// sentinel overwrites every element of a retained result
func sentinel(v reflect.Value) {
	switch v.Kind() {
	case reflect.Slice:
		z := reflect.New(v.Type().Elem()).Elem()
		switch z.Kind() {
		case reflect.Int, reflect.Int64, reflect.Int32, reflect.Int16, reflect.Int8:
			z.SetInt(98765)
		case reflect.Uint8, reflect.Uint, reflect.Uint64, reflect.Uint32:
			z.SetUint(7)
		case reflect.Float64, reflect.Float32:
			z.SetFloat(98765)
		}
		for i := 0; i < v.Len(); i++ {
			v.Index(i).Set(z)
		}
	case reflect.Map:
		for _, k := range v.MapKeys() {
			v.SetMapIndex(k, reflect.Zero(v.Type().Elem()))
		}
		v.SetMapIndex(reflect.Zero(v.Type().Key()), reflect.Zero(v.Type().Elem()))
	}
}

func encRetained(rs []reflect.Value, sorted bool) []int64 {
	var o []int64
	for _, v := range rs {
		o = append(o, encVal(v, sorted, 0)...)
		o = append(o, -4)
	}
	return o
}

type prep struct {
	name string
	mk   func() interface{}
}

// preparations: the states in which a "no need to copy" fast path could apply
func preparations(s *spec, ms []meth) []prep {
	var ps []prep
	for _, n := range []int{0, 1, 4, 9} {
		n := n
		ps = append(ps, prep{fmt.Sprintf("fresh(%d)", n), func() interface{} { return s.mk(n) }})
	}
	for _, m := range ms { // exactly full after a load
		if !takesDoc(m) {
			continue
		}
		m := m
		for di := range validDocs {
			di := di
			ps = append(ps, prep{fmt.Sprintf("%s(valid document #%d)", m.name, di), func() interface{} {
				inst := s.mk(2)
				args := genArgs(m, vhlib.NewRng(1), nil)
				for i := range args {
					if args[i].Kind() == reflect.Slice && args[i].Type().Elem().Kind() == reflect.Uint8 {
						args[i] = reflect.ValueOf(append([]byte(nil), validDocs[di]...)).Convert(args[i].Type())
					}
				}
				invokeSeq(inst, m, args)
				return inst
			}})
		}
	}
	var rm []meth // after shrinking removals
	for _, n := range []string{"Remove", "Dequeue", "Pop", "RemoveB", "Delete", "DeleteIfPresent", "LoadAndDelete"} {
		if m := findMeth(ms, n); m != nil {
			rm = append(rm, *m)
		}
	}
	if len(rm) > 0 {
		for k := 1; k <= 15; k++ {
			k := k
			ps = append(ps, prep{fmt.Sprintf("fresh(16) then %d removals", k), func() interface{} {
				inst := s.mk(16)
				for i := 1; i <= k; i++ {
					m := rm[i%len(rm)]
					invokeSeq(inst, m, genArgs(m, vhlib.NewRng(uint64(i)), intp(0)))
					invokeSeq(inst, m, genArgs(m, vhlib.NewRng(uint64(i)), intp(i)))
				}
				return inst
			}})
		}
	}
	return ps
}

// aliasProbe: sequential judgement "a retained result is a private snapshot".
func aliasProbe(s *spec, ms []meth, tab *table, seed uint64, out *childOut) {
	if s.name == "lscq.QueueSafe" { // its only state dump is destructive
		return
	}
	r := vhlib.NewRng(seed ^ 0xa11a5)
	var before, after []int64
	probes, reported := 0, map[string]bool{}
	for _, p := range preparations(s, ms) {
		for _, m := range ms {
			if takesDoc(m) || reported[m.name] {
				continue
			}
			// (A) the retained result must not change when the instance is mutated afterwards
			inst := p.mk()
			seqReset()
			aseed := r.U64()
			args := genArgs(m, vhlib.NewRng(aseed), nil)
			res, blocked := invokeSeq(inst, m, args)
			if blocked {
				return
			}
			rs := retainable(res)
			if len(rs) == 0 {
				continue
			}
			probes++
			e1 := encRetained(rs, s.sorted)
			var later []string
			for k := 0; k < 6; k++ {
				f := ms[r.Intn(len(ms))]
				fa := genArgs(f, r, nil)
				invokeSeq(inst, f, fa)
				later = append(later, f.name+"("+clipStr(argString(fa), 40)+")")
			}
			e2 := encRetained(rs, s.sorted)
			// (B) writing into a freshly obtained result must not change the instance (same state, same call, no calls
			// in between: the backing storage cannot have been reallocated)
			inst2 := p.mk()
			safeDump(s, inst2) // (a dump may itself normalise the state: bcache's Get drops expired entries)
			res2, _ := invokeSeq(inst2, m, genArgs(m, vhlib.NewRng(aseed), nil))
			d1 := safeDump(s, inst2)
			for _, v := range retainable(res2) {
				sentinel(v)
			}
			d2 := safeDump(s, inst2)
			b := append(append(append([]int64{}, e1...), -44), d1...)
			a := append(append(append([]int64{}, e2...), -44), d2...)
			if fmt.Sprint(a) != fmt.Sprint(b) {
				reported[m.name] = true
				tn := s.name
				if e := tab.entryOf(s, m.name); e != nil {
					tn = e.Type
				}
				what := "the result changed when the instance was mutated afterwards"
				if fmt.Sprint(e1) == fmt.Sprint(e2) {
					what = "writing into the result changed the instance"
				}
				out.Cases = append(out.Cases, caseOut{Term: fmt.Sprintf("CRetained %s %s", zl(digest(b)), zl(digest(a))),
					Label: tn + "." + m.name + " result aliases guarded storage", NonTr: true,
					Replay: map[string]interface{}{"type": s.name, "state": p.name, "call": m.name + "(" + clipStr(argString(args), 40) + ")",
						"then": later, "what": what, "result_before": e1, "result_after_later_calls": e2,
						"state_before_writing_into_result": d1, "state_after": d2}})
				continue
			}
			before = append(append(before, b...), -45)
			after = append(append(after, a...), -45)
		}
	}
	out.Cases = append(out.Cases, caseOut{Term: fmt.Sprintf("CRetained %s %s", zl(digest(before)), zl(digest(after))),
		Label: s.name + " retained results are private snapshots", NonTr: probes > 0,
		Replay: map[string]interface{}{"type": s.name, "probes": probes}})
	out.Notes["alias_probes"] = probes
}

// ---------------------------------------------------------------------------------------------------------
// nested acquisition

// selfArgIdx: parameters of m to which the instance itself can be passed
func selfArgIdx(inst interface{}, m meth) []int {
	t := reflect.TypeOf(inst)
	var idx []int
	for a := 0; a < m.typ.NumIn(); a++ {
		pt := m.typ.In(a)
		if (pt.Kind() == reflect.Interface && pt.NumMethod() > 0 || pt.Kind() == reflect.Ptr) && t.AssignableTo(pt) {
			idx = append(idx, a)
		}
	}
	return idx
}

func loopCalls(wg *sync.WaitGroup, start chan struct{}, n int, inst interface{}, m meth, seed uint64, fix func([]reflect.Value)) {
	defer wg.Done()
	r := vhlib.NewRng(seed)
	<-start
	for i := 0; i < n; i++ {
		args := genArgs(m, r, nil)
		if fix != nil {
			fix(args)
		}
		invoke(inst, m, args)
		if i%16 == 0 {
			runtime.Gosched()
		}
	}
}

func waitOrDump(wg *sync.WaitGroup, d time.Duration) string {
	done := make(chan struct{})
	go func() { wg.Wait(); close(done) }()
	select {
	case <-done:
		return ""
	case <-time.After(d):
		buf := make([]byte, 1<<19)
		n := runtime.Stack(buf, true)
		return clipStr(string(buf[:n]), 5000)
	}
}

func writersOf(s *spec, ms []meth, tab *table, except string) []meth {
	var ws []meth
	for _, m := range ms {
		if m.name != except && !takesDoc(m) && tab.mutator(s, m.name) && len(selfArgIdx(s.mk(0), m)) == 0 {
			if e := tab.entryOf(s, m.name); e != nil && e.Guard == "Excl" {
				ws = append(ws, m)
			}
		}
	}
	return ws
}

// selfArgProbe: a.M(a) in a loop by ONE goroutine while ONE other goroutine keeps a writer queued on a.
func selfArgProbe(s *spec, ms []meth, tab *table, seed uint64, out *childOut) {
	probe := s.mk(1)
	n := 0
	for _, m := range ms {
		idx := selfArgIdx(probe, m)
		if len(idx) == 0 {
			continue
		}
		ws := writersOf(s, ms, tab, m.name)
		if len(ws) == 0 {
			continue
		}
		n++
		for round := 0; round < 3; round++ {
			a := s.mk(6)
			w := ws[(round+int(seed))%len(ws)]
			var wg sync.WaitGroup
			start := make(chan struct{})
			wg.Add(2)
			go loopCalls(&wg, start, 400, a, m, seed+uint64(round), func(args []reflect.Value) {
				for _, i := range idx {
					args[i] = reflect.ValueOf(a)
				}
			})
			go loopCalls(&wg, start, 400, a, w, seed+77+uint64(round), nil)
			close(start)
			if dump := waitOrDump(&wg, 8*time.Second); dump != "" {
				tn := s.name
				if e := tab.entryOf(s, m.name); e != nil {
					tn = e.Type
				}
				out.Violations = append(out.Violations, violOut{tn + "." + m.name, "deadlock: nested lock acquisition (receiver passed as its own argument while a writer is queued)",
					map[string]interface{}{"scenario": []string{"goroutine 1: 400 x a." + m.name + "(a, ...)", "goroutine 2: 400 x a." + w.name + "(...)"},
						"type": s.name, "blocked_for": "8s", "goroutines": dump}})
				break
			}
		}
	}
	out.Notes["self_argument_methods"] = n
}

// pairProbe (child mode nest:<Type>.<Method>): a.M(b) || b.M(a) while a writer is queued on a and on b. Only the
// watchdog is a verdict here: methods that read or write their ARGUMENT's raw storage without its lock (the known,
// unrepaired note on bmap's *ByBMap methods) race with that argument's writers by construction.
func pairProbe(s *spec, ms []meth, tab *table, mn string, seed uint64, out *childOut) {
	m := findMeth(ms, mn)
	if m == nil {
		return
	}
	idx := selfArgIdx(s.mk(1), *m)
	ws := writersOf(s, ms, tab, m.name)
	if len(idx) == 0 || len(ws) == 0 {
		return
	}
	for round := 0; round < 3; round++ {
		a, b := s.mk(6), s.mk(6)
		w := ws[(round+int(seed))%len(ws)]
		var wg sync.WaitGroup
		start := make(chan struct{})
		wg.Add(4)
		pass := func(x interface{}) func([]reflect.Value) {
			return func(args []reflect.Value) {
				for _, i := range idx {
					args[i] = reflect.ValueOf(x)
				}
			}
		}
		go loopCalls(&wg, start, 300, a, *m, seed+uint64(round), pass(b))
		go loopCalls(&wg, start, 300, b, *m, seed+9+uint64(round), pass(a))
		go loopCalls(&wg, start, 300, a, w, seed+77+uint64(round), nil)
		go loopCalls(&wg, start, 300, b, w, seed+99+uint64(round), nil)
		close(start)
		if dump := waitOrDump(&wg, 8*time.Second); dump != "" {
			tn := s.name
			if e := tab.entryOf(s, m.name); e != nil {
				tn = e.Type
			}
			out.Violations = append(out.Violations, violOut{tn + "." + m.name, "deadlock: lock-order cycle (a.M(b) || b.M(a) while a writer is queued on each instance)",
				map[string]interface{}{"scenario": []string{"goroutine 1: 300 x a." + m.name + "(b, ...)", "goroutine 2: 300 x b." + m.name + "(a, ...)",
					"goroutine 3: 300 x a." + w.name + "(...)", "goroutine 4: 300 x b." + w.name + "(...)"}, "type": s.name, "blocked_for": "8s", "goroutines": dump}})
			return
		}
	}
}
