// C13 harness, "GOMAXPROCS raised while every P sits on a block boundary" (child process; ownership flag and
// pool tag, no history).
//
// A Pool re-allocates its per-P array whenever a P with an id beyond the array shows up (pinSlow). Here that
// happens WHILE the existing Ps are in the middle of Get/Put and cross block boundaries all the time:
//
//	worker w owns pool w. It aligns its P-local part (Get until New is called: nothing cached; Put 257 objects:
//	       one full block in the shared chain, one object in the private block) and then repeats Get, Get, Put, Put:
//	       the second Get refills the private block from the shared chain, the second Put spills it again -
//	       a block boundary is crossed every other call;
//	toucher goroutines Put and Get one object on the pools of all workers (they never steal a shared block),
//	       so whenever a NEW P starts running, its first touch re-allocates that pool's array;
//	the controller creates a fresh generation of pools under GOMAXPROCS lo, raises GOMAXPROCS step by step, then
//	       lets the touchers Get from the workers' pools for a few milliseconds (a block that was spilled although
//	       it is still a private block is popped by a second P: two Ps hand out of the same slots), then asks every
//	       worker to drain its pool while holding everything it gets, and starts over.
//
// Judged: an object handed out while another caller owns it (flag CAS), an object of another pool, nil with New
// set; a torn value or nil block crashes the child (a violation as well).
package main

import (
	"fmt"
	"runtime"
	"sync"
	"sync/atomic"
	"time"

	"github.com/songzhibin97/go-baseutils/sys/syncx"

	"vh/vhlib"
)

type cobj struct {
	id   int64
	home *syncx.Pool
	flag int32
}

type climbGen struct {
	pools    []*syncx.Pool
	made     []int64 // New calls per pool
	mixing   int32   // the touchers now take objects out of the workers' pools (stealing their shared blocks)
	draining int32
	drained  []int32
}

type climbResult struct {
	hammerResult
	Generations int   `json:"generations"`
	Steps       int   `json:"gomaxprocs_steps"`
	Foreign     int64 `json:"foreign"`
	Crossings   int64 `json:"block_boundary_crossings_by_workers"`
}

func poolClimb(seed uint64, idx int, thorough bool) climbResult {
	rng := vhlib.NewRng(seed).Fork()
	for i := 0; i < idx+600; i++ {
		rng = rng.Fork()
	}
	var res climbResult
	ncpu := runtime.NumCPU()
	top := ncpu + 2 // not far above the number of CPUs: with many more running threads than cores every GOMAXPROCS
	if top < 6 {    // change (a stop-the-world) takes tens of milliseconds
		top = 6
	}
	res.Procs = top
	W := top - 2 // workers; plus touchers
	T := 4
	res.Goroutines = W + T
	var ids int64
	var detail atomic.Value
	newGen := func() *climbGen {
		g := &climbGen{pools: make([]*syncx.Pool, W), made: make([]int64, W), drained: make([]int32, W)}
		for i := range g.pools {
			i := i
			p := &syncx.Pool{}
			p.New = func() interface{} {
				atomic.AddInt64(&g.made[i], 1)
				return &cobj{id: atomic.AddInt64(&ids, 1), home: p}
			}
			g.pools[i] = p
		}
		return g
	}
	runtime.GOMAXPROCS(2)
	var cur atomic.Value
	cur.Store(newGen())
	dur := 2200 * time.Millisecond
	if thorough {
		dur = 8 * time.Second
	}
	deadline := time.Now().Add(dur)
	take := func(p *syncx.Pool, who int) *cobj {
		x := p.Get()
		if x == nil {
			atomic.AddInt64(&res.NilGets, 1)
			return nil
		}
		o := x.(*cobj)
		if o.home != p {
			atomic.AddInt64(&res.Foreign, 1)
			detail.Store(fmt.Sprintf("goroutine %d: Get returned object %d of another pool", who, o.id))
		}
		if !atomic.CompareAndSwapInt32(&o.flag, 0, 1) {
			atomic.AddInt64(&res.FlagViolations, 1)
			detail.Store(fmt.Sprintf("object %d handed to goroutine %d while owned (GOMAXPROCS %d)", o.id, who, runtime.GOMAXPROCS(0)))
			return nil
		}
		return o
	}
	give := func(o *cobj) {
		atomic.StoreInt32(&o.flag, 0)
		o.home.Put(o)
	}
	var wg sync.WaitGroup
	for w := 0; w < W; w++ {
		wg.Add(1)
		go func(w int) {
			defer wg.Done()
			var g *climbGen
			aligned := false
			cycles := 0
			held := make([]*cobj, 0, 4200)
			// exhaust: Get until New had to be called; everything stays held (flags are checked by take)
			exhaust := func(p *syncx.Pool, limit int) {
				held = held[:0]
				m0 := atomic.LoadInt64(&g.made[w])
				for i := 0; i < limit && atomic.LoadInt64(&g.made[w]) == m0; i++ {
					if o := take(p, w); o != nil {
						held = append(held, o)
					}
				}
			}
			for time.Now().Before(deadline) {
				if c := cur.Load().(*climbGen); c != g {
					g, aligned, cycles = c, false, 0
				}
				p := g.pools[w]
				if atomic.LoadInt32(&g.draining) == 1 {
					if atomic.CompareAndSwapInt32(&g.drained[w], 0, 1) {
						exhaust(p, 4000) // every object the pool holds, all at once
						for _, o := range held {
							atomic.StoreInt32(&o.flag, 0)
						}
					}
					runtime.Gosched()
					continue
				}
				if !aligned || cycles > 5000 {
					exhaust(p, 3000)
					for len(held) < 257 {
						if o := take(p, w); o != nil {
							held = append(held, o)
						}
					}
					for _, o := range held[:257] {
						give(o)
					}
					for _, o := range held[257:] { // dropped
						atomic.StoreInt32(&o.flag, 0)
					}
					aligned, cycles = true, 0
				}
				for i := 0; i < 64; i++ {
					a := take(p, w)
					b := take(p, w) // refill from the shared chain
					if b != nil {
						give(b)
					}
					if a != nil {
						give(a) // spill
					}
				}
				cycles += 64
				atomic.AddInt64(&res.Crossings, 128)
				atomic.AddInt64(&res.Ops, 256)
			}
		}(w)
	}
	for t := 0; t < T; t++ {
		wg.Add(1)
		go func(t int, r *vhlib.Rng) {
			defer wg.Done()
			for time.Now().Before(deadline) {
				g := cur.Load().(*climbGen)
				if atomic.LoadInt32(&g.draining) == 1 {
					runtime.Gosched()
					continue
				}
				if atomic.LoadInt32(&g.mixing) == 1 {
					// a spilled block that is still somebody's private block is now popped by a second P: both work
					// on the same slots
					for i := 0; i < W; i++ {
						p := g.pools[(i+t)%W]
						for k := 0; k < 40; k++ {
							if x := take(p, 100+t); x != nil {
								give(x)
							}
						}
					}
					atomic.AddInt64(&res.Ops, int64(80*W))
					continue
				}
				for i := 0; i < W; i++ {
					p := g.pools[(i+t)%W]
					o := &cobj{id: atomic.AddInt64(&ids, 1), home: p}
					p.Put(o) // first touch of this pool on whatever P this goroutine runs on
					if x := take(p, 100+t); x != nil {
						atomic.StoreInt32(&x.flag, 0) // kept out of the pool
					}
				}
				atomic.AddInt64(&res.Ops, int64(2*W))
				if r.Chance(1, 4) {
					runtime.Gosched()
				}
			}
		}(t, rng.Fork())
	}
	crng := rng.Fork()
	for time.Now().Before(deadline) {
		lo := crng.Range(ncpu/2, ncpu-2)
		if lo < 2 {
			lo = 2
		}
		runtime.GOMAXPROCS(lo)
		res.Steps++
		g := newGen()
		cur.Store(g)
		res.Generations++
		time.Sleep(time.Duration(crng.Range(500, 1500)) * time.Microsecond) // first arrays (sized lo), workers align
		for k := lo + 1; k <= top && time.Now().Before(deadline); k += crng.Range(1, 2) {
			runtime.GOMAXPROCS(k) // the new P(s) touch every pool: one re-allocation per pool while its owner oscillates
			res.Steps++
			time.Sleep(time.Duration(crng.Range(200, 700)) * time.Microsecond)
		}
		atomic.StoreInt32(&g.mixing, 1)
		time.Sleep(time.Duration(crng.Range(2000, 5000)) * time.Microsecond)
		atomic.StoreInt32(&g.draining, 1)
		time.Sleep(time.Duration(crng.Range(800, 1500)) * time.Microsecond)
		if crng.Chance(1, 4) {
			runtime.GC()
			res.GCs++
		}
	}
	wg.Wait()
	if d, ok := detail.Load().(string); ok {
		res.FlagDetail = d
	}
	return res
}
