// C13 harness: sys/syncx Pool (pool.go + poolqueue.go, built WITHOUT -race) and sys/syncx RWMutex.
//
//	CPoolSeq  : one goroutine on one P (GOMAXPROCS 1, NoGC): Get/Put bursts across the 256-slot block boundary,
//	            results and P-local counters compared with PoolModel inside Coq
//	CPoolHist : goroutine storms (more goroutines than Ps, bursts beyond 256 that overflow into the shared chains,
//	            stealing, >= 8 forced GC cycles, GOMAXPROCS changes) on tagged objects; the recorded Get/Put history
//	            (stamps from one atomic counter) is decided by pool_hist_b inside Coq; an ownership flag is CASed at
//	            every Get/Put as a second, direct detector
//	CRW       : reader/writer occupancy counters inside RWMutex critical sections under goroutine storms
//	CConst    : blockSize
//	CDeqSeq / CChainSeq / CDeqLin / CDeqConst : the ring poolDequeue and the chain poolChain themselves, see deque.go
//
// Storms run in child processes (same binary, -extra child:...): a crash of the code under test (fatal error,
// nil dereference, deadlock watchdog) is reported as a violation instead of killing the harness.
package main

import (
	"bytes"
	"encoding/json"
	"fmt"
	"os"
	"os/exec"
	"runtime"
	"sort"
	"strconv"
	"strings"
	"sync"
	"sync/atomic"
	"time"

	"github.com/songzhibin97/go-baseutils/sys/syncx"

	"vh/vhlib"
)

// ---------- tagged objects ----------

type pobj struct {
	id   int64
	born int64
	flag int32 // 1 while some caller owns it
}

type pev struct {
	Inv, Resp int64
	Who       int
	Kind      int   // 0 get(some), 1 get(nil), 2 put
	ID, Born  int64 // object
}

type poolResult struct {
	HasNew         bool   `json:"has_new"`
	Events         []pev  `json:"events"`
	FlagViolations int    `json:"flag_violations"`
	FlagDetail     string `json:"flag_detail"`
	GCs            int    `json:"gcs"`
	ProcChanges    int    `json:"proc_changes"`
	Goroutines     int    `json:"goroutines"`
	MaxBurst       int    `json:"max_burst"`
	Procs0         int    `json:"procs0"`
	AboveNumCPU    int    `json:"above_numcpu"`
	Idle           bool   `json:"idle,omitempty"` // idle-then-collect run (idle.go)
	BlocksBefore   int    `json:"blocks_before,omitempty"`
	PrivatesBefore int    `json:"privates_before,omitempty"`
	BlocksAfter    int    `json:"blocks_after,omitempty"`
}

type rwResult struct {
	Shards   int   `json:"shards"`
	RW       int64 `json:"rw"`
	WW       int64 `json:"ww"`
	Reads    int64 `json:"reads"`
	Writes   int64 `json:"writes"`
	Deadlock bool  `json:"deadlock"`
}

// procLadder: GOMAXPROCS values below, equal to and ABOVE the number of CPUs, and back (the per-P array of a Pool
// is re-allocated when a P id beyond its size shows up; RWMutex shards are fixed at init and indexed modulo).
func procLadder() []int {
	n := runtime.NumCPU()
	half := n / 2
	if half < 2 {
		half = 2
	}
	return []int{2, half, n, n + 1, 2 * n, n + n/2 + 1, n, 3, 2 * n, half, n + 2, 1, 2*n + 1, n}
}

// burners keep every P busy until stop is closed, so that the storm's goroutines are really scheduled on the
// high-numbered Ps (an idle runtime parks them).
func startBurners(k int, stop chan struct{}) *sync.WaitGroup {
	var bw sync.WaitGroup
	for b := 0; b < k; b++ {
		bw.Add(1)
		go func() {
			defer bw.Done()
			x := 0
			for {
				select {
				case <-stop:
					burnSink = x
					return
				default:
				}
				for i := 0; i < 20000; i++ {
					x += i ^ (x >> 3)
				}
				runtime.Gosched()
			}
		}()
	}
	return &bw
}

var burnSink int

// ---------- child: pool storm ----------

func poolStorm(seed uint64, idx int, thorough bool) poolResult {
	rng := vhlib.NewRng(seed).Fork()
	for i := 0; i < idx; i++ {
		rng = rng.Fork()
	}
	var res poolResult
	res.HasNew = !rng.Chance(1, 6)
	ladder := procLadder()
	procs0 := ladder[rng.Intn(len(ladder))]
	runtime.GOMAXPROCS(procs0)
	res.Procs0 = procs0
	var clock, ids int64
	var flagViol int32
	var flagDetail atomic.Value
	pool := &syncx.Pool{}
	if res.HasNew {
		pool.New = func() interface{} {
			return &pobj{id: atomic.AddInt64(&ids, 1), born: atomic.AddInt64(&clock, 1)}
		}
	}
	G := procs0 + rng.Range(1, 12) // more goroutines than Ps
	res.Goroutines = G
	budget := 2600 // events
	if thorough {
		budget = 4500
	}
	// script: per goroutine one burst size per phase (0 = idle in that phase); phases are separated by barriers.
	// phase 0: a few donors get and put back more than one block (their chains fill up);
	// phase 1: the donors idle, everybody else gets: Ps with an empty local must steal whole blocks;
	// later phases: random small and large bursts by everybody.
	nph := rng.Range(3, 5)
	bursts := make([][]int, G)
	for g := range bursts {
		bursts[g] = make([]int, nph)
	}
	used := 0
	take := func(g, ph, k int) {
		if used+2*k > budget {
			k = (budget - used) / 2
		}
		if k <= 0 {
			return
		}
		bursts[g][ph] = k
		used += 2 * k
		if k > res.MaxBurst {
			res.MaxBurst = k
		}
	}
	donors := rng.Range(1, 2)
	for g := 0; g < donors; g++ {
		take(g, 0, 257+rng.Intn(280))
	}
	for g := donors; g < G; g++ {
		take(g, 1, rng.Range(20, 140))
	}
	for ph := 2; ph < nph; ph++ {
		for g := 0; g < G; g++ {
			if rng.Chance(1, 2) {
				take(g, ph, rng.Range(1, 60))
			}
		}
	}
	phase := make([]sync.WaitGroup, nph)
	for i := range phase {
		phase[i].Add(G)
	}
	logs := make([][]pev, G)
	var wg sync.WaitGroup
	var start sync.WaitGroup
	start.Add(1)
	stop := make(chan struct{})
	for g := 0; g < G; g++ {
		wg.Add(1)
		go func(g int, r *vhlib.Rng) {
			defer wg.Done()
			var lg []pev
			start.Wait()
			for ph, k := range bursts[g] {
				if ph > 0 {
					phase[ph-1].Done()
					phase[ph-1].Wait()
				}
				if k == 0 {
					continue
				}
				held := make([]*pobj, 0, k)
				for i := 0; i < k; i++ {
					inv := atomic.AddInt64(&clock, 1)
					x := pool.Get()
					resp := atomic.AddInt64(&clock, 1)
					if x == nil {
						lg = append(lg, pev{inv, resp, g + 1, 1, 0, 0})
						if !res.HasNew {
							// nothing in the pool and no New: the caller makes an object itself
							o := &pobj{id: atomic.AddInt64(&ids, 1), born: atomic.AddInt64(&clock, 1), flag: 1}
							held = append(held, o)
						}
						continue
					}
					o := x.(*pobj)
					if !atomic.CompareAndSwapInt32(&o.flag, 0, 1) {
						atomic.AddInt32(&flagViol, 1)
						flagDetail.Store(fmt.Sprintf("object %d handed to goroutine %d while owned (Get stamps %d..%d)", o.id, g+1, inv, resp))
					}
					lg = append(lg, pev{inv, resp, g + 1, 0, o.id, o.born})
					held = append(held, o)
				}
				// hold
				if r.Chance(1, 2) {
					runtime.Gosched()
				} else {
					time.Sleep(time.Duration(r.Range(50, 600)) * time.Microsecond)
				}
				for _, j := range r.Perm(len(held)) {
					o := held[j]
					atomic.CompareAndSwapInt32(&o.flag, 1, 0)
					inv := atomic.AddInt64(&clock, 1)
					pool.Put(o)
					resp := atomic.AddInt64(&clock, 1)
					lg = append(lg, pev{inv, resp, g + 1, 2, o.id, o.born})
				}
				// pause so that the run spans several GC cycles and GOMAXPROCS changes
				time.Sleep(time.Duration(r.Range(100, 1200)) * time.Microsecond)
			}
			logs[g] = lg
		}(g, rng.Fork())
	}
	// controller: forced GC cycles (the pool's own gc runs in 4 of every 8) and GOMAXPROCS changes while the workers run
	var cwg sync.WaitGroup
	cwg.Add(1)
	crng := rng.Fork()
	burn := startBurners(2*runtime.NumCPU()+4, stop)
	go func() {
		defer cwg.Done()
		step := crng.Intn(len(ladder))
		for {
			select {
			case <-stop:
				return
			default:
			}
			runtime.GC()
			res.GCs++
			if crng.Chance(2, 3) { // walk the ladder: below, equal to, above NumCPU and back, a GC between two changes
				step = (step + 1) % len(ladder)
				runtime.GOMAXPROCS(ladder[step])
				res.ProcChanges++
				if ladder[step] > runtime.NumCPU() {
					res.AboveNumCPU++
				}
			}
			time.Sleep(time.Duration(crng.Range(20, 200)) * time.Microsecond)
		}
	}()
	start.Done()
	wg.Wait()
	close(stop)
	cwg.Wait()
	burn.Wait()
	for res.GCs < 8 { // at least 8 cycles in every run
		runtime.GC()
		res.GCs++
	}
	// a last sweep by one goroutine after the GCs: everything still in the pool is handed out once more
	var lg []pev
	for i := 0; i < 40; i++ {
		inv := atomic.AddInt64(&clock, 1)
		x := pool.Get()
		resp := atomic.AddInt64(&clock, 1)
		if x == nil {
			lg = append(lg, pev{inv, resp, 0, 1, 0, 0})
			if !res.HasNew {
				break
			}
			continue
		}
		o := x.(*pobj)
		if !atomic.CompareAndSwapInt32(&o.flag, 0, 1) {
			atomic.AddInt32(&flagViol, 1)
			flagDetail.Store(fmt.Sprintf("object %d handed out while owned (final sweep)", o.id))
		}
		lg = append(lg, pev{inv, resp, 0, 0, o.id, o.born})
	}
	for _, l := range logs {
		res.Events = append(res.Events, l...)
	}
	res.Events = append(res.Events, lg...)
	sort.Slice(res.Events, func(a, b int) bool { return res.Events[a].Inv < res.Events[b].Inv })
	res.FlagViolations = int(atomic.LoadInt32(&flagViol))
	if d, ok := flagDetail.Load().(string); ok {
		res.FlagDetail = d
	}
	return res
}

// ---------- child: pool hammer (no history; only the ownership flag) ----------

type hammerResult struct {
	Ops            int64  `json:"ops"`
	FlagViolations int64  `json:"flag_violations"`
	NilGets        int64  `json:"nil_gets"`
	FlagDetail     string `json:"flag_detail"`
	GCs            int    `json:"gcs"`
	Procs          int    `json:"procs"`
	Goroutines     int    `json:"goroutines"`
}

// poolHammer: many goroutines get bursts of up to 600 objects, check-and-set the ownership flag, and put them
// back, for a fixed wall-clock time, while GCs are forced. Detects double hand-out without recording a history.
func poolHammer(seed uint64, idx int, thorough bool) hammerResult {
	rng := vhlib.NewRng(seed).Fork()
	for i := 0; i < idx+200; i++ {
		rng = rng.Fork()
	}
	var res hammerResult
	ladder := procLadder()
	res.Procs = ladder[rng.Intn(len(ladder))]
	runtime.GOMAXPROCS(res.Procs)
	var ids int64
	var detail atomic.Value
	pool := &syncx.Pool{New: func() interface{} { return &pobj{id: atomic.AddInt64(&ids, 1)} }}
	G := 4*runtime.NumCPU() + 2 + rng.Intn(8) // more goroutines than the largest GOMAXPROCS of the ladder
	res.Goroutines = G
	dur := 900 * time.Millisecond
	if thorough {
		dur = 5 * time.Second
	}
	deadline := time.Now().Add(dur)
	var wg sync.WaitGroup
	for g := 0; g < G; g++ {
		wg.Add(1)
		go func(g int, r *vhlib.Rng) {
			defer wg.Done()
			held := make([]*pobj, 0, 700)
			for time.Now().Before(deadline) {
				k := r.Range(1, 40)
				if r.Chance(1, 4) {
					k = r.Range(200, 600)
				}
				held = held[:0]
				for i := 0; i < k; i++ {
					x := pool.Get()
					if x == nil {
						atomic.AddInt64(&res.NilGets, 1)
						continue
					}
					o := x.(*pobj)
					if !atomic.CompareAndSwapInt32(&o.flag, 0, 1) {
						atomic.AddInt64(&res.FlagViolations, 1)
						detail.Store(fmt.Sprintf("object %d handed to goroutine %d while owned", o.id, g))
						continue
					}
					held = append(held, o)
				}
				if r.Chance(1, 8) {
					runtime.Gosched()
				}
				for _, o := range held {
					atomic.StoreInt32(&o.flag, 0)
					pool.Put(o)
				}
				atomic.AddInt64(&res.Ops, int64(2*k))
			}
		}(g, rng.Fork())
	}
	stop := make(chan struct{})
	hstep := rng.Intn(len(ladder))
	go func() {
		for {
			select {
			case <-stop:
				return
			default:
			}
			runtime.GC()
			res.GCs++
			hstep = (hstep + 1) % len(ladder)
			runtime.GOMAXPROCS(ladder[hstep])
			time.Sleep(time.Duration(5+hstep) * time.Millisecond)
		}
	}()
	wg.Wait()
	close(stop)
	if d, ok := detail.Load().(string); ok {
		res.FlagDetail = d
	}
	return res
}

// ---------- child: RWMutex storm ----------

func rwStorm(seed uint64, idx int, thorough bool) rwResult {
	rng := vhlib.NewRng(seed).Fork()
	for i := 0; i < idx+100; i++ {
		rng = rng.Fork()
	}
	m := syncx.NewRWMutex()
	var res rwResult
	res.Shards = m.VerifShards()
	var readersIn, writersIn int64
	var wg sync.WaitGroup
	R, W := rng.Range(24, 56), rng.Range(2, 5)
	dur := 500 * time.Millisecond
	if thorough {
		dur = 3 * time.Second
	}
	deadline := time.Now().Add(dur)
	spin := func(n int) int { // a little work inside the critical sections so that they overlap in time
		x := 0
		for i := 0; i < n; i++ {
			x += i ^ (x >> 3)
		}
		return x
	}
	var sink int64
	// burners: goroutines that never touch the mutex keep every P busy, so that readers are scheduled on all Ps
	// (an idle runtime parks the high-numbered Ps and their shards would never be exercised)
	for b := 0; b < 32; b++ {
		wg.Add(1)
		go func() {
			defer wg.Done()
			for time.Now().Before(deadline) {
				atomic.AddInt64(&sink, int64(spin(20000)))
				runtime.Gosched()
			}
		}()
	}
	for r := 0; r < R; r++ {
		wg.Add(1)
		// a few readers never yield voluntarily: such a reader stays on its P (hence on its shard) until it
		// blocks or is preempted
		sticky := idx%4 == 3 && r%8 == 0
		go func(rr *vhlib.Rng) {
			defer wg.Done()
			for time.Now().Before(deadline) {
				l := m.RLocker()
				l.Lock()
				atomic.AddInt64(&readersIn, 1)
				if atomic.LoadInt64(&writersIn) != 0 {
					atomic.AddInt64(&res.RW, 1)
				}
				atomic.AddInt64(&sink, int64(spin(rr.Range(10, 400))))
				if !sticky && rr.Chance(1, 8) {
					runtime.Gosched()
				}
				if atomic.LoadInt64(&writersIn) != 0 {
					atomic.AddInt64(&res.RW, 1)
				}
				atomic.AddInt64(&readersIn, -1)
				l.Unlock()
				atomic.AddInt64(&res.Reads, 1)
				if !sticky {
					runtime.Gosched()
				}
			}
		}(rng.Fork())
	}
	for w := 0; w < W; w++ {
		wg.Add(1)
		go func(rr *vhlib.Rng) {
			defer wg.Done()
			for time.Now().Before(deadline) {
				m.Lock()
				if atomic.AddInt64(&writersIn, 1) != 1 {
					atomic.AddInt64(&res.WW, 1)
				}
				if atomic.LoadInt64(&readersIn) != 0 {
					atomic.AddInt64(&res.RW, 1)
				}
				// stay inside for 0.05 - 1 ms: Lock() itself takes milliseconds under a reader storm, so short writer
				// sections would make up a vanishing part of the run
				until := time.Now().Add(time.Duration(rr.Range(50, 1000)) * time.Microsecond)
				for time.Now().Before(until) {
					atomic.AddInt64(&sink, int64(spin(200)))
					if atomic.LoadInt64(&readersIn) != 0 {
						atomic.AddInt64(&res.RW, 1)
					}
				}
				for s := 0; s < rr.Range(0, 3); s++ {
					runtime.Gosched()
					if atomic.LoadInt64(&readersIn) != 0 {
						atomic.AddInt64(&res.RW, 1)
					}
				}
				atomic.AddInt64(&writersIn, -1)
				m.Unlock()
				atomic.AddInt64(&res.Writes, 1)
				runtime.Gosched()
			}
		}(rng.Fork())
	}
	// GOMAXPROCS changes while the storm runs (the shard of a reader is its P modulo the shard count)
	stop := make(chan struct{})
	crng := rng.Fork()
	rladder := procLadder()
	rstep := crng.Intn(len(rladder))
	go func() {
		for {
			select {
			case <-stop:
				return
			case <-time.After(time.Duration(crng.Range(5, 40)) * time.Millisecond):
				if idx%2 == 1 { // walk the ladder (shards are fixed at init: P ids wrap around modulo the shard count)
					rstep = (rstep + 1) % len(rladder)
					runtime.GOMAXPROCS(rladder[rstep])
					runtime.GC()
				}
			}
		}
	}()
	done := make(chan struct{})
	go func() { wg.Wait(); close(done) }()
	select {
	case <-done:
	case <-time.After(60 * time.Second):
		res.Deadlock = true
	}
	close(stop)
	return res
}

// ---------- parent ----------

func runChild(o vhlib.Opts, what string, idx int, timeout time.Duration) ([]byte, string, error) {
	exe, err := os.Executable()
	if err != nil {
		return nil, "", err
	}
	cmd := exec.Command(exe, "-seed", strconv.FormatUint(o.Seed, 10), "-tier", o.Tier, "-out", o.Out, "-extra", fmt.Sprintf("child:%s:%d", what, idx))
	if what == "rwraise" { // the shards of syncx.RWMutex are sized at package init: this child starts with 2 Ps
		cmd.Env = append(os.Environ(), "GOMAXPROCS=2")
	}
	var so, se bytes.Buffer
	cmd.Stdout, cmd.Stderr = &so, &se
	if err := cmd.Start(); err != nil {
		return nil, "", err
	}
	done := make(chan error, 1)
	go func() { done <- cmd.Wait() }()
	select {
	case err = <-done:
	case <-time.After(timeout):
		cmd.Process.Kill()
		err = fmt.Errorf("child timed out after %v", timeout)
	}
	tail := se.String()
	if len(tail) > 1500 {
		tail = tail[:1500]
	}
	return so.Bytes(), tail, err
}

func histTerm(r poolResult) string {
	it := make([]string, len(r.Events))
	for i, e := range r.Events {
		k := ""
		switch e.Kind {
		case 0:
			k = fmt.Sprintf("(PGet (Some %d) %d)", e.ID, e.Born)
		case 1:
			k = "(PGet None 0)"
		default:
			k = fmt.Sprintf("(PPut %d)", e.ID)
		}
		it[i] = fmt.Sprintf("e %d %d %d %s", e.Inv, e.Resp, e.Who, k)
	}
	return fmt.Sprintf("CPoolHist %s [%s]", vhlib.Bool(r.HasNew), strings.Join(it, ";\n "))
}

// seqTrace: one goroutine, one P, NoGC; object ids are handed out by New in creation order (0, 1, 2, ...)
// exactly as the model's counter does.
func seqTrace(rng *vhlib.Rng, hasNew bool) (string, []string, bool) {
	var ids int64 = -1
	pool := &syncx.Pool{NoGC: true}
	if hasNew {
		pool.New = func() interface{} { ids++; return &pobj{id: ids} }
	}
	var items, steps []string
	var held []*pobj
	foreign := int64(3000)
	snap := func() {
		ls := pool.VerifLocals()
		if len(ls) == 0 {
			items = append(items, "SSnap 0%nat false 0%nat 0%nat")
		} else {
			l := ls[0]
			items = append(items, fmt.Sprintf("SSnap %s %s %s %s", vhlib.Nat(l.Pidx), vhlib.Bool(l.HasPrivate), vhlib.Nat(int(l.Shared)), vhlib.Nat(int(l.Unused))))
		}
		steps = append(steps, "snapshot(pidx/private/shared/unused)")
	}
	nb := rng.Range(2, 10)
	gotSome := false
	total := 0
	for b := 0; b < nb; b++ {
		k := rng.Range(1, 40)
		if rng.Chance(1, 3) {
			k = rng.Range(250, 540) // across one or two block boundaries
		}
		if total+k > 900 {
			k = 900 - total
		}
		if k <= 0 {
			break
		}
		if rng.Chance(1, 2) || len(held) == 0 {
			for i := 0; i < k; i++ {
				x := pool.Get()
				total++
				if x == nil {
					items = append(items, "SGet None")
					steps = append(steps, "Get")
					if !hasNew && rng.Chance(1, 2) {
						foreign++
						held = append(held, &pobj{id: foreign})
					}
					continue
				}
				o := x.(*pobj)
				gotSome = true
				items = append(items, fmt.Sprintf("SGet (Some %s)", vhlib.Nat(int(o.id))))
				steps = append(steps, "Get")
				held = append(held, o)
			}
		} else {
			if k > len(held) {
				k = len(held)
			}
			for i := 0; i < k; i++ {
				j := len(held) - 1
				if rng.Chance(1, 4) {
					j = rng.Intn(len(held))
				}
				o := held[j]
				held = append(held[:j], held[j+1:]...)
				pool.Put(o)
				items = append(items, fmt.Sprintf("SPut %s", vhlib.Nat(int(o.id))))
				steps = append(steps, "Put")
			}
		}
		snap()
	}
	return fmt.Sprintf("CPoolSeq %s %s", vhlib.Bool(hasNew), vhlib.List(items)), steps, gotSome
}

func main() {
	o := vhlib.ParseOpts()
	if strings.HasPrefix(o.Extra, "child:") {
		parts := strings.Split(o.Extra, ":")
		idx, _ := strconv.Atoi(parts[2])
		var out interface{}
		if parts[1] == "pool" {
			out = poolStorm(o.Seed, idx, o.Thorough())
		} else if parts[1] == "rwlower" {
			out = rwScript("lower")
		} else if parts[1] == "rwraise" {
			out = rwScript("raise")
		} else if parts[1] == "climb" {
			out = poolClimb(o.Seed, idx, o.Thorough())
		} else if parts[1] == "multi" {
			out = multiPool(o.Seed, idx, o.Thorough())
		} else if parts[1] == "idle" {
			out = poolIdle(o.Seed, idx, o.Thorough())
		} else if parts[1] == "hammer" {
			out = poolHammer(o.Seed, idx, o.Thorough())
		} else {
			out = rwStorm(o.Seed, idx, o.Thorough())
		}
		b, _ := json.Marshal(out)
		os.Stdout.Write(b)
		return
	}
	rng := vhlib.NewRng(o.Seed).Fork()
	header := "From VF Require Import Common.Base C13.PoolModel C13.PoolHist C13.Check.\n" + dqHeader +
		"Definition e a b w k := {| pinv := a; presp := b; pwho := w; pwhat := k |}.\nLocal Open Scope Z_scope."
	w := vhlib.NewWriter(o.Out, header, "case", "mismatches", 3)
	th := o.Thorough()

	w.Case(fmt.Sprintf("CConst %s", vhlib.Nat(syncx.VerifBlockSize)), "constants(blockSize)", true, nil, map[string]interface{}{"blockSize": syncx.VerifBlockSize})

	// ---- storms in child processes (run several at a time: each child sets its own GOMAXPROCS) ----
	npool, nrw := 16, 2 // (two of the four RWMutex storms gave way to the scripted rounds of rwscript.go)
	if th {
		npool, nrw = 120, 12
	}
	type job struct {
		what string
		idx  int
		out  []byte
		tail string
		err  error
	}
	jobs := make([]*job, 0, npool+nrw)
	for i := 0; i < npool; i++ {
		jobs = append(jobs, &job{what: "pool", idx: i})
	}
	for i := 0; i < nrw; i++ {
		jobs = append(jobs, &job{what: "rw", idx: i})
	}
	nscript := 1
	if th {
		nscript = 4
	}
	for i := 0; i < nscript; i++ {
		jobs = append(jobs, &job{what: "rwlower", idx: i}, &job{what: "rwraise", idx: i})
	}
	nham := 3
	if th {
		nham = 8
	}
	nclimb := 3 // GOMAXPROCS climbing while all Ps cross block boundaries (climb.go)
	if th {
		nclimb = 9
	}
	for i := 0; i < nclimb; i++ {
		jobs = append(jobs, &job{what: "climb", idx: i})
	}
	for i := 0; i < nham; i++ {
		jobs = append(jobs, &job{what: "hammer", idx: i})
	}
	nidle := 6 // even: recorded history on 2-3 Ps; odd: all Ps, ownership flag only
	if th {
		nidle = 40
	}
	for i := 0; i < nidle; i++ {
		jobs = append(jobs, &job{what: "idle", idx: i})
	}
	nmulti := 4 // several pools, sized under a small GOMAXPROCS, used after it was raised (multipool.go)
	if th {
		nmulti = 30
	}
	for i := 0; i < nmulti; i++ {
		jobs = append(jobs, &job{what: "multi", idx: i})
	}
	sem := make(chan struct{}, 3)
	var jwg sync.WaitGroup
	for _, j := range jobs {
		jwg.Add(1)
		go func(j *job) {
			defer jwg.Done()
			sem <- struct{}{}
			j.out, j.tail, j.err = runChild(o, j.what, j.idx, 150*time.Second)
			<-sem
		}(j)
	}
	// ---- meanwhile nothing else runs in this process; the sequential tie needs GOMAXPROCS 1, so it waits ----
	jwg.Wait()

	totalEvents, totalGC, totalPC, stolenRuns, totalAbove := 0, 0, 0, 0, 0
	var hammerOps int64
	idleRuns, idleDropped, multiRuns, climbSteps, rwRounds := 0, 0, 0, 0, 0
	type pcase struct {
		term, label string
		replay      interface{}
	}
	var pcs []pcase
	for _, j := range jobs {
		label := "pool/storm(history)"
		if j.what == "rw" {
			label = "rwmutex/storm(occupancy)"
		}
		if j.what == "hammer" {
			label = "pool/hammer(ownership flag)"
		}
		if j.what == "idle" {
			label = "pool/idle-then-collect"
		}
		if j.what == "climb" {
			label = "pool/GOMAXPROCS climbing under load(ownership flag)"
		}
		if j.what == "rwlower" {
			label = "rwmutex/scripted exclusion per shard, GOMAXPROCS lowered"
		}
		if j.what == "rwraise" {
			label = "rwmutex/scripted exclusion per locker, GOMAXPROCS raised above the shard count"
		}
		if j.what == "multi" {
			label = "pool/several pools across a GOMAXPROCS ladder"
		}
		if j.err != nil {
			w.Violation(label, "the code under test crashed or hung in a child process", map[string]interface{}{"child": fmt.Sprintf("%s:%d", j.what, j.idx), "error": j.err.Error(), "stderr": j.tail, "seed": o.Seed})
			continue
		}
		if j.what == "multi" {
			var r multiResult
			if err := json.Unmarshal(j.out, &r); err != nil {
				w.Violation(label, "child output unreadable", map[string]interface{}{"error": err.Error(), "stderr": j.tail})
				continue
			}
			multiRuns++
			meta := map[string]interface{}{"child": fmt.Sprintf("multi:%d", j.idx), "seed": o.Seed, "pools": len(r.Pools), "sized_under_gomaxprocs": r.Lo,
				"raised_to": r.Hi, "full_blocks_in_shared_chains_after_fill": r.Overflow}
			if r.Foreign > 0 {
				w.Violation(label, "Get returned an object that was never put into this pool nor made by its New (or one that is still owned)",
					map[string]interface{}{"count": r.Foreign, "example": r.Detail, "run": meta})
			}
			for k, pr := range r.Pools {
				totalEvents += len(pr.Events)
				m2 := map[string]interface{}{"pool": k, "events": len(pr.Events), "run": meta}
				pcs = append(pcs, pcase{histTerm(pr), label, m2})
			}
			continue
		}
		if j.what == "rwlower" || j.what == "rwraise" {
			var r rwScriptResult
			if err := json.Unmarshal(j.out, &r); err != nil {
				w.Violation(label, "child output unreadable", map[string]interface{}{"error": err.Error(), "stderr": j.tail})
				continue
			}
			if r.Deadlock {
				w.Violation(label, "after the release the blocked party did not get in within 5 s", r)
			}
			rwRounds += r.Rounds
			pcs = append(pcs, pcase{fmt.Sprintf("CRW %s %d %d", vhlib.Nat(r.Shards), r.RW, r.WW), label, r})
			continue
		}
		if j.what == "climb" {
			var r climbResult
			if err := json.Unmarshal(j.out, &r); err != nil {
				w.Violation(label, "child output unreadable", map[string]interface{}{"error": err.Error(), "stderr": j.tail})
				continue
			}
			hammerOps += r.Ops
			climbSteps += r.Steps
			if r.FlagViolations > 0 || r.NilGets > 0 || r.Foreign > 0 {
				w.Violation(label, "an object was handed out while another caller owned it (or came from another pool, or Get returned nil with New set) while GOMAXPROCS was being raised", r)
			}
			continue
		}
		if j.what == "hammer" {
			var r hammerResult
			if err := json.Unmarshal(j.out, &r); err != nil {
				w.Violation(label, "child output unreadable", map[string]interface{}{"error": err.Error(), "stderr": j.tail})
				continue
			}
			hammerOps += r.Ops
			if r.FlagViolations > 0 || r.NilGets > 0 {
				w.Violation(label, "an object was handed out while another caller owned it, or Get returned nil with New set", r)
			}
			continue
		}
		if j.what == "pool" || j.what == "idle" {
			var r poolResult
			if err := json.Unmarshal(j.out, &r); err != nil {
				w.Violation(label, "child output unreadable", map[string]interface{}{"error": err.Error(), "stderr": j.tail})
				continue
			}
			totalEvents += len(r.Events)
			totalGC += r.GCs
			totalPC += r.ProcChanges
			totalAbove += r.AboveNumCPU
			if r.MaxBurst > 256 {
				stolenRuns++
			}
			if r.Idle {
				idleRuns++
				if r.BlocksAfter < r.BlocksBefore {
					idleDropped++
				}
			}
			meta := map[string]interface{}{"child": fmt.Sprintf("%s:%d", j.what, j.idx), "idle_then_collect": r.Idle, "full_blocks_before_idle": r.BlocksBefore,
				"full_blocks_after_idle": r.BlocksAfter, "partly_filled_privates": r.PrivatesBefore, "seed": o.Seed, "has_new": r.HasNew, "events": len(r.Events), "gcs": r.GCs,
				"gomaxprocs_changes": r.ProcChanges, "goroutines": r.Goroutines, "max_burst": r.MaxBurst, "procs0": r.Procs0, "changes_to_above_numcpu": r.AboveNumCPU, "numcpu": runtime.NumCPU()}
			if r.FlagViolations > 0 {
				w.Violation(label, "ownership flag CAS failed: an object was handed out while another caller owned it",
					map[string]interface{}{"count": r.FlagViolations, "example": r.FlagDetail, "run": meta})
			}
			if len(r.Events) > 0 {
				pcs = append(pcs, pcase{histTerm(r), label, meta})
			}
		} else {
			var r rwResult
			if err := json.Unmarshal(j.out, &r); err != nil {
				w.Violation(label, "child output unreadable", map[string]interface{}{"error": err.Error(), "stderr": j.tail})
				continue
			}
			if r.Deadlock {
				w.Violation(label, "storm did not finish within 60 s (deadlock watchdog)", r)
			}
			pcs = append(pcs, pcase{fmt.Sprintf("CRW %s %d %d", vhlib.Nat(r.Shards), r.RW, r.WW), label, r})
		}
	}
	// ---- sequential tie: single goroutine, single P ----
	old := runtime.GOMAXPROCS(1)
	nseq := 36
	if th {
		nseq = 400
	}
	type scase struct {
		term  string
		steps []string
		nt    bool
		hn    bool
	}
	var scs []scase
	for i := 0; i < nseq; i++ {
		hn := i%5 != 4
		var t string
		var st []string
		var nt bool
		if p, val := vhlib.Recover(func() { t, st, nt = seqTrace(rng, hn) }); p {
			w.Violation(fmt.Sprintf("pool/sequential(New=%v)", hn), "panic in Get/Put on a single goroutine", fmt.Sprint(val))
			continue
		}
		scs = append(scs, scase{t, st, nt, hn})
	}
	runtime.GOMAXPROCS(old)
	// emit: histories are the expensive cases (one or two per shard), sequential traces fill the shards
	si := 0
	for _, p := range pcs {
		w.Case(p.term, p.label, true, nil, p.replay)
		for k := 0; k < 2 && si < len(scs); k++ {
			s := scs[si]
			si++
			w.Case(s.term, fmt.Sprintf("pool/sequential(New=%v)", s.hn), s.nt, s.steps, nil)
		}
	}
	for ; si < len(scs); si++ {
		s := scs[si]
		w.Case(s.term, fmt.Sprintf("pool/sequential(New=%v)", s.hn), s.nt, s.steps, nil)
	}
	// ---- the ring and the chain of rings behind the pool's shared / unused chains ----
	emitDeque(w, rng.Fork(), th, o.Seed)
	w.Notes["idle_then_collect_runs"] = idleRuns
	w.Notes["several_pools_ladder_runs"] = multiRuns
	w.Notes["rwmutex_scripted_exclusion_rounds"] = rwRounds
	w.Notes["gomaxprocs_steps_while_all_ps_cross_block_boundaries"] = climbSteps
	w.Notes["idle_then_collect_runs_where_gc_dropped_chains"] = idleDropped
	w.Notes["pool_history_events"] = totalEvents
	w.Notes["hammer_get_put_calls_flag_checked"] = hammerOps
	w.Notes["forced_gc_cycles"] = totalGC
	w.Notes["gomaxprocs_changes"] = totalPC
	w.Notes["gomaxprocs_changes_to_above_numcpu"] = totalAbove
	w.Notes["runs_with_bursts_over_256"] = stolenRuns
	w.Close(o, "pool history: one case = the complete Get/Put history of one syncx.Pool under a goroutine storm (goroutines > Ps, bursts > 256, >= 8 forced GCs, GOMAXPROCS changes), "+
		"non-trivial always; sequential: one case = one single-P trace of Get/Put bursts with P-local counters, non-trivial when some Get returned an object; "+
		"rwmutex: one case = the overlap counters of one reader/writer storm; "+
		"dequeue/chain sequential: one case = a batch of runs (each starts with a reset step) of pushHead/popHead/popTail words on a real ring / chain with results and snapshots, non-trivial when some pop returned a block; "+
		"concurrent(lin): one case = a batch of recorded rounds (one producer, 1-3 thieves, plus the sequential drain), one step per round; distinct = distinct case text")
}
