// C13 harness, part 2: the lock-free ring poolDequeue and the chain of rings poolChain (sys/syncx/poolqueue.go),
// reached through the add-only hook sys/syncx/poolqueue_verif.go.
//
//	CDeqSeq   : sequential pushHead/popHead/popTail on real rings of 1, 2, 4, 8 (16) slots whose indexes start at 0,
//	            just below 2^32 (so head and tail wrap), 2^31, random; results and head/tail/slot contents are
//	            compared inside Coq with the Dequeue.v machine run under the sequential schedule (kind 1) and with
//	            the list deque (kind 2). Random profiles plus all call words of a fixed length on rings of 1 and 2.
//	CChainSeq : the same on real poolChains against Chain.v: overflow past the first ring (8, 16, 32 ... slots),
//	            draining from the head across rings, stealing from the tail (rings are dropped), refilling.
//	CDeqLin   : concurrent rounds, one producer (pushHead/popHead) and k thieves (popTail) on one small real ring, or
//	            on a chain filled up to a ring boundary; every call is stamped from one atomic counter; the complete
//	            history of a round (plus the sequential drain that follows it) is decided by the verified
//	            linearizability checker inside Coq (list deque; for the chain popTail's (nil,false) is a no-op).
package main

import (
	"fmt"
	"runtime"
	"strings"
	"sync"
	"sync/atomic"

	"github.com/songzhibin97/go-baseutils/sys/syncx"

	"vh/vhlib"
)

const dqHeader = "From VF Require C13.Dequeue C13.DeqCheck.\n" +
	"Notation Emp := Dequeue.Empty. Notation Got := Dequeue.Got.\n" +
	"Notation DR := DeqCheck.DReset. Notation DP := DeqCheck.DPush. Notation DH := DeqCheck.DPopHead.\n" +
	"Notation DT := DeqCheck.DPopTail. Notation DS := DeqCheck.DSnap.\n" +
	"Notation KR := DeqCheck.KReset. Notation KP := DeqCheck.KPush. Notation KH := DeqCheck.KPopHead.\n" +
	"Notation KT := DeqCheck.KPopTail. Notation KS := DeqCheck.KSnap.\n" +
	"Notation o := DeqCheck.mkop. Notation QP := DeqCheck.QPush. Notation QH := DeqCheck.QPopHead.\n" +
	"Notation QT := DeqCheck.QPopTail. Notation QW := DeqCheck.QTailWeak. Notation QU := DeqCheck.QUnit.\n" +
	"Notation QR := DeqCheck.QRes.\n"

// ---------- block identities ----------

type blockIDs struct {
	ids  map[*syncx.VerifBlock]int
	next int
}

func newIDs() *blockIDs { return &blockIDs{ids: map[*syncx.VerifBlock]int{}, next: 1} }
func (b *blockIDs) fresh() (*syncx.VerifBlock, int) {
	p := new(syncx.VerifBlock)
	id := b.next
	b.next++
	b.ids[p] = id
	return p, id
}

const unknownBlock = 4999 // a pointer that was never pushed

func (b *blockIDs) id(p *syncx.VerifBlock) int {
	if id, ok := b.ids[p]; ok {
		return id
	}
	return unknownBlock
}

// popres term: (nil,false) = Emp, (p,true) = Got (Some id), (nil,true) = Got None; (p,false) is reported apart.
func (b *blockIDs) popres(p *syncx.VerifBlock, ok bool) string {
	if !ok {
		return "Emp"
	}
	if p == nil {
		return "(Got None)"
	}
	return fmt.Sprintf("(Got (Some %s))", vhlib.Nat(b.id(p)))
}

func (b *blockIDs) slots(s []*syncx.VerifBlock) string {
	it := make([]string, len(s))
	for i, p := range s {
		if p == nil {
			it[i] = "None"
		} else {
			it[i] = "(Some " + vhlib.Nat(b.id(p)) + ")"
		}
	}
	return vhlib.List(it)
}

// a batch of sequential runs = one Coq case; every run starts with a reset step
type seqBatch struct {
	items, steps []string
	runs         []string // replay: one line per run
	nontrivial   bool
}

// ---------- one ring, sequential ----------

func ringStarts(n int, rng *vhlib.Rng) uint32 {
	switch rng.Intn(9) {
	case 0:
		return 0
	case 1:
		return 1<<32 - 1
	case 2:
		return 1<<32 - 2
	case 3:
		return uint32(1<<32 - n)
	case 4:
		return uint32(1<<32 - n - 1)
	case 5:
		return uint32(1<<32 - 2*n + 1)
	case 6:
		return 1 << 31
	case 7:
		return 1<<31 - 1
	}
	return uint32(rng.U64())
}

// runRing executes the call word ops ('P' pushHead, 'H' popHead, 'T' popTail, 'S' snapshot) on a fresh real ring.
func runRing(b *seqBatch, n int, start uint32, ops string) {
	ids := newIDs()
	q := syncx.VerifNewDequeue(n, start)
	b.items = append(b.items, fmt.Sprintf("DR %d %d", n, start))
	b.steps = append(b.steps, "reset")
	b.runs = append(b.runs, fmt.Sprintf("ring n=%d start=%d ops=%s", n, start, ops))
	for _, c := range ops {
		switch c {
		case 'P':
			p, id := ids.fresh()
			ok := q.PushHead(p)
			b.items = append(b.items, fmt.Sprintf("DP %s %s", vhlib.Nat(id), vhlib.Bool(ok)))
			b.steps = append(b.steps, "pushHead")
		case 'H':
			p, ok := q.PopHead()
			if ok {
				b.nontrivial = true
			}
			b.items = append(b.items, "DH "+ids.popres(p, ok))
			b.steps = append(b.steps, "popHead")
		case 'T':
			p, ok := q.PopTail()
			if ok {
				b.nontrivial = true
			}
			b.items = append(b.items, "DT "+ids.popres(p, ok))
			b.steps = append(b.steps, "popTail")
		case 'S':
			s := q.Snapshot()
			b.items = append(b.items, fmt.Sprintf("DS %d %d %s", s.Head, s.Tail, ids.slots(s.Slots)))
			b.steps = append(b.steps, "snapshot(head/tail/slots)")
		}
	}
}

func ringWord(n int, rng *vhlib.Rng) string {
	var sb strings.Builder
	rep := func(c byte, k int) {
		for i := 0; i < k; i++ {
			sb.WriteByte(c)
		}
	}
	switch rng.Intn(7) {
	case 0: // fill beyond capacity, drain from the head beyond empty
		rep('P', n+2)
		sb.WriteByte('S')
		rep('H', n+2)
	case 1: // fill, drain from the tail
		rep('P', n+1)
		sb.WriteByte('S')
		rep('T', n+2)
	case 2: // FIFO use: the ring is wrapped several times
		for i := 0; i < 3*n+4; i++ {
			sb.WriteString("PT")
			if rng.Chance(1, 3) {
				sb.WriteByte('P')
			}
			if rng.Chance(1, 4) {
				sb.WriteByte('T')
			}
		}
	case 3: // stack use
		for i := 0; i < 2*n+4; i++ {
			rep('P', rng.Range(1, 3))
			rep('H', rng.Range(1, 3))
		}
	case 4: // fill, alternate both ends
		rep('P', n)
		for i := 0; i < n+1; i++ {
			sb.WriteString("HT")
		}
		sb.WriteString("SPPTH")
	case 5: // pop-heavy churn
		for i := 0; i < 30; i++ {
			sb.WriteByte("PHTHT"[rng.Intn(5)])
		}
	default: // uniform churn
		for i := 0; i < rng.Range(10, 50); i++ {
			sb.WriteByte("PPHTS"[rng.Intn(5)])
		}
	}
	sb.WriteByte('S')
	return sb.String()
}

func ringSeqBatches(rng *vhlib.Rng, thorough bool) (random, exhaustive []*seqBatch) {
	nrand, per := 160, 20
	if thorough {
		nrand = 2400
	}
	sizes := []int{1, 2, 4, 8, 2, 4, 1, 16}
	cur := &seqBatch{}
	for i := 0; i < nrand; i++ {
		n := sizes[i%len(sizes)]
		runRing(cur, n, ringStarts(n, rng), ringWord(n, rng))
		if (i+1)%per == 0 || i == nrand-1 {
			random = append(random, cur)
			cur = &seqBatch{}
		}
	}
	// every call word of a fixed length, on rings of 1 and 2 slots that wrap around 2^32 during the word
	type ex struct {
		n, l  int
		start uint32
	}
	plan := []ex{{1, 5, 1<<32 - 2}, {2, 6, 1<<32 - 2}}
	if thorough {
		plan = []ex{{1, 7, 1<<32 - 3}, {2, 8, 1<<32 - 3}, {4, 7, 1<<32 - 2}}
	}
	cur = &seqBatch{}
	cnt := 0
	for _, e := range plan {
		total := 1
		for i := 0; i < e.l; i++ {
			total *= 3
		}
		for w := 0; w < total; w++ {
			word := make([]byte, e.l+1)
			x := w
			for i := 0; i < e.l; i++ {
				word[i] = "PHT"[x%3]
				x /= 3
			}
			word[e.l] = 'S'
			runRing(cur, e.n, e.start, string(word))
			cnt++
			if cnt%80 == 0 {
				exhaustive = append(exhaustive, cur)
				cur = &seqBatch{}
			}
		}
	}
	if len(cur.items) > 0 {
		exhaustive = append(exhaustive, cur)
	}
	return
}

// ---------- the chain, sequential ----------

func chainSnapTerm(ids *blockIDs, s syncx.VerifChainSnap) string {
	it := make([]string, len(s.Rings))
	for i, r := range s.Rings {
		it[i] = fmt.Sprintf("(%d, %d, %s, %s, %s)", r.Head, r.Tail, ids.slots(r.Slots), vhlib.Bool(r.HasNext), vhlib.Bool(r.HasPrev))
	}
	return fmt.Sprintf("KS %d %s %s %s", s.Size, vhlib.List(it), vhlib.Bool(s.HeadIsLast), vhlib.Nat(s.BackLen))
}

func runChain(b *seqBatch, at *uint32, ops string) {
	ids := newIDs()
	var q *syncx.VerifChain
	if at == nil {
		q = syncx.VerifNewChain()
		b.items = append(b.items, "KR None")
		b.runs = append(b.runs, "chain zero ops="+ops)
	} else {
		q = syncx.VerifNewChainAt(*at)
		b.items = append(b.items, fmt.Sprintf("KR (Some %d)", *at))
		b.runs = append(b.runs, fmt.Sprintf("chain start=%d ops=%s", *at, ops))
	}
	b.steps = append(b.steps, "reset")
	for _, c := range ops {
		switch c {
		case 'P':
			p, id := ids.fresh()
			q.PushHead(p)
			b.items = append(b.items, "KP "+vhlib.Nat(id))
			b.steps = append(b.steps, "chain.pushHead")
		case 'H':
			p, ok := q.PopHead()
			if ok {
				b.nontrivial = true
			}
			b.items = append(b.items, "KH "+ids.popres(p, ok))
			b.steps = append(b.steps, "chain.popHead")
		case 'T':
			p, ok := q.PopTail()
			if ok {
				b.nontrivial = true
			}
			b.items = append(b.items, "KT "+ids.popres(p, ok))
			b.steps = append(b.steps, "chain.popTail")
		case 'S':
			b.items = append(b.items, chainSnapTerm(ids, q.Snapshot()))
			b.steps = append(b.steps, "chain.snapshot(size/rings/links)")
		}
	}
}

func chainWord(rng *vhlib.Rng) string {
	var sb strings.Builder
	rep := func(c byte, k int) {
		for i := 0; i < k; i++ {
			sb.WriteByte(c)
		}
	}
	switch rng.Intn(7) {
	case 0: // overflow into the second and third ring, drain from the head across the rings
		k := rng.Range(9, 30)
		rep('P', k)
		sb.WriteByte('S')
		rep('H', k+2)
	case 1: // overflow, steal everything: drained rings are dropped
		k := rng.Range(9, 30)
		rep('P', k)
		sb.WriteByte('S')
		rep('T', k+2)
		sb.WriteString("SPPHT")
	case 2: // exactly at the boundaries 8 and 8+16
		rep('P', 8)
		sb.WriteString("SPS")
		rep('T', 8)
		sb.WriteString("STS")
		rep('P', 16)
		sb.WriteString("SPSHHS")
	case 3: // first ring drained by thieves while the producer is already in the second
		rep('P', 10)
		rep('T', 9)
		sb.WriteString("SHSHTS")
		rep('P', 20)
		sb.WriteByte('S')
		rep('T', 5)
		rep('H', 17)
	case 4: // empty chain
		sb.WriteString("HTSPHTHS")
	case 5: // both ends alternately across rings
		k := rng.Range(12, 28)
		rep('P', k)
		for i := 0; i < k/2+2; i++ {
			sb.WriteString("TH")
			if i%5 == 4 {
				sb.WriteByte('S')
			}
		}
	default: // churn biased to growth
		for i := 0; i < rng.Range(20, 70); i++ {
			sb.WriteByte("PPPPHTTS"[rng.Intn(8)])
		}
	}
	sb.WriteByte('S')
	return sb.String()
}

func chainSeqBatches(rng *vhlib.Rng, thorough bool) []*seqBatch {
	nruns, per := 42, 6
	if thorough {
		nruns = 600
	}
	var out []*seqBatch
	cur := &seqBatch{}
	for i := 0; i < nruns; i++ {
		var at *uint32
		if i%3 != 0 {
			s := ringStarts(8, rng)
			at = &s
		}
		runChain(cur, at, chainWord(rng))
		if (i+1)%per == 0 || i == nruns-1 {
			out = append(out, cur)
			cur = &seqBatch{}
		}
	}
	return out
}

// ---------- concurrent rounds ----------

type qrec struct {
	inv, resp int64
	kind      byte // 'P', 'H', 'T', 'W' (chain popTail that said empty)
	id        int
	ok        bool
	nilTrue   bool // (nil,true)
}

func (r qrec) term() string {
	switch r.kind {
	case 'P':
		return fmt.Sprintf("o %d%%N %d%%N (QP %s %s) QU", r.inv, r.resp, vhlib.Nat(r.id), vhlib.Bool(r.ok))
	case 'W':
		return fmt.Sprintf("o %d%%N %d%%N QW QU", r.inv, r.resp)
	}
	c := "QH"
	if r.kind == 'T' {
		c = "QT"
	}
	res := "Emp"
	if r.nilTrue {
		res = "(Got None)"
	} else if r.ok {
		res = fmt.Sprintf("(Got (Some %s))", vhlib.Nat(r.id))
	}
	return fmt.Sprintf("o %d%%N %d%%N %s (QR %s)", r.inv, r.resp, c, res)
}

type deque interface {
	push(p *syncx.VerifBlock) bool
	popHead() (*syncx.VerifBlock, bool)
	popTail() (*syncx.VerifBlock, bool)
}
type ringQ struct{ q *syncx.VerifDequeue }
type chainQ struct{ q *syncx.VerifChain }

func (r ringQ) push(p *syncx.VerifBlock) bool       { return r.q.PushHead(p) }
func (r ringQ) popHead() (*syncx.VerifBlock, bool)  { return r.q.PopHead() }
func (r ringQ) popTail() (*syncx.VerifBlock, bool)  { return r.q.PopTail() }
func (c chainQ) push(p *syncx.VerifBlock) bool      { c.q.PushHead(p); return true }
func (c chainQ) popHead() (*syncx.VerifBlock, bool) { return c.q.PopHead() }
func (c chainQ) popTail() (*syncx.VerifBlock, bool) { return c.q.PopTail() }

type round struct {
	recs    []qrec
	suspect bool // the Go-side conservation pre-screen failed (only decides which rounds are sent to Coq first)
	overlap int
	desc    string
}

// runRound: prefix = sequential pushes before the race; prodOps = the producer's calls; thieves[i] = number of
// popTail calls of thief i. After the race the main goroutine drains (ring: popTail, chain: popHead) until empty.
func runRound(q deque, isChain bool, prefix int, prodOps string, thieves []int, slots int) (rd round, panicked interface{}) {
	var clock int64
	ids := newIDs()
	all := []qrec{}
	// pre-allocate the producer's blocks
	npush := prefix + strings.Count(prodOps, "P")
	blocks := make([]*syncx.VerifBlock, npush)
	bid := make([]int, npush)
	for i := range blocks {
		blocks[i], bid[i] = ids.fresh()
	}
	do := func(kind byte, p *syncx.VerifBlock, id int) (qrec, *syncx.VerifBlock) {
		r := qrec{kind: kind, id: id}
		var x *syncx.VerifBlock
		r.inv = atomic.AddInt64(&clock, 1)
		switch kind {
		case 'P':
			r.ok = q.push(p)
		case 'H':
			x, r.ok = q.popHead()
		case 'T':
			x, r.ok = q.popTail()
		}
		r.resp = atomic.AddInt64(&clock, 1)
		r.nilTrue = kind != 'P' && r.ok && x == nil
		return r, x
	}
	fix := func(r qrec, x *syncx.VerifBlock) qrec {
		if r.kind != 'P' {
			if x != nil {
				r.id = ids.id(x)
				if !r.ok { // (p,false): never produced by the code; shows up as an unknown result
					r.ok, r.id = true, unknownBlock
				}
			}
			if r.kind == 'T' && isChain && !r.ok {
				r.kind = 'W'
			}
		}
		return r
	}
	next := 0
	for i := 0; i < prefix; i++ {
		r, _ := do('P', blocks[next], bid[next])
		next++
		all = append(all, r)
	}
	var ready, start int32
	var wg sync.WaitGroup
	nthreads := 1 + len(thieves)
	type out struct {
		r qrec
		x *syncx.VerifBlock
	}
	results := make([][]out, nthreads)
	var pan atomic.Value
	wait := func() {
		atomic.AddInt32(&ready, 1)
		for atomic.LoadInt32(&start) == 0 {
		}
	}
	wg.Add(nthreads)
	go func() {
		defer wg.Done()
		defer func() {
			if e := recover(); e != nil {
				pan.Store(fmt.Sprint(e))
			}
		}()
		wait()
		for _, c := range prodOps {
			var o out
			if c == 'P' {
				o.r, o.x = do('P', blocks[next], bid[next])
				next++
			} else {
				o.r, o.x = do('H', nil, 0)
			}
			results[0] = append(results[0], o)
		}
	}()
	for t, k := range thieves {
		go func(t, k int) {
			defer wg.Done()
			defer func() {
				if e := recover(); e != nil {
					pan.Store(fmt.Sprint(e))
				}
			}()
			wait()
			for i := 0; i < k; i++ {
				var o out
				o.r, o.x = do('T', nil, 0)
				results[1+t] = append(results[1+t], o)
			}
		}(t, k)
	}
	for atomic.LoadInt32(&ready) != int32(nthreads) {
		runtime.Gosched()
	}
	atomic.StoreInt32(&start, 1)
	wg.Wait()
	for _, rs := range results {
		for _, o := range rs {
			all = append(all, fix(o.r, o.x))
		}
	}
	if e := pan.Load(); e != nil {
		return rd, e
	}
	// drain
	for i := 0; i < slots+2; i++ {
		kind := byte('T')
		if isChain {
			kind = 'H'
		}
		r, x := do(kind, nil, 0)
		all = append(all, fix(r, x))
		if !r.ok {
			break
		}
	}
	// pre-screen: every block pushed successfully is popped exactly once, nothing else is popped
	cnt := map[int]int{}
	for _, r := range all {
		if r.kind == 'P' && r.ok {
			cnt[r.id]++
		}
	}
	for _, r := range all {
		if (r.kind == 'H' || r.kind == 'T') && r.ok {
			if r.nilTrue {
				rd.suspect = true
			}
			cnt[r.id]--
		}
	}
	for _, c := range cnt {
		if c != 0 {
			rd.suspect = true
		}
	}
	// overlap: pairs of calls of different threads that overlap in time (a measure of how concurrent the round was)
	for i := range all {
		for j := i + 1; j < len(all); j++ {
			if all[i].inv < all[j].resp && all[j].inv < all[i].resp {
				rd.overlap++
			}
		}
	}
	rd.recs = all
	return rd, nil
}

func roundTerm(r round) string {
	it := make([]string, len(r.recs))
	for i, x := range r.recs {
		it[i] = x.term()
	}
	return vhlib.List(it)
}

type linBatch struct {
	label  string
	rounds []round
}

// concurrentRounds runs many short rounds and selects the ones sent to Coq: every round whose pre-screen failed
// (at most 40) and the most overlapping of the others.
func concurrentRounds(rng *vhlib.Rng, thorough bool, viol func(label, what string, detail interface{})) (batches []linBatch, notes map[string]interface{}) {
	notes = map[string]interface{}{}
	nring, nchain, keepRing, keepChain := 30000, 6000, 1100, 300
	if thorough {
		nring, nchain, keepRing, keepChain = 400000, 80000, 9000, 2500
	}
	old := runtime.GOMAXPROCS(0)
	if old < 4 {
		runtime.GOMAXPROCS(4)
	}
	defer runtime.GOMAXPROCS(old)
	pick := func(all []round, keep int) []round {
		var sus, rest []round
		for _, r := range all {
			if r.suspect && len(sus) < 40 {
				sus = append(sus, r)
			} else if r.overlap > 0 {
				rest = append(rest, r)
			}
		}
		// keep a spread: every (len(rest)/keep)-th round, so that all profiles are represented
		if len(rest) > keep {
			stepf := float64(len(rest)) / float64(keep)
			sel := make([]round, 0, keep)
			for i := 0; i < keep; i++ {
				sel = append(sel, rest[int(float64(i)*stepf)])
			}
			rest = sel
		}
		return append(sus, rest...)
	}
	var ringRounds, chainRounds []round
	suspects := 0
	for i := 0; i < nring; i++ {
		n := []int{1, 2, 2, 4}[rng.Intn(4)]
		k := rng.Range(1, 3)
		var start uint32
		if rng.Chance(1, 2) {
			start = uint32(1<<32 - rng.Range(1, 3))
		}
		prefix := rng.Intn(n + 1)
		var sb strings.Builder
		for j := rng.Range(1, 4); j > 0; j-- {
			sb.WriteByte("PHHP"[rng.Intn(4)])
		}
		th := make([]int, k)
		left := 4
		for t := range th {
			th[t] = rng.Range(1, 2)
			if th[t] > left {
				th[t] = left
			}
			left -= th[t]
		}
		q := ringQ{syncx.VerifNewDequeue(n, start)}
		rd, p := runRound(q, false, prefix, sb.String(), th, n)
		if p != nil {
			viol("dequeue/concurrent(lin)", "panic inside pushHead/popHead/popTail of a ring under concurrency", fmt.Sprint(p))
			continue
		}
		rd.desc = fmt.Sprintf("ring n=%d start=%d prefix=%d prod=%s thieves=%v", n, start, prefix, sb.String(), th)
		if rd.suspect {
			suspects++
		}
		ringRounds = append(ringRounds, rd)
	}
	for i := 0; i < nchain; i++ {
		prefix := []int{7, 8, 8, 6, 23, 24}[rng.Intn(6)]
		var sb strings.Builder
		for j := rng.Range(1, 4); j > 0; j-- {
			sb.WriteByte("PPHP"[rng.Intn(4)])
		}
		k := rng.Range(1, 3)
		th := make([]int, k)
		for t := range th {
			th[t] = rng.Range(1, 3)
		}
		var q chainQ
		if rng.Chance(1, 2) {
			q = chainQ{syncx.VerifNewChain()}
		} else {
			q = chainQ{syncx.VerifNewChainAt(uint32(1<<32 - rng.Range(1, 9)))}
		}
		rd, p := runRound(q, true, prefix, sb.String(), th, prefix+4)
		if p != nil {
			viol("chain/concurrent(lin)", "panic inside poolChain pushHead/popHead/popTail under concurrency", fmt.Sprint(p))
			continue
		}
		rd.desc = fmt.Sprintf("chain prefix=%d prod=%s thieves=%v", prefix, sb.String(), th)
		if rd.suspect {
			suspects++
		}
		chainRounds = append(chainRounds, rd)
	}
	selR, selC := pick(ringRounds, keepRing), pick(chainRounds, keepChain)
	split := func(label string, rs []round, per int) {
		for i := 0; i < len(rs); i += per {
			j := i + per
			if j > len(rs) {
				j = len(rs)
			}
			batches = append(batches, linBatch{label, rs[i:j]})
		}
	}
	split("dequeue/concurrent(lin)", selR, 60)
	split("chain/concurrent(lin)", selC, 30)
	ov := 0
	for _, r := range ringRounds {
		if r.overlap > 0 {
			ov++
		}
	}
	notes["ring_rounds_run"] = len(ringRounds)
	notes["ring_rounds_with_overlapping_calls"] = ov
	notes["chain_rounds_run"] = len(chainRounds)
	notes["rounds_sent_to_coq"] = len(selR) + len(selC)
	notes["rounds_failing_go_prescreen"] = suspects
	return
}

// emitDeque writes all cases of this file.
func emitDeque(w *vhlib.Writer, rng *vhlib.Rng, thorough bool, seed uint64) {
	w.Case(fmt.Sprintf("CDeqConst %d", syncx.VerifDequeueLimit), "constants(dequeueLimit)", true, nil, map[string]interface{}{"dequeueLimit": syncx.VerifDequeueLimit})
	emitSeq := func(ctor, label string, bs []*seqBatch) {
		for _, b := range bs {
			w.Case(fmt.Sprintf("%s %s", ctor, vhlib.List(b.items)), label, b.nontrivial, b.steps, map[string]interface{}{"seed": seed, "runs": b.runs})
		}
	}
	var random, exhaustive, chains []*seqBatch
	if p, val := vhlib.Recover(func() { random, exhaustive = ringSeqBatches(rng.Fork(), thorough) }); p {
		w.Violation("dequeue/sequential(ring)", "panic in pushHead/popHead/popTail of a ring on a single goroutine", fmt.Sprint(val))
	}
	if p, val := vhlib.Recover(func() { chains = chainSeqBatches(rng.Fork(), thorough) }); p {
		w.Violation("chain/sequential", "panic in poolChain pushHead/popHead/popTail on a single goroutine", fmt.Sprint(val))
	}
	emitSeq("CDeqSeq", "dequeue/sequential(ring)", random)
	emitSeq("CDeqSeq", "dequeue/sequential(all call words)", exhaustive)
	emitSeq("CChainSeq", "chain/sequential", chains)
	batches, notes := concurrentRounds(rng.Fork(), thorough, w.Violation)
	for k, v := range notes {
		w.Notes[k] = v
	}
	for _, b := range batches {
		it := make([]string, len(b.rounds))
		steps := make([]string, len(b.rounds))
		descs := make([]string, len(b.rounds))
		for i, r := range b.rounds {
			it[i] = roundTerm(r)
			steps[i] = "round(pushHead/popHead/popTail)"
			descs[i] = r.desc
		}
		w.Case("CDeqLin "+vhlib.List(it), b.label, true, steps, map[string]interface{}{"seed": seed, "rounds": descs})
	}
}
