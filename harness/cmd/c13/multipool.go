// C13 harness, "several pools across a GOMAXPROCS ladder" (child process).
//
// K pools are alive at once; every object carries the number of the pool whose New made it (or into which the
// harness put it first), so an object that crosses from one pool to another is recognisable. The pools are created
// and filled under a SMALL GOMAXPROCS (their per-P arrays are sized then, one after the other), then GOMAXPROCS is
// raised and the creating goroutine - still on one of the old, low Ps - immediately runs every pool dry and beyond
// (Get misses reach getSlow before any new P has touched the pool); then the ladder goes down and up again with
// Get/Put bursts, finally a concurrent phase on all Ps. One complete Get/Put history PER POOL is recorded and
// decided by pool_hist_b inside Coq: 'every object returned by Get of pool i was Put into pool i or made by its New'.
// Foreign objects and ownership-flag failures are also counted here; a crash of the child is a violation.
package main

import (
	"fmt"
	"runtime"
	"sort"
	"sync"
	"sync/atomic"

	"github.com/songzhibin97/go-baseutils/sys/syncx"

	"vh/vhlib"
)

type tobj struct {
	id, born int64
	pool     int
	flag     int32
}

type multiResult struct {
	Pools    []poolResult `json:"pools"` // one history per pool
	Foreign  int          `json:"foreign"`
	Detail   string       `json:"detail"`
	Lo       int          `json:"lo"`
	Hi       []int        `json:"hi"`
	Overflow int          `json:"blocks_pushed_to_shared"`
}

func multiPool(seed uint64, idx int, thorough bool) multiResult {
	rng := vhlib.NewRng(seed).Fork()
	for i := 0; i < idx+500; i++ {
		rng = rng.Fork()
	}
	var res multiResult
	lo := rng.Range(1, 3)
	res.Lo = lo
	runtime.GOMAXPROCS(lo)
	K := rng.Range(3, 6)
	var clock, ids int64
	var foreign, flagViol int32
	var detail atomic.Value
	pools := make([]*syncx.Pool, K)
	logs := make([][]pev, K)
	var lmu sync.Mutex
	for k := 0; k < K; k++ {
		k := k
		pools[k] = &syncx.Pool{New: func() interface{} {
			return &tobj{id: atomic.AddInt64(&ids, 1), born: atomic.AddInt64(&clock, 1), pool: k}
		}}
	}
	get := func(k, who int) *tobj {
		inv := atomic.AddInt64(&clock, 1)
		x := pools[k].Get()
		resp := atomic.AddInt64(&clock, 1)
		if x == nil {
			lmu.Lock()
			logs[k] = append(logs[k], pev{inv, resp, who, 1, 0, 0})
			lmu.Unlock()
			return nil
		}
		o := x.(*tobj)
		if o.pool != k {
			atomic.AddInt32(&foreign, 1)
			detail.Store(fmt.Sprintf("Get on pool %d returned object %d, which belongs to pool %d (GOMAXPROCS %d, pools sized under %d)", k, o.id, o.pool, runtime.GOMAXPROCS(0), lo))
		}
		if !atomic.CompareAndSwapInt32(&o.flag, 0, 1) {
			atomic.AddInt32(&flagViol, 1)
			detail.Store(fmt.Sprintf("object %d (pool %d) handed out by pool %d while owned", o.id, o.pool, k))
		}
		lmu.Lock()
		logs[k] = append(logs[k], pev{inv, resp, who, 0, o.id, o.born})
		lmu.Unlock()
		return o
	}
	put := func(k, who int, o *tobj) {
		atomic.CompareAndSwapInt32(&o.flag, 1, 0)
		inv := atomic.AddInt64(&clock, 1)
		pools[o.pool].Put(o) // always back into its own pool (k == o.pool unless the pool handed out a foreign object)
		resp := atomic.AddInt64(&clock, 1)
		lmu.Lock()
		logs[o.pool] = append(logs[o.pool], pev{inv, resp, who, 2, o.id, o.born})
		lmu.Unlock()
		_ = k
	}
	// phase 1 (GOMAXPROCS lo, this goroutine only): fill every pool beyond one block, so that its shared chain holds
	// a full block another P (or an out-of-bounds walk) could pop
	fill := make([]int, K)
	for k := 0; k < K; k++ {
		fill[k] = 257 + rng.Intn(40)
		held := make([]*tobj, 0, fill[k])
		for i := 0; i < fill[k]; i++ {
			if o := get(k, 1); o != nil {
				held = append(held, o)
			}
		}
		for _, o := range held {
			put(k, 1, o)
		}
	}
	for k := 0; k < K; k++ {
		for _, l := range pools[k].VerifLocals() {
			res.Overflow += int(l.Shared)
		}
	}
	// phases 2..: ladder up, run pools dry on the old P, ladder down, bursts, up again
	ladder := procLadder()
	steps := rng.Range(2, 4)
	for s := 0; s < steps; s++ {
		hi := ladder[rng.Intn(len(ladder))]
		if hi <= lo {
			hi = lo + rng.Range(1, 2*runtime.NumCPU())
		}
		res.Hi = append(res.Hi, hi)
		runtime.GOMAXPROCS(hi)
		// no yield here: this goroutine is still on one of the first `lo` Ps
		order := rng.Perm(K)
		var all [][]*tobj
		for _, k := range order[:rng.Range(1, K)] {
			want := 40 + rng.Intn(30)
			if s == 0 {
				want = fill[k] + 5 + rng.Intn(20) // dry, then misses
			}
			held := make([]*tobj, 0, want)
			for i := 0; i < want; i++ {
				if o := get(k, 1); o != nil {
					held = append(held, o)
				}
			}
			all = append(all, held)
		}
		runtime.GOMAXPROCS(lo)
		for _, held := range all {
			for _, o := range held {
				put(o.pool, 1, o)
			}
		}
		runtime.GC()
	}
	// concurrent phase on all Ps: small bursts on every pool
	runtime.GOMAXPROCS(ladder[rng.Intn(len(ladder))])
	var wg sync.WaitGroup
	G := rng.Range(4, 10)
	for g := 0; g < G; g++ {
		wg.Add(1)
		go func(g int, r *vhlib.Rng) {
			defer wg.Done()
			for round := 0; round < 3; round++ {
				k := r.Intn(K)
				var held []*tobj
				for i := 0; i < r.Range(1, 25); i++ {
					if o := get(k, g+2); o != nil {
						held = append(held, o)
					}
				}
				runtime.Gosched()
				for _, o := range held {
					put(o.pool, g+2, o)
				}
			}
		}(g, rng.Fork())
	}
	wg.Wait()
	for k := 0; k < K; k++ {
		ev := logs[k]
		sort.Slice(ev, func(a, b int) bool { return ev[a].Inv < ev[b].Inv })
		res.Pools = append(res.Pools, poolResult{HasNew: true, Events: ev, Procs0: lo})
	}
	res.Foreign = int(atomic.LoadInt32(&foreign)) + int(atomic.LoadInt32(&flagViol))
	if d, ok := detail.Load().(string); ok {
		res.Detail = d
	}
	return res
}
