// C13 harness, "idle then collect" (child process): the pool is filled heavily from all Ps (several full blocks in
// every shared chain, private blocks partly filled), then all activity stops and >= 12 runtime.GC() cycles run with
// short sleeps, so that the pool's own gc() (active in 4 of every 8 cycles, and only on an idle pool holding more full
// blocks than there are Ps) throws chains away; then EVERY goroutine starts with Gets, followed by mixed bursts.
// Even runs record the complete Get/Put history (small GOMAXPROCS, decided by pool_hist_b inside Coq); odd runs use
// all Ps (GOMAXPROCS from the ladder) and only the ownership flag. A crash of the child is a violation.
package main

import (
	"fmt"
	"runtime"
	"sort"
	"sync"
	"sync/atomic"
	"time"

	"github.com/songzhibin97/go-baseutils/sys/syncx"

	"vh/vhlib"
)

func poolIdle(seed uint64, idx int, thorough bool) poolResult {
	rng := vhlib.NewRng(seed).Fork()
	for i := 0; i < idx+400; i++ {
		rng = rng.Fork()
	}
	var res poolResult
	res.HasNew = true
	res.Idle = true
	record := idx%2 == 0
	procs, G, fill := 2, 4, 300
	if record {
		if rng.Chance(1, 3) {
			procs, G, fill = 3, 6, 285
		}
	} else {
		ladder := procLadder()
		procs = ladder[rng.Intn(len(ladder))]
		if procs < 2 {
			procs = 2
		}
		G, fill = 3*procs, rng.Range(520, 700)
	}
	runtime.GOMAXPROCS(procs)
	res.Procs0, res.Goroutines, res.MaxBurst = procs, G, fill
	var clock, ids int64
	var flagViol int32
	var flagDetail atomic.Value
	pool := &syncx.Pool{New: func() interface{} {
		return &pobj{id: atomic.AddInt64(&ids, 1), born: atomic.AddInt64(&clock, 1)}
	}}
	logs := make([][]pev, G)
	get := func(g int, lg *[]pev) *pobj {
		inv := atomic.AddInt64(&clock, 1)
		x := pool.Get()
		resp := atomic.AddInt64(&clock, 1)
		if x == nil {
			if record {
				*lg = append(*lg, pev{inv, resp, g + 1, 1, 0, 0})
			}
			atomic.AddInt32(&flagViol, 1)
			flagDetail.Store("Get returned nil although New is set")
			return nil
		}
		o := x.(*pobj)
		if !atomic.CompareAndSwapInt32(&o.flag, 0, 1) {
			atomic.AddInt32(&flagViol, 1)
			flagDetail.Store(fmt.Sprintf("object %d handed to goroutine %d while owned (Get stamps %d..%d)", o.id, g+1, inv, resp))
		}
		if record {
			*lg = append(*lg, pev{inv, resp, g + 1, 0, o.id, o.born})
		}
		return o
	}
	put := func(g int, o *pobj, lg *[]pev) {
		atomic.CompareAndSwapInt32(&o.flag, 1, 0)
		inv := atomic.AddInt64(&clock, 1)
		pool.Put(o)
		resp := atomic.AddInt64(&clock, 1)
		if record {
			*lg = append(*lg, pev{inv, resp, g + 1, 2, o.id, o.born})
		}
	}
	var wg sync.WaitGroup
	// phase 1: fill (every goroutine gets `fill` fresh objects and puts them all back)
	for g := 0; g < G; g++ {
		wg.Add(1)
		go func(g int) {
			defer wg.Done()
			held := make([]*pobj, 0, fill)
			for i := 0; i < fill; i++ {
				if o := get(g, &logs[g]); o != nil {
					held = append(held, o)
				}
				if i%64 == 0 {
					runtime.Gosched() // spread over the Ps
				}
			}
			for _, o := range held {
				put(g, o, &logs[g])
			}
		}(g)
	}
	wg.Wait()
	blocks := func() (n int, privates int) {
		for _, l := range pool.VerifLocals() {
			n += int(l.Shared)
			if l.Pidx > 0 {
				privates++
			}
		}
		return
	}
	res.BlocksBefore, res.PrivatesBefore = blocks()
	// phase 2: idle; forced collections with short sleeps (no Get, no Put, no New)
	ngc := 12 + rng.Intn(6)
	for i := 0; i < ngc; i++ {
		runtime.GC()
		res.GCs++
		time.Sleep(time.Duration(rng.Range(50, 600)) * time.Microsecond)
	}
	res.BlocksAfter, _ = blocks()
	// phase 3: every goroutine (more than Ps) starts with Gets, then mixed bursts
	after := 90
	if !record {
		after = 400
	}
	var start sync.WaitGroup
	start.Add(1)
	for g := 0; g < G; g++ {
		wg.Add(1)
		go func(g int, r *vhlib.Rng) {
			defer wg.Done()
			start.Wait()
			var held []*pobj
			for i := 0; i < r.Range(after/2, after); i++ {
				if o := get(g, &logs[g]); o != nil {
					held = append(held, o)
				}
				if i%16 == 0 {
					runtime.Gosched()
				}
			}
			for round := 0; round < 3; round++ {
				for len(held) > 0 && r.Chance(3, 4) {
					j := r.Intn(len(held))
					put(g, held[j], &logs[g])
					held = append(held[:j], held[j+1:]...)
				}
				runtime.Gosched()
				for i := 0; i < r.Range(1, after/3); i++ {
					if o := get(g, &logs[g]); o != nil {
						held = append(held, o)
					}
				}
			}
			for _, o := range held {
				put(g, o, &logs[g])
			}
		}(g, rng.Fork())
	}
	start.Done()
	wg.Wait()
	for _, l := range logs {
		res.Events = append(res.Events, l...)
	}
	sort.Slice(res.Events, func(a, b int) bool { return res.Events[a].Inv < res.Events[b].Inv })
	res.FlagViolations = int(atomic.LoadInt32(&flagViol))
	if d, ok := flagDetail.Load().(string); ok {
		res.FlagDetail = d
	}
	return res
}
