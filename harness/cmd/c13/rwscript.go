// C13 harness, scripted RWMutex rounds across GOMAXPROCS changes (child processes; deterministic protocol, not a storm).
//
// syncx.RWMutex has one sync.RWMutex shard per P that existed at package init; RLocker() hands out the read side of
// the shard of the P the caller runs on, Lock()/Unlock() must take EVERY shard whatever GOMAXPROCS is now.
//
//	rwlower: the child starts with the machine's GOMAXPROCS (shards = that). At that GOMAXPROCS, with all Ps kept busy,
//	         goroutines call RLocker() until a locker of every shard has been seen (a locker is recognised by identity
//	         with m[i].RWMutex.RLocker(); indexes not seen in time are taken from that expression directly). Then
//	         GOMAXPROCS is lowered to 1, 2 and half, and for EVERY shard i the exclusion protocol runs in both orders.
//	         A few rounds lower GOMAXPROCS while the reader already holds its lock.
//	rwraise: the child is started with GOMAXPROCS=2 in its environment (2 shards). GOMAXPROCS is raised to NumCPU+2,
//	         all Ps are kept busy, goroutines call RLocker() afresh on whatever P they run on; the protocol runs for
//	         every distinct locker obtained (lockers that are none of the mutex's shards included).
//
// Protocol, reader first: the reader takes locker.Lock() and raises readerIn; the writer announces itself and calls
// m.Lock(); the reader keeps holding for a few milliseconds after the announcement (or until the writer got in);
// inside its critical section the writer counts an overlap if readerIn is still raised. Writer first: symmetric.
// After the release the blocked party must get in (watchdog). The overlap counter is the CRW case judged in Coq.
package main

import (
	"runtime"
	"sync"
	"sync/atomic"
	"time"

	"github.com/songzhibin97/go-baseutils/sys/syncx"
)

type rwScriptResult struct {
	rwResult
	Direction   string `json:"direction"`
	Harvested   int    `json:"lockers_harvested_through_RLocker"`
	Constructed int    `json:"lockers_taken_from_the_shard_directly"`
	Foreign     int    `json:"lockers_that_are_no_shard_of_the_mutex"`
	Rounds      int    `json:"rounds"`
	Stuck       int    `json:"blocked_party_did_not_get_in"`
	Detail      string `json:"detail"`
}

type rwProto struct {
	m                  syncx.RWMutex
	readerIn, writerIn int32
	res                *rwScriptResult
}

const rwHold = 2 * time.Millisecond

// waitAttempt: wait until *attempting is set, then up to rwHold more (less if *acquired shows the other party got in)
func waitAttempt(attempting, acquired *int32) {
	for atomic.LoadInt32(attempting) == 0 {
		time.Sleep(20 * time.Microsecond)
	}
	t0 := time.Now()
	for time.Since(t0) < rwHold && atomic.LoadInt32(acquired) == 0 {
		time.Sleep(50 * time.Microsecond)
	}
}

func (p *rwProto) readerFirst(l sync.Locker, lowerTo int) {
	p.res.Rounds++
	rel, held, rDone, wDone := make(chan struct{}), make(chan struct{}), make(chan struct{}), make(chan struct{})
	go func() {
		l.Lock()
		atomic.StoreInt32(&p.readerIn, 1)
		close(held)
		<-rel
		atomic.StoreInt32(&p.readerIn, 0)
		l.Unlock()
		atomic.AddInt64(&p.res.Reads, 1)
		close(rDone)
	}()
	<-held
	if lowerTo > 0 {
		runtime.GOMAXPROCS(lowerTo) // lowered while the reader holds its lock
	}
	var attempting, acquired int32
	go func() {
		atomic.StoreInt32(&attempting, 1)
		p.m.Lock()
		if atomic.LoadInt32(&p.readerIn) == 1 {
			atomic.AddInt64(&p.res.RW, 1)
		}
		atomic.StoreInt32(&acquired, 1)
		p.m.Unlock()
		atomic.AddInt64(&p.res.Writes, 1)
		close(wDone)
	}()
	waitAttempt(&attempting, &acquired)
	close(rel)
	<-rDone
	select {
	case <-wDone:
	case <-time.After(5 * time.Second):
		p.res.Stuck++
		p.res.Deadlock = true
	}
}

func (p *rwProto) writerFirst(l sync.Locker) {
	p.res.Rounds++
	rel, held, rDone, wDone := make(chan struct{}), make(chan struct{}), make(chan struct{}), make(chan struct{})
	go func() {
		p.m.Lock()
		atomic.StoreInt32(&p.writerIn, 1)
		close(held)
		<-rel
		atomic.StoreInt32(&p.writerIn, 0)
		p.m.Unlock()
		atomic.AddInt64(&p.res.Writes, 1)
		close(wDone)
	}()
	<-held
	var attempting, acquired int32
	go func() {
		atomic.StoreInt32(&attempting, 1)
		l.Lock()
		if atomic.LoadInt32(&p.writerIn) == 1 {
			atomic.AddInt64(&p.res.RW, 1)
		}
		atomic.StoreInt32(&acquired, 1)
		l.Unlock()
		atomic.AddInt64(&p.res.Reads, 1)
		close(rDone)
	}()
	waitAttempt(&attempting, &acquired)
	close(rel)
	<-wDone
	select {
	case <-rDone:
	case <-time.After(5 * time.Second):
		p.res.Stuck++
		p.res.Deadlock = true
	}
}

// shardOf: index of the shard whose read side l is, or -1
func shardOf(m syncx.RWMutex, l sync.Locker) int {
	for i := range m {
		if m[i].RWMutex.RLocker() == l {
			return i
		}
	}
	return -1
}

// harvest: goroutines on all Ps call m.RLocker() for at most d; returns the distinct lockers seen (by shard index,
// and up to 8 that are no shard of m)
func harvest(m syncx.RWMutex, d time.Duration, wantAll bool) (byShard map[int]sync.Locker, foreign []sync.Locker) {
	byShard = map[int]sync.Locker{}
	var mu sync.Mutex
	stop := make(chan struct{})
	burn := startBurners(2*runtime.GOMAXPROCS(0), stop)
	var wg sync.WaitGroup
	deadline := time.Now().Add(d)
	var done int32
	for g := 0; g < 4*runtime.GOMAXPROCS(0); g++ {
		wg.Add(1)
		go func() {
			defer wg.Done()
			for time.Now().Before(deadline) && atomic.LoadInt32(&done) == 0 {
				l := m.RLocker()
				i := shardOf(m, l)
				mu.Lock()
				if i >= 0 {
					byShard[i] = l
					if wantAll && len(byShard) == len(m) {
						atomic.StoreInt32(&done, 1)
					}
				} else if len(foreign) < 8 {
					foreign = append(foreign, l)
				}
				mu.Unlock()
				runtime.Gosched()
			}
		}()
	}
	wg.Wait()
	close(stop)
	burn.Wait()
	return
}

func rwScript(direction string) rwScriptResult {
	var res rwScriptResult
	res.Direction = direction
	m := syncx.NewRWMutex()
	res.Shards = m.VerifShards()
	p := &rwProto{m: m, res: &res}
	ncpu := runtime.NumCPU()
	if direction == "lower" {
		n := len(m)
		byShard, foreign := harvest(m, 1500*time.Millisecond, true)
		res.Harvested, res.Foreign = len(byShard), len(foreign)
		lockers := make([]sync.Locker, n)
		for i := 0; i < n; i++ {
			if l, ok := byShard[i]; ok {
				lockers[i] = l
			} else {
				lockers[i] = m[i].RWMutex.RLocker()
				res.Constructed++
			}
		}
		steps := []int{1, 2}
		if n/2 > 2 {
			steps = append(steps, n/2)
		}
		for _, g := range steps {
			runtime.GOMAXPROCS(g)
			for i := 0; i < n; i++ {
				p.readerFirst(lockers[i], 0)
				p.writerFirst(lockers[i])
			}
		}
		// GOMAXPROCS lowered while the reader holds the lock of a high shard
		for _, i := range []int{n - 1, n / 2, 1 % n, (n*3)/4 - 0} {
			runtime.GOMAXPROCS(n)
			p.readerFirst(lockers[i%n], 1)
		}
		for _, l := range foreign {
			p.readerFirst(l, 0)
		}
		runtime.GOMAXPROCS(n)
		return res
	}
	// raise
	hi := ncpu + 2
	if hi < len(m)+4 {
		hi = len(m) + 4
	}
	runtime.GOMAXPROCS(hi)
	byShard, foreign := harvest(m, 400*time.Millisecond, false)
	res.Harvested, res.Foreign = len(byShard), len(foreign)
	for _, g := range []int{hi, 1} {
		runtime.GOMAXPROCS(g)
		for i := 0; i < len(m); i++ {
			l, ok := byShard[i]
			if !ok {
				l = m[i].RWMutex.RLocker()
				if g == hi {
					res.Constructed++
				}
			}
			p.readerFirst(l, 0)
			p.writerFirst(l)
		}
		for _, l := range foreign {
			p.readerFirst(l, 0)
			p.writerFirst(l)
		}
	}
	if len(foreign) > 0 {
		res.Detail = "RLocker() returned locks that are none of the mutex's shards (P id beyond the shard count)"
	}
	return res
}
