// C15 harness: JSON round trips of every container with MarshalJSON/UnmarshalJSON (and the bslice / bmap / bcache
// delegations).  A source container is built by a random operation sequence, marshalled, the bytes are checked with
// json.Valid and parsed, decoded into a fresh container of the same type, and the restored container is driven by
// further operations.  Everything observed is written as Coq cases for C15/Check.v.
package main

import (
	"bytes"
	"encoding/json"
	"fmt"
	"math"
	"sort"
	"strings"

	"github.com/songzhibin97/go-baseutils/app/bcache"
	"github.com/songzhibin97/go-baseutils/base/banytostring"
	"github.com/songzhibin97/go-baseutils/base/bcomparator"
	"github.com/songzhibin97/go-baseutils/base/bmap"
	"github.com/songzhibin97/go-baseutils/base/bslice"
	"github.com/songzhibin97/go-baseutils/structure/lists/arraylist"
	"github.com/songzhibin97/go-baseutils/structure/lists/doublylinkedlist"
	"github.com/songzhibin97/go-baseutils/structure/lists/singlylinkedlist"
	"github.com/songzhibin97/go-baseutils/structure/maps/hashbidimap"
	"github.com/songzhibin97/go-baseutils/structure/maps/hashmap"
	"github.com/songzhibin97/go-baseutils/structure/maps/linkedhashmap"
	"github.com/songzhibin97/go-baseutils/structure/maps/treebidimap"
	"github.com/songzhibin97/go-baseutils/structure/maps/treemap"
	"github.com/songzhibin97/go-baseutils/structure/queues/arrayqueue"
	"github.com/songzhibin97/go-baseutils/structure/queues/circularbuffer"
	"github.com/songzhibin97/go-baseutils/structure/queues/linkedlistqueue"
	"github.com/songzhibin97/go-baseutils/structure/queues/priorityqueue"
	"github.com/songzhibin97/go-baseutils/structure/sets/hashset"
	"github.com/songzhibin97/go-baseutils/structure/sets/linkedhashset"
	"github.com/songzhibin97/go-baseutils/structure/sets/treeset"
	"github.com/songzhibin97/go-baseutils/structure/stacks/arraystack"
	"github.com/songzhibin97/go-baseutils/structure/stacks/linkedliststack"
	"github.com/songzhibin97/go-baseutils/structure/trees/avltree"
	"github.com/songzhibin97/go-baseutils/structure/trees/binaryheap"
	"github.com/songzhibin97/go-baseutils/structure/trees/btree"
	"github.com/songzhibin97/go-baseutils/structure/trees/redblacktree"

	"vh/vhlib"
)

// ---------- JSON bytes -> Coq jval ----------

func jstr(s string) string { return "JStr " + vhlib.Bytes([]byte(s)) }

func parseVal(dec *json.Decoder) (string, error) {
	tok, err := dec.Token()
	if err != nil {
		return "", err
	}
	switch t := tok.(type) {
	case json.Delim:
		if t == '[' {
			var items []string
			for dec.More() {
				v, err := parseVal(dec)
				if err != nil {
					return "", err
				}
				items = append(items, v)
			}
			if _, err := dec.Token(); err != nil {
				return "", err
			}
			return "(JArr " + vhlib.List(items) + ")", nil
		}
		var ms []string
		for dec.More() {
			nt, err := dec.Token()
			if err != nil {
				return "", err
			}
			name, ok := nt.(string)
			if !ok {
				return "", fmt.Errorf("member name is not a string")
			}
			v, err := parseVal(dec)
			if err != nil {
				return "", err
			}
			ms = append(ms, "("+jstr(name)+", "+v+")")
		}
		if _, err := dec.Token(); err != nil {
			return "", err
		}
		return "(JObj " + vhlib.List(ms) + ")", nil
	case string:
		return "(" + jstr(t) + ")", nil
	case json.Number:
		var z int64
		if _, err := fmt.Sscan(t.String(), &z); err != nil || fmt.Sprint(z) != t.String() {
			return "(JStr [110; 117; 109])", nil // a non-integer number: never produced by these containers
		}
		return "(JNum " + vhlib.Z(z) + ")", nil
	case bool:
		return "(JBool " + vhlib.Bool(t) + ")", nil
	case nil:
		return "JNull", nil
	}
	return "", fmt.Errorf("unexpected token")
}

func jvalTerm(data []byte) (string, bool) {
	if !json.Valid(data) {
		return "JNull", false
	}
	dec := json.NewDecoder(bytes.NewReader(data))
	dec.UseNumber()
	t, err := parseVal(dec)
	if err != nil {
		return "JNull", false
	}
	return t, true
}

// ---------- element universes ----------

// Elements are identified by their deep content: the number of a value is the place, in the universe, of the value with
// the same canonical JSON text (so a decoded copy of a struct / slice / pointee / map gets the number of the original,
// and a stale, merged or aliased value gets the number of another class, or -7 when it is in no class at all).
type dom[E any] struct {
	tname   string
	univ    []E
	ids     map[string]int64
	desc    []string
	zeroKey string
	scalar  bool // int / string: banytostring.ToString is part of the codec (member names of hashmap)
}

func contentKey[E any](x E) string {
	b, err := json.Marshal(x)
	if err != nil {
		return "!" + err.Error()
	}
	return string(b)
}

func newDom[E any](tname string, univ []E) *dom[E] {
	var zero E
	d := &dom[E]{tname: tname, univ: univ, ids: map[string]int64{}, zeroKey: contentKey(zero), scalar: true}
	for i, k := range univ {
		d.ids[contentKey(k)] = int64(i)
		d.desc = append(d.desc, fmt.Sprintf("%#v", k))
	}
	return d
}
func (d *dom[E]) id(x E) int64 {
	k := contentKey(x)
	if v, ok := d.ids[k]; ok {
		return v
	}
	if k == d.zeroKey {
		return -1
	}
	return -7
}
func (d *dom[E]) list(xs []E) string {
	it := make([]string, len(xs))
	for i, x := range xs {
		it[i] = vhlib.Z(d.id(x))
	}
	return vhlib.List(it)
}

// what the real encoding/json and banytostring produce for every element of the universe
func (d *dom[E]) codec(wrap func(E) interface{}) string {
	var cj, ct, cs []string
	for _, x := range d.univ {
		var v interface{} = x
		if wrap != nil {
			v = wrap(x)
		}
		b, _ := json.Marshal(v)
		t, _ := jvalTerm(b)
		cj = append(cj, t)
		ct = append(ct, vhlib.Bytes(b))
		if d.scalar {
			cs = append(cs, vhlib.Bytes([]byte(banytostring.ToString(x))))
		} else {
			cs = append(cs, vhlib.Bytes(b)) // ToString is never applied to values: keep the table injective
		}
	}
	return fmt.Sprintf("{| cj := %s; ct := %s; cs := %s |}", vhlib.List(cj), vhlib.List(ct), vhlib.List(cs))
}

// strings with quotes, backslashes, non-ASCII, JSON-looking text, text that is a key elsewhere, HTML-escaped characters
var strPool = []string{"", "a", "b", "c", "ab", "a\"b", "\\", "a\\b", "é", "日本", "a b", "1", "10", "\"a\"", "{\"a\":1}", "<x>", "a\n", "null", "true"}

// hostile characters: every C0 control (NUL, BEL, VT, ESC, ... - only \b \f \n \r \t have short JSON escapes), DEL, C1 NEL,
// the line / paragraph separators encoding/json escapes, the replacement character itself, non-printable and last astral code points.
// All valid UTF-8: encoding/json replaces invalid bytes by U+FFFD, so such strings cannot round-trip through ANY JSON encoder and are
// outside the property's reach (said in the level note).
var hostilePool = []string{"\x00", "\x1b[31mred\x1b[0m", "\a", "\v", "\x7f", "a\x01\x02\x03b", "\x04\x05\x06", "\b\t\n\f\r", "\x0e\x0f\x10\x11",
	"\x12\x13\x14\x15", "\x16\x17\x18\x19", "\x1a\x1c\x1d\x1e\x1f", "\u0085", "\u2028", "a\u2029b", "\ufffd", "\U000e0001", "\U0010ffff", "x\x00y", "\x7f\x1b"}

func init() { strPool = append(strPool, hostilePool...) }

func intDom(rng *vhlib.Rng, u int, nozero bool) *dom[int] {
	var univ []int
	switch rng.Intn(3) {
	case 0:
		pool := []int{math.MinInt64, -1 << 53, -10, -1, 0, 1, 10, 11, 1 << 53, math.MaxInt64}
		p := rng.Perm(len(pool))
		for i := 0; len(univ) < u && i < len(pool); i++ {
			if nozero && pool[p[i]] == 0 {
				continue
			}
			univ = append(univ, pool[p[i]])
		}
	default:
		x := rng.Intn(3)
		if nozero && x == 0 {
			x = 1
		}
		for i := 0; i < u; i++ {
			univ = append(univ, x)
			x += 1 + rng.Intn(9)
		}
	}
	sort.Ints(univ)
	return newDom("int", univ)
}
func strDom(rng *vhlib.Rng, u int, nozero bool) *dom[string] {
	p := rng.Perm(len(strPool))
	var univ []string
	for i := 0; len(univ) < u && i < len(strPool); i++ {
		if nozero && strPool[p[i]] == "" {
			continue
		}
		univ = append(univ, strPool[p[i]])
	}
	sort.Strings(univ)
	return newDom("string", univ)
}

// ---------- sequence-like containers ----------

type jsonAPI interface {
	MarshalJSON() ([]byte, error)
	UnmarshalJSON([]byte) error
}
type seqInst[E any] struct {
	insName, delName string
	ins              func(E)
	del              func() (E, bool)
	delAt            func(int)
	delVal           func(E)
	values           func() []E
	marshal          func() ([]byte, error)
	unmarshal        func([]byte) error
	rep              func() string
}
type seqKind[E any] struct {
	name, path string
	disc       func(cap int) string
	jrev, ring bool
	mk         func(cap int) *seqInst[E]
}

type listAPI[E any] interface {
	jsonAPI
	Add(...E)
	Remove(int)
	Values() []E
}
type stackAPI[E any] interface {
	jsonAPI
	Push(E)
	Pop() (E, bool)
	Values() []E
}
type queueAPI[E any] interface {
	jsonAPI
	Enqueue(E)
	Dequeue() (E, bool)
	Values() []E
}
type heapAPI[E any] interface {
	jsonAPI
	Push(...E)
	Pop() (E, bool)
	Values() []E
}
type setAPI[E any] interface {
	jsonAPI
	Add(...E)
	Remove(...E)
	Values() []E
}

func repOf[E any](d *dom[E], c interface{}) func() string {
	return func() string {
		if x, ok := c.(interface{ VerifLenCap() (int, int, int) }); ok {
			l, cp, sz := x.VerifLenCap()
			return fmt.Sprintf("(RArr %d %d %d)", l, cp, sz)
		}
		if x, ok := c.(interface {
			VerifRing() ([]E, int, int, bool, int, int)
		}); ok {
			vals, st, en, full, size, mx := x.VerifRing()
			return fmt.Sprintf("(RRing %s %d %d %s %d %d)", d.list(vals), st, en, vhlib.Bool(full), size, mx)
		}
		return "RNone"
	}
}
func fromList[E any](d *dom[E], l listAPI[E]) *seqInst[E] {
	return &seqInst[E]{insName: "Add", delName: "Remove", ins: func(x E) { l.Add(x) }, delAt: l.Remove, values: l.Values,
		marshal: l.MarshalJSON, unmarshal: l.UnmarshalJSON, rep: repOf(d, l)}
}
func fromStack[E any](d *dom[E], s stackAPI[E]) *seqInst[E] {
	return &seqInst[E]{insName: "Push", delName: "Pop", ins: s.Push, del: s.Pop, values: s.Values,
		marshal: s.MarshalJSON, unmarshal: s.UnmarshalJSON, rep: repOf(d, s)}
}
func fromQueue[E any](d *dom[E], q queueAPI[E]) *seqInst[E] {
	return &seqInst[E]{insName: "Enqueue", delName: "Dequeue", ins: q.Enqueue, del: q.Dequeue, values: q.Values,
		marshal: q.MarshalJSON, unmarshal: q.UnmarshalJSON, rep: repOf(d, q)}
}
func fromHeap[E any](d *dom[E], h heapAPI[E]) *seqInst[E] {
	return &seqInst[E]{insName: "Push", delName: "Pop", ins: func(x E) { h.Push(x) }, del: h.Pop, values: h.Values,
		marshal: h.MarshalJSON, unmarshal: h.UnmarshalJSON, rep: repOf(d, h)}
}
func fromSet[E any](d *dom[E], s setAPI[E]) *seqInst[E] {
	return &seqInst[E]{insName: "Add", delName: "Remove", ins: func(x E) { s.Add(x) }, delVal: func(x E) { s.Remove(x) }, values: s.Values,
		marshal: s.MarshalJSON, unmarshal: s.UnmarshalJSON, rep: repOf(d, s)}
}

func constDisc(s string) func(int) string { return func(int) string { return s } }

// every array-like container whose element type is free (cmp: the comparator of the heap / priority queue / treeset)
func seqKindsAny[E any](d *dom[E], cmp bcomparator.Comparator[E]) []seqKind[E] {
	k := func(name, path, disc string, jrev bool, mk func(cap int) *seqInst[E]) seqKind[E] {
		return seqKind[E]{name: name, path: path, disc: constDisc(disc), jrev: jrev, mk: mk}
	}
	ks := []seqKind[E]{
		k("arraylist", "PArray", "DList", false, func(int) *seqInst[E] { return fromList[E](d, arraylist.New[E]()) }),
		k("arraylist.Safe", "PArray", "DList", false, func(int) *seqInst[E] { return fromList[E](d, arraylist.NewSafe[E]()) }),
		k("doublylinkedlist", "PLinked", "DList", false, func(int) *seqInst[E] { return fromList[E](d, doublylinkedlist.New[E]()) }),
		k("doublylinkedlist.Safe", "PLinked", "DList", false, func(int) *seqInst[E] { return fromList[E](d, doublylinkedlist.NewSafe[E]()) }),
		k("singlylinkedlist", "PLinked", "DList", false, func(int) *seqInst[E] { return fromList[E](d, singlylinkedlist.New[E]()) }),
		k("singlylinkedlist.Safe", "PLinked", "DList", false, func(int) *seqInst[E] { return fromList[E](d, singlylinkedlist.NewSafe[E]()) }),
		k("arraystack", "PArray", "DStack", true, func(int) *seqInst[E] { return fromStack[E](d, arraystack.New[E]()) }),
		k("arraystack.Safe", "PArray", "DStack", true, func(int) *seqInst[E] { return fromStack[E](d, arraystack.NewSafe[E]()) }),
		k("linkedliststack", "PLinked", "DStack", false, func(int) *seqInst[E] { return fromStack[E](d, linkedliststack.New[E]()) }),
		k("linkedliststack.Safe", "PLinked", "DStack", false, func(int) *seqInst[E] { return fromStack[E](d, linkedliststack.NewSafe[E]()) }),
		k("arrayqueue", "PArray", "DQueue", false, func(int) *seqInst[E] { return fromQueue[E](d, arrayqueue.New[E]()) }),
		k("arrayqueue.Safe", "PArray", "DQueue", false, func(int) *seqInst[E] { return fromQueue[E](d, arrayqueue.NewSafe[E]()) }),
		k("linkedlistqueue", "PLinked", "DQueue", false, func(int) *seqInst[E] { return fromQueue[E](d, linkedlistqueue.New[E]()) }),
		k("linkedlistqueue.Safe", "PLinked", "DQueue", false, func(int) *seqInst[E] { return fromQueue[E](d, linkedlistqueue.NewSafe[E]()) }),
		k("binaryheap", "PArray", "DHeap", false, func(int) *seqInst[E] { return fromHeap[E](d, binaryheap.NewWith[E](cmp)) }),
		k("binaryheap.Safe", "PArray", "DHeap", false, func(int) *seqInst[E] { return fromHeap[E](d, binaryheap.NewSafeWith[E](cmp)) }),
		k("priorityqueue", "PArray", "DHeap", false, func(int) *seqInst[E] { return fromQueue[E](d, priorityqueue.NewWith[E](cmp)) }),
		k("priorityqueue.Safe", "PArray", "DHeap", false, func(int) *seqInst[E] { return fromQueue[E](d, priorityqueue.NewSafeWith[E](cmp)) }),
		k("treeset", "PSetTree", "DSetTree", false, func(int) *seqInst[E] { return fromSet[E](d, treeset.NewWith[E](cmp)) }),
		k("treeset.Safe", "PSetTree", "DSetTree", false, func(int) *seqInst[E] { return fromSet[E](d, treeset.NewSafeWith[E](cmp)) }),
		k("bslice.UnsafeAnyBSlice", "PLinked", "DList", false, func(int) *seqInst[E] {
			s := bslice.NewUnsafeAnyBSlice[E]()
			return &seqInst[E]{insName: "Append", ins: func(x E) { s.Append(x) }, values: s.ToMetaSlice, marshal: s.Marshal, unmarshal: s.Unmarshal, rep: repOf(d, s)}
		}),
		k("bslice.SafeAnyBSlice", "PLinked", "DList", false, func(int) *seqInst[E] {
			s := bslice.NewSafeAnyBSlice[E]()
			return &seqInst[E]{insName: "Append", ins: func(x E) { s.Append(x) }, values: s.ToMetaSlice, marshal: s.Marshal, unmarshal: s.Unmarshal, rep: repOf(d, s)}
		}),
	}
	ring := func(name string, mk func(cap int) *seqInst[E]) seqKind[E] {
		return seqKind[E]{name: name, path: "PRing", disc: func(c int) string { return fmt.Sprintf("(DRing %d)", c) }, ring: true, mk: mk}
	}
	ks = append(ks,
		ring("circularbuffer", func(c int) *seqInst[E] { return fromQueue[E](d, circularbuffer.New[E](c)) }),
		ring("circularbuffer.Safe", func(c int) *seqInst[E] { return fromQueue[E](d, circularbuffer.NewSafe[E](c)) }))
	return ks
}

// the sets whose element type must be comparable (Go map keys)
func seqKindsEq[E comparable](d *dom[E]) []seqKind[E] {
	k := func(name, path, disc string, jrev bool, mk func(cap int) *seqInst[E]) seqKind[E] {
		return seqKind[E]{name: name, path: path, disc: constDisc(disc), jrev: jrev, mk: mk}
	}
	return []seqKind[E]{
		k("hashset", "PSetHash", "DSetHash", false, func(int) *seqInst[E] { return fromSet[E](d, hashset.New[E]()) }),
		k("hashset.Safe", "PSetHash", "DSetHash", false, func(int) *seqInst[E] { return fromSet[E](d, hashset.VerifNewSafe[E]()) }),
		k("linkedhashset", "PSetLinked", "DSetLinked", false, func(int) *seqInst[E] { return fromSet[E](d, linkedhashset.New[E]()) }),
		k("linkedhashset.Safe", "PSetLinked", "DSetLinked", false, func(int) *seqInst[E] { return fromSet[E](d, linkedhashset.NewSafe[E]()) }),
	}
}
func seqKinds[E comparable](d *dom[E], cmp bcomparator.Comparator[E]) []seqKind[E] {
	return append(seqKindsAny[E](d, cmp), seqKindsEq[E](d)...)
}

// chooses one random operation on a sequence-like container: Coq qop term, step label, history text, and the call itself
// (which returns the Coq term of the operation's result)
func seqOp[E any](rng *vhlib.Rng, d *dom[E], c *seqInst[E], insBias int) (term, lab, h string, call func() string) {
	n := len(c.values())
	r := rng.Intn(10)
	switch {
	case r < insBias || (c.del == nil && c.delAt == nil && c.delVal == nil):
		x := rng.Intn(len(d.univ))
		return fmt.Sprintf("QIns %d", x), c.insName, fmt.Sprintf("%s(%s)", c.insName, d.desc[x]), func() string { c.ins(d.univ[x]); return "None" }
	case c.del != nil:
		return "QDel", c.delName, c.delName + "()", func() string {
			if v, ok := c.del(); ok {
				return "(Some " + vhlib.Z(d.id(v)) + ")"
			}
			return "None"
		}
	case c.delAt != nil:
		i := rng.Intn(n+3) - 1
		return fmt.Sprintf("QDelAt %s", vhlib.Z(int64(i))), c.delName, fmt.Sprintf("%s(%d)", c.delName, i), func() string { c.delAt(i); return "None" }
	default:
		x := rng.Intn(len(d.univ))
		return fmt.Sprintf("QDelVal %d", x), c.delName, fmt.Sprintf("%s(%s)", c.delName, d.desc[x]), func() string { c.delVal(d.univ[x]); return "None" }
	}
}

func runSeq[E any](w *vhlib.Writer, rng *vhlib.Rng, d *dom[E], k seqKind[E]) {
	capn := 1 + rng.Intn(5)
	src := k.mk(capn)
	// source: arbitrary operation sequence, so that the internal layout varies
	nops := rng.Intn(14)
	if k.ring && rng.Bool() {
		nops = capn + rng.Intn(2*capn+2) // wrap around
	}
	hist, ok := buildSeq(rng, d, src, nops, 7)
	if !ok {
		return // a panic while building the source is not a JSON matter (other properties own it): skip the case
	}
	roundTripSeq(w, rng, d, k, capn, src, k.name+"["+d.tname+"]", hist)
}

func buildSeq[E any](rng *vhlib.Rng, d *dom[E], c *seqInst[E], nops, insBias int) (hist []string, ok bool) {
	panicked, _ := vhlib.Recover(func() {
		for i := 0; i < nops; i++ {
			_, _, h, call := seqOp(rng, d, c, insBias)
			hist = append(hist, h)
			call()
		}
	})
	return hist, !panicked
}

// A document written by one container (a ring of any capacity, or an array list) decoded into a fresh ring whose capacity is
// smaller than, equal to or larger than the document's length: UnmarshalJSON enqueues the values one by one, so the ring must end
// up with the last min(capacity, n) values, oldest first.
func runRingCross[E any](w *vhlib.Writer, rng *vhlib.Rng, d *dom[E], ring, producer seqKind[E], mode int) {
	pcap := 1 + rng.Intn(8)
	src := producer.mk(pcap)
	src.ins(d.univ[rng.Intn(len(d.univ))]) // never the nil backing slice of an unused array list (written as null)
	hist, ok := buildSeq(rng, d, src, rng.Intn(12), 8)
	if !ok {
		return
	}
	n := len(src.values())
	capn := n
	switch {
	case mode == 0 && n >= 2:
		capn = 1 + rng.Intn(n-1) // document longer than the buffer
	case mode == 2 || n == 0:
		capn = n + 1 + rng.Intn(3)
	}
	from := producer.name
	if producer.ring {
		from = fmt.Sprintf("%s(cap %d)", producer.name, pcap)
	}
	hist = append([]string{"document written by " + from}, hist...)
	roundTripSeq(w, rng, d, ring, capn, src, ring.name+"["+d.tname+"]<-"+producer.name, hist)
}

// A document NOT written by the target's own MarshalJSON, decoded into a fresh container of kind k: an array written by an array list
// (any order, repeated elements), or null.  Lists, stacks and queues must hold the array's elements in order, sets each element once
// (linked set: first-occurrence order; tree set: sorted).  Not for the heaps: they adopt the array as it is, a non-heap array included.
func runForeign[E any](w *vhlib.Writer, rng *vhlib.Rng, d *dom[E], k, arraylistKind seqKind[E], null bool) {
	capn := 1 + rng.Intn(5)
	prod := arraylistKind.mk(0)
	var hist []string
	from := "arraylist"
	if null {
		from = "null"
		prod = &seqInst[E]{values: func() []E { return nil }, marshal: func() ([]byte, error) { return []byte("null"), nil }}
	} else {
		prod.ins(d.univ[rng.Intn(len(d.univ))])
		var ok bool
		if hist, ok = buildSeq(rng, d, prod, rng.Intn(10), 8); !ok {
			return
		}
	}
	src := *prod
	if k.jrev { // the target writes / reads its array in the reverse of Values()
		vals := prod.values
		src.values = func() []E {
			v := vals()
			r := make([]E, len(v))
			for i := range v {
				r[len(v)-1-i] = v[i]
			}
			return r
		}
	}
	hist = append([]string{"document written by " + from}, hist...)
	roundTripSeq(w, rng, d, k, capn, &src, k.name+"["+d.tname+"]<-"+from, hist)
}

// marshal src, decode into a fresh container of kind k (capacity capn), run further operations on it
func roundTripSeq[E any](w *vhlib.Writer, rng *vhlib.Rng, d *dom[E], k seqKind[E], capn int, src *seqInst[E], label string, hist []string) {
	srcVals := d.list(src.values())
	var data []byte
	var merr error
	mp, _ := vhlib.Recover(func() { data, merr = src.marshal() })
	jt, valid := "JNull", false
	if !mp && merr == nil {
		jt, valid = jvalTerm(data)
	}
	steps := []string{"MarshalJSON", "UnmarshalJSON"}
	dstVals, dstRep, uerr, twice, dirtyVals := "[]", "RNone", true, false, "None"
	var suffix []string
	hist = append(hist, "MarshalJSON -> "+string(data))
	if valid {
		dst := k.mk(capn)
		var err error
		up, upv := vhlib.Recover(func() { err = dst.unmarshal(data) })
		uerr = up || err != nil
		if uerr {
			hist = append(hist, fmt.Sprint("UnmarshalJSON failed: ", err, upv))
		} else {
			dstVals, dstRep = d.list(dst.values()), dst.rep()
			if b2, err2 := dst.marshal(); err2 == nil && json.Valid(b2) {
				twice = true
			}
			hist = append(hist, "UnmarshalJSON into a fresh container")
			// a decode target that already held something.  Not for the circular buffer (no Clear in UnmarshalJSON: decoding
			// appends), and not for array-backed targets with non-scalar elements: json.Unmarshal(bytes, &l.elements) decodes
			// INTO the old elements of the backing array (merging structs / maps, writing through pointers) - outside the
			// property, which speaks of fresh targets; reported as an observation.
			if !k.ring && (d.scalar || (k.path != "PArray" && !strings.HasPrefix(k.name, "bslice."))) {
				dirty := k.mk(capn)
				dp, _ := vhlib.Recover(func() {
					for i := 1 + rng.Intn(4); i > 0; i-- {
						dirty.ins(clone(d.univ[rng.Intn(len(d.univ))]))
					}
					if dirty.unmarshal(data) == nil {
						dirtyVals = "(Some " + d.list(dirty.values()) + ")"
					}
				})
				_ = dp
			}
			ns := 3 + rng.Intn(6)
			for i := 0; i < ns; i++ {
				bias := 6
				if i == 0 {
					bias = 9
				}
				term, lab, h, call := seqOp(rng, d, dst, bias)
				var res string
				p, pv := vhlib.Recover(func() { res = call() })
				if p {
					suffix = append(suffix, fmt.Sprintf("SStep (%s) None [] true", term))
					steps = append(steps, lab)
					hist = append(hist, fmt.Sprint(h, " PANIC: ", pv))
					break
				}
				suffix = append(suffix, fmt.Sprintf("SStep (%s) %s %s false", term, res, d.list(dst.values())))
				steps = append(steps, lab)
				hist = append(hist, h)
			}
		}
	}
	jo := fmt.Sprintf("(JO %s %s %s %s %s)", vhlib.Bool(mp || merr != nil), vhlib.Bool(valid), jt, vhlib.Bool(uerr), vhlib.Bool(twice))
	term := fmt.Sprintf("CSeq %s %s %s %s %s %s %s %s %s %s", k.path, k.disc(capn), vhlib.Bool(k.jrev), d.codec(nil), srcVals, jo, dstVals, dstRep, dirtyVals, vhlib.List(suffix))
	w.Case(term, label, len(src.values()) > 0, steps,
		map[string]interface{}{"container": label, "universe": d.desc, "capacity": capn, "ops": hist, "json": string(data)})
}

// ---------- map-like containers ----------

type mapInst[K comparable, V any] struct {
	put       func(K, V)
	del       func(K)
	keys      func() []K
	get       func(K) (V, bool)
	marshal   func() ([]byte, error)
	unmarshal func([]byte) error
}
type mapKind[K comparable, V any] struct {
	name, disc string
	mk         func() *mapInst[K, V]
	wrapV      func(V) interface{} // how a value appears in the JSON (bcache wraps it)
	merge      bool                // Unmarshal merges into the existing contents (plain json.Unmarshal into a Go map): no dirty-target run
}
type kvAPI[K any, V any] interface {
	jsonAPI
	Put(K, V)
	Remove(K)
	Keys() []K
	Get(K) (V, bool)
}

func fromKV[K comparable, V any](m kvAPI[K, V]) *mapInst[K, V] {
	return &mapInst[K, V]{put: m.Put, del: m.Remove, keys: m.Keys, get: m.Get, marshal: m.MarshalJSON, unmarshal: m.UnmarshalJSON}
}

// every object-like container whose value type is free
func mapKindsAny[K comparable, V any](dk *dom[K], kc bcomparator.Comparator[K], vc bcomparator.Comparator[V]) []mapKind[K, V] {
	k := func(name, disc string, mk func() *mapInst[K, V]) mapKind[K, V] {
		return mapKind[K, V]{name: name, disc: disc, mk: mk}
	}
	ks := []mapKind[K, V]{
		k("hashmap", "MHash", func() *mapInst[K, V] { return fromKV[K, V](hashmap.New[K, V]()) }),
		k("hashmap.Safe", "MHash", func() *mapInst[K, V] { return fromKV[K, V](hashmap.NewSafe[K, V]()) }),
		k("linkedhashmap", "MLinked", func() *mapInst[K, V] { return fromKV[K, V](linkedhashmap.New[K, V]()) }),
		k("linkedhashmap.Safe", "MLinked", func() *mapInst[K, V] { return fromKV[K, V](linkedhashmap.NewSafe[K, V]()) }),
		k("treemap", "MTree", func() *mapInst[K, V] { return fromKV[K, V](treemap.NewWith[K, V](kc)) }),
		k("treemap.Safe", "MTree", func() *mapInst[K, V] { return fromKV[K, V](treemap.NewSafeWith[K, V](kc)) }),
		k("redblacktree", "MTree", func() *mapInst[K, V] { return fromKV[K, V](redblacktree.NewWith[K, V](kc)) }),
		k("redblacktree.Safe", "MTree", func() *mapInst[K, V] { return fromKV[K, V](redblacktree.NewSafeWith[K, V](kc)) }),
		k("avltree", "MTree", func() *mapInst[K, V] { return fromKV[K, V](avltree.NewWith[K, V](kc)) }),
		k("avltree.Safe", "MTree", func() *mapInst[K, V] { return fromKV[K, V](avltree.NewSafeWith[K, V](kc)) }),
		k("btree", "MTree", func() *mapInst[K, V] { return fromKV[K, V](btree.NewWith[K, V](3, kc)) }),
		k("btree.Safe", "MTree", func() *mapInst[K, V] { return fromKV[K, V](btree.NewSafeWith[K, V](4, kc)) }),
		k("treebidimap", "MBidiTree", func() *mapInst[K, V] { return fromKV[K, V](treebidimap.NewWith[K, V](kc, vc)) }),
		k("treebidimap.Safe", "MBidiTree", func() *mapInst[K, V] { return fromKV[K, V](treebidimap.NewSafeWith[K, V](kc, vc)) }),
		k("bmap.UnsafeAnyBMap", "MHash", func() *mapInst[K, V] {
			m := bmap.NewUnsafeAnyBMap[K, V]()
			return &mapInst[K, V]{put: m.Put, del: m.Delete, keys: m.Keys, get: m.Get, marshal: m.Marshal, unmarshal: m.Unmarshal}
		}),
		k("bmap.SafeAnyBMap", "MHash", func() *mapInst[K, V] {
			m := bmap.NewSafeAnyBMap[K, V]()
			return &mapInst[K, V]{put: m.Put, del: m.Delete, keys: m.Keys, get: m.Get, marshal: m.Marshal, unmarshal: m.Unmarshal}
		}),
	}
	bc := k("bcache", "MHash", func() *mapInst[K, V] {
		c := bcache.New[K, V](kc)
		return &mapInst[K, V]{put: c.SetNoExpire, del: c.Delete, get: c.Get, marshal: c.Export, unmarshal: c.Load,
			keys: func() []K { // the cache has no key enumeration: probe the universe
				var r []K
				for _, x := range dk.univ {
					if _, ok := c.Get(x); ok {
						r = append(r, x)
					}
				}
				return r
			}}
	})
	bc.wrapV = func(v V) interface{} { return bcache.Iterator[V]{Value: v} }
	bc.merge = true
	for i := range ks {
		if strings.HasPrefix(ks[i].name, "bmap.") {
			ks[i].merge = true
		}
	}
	return append(ks, bc)
}

// hashbidimap: values are Go map keys too
func mapKindsEq[K comparable, V comparable]() []mapKind[K, V] {
	k := func(name, disc string, mk func() *mapInst[K, V]) mapKind[K, V] {
		return mapKind[K, V]{name: name, disc: disc, mk: mk}
	}
	return []mapKind[K, V]{
		k("hashbidimap", "MBidiHash", func() *mapInst[K, V] { return fromKV[K, V](hashbidimap.New[K, V]()) }),
		k("hashbidimap.Safe", "MBidiHash", func() *mapInst[K, V] { return fromKV[K, V](hashbidimap.NewSafe[K, V]()) }),
	}
}
func mapKinds[K comparable, V comparable](dk *dom[K], kc bcomparator.Comparator[K], vc bcomparator.Comparator[V]) []mapKind[K, V] {
	return append(mapKindsAny[K, V](dk, kc, vc), mapKindsEq[K, V]()...)
}

func pairsOf[K comparable, V any](dk *dom[K], dv *dom[V], m *mapInst[K, V]) string {
	var it []string
	for _, k := range m.keys() {
		v, _ := m.get(k)
		it = append(it, vhlib.Pair(vhlib.Z(dk.id(k)), vhlib.Z(dv.id(v))))
	}
	return vhlib.List(it)
}

func mapOp[K comparable, V any](rng *vhlib.Rng, dk *dom[K], dv *dom[V], m *mapInst[K, V], putBias int) (term, lab, h string, call func()) {
	k := rng.Intn(len(dk.univ))
	if rng.Intn(10) < putBias {
		v := rng.Intn(len(dv.univ))
		return fmt.Sprintf("PPut %d %d", k, v), "Put", fmt.Sprintf("Put(%s,%s)", dk.desc[k], dv.desc[v]), func() { m.put(dk.univ[k], dv.univ[v]) }
	}
	return fmt.Sprintf("PDel %d", k), "Remove", fmt.Sprintf("Remove(%s)", dk.desc[k]), func() { m.del(dk.univ[k]) }
}

func runMap[K comparable, V any](w *vhlib.Writer, rng *vhlib.Rng, dk *dom[K], dv *dom[V], k mapKind[K, V], nops int) {
	label := k.name + "[" + dk.tname + "," + dv.tname + "]"
	var hist []string
	src := k.mk()
	if nops < 0 {
		nops = rng.Intn(12)
	}
	p, _ := vhlib.Recover(func() {
		for i := 0; i < nops; i++ {
			_, _, h, call := mapOp(rng, dk, dv, src, 8)
			hist = append(hist, h)
			call()
		}
	})
	if p {
		return
	}
	srcPairs := pairsOf(dk, dv, src)
	var data []byte
	var merr error
	mp, _ := vhlib.Recover(func() { data, merr = src.marshal() })
	jt, valid := "JNull", false
	if !mp && merr == nil {
		jt, valid = jvalTerm(data)
	}
	hist = append(hist, "MarshalJSON -> "+string(data))
	steps := []string{"MarshalJSON", "UnmarshalJSON"}
	dstPairs, uerr, twice, dirtyPairs := "[]", true, false, "None"
	var suffix []string
	if valid {
		dst := k.mk()
		var err error
		up, upv := vhlib.Recover(func() { err = dst.unmarshal(data) })
		uerr = up || err != nil
		if uerr {
			hist = append(hist, fmt.Sprint("UnmarshalJSON failed: ", err, upv))
		} else {
			dstPairs = pairsOf(dk, dv, dst)
			if b2, err2 := dst.marshal(); err2 == nil && json.Valid(b2) {
				twice = true
			}
			hist = append(hist, "UnmarshalJSON into a fresh container")
			if !k.merge {
				dirty := k.mk()
				vhlib.Recover(func() {
					for i := 1 + rng.Intn(4); i > 0; i-- {
						dirty.put(dk.univ[rng.Intn(len(dk.univ))], clone(dv.univ[rng.Intn(len(dv.univ))]))
					}
					if dirty.unmarshal(data) == nil {
						dirtyPairs = "(Some " + pairsOf(dk, dv, dirty) + ")"
					}
				})
			}
			ns := 3 + rng.Intn(6)
			for i := 0; i < ns; i++ {
				term, lab, h, call := mapOp(rng, dk, dv, dst, 6)
				p, pv := vhlib.Recover(call)
				if p {
					suffix = append(suffix, fmt.Sprintf("MStep (%s) [] true", term))
					steps = append(steps, lab)
					hist = append(hist, fmt.Sprint(h, " PANIC: ", pv))
					break
				}
				suffix = append(suffix, fmt.Sprintf("MStep (%s) %s false", term, pairsOf(dk, dv, dst)))
				steps = append(steps, lab)
				hist = append(hist, h)
			}
		}
	}
	jo := fmt.Sprintf("(JO %s %s %s %s %s)", vhlib.Bool(mp || merr != nil), vhlib.Bool(valid), jt, vhlib.Bool(uerr), vhlib.Bool(twice))
	term := fmt.Sprintf("CMapc %s %s %s %s %s %s %s %s", k.disc, dk.codec(nil), dv.codec(k.wrapV), srcPairs, jo, dstPairs, dirtyPairs, vhlib.List(suffix))
	w.Case(term, label, len(src.keys()) > 0, steps,
		map[string]interface{}{"container": label, "keys": dk.desc, "values": dv.desc, "ops": hist, "json": string(data)})
}

func seqAll[E any](w *vhlib.Writer, rng *vhlib.Rng, mkDom func() *dom[E], kinds func(d *dom[E]) []seqKind[E], reps int) {
	n := len(kinds(mkDom()))
	for i := 0; i < reps; i++ {
		for j := 0; j < n; j++ {
			d := mkDom()
			runSeq(w, rng, d, kinds(d)[j])
		}
		// foreign documents (written by an array list: unsorted, repeated elements; or null) into every other array-like container
		if i%2 == 0 {
			ks := kinds(mkDom())
			for j := range ks {
				if ks[j].ring || strings.HasPrefix(ks[j].disc(1), "DHeap") || strings.HasPrefix(ks[j].name, "arraylist") {
					continue
				}
				d := mkDom()
				kk := kinds(d)
				var al seqKind[E]
				for _, k := range kk {
					if k.name == "arraylist" {
						al = k
					}
				}
				runForeign(w, rng, d, kk[j], al, rng.Intn(8) == 0)
			}
		}
		// ring buffers fed with documents of another length (zero-valued elements included: Dequeue is repaired, 0021)
		for mode := 0; mode < 3; mode++ {
			for _, safe := range []bool{false, true} {
				for _, fromList := range []bool{false, true} {
					d := mkDom()
					var ring, prod seqKind[E]
					for _, k := range kinds(d) {
						if k.ring && strings.HasSuffix(k.name, ".Safe") == safe {
							ring = k
						}
						if fromList && k.name == "arraylist" || !fromList && k.name == "circularbuffer" {
							prod = k
						}
					}
					if ring.mk != nil && prod.mk != nil {
						runRingCross(w, rng, d, ring, prod, mode)
					}
				}
			}
		}
	}
}
func mapAll[K comparable, V any](w *vhlib.Writer, rng *vhlib.Rng, mkK func() *dom[K], mkV func() *dom[V],
	kinds func(dk *dom[K]) []mapKind[K, V], reps int) {
	n := len(kinds(mkK()))
	for i := 0; i < reps; i++ {
		for j := 0; j < n; j++ {
			dk, dv := mkK(), mkV()
			runMap(w, rng, dk, dv, kinds(dk)[j], -1)
		}
	}
}

// ---------- element / value types that json.Unmarshal does not fully overwrite ----------
// Decoding into a variable that already holds one of these MERGES (struct with omitempty fields, map), reuses storage (slice)
// or writes through (pointer): a decoder that recycles its variables, or decodes into live elements, restores stale values.
// The universes make neighbours differ in WHICH fields are zero / how long they are.

type S struct {
	A int    `json:"a,omitempty"`
	B string `json:"b,omitempty"`
}

func ip(v int) *int { return &v }

func sPool() []S {
	return []S{{1, ""}, {0, "x"}, {2, "y"}, {0, ""}, {1, "x"}, {3, ""}, {0, "y"}, {2, ""}}
}
func slPool() [][]int {
	return [][]int{{1, 2, 3}, {9}, {}, nil, {4, 5}, {7, 7, 7, 7}, {0}, {1, 2}}
}
func ptrPool() []*int { return []*int{nil, ip(5), ip(-2), ip(9), ip(7), ip(12)} }
func mpPool() []map[string]int {
	return []map[string]int{{"a": 1}, {"b": 2}, {"a": 3, "b": 4}, nil, {"c": 5}, {"a": 1, "c": 5}, {"b": 1}}
}

// a total order on deep content (the user comparator of the heaps, tree sets and tree bidi-maps over these types)
func cmpByContent[E any](a, b E) int { return strings.Compare(contentKey(a), contentKey(b)) }

// u distinct values of the pool, numbered in the comparator's order
func poolDom[E any](rng *vhlib.Rng, tname string, pool []E, u int) *dom[E] {
	p := rng.Perm(len(pool))
	var univ []E
	for i := 0; i < u && i < len(pool); i++ {
		univ = append(univ, pool[p[i]])
	}
	sort.Slice(univ, func(i, j int) bool { return cmpByContent(univ[i], univ[j]) < 0 })
	d := newDom(tname, univ)
	d.scalar = false
	for i, x := range univ {
		d.desc[i] = contentKey(x)
	}
	return d
}

// a deep copy (what is put into a decode target that is not fresh, so that a decoder writing through old pointers / into
// old slices cannot reach the universe)
func clone[E any](x E) E {
	var y E
	b, _ := json.Marshal(x)
	_ = json.Unmarshal(b, &y)
	return y
}

func main() {
	o := vhlib.ParseOpts()
	rng := vhlib.NewRng(o.Seed)
	w := vhlib.NewWriter(o.Out, "From VF Require Import Common.Base C09.Model C15.Model C15.Spec C15.Check.\nLocal Open Scope Z_scope.", "case", "mismatches", 150)
	reps := 14
	if o.Thorough() {
		reps = 200
	}
	usize := func() int { return 2 + rng.Intn(5) }
	vsize := func() int { return 2 + rng.Intn(3) }
	ic, sc := bcomparator.IntComparator(), bcomparator.StringComparator()

	// the documented witnesses of D22 / D23 first, then the random streams
	for _, safe := range []bool{false, true} {
		dk := newDom("string", []string{"a", "b", "c"})
		dv := newDom("string", []string{"b", "d", "e"})
		ks := mapKinds[string, string](dk, sc, sc)
		for _, k := range ks {
			if k.name == "linkedhashmap" && !safe || k.name == "linkedhashmap.Safe" && safe {
				fixedMap(w, dk, dv, k, [][2]int{{0, 0}, {2, 1}, {1, 2}}) // {"a":"b","c":"d","b":"e"}
			}
		}
	}

	seqAll(w, rng, func() *dom[int] { return intDom(rng, usize(), false) }, func(d *dom[int]) []seqKind[int] { return seqKinds(d, ic) }, reps)
	seqAll(w, rng, func() *dom[string] { return strDom(rng, usize(), false) }, func(d *dom[string]) []seqKind[string] { return seqKinds(d, sc) }, reps)

	mapAll(w, rng, func() *dom[int] { return intDom(rng, usize(), false) }, func() *dom[int] { return intDom(rng, vsize(), false) }, func(dk *dom[int]) []mapKind[int, int] { return mapKinds[int, int](dk, ic, ic) }, reps)
	mapAll(w, rng, func() *dom[string] { return strDom(rng, usize(), false) }, func() *dom[string] { return strDom(rng, vsize()+2, false) }, func(dk *dom[string]) []mapKind[string, string] { return mapKinds[string, string](dk, sc, sc) }, reps)
	mapAll(w, rng, func() *dom[string] { return strDom(rng, usize(), false) }, func() *dom[int] { return intDom(rng, vsize(), false) }, func(dk *dom[string]) []mapKind[string, int] { return mapKinds[string, int](dk, sc, ic) }, reps)
	mapAll(w, rng, func() *dom[int] { return intDom(rng, usize(), false) }, func() *dom[string] { return strDom(rng, vsize()+2, false) }, func(dk *dom[int]) []mapKind[int, string] { return mapKinds[int, string](dk, ic, sc) }, reps)

	// ---- element / value types that a decoder must not recycle: struct with omitempty fields, slice, pointer, map ----
	nreps := reps/5 + 1
	seqAll(w, rng, func() *dom[S] { return poolDom(rng, "struct", sPool(), usize()) },
		func(d *dom[S]) []seqKind[S] { return seqKinds(d, cmpByContent[S]) }, nreps)
	seqAll(w, rng, func() *dom[[]int] { return poolDom(rng, "slice", slPool(), usize()) },
		func(d *dom[[]int]) []seqKind[[]int] { return seqKindsAny(d, cmpByContent[[]int]) }, nreps)
	seqAll(w, rng, func() *dom[*int] { return poolDom(rng, "pointer", ptrPool(), usize()) },
		func(d *dom[*int]) []seqKind[*int] { return seqKindsAny(d, cmpByContent[*int]) }, nreps)
	seqAll(w, rng, func() *dom[map[string]int] { return poolDom(rng, "map", mpPool(), usize()) },
		func(d *dom[map[string]int]) []seqKind[map[string]int] {
			return seqKindsAny(d, cmpByContent[map[string]int])
		}, nreps)
	strK := func() *dom[string] { return strDom(rng, usize(), false) }
	intK := func() *dom[int] { return intDom(rng, usize(), false) }
	mapAll(w, rng, strK, func() *dom[S] { return poolDom(rng, "struct", sPool(), vsize()+2) },
		func(dk *dom[string]) []mapKind[string, S] { return mapKinds[string, S](dk, sc, cmpByContent[S]) }, nreps)
	mapAll(w, rng, intK, func() *dom[S] { return poolDom(rng, "struct", sPool(), vsize()+2) },
		func(dk *dom[int]) []mapKind[int, S] { return mapKinds[int, S](dk, ic, cmpByContent[S]) }, nreps)
	mapAll(w, rng, intK, func() *dom[[]int] { return poolDom(rng, "slice", slPool(), vsize()+2) },
		func(dk *dom[int]) []mapKind[int, []int] { return mapKindsAny[int, []int](dk, ic, cmpByContent[[]int]) }, nreps)
	mapAll(w, rng, strK, func() *dom[*int] { return poolDom(rng, "pointer", ptrPool(), vsize()+2) },
		func(dk *dom[string]) []mapKind[string, *int] {
			return mapKindsAny[string, *int](dk, sc, cmpByContent[*int])
		}, nreps)
	mapAll(w, rng, intK, func() *dom[map[string]int] { return poolDom(rng, "map", mpPool(), vsize()+2) },
		func(dk *dom[int]) []mapKind[int, map[string]int] {
			return mapKindsAny[int, map[string]int](dk, ic, cmpByContent[map[string]int])
		}, nreps)

	w.Close(o, "one case = one container (every type with MarshalJSON/UnmarshalJSON, plain and Safe, plus bslice/bmap/bcache Marshal/Unmarshal) built by a random "+
		"operation sequence over a small universe of int or string elements/keys/values (strings with quotes, backslashes, non-ASCII, JSON-looking text, values that are "+
		"also keys) or of struct-with-omitempty-fields / slice / pointer / map elements and values (numbered by deep content; neighbours differ in which fields are zero and how long they are; "+
		"heaps, tree sets and tree bidi-maps order them with a user comparator on the content) (strings: "+
		"also keys), marshalled, validated with json.Valid, parsed, decoded into a fresh container of the same type, re-marshalled, and driven by 3-8 further operations "+
		"whose results and resulting contents are recorded; ring buffers of capacity 1-5 partially filled, full and wrapped (zero-valued elements included), and ring "+
		"buffers decoding documents written by a ring of another capacity or by an array list, lists / stacks / queues / sets decoding documents written by an array list (unsorted, repeated elements) or null, longer than / as long as / shorter than the target capacity; distinct = distinct case terms; "+
		"non-trivial = the source container is not empty")
}

// a map with exactly the given bindings (indexes into the universes), in this insertion order
func fixedMap[K comparable, V any](w *vhlib.Writer, dk *dom[K], dv *dom[V], k mapKind[K, V], kvs [][2]int) {
	orig := k.mk
	first := true
	k.mk = func() *mapInst[K, V] {
		m := orig()
		if first { // only the source is pre-filled
			first = false
			for _, kv := range kvs {
				m.put(dk.univ[kv[0]], dv.univ[kv[1]])
			}
		}
		return m
	}
	runMap(w, vhlib.NewRng(7), dk, dv, k, 0)
}
