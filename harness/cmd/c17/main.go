// C17 harness: counts comparator invocations of point operations on trees and skip lists of /repo and writes
// Coq cases: exact cost against the cost model on the dumped tree shape, and the logarithmic bound.
package main

import (
	"fmt"
	"strings"

	"github.com/songzhibin97/go-baseutils/base/bcomparator"
	"github.com/songzhibin97/go-baseutils/structure/maps/skipmap"
	"github.com/songzhibin97/go-baseutils/structure/maps/treemap"
	"github.com/songzhibin97/go-baseutils/structure/sets/skipset"
	"github.com/songzhibin97/go-baseutils/structure/sets/treeset"
	"github.com/songzhibin97/go-baseutils/structure/sets/zset"
	"github.com/songzhibin97/go-baseutils/structure/trees/avltree"
	"github.com/songzhibin97/go-baseutils/structure/trees/btree"
	"github.com/songzhibin97/go-baseutils/structure/trees/redblacktree"

	"vh/vhlib"
)

var calls int

func counting() bcomparator.Comparator[int] {
	return func(a, b int) int {
		calls++
		switch {
		case a < b:
			return -1
		case a > b:
			return 1
		}
		return 0
	}
}

func count(f func()) int {
	c0 := calls
	f()
	return calls - c0
}

// ---- generic tree adapter ----
type tree interface {
	Put(k, v int)
	Remove(k int)
	Get(k int) (int, bool)
	Size() int
}
type rbT struct{ *redblacktree.Tree[int, int] }
type avlT struct{ *avltree.Tree[int, int] }
type btT struct{ *btree.Tree[int, int] }
type tmT struct{ *treemap.Map[int, int] }
type tsT struct{ *treeset.Set[int] }

func (t tsT) Put(k, v int)          { t.Set.Add(k) }
func (t tsT) Remove(k int)          { t.Set.Remove(k) }
func (t tsT) Get(k int) (int, bool) { return 0, t.Set.Contains(k) }

func rbShape(n *redblacktree.Node[int, int]) string {
	if n == nil {
		return "E"
	}
	return fmt.Sprintf("(T tt %s %d %d %s)", rbShape(n.Left), n.Key, n.Value, rbShape(n.Right))
}
func avlShape(n *avltree.Node[int, int]) string {
	if n == nil {
		return "E"
	}
	return fmt.Sprintf("(T tt %s %d %d %s)", avlShape(n.Children[0]), n.Key, n.Value, avlShape(n.Children[1]))
}
func btShape(n *btree.Node[int, int]) string {
	es := make([]string, len(n.Entries))
	for i, e := range n.Entries {
		es[i] = fmt.Sprintf("(%d, %d)", e.Key, e.Value)
	}
	cs := make([]string, len(n.Children))
	for i, c := range n.Children {
		cs[i] = btShape(c)
	}
	return fmt.Sprintf("(Node %s %s)", vhlib.List(es), vhlib.List(cs))
}

// build a key set of n keys (all even, so that odd keys are absent gaps) in a given order profile, with churn
func build(r *vhlib.Rng, t tree, n int, profile string) []int {
	keys := make([]int, n)
	for i := range keys {
		keys[i] = 2 * (i + 1)
	}
	switch profile {
	case "asc":
	case "desc":
		for i, j := 0, n-1; i < j; i, j = i+1, j-1 {
			keys[i], keys[j] = keys[j], keys[i]
		}
	case "zigzag":
		z := make([]int, 0, n)
		for i, j := 0, n-1; i <= j; i, j = i+1, j-1 {
			z = append(z, keys[i])
			if i != j {
				z = append(z, keys[j])
			}
		}
		keys = z
	default: // random, churn
		p := r.Perm(n)
		k2 := make([]int, n)
		for i, j := range p {
			k2[i] = keys[j]
		}
		keys = k2
	}
	for _, k := range keys {
		t.Put(k, k)
	}
	if profile == "churn" {
		// delete and re-insert a large fraction, three rounds
		for round := 0; round < 3; round++ {
			p := r.Perm(n)
			for _, j := range p[:n*2/3] {
				t.Remove(keys[j])
			}
			p2 := r.Perm(n * 2 / 3)
			for _, j := range p2 {
				t.Put(keys[p[j]], keys[p[j]])
			}
		}
	}
	return keys
}

var profiles = []string{"asc", "desc", "zigzag", "random", "churn"}

func main() {
	o := vhlib.ParseOpts()
	rng := vhlib.NewRng(o.Seed)
	// thorough: the skip-list dumps of 2^14..2^16 nodes are several hundred KB each: few cases per file
	shard := 24
	if o.Thorough() {
		shard = 6
	}
	w := vhlib.NewWriter(o.Out, "From VF Require Import C17.Cost C17.Check.\nLocal Open Scope Z_scope.", "case", "mismatches", shard)

	mk := func(kind string, m int) (tree, func() string, string) {
		switch kind {
		case "rb":
			t := redblacktree.NewWith[int, int](counting())
			return rbT{t}, func() string { return "SBin " + rbShape(t.Root) }, "KRB"
		case "avl":
			t := avltree.NewWith[int, int](counting())
			return avlT{t}, func() string { return "SBin " + avlShape(t.Root) }, "KAVL"
		case "bt":
			t := btree.NewWith[int, int](m, counting())
			return btT{t}, func() string {
				if t.Root == nil {
					return "SBTEmpty"
				}
				return "SBT " + btShape(t.Root)
			}, fmt.Sprintf("(KBT %d%%nat)", m)
		case "treemap":
			t := treemap.NewWith[int, int](counting())
			return tmT{t}, nil, "KRB"
		default:
			t := treeset.NewWith[int](counting())
			return tsT{t}, nil, "KRB"
		}
	}

	// ---------- A. exact cost on dumped shapes (non-mutating probes) ----------
	sizesA := []int{0, 1, 2, 3, 5, 8, 13, 21, 40, 64, 100, 256}
	if o.Thorough() {
		sizesA = append(sizesA, 512, 1000, 2048)
	}
	type kd struct {
		kind string
		m    int
	}
	kinds := []kd{{"rb", 0}, {"avl", 0}, {"bt", 3}, {"bt", 4}, {"bt", 5}, {"bt", 8}, {"bt", 16}}
	for _, k := range kinds {
		for _, n := range sizesA {
			for _, prof := range profiles {
				if n < 5 && prof != "random" && prof != "asc" {
					continue
				}
				t, dump, kcoq := mk(k.kind, k.m)
				build(rng, t, n, prof)
				shape := dump()
				var probes, steps []string
				np := 24
				for i := 0; i < np; i++ {
					key := rng.Intn(2*n+3) // present (even in range) and absent keys, below/above the range too
					var c int
					var op string
					switch rng.Intn(5) {
					case 0, 1:
						op = "PGet"
						c = count(func() { t.Get(key) })
					case 2:
						op = "PFloor"
						switch tt := t.(type) {
						case rbT:
							c = count(func() { tt.Floor(key) })
						case avlT:
							c = count(func() { tt.Floor(key) })
						default:
							op = "PGet"
							c = count(func() { t.Get(key) })
						}
					case 3:
						op = "PCeiling"
						switch tt := t.(type) {
						case rbT:
							c = count(func() { tt.Ceiling(key) })
						case avlT:
							c = count(func() { tt.Ceiling(key) })
						default:
							op = "PGet"
							c = count(func() { t.Get(key) })
						}
					case 4:
						// overwrite of a present key / removal of an absent key leave the shape unchanged
						if key%2 == 0 && key >= 2 && key <= 2*n {
							op = "PPutPresent"
							c = count(func() { t.Put(key, key) })
						} else {
							op = "PRemoveAbsent"
							c = count(func() { t.Remove(key) })
						}
					}
					probes = append(probes, fmt.Sprintf("(%s %d, %d%%nat)", op, key, c))
					steps = append(steps, k.kind+"."+strings.TrimPrefix(op, "P"))
				}
				term := fmt.Sprintf("CShape %s (%s) %s", kcoq, shape, vhlib.List(probes))
				w.Case(term, fmt.Sprintf("%s/m=%d exact", k.kind, k.m), n >= 2, steps,
					map[string]interface{}{"kind": k.kind, "m": k.m, "n": n, "profile": prof, "probes": probes})
			}
		}
	}

	// ---------- B. bound on large trees, mutating operations, after churn ----------
	sizesB := []int{256, 1024, 4096}
	if o.Thorough() {
		sizesB = []int{256, 1024, 4096, 16384, 65536}
	}
	kindsB := []kd{{"rb", 0}, {"avl", 0}, {"bt", 3}, {"bt", 4}, {"bt", 7}, {"bt", 16}, {"bt", 64}, {"treemap", 0}, {"treeset", 0}}
	for _, k := range kindsB {
		for _, n := range sizesB {
			for _, prof := range profiles {
				t, _, kcoq := mk(k.kind, k.m)
				keys := build(rng, t, n, prof)
				var obs, steps []string
				for i := 0; i < 120; i++ {
					nb := t.Size()
					var c int
					var op string
					switch rng.Intn(4) {
					case 0:
						op = "BGet"
						key := rng.Intn(2*n + 3)
						c = count(func() { t.Get(key) })
					case 1:
						op = "BPut"
						key := 2*rng.Intn(n+1) + 1 // a new odd key
						c = count(func() { t.Put(key, key) })
					case 2:
						op = "BRemove"
						key := keys[rng.Intn(len(keys))]
						c = count(func() { t.Remove(key) })
					case 3:
						op = "BPut"
						key := keys[rng.Intn(len(keys))]
						c = count(func() { t.Put(key, key) })
					}
					obs = append(obs, fmt.Sprintf("(%s, %d, %d)", op, nb, c))
					steps = append(steps, k.kind+"."+strings.TrimPrefix(op, "B"))
				}
				term := fmt.Sprintf("CBound %s %s", kcoq, vhlib.List(obs))
				w.Case(term, fmt.Sprintf("%s/m=%d bound", k.kind, k.m), true, steps,
					map[string]interface{}{"kind": k.kind, "m": k.m, "n": n, "profile": prof})
			}
		}
	}

	// ---------- C. skip lists: lane structure and batch-average cost ----------
	sizesC := []int{256, 1024, 4096}
	if o.Thorough() {
		sizesC = []int{256, 1024, 4096, 16384, 65536}
	}
	batch := 256
	for _, n := range sizesC {
		for _, prof := range profiles {
			keys := make([]int, n)
			for i := range keys {
				keys[i] = 2 * (i + 1)
			}
			order := func() []int {
				switch prof {
				case "asc":
					return keys
				case "desc":
					k2 := make([]int, n)
					for i := range keys {
						k2[i] = keys[n-1-i]
					}
					return k2
				default:
					k2 := make([]int, n)
					for i, j := range rng.Perm(n) {
						k2[i] = keys[j]
					}
					return k2
				}
			}()
			// zset: all scores equal, so that the member comparator decides every step of the search
			{
				z := zset.New[int](counting())
				for _, k := range order {
					z.AddB(0, k)
				}
				if prof == "churn" {
					for round := 0; round < 3; round++ {
						p := rng.Perm(n)
						for _, j := range p[:n*2/3] {
							z.RemoveB(keys[j])
						}
						for _, j := range p[:n*2/3] {
							z.AddB(0, keys[j])
						}
					}
				}
				d := z.VerifDump()
				heights := make([]int, len(d.Nodes))
				for i, nd := range d.Nodes {
					heights[i] = nd.Level
				}
				// number of nodes on the level-i chain from the header
				var reach []int
				for lv := 0; lv < len(d.HeaderNext); lv++ {
					c, x := 0, d.HeaderNext[lv]
					for x >= 0 && c <= len(d.Nodes) {
						c++
						if lv < len(d.Nodes[x].Next) {
							x = d.Nodes[x].Next[lv]
						} else {
							x = -1
						}
					}
					reach = append(reach, c)
				}
				var cRank, cAdd, cRem []int
				for i := 0; i < batch; i++ {
					k := keys[rng.Intn(n)]
					cRank = append(cRank, count(func() { z.Rank(k) }))
				}
				for i := 0; i < batch; i++ {
					k := 2*rng.Intn(n+1) + 1
					cAdd = append(cAdd, count(func() { z.AddB(0, k) }))
					cRem = append(cRem, count(func() { z.RemoveB(k) }))
				}
				term := fmt.Sprintf("CSkip %d %d%%nat %s %s [%s; %s; %s]", n, d.Highest, bigNatList(heights), vhlib.NatList(reach),
					vhlib.NatList(cRank), vhlib.NatList(cAdd), vhlib.NatList(cRem))
				w.Case(term, "zset", true, []string{"zset.lanes", "zset.Rank", "zset.AddB", "zset.RemoveB"},
					map[string]interface{}{"kind": "zset", "n": n, "profile": prof, "highest": d.Highest})
			}
			// skipmap / skipset
			{
				m := skipmap.New[int, int](counting())
				s := skipset.New[int](counting())
				for _, k := range order {
					m.Store(k, k)
					s.AddB(k)
				}
				if prof == "churn" {
					for round := 0; round < 3; round++ {
						p := rng.Perm(n)
						for _, j := range p[:n*2/3] {
							m.Delete(keys[j])
							s.RemoveB(keys[j])
						}
						for _, j := range p[:n*2/3] {
							m.Store(keys[j], 1)
							s.AddB(keys[j])
						}
					}
				}
				lanes, levels, hi, _ := m.VerifShape()
				var cLoad, cStore, cDel []int
				for i := 0; i < batch; i++ {
					k := keys[rng.Intn(n)]
					cLoad = append(cLoad, count(func() { m.Load(k) }))
				}
				for i := 0; i < batch; i++ {
					k := 2*rng.Intn(n+1) + 1
					cStore = append(cStore, count(func() { m.Store(k, k) }))
					cDel = append(cDel, count(func() { m.Delete(k) }))
				}
				term := fmt.Sprintf("CSkipLanes %d %d%%nat %s %s [%s; %s; %s]", n, hi, bigIntList(lanes), bigIntList(levels),
					vhlib.NatList(cLoad), vhlib.NatList(cStore), vhlib.NatList(cDel))
				w.Case(term, "skipmap", true, []string{"skipmap.lanes", "skipmap.Load", "skipmap.Store", "skipmap.Delete"},
					map[string]interface{}{"kind": "skipmap", "n": n, "profile": prof})
				lanes, levels, hi, _ = s.VerifShape()
				var cCon, cAdd, cRem []int
				for i := 0; i < batch; i++ {
					k := keys[rng.Intn(n)]
					cCon = append(cCon, count(func() { s.Contains(k) }))
				}
				for i := 0; i < batch; i++ {
					k := 2*rng.Intn(n+1) + 1
					cAdd = append(cAdd, count(func() { s.AddB(k) }))
					cRem = append(cRem, count(func() { s.RemoveB(k) }))
				}
				term = fmt.Sprintf("CSkipLanes %d %d%%nat %s %s [%s; %s; %s]", n, hi, bigIntList(lanes), bigIntList(levels),
					vhlib.NatList(cCon), vhlib.NatList(cAdd), vhlib.NatList(cRem))
				w.Case(term, "skipset", true, []string{"skipset.lanes", "skipset.Contains", "skipset.AddB", "skipset.RemoveB"},
					map[string]interface{}{"kind": "skipset", "n": n, "profile": prof})
			}
		}
	}
	btOps(w, rng, o)
	binOps(w, rng, o)
	skipOps(w, rng, o)
	skipAvg(w, rng, o)
	w.Close(o, "D: B-trees (orders 3,4,5,6,8,16) of 0..256 keys: shape dumped, 48 mutating operations (Put new/present, Remove present/absent, Get) whose counts must EQUAL BTCost.put_cost/remove_cost on the model tree carried along by the C01 model and obey the proved bounds, final dump = model tree; D2: the same for red-black and AVL trees (dumps with colours / balance factors, cost = path_cost resp. rb_put_cost of the tree before the operation, model tree carried by RB.put/RB.remove/AVL.put/AVL.remove); E: zset/skipmap/skipset of 0..1024 keys populated through every insertion entry point (zset Add/AddB with tied, distinct and clustered scores/IncrBy; skipmap Store/LoadOrStore/LoadOrStoreLazy; skipset AddB/Add; and mixed): level-0 scores, keys, heights, lanes dumped, 32-96 point operations (Rank/RevRank/Score/AddB new, same score, new score in place and moving/IncrBy/RemoveB; Load/Get/Store/Put/LoadOrStore(Lazy) present and absent/Delete/LoadAndDelete/Range start; ContainsB/AddB/Add/RemoveB/Remove) whose counts must EQUAL the SkipCost search cost on the carried node sequence, highestLevel tracked, final dump = model sequence; F: the same populations at 2^8..2^12 (thorough ..2^16) keys: batches of 256 of every point operation judged against factor*(4*log2(n+2)+16), factor 2 for operations that search twice; A: trees of 0..256 (thorough ..2048) keys built asc/desc/zigzag/random/churn, shape dumped, 24 non-mutating probes each whose comparator-call count must equal the cost model on that shape and obey the proved bound; B: trees of 2^8..2^12 (thorough ..2^16) keys, 120 mutating/non-mutating operations each judged against the bound for the size at that moment; C: zset/skipmap/skipset of the same sizes: lane structure from the dump and batch averages of 256 lookups/inserts/deletes against c*log2(n)+d; distinct = distinct case terms")
}
