// C17 harness, skip lists (zset, skipmap, skipset): every container is populated through EVERY insertion entry point
// (separately and mixed); then
//   E. exact: each point operation must make exactly the modelled number of comparator calls on the node sequence
//      the Coq side carries along from a first dump to a final dump (CSkipOps);
//   F. averages: batches of 256 of every point operation are judged against c*log2(n)+d per population (CSkipAvg).
package main

import (
	"fmt"

	"github.com/songzhibin97/go-baseutils/structure/maps/skipmap"
	"github.com/songzhibin97/go-baseutils/structure/sets/skipset"
	"github.com/songzhibin97/go-baseutils/structure/sets/zset"

	"vh/vhlib"
)

type skShape struct {
	scores, keys, heights, lanes []int
	highest                      int
}

func (s skShape) heightOf(k int) int {
	for i, kk := range s.keys {
		if kk == k && i < len(s.heights) {
			return s.heights[i]
		}
	}
	return 0
}

// one measured point operation: the Coq probe term (exact tie), the step label, the comparator calls,
// and the factor of the average bound (2 = operations that search twice)
type skProbe struct {
	term, label string
	calls       int
}

type skipC interface {
	kind() string  // SKZ | SKM | SKS
	label() string // zset | skipmap | skipset
	modes() []string
	insertVia(mode string, i int, k int) // population entry point (i = running index, for "mixed")
	removeForChurn(k int)
	shape() skShape
	// a random point operation for the exact tie; keys = the even keys of the initial population
	probe(rng *vhlib.Rng, n int, keys []int) skProbe
	// batches for the average judgement: name, factor, per-operation counts
	batches(rng *vhlib.Rng, n int, keys []int, size int) []skBatch
}
type skBatch struct {
	name   string
	factor int
	counts []int
}

func pickKey(rng *vhlib.Rng, n int) int {
	switch rng.Intn(8) {
	case 0:
		return -rng.Intn(5)
	case 1:
		return 2*n + 1 + rng.Intn(7)
	default:
		return rng.Intn(2*n + 3)
	}
}
func memberOr(rng *vhlib.Rng, n int, keys []int, den int) int {
	if n > 0 && rng.Intn(den) != 0 {
		return keys[rng.Intn(n)]
	}
	return pickKey(rng, n)
}

// ---------------- zset ----------------
type zsetC struct{ z *zset.Set[int] }

func newZset() skipC           { return &zsetC{zset.New[int](counting())} }
func (c *zsetC) kind() string  { return "SKZ" }
func (c *zsetC) label() string { return "zset" }
func (c *zsetC) modes() []string {
	return []string{"AddB0", "Add", "AddBkey", "AddBmod", "IncrBy", "mixed"}
}
func (c *zsetC) insertVia(mode string, i int, k int) {
	if mode == "mixed" {
		mode = []string{"AddB0", "Add", "AddBmod", "IncrBy", "AddBkey"}[i%5]
	}
	switch mode {
	case "AddB0": // all scores equal: the member comparator decides every step
		c.z.AddB(0, k)
	case "Add":
		c.z.Add(k)
	case "AddBkey": // distinct scores, ordered like the keys
		c.z.AddB(float64(k), k)
	case "AddBmod": // four score classes with many ties each
		c.z.AddB(float64(k/2%4), k)
	case "IncrBy": // members created by IncrBy
		c.z.IncrBy(float64(k/2%3), k)
	}
}
func (c *zsetC) removeForChurn(k int) { c.z.RemoveB(k) }
func (c *zsetC) shape() skShape {
	d := c.z.VerifDump()
	n := len(d.Nodes)
	s := skShape{scores: make([]int, n), keys: make([]int, n), heights: make([]int, n), lanes: make([]int, n), highest: d.Highest}
	for i, nd := range d.Nodes {
		s.scores[i], s.keys[i], s.heights[i] = int(nd.Score), nd.Value, nd.Level
	}
	for lv := 0; lv < len(d.HeaderNext); lv++ { // lanes: walk every level's chain from the header
		steps, x := 0, d.HeaderNext[lv]
		for x >= 0 && steps <= n {
			steps++
			s.lanes[x]++
			if lv < len(d.Nodes[x].Next) {
				x = d.Nodes[x].Next[lv]
			} else {
				x = -1
			}
		}
	}
	return s
}
func (c *zsetC) heightOf(k int) int {
	d := c.z.VerifDump()
	for _, nd := range d.Nodes {
		if nd.Value == k {
			return nd.Level
		}
	}
	return 0
}
func (c *zsetC) probe(rng *vhlib.Rng, n int, keys []int) skProbe {
	z := c.z
	var key, cnt int
	switch rng.Intn(12) {
	case 0:
		key = memberOr(rng, n, keys, 4)
		cnt = count(func() { z.Rank(key) })
		return skProbe{fmt.Sprintf("SLookup %s", vhlib.Z(int64(key))), "zset.Rank", cnt}
	case 1:
		key = memberOr(rng, n, keys, 4)
		cnt = count(func() { z.RevRank(key) })
		return skProbe{fmt.Sprintf("SLookup %s", vhlib.Z(int64(key))), "zset.RevRank", cnt}
	case 2:
		key = memberOr(rng, n, keys, 2)
		if rng.Bool() {
			cnt = count(func() { z.Score(key) })
			return skProbe{"SNoCmp", "zset.Score", cnt}
		}
		cnt = count(func() { z.Contains(key) })
		return skProbe{"SNoCmp", "zset.Contains", cnt}
	case 3, 4: // AddB of a (most likely) new member, score from a small range so that ties occur
		key = pickKey(rng, n)
		sc := rng.Intn(5) - 1
		cnt = count(func() { z.AddB(float64(sc), key) })
		return skProbe{fmt.Sprintf("SAdd %s %s %d%%nat", vhlib.Z(int64(sc)), vhlib.Z(int64(key)), c.heightOf(key)), "zset.AddB", cnt}
	case 5: // Add (score 0) of a new or an existing member
		key = memberOr(rng, n, keys, 2)
		cnt = count(func() { z.Add(key) })
		return skProbe{fmt.Sprintf("SAdd 0 %s %d%%nat", vhlib.Z(int64(key)), c.heightOf(key)), "zset.Add", cnt}
	case 6, 7: // AddB on an existing member: same score, +1 (in place where the neighbours allow), or far away (moves)
		key = memberOr(rng, n, keys, 8)
		old, _ := z.Score(key)
		sc := int(old) + []int{0, 1, 1, -1, 10, -7, 2*n + 5}[rng.Intn(7)]
		cnt = count(func() { z.AddB(float64(sc), key) })
		return skProbe{fmt.Sprintf("SAdd %s %s %d%%nat", vhlib.Z(int64(sc)), vhlib.Z(int64(key)), c.heightOf(key)), "zset.AddB(update)", cnt}
	case 8, 9: // IncrBy: existing members (also by 0) and new ones
		key = memberOr(rng, n, keys, 5)
		d := []int{0, 1, -1, 3, 2 * n, -5}[rng.Intn(6)]
		cnt = count(func() { z.IncrBy(float64(d), key) })
		return skProbe{fmt.Sprintf("SIncr %s %s %d%%nat", vhlib.Z(int64(d)), vhlib.Z(int64(key)), c.heightOf(key)), "zset.IncrBy", cnt}
	default:
		key = memberOr(rng, n, keys, 3)
		cnt = count(func() { z.RemoveB(key) })
		return skProbe{fmt.Sprintf("SDelete %s", vhlib.Z(int64(key))), "zset.RemoveB", cnt}
	}
}
func (c *zsetC) batches(rng *vhlib.Rng, n int, keys []int, size int) []skBatch {
	z := c.z
	var rank, rev, addNew, rem, same, upNear, upFar, incr, incrNew, rem2 []int
	for i := 0; i < size; i++ {
		k := keys[rng.Intn(n)]
		rank = append(rank, count(func() { z.Rank(k) }))
		k = keys[rng.Intn(n)]
		rev = append(rev, count(func() { z.RevRank(k) }))
	}
	for i := 0; i < size; i++ {
		k := 2*rng.Intn(n+1) + 1
		addNew = append(addNew, count(func() { z.AddB(float64(rng.Intn(4)), k) }))
		rem = append(rem, count(func() { z.RemoveB(k) }))
	}
	for i := 0; i < size; i++ { // score updates of existing members
		k := keys[rng.Intn(n)]
		old, _ := z.Score(k)
		same = append(same, count(func() { z.AddB(old, k) }))
		upNear = append(upNear, count(func() { z.AddB(old+1, k) }))
		k = keys[rng.Intn(n)]
		old, _ = z.Score(k)
		upFar = append(upFar, count(func() { z.AddB(old+float64(rng.Intn(2*n)-n), k) }))
		k = keys[rng.Intn(n)]
		incr = append(incr, count(func() { z.IncrBy(float64(rng.Intn(5)-2), k) }))
	}
	for i := 0; i < size; i++ {
		k := 2*rng.Intn(n+1) + 1
		incrNew = append(incrNew, count(func() { z.IncrBy(float64(rng.Intn(4)), k) }))
		rem2 = append(rem2, count(func() { z.RemoveB(k) }))
	}
	return []skBatch{{"zset.Rank", 1, rank}, {"zset.RevRank", 1, rev}, {"zset.AddB", 1, addNew}, {"zset.RemoveB", 1, rem},
		{"zset.AddB(same score)", 1, same}, {"zset.AddB(score+1)", 2, upNear}, {"zset.AddB(new score)", 2, upFar},
		{"zset.IncrBy", 2, incr}, {"zset.IncrBy(new)", 1, incrNew}, {"zset.RemoveB(2)", 1, rem2}}
}

// ---------------- skipmap ----------------
type skipmapC struct{ m *skipmap.Map[int, int] }

func newSkipmap() skipC           { return &skipmapC{skipmap.New[int, int](counting())} }
func (c *skipmapC) kind() string  { return "SKM" }
func (c *skipmapC) label() string { return "skipmap" }
func (c *skipmapC) modes() []string {
	return []string{"Store", "LoadOrStore", "LoadOrStoreLazy", "mixed"}
}
func (c *skipmapC) insertVia(mode string, i int, k int) {
	if mode == "mixed" {
		mode = []string{"Store", "LoadOrStore", "LoadOrStoreLazy", "Put"}[i%4]
	}
	switch mode {
	case "Store":
		c.m.Store(k, k)
	case "Put":
		c.m.Put(k, k)
	case "LoadOrStore":
		c.m.LoadOrStore(k, k)
	case "LoadOrStoreLazy":
		c.m.LoadOrStoreLazy(k, func() int { return k })
	}
}
func (c *skipmapC) removeForChurn(k int) { c.m.Delete(k) }
func fixLanes(lanes []int) []int {
	out := make([]int, len(lanes))
	for i, l := range lanes {
		if l > 0 {
			out[i] = l
		}
	}
	return out
}
func (c *skipmapC) shape() skShape {
	lanes, heights, highest, _ := c.m.VerifShape()
	s := skShape{heights: heights, lanes: fixLanes(lanes), highest: highest}
	c.m.Range(func(k, _ int) bool { s.keys = append(s.keys, k); return true })
	return s
}
func (c *skipmapC) levelIfNew(was bool, k int) int {
	if was {
		return 0
	}
	return c.shape().heightOf(k)
}
func (c *skipmapC) probe(rng *vhlib.Rng, n int, keys []int) skProbe {
	m := c.m
	key := pickKey(rng, n)
	kz := func() string { return vhlib.Z(int64(key)) }
	var cnt int
	switch rng.Intn(12) {
	case 0:
		cnt = count(func() { m.Load(key) })
		return skProbe{"SLookup " + kz(), "skipmap.Load", cnt}
	case 1:
		key = memberOr(rng, n, keys, 3)
		cnt = count(func() { m.Get(key) })
		return skProbe{"SLookup " + kz(), "skipmap.Get", cnt}
	case 2:
		_, was := m.Load(key)
		cnt = count(func() { m.Store(key, key) })
		return skProbe{fmt.Sprintf("SInsert %s %d%%nat", kz(), c.levelIfNew(was, key)), "skipmap.Store", cnt}
	case 3, 4:
		key = memberOr(rng, n, keys, 2)
		_, was := m.Load(key)
		cnt = count(func() { m.LoadOrStore(key, key) })
		return skProbe{fmt.Sprintf("SLoS %s %d%%nat", kz(), c.levelIfNew(was, key)), "skipmap.LoadOrStore", cnt}
	case 5, 6:
		key = memberOr(rng, n, keys, 2)
		_, was := m.Load(key)
		cnt = count(func() { m.LoadOrStoreLazy(key, func() int { return key }) })
		return skProbe{fmt.Sprintf("SLoS %s %d%%nat", kz(), c.levelIfNew(was, key)), "skipmap.LoadOrStoreLazy", cnt}
	case 7, 8:
		key = memberOr(rng, n, keys, 3)
		cnt = count(func() { m.Delete(key) })
		return skProbe{"SDelete " + kz(), "skipmap.Delete", cnt}
	case 9:
		key = memberOr(rng, n, keys, 3)
		cnt = count(func() { m.LoadAndDelete(key) })
		return skProbe{"SDelete " + kz(), "skipmap.LoadAndDelete", cnt}
	case 10:
		_, was := m.Load(key)
		cnt = count(func() { m.Put(key, key) })
		return skProbe{fmt.Sprintf("SInsert %s %d%%nat", kz(), c.levelIfNew(was, key)), "skipmap.Put", cnt}
	default:
		if rng.Bool() {
			cnt = count(func() { m.Range(func(int, int) bool { return false }) })
			return skProbe{"SNoCmp", "skipmap.Range(first)", cnt}
		}
		cnt = count(func() { m.Len() })
		return skProbe{"SNoCmp", "skipmap.Len", cnt}
	}
}
func (c *skipmapC) batches(rng *vhlib.Rng, n int, keys []int, size int) []skBatch {
	m := c.m
	var load, loadA, losP, losA, del, lazyA, lad, rng0, store, del2, storeP []int
	// first everything that does not go through Store (Store raises highestLevel by itself)
	for i := 0; i < size; i++ {
		k := keys[rng.Intn(n)]
		load = append(load, count(func() { m.Load(k) }))
		k = 2*rng.Intn(n+1) + 1
		loadA = append(loadA, count(func() { m.Load(k) }))
		k = keys[rng.Intn(n)]
		losP = append(losP, count(func() { m.LoadOrStore(k, 7) }))
		rng0 = append(rng0, count(func() { m.Range(func(int, int) bool { return false }) }))
	}
	for i := 0; i < size; i++ {
		k := 2*rng.Intn(n+1) + 1
		losA = append(losA, count(func() { m.LoadOrStore(k, k) }))
		del = append(del, count(func() { m.Delete(k) }))
		k = 2*rng.Intn(n+1) + 1
		lazyA = append(lazyA, count(func() { m.LoadOrStoreLazy(k, func() int { return k }) }))
		lad = append(lad, count(func() { m.LoadAndDelete(k) }))
	}
	for i := 0; i < size; i++ {
		k := 2*rng.Intn(n+1) + 1
		store = append(store, count(func() { m.Store(k, k) }))
		del2 = append(del2, count(func() { m.Delete(k) }))
		k = keys[rng.Intn(n)]
		storeP = append(storeP, count(func() { m.Store(k, 9) }))
	}
	// LoadOrStore of an absent key may search twice (when the level drawn exceeds highestLevel at entry)
	return []skBatch{{"skipmap.Load", 1, load}, {"skipmap.Load(absent)", 1, loadA}, {"skipmap.LoadOrStore(present)", 1, losP},
		{"skipmap.Range(first)", 1, rng0}, {"skipmap.LoadOrStore(absent)", 2, losA}, {"skipmap.Delete", 1, del},
		{"skipmap.LoadOrStoreLazy(absent)", 2, lazyA}, {"skipmap.LoadAndDelete", 1, lad},
		{"skipmap.Store", 1, store}, {"skipmap.Delete(2)", 1, del2}, {"skipmap.Store(present)", 1, storeP}}
}

// ---------------- skipset ----------------
type skipsetC struct{ s *skipset.Set[int] }

func newSkipset() skipC             { return &skipsetC{skipset.New[int](counting())} }
func (c *skipsetC) kind() string    { return "SKS" }
func (c *skipsetC) label() string   { return "skipset" }
func (c *skipsetC) modes() []string { return []string{"AddB", "Add", "mixed"} }
func (c *skipsetC) insertVia(mode string, i int, k int) {
	if mode == "mixed" {
		mode = []string{"AddB", "Add"}[i%2]
	}
	if mode == "Add" {
		c.s.Add(k)
	} else {
		c.s.AddB(k)
	}
}
func (c *skipsetC) removeForChurn(k int) { c.s.RemoveB(k) }
func (c *skipsetC) shape() skShape {
	lanes, heights, highest, _ := c.s.VerifShape()
	s := skShape{heights: heights, lanes: fixLanes(lanes), highest: highest}
	c.s.Range(func(k int) bool { s.keys = append(s.keys, k); return true })
	return s
}
func (c *skipsetC) probe(rng *vhlib.Rng, n int, keys []int) skProbe {
	s := c.s
	key := pickKey(rng, n)
	kz := func() string { return vhlib.Z(int64(key)) }
	lvl := func(was bool) int {
		if was {
			return 0
		}
		return c.shape().heightOf(key)
	}
	var cnt int
	switch rng.Intn(8) {
	case 0:
		cnt = count(func() { s.ContainsB(key) })
		return skProbe{"SLookup " + kz(), "skipset.ContainsB", cnt}
	case 1:
		key = memberOr(rng, n, keys, 3)
		cnt = count(func() { s.Contains(key) })
		return skProbe{"SLookup " + kz(), "skipset.Contains", cnt}
	case 2, 3:
		was := s.ContainsB(key)
		cnt = count(func() { s.AddB(key) })
		return skProbe{fmt.Sprintf("SInsert %s %d%%nat", kz(), lvl(was)), "skipset.AddB", cnt}
	case 4:
		key = memberOr(rng, n, keys, 2)
		was := s.ContainsB(key)
		cnt = count(func() { s.Add(key) })
		return skProbe{fmt.Sprintf("SInsert %s %d%%nat", kz(), lvl(was)), "skipset.Add", cnt}
	case 5:
		key = memberOr(rng, n, keys, 3)
		cnt = count(func() { s.RemoveB(key) })
		return skProbe{"SDelete " + kz(), "skipset.RemoveB", cnt}
	case 6:
		key = memberOr(rng, n, keys, 3)
		cnt = count(func() { s.Remove(key) })
		return skProbe{"SDelete " + kz(), "skipset.Remove", cnt}
	default:
		if rng.Bool() {
			cnt = count(func() { s.Range(func(int) bool { return false }) })
			return skProbe{"SNoCmp", "skipset.Range(first)", cnt}
		}
		cnt = count(func() { s.Len() })
		return skProbe{"SNoCmp", "skipset.Len", cnt}
	}
}
func (c *skipsetC) batches(rng *vhlib.Rng, n int, keys []int, size int) []skBatch {
	s := c.s
	var con, conA, add, rem, addP, add2, rem2 []int
	for i := 0; i < size; i++ {
		k := keys[rng.Intn(n)]
		con = append(con, count(func() { s.ContainsB(k) }))
		k = 2*rng.Intn(n+1) + 1
		conA = append(conA, count(func() { s.Contains(k) }))
	}
	for i := 0; i < size; i++ {
		k := 2*rng.Intn(n+1) + 1
		add = append(add, count(func() { s.AddB(k) }))
		rem = append(rem, count(func() { s.RemoveB(k) }))
		k = keys[rng.Intn(n)]
		addP = append(addP, count(func() { s.AddB(k) }))
		k = 2*rng.Intn(n+1) + 1
		add2 = append(add2, count(func() { s.Add(k) }))
		rem2 = append(rem2, count(func() { s.Remove(k) }))
	}
	return []skBatch{{"skipset.ContainsB", 1, con}, {"skipset.Contains(absent)", 1, conA}, {"skipset.AddB", 1, add},
		{"skipset.RemoveB", 1, rem}, {"skipset.AddB(present)", 1, addP}, {"skipset.Add", 1, add2}, {"skipset.Remove", 1, rem2}}
}

// ---------------- population ----------------
func populate(rng *vhlib.Rng, c skipC, n int, prof, mode string) []int {
	keys := make([]int, n)
	for i := range keys {
		keys[i] = 2 * (i + 1)
	}
	order := append([]int(nil), keys...)
	switch prof {
	case "asc":
	case "desc":
		for i, j := 0, n-1; i < j; i, j = i+1, j-1 {
			order[i], order[j] = order[j], order[i]
		}
	case "zigzag":
		z := make([]int, 0, n)
		for i, j := 0, n-1; i <= j; i, j = i+1, j-1 {
			z = append(z, keys[i])
			if i != j {
				z = append(z, keys[j])
			}
		}
		order = z
	default:
		for i, j := range rng.Perm(n) {
			order[i] = keys[j]
		}
	}
	for i, k := range order {
		c.insertVia(mode, i, k)
	}
	if prof == "churn" {
		for round := 0; round < 3; round++ {
			p := rng.Perm(n)
			for _, j := range p[:n*2/3] {
				c.removeForChurn(keys[j])
			}
			for i, j := range p[:n*2/3] {
				c.insertVia(mode, i, keys[j])
			}
		}
	}
	return keys
}

func snodes(s skShape) string {
	it := make([]string, 0, len(s.keys))
	for i := range s.keys {
		h, sc := 0, 0
		if i < len(s.heights) {
			h = s.heights[i]
		}
		if i < len(s.scores) {
			sc = s.scores[i]
		}
		it = append(it, fmt.Sprintf("(%s, %s, %d%%nat)", vhlib.Z(int64(sc)), vhlib.Z(int64(s.keys[i])), h))
	}
	return bigList(it)
}

var skipMakers = []func() skipC{newZset, newSkipmap, newSkipset}

// ---------- E. exact ----------
func skipOps(w *vhlib.Writer, rng *vhlib.Rng, o vhlib.Opts) {
	sizes := []int{0, 1, 2, 5, 16, 64, 256, 1024}
	if o.Thorough() {
		sizes = append(sizes, 2048, 4096)
	}
	for _, mk := range skipMakers {
		for mi, mode := range mk().modes() {
			for _, n := range sizes {
				for _, prof := range profiles {
					if n < 5 && prof != "random" && prof != "asc" {
						continue
					}
					// the first mode runs the whole grid; the other entry points a sub-grid
					if mi > 0 && !((n == 5 && prof == "random") || (n == 64 && prof == "churn") || (n == 256 && prof == "random") || (n == 1024 && prof == "churn")) {
						continue
					}
					c := mk()
					keys := populate(rng, c, n, prof, mode)
					s0 := c.shape()
					nops := 96
					if n < 16 {
						nops = 32
					}
					var ops []string
					steps := []string{c.label() + ".lanes"}
					for i := 0; i < nops; i++ {
						p := c.probe(rng, n, keys)
						ops = append(ops, fmt.Sprintf("(%s, %d%%nat, %d%%nat)", p.term, p.calls, c.shape().highest))
						steps = append(steps, p.label)
					}
					f := c.shape()
					ops = append(ops, fmt.Sprintf("(SFinal %s, 0%%nat, %d%%nat)", snodes(f), f.highest))
					steps = append(steps, c.label()+".finalshape")
					term := fmt.Sprintf("CSkipOps %s %d%%nat %s %s %s %s %s", c.kind(), s0.highest, bigIntList(s0.scores), bigIntList(s0.keys),
						bigNatList(s0.heights), bigNatList(s0.lanes), vhlib.List(ops))
					w.Case(term, c.label()+" ops via "+mode, n >= 2, steps,
						map[string]interface{}{"kind": c.label(), "n": n, "profile": prof, "populated_via": mode, "highest": s0.highest, "ops": ops[:len(ops)-1]})
				}
			}
		}
	}
}

// ---------- F. batch averages per population entry point ----------
func skipAvg(w *vhlib.Writer, rng *vhlib.Rng, o vhlib.Opts) {
	sizes := []int{256, 1024, 4096}
	if o.Thorough() {
		sizes = []int{256, 1024, 4096, 16384, 65536}
	}
	for _, mk := range skipMakers {
		for _, mode := range mk().modes() {
			for _, n := range sizes {
				for _, prof := range []string{"random", "asc", "churn"} {
					c := mk()
					keys := populate(rng, c, n, prof, mode)
					bs := c.batches(rng, n, keys, 256)
					var items, steps []string
					for _, b := range bs {
						items = append(items, fmt.Sprintf("(%d, %s)", b.factor, vhlib.NatList(b.counts)))
						steps = append(steps, b.name)
					}
					term := fmt.Sprintf("CSkipAvg %d %s", n, vhlib.List(items))
					w.Case(term, c.label()+" avg via "+mode, true, steps,
						map[string]interface{}{"kind": c.label(), "n": n, "profile": prof, "populated_via": mode, "highest": c.shape().highest})
				}
			}
		}
	}
}
