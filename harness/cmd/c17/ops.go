// C17 harness, stateful exact-cost cases: a shape is dumped once, then MUTATING operations run on the real
// container; each records its comparator-call count, the Coq side carries the model container along (C01 B-tree
// model / level-0 node sequence with heights), computes the cost function on the state immediately before the
// operation and finally compares its state with a second dump.
package main

import (
	"fmt"
	"sort"
	"strings"

	"github.com/songzhibin97/go-baseutils/structure/maps/skipmap"
	"github.com/songzhibin97/go-baseutils/structure/sets/skipset"
	"github.com/songzhibin97/go-baseutils/structure/sets/zset"
	"github.com/songzhibin97/go-baseutils/structure/trees/avltree"
	"github.com/songzhibin97/go-baseutils/structure/trees/btree"
	"github.com/songzhibin97/go-baseutils/structure/trees/redblacktree"

	"vh/vhlib"
)

// Coq overflows its stack on a list literal of 2^16 elements: long lists are printed as  (chunk ++ chunk ++ ...)
func bigList(items []string) string {
	const chunk = 4096
	if len(items) <= chunk {
		return vhlib.List(items)
	}
	var parts []string
	for i := 0; i < len(items); i += chunk {
		j := i + chunk
		if j > len(items) {
			j = len(items)
		}
		parts = append(parts, vhlib.List(items[i:j]))
	}
	return "(" + strings.Join(parts, " ++ ") + ")"
}
func bigNatList(vs []int) string {
	it := make([]string, len(vs))
	for i, v := range vs {
		it[i] = vhlib.Nat(v)
	}
	return bigList(it)
}
func bigIntList(vs []int) string {
	it := make([]string, len(vs))
	for i, v := range vs {
		it[i] = vhlib.Z(int64(v))
	}
	return bigList(it)
}

// ---------- D. B-tree Put / Remove / Get, exact ----------
func btOps(w *vhlib.Writer, rng *vhlib.Rng, o vhlib.Opts) {
	sizes := []int{0, 1, 2, 3, 5, 8, 13, 21, 40, 64, 100, 256}
	if o.Thorough() {
		sizes = append(sizes, 512, 1000, 2048)
	}
	mixes := []string{"grow", "shrink", "mixed"}
	for _, m := range []int{3, 4, 5, 6, 8, 16} {
		for _, n := range sizes {
			for pi, prof := range profiles {
				if n < 5 && prof != "random" && prof != "asc" {
					continue
				}
				mix := mixes[(pi+n)%3]
				t := btree.NewWith[int, int](m, counting())
				build(rng, btT{t}, n, prof)
				dump := func() string {
					if t.Root == nil {
						return "SBTEmpty"
					}
					return "SBT " + btShape(t.Root)
				}
				shape := dump()
				present := map[int]bool{}
				for _, k := range t.Keys() {
					present[k] = true
				}
				somePresent := func() (int, bool) {
					if len(present) == 0 {
						return 0, false
					}
					ks := make([]int, 0, len(present))
					for k := range present {
						ks = append(ks, k)
					}
					sort.Ints(ks)
					return ks[rng.Intn(len(ks))], true
				}
				var ops, steps []string
				nops := 48
				for i := 0; i < nops; i++ {
					r := rng.Intn(10)
					var op string
					switch mix {
					case "grow":
						op = []string{"MPut", "MPut", "MPut", "MPut", "MPut", "MPut", "MPutP", "MRemove", "MGet", "MRemoveA"}[r]
					case "shrink":
						op = []string{"MRemove", "MRemove", "MRemove", "MRemove", "MRemove", "MRemove", "MRemove", "MPut", "MGet", "MRemoveA"}[r]
					default:
						op = []string{"MPut", "MPut", "MPut", "MRemove", "MRemove", "MRemove", "MPutP", "MGet", "MGet", "MRemoveA"}[r]
					}
					var key, c int
					switch op {
					case "MPut": // a key that is (most likely) new: odd, or beyond the range
						key = 2*rng.Intn(n+8) + 1
						if rng.Intn(8) == 0 {
							key = -rng.Intn(50)
						}
						c = count(func() { t.Put(key, key) })
						present[key] = true
					case "MPutP":
						k, ok := somePresent()
						if !ok {
							k = 1
						}
						key, op = k, "MPut"
						c = count(func() { t.Put(key, key) })
						present[key] = true
					case "MRemove":
						k, ok := somePresent()
						if !ok {
							k = 4
						}
						key = k
						c = count(func() { t.Remove(key) })
						delete(present, key)
					case "MRemoveA":
						key, op = 2*rng.Intn(n+8)+1, "MRemove"
						c = count(func() { t.Remove(key) })
						delete(present, key)
					case "MGet":
						key = rng.Intn(2*n + 3)
						c = count(func() { t.Get(key) })
					}
					ops = append(ops, fmt.Sprintf("(%s %s, %d%%nat)", op, vhlib.Z(int64(key)), c))
					steps = append(steps, "bt."+op[1:])
				}
				ops = append(ops, fmt.Sprintf("(MFinal (%s), 0%%nat)", dump()))
				steps = append(steps, "bt.finalshape")
				term := fmt.Sprintf("CBTOps %d%%nat (%s) %s", m, shape, vhlib.List(ops))
				w.Case(term, fmt.Sprintf("bt/m=%d ops", m), true, steps,
					map[string]interface{}{"kind": "bt", "m": m, "n": n, "profile": prof, "mix": mix, "ops": ops[:len(ops)-1]})
			}
		}
	}
}

// ---------- D2. red-black / AVL Put / Remove / Get, exact, on a carried model tree ----------
func rbColored(n *redblacktree.Node[int, int]) string {
	if n == nil {
		return "E"
	}
	c := "RB.R"
	if n.VerifColor() {
		c = "RB.B"
	}
	return fmt.Sprintf("(T %s %s %s %s %s)", c, rbColored(n.Left), vhlib.Z(int64(n.Key)), vhlib.Z(int64(n.Value)), rbColored(n.Right))
}
func avlBalanced(n *avltree.Node[int, int]) string {
	if n == nil {
		return "E"
	}
	return fmt.Sprintf("(T %s %s %s %s %s)", vhlib.Z(int64(n.VerifBalance())), avlBalanced(n.Children[0]), vhlib.Z(int64(n.Key)), vhlib.Z(int64(n.Value)), avlBalanced(n.Children[1]))
}

func binOps(w *vhlib.Writer, rng *vhlib.Rng, o vhlib.Opts) {
	sizes := []int{0, 1, 2, 3, 5, 8, 13, 21, 40, 64, 100, 256}
	if o.Thorough() {
		sizes = append(sizes, 512, 1000, 2048)
	}
	mixes := []string{"grow", "shrink", "mixed"}
	for _, kind := range []string{"rb", "avl"} {
		for _, n := range sizes {
			for pi, prof := range profiles {
				if n < 5 && prof != "random" && prof != "asc" {
					continue
				}
				mix := mixes[(pi+n)%3]
				var t tree
				var dump func() string
				var keysOf func() []int
				if kind == "rb" {
					rt := redblacktree.NewWith[int, int](counting())
					t, dump, keysOf = rbT{rt}, func() string { return "SRB " + rbColored(rt.Root) }, rt.Keys
				} else {
					at := avltree.NewWith[int, int](counting())
					t, dump, keysOf = avlT{at}, func() string { return "SAVL " + avlBalanced(at.Root) }, at.Keys
				}
				build(rng, t, n, prof)
				shape := dump()
				present := keysOf()
				var ops, steps []string
				for i := 0; i < 48; i++ {
					r := rng.Intn(10)
					var op string
					switch mix {
					case "grow":
						op = []string{"MPut", "MPut", "MPut", "MPut", "MPut", "MPut", "MPutP", "MRemove", "MGet", "MRemoveA"}[r]
					case "shrink":
						op = []string{"MRemove", "MRemove", "MRemove", "MRemove", "MRemove", "MRemove", "MRemove", "MPut", "MGet", "MRemoveA"}[r]
					default:
						op = []string{"MPut", "MPut", "MPut", "MRemove", "MRemove", "MRemove", "MPutP", "MGet", "MGet", "MRemoveA"}[r]
					}
					if (op == "MPutP" || op == "MRemove") && len(present) == 0 {
						op = "MPut"
					}
					var key, c int
					switch op {
					case "MPut":
						key = 2*rng.Intn(n+8) + 1
						if rng.Intn(8) == 0 {
							key = -rng.Intn(50)
						}
						c = count(func() { t.Put(key, key) })
					case "MPutP":
						key, op = present[rng.Intn(len(present))], "MPut"
						c = count(func() { t.Put(key, key) })
					case "MRemove":
						key = present[rng.Intn(len(present))]
						c = count(func() { t.Remove(key) })
					case "MRemoveA":
						key, op = 2*rng.Intn(n+8)+1, "MRemove"
						c = count(func() { t.Remove(key) })
					case "MGet":
						key = rng.Intn(2*n + 3)
						c = count(func() { t.Get(key) })
					}
					present = keysOf()
					ops = append(ops, fmt.Sprintf("(%s %s, %d%%nat)", op, vhlib.Z(int64(key)), c))
					steps = append(steps, kind+"."+op[1:])
				}
				ops = append(ops, fmt.Sprintf("(MFinal (%s), 0%%nat)", dump()))
				steps = append(steps, kind+".finalshape")
				term := fmt.Sprintf("CBinOps (%s) %s", shape, vhlib.List(ops))
				w.Case(term, kind+" ops", true, steps,
					map[string]interface{}{"kind": kind, "n": n, "profile": prof, "mix": mix, "ops": ops[:len(ops)-1]})
			}
		}
	}
}

// ---------- E. skip lists, exact search cost ----------
type skipAdapter struct {
	kind   string // SKZ | SKM | SKS
	label  string
	lookup func(k int)
	insert func(k int)
	remove func(k int)
	shape  func() (keys, heights, lanes []int, highest int)
	opname [3]string
}

func zsetAdapter() skipAdapter {
	z := zset.New[int](counting())
	return skipAdapter{
		kind: "SKZ", label: "zset", opname: [3]string{"zset.Rank", "zset.AddB", "zset.RemoveB"},
		lookup: func(k int) { z.Rank(k) },
		insert: func(k int) { z.AddB(0, k) }, // all scores equal: the member comparator decides every step
		remove: func(k int) { z.RemoveB(k) },
		shape: func() (keys, heights, lanes []int, highest int) {
			d := z.VerifDump()
			keys, heights, lanes = make([]int, len(d.Nodes)), make([]int, len(d.Nodes)), make([]int, len(d.Nodes))
			for i, nd := range d.Nodes {
				keys[i], heights[i] = nd.Value, nd.Level
			}
			// lanes: walk every level's chain from the header
			for lv := 0; lv < len(d.HeaderNext); lv++ {
				steps, x := 0, d.HeaderNext[lv]
				for x >= 0 && steps <= len(d.Nodes) {
					steps++
					lanes[x]++
					if lv < len(d.Nodes[x].Next) {
						x = d.Nodes[x].Next[lv]
					} else {
						x = -1
					}
				}
			}
			return keys, heights, lanes, d.Highest
		},
	}
}

func fixLanes(lanes []int) []int {
	out := make([]int, len(lanes))
	for i, l := range lanes {
		if l > 0 {
			out[i] = l
		}
	}
	return out
}

func skipmapAdapter() skipAdapter {
	m := skipmap.New[int, int](counting())
	return skipAdapter{
		kind: "SKM", label: "skipmap", opname: [3]string{"skipmap.Load", "skipmap.Store", "skipmap.Delete"},
		lookup: func(k int) { m.Load(k) },
		insert: func(k int) { m.Store(k, k) },
		remove: func(k int) { m.Delete(k) },
		shape: func() (keys, heights, lanes []int, highest int) {
			lanes, heights, highest, _ = m.VerifShape()
			m.Range(func(k, _ int) bool { keys = append(keys, k); return true })
			return keys, heights, fixLanes(lanes), highest
		},
	}
}

func skipsetAdapter() skipAdapter {
	s := skipset.New[int](counting())
	return skipAdapter{
		kind: "SKS", label: "skipset", opname: [3]string{"skipset.Contains", "skipset.AddB", "skipset.RemoveB"},
		lookup: func(k int) { s.Contains(k) },
		insert: func(k int) { s.AddB(k) },
		remove: func(k int) { s.RemoveB(k) },
		shape: func() (keys, heights, lanes []int, highest int) {
			lanes, heights, highest, _ = s.VerifShape()
			s.Range(func(k int) bool { keys = append(keys, k); return true })
			return keys, heights, fixLanes(lanes), highest
		},
	}
}

func knodes(keys, heights []int) string {
	it := make([]string, 0, len(keys))
	for i := range keys {
		h := 0
		if i < len(heights) {
			h = heights[i]
		}
		it = append(it, fmt.Sprintf("(%s, %d%%nat)", vhlib.Z(int64(keys[i])), h))
	}
	return bigList(it)
}

func skipOps(w *vhlib.Writer, rng *vhlib.Rng, o vhlib.Opts) {
	sizes := []int{0, 1, 2, 5, 16, 64, 256, 1024}
	if o.Thorough() {
		sizes = append(sizes, 2048, 4096)
	}
	for _, mk := range []func() skipAdapter{zsetAdapter, skipmapAdapter, skipsetAdapter} {
		for _, n := range sizes {
			for _, prof := range profiles {
				if n < 5 && prof != "random" && prof != "asc" {
					continue
				}
				a := mk()
				keys := make([]int, n)
				for i := range keys {
					keys[i] = 2 * (i + 1)
				}
				order := append([]int(nil), keys...)
				switch prof {
				case "asc":
				case "desc":
					for i, j := 0, n-1; i < j; i, j = i+1, j-1 {
						order[i], order[j] = order[j], order[i]
					}
				case "zigzag":
					z := make([]int, 0, n)
					for i, j := 0, n-1; i <= j; i, j = i+1, j-1 {
						z = append(z, keys[i])
						if i != j {
							z = append(z, keys[j])
						}
					}
					order = z
				default:
					for i, j := range rng.Perm(n) {
						order[i] = keys[j]
					}
				}
				for _, k := range order {
					a.insert(k)
				}
				if prof == "churn" {
					for round := 0; round < 3; round++ {
						p := rng.Perm(n)
						for _, j := range p[:n*2/3] {
							a.remove(keys[j])
						}
						for _, j := range p[:n*2/3] {
							a.insert(keys[j])
						}
					}
				}
				ks, hs, lanes, hi := a.shape()
				present := map[int]bool{}
				for _, k := range ks {
					present[k] = true
				}
				nops := 96
				if n < 16 {
					nops = 32
				}
				var ops, steps []string
				for i := 0; i < nops; i++ {
					var key, c, h int
					var term string
					// keys: present ones, absent odd ones inside the range, and keys below / above every element
					pick := func() int {
						switch rng.Intn(8) {
						case 0:
							return -rng.Intn(5)
						case 1:
							return 2*n + 1 + rng.Intn(7)
						default:
							return rng.Intn(2*n + 3)
						}
					}
					switch rng.Intn(6) {
					case 0, 1:
						key = pick()
						if a.kind == "SKZ" && n > 0 && rng.Intn(4) != 0 { // Rank searches only for members
							key = keys[rng.Intn(n)]
						}
						c = count(func() { a.lookup(key) })
						term = fmt.Sprintf("SLookup %s", vhlib.Z(int64(key)))
						steps = append(steps, a.opname[0])
					case 2, 3:
						key = pick()
						was := present[key]
						c = count(func() { a.insert(key) })
						present[key] = true
						if !was {
							k2, h2, _, _ := a.shape()
							for j, kk := range k2 {
								if kk == key && j < len(h2) {
									h = h2[j]
								}
							}
						}
						term = fmt.Sprintf("SInsert %s %d%%nat", vhlib.Z(int64(key)), h)
						steps = append(steps, a.opname[1])
					default:
						key = pick()
						if n > 0 && rng.Intn(3) != 0 {
							key = keys[rng.Intn(n)]
						}
						c = count(func() { a.remove(key) })
						delete(present, key)
						term = fmt.Sprintf("SDelete %s", vhlib.Z(int64(key)))
						steps = append(steps, a.opname[2])
					}
					_, _, _, ha := a.shape()
					ops = append(ops, fmt.Sprintf("(%s, %d%%nat, %d%%nat)", term, c, ha))
				}
				fk, fh, _, fhi := a.shape()
				ops = append(ops, fmt.Sprintf("(SFinal %s, 0%%nat, %d%%nat)", knodes(fk, fh), fhi))
				steps = append(steps, a.label+".finalshape")
				term := fmt.Sprintf("CSkipOps %s %d%%nat %s %s %s %s", a.kind, hi, bigIntList(ks), bigNatList(hs), bigNatList(lanes), vhlib.List(ops))
				w.Case(term, a.label+" ops", n >= 2, append([]string{a.label + ".lanes"}, steps...),
					map[string]interface{}{"kind": a.label, "n": n, "profile": prof, "highest": hi, "ops": ops[:len(ops)-1]})
			}
		}
	}
}
