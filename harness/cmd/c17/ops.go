// C17 harness, stateful exact-cost cases: a shape is dumped once, then MUTATING operations run on the real
// container; each records its comparator-call count, the Coq side carries the model container along (C01 B-tree
// model / level-0 node sequence with heights), computes the cost function on the state immediately before the
// operation and finally compares its state with a second dump.
package main

import (
	"fmt"
	"sort"
	"strings"

	"github.com/songzhibin97/go-baseutils/structure/trees/avltree"
	"github.com/songzhibin97/go-baseutils/structure/trees/btree"
	"github.com/songzhibin97/go-baseutils/structure/trees/redblacktree"

	"vh/vhlib"
)

// Coq overflows its stack on a list literal of 2^16 elements: long lists are printed as  (chunk ++ chunk ++ ...)
func bigList(items []string) string {
	const chunk = 4096
	if len(items) <= chunk {
		return vhlib.List(items)
	}
	var parts []string
	for i := 0; i < len(items); i += chunk {
		j := i + chunk
		if j > len(items) {
			j = len(items)
		}
		parts = append(parts, vhlib.List(items[i:j]))
	}
	return "(" + strings.Join(parts, " ++ ") + ")"
}
func bigNatList(vs []int) string {
	it := make([]string, len(vs))
	for i, v := range vs {
		it[i] = vhlib.Nat(v)
	}
	return bigList(it)
}
func bigIntList(vs []int) string {
	it := make([]string, len(vs))
	for i, v := range vs {
		it[i] = vhlib.Z(int64(v))
	}
	return bigList(it)
}

// ---------- D. B-tree Put / Remove / Get, exact ----------
func btOps(w *vhlib.Writer, rng *vhlib.Rng, o vhlib.Opts) {
	sizes := []int{0, 1, 2, 3, 5, 8, 13, 21, 40, 64, 100, 256}
	if o.Thorough() {
		sizes = append(sizes, 512, 1000, 2048)
	}
	mixes := []string{"grow", "shrink", "mixed"}
	for _, m := range []int{3, 4, 5, 6, 8, 16} {
		for _, n := range sizes {
			for pi, prof := range profiles {
				if n < 5 && prof != "random" && prof != "asc" {
					continue
				}
				mix := mixes[(pi+n)%3]
				t := btree.NewWith[int, int](m, counting())
				build(rng, btT{t}, n, prof)
				dump := func() string {
					if t.Root == nil {
						return "SBTEmpty"
					}
					return "SBT " + btShape(t.Root)
				}
				shape := dump()
				present := map[int]bool{}
				for _, k := range t.Keys() {
					present[k] = true
				}
				somePresent := func() (int, bool) {
					if len(present) == 0 {
						return 0, false
					}
					ks := make([]int, 0, len(present))
					for k := range present {
						ks = append(ks, k)
					}
					sort.Ints(ks)
					return ks[rng.Intn(len(ks))], true
				}
				var ops, steps []string
				nops := 48
				for i := 0; i < nops; i++ {
					r := rng.Intn(10)
					var op string
					switch mix {
					case "grow":
						op = []string{"MPut", "MPut", "MPut", "MPut", "MPut", "MPut", "MPutP", "MRemove", "MGet", "MRemoveA"}[r]
					case "shrink":
						op = []string{"MRemove", "MRemove", "MRemove", "MRemove", "MRemove", "MRemove", "MRemove", "MPut", "MGet", "MRemoveA"}[r]
					default:
						op = []string{"MPut", "MPut", "MPut", "MRemove", "MRemove", "MRemove", "MPutP", "MGet", "MGet", "MRemoveA"}[r]
					}
					var key, c int
					switch op {
					case "MPut": // a key that is (most likely) new: odd, or beyond the range
						key = 2*rng.Intn(n+8) + 1
						if rng.Intn(8) == 0 {
							key = -rng.Intn(50)
						}
						c = count(func() { t.Put(key, key) })
						present[key] = true
					case "MPutP":
						k, ok := somePresent()
						if !ok {
							k = 1
						}
						key, op = k, "MPut"
						c = count(func() { t.Put(key, key) })
						present[key] = true
					case "MRemove":
						k, ok := somePresent()
						if !ok {
							k = 4
						}
						key = k
						c = count(func() { t.Remove(key) })
						delete(present, key)
					case "MRemoveA":
						key, op = 2*rng.Intn(n+8)+1, "MRemove"
						c = count(func() { t.Remove(key) })
						delete(present, key)
					case "MGet":
						key = rng.Intn(2*n + 3)
						c = count(func() { t.Get(key) })
					}
					ops = append(ops, fmt.Sprintf("(%s %s, %d%%nat)", op, vhlib.Z(int64(key)), c))
					steps = append(steps, "bt."+op[1:])
				}
				ops = append(ops, fmt.Sprintf("(MFinal (%s), 0%%nat)", dump()))
				steps = append(steps, "bt.finalshape")
				term := fmt.Sprintf("CBTOps %d%%nat (%s) %s", m, shape, vhlib.List(ops))
				w.Case(term, fmt.Sprintf("bt/m=%d ops", m), true, steps,
					map[string]interface{}{"kind": "bt", "m": m, "n": n, "profile": prof, "mix": mix, "ops": ops[:len(ops)-1]})
			}
		}
	}
}

// ---------- D2. red-black / AVL Put / Remove / Get, exact, on a carried model tree ----------
func rbColored(n *redblacktree.Node[int, int]) string {
	if n == nil {
		return "E"
	}
	c := "RB.R"
	if n.VerifColor() {
		c = "RB.B"
	}
	return fmt.Sprintf("(T %s %s %s %s %s)", c, rbColored(n.Left), vhlib.Z(int64(n.Key)), vhlib.Z(int64(n.Value)), rbColored(n.Right))
}
func avlBalanced(n *avltree.Node[int, int]) string {
	if n == nil {
		return "E"
	}
	return fmt.Sprintf("(T %s %s %s %s %s)", vhlib.Z(int64(n.VerifBalance())), avlBalanced(n.Children[0]), vhlib.Z(int64(n.Key)), vhlib.Z(int64(n.Value)), avlBalanced(n.Children[1]))
}

func binOps(w *vhlib.Writer, rng *vhlib.Rng, o vhlib.Opts) {
	sizes := []int{0, 1, 2, 3, 5, 8, 13, 21, 40, 64, 100, 256}
	if o.Thorough() {
		sizes = append(sizes, 512, 1000, 2048)
	}
	mixes := []string{"grow", "shrink", "mixed"}
	for _, kind := range []string{"rb", "avl"} {
		for _, n := range sizes {
			for pi, prof := range profiles {
				if n < 5 && prof != "random" && prof != "asc" {
					continue
				}
				mix := mixes[(pi+n)%3]
				var t tree
				var dump func() string
				var keysOf func() []int
				if kind == "rb" {
					rt := redblacktree.NewWith[int, int](counting())
					t, dump, keysOf = rbT{rt}, func() string { return "SRB " + rbColored(rt.Root) }, rt.Keys
				} else {
					at := avltree.NewWith[int, int](counting())
					t, dump, keysOf = avlT{at}, func() string { return "SAVL " + avlBalanced(at.Root) }, at.Keys
				}
				build(rng, t, n, prof)
				shape := dump()
				present := keysOf()
				var ops, steps []string
				for i := 0; i < 48; i++ {
					r := rng.Intn(10)
					var op string
					switch mix {
					case "grow":
						op = []string{"MPut", "MPut", "MPut", "MPut", "MPut", "MPut", "MPutP", "MRemove", "MGet", "MRemoveA"}[r]
					case "shrink":
						op = []string{"MRemove", "MRemove", "MRemove", "MRemove", "MRemove", "MRemove", "MRemove", "MPut", "MGet", "MRemoveA"}[r]
					default:
						op = []string{"MPut", "MPut", "MPut", "MRemove", "MRemove", "MRemove", "MPutP", "MGet", "MGet", "MRemoveA"}[r]
					}
					if (op == "MPutP" || op == "MRemove") && len(present) == 0 {
						op = "MPut"
					}
					var key, c int
					switch op {
					case "MPut":
						key = 2*rng.Intn(n+8) + 1
						if rng.Intn(8) == 0 {
							key = -rng.Intn(50)
						}
						c = count(func() { t.Put(key, key) })
					case "MPutP":
						key, op = present[rng.Intn(len(present))], "MPut"
						c = count(func() { t.Put(key, key) })
					case "MRemove":
						key = present[rng.Intn(len(present))]
						c = count(func() { t.Remove(key) })
					case "MRemoveA":
						key, op = 2*rng.Intn(n+8)+1, "MRemove"
						c = count(func() { t.Remove(key) })
					case "MGet":
						key = rng.Intn(2*n + 3)
						c = count(func() { t.Get(key) })
					}
					present = keysOf()
					ops = append(ops, fmt.Sprintf("(%s %s, %d%%nat)", op, vhlib.Z(int64(key)), c))
					steps = append(steps, kind+"."+op[1:])
				}
				ops = append(ops, fmt.Sprintf("(MFinal (%s), 0%%nat)", dump()))
				steps = append(steps, kind+".finalshape")
				term := fmt.Sprintf("CBinOps (%s) %s", shape, vhlib.List(ops))
				w.Case(term, kind+" ops", true, steps,
					map[string]interface{}{"kind": kind, "n": n, "profile": prof, "mix": mix, "ops": ops[:len(ops)-1]})
			}
		}
	}
}

