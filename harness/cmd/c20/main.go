// C20 harness: runs sys/fastrand on recorded draw streams and writes Coq cases.
package main

import (
	"fmt"
	"math"
	"runtime"
	"sync"

	"github.com/songzhibin97/go-baseutils/sys/fastrand"

	"vh/vhlib"
)

type rec struct {
	rng   *vhlib.Rng
	draws []int64
	mode  int
}

// next draw: biased towards values that trigger the rejection paths (0, tiny, huge)
func (r *rec) next() uint32 {
	var d uint32
	switch r.rng.Intn(10) {
	case 0:
		d = 0
	case 1:
		d = uint32(r.rng.Intn(4))
	case 2:
		d = math.MaxUint32 - uint32(r.rng.Intn(4))
	case 3:
		d = 1 << uint(r.rng.Intn(32))
	default:
		d = uint32(r.rng.U64())
	}
	if len(r.draws) > 64 { // avoid very long rejection loops
		d = uint32(r.rng.U64())
	}
	r.draws = append(r.draws, int64(d))
	return d
}

// extreme source: only boundary words, in every order (sign bit set / clear, all ones, zero), then random after 64 draws
type extreme struct {
	rng *vhlib.Rng
	k   int
}

var extremeWords = []uint32{0, 0x80000000, 0xffffffff, 0x7fffffff, 1, 0x80000001, 0xfffffffe}

func (e *extreme) next() uint32 {
	e.k++
	if e.k > 64 {
		return uint32(e.rng.U64())
	}
	return extremeWords[e.rng.Intn(len(extremeWords))]
}

var interestingN = []int64{1, 2, 3, 4, 5, 6, 7, 8, 9, 10, 15, 16, 17, 31, 32, 33, 63, 64, 65, 100, 127, 128, 129, 255, 256, 257,
	1000, 1023, 1024, 1025, 65535, 65536, 65537, 1<<24 - 1, 1 << 24, 1<<24 + 1, 1<<30 - 1, 1 << 30, 1<<30 + 1,
	1<<31 - 2, 1<<31 - 1, 1431655765, 1431655766, 2147483629, 1073741827, 0, -1, -2, -100, math.MinInt32}

var bigN = []int64{1 << 31, 1<<31 + 1, 1<<32 - 1, 1 << 32, 1<<32 + 1, 1<<53 - 1, 1 << 53, 1<<53 + 1, 1<<62 - 1, 1 << 62, 1<<62 + 1,
	math.MaxInt64 - 1, math.MaxInt64, 6148914691236517205, 6148914691236517206, 3074457345618258603, 1<<40 + 12345, 0, -1, math.MinInt64}

func main() {
	o := vhlib.ParseOpts()
	rng := vhlib.NewRng(o.Seed)
	w := vhlib.NewWriter(o.Out, "From VF Require Import C20.Model C20.Check.\nLocal Open Scope Z_scope.", "case", "mismatches", 400)
	orig := fastrand.Uint32
	defer func() { fastrand.Uint32 = orig }()

	emit := func(call string, label string, replay bool, draws []int64, obs string, nontrivial bool, desc interface{}) {
		term := fmt.Sprintf("{| c_call := %s; c_replay := %s; c_draws := %s; c_used := %s; c_obs := %s |}",
			call, vhlib.Bool(replay), vhlib.ZList(draws), vhlib.Nat(len(draws)), obs)
		w.Case(term, label, nontrivial, nil, desc)
	}
	inject := func() *rec {
		r := &rec{rng: rng.Fork()}
		fastrand.Uint32 = r.next
		return r
	}
	pickN := func() int64 {
		switch rng.Intn(5) {
		case 4:
			// beyond 32 bits, both signs: a bound must be judged as the int it is, not by its low word
			// (e.g. -(1<<32)+5 has a positive low word; 1<<32 has a zero one)
			v := int64(rng.U64()>>uint(1+rng.Intn(31))) + 1<<31
			if rng.Intn(3) == 0 {
				v = int64(1)<<uint(32+rng.Intn(31)) + int64(rng.Intn(9)) - 4
			}
			if rng.Bool() {
				return -v
			}
			return v
		case 0:
			return int64(int32(rng.U64()))
		case 1:
			return int64(rng.Intn(1000)) - 10
		default:
			return interestingN[rng.Intn(len(interestingN))]
		}
	}
	reps := 1500
	if o.Thorough() {
		reps = 20000
	}
	// ---- replayable scalar functions ----
	for i := 0; i < reps; i++ {
		n := pickN()
		kind := rng.Intn(6)
		r := inject()
		var v int64
		var call, label string
		p, _ := vhlib.Recover(func() {
			switch kind {
			case 0:
				n = int64(int32(n))
				call, label = fmt.Sprintf("CInt31n %s", vhlib.Z(n)), "Int31n"
				v = int64(fastrand.Int31n(int32(n)))
			case 1:
				if n > 1<<31-1 {
					n = -n // large positive bounds draw from the runtime directly: they are the RIntnBig cases below
				}
				call, label = fmt.Sprintf("CIntn %s", vhlib.Z(n)), "Intn"
				v = int64(fastrand.Intn(int(n)))
			case 2:
				if n < 0 {
					n = -n
				}
				n = int64(uint32(n))
				call, label = fmt.Sprintf("CUint32n %s", vhlib.Z(n)), "Uint32n"
				v = int64(fastrand.Uint32n(uint32(n)))
			case 3:
				call, label = "CInt31", "Int31"
				v = int64(fastrand.Int31())
			case 4:
				call, label = "CFloat32", "Float32"
				f := fastrand.Float32()
				v = int64(float64(f) * (1 << 24))
				if float32(float64(v)/(1<<24)) != f || f < 0 || f >= 1 {
					v = -1 // not an exact dyadic in [0,1): reported as out of range
				}
			case 5:
				// Uint32 itself must be the installed source
				call, label = "CUint32n 4294967296", "Uint32(as Uint32n 2^32 identity)"
				v = int64(fastrand.Uint32())
			}
		})
		obs := "OVal " + vhlib.Z(v)
		if p {
			obs = "OPanic"
		}
		emit(call, label, true, r.draws, obs, len(r.draws) >= 1, map[string]interface{}{"call": call, "draws": r.draws, "obs": obs})
	}
	// ---- Perm / Shuffle ----
	nps := 300
	if o.Thorough() {
		nps = 3000
	}
	for i := 0; i < nps; i++ {
		n := rng.Intn(40) - 2
		if rng.Chance(1, 20) {
			n = 200 + rng.Intn(300)
		}
		r := inject()
		if rng.Bool() {
			var res []int
			p, _ := vhlib.Recover(func() { res = fastrand.Perm(n) })
			obs := "OList " + vhlib.IntList(res)
			if p {
				obs = "OPanic"
			}
			emit(fmt.Sprintf("CPerm %s", vhlib.Z(int64(n))), "Perm", true, r.draws, obs, n >= 2, map[string]interface{}{"call": "Perm", "n": n, "draws": r.draws})
		} else {
			var pairs []string
			p, _ := vhlib.Recover(func() {
				fastrand.Shuffle(n, func(i, j int) { pairs = append(pairs, vhlib.Pair(vhlib.Z(int64(i)), vhlib.Z(int64(j)))) })
			})
			obs := "OPairs " + vhlib.List(pairs)
			if p {
				obs = "OPanic"
			}
			emit(fmt.Sprintf("CShuffle %s", vhlib.Z(int64(n))), "Shuffle", true, r.draws, obs, n >= 2, map[string]interface{}{"call": "Shuffle", "n": n, "draws": r.draws})
		}
	}
	// ---- Read into a guarded buffer: every length 0..257, offsets cycling through 0..16 ----
	maxLen := 80
	if o.Thorough() {
		maxLen = 257
	}
	for l := 0; l <= maxLen; l++ {
		offs := []int{0, 1 + rng.Intn(7), 8, 9 + rng.Intn(8)}
		if o.Thorough() {
			offs = []int{0, 1, 2, 3, 4, 5, 6, 7, 8, 9, 15, 16, 17}
		}
		for _, off := range offs {
			guard := 9 + rng.Intn(8)
			buf := make([]byte, off+l+guard)
			for i := range buf {
				buf[i] = byte(rng.U64())
			}
			before := append([]byte(nil), buf...)
			r := inject()
			var nret int
			var err error
			p, _ := vhlib.Recover(func() { nret, err = fastrand.Read(buf[off : off+l : off+l]) })
			obs := "OList " + vhlib.Bytes(buf)
			if p || nret != l || err != nil {
				obs = "OPanic"
			}
			emit(fmt.Sprintf("CRead %s %s %s", vhlib.Bytes(before), vhlib.Nat(off), vhlib.Nat(l)), "Read", true, r.draws, obs, l > 0,
				map[string]interface{}{"call": "Read", "off": off, "len": l, "draws": r.draws})
		}
	}
	fastrand.Uint32 = orig

	// ---- functions that draw from the runtime directly: range observations. Half of the calls run with the adversarial
	// recording source installed in fastrand.Uint32: the code as written never consults it for these functions, but a
	// rewrite that routes a 63-bit function through the 32-bit helpers does, and then the extreme words (0, 2^31, 2^32-1
	// in every order) reach its sign and carry handling; the observation is judged by range only, either way ----
	nr := 3000
	if o.Thorough() {
		nr = 40000
	}
	for i := 0; i < nr; i++ {
		var n int64
		if rng.Bool() {
			n = bigN[rng.Intn(len(bigN))]
		} else if rng.Bool() {
			n = interestingN[rng.Intn(len(interestingN))]
		} else {
			n = int64(rng.U64() >> uint(rng.Intn(63)))
		}
		var v int64
		var vu uint64
		var call, label string
		uns := false
		adversarial := i%2 == 1
		if adversarial {
			ex := &extreme{rng: rng.Fork()}
			fastrand.Uint32 = ex.next
		}
		p, _ := vhlib.Recover(func() {
			switch rng.Intn(6) {
			case 0:
				call, label = fmt.Sprintf("RInt63n %s", vhlib.Z(n)), "Int63n"
				v = fastrand.Int63n(n)
			case 1:
				un := uint64(n)
				if rng.Bool() {
					un = rng.U64()
				}
				call, label, uns = fmt.Sprintf("RUint64n %s", vhlib.ZU(un)), "Uint64n", true
				vu = fastrand.Uint64n(un)
			case 2:
				call, label = "RInt63", "Int63"
				v = fastrand.Int63()
			case 3:
				call, label = "RInt", "Int"
				v = int64(fastrand.Int())
			case 4:
				call, label = "RFloat64", "Float64"
				f := fastrand.Float64()
				v = int64(f * (1 << 53))
				if float64(v)/(1<<53) != f || f < 0 || f >= 1 {
					v = -1
				}
			case 5:
				call, label = fmt.Sprintf("RIntnBig %s", vhlib.Z(n)), "Intn(big)"
				v = int64(fastrand.Intn(int(n)))
			}
		})
		obs := "OVal " + vhlib.Z(v)
		if uns {
			obs = "OVal " + vhlib.ZU(vu)
		}
		if p {
			obs = "OPanic"
		}
		fastrand.Uint32 = orig
		if adversarial {
			label += "/adversarial-source"
		}
		emit(call, label, false, nil, obs, true, map[string]interface{}{"call": call, "obs": obs, "adversarial_source": adversarial})
	}
	// ---- concurrent callers on all Ps ----
	procs := runtime.GOMAXPROCS(0)
	var mu sync.Mutex
	var wg sync.WaitGroup
	type ob struct {
		call, obs string
	}
	var cobs []ob
	per := 40
	if o.Thorough() {
		per = 400
	}
	for g := 0; g < 2*procs; g++ {
		wg.Add(1)
		gr := rng.Fork()
		go func() {
			defer wg.Done()
			local := []ob{}
			for i := 0; i < per; i++ {
				n := interestingN[gr.Intn(len(interestingN)-5)] // positive ones
				switch gr.Intn(4) {
				case 0:
					local = append(local, ob{fmt.Sprintf("CIntn %s", vhlib.Z(n)), "OVal " + vhlib.Z(int64(fastrand.Intn(int(n))))})
				case 1:
					local = append(local, ob{fmt.Sprintf("CUint32n %s", vhlib.Z(n)), "OVal " + vhlib.Z(int64(fastrand.Uint32n(uint32(n))))})
				case 2:
					m := int(n%50) + 1
					local = append(local, ob{fmt.Sprintf("CPerm %d", m), "OList " + vhlib.IntList(fastrand.Perm(m))})
				case 3:
					l := int(n % 40)
					off := 1 + gr.Intn(8)
					buf := make([]byte, off+l+9)
					for i := range buf {
						buf[i] = byte(gr.U64())
					}
					before := append([]byte(nil), buf...)
					fastrand.Read(buf[off : off+l])
					local = append(local, ob{fmt.Sprintf("CRead %s %s %s", vhlib.Bytes(before), vhlib.Nat(off), vhlib.Nat(l)), "OList " + vhlib.Bytes(buf)})
				}
			}
			mu.Lock()
			cobs = append(cobs, local...)
			mu.Unlock()
		}()
	}
	wg.Wait()
	for _, c := range cobs {
		emit(c.call, "concurrent", false, nil, c.obs, true, map[string]interface{}{"call": c.call, "obs": c.obs})
	}
	// ---- residue frequencies, thresholds far in the tail (factor 2 on >= 2000 expected per class) ----
	for _, n := range []int{2, 3, 5, 7, 10, 16} {
		total := 4000 * n
		cnt := make([]int, n)
		for i := 0; i < total; i++ {
			v := fastrand.Intn(n)
			if v >= 0 && v < n {
				cnt[v]++
			}
		}
		emit(fmt.Sprintf("RFreq %d %d", n, total), "frequency", false, nil, "OList "+vhlib.IntList(cnt), true, map[string]interface{}{"call": "freq", "n": n, "counts": cnt})
	}
	for _, n := range []int64{3, 5, 6, 7, 15, 31} {
		total := 4000 * int(n)
		cnt := make([]int, n)
		for i := 0; i < total; i++ {
			v := fastrand.Int63n(n)
			if v >= 0 && v < n {
				cnt[v]++
			}
		}
		emit(fmt.Sprintf("RFreq63 %d %d", n, total), "frequency(Int63n)", false, nil, "OList "+vhlib.IntList(cnt), true, map[string]interface{}{"call": "freq63", "n": n, "counts": cnt})
	}
	// large n: residues of Intn(n) modulo a small divisor of n (a wrong rejection step biases them), 15 % tolerance on
	// 10000 expected per class (about 18 standard deviations)
	for _, c := range [][2]int64{{3 << 29, 3}, {5 << 28, 5}, {7 << 28, 7}, {3 << 20, 3}} {
		n, m := c[0], c[1]
		total := 10000 * int(m)
		cnt := make([]int, m)
		for i := 0; i < total; i++ {
			cnt[int64(fastrand.Intn(int(n)))%m]++
		}
		emit(fmt.Sprintf("RFreqMod %d %d %d", n, m, total), "frequency(large n)", false, nil, "OList "+vhlib.IntList(cnt), true, map[string]interface{}{"call": "freqmod", "n": n, "m": m, "counts": cnt})
	}
	// bulk range test of the float helpers on the runtime's own source: a float rounding slip (a value that rounds up to
	// exactly 1.0) has probability around 2^-25 per draw, far below what the per-call cases sample; 2^29 draws per helper
	// (2^32 in the thorough tier) spread over all Ps take a second or two
	{
		per := 1 << 29
		if o.Thorough() {
			per = 1 << 32
		}
		for _, bits := range []int{32, 64} {
			workers := 2 * procs
			var below, above int64
			var wg2 sync.WaitGroup
			for g := 0; g < workers; g++ {
				wg2.Add(1)
				go func() {
					defer wg2.Done()
					var lo, hi int64
					for i := 0; i < per/workers; i++ {
						if bits == 32 {
							if f := fastrand.Float32(); f < 0 {
								lo++
							} else if f >= 1 {
								hi++
							}
						} else {
							if f := fastrand.Float64(); f < 0 {
								lo++
							} else if f >= 1 {
								hi++
							}
						}
					}
					mu.Lock()
					below, above = below+lo, above+hi
					mu.Unlock()
				}()
			}
			wg2.Wait()
			total := (per / workers) * workers
			emit(fmt.Sprintf("RBulkFloat %d %d", bits, total), fmt.Sprintf("Float%d(bulk range)", bits), false, nil,
				"OList "+vhlib.IntList([]int{int(below), int(above)}), true,
				map[string]interface{}{"call": fmt.Sprintf("Float%d x %d", bits, total), "below_0": below, "at_or_above_1": above})
		}
	}
	// Shuffle over the 31-bit boundary: the callback aborts after the first swap
	type stop struct{}
	for _, n := range []int64{1<<31 - 1, 1 << 31, 1<<31 + 1, 1 << 32, 1<<40 + 3} {
		var pairs []string
		aborted := false
		p, val := vhlib.Recover(func() {
			fastrand.Shuffle(int(n), func(i, j int) {
				pairs = append(pairs, vhlib.Pair(vhlib.Z(int64(i)), vhlib.Z(int64(j))))
				aborted = true
				panic(stop{})
			})
		})
		obs := "OPairs " + vhlib.List(pairs)
		if _, mine := val.(stop); p && !(mine && aborted) {
			obs = "OPanic"
		}
		emit(fmt.Sprintf("RShuffleBig %d", n), "Shuffle(big n)", false, nil, obs, true, map[string]interface{}{"call": "shufflebig", "n": n, "obs": obs})
	}
	w.Close(o, "one case = one call of a fastrand function; replayable calls (fastrand.Uint32 replaced by a recording source) carry the draws consumed and are re-run through the Coq model; distinct = distinct (call, draws, observation) terms; non-trivial = consumed at least one draw / n >= 2 for Perm and Shuffle / len > 0 for Read / any runtime-sourced call")
}
