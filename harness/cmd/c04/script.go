package main

import (
	"math"
	"runtime"
	"sort"
	"sync"
	"sync/atomic"
	"time"

	"github.com/songzhibin97/go-baseutils/structure/maps/skipmap"
	"github.com/songzhibin97/go-baseutils/structure/sets/skipset"
	"github.com/songzhibin97/go-baseutils/sys/fastrand"

	"vh/vhlib"
)

// Scripted schedules through the add-only yield points of skipmap/skipset (VerifYieldHook, build tag verif):
// one goroutine is PARKED inside a window of the optimistic protocol (marked but not unlinked; validated but
// not linked; linked but not fullyLinked; randomLevel between the load and the compare-and-swap; a reader
// between finding a node and reading its flags; an update that has found a node and not yet looked at it)
// and the other operations run against that state. Every scripted history is tiny and is judged by the same
// verified lin_check / range_ok_b as the random rounds: deterministic detection instead of luck.

// ---------- the parking hook ----------

var pk struct {
	point  int32
	slots  int32
	arrive chan chan struct{}
}

func parkHook(k int) {
	if int32(k) != atomic.LoadInt32(&pk.point) {
		return
	}
	if atomic.AddInt32(&pk.slots, -1) < 0 {
		return
	}
	rel := make(chan struct{})
	pk.arrive <- rel
	<-rel
}

// arm: the next n arrivals at yield point `point` park
func arm(point, n int) {
	atomic.StoreInt32(&pk.slots, int32(n))
	atomic.StoreInt32(&pk.point, int32(point))
}
func disarm() { atomic.StoreInt32(&pk.point, 0) }

func awaitPark() (rel chan struct{}, ok bool) {
	select {
	case r := <-pk.arrive:
		return r, true
	case <-time.After(2 * time.Second):
		return nil, false
	}
}

// perturbHook (random rounds): reschedule at about one marked point in eight
var perturbCt uint64

func perturbHook(k int) {
	x := atomic.AddUint64(&perturbCt, 0x9E3779B97F4A7C15)
	if (x>>33)%8 == 0 {
		runtime.Gosched()
	}
}

func setHooks(h func(int)) {
	skipmap.VerifYieldHook = h
	skipset.VerifYieldHook = h
}

// ---------- goroutine-safe height oracle for the scripted section ----------

type lockedSrc struct {
	mu     sync.Mutex
	levels []int
	zeros  int
	open   bool
}

func (l *lockedSrc) next() uint32 {
	l.mu.Lock()
	defer l.mu.Unlock()
	if !l.open {
		lv := 1
		if len(l.levels) > 0 {
			lv, l.levels = l.levels[0], l.levels[1:]
		}
		l.zeros, l.open = lv-1, true
	}
	if l.zeros > 0 {
		l.zeros--
		return 0
	}
	l.open = false
	return math.MaxUint32
}

// want: the next calls of randomLevel() return these levels (then 1)
func (l *lockedSrc) want(levels ...int) {
	l.mu.Lock()
	l.levels, l.zeros, l.open = append([]int(nil), levels...), 0, false
	l.mu.Unlock()
}

// ---------- one scripted history ----------

type senv struct {
	mu      sync.Mutex
	hist    []rec
	ranges  []rec
	unreach int
	wg      sync.WaitGroup
}

func (e *senv) put(r rec) {
	e.mu.Lock()
	if r.Name == "Range" {
		e.ranges = append(e.ranges, r)
	} else {
		e.hist = append(e.hist, r)
	}
	e.mu.Unlock()
}

func execMap(m zmap, g, kind int, k, v int64) rec {
	r := rec{G: g, Kind: kind, K: k, V: v, Name: mapOpName[kind]}
	p, pv := vhlib.Recover(func() {
		switch kind {
		case oStore:
			r.Inv = tick()
			m.Store(k, v)
		case oLoad:
			r.Inv = tick()
			r.RV, r.RB = m.Load(k)
		case oLoadOrStore:
			r.Inv = tick()
			r.RV, r.RB = m.LoadOrStore(k, v)
		case oLazy:
			calls := 0
			f := func() int64 { calls++; return v }
			r.Inv = tick()
			r.RV, r.RB = m.LoadOrStoreLazy(k, f)
			r.Calls = calls
		case oLoadAndDelete:
			r.Inv = tick()
			r.RV, r.RB = m.LoadAndDelete(k)
		case oDelete:
			r.Inv = tick()
			r.RB = m.Delete(k)
		case oRange:
			r.Inv = tick()
			m.Range(func(k, v int64) bool {
				r.Keys = append(r.Keys, k)
				r.Vals = append(r.Vals, v)
				return true
			})
		case oLen:
			r.Inv = tick()
			r.RV = int64(m.Len())
		case oKeys:
			r.Inv = tick()
			r.Keys = m.Keys()
		case oValues:
			r.Inv = tick()
			r.Vals = m.Values()
		case oEmpty:
			r.Inv = tick()
			r.RB = m.Empty()
		}
	})
	if p {
		r.Panic = sprint(pv)
	}
	r.Resp = tick()
	return r
}

func execSet(s zset, g, kind int, k int64) rec {
	r := rec{G: g, Kind: kind, K: k, Name: setOpName[kind]}
	p, pv := vhlib.Recover(func() {
		switch kind {
		case sAddB:
			r.Inv = tick()
			r.RB = s.AddB(k)
		case sContainsB:
			r.Inv = tick()
			r.RB = s.ContainsB(k)
		case sRemoveB:
			r.Inv = tick()
			r.RB = s.RemoveB(k)
		case sRange:
			r.Inv = tick()
			s.Range(func(x int64) bool {
				r.Keys = append(r.Keys, x)
				return true
			})
		case sLen:
			r.Inv = tick()
			r.RV = int64(s.Len())
		case sValues:
			r.Inv = tick()
			r.Keys = s.Values()
		case sEmpty:
			r.Inv = tick()
			r.RB = s.Empty()
		}
	})
	if p {
		r.Panic = sprint(pv)
	}
	r.Resp = tick()
	return r
}

// the scenario language: m./s. run an operation in the calling goroutine, gm./gs. in a goroutine of its own
type mapScript struct {
	e *senv
	m zmap
	g int
}

func (x *mapScript) do(kind int, k, v int64) rec {
	r := execMap(x.m, 0, kind, k, v)
	x.e.put(r)
	return r
}
func (x *mapScript) goDo(kind int, k, v int64) {
	x.g++
	g := x.g
	x.e.wg.Add(1)
	go func() {
		defer x.e.wg.Done()
		x.e.put(execMap(x.m, g, kind, k, v))
	}()
}

// park: run the operation in its own goroutine and wait until it is parked at the yield point
func (x *mapScript) park(point, kind int, k, v int64) chan struct{} {
	arm(point, 1)
	x.goDo(kind, k, v)
	rel, ok := awaitPark()
	disarm()
	if !ok {
		x.e.unreach++
	}
	return rel
}

type setScript struct {
	e *senv
	s zset
	g int
}

func (x *setScript) do(kind int, k int64) rec {
	r := execSet(x.s, 0, kind, k)
	x.e.put(r)
	return r
}
func (x *setScript) goDo(kind int, k int64) {
	x.g++
	g := x.g
	x.e.wg.Add(1)
	go func() {
		defer x.e.wg.Done()
		x.e.put(execSet(x.s, g, kind, k))
	}()
}
func (x *setScript) park(point, kind int, k int64) chan struct{} {
	arm(point, 1)
	x.goDo(kind, k)
	rel, ok := awaitPark()
	disarm()
	if !ok {
		x.e.unreach++
	}
	return rel
}

func release(rel chan struct{}) {
	if rel != nil {
		close(rel)
	}
}

// settle: give goroutines started with goDo the time to take their invocation stamp and reach the point
// where they wait for the parked operation
func settle() { time.Sleep(300 * time.Microsecond) }

type mapScenario struct {
	name string
	run  func(x *mapScript, src *lockedSrc)
}
type setScenario struct {
	name string
	run  func(x *setScript, src *lockedSrc)
}

var mapScenarios = []mapScenario{
	{"remover parked after marking (Delete)", func(x *mapScript, src *lockedSrc) {
		x.do(oStore, 1, 10)
		x.do(oStore, 2, 20)
		rel := x.park(1, oDelete, 1, 0)
		x.do(oDelete, 1, 0)
		x.do(oLoad, 1, 0)
		x.do(oLoadAndDelete, 1, 0)
		x.do(oRange, 0, 0)
		x.goDo(oLoadOrStore, 1, 11) // searches again until the marked node is unlinked
		x.goDo(oLazy, 1, 13)
		x.goDo(oStore, 1, 12) // waits for the node lock the remover holds
		settle()
		x.do(oLoad, 2, 0)
		release(rel)
		x.e.wg.Wait()
		x.do(oLoad, 1, 0)
	}},
	{"remover parked after marking (LoadAndDelete)", func(x *mapScript, src *lockedSrc) {
		x.do(oStore, 2, 20)
		x.do(oLoadOrStore, 1, 10)
		rel := x.park(1, oLoadAndDelete, 1, 0)
		x.do(oLoadAndDelete, 1, 0)
		x.do(oLoad, 1, 0)
		x.do(oDelete, 1, 0)
		x.goDo(oLoadOrStore, 1, 11)
		settle()
		x.do(oRange, 0, 0)
		release(rel)
		x.e.wg.Wait()
		x.do(oLoad, 1, 0)
		x.do(oDelete, 1, 0)
	}},
	{"adder parked linked, not fullyLinked (Store)", func(x *mapScript, src *lockedSrc) {
		x.do(oStore, 2, 20)
		src.want(3)
		rel := x.park(3, oStore, 1, 10)
		x.do(oLoad, 1, 0)
		x.do(oDelete, 1, 0)
		x.do(oLoadAndDelete, 1, 0)
		x.do(oRange, 0, 0)
		x.goDo(oLoadOrStore, 1, 11) // waits until the node is fully linked
		x.goDo(oStore, 1, 12)
		x.goDo(oLazy, 1, 13)
		settle()
		release(rel)
		x.e.wg.Wait()
		x.do(oLoad, 1, 0)
	}},
	{"adder parked linked, not fullyLinked (LoadOrStoreLazy)", func(x *mapScript, src *lockedSrc) {
		src.want(2)
		rel := x.park(3, oLazy, 1, 10)
		x.do(oLoad, 1, 0)
		x.do(oDelete, 1, 0)
		x.goDo(oLazy, 1, 11)
		x.goDo(oLoadOrStore, 1, 12)
		settle()
		release(rel)
		x.e.wg.Wait()
		x.do(oLoadAndDelete, 1, 0)
	}},
	{"adder parked validated, not linked (LoadOrStoreLazy)", func(x *mapScript, src *lockedSrc) {
		x.do(oStore, 5, 50)
		rel := x.park(2, oLazy, 1, 10)
		x.do(oLoad, 1, 0)
		x.do(oDelete, 1, 0)
		x.goDo(oLazy, 1, 11) // needs the predecessor lock the parked call holds
		x.goDo(oStore, 0, 5)
		settle()
		x.do(oLoad, 5, 0)
		release(rel)
		x.e.wg.Wait()
		x.do(oLoad, 1, 0)
	}},
	{"Store parked on the node it found, the key is removed meanwhile", func(x *mapScript, src *lockedSrc) {
		x.do(oStore, 1, 10)
		rel := x.park(6, oStore, 1, 11)
		x.do(oLoadAndDelete, 1, 0)
		x.do(oLoad, 1, 0)
		release(rel)
		x.e.wg.Wait()
		x.do(oLoad, 1, 0)
		x.do(oLoadAndDelete, 1, 0)
	}},
	{"LoadOrStore parked on the node it found, the key is removed meanwhile", func(x *mapScript, src *lockedSrc) {
		x.do(oStore, 1, 10)
		rel := x.park(6, oLoadOrStore, 1, 11)
		x.do(oDelete, 1, 0)
		x.do(oLoad, 1, 0)
		release(rel)
		x.e.wg.Wait()
		x.do(oLoad, 1, 0)
	}},
	{"Load parked on the node it found, the key is removed and stored again", func(x *mapScript, src *lockedSrc) {
		x.do(oStore, 1, 10)
		rel := x.park(5, oLoad, 1, 0)
		x.do(oLoadAndDelete, 1, 0)
		x.do(oStore, 1, 12)
		release(rel)
		x.e.wg.Wait()
		x.do(oLoad, 1, 0)
	}},
	{"two Stores raise highestLevel together", func(x *mapScript, src *lockedSrc) {
		src.want(5)
		relA := x.park(4, oStore, 1, 10) // level 5, read highestLevel = 3
		src.want(4)
		relB := x.park(4, oStore, 2, 20) // level 4, read highestLevel = 3
		release(relA)
		settle()
		release(relB)
		x.e.wg.Wait()
		x.do(oLoad, 1, 0)
		x.do(oLoad, 2, 0)
		x.do(oDelete, 1, 0)
		x.do(oLoadAndDelete, 2, 0)
		src.want(6)
		x.do(oLoadOrStore, 3, 30)
		x.do(oDelete, 3, 0)
	}},
	{"two LoadOrStores raise highestLevel together", func(x *mapScript, src *lockedSrc) {
		src.want(6)
		relA := x.park(4, oLoadOrStore, 2, 20)
		src.want(4)
		relB := x.park(4, oLazy, 1, 10)
		release(relA)
		settle()
		release(relB)
		x.e.wg.Wait()
		x.do(oLoadAndDelete, 2, 0)
		x.do(oDelete, 1, 0)
		x.do(oLoad, 2, 0)
	}},
	{"remover parked after marking (LoadAndDelete), its predecessor is removed meanwhile, the key is stored again", func(x *mapScript, src *lockedSrc) {
		x.do(oStore, 1, 10)
		x.do(oStore, 2, 20)
		x.do(oStore, 3, 30)
		rel := x.park(1, oLoadAndDelete, 2, 0) // searched with key 1 as predecessor
		x.do(oDelete, 1, 0)
		x.do(oLoad, 1, 0)
		release(rel)
		x.e.wg.Wait()
		x.do(oRange, 0, 0)
		x.do(oLoad, 2, 0)
		x.do(oStore, 2, 21) // must not meet a marked node that stayed linked
		x.do(oLoad, 2, 0)
		x.do(oLoadOrStore, 1, 11)
		x.do(oRange, 0, 0)
	}},
	{"remover parked after marking (Delete), its predecessor is removed meanwhile, the key is stored again", func(x *mapScript, src *lockedSrc) {
		x.do(oStore, 1, 10)
		x.do(oStore, 2, 20)
		rel := x.park(1, oDelete, 2, 0)
		x.do(oLoadAndDelete, 1, 0)
		release(rel)
		x.e.wg.Wait()
		x.do(oLoadOrStore, 2, 21)
		x.do(oLazy, 1, 12)
		x.do(oLoad, 2, 0)
		x.do(oRange, 0, 0)
	}},
	{"adder parked published, length counter not yet incremented (Store into the empty map)", func(x *mapScript, src *lockedSrc) {
		rel := x.park(7, oStore, 1, 10)
		x.do(oLoadOrStore, 1, 11) // finds the published node
		x.do(oLoad, 1, 0)
		x.do(oRange, 0, 0)
		x.do(oLazy, 1, 12)
		x.do(oLoad, 1, 0)
		release(rel)
		x.e.wg.Wait()
		x.do(oLoad, 1, 0)
	}},
	{"adder parked published, length counter not yet incremented (LoadOrStore; the key is removed, another stored)", func(x *mapScript, src *lockedSrc) {
		rel := x.park(7, oLoadOrStore, 1, 10)
		x.do(oLoad, 1, 0)
		x.do(oLoadAndDelete, 1, 0) // the counter is now below the number of keys by one
		x.do(oLoad, 1, 0)
		x.do(oStore, 2, 20) // counter 0, one key present
		x.do(oLoad, 2, 0)
		x.do(oLoadOrStore, 2, 21)
		x.do(oRange, 0, 0)
		x.do(oDelete, 1, 0)
		release(rel)
		x.e.wg.Wait()
		x.do(oLoad, 2, 0)
	}},
	{"adder parked published, length counter not yet incremented (LoadOrStoreLazy)", func(x *mapScript, src *lockedSrc) {
		rel := x.park(7, oLazy, 3, 30)
		x.do(oRange, 0, 0)
		x.do(oLoad, 3, 0)
		x.do(oStore, 3, 31)
		x.do(oLoad, 3, 0)
		x.do(oDelete, 3, 0)
		x.do(oLoad, 3, 0)
		release(rel)
		x.e.wg.Wait()
		x.do(oLoad, 3, 0)
	}},
	{"remover parked unlinked, length counter not yet decremented (Delete)", func(x *mapScript, src *lockedSrc) {
		x.do(oStore, 1, 10)
		rel := x.park(8, oDelete, 1, 0)
		x.do(oLoad, 1, 0)
		x.do(oRange, 0, 0)
		x.do(oLoadOrStore, 1, 11)
		x.do(oLoad, 1, 0)
		x.do(oLoadAndDelete, 1, 0)
		x.do(oLoad, 1, 0)
		x.do(oDelete, 1, 0)
		release(rel)
		x.e.wg.Wait()
		x.do(oLoad, 1, 0)
	}},
	{"remover parked unlinked, length counter not yet decremented (LoadAndDelete), adder parked published", func(x *mapScript, src *lockedSrc) {
		x.do(oStore, 1, 10)
		relR := x.park(8, oLoadAndDelete, 1, 0)
		relA := x.park(7, oStore, 2, 20)
		x.do(oLoad, 1, 0)
		x.do(oLoad, 2, 0)
		x.do(oRange, 0, 0)
		release(relR)
		settle()
		x.do(oLoad, 2, 0) // counter 0, key 2 present
		x.do(oLoadOrStore, 2, 21)
		release(relA)
		x.e.wg.Wait()
		x.do(oLoad, 2, 0)
	}},
}

var setScenarios = []setScenario{
	{"remover parked after marking", func(x *setScript, src *lockedSrc) {
		x.do(sAddB, 1)
		x.do(sAddB, 2)
		rel := x.park(1, sRemoveB, 1)
		x.do(sRemoveB, 1)
		x.do(sContainsB, 1)
		x.do(sRange, 0)
		x.goDo(sAddB, 1) // searches again until the marked node is unlinked
		settle()
		x.do(sContainsB, 2)
		x.do(sContainsB, 1)
		release(rel)
		x.e.wg.Wait()
		x.do(sContainsB, 1)
	}},
	{"remover parked after marking, neighbour removed too", func(x *setScript, src *lockedSrc) {
		x.do(sAddB, 1)
		x.do(sAddB, 2)
		x.do(sAddB, 3)
		rel := x.park(1, sRemoveB, 2)
		x.do(sContainsB, 2)
		x.do(sRemoveB, 2)
		x.do(sContainsB, 2)
		x.do(sRange, 0)
		x.goDo(sRemoveB, 3) // its predecessor is the marked node, whose lock the parked remover holds
		x.goDo(sAddB, 2)
		settle()
		x.do(sContainsB, 1)
		x.do(sRange, 0)
		release(rel)
		x.e.wg.Wait()
		x.do(sRemoveB, 2)
	}},
	{"adder parked linked, not fullyLinked", func(x *setScript, src *lockedSrc) {
		x.do(sAddB, 2)
		src.want(3)
		rel := x.park(3, sAddB, 1)
		x.do(sContainsB, 1)
		x.do(sRemoveB, 1)
		x.do(sRange, 0)
		x.goDo(sAddB, 1) // waits until the node is fully linked
		settle()
		x.do(sContainsB, 1)
		release(rel)
		x.e.wg.Wait()
		x.do(sContainsB, 1)
		x.do(sRemoveB, 1)
	}},
	{"adder parked validated, not linked", func(x *setScript, src *lockedSrc) {
		x.do(sAddB, 5)
		rel := x.park(2, sAddB, 1)
		x.do(sContainsB, 1)
		x.do(sRemoveB, 1)
		x.goDo(sAddB, 0) // needs the predecessor lock the parked call holds
		x.goDo(sAddB, 1)
		settle()
		x.do(sContainsB, 5)
		release(rel)
		x.e.wg.Wait()
		x.do(sContainsB, 1)
	}},
	{"ContainsB parked on the node it found, the value is removed and added again", func(x *setScript, src *lockedSrc) {
		x.do(sAddB, 1)
		rel := x.park(5, sContainsB, 1)
		x.do(sRemoveB, 1)
		x.do(sAddB, 1)
		release(rel)
		x.e.wg.Wait()
		x.do(sContainsB, 1)
	}},
	{"AddB parked on the node it found, the value is removed meanwhile", func(x *setScript, src *lockedSrc) {
		x.do(sAddB, 1)
		rel := x.park(6, sAddB, 1)
		x.do(sRemoveB, 1)
		x.do(sContainsB, 1)
		release(rel)
		x.e.wg.Wait()
		x.do(sContainsB, 1)
	}},
	{"two AddB raise highestLevel together", func(x *setScript, src *lockedSrc) {
		src.want(5)
		relA := x.park(4, sAddB, 1) // level 5, read highestLevel = 3
		src.want(4)
		relB := x.park(4, sAddB, 2) // level 4, read highestLevel = 3
		release(relA)
		settle()
		release(relB)
		x.e.wg.Wait()
		x.do(sContainsB, 1)
		x.do(sContainsB, 2)
		x.do(sRemoveB, 1)
		x.do(sRemoveB, 2)
		src.want(6)
		x.do(sAddB, 3)
		x.do(sRemoveB, 3)
	}},
	{"three AddB raise highestLevel together, the tallest first", func(x *setScript, src *lockedSrc) {
		src.want(7)
		relA := x.park(4, sAddB, 3)
		src.want(5)
		relB := x.park(4, sAddB, 1)
		src.want(4)
		relC := x.park(4, sAddB, 2)
		release(relA)
		settle()
		release(relC)
		settle()
		release(relB)
		x.e.wg.Wait()
		x.do(sRemoveB, 3)
		x.do(sRemoveB, 1)
		x.do(sContainsB, 2)
	}},
	{"remover parked after marking, its predecessor is removed meanwhile, the member is added again", func(x *setScript, src *lockedSrc) {
		x.do(sAddB, 1)
		x.do(sAddB, 2)
		x.do(sAddB, 3)
		rel := x.park(1, sRemoveB, 2)
		x.do(sRemoveB, 1)
		x.do(sContainsB, 1)
		release(rel)
		x.e.wg.Wait()
		x.do(sRange, 0)
		x.do(sAddB, 2)
		x.do(sContainsB, 2)
		x.do(sAddB, 1)
		x.do(sRange, 0)
	}},
	{"adder parked published, length counter not yet incremented (AddB into the empty set)", func(x *setScript, src *lockedSrc) {
		rel := x.park(7, sAddB, 1)
		x.do(sAddB, 1) // finds the published node
		x.do(sContainsB, 1)
		x.do(sRange, 0)
		x.do(sRemoveB, 1) // the counter is now below the number of members by one
		x.do(sContainsB, 1)
		x.do(sAddB, 2) // counter 0, one member
		x.do(sContainsB, 2)
		x.do(sRange, 0)
		release(rel)
		x.e.wg.Wait()
		x.do(sContainsB, 2)
	}},
	{"remover parked unlinked, length counter not yet decremented, adder parked published", func(x *setScript, src *lockedSrc) {
		x.do(sAddB, 1)
		relR := x.park(8, sRemoveB, 1)
		relA := x.park(7, sAddB, 2)
		x.do(sContainsB, 1)
		x.do(sContainsB, 2)
		x.do(sRange, 0)
		x.do(sAddB, 1)
		x.do(sContainsB, 1)
		release(relR)
		settle()
		x.do(sContainsB, 2)
		x.do(sRemoveB, 1)
		x.do(sContainsB, 2) // counter 0, member 2 present
		release(relA)
		x.e.wg.Wait()
		x.do(sContainsB, 2)
	}},
}

func sprint(v interface{}) string {
	if s, ok := v.(string); ok {
		return s
	}
	if e, ok := v.(error); ok {
		return e.Error()
	}
	return "panic"
}

func scriptSection(w *vhlib.Writer, o vhlib.Opts) {
	oldProcs := runtime.GOMAXPROCS(0)
	defer runtime.GOMAXPROCS(oldProcs)
	runtime.GOMAXPROCS(8)
	pk.arrive = make(chan chan struct{}, 16)
	src := &lockedSrc{}
	orig := fastrand.Uint32
	fastrand.Uint32 = src.next
	setHooks(parkHook)
	defer func() {
		setHooks(nil)
		fastrand.Uint32 = orig
	}()
	variants := []int{0, 5, 3, 7}
	unreached, n := 0, 0
	steps := []string{"history not linearizable (incl. quiescent Len/Keys/Values)", "Range"}

	finish := func(label, name string, isSet bool, variant int, e *senv, run func(), finals func()) bool {
		done := make(chan struct{})
		go func() {
			run()
			e.wg.Wait()
			finals()
			close(done)
		}()
		select {
		case <-done:
		case <-time.After(20 * time.Second):
			w.Violation(label, "scripted schedule did not finish within 20 s (deadlock or livelock): "+name,
				map[string]interface{}{"scenario": name, "variant": mapVariants[variant], "goroutines": allStacks()})
			return false
		}
		sort.SliceStable(e.hist, func(i, j int) bool { return e.hist[i].Inv < e.hist[j].Inv })
		ho := make([]string, len(e.hist))
		for j, x := range e.hist {
			if isSet {
				ho[j] = setOpTerm(x)
			} else {
				ho[j] = mapOpTerm(x)
			}
		}
		ro := make([]string, len(e.ranges))
		for j, x := range e.ranges {
			ro[j] = rangeTerm(x)
		}
		ctor := "HistMap"
		if isSet {
			ctor = "HistSet"
		}
		unreached += e.unreach
		n++
		w.Case(ctor+" "+vhlib.List(ho)+" "+vhlib.List(ro), label, e.unreach == 0, steps,
			map[string]interface{}{"scenario": name, "variant": mapVariants[variant], "history": e.hist, "ranges": e.ranges,
				"yield_points_not_reached": e.unreach})
		return true
	}

	for _, v := range variants {
		for _, sc := range mapScenarios {
			m, _ := newMap(v)
			e := &senv{}
			x := &mapScript{e: e, m: m}
			src.want()
			clock = 0
			ok := finish("scripted skipmap", sc.name, false, v, e, func() { sc.run(x, src) }, func() {
				x.do(oLen, 0, 0)
				x.do(oKeys, 0, 0)
				x.do(oValues, 0, 0)
				x.do(oEmpty, 0, 0)
			})
			if !ok {
				return
			}
		}
		for _, sc := range setScenarios {
			s, _ := newSet(v)
			e := &senv{}
			x := &setScript{e: e, s: s}
			src.want()
			clock = 0
			ok := finish("scripted skipset", sc.name, true, v, e, func() { sc.run(x, src) }, func() {
				x.do(sLen, 0)
				x.do(sValues, 0)
				x.do(sEmpty, 0)
			})
			if !ok {
				return
			}
		}
	}
	// the length counter sampled while calls are parked inside the counter-lag windows (yield points 7 and 8):
	// judged in Coq against the counter protocol model C04/LenCounter.v (case LenLag)
	lagSteps := []string{"length counter and number of keys while calls are parked at the yield points 7 / 8"}
	lagN := 0
	for _, v := range variants {
		{
			m, _ := newMap(v)
			x := &mapScript{e: &senv{}, m: m}
			src.want()
			clock = 0
			var es []string
			sample := func(after string, steps ...string) {
				es = append(es, steps...)
				keys := 0
				m.Range(func(k, v int64) bool { keys++; return true })
				ln := m.Len()
				lagN++
				w.Case("LenLag "+vhlib.List(es)+" "+vhlib.Z(int64(ln))+" "+vhlib.Z(int64(keys)), "counter lag skipmap", true, lagSteps,
					map[string]interface{}{"variant": mapVariants[v], "after": after, "model_steps": append([]string{}, es...), "Len": ln, "keys_in_Range": keys})
			}
			sample("nothing")
			relA := x.park(7, oStore, 1, 10)
			sample("Store(1) parked published, not counted", "LenCounter.SPublish")
			x.do(oLoadAndDelete, 1, 0)
			sample("LoadAndDelete(1)", "LenCounter.SRemove", "LenCounter.SDiscount")
			x.do(oLoadOrStore, 2, 20)
			sample("LoadOrStore(2)", "LenCounter.SPublish", "LenCounter.SCount")
			x.do(oLoad, 2, 0)
			sample("Load(2)", "LenCounter.SRead")
			relR := x.park(8, oDelete, 2, 0)
			sample("Delete(2) parked unlinked, not discounted", "LenCounter.SRemove")
			x.do(oLazy, 3, 30)
			sample("LoadOrStoreLazy(3)", "LenCounter.SPublish", "LenCounter.SCount")
			x.do(oDelete, 2, 0) // absent: no counter update
			sample("Delete(2) of the absent key", "LenCounter.SRead")
			release(relA)
			release(relR)
			x.e.wg.Wait()
			sample("both released", "LenCounter.SCount", "LenCounter.SDiscount")
			unreached += x.e.unreach
		}
		{
			st, _ := newSet(v)
			x := &setScript{e: &senv{}, s: st}
			src.want()
			clock = 0
			var es []string
			sample := func(after string, steps ...string) {
				es = append(es, steps...)
				keys := 0
				st.Range(func(k int64) bool { keys++; return true })
				ln := st.Len()
				lagN++
				w.Case("LenLag "+vhlib.List(es)+" "+vhlib.Z(int64(ln))+" "+vhlib.Z(int64(keys)), "counter lag skipset", true, lagSteps,
					map[string]interface{}{"variant": mapVariants[v], "after": after, "model_steps": append([]string{}, es...), "Len": ln, "keys_in_Range": keys})
			}
			x.do(sAddB, 5)
			sample("AddB(5)", "LenCounter.SPublish", "LenCounter.SCount")
			relR := x.park(8, sRemoveB, 5)
			sample("RemoveB(5) parked unlinked, not discounted", "LenCounter.SRemove")
			relA := x.park(7, sAddB, 1)
			sample("AddB(1) parked published, not counted", "LenCounter.SPublish")
			x.do(sAddB, 1) // present: no counter update
			sample("AddB(1) of the present member", "LenCounter.SRead")
			x.do(sRemoveB, 1)
			sample("RemoveB(1)", "LenCounter.SRemove", "LenCounter.SDiscount")
			release(relR)
			for t0 := time.Now(); time.Since(t0) < 10*time.Second; { // the remover's record, not the parked adder's
				x.e.mu.Lock()
				got := len(x.e.hist)
				x.e.mu.Unlock()
				if got >= 4 {
					break
				}
				runtime.Gosched()
			}
			sample("remover released", "LenCounter.SDiscount")
			release(relA)
			x.e.wg.Wait()
			sample("adder released", "LenCounter.SCount")
			unreached += x.e.unreach
		}
	}
	w.Notes["counter_lag_samples"] = lagN
	w.Notes["scripted_histories"] = n
	w.Notes["scripted_yield_points_not_reached"] = unreached
}
