package main

import (
	"fmt"
	"runtime"
	"sort"
	"sync"
	"sync/atomic"
	"time"

	"vh/vhlib"
)

// One recorded operation. inv is taken from the shared atomic counter BEFORE the call, resp AFTER it
// returned, so the recorded interval contains the real one: recorded precedence implies real
// precedence and a linearizable execution is never rejected because of the stamping.
type rec struct {
	Inv   uint64  `json:"inv"`
	Resp  uint64  `json:"resp"`
	G     int     `json:"g"`
	Kind  int     `json:"op"`
	K     int64   `json:"k"`
	V     int64   `json:"v,omitempty"`
	RV    int64   `json:"rv,omitempty"`
	RB    bool    `json:"rb,omitempty"`
	Calls int     `json:"calls,omitempty"`
	Keys  []int64 `json:"keys,omitempty"`
	Vals  []int64 `json:"vals,omitempty"`
	Name  string  `json:"name"`
	Panic string  `json:"panic,omitempty"`
}

type plan struct {
	kind int
	k, v int64
	gos  bool // runtime.Gosched() before the operation
	spin int  // busy iterations before the operation
}

type roundCfg struct {
	N, Keys, Ops, Procs int
	YieldPct            int
	Busy                int
	Rangers             int
	Lockstep            bool // all goroutines meet at a spinning barrier before each operation index
	SlowCtor            bool // the LoadOrStoreLazy constructor (user code that runs while the predecessors are locked) yields and spins
}

var clock uint64

func tick() uint64 { return atomic.AddUint64(&clock, 1) }

// contended keys are 1..3; the anchors surround them
var anchorKeys = []int64{0, 7, 8}

var sink uint64

func spinFor(n int) {
	x := uint64(n)
	for i := 0; i < n; i++ {
		x = x*6364136223846793005 + 1442695040888963407
	}
	atomic.AddUint64(&sink, x)
}

func pickCfg(rng *vhlib.Rng, i int, hot bool) roundCfg {
	c := roundCfg{N: rng.Range(2, 8), Keys: rng.Range(1, 3), Ops: rng.Range(4, 8)}
	if hot && i%2 == 0 { // one hot key, many goroutines: insert/remove windows on the same node overlap most
		c.Keys, c.N = 1, rng.Range(5, 8)
	}
	c.Procs = []int{1, 2, 4, 16, 4, 16, 2, 16}[i%8]
	c.Lockstep = rng.Intn(4) != 0
	c.SlowCtor = rng.Intn(2) == 0
	c.YieldPct = []int{0, 10, 30, 50}[rng.Intn(4)]
	if c.Procs > 1 && rng.Intn(3) == 0 {
		c.Busy = rng.Range(1, 4)
	}
	if rng.Intn(2) == 0 {
		c.Rangers = 1
	}
	return c
}

// co-runners that keep the scheduler busy while a round runs
func startBusy(n int) (stop func()) {
	var flag int32
	var wg sync.WaitGroup
	for i := 0; i < n; i++ {
		wg.Add(1)
		go func() {
			defer wg.Done()
			for atomic.LoadInt32(&flag) == 0 {
				spinFor(200)
				runtime.Gosched()
			}
		}()
	}
	return func() { atomic.StoreInt32(&flag, 1); wg.Wait() }
}

// meet: spinning barrier for n goroutines (one counter per operation index)
func meet(cnt *int32, n int, panicked *atomic.Value) {
	atomic.AddInt32(cnt, 1)
	for i := 0; atomic.LoadInt32(cnt) < int32(n); i++ {
		if i&15 == 15 {
			runtime.Gosched()
			if panicked.Load() != nil {
				return
			}
		}
	}
}

// a panic of the code under test inside a worker goroutine: remember it, release the barriers
func notePanic(slot *atomic.Value) {
	if r := recover(); r != nil {
		slot.Store(fmt.Sprint(r))
	}
}

// allStacks: goroutine dump for the watchdog report (tells a deadlock from a starved round)
func allStacks() string {
	buf := make([]byte, 1<<17)
	return string(buf[:runtime.Stack(buf, true)])
}

// slowRound: a round that needed more than 20 s but finished (not a violation; kept in the evidence)
func slowRound(w *vhlib.Writer, detail map[string]interface{}) {
	l, _ := w.Notes["slow_rounds"].([]interface{})
	if len(l) < 3 {
		l = append(l, detail)
	}
	w.Notes["slow_rounds"] = l
}

func waitStart(start *int32) {
	for atomic.LoadInt32(start) == 0 {
		runtime.Gosched()
	}
}

// ---------- skipmap round ----------

func mapRound(rng *vhlib.Rng, c roundCfg, variant int) (hist []rec, ranges []rec, crashed string) {
	m, _ := newMap(variant)
	// anchors: in rounds with a Range goroutine, keys below and above the contended ones are stored before
	// the round starts and never removed, so they are present for the whole of every Range call
	if c.Rangers > 0 {
		for _, k := range anchorKeys {
			r := rec{G: -2, Kind: oStore, K: k, V: 9000 + k, Name: "Store"}
			r.Inv = tick()
			m.Store(k, r.V)
			r.Resp = tick()
			hist = append(hist, r)
		}
	}
	kinds := []int{oStore, oStore, oLoad, oLoad, oLoadOrStore, oLazy, oLoadAndDelete, oLoadAndDelete, oDelete, oDelete}
	plans := make([][]plan, c.N)
	for g := range plans {
		gr := rng.Fork()
		for i := 0; i < c.Ops; i++ {
			p := plan{kind: kinds[gr.Intn(len(kinds))], k: int64(1 + gr.Intn(c.Keys)), v: int64((g+1)*100 + i + 1)}
			p.gos = gr.Intn(100) < c.YieldPct
			if gr.Intn(4) == 0 {
				p.spin = gr.Intn(300)
			}
			plans[g] = append(plans[g], p)
		}
	}
	var start int32
	var wg sync.WaitGroup
	steps := make([]int32, c.Ops)
	var panicked atomic.Value
	working := int32(c.N) // workers still running (the Range goroutines keep ranging meanwhile)
	out := make([][]rec, c.N+c.Rangers)
	for g := 0; g < c.N; g++ {
		wg.Add(1)
		go func(g int) {
			defer wg.Done()
			defer atomic.AddInt32(&working, -1)
			defer notePanic(&panicked)
			local := make([]rec, 0, c.Ops)
			waitStart(&start)
			for i, p := range plans[g] {
				if c.Lockstep {
					meet(&steps[i], c.N, &panicked)
				}
				if p.gos {
					runtime.Gosched()
				}
				if p.spin > 0 {
					spinFor(p.spin)
				}
				r := rec{G: g, Kind: p.kind, K: p.k, V: p.v, Name: mapOpName[p.kind]}
				switch p.kind {
				case oStore:
					r.Inv = tick()
					m.Store(p.k, p.v)
					r.Resp = tick()
				case oLoad:
					r.Inv = tick()
					r.RV, r.RB = m.Load(p.k)
					r.Resp = tick()
				case oLoadOrStore:
					r.Inv = tick()
					r.RV, r.RB = m.LoadOrStore(p.k, p.v)
					r.Resp = tick()
				case oLazy:
					calls := 0
					f := func() int64 {
						calls++
						if c.SlowCtor { // holds the predecessor locks meanwhile: removers that have marked a neighbour wait
							runtime.Gosched()
							spinFor(3000)
						}
						return p.v
					}
					r.Inv = tick()
					r.RV, r.RB = m.LoadOrStoreLazy(p.k, f)
					r.Resp = tick()
					r.Calls = calls
				case oLoadAndDelete:
					r.Inv = tick()
					r.RV, r.RB = m.LoadAndDelete(p.k)
					r.Resp = tick()
				case oDelete:
					r.Inv = tick()
					r.RB = m.Delete(p.k)
					r.Resp = tick()
				}
				local = append(local, r)
			}
			out[g] = local
		}(g)
	}
	for q := 0; q < c.Rangers; q++ {
		wg.Add(1)
		go func(q int) {
			defer wg.Done()
			defer notePanic(&panicked)
			var local []rec
			waitStart(&start)
			for i := 0; i < 3 || (i < 12 && atomic.LoadInt32(&working) > 0); i++ {
				runtime.Gosched()
				r := rec{G: c.N + q, Kind: oRange, Name: "Range"}
				r.Inv = tick()
				m.Range(func(k, v int64) bool {
					r.Keys = append(r.Keys, k)
					r.Vals = append(r.Vals, v)
					return true
				})
				r.Resp = tick()
				local = append(local, r)
			}
			out[c.N+q] = local
		}(q)
	}
	atomic.StoreInt32(&start, 1)
	wg.Wait()
	if p := panicked.Load(); p != nil {
		crashed = p.(string)
	}
	for g := 0; g < c.N; g++ {
		hist = append(hist, out[g]...)
	}
	for q := 0; q < c.Rangers; q++ {
		ranges = append(ranges, out[c.N+q]...)
	}
	// quiescent observations: every goroutine has been joined
	final := func(kind int, name string, f func(r *rec)) {
		r := rec{G: -1, Kind: kind, Name: name}
		r.Inv = tick()
		if p, v := vhlib.Recover(func() { f(&r) }); p {
			r.Panic = fmt.Sprint(v)
		}
		r.Resp = tick()
		hist = append(hist, r)
	}
	final(oLen, "Len", func(r *rec) { r.RV = int64(m.Len()) })
	final(oKeys, "Keys", func(r *rec) { r.Keys = m.Keys() })
	final(oValues, "Values", func(r *rec) { r.Vals = m.Values() })
	final(oEmpty, "Empty", func(r *rec) { r.RB = m.Empty() })
	sort.SliceStable(hist, func(i, j int) bool { return hist[i].Inv < hist[j].Inv })
	return
}

func stampN(v uint64) string { return fmt.Sprintf("%d%%N", v) }

func mapOpTerm(r rec) string {
	var call, res string
	switch r.Kind {
	case oStore:
		call, res = fmt.Sprintf("Store %s %s 0%%nat", vhlib.Z(r.K), vhlib.Z(r.V)), "RUnit"
	case oLoad:
		call, res = "Load "+vhlib.Z(r.K), fmt.Sprintf("RGet %s %s", vhlib.Z(r.RV), vhlib.Bool(r.RB))
	case oLoadOrStore:
		call, res = fmt.Sprintf("LoadOrStore %s %s 0%%nat", vhlib.Z(r.K), vhlib.Z(r.V)), fmt.Sprintf("RLoS %s %s", vhlib.Z(r.RV), vhlib.Bool(r.RB))
	case oLazy:
		call = fmt.Sprintf("LoadOrStoreLazy %s %s 0%%nat", vhlib.Z(r.K), vhlib.Z(r.V))
		res = fmt.Sprintf("RLazy %s %s %s", vhlib.Z(r.RV), vhlib.Bool(r.RB), vhlib.Nat(r.Calls))
	case oLoadAndDelete:
		call, res = "LoadAndDelete "+vhlib.Z(r.K), fmt.Sprintf("RGet %s %s", vhlib.Z(r.RV), vhlib.Bool(r.RB))
	case oDelete:
		call, res = "Delete "+vhlib.Z(r.K), "RBool "+vhlib.Bool(r.RB)
	case oLen:
		call, res = "Len", "RInt "+vhlib.Z(r.RV)
	case oKeys:
		call, res = "Keys", "RList "+vhlib.ZList(r.Keys)
	case oValues:
		call, res = "Values", "RList "+vhlib.ZList(r.Vals)
	case oEmpty:
		call, res = "Empty", "RBool "+vhlib.Bool(r.RB)
	}
	if r.Panic != "" {
		res = "RPanic"
	}
	return fmt.Sprintf("Build_op %s %s (%s) (%s)", stampN(r.Inv), stampN(r.Resp), call, res)
}

func rangeTerm(r rec) string {
	return fmt.Sprintf("{| r_inv := %s; r_resp := %s; r_keys := %s |}", stampN(r.Inv), stampN(r.Resp), vhlib.ZList(r.Keys))
}

// ---------- skipset round ----------

func setRound(rng *vhlib.Rng, c roundCfg, variant int) (hist []rec, ranges []rec, crashed string) {
	s, _ := newSet(variant)
	if c.Rangers > 0 { // anchors, see mapRound
		for _, k := range anchorKeys {
			r := rec{G: -2, Kind: sAddB, K: k, Name: "AddB"}
			r.Inv = tick()
			r.RB = s.AddB(k)
			r.Resp = tick()
			hist = append(hist, r)
		}
	}
	kinds := []int{sAddB, sAddB, sContainsB, sContainsB, sRemoveB, sRemoveB}
	plans := make([][]plan, c.N)
	for g := range plans {
		gr := rng.Fork()
		for i := 0; i < c.Ops; i++ {
			p := plan{kind: kinds[gr.Intn(len(kinds))], k: int64(1 + gr.Intn(c.Keys))}
			p.gos = gr.Intn(100) < c.YieldPct
			if gr.Intn(4) == 0 {
				p.spin = gr.Intn(300)
			}
			plans[g] = append(plans[g], p)
		}
	}
	var start int32
	var wg sync.WaitGroup
	steps := make([]int32, c.Ops)
	var panicked atomic.Value
	working := int32(c.N) // workers still running (the Range goroutines keep ranging meanwhile)
	out := make([][]rec, c.N+c.Rangers)
	for g := 0; g < c.N; g++ {
		wg.Add(1)
		go func(g int) {
			defer wg.Done()
			defer atomic.AddInt32(&working, -1)
			defer notePanic(&panicked)
			local := make([]rec, 0, c.Ops)
			waitStart(&start)
			for i, p := range plans[g] {
				if c.Lockstep {
					meet(&steps[i], c.N, &panicked)
				}
				if p.gos {
					runtime.Gosched()
				}
				if p.spin > 0 {
					spinFor(p.spin)
				}
				r := rec{G: g, Kind: p.kind, K: p.k, Name: setOpName[p.kind]}
				switch p.kind {
				case sAddB:
					r.Inv = tick()
					r.RB = s.AddB(p.k)
					r.Resp = tick()
				case sContainsB:
					r.Inv = tick()
					r.RB = s.ContainsB(p.k)
					r.Resp = tick()
				case sRemoveB:
					r.Inv = tick()
					r.RB = s.RemoveB(p.k)
					r.Resp = tick()
				}
				local = append(local, r)
			}
			out[g] = local
		}(g)
	}
	for q := 0; q < c.Rangers; q++ {
		wg.Add(1)
		go func(q int) {
			defer wg.Done()
			defer notePanic(&panicked)
			var local []rec
			waitStart(&start)
			for i := 0; i < 3 || (i < 12 && atomic.LoadInt32(&working) > 0); i++ {
				runtime.Gosched()
				r := rec{G: c.N + q, Kind: sRange, Name: "Range"}
				r.Inv = tick()
				s.Range(func(x int64) bool {
					r.Keys = append(r.Keys, x)
					return true
				})
				r.Resp = tick()
				local = append(local, r)
			}
			out[c.N+q] = local
		}(q)
	}
	atomic.StoreInt32(&start, 1)
	wg.Wait()
	if p := panicked.Load(); p != nil {
		crashed = p.(string)
	}
	for g := 0; g < c.N; g++ {
		hist = append(hist, out[g]...)
	}
	for q := 0; q < c.Rangers; q++ {
		ranges = append(ranges, out[c.N+q]...)
	}
	final := func(kind int, name string, f func(r *rec)) {
		r := rec{G: -1, Kind: kind, Name: name}
		r.Inv = tick()
		if p, v := vhlib.Recover(func() { f(&r) }); p {
			r.Panic = fmt.Sprint(v)
		}
		r.Resp = tick()
		hist = append(hist, r)
	}
	final(sLen, "Len", func(r *rec) { r.RV = int64(s.Len()) })
	final(sValues, "Values", func(r *rec) { r.Keys = s.Values() })
	final(sEmpty, "Empty", func(r *rec) { r.RB = s.Empty() })
	sort.SliceStable(hist, func(i, j int) bool { return hist[i].Inv < hist[j].Inv })
	return
}

func setOpTerm(r rec) string {
	var call, res string
	switch r.Kind {
	case sAddB:
		call, res = fmt.Sprintf("AddB %s 0%%nat", vhlib.Z(r.K)), "RBool "+vhlib.Bool(r.RB)
	case sContainsB:
		call, res = "ContainsB "+vhlib.Z(r.K), "RBool "+vhlib.Bool(r.RB)
	case sRemoveB:
		call, res = "RemoveB "+vhlib.Z(r.K), "RBool "+vhlib.Bool(r.RB)
	case sLen:
		call, res = "SLen", "RInt "+vhlib.Z(r.RV)
	case sValues:
		call, res = "SValues", "RList "+vhlib.ZList(r.Keys)
	case sEmpty:
		call, res = "SEmpty", "RBool "+vhlib.Bool(r.RB)
	}
	if r.Panic != "" {
		res = "RPanic"
	}
	return fmt.Sprintf("Build_op %s %s (%s) (%s)", stampN(r.Inv), stampN(r.Resp), call, res)
}

// ---------- driver ----------

func concSection(w *vhlib.Writer, o vhlib.Opts, rng *vhlib.Rng, rounds int, hot bool) {
	oldProcs := runtime.GOMAXPROCS(0)
	defer runtime.GOMAXPROCS(oldProcs)
	type result struct {
		hist, ranges []rec
		crashed      string
	}
	overlaps := 0
	for i := 0; i < rounds; i++ {
		c := pickCfg(rng, i, hot)
		isSet := i%3 == 2
		variant := lockFreeVariants[(i/3)%len(lockFreeVariants)] // the mutex wrappers are exercised sequentially
		if isSet && (i/3)%2 == 0 {
			// the set has no user callback that runs under a lock; its only outside lever is the comparator,
			// which a remover calls again when it has marked its victim and must repeat the search
			variant = 10
		}
		if variant == 10 {
			// slow comparator: operations overlap much more, keep the history small for lin_check
			if c.Keys > 1 {
				c.Keys = 3 // neighbours whose insertion/removal makes a remover's validation fail and search again
			}
			if c.N > 6 {
				c.N = 6
			}
			if c.Ops > 6 {
				c.Ops = 6
			}
		}
		if c.SlowCtor && !isSet {
			// the slow constructor holds predecessor locks: everything on the neighbouring keys overlaps
			if c.N > 5 {
				c.N = 5
			}
			if c.Ops > 5 {
				c.Ops = 5
			}
		}
		if c.YieldPct == 50 {
			// reschedule at about one in eight of the in-code yield points: operations overlap much more,
			// so keep the history small for lin_check
			setHooks(perturbHook)
			if c.N > 6 {
				c.N = 6
			}
			if c.Ops > 6 {
				c.Ops = 6
			}
		} else {
			setHooks(nil)
		}
		runtime.GOMAXPROCS(c.Procs)
		stop := startBusy(c.Busy)
		clock = 0
		done := make(chan result, 1)
		rr := rng.Fork()
		go func() {
			var r result
			if isSet {
				r.hist, r.ranges, r.crashed = setRound(rr, c, variant)
			} else {
				r.hist, r.ranges, r.crashed = mapRound(rr, c, variant)
			}
			done <- r
		}()
		var r result
		select {
		case r = <-done:
		case <-time.After(20 * time.Second):
			// slow: take a goroutine dump, then allow 40 s more (a starved round on a loaded machine
			// finishes; a deadlock or livelock does not)
			dump := allStacks()
			select {
			case r = <-done:
				slowRound(w, map[string]interface{}{"config": c, "round": i, "goroutines_at_20s": dump})
			case <-time.After(40 * time.Second):
				stop()
				what := "skipmap"
				if isSet {
					what = "skipset"
				}
				w.Violation("concurrent "+what, "round did not finish within 60 s (deadlock or livelock)", map[string]interface{}{"config": c, "round": i, "seed": o.Seed, "goroutines": allStacks(), "goroutines_at_20s": dump})
				return
			}
		}
		stop()
		if r.crashed != "" {
			what := "skipmap"
			if isSet {
				what = "skipset"
			}
			w.Violation("concurrent "+what, "panic in the code under test during a concurrent round",
				map[string]interface{}{"panic": r.crashed, "config": c, "round": i, "seed": o.Seed, "history_so_far": r.hist})
			continue
		}
		ho := make([]string, len(r.hist))
		for j, x := range r.hist {
			if isSet {
				ho[j] = setOpTerm(x)
			} else {
				ho[j] = mapOpTerm(x)
			}
		}
		ro := make([]string, len(r.ranges))
		for j, x := range r.ranges {
			ro[j] = rangeTerm(x)
		}
		// non-trivial: at least two operations of different goroutines overlap in time
		nontrivial := false
		for a := 0; a < len(r.hist) && !nontrivial; a++ {
			for b := a + 1; b < len(r.hist); b++ {
				if r.hist[b].Inv > r.hist[a].Resp {
					break
				}
				if r.hist[a].G != r.hist[b].G {
					nontrivial = true
					break
				}
			}
		}
		if nontrivial {
			overlaps++
		}
		ctor, label := "HistMap", "concurrent skipmap"
		if isSet {
			ctor, label = "HistSet", "concurrent skipset"
		}
		w.Case(fmt.Sprintf("%s %s %s", ctor, vhlib.List(ho), vhlib.List(ro)), label, nontrivial,
			[]string{"history not linearizable (incl. quiescent Len/Keys/Values)", "Range"},
			map[string]interface{}{"config": c, "variant": mapVariants[variant], "history": r.hist, "ranges": r.ranges})
	}
	setHooks(nil)
	w.Notes["concurrent_rounds"] = rounds
	w.Notes["rounds_with_overlapping_operations"] = overlaps
}
