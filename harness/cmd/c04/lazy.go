package main

import (
	"fmt"
	"runtime"
	"sync"
	"sync/atomic"
	"time"

	"vh/vhlib"
)

// Lazy-constructor scenario on a POPULATED map. The map is pre-filled with the even keys 0,2,..,2(P-1)
// (P in the tens to hundreds, towers drawn by the real randomLevel, so predecessors differ per lane).
// All goroutines then work inside one small window of the key space:
//   lazy goroutines   LoadOrStoreLazy on the odd keys of the window (fresh keys adjacent to the even
//                     ones; two goroutines may pick the same odd key) and sometimes on an even key,
//   churn goroutines  Delete / Store / LoadAndDelete / LoadOrStore of the even keys of the window and
//                     Delete of odd keys, so that predecessors/successors of an insertion on some lane are
//                     marked or re-linked between the optimistic search and the validation.
// Every LoadOrStoreLazy call carries its own closure counter; the case lists (key, constructed value,
// returned value, loaded, constructor calls) for every call of the round and is judged per call in Coq
// (Check.lazy_call_ok_b): no linearizability search, so these histories may be large.

type lazyRec struct {
	G      int   `json:"g"`
	K      int64 `json:"k"`
	V      int64 `json:"v"`
	Actual int64 `json:"actual"`
	Loaded bool  `json:"loaded"`
	Calls  int   `json:"calls"`
}

type lazyCfg struct {
	Prefill, Window, Base   int
	Lazy, Churn, Ops, Procs int
	Lockstep                bool
	Busy                    int
}

func lazyRound(rng *vhlib.Rng, c lazyCfg, variant int) (calls []lazyRec, crashed string) {
	m, _ := newMap(variant)
	for i := 0; i < c.Prefill; i++ {
		m.Store(int64(2*i), int64(-1-i))
	}
	n := c.Lazy + c.Churn
	type step struct {
		kind int
		k, v int64
		spin int
	}
	plans := make([][]step, n)
	for g := 0; g < n; g++ {
		gr := rng.Fork()
		for i := 0; i < c.Ops; i++ {
			even := int64(2 * (c.Base + gr.Intn(c.Window)))
			st := step{v: int64((g+1)*100000 + i + 1)}
			if gr.Intn(5) == 0 {
				st.spin = gr.Intn(200)
			}
			if g < c.Lazy {
				st.kind = oLazy
				st.k = even + 1
				if gr.Intn(6) == 0 {
					st.k = even
				}
			} else {
				switch gr.Intn(10) {
				case 0, 1, 2:
					st.kind, st.k = oDelete, even
				case 3, 4:
					st.kind, st.k = oStore, even
				case 5:
					st.kind, st.k = oLoadAndDelete, even
				case 6:
					st.kind, st.k = oLoadOrStore, even
				default:
					st.kind, st.k = oDelete, even+1
				}
			}
			plans[g] = append(plans[g], st)
		}
	}
	var start int32
	var wg sync.WaitGroup
	var panicked atomic.Value
	steps := make([]int32, c.Ops)
	out := make([][]lazyRec, n)
	for g := 0; g < n; g++ {
		wg.Add(1)
		go func(g int) {
			defer wg.Done()
			defer notePanic(&panicked)
			var local []lazyRec
			waitStart(&start)
			for i, st := range plans[g] {
				if c.Lockstep {
					meet(&steps[i], n, &panicked)
				}
				if st.spin > 0 {
					spinFor(st.spin)
				}
				switch st.kind {
				case oLazy:
					cnt := 0
					v := st.v
					a, loaded := m.LoadOrStoreLazy(st.k, func() int64 { cnt++; return v })
					local = append(local, lazyRec{G: g, K: st.k, V: v, Actual: a, Loaded: loaded, Calls: cnt})
				case oDelete:
					m.Delete(st.k)
				case oStore:
					m.Store(st.k, st.v)
				case oLoadAndDelete:
					m.LoadAndDelete(st.k)
				case oLoadOrStore:
					m.LoadOrStore(st.k, st.v)
				}
			}
			out[g] = local
		}(g)
	}
	atomic.StoreInt32(&start, 1)
	wg.Wait()
	if p := panicked.Load(); p != nil {
		crashed = p.(string)
	}
	for g := 0; g < c.Lazy; g++ {
		calls = append(calls, out[g]...)
	}
	return
}

func lazySection(w *vhlib.Writer, o vhlib.Opts, rng *vhlib.Rng, rounds int) {
	oldProcs := runtime.GOMAXPROCS(0)
	defer runtime.GOMAXPROCS(oldProcs)
	total, stored := 0, 0
	for i := 0; i < rounds; i++ {
		c := lazyCfg{Prefill: rng.Range(24, 300), Window: rng.Range(3, 10), Lazy: rng.Range(2, 5), Churn: rng.Range(2, 5),
			Ops: rng.Range(20, 60), Procs: []int{4, 16, 2, 16, 8, 1}[i%6], Lockstep: rng.Intn(3) != 0}
		c.Base = rng.Intn(c.Prefill - c.Window + 1)
		if c.Procs > 1 && rng.Intn(4) == 0 {
			c.Busy = rng.Range(1, 3)
		}
		variant := lockFreeVariants[i%len(lockFreeVariants)]
		if i%2 == 0 {
			setHooks(perturbHook)
		} else {
			setHooks(nil)
		}
		runtime.GOMAXPROCS(c.Procs)
		stop := startBusy(c.Busy)
		type result struct {
			calls   []lazyRec
			crashed string
		}
		done := make(chan result, 1)
		rr := rng.Fork()
		go func() {
			var r result
			r.calls, r.crashed = lazyRound(rr, c, variant)
			done <- r
		}()
		var r result
		select {
		case r = <-done:
		case <-time.After(20 * time.Second):
			dump := allStacks()
			select {
			case r = <-done:
				slowRound(w, map[string]interface{}{"config": c, "round": i, "goroutines_at_20s": dump})
			case <-time.After(40 * time.Second):
				stop()
				w.Violation("concurrent skipmap lazy", "round did not finish within 60 s (deadlock or livelock)", map[string]interface{}{"config": c, "round": i, "seed": o.Seed, "goroutines": allStacks(), "goroutines_at_20s": dump})
				return
			}
		}
		stop()
		if r.crashed != "" {
			w.Violation("concurrent skipmap lazy", "panic in the code under test during a concurrent round",
				map[string]interface{}{"panic": r.crashed, "config": c, "round": i, "seed": o.Seed})
			continue
		}
		nst := 0
		for _, x := range r.calls {
			if !x.Loaded {
				nst++
			}
		}
		total += len(r.calls)
		stored += nst
		// one case per chunk of at most 50 calls (keeps the case files small and spreads them over shards)
		for lo := 0; lo < len(r.calls); lo += 50 {
			hi := lo + 50
			if hi > len(r.calls) {
				hi = len(r.calls)
			}
			chunk := r.calls[lo:hi]
			it := make([]string, len(chunk))
			var bad []lazyRec // replay hint only; the verdict is Coq's
			st := 0
			for j, x := range chunk {
				it[j] = fmt.Sprintf("lzc %s %s %s %s %s", vhlib.Z(x.K), vhlib.Z(x.V), vhlib.Z(x.Actual), vhlib.Bool(x.Loaded), vhlib.Nat(x.Calls))
				if !x.Loaded {
					st++
				}
				if (x.Loaded && x.Calls != 0) || (!x.Loaded && (x.Calls != 1 || x.Actual != x.V)) {
					bad = append(bad, x)
				}
			}
			replay := map[string]interface{}{"config": c, "variant": mapVariants[variant], "round": i, "first_call": lo,
				"lazy_calls_in_round": len(r.calls), "stored_in_round": nst, "offending_calls": bad}
			if len(bad) > 0 {
				replay["calls"] = chunk
			}
			w.Case("LazyCalls "+vhlib.List(it), "concurrent skipmap lazy", st > 0,
				[]string{"LoadOrStoreLazy constructor calls per call (<= 1, = 1 iff stored)"}, replay)
		}
	}
	setHooks(nil)
	w.Notes["lazy_rounds"] = rounds
	w.Notes["lazy_calls_total"] = total
	w.Notes["lazy_calls_stored"] = stored
}
