package main

import (
	"fmt"
	"runtime"
	"strconv"
	"sync/atomic"

	"github.com/songzhibin97/go-baseutils/base/bcomparator"
	"github.com/songzhibin97/go-baseutils/structure/maps/skipmap"
	"github.com/songzhibin97/go-baseutils/structure/sets/skipset"
)

// The Coq model speaks about integer keys in their natural order. Every key type / comparator the
// harness instantiates the generic containers with comes with an order isomorphism enc/dec from the
// int64 codes used in the cases.

type rawMap[K any] interface {
	Store(K, int64)
	Load(K) (int64, bool)
	LoadOrStore(K, int64) (int64, bool)
	LoadOrStoreLazy(K, func() int64) (int64, bool)
	LoadAndDelete(K) (int64, bool)
	Delete(K) bool
	Range(func(K, int64) bool)
	Len() int
	Clear()
	Keys() []K
	Values() []int64
	Size() int
	Empty() bool
	Put(K, int64)
	Get(K) (int64, bool)
	Remove(K)
	VerifShape() ([]int, []int, int, int64)
}

// zmap: the map API over int64 key codes
type zmap interface {
	Store(k, v int64)
	Load(k int64) (int64, bool)
	LoadOrStore(k, v int64) (int64, bool)
	LoadOrStoreLazy(k int64, f func() int64) (int64, bool)
	LoadAndDelete(k int64) (int64, bool)
	Delete(k int64) bool
	Range(f func(k, v int64) bool)
	Len() int
	Clear()
	Keys() []int64
	Values() []int64
	Size() int
	Empty() bool
	Put(k, v int64)
	Get(k int64) (int64, bool)
	Remove(k int64)
	Shape() ([]int, []int, int, int64)
}

type mapAd[K any] struct {
	m   rawMap[K]
	enc func(int64) K
	dec func(K) int64
}

func (a mapAd[K]) Store(k, v int64)                     { a.m.Store(a.enc(k), v) }
func (a mapAd[K]) Load(k int64) (int64, bool)           { return a.m.Load(a.enc(k)) }
func (a mapAd[K]) LoadOrStore(k, v int64) (int64, bool) { return a.m.LoadOrStore(a.enc(k), v) }
func (a mapAd[K]) LoadOrStoreLazy(k int64, f func() int64) (int64, bool) {
	return a.m.LoadOrStoreLazy(a.enc(k), f)
}
func (a mapAd[K]) LoadAndDelete(k int64) (int64, bool) { return a.m.LoadAndDelete(a.enc(k)) }
func (a mapAd[K]) Delete(k int64) bool                 { return a.m.Delete(a.enc(k)) }
func (a mapAd[K]) Range(f func(k, v int64) bool) {
	a.m.Range(func(k K, v int64) bool { return f(a.dec(k), v) })
}
func (a mapAd[K]) Len() int { return a.m.Len() }
func (a mapAd[K]) Clear()   { a.m.Clear() }
func (a mapAd[K]) Keys() []int64 {
	ks := a.m.Keys()
	r := make([]int64, len(ks))
	for i, k := range ks {
		r[i] = a.dec(k)
	}
	return r
}
func (a mapAd[K]) Values() []int64                   { return a.m.Values() }
func (a mapAd[K]) Size() int                         { return a.m.Size() }
func (a mapAd[K]) Empty() bool                       { return a.m.Empty() }
func (a mapAd[K]) Put(k, v int64)                    { a.m.Put(a.enc(k), v) }
func (a mapAd[K]) Get(k int64) (int64, bool)         { return a.m.Get(a.enc(k)) }
func (a mapAd[K]) Remove(k int64)                    { a.m.Remove(a.enc(k)) }
func (a mapAd[K]) Shape() ([]int, []int, int, int64) { return a.m.VerifShape() }

type rawSet[E any] interface {
	AddB(E) bool
	Add(...E)
	ContainsB(E) bool
	Contains(...E) bool
	RemoveB(E) bool
	Remove(...E)
	Range(func(E) bool)
	Len() int
	Size() int
	Empty() bool
	Clear()
	Values() []E
	VerifShape() ([]int, []int, int, int64)
}

type zset interface {
	AddB(x int64) bool
	Add(xs []int64)
	ContainsB(x int64) bool
	Contains(xs []int64) bool
	RemoveB(x int64) bool
	Remove(xs []int64)
	Range(f func(x int64) bool)
	Len() int
	Size() int
	Empty() bool
	Clear()
	Values() []int64
	Shape() ([]int, []int, int, int64)
}

type setAd[E any] struct {
	s   rawSet[E]
	enc func(int64) E
	dec func(E) int64
}

func (a setAd[E]) encs(xs []int64) []E {
	r := make([]E, len(xs))
	for i, x := range xs {
		r[i] = a.enc(x)
	}
	return r
}
func (a setAd[E]) AddB(x int64) bool          { return a.s.AddB(a.enc(x)) }
func (a setAd[E]) Add(xs []int64)             { a.s.Add(a.encs(xs)...) }
func (a setAd[E]) ContainsB(x int64) bool     { return a.s.ContainsB(a.enc(x)) }
func (a setAd[E]) Contains(xs []int64) bool   { return a.s.Contains(a.encs(xs)...) }
func (a setAd[E]) RemoveB(x int64) bool       { return a.s.RemoveB(a.enc(x)) }
func (a setAd[E]) Remove(xs []int64)          { a.s.Remove(a.encs(xs)...) }
func (a setAd[E]) Range(f func(x int64) bool) { a.s.Range(func(e E) bool { return f(a.dec(e)) }) }
func (a setAd[E]) Len() int                   { return a.s.Len() }
func (a setAd[E]) Size() int                  { return a.s.Size() }
func (a setAd[E]) Empty() bool                { return a.s.Empty() }
func (a setAd[E]) Clear()                     { a.s.Clear() }
func (a setAd[E]) Values() []int64 {
	vs := a.s.Values()
	r := make([]int64, len(vs))
	for i, v := range vs {
		r[i] = a.dec(v)
	}
	return r
}
func (a setAd[E]) Shape() ([]int, []int, int, int64) { return a.s.VerifShape() }

// ---- key types ----

// strings of fixed width: lexicographic order = numeric order of the code (codes in [-50000, 49999])
func encStr(z int64) string { return fmt.Sprintf("k%05d", z+50000) }
func decStr(s string) int64 {
	n, err := strconv.ParseInt(s[1:], 10, 64)
	if err != nil {
		panic("harness: undecodable string key " + s)
	}
	return n - 50000
}

// a struct key ordered by a hand-written comparator function (hi, then lo)
type pairKey struct{ hi, lo int32 }

func encPair(z int64) pairKey { return pairKey{int32(z >> 3), int32(z & 7)} }
func decPair(p pairKey) int64 { return int64(p.hi)<<3 | int64(p.lo) }
func cmpPair(a, b pairKey) int {
	if a.hi != b.hi {
		if a.hi < b.hi {
			return -1
		}
		return 1
	}
	if a.lo != b.lo {
		if a.lo < b.lo {
			return -1
		}
		return 1
	}
	return 0
}

// ---- user comparators that return MAGNITUDES (not just -1/0/+1) ----
// The model only needs the comparator's ORDER: keys of the cases are the ranks (int64 codes) and every
// variant's enc is strictly increasing w.r.t. its comparator, so the case type is unchanged. The
// encodings below spread the codes so that the comparator returns -1, +1 and many other magnitudes.

// strictly increasing, odd, differences 2, 4, 6, ...: f(z) = z*|z| + z
func encSq(z int64) int64 {
	if z < 0 {
		return -z*z + z
	}
	return z*z + z
}
func decSq(k int64) int64 {
	lo, hi := int64(-60000), int64(60000)
	for lo < hi {
		mid := lo + (hi-lo)/2
		if encSq(mid) < k {
			lo = mid + 1
		} else {
			hi = mid
		}
	}
	if encSq(lo) != k {
		panic(fmt.Sprintf("harness: undecodable key %d", k))
	}
	return lo
}

// mixed gaps 1,1,5,1,1,5,...: f(z) = z + 4*floor(z/3)   (returns -1 between some neighbours, -5.. between others)
func encMix(z int64) int64 {
	q := z / 3
	if z%3 != 0 && z < 0 {
		q--
	}
	return z + 4*q
}
func decMix(k int64) int64 {
	lo, hi := int64(-60000), int64(60000)
	for lo < hi {
		mid := lo + (hi-lo)/2
		if encMix(mid) < k {
			lo = mid + 1
		} else {
			hi = mid
		}
	}
	if encMix(lo) != k {
		panic(fmt.Sprintf("harness: undecodable key %d", k))
	}
	return lo
}

// struct elements compared by subtracting a field
type recKey struct {
	id  int32
	tag string
}

func encRec(z int64) recKey { return recKey{int32(3 * z), "r" + strconv.FormatInt(z, 10)} }
func decRec(r recKey) int64 {
	if r.id%3 != 0 {
		panic("harness: undecodable struct key")
	}
	return int64(r.id / 3)
}
func cmpRecSub(a, b recKey) int { return int(a.id - b.id) }

// a SLOW user comparator (a-b): every few calls it yields and spins for a moment. Comparators run inside
// the optimistic searches, in particular in the search a remover repeats after it has marked its victim
// and failed validation, so this widens the mark -> unlink and link -> fullyLinked windows from outside
// the code under test (no hook needed).
var slowCalls uint64

func cmpSlowDiff(a, b int64) int {
	n := atomic.AddUint64(&slowCalls, 1)
	if n%5 == 0 {
		runtime.Gosched()
		spinFor(int(n % 4000))
	}
	return int(a - b)
}

func cmpDiff(a, b int64) int  { return int(a - b) }       // a-b
func cmpDiff7(a, b int64) int { return int((a - b) * 7) } // scaled
func cmpRevDiff(a, b int) int { return b - a }            // descending difference

var mapVariants = []string{"int64", "string", "int-reversed", "struct-func", "safe-int64",
	"int64 cmp=a-b", "int cmp=b-a", "int64 cmp=(a-b)*7", "struct cmp=a.id-b.id", "safe-int64 cmp=a-b", "int64 slow cmp=a-b"}

// the variants without a mutex wrapper (used by the concurrent sections)
var lockFreeVariants = []int{0, 10, 1, 5, 2, 10, 3, 6, 7, 10, 8}

// extremes: whether the variant can take keys near the ends of int64
func newMap(variant int) (m zmap, extremes bool) {
	switch variant {
	case 0:
		return mapAd[int64]{skipmap.New[int64, int64](bcomparator.Int64Comparator()),
			func(z int64) int64 { return z }, func(k int64) int64 { return k }}, true
	case 1:
		return mapAd[string]{skipmap.New[string, int64](bcomparator.StringComparator()), encStr, decStr}, false
	case 2:
		return mapAd[int]{skipmap.New[int, int64](bcomparator.ReverseComparator(bcomparator.IntComparator())),
			func(z int64) int { return int(-z) }, func(k int) int64 { return int64(-k) }}, false
	case 3:
		return mapAd[pairKey]{skipmap.New[pairKey, int64](cmpPair), encPair, decPair}, false
	case 5:
		return mapAd[int64]{skipmap.New[int64, int64](cmpDiff), encMix, decMix}, false
	case 6:
		return mapAd[int]{skipmap.New[int, int64](cmpRevDiff),
			func(z int64) int { return int(-encSq(z)) }, func(k int) int64 { return decSq(int64(-k)) }}, false
	case 7:
		return mapAd[int64]{skipmap.New[int64, int64](cmpDiff7), encSq, decSq}, false
	case 8:
		return mapAd[recKey]{skipmap.New[recKey, int64](cmpRecSub), encRec, decRec}, false
	case 9:
		return mapAd[int64]{skipmap.NewSafe[int64, int64](cmpDiff), encMix, decMix}, false
	case 10:
		return mapAd[int64]{skipmap.New[int64, int64](cmpSlowDiff), encMix, decMix}, false
	default:
		return mapAd[int64]{skipmap.NewSafe[int64, int64](bcomparator.Int64Comparator()),
			func(z int64) int64 { return z }, func(k int64) int64 { return k }}, true
	}
}

var setVariants = mapVariants

func newSet(variant int) (s zset, extremes bool) {
	switch variant {
	case 0:
		return setAd[int64]{skipset.New[int64](bcomparator.Int64Comparator()),
			func(z int64) int64 { return z }, func(k int64) int64 { return k }}, true
	case 1:
		return setAd[string]{skipset.New[string](bcomparator.StringComparator()), encStr, decStr}, false
	case 2:
		return setAd[int]{skipset.New[int](bcomparator.ReverseComparator(bcomparator.IntComparator())),
			func(z int64) int { return int(-z) }, func(k int) int64 { return int64(-k) }}, false
	case 3:
		return setAd[pairKey]{skipset.New[pairKey](cmpPair), encPair, decPair}, false
	case 5:
		return setAd[int64]{skipset.New[int64](cmpDiff), encMix, decMix}, false
	case 6:
		return setAd[int]{skipset.New[int](cmpRevDiff),
			func(z int64) int { return int(-encSq(z)) }, func(k int) int64 { return decSq(int64(-k)) }}, false
	case 7:
		return setAd[int64]{skipset.New[int64](cmpDiff7), encSq, decSq}, false
	case 8:
		return setAd[recKey]{skipset.New[recKey](cmpRecSub), encRec, decRec}, false
	case 9:
		return setAd[int64]{skipset.NewSafe[int64](cmpDiff), encMix, decMix}, false
	case 10:
		return setAd[int64]{skipset.New[int64](cmpSlowDiff), encMix, decMix}, false
	default:
		return setAd[int64]{skipset.NewSafe[int64](bcomparator.Int64Comparator()),
			func(z int64) int64 { return z }, func(k int64) int64 { return k }}, true
	}
}
