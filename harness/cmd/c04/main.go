// C04 harness: runs structure/maps/skipmap and structure/sets/skipset (several key types and
// comparators, and the mutex wrappers) on sequential traces with a controlled height oracle, and
// records small concurrent histories under perturbed schedules. Writes Coq cases decided by
// VF.C04.Check (finite-map Spec, SkipSeq Model, verified lin_check and range_ok_b).
package main

import (
	"encoding/json"
	"fmt"
	"os"
	"os/exec"
	"path/filepath"
	"strings"

	"vh/vhlib"
)

const header = "From VF Require Import Common.Base Common.Hist C04.Spec C04.Model C04.ProofsRange C04.Check.\nLocal Open Scope Z_scope."

const rule = "sequential case = one operation trace on a fresh skipmap/skipset (eleven key-type/comparator variants (one with a slow, yielding a-b comparator that widens the optimistic windows in concurrent rounds) incl. the mutex wrappers: built-in -1/0/+1 comparators on int64/string/int-reversed/struct and user comparators returning magnitudes -- a-b, b-a, (a-b)*7, struct-field subtraction -- on key encodings with gaps 1,1,5 / 2,4,6,.. / 3; cases carry the keys' ranks under the comparator; random profiles, every word of length 3 over a two-key alphabet (thorough: length 3 over three keys, length 4 over one key / two elements), and the deterministic generator \"clear-tall\": six traces per variant with Clear (after low inserts, as the first operation, twice in a row, again after tall inserts) followed by fresh keys at node levels 5..16,16 through every insert flavour, each looked up at once, then removals and Range/Keys/Len), every step carrying the result and the lane/level/highestLevel/length dump; a panic of the code under test is the result RPanic of that step and ends the trace; a dump the verif accessor cannot take is recorded as an unreadable shape (model mismatch); non-trivial = inserts at least one key. concurrent case = one round on a fresh structure: 2-8 goroutines x 4-8 operations on 1-3 keys (+ optional Range goroutine), GOMAXPROCS cycling 1/2/4/16, seeded Gosched/spin between operations, busy co-runners; stamps from one atomic counter (invocation before the call, response after); quiescent Len/Keys/Values/Empty appended as the last operations; non-trivial = two operations of different goroutines overlap.  lazy case = one round on a map pre-filled with 24-300 even keys: 2-5 goroutines call LoadOrStoreLazy on odd (fresh, adjacent) keys of a 3-10 key window while 2-5 others Delete/Store/LoadAndDelete/LoadOrStore the neighbouring keys, 20-60 operations each; every LoadOrStoreLazy call carries a closure counter and is judged per call (no search); non-trivial = at least one call stored.  scripted case = one schedule driven through the add-only yield points (VerifYieldHook): an operation is parked inside a protocol window (marked/not unlinked, validated/not linked, linked/not fullyLinked, randomLevel between load and CAS with forced levels, reader or updater on a found node) while the other operations run against it; 10 map and 8 set scenarios x 4 comparator variants, judged by lin_check/range_ok_b; non-trivial = every yield point of the script was reached. distinct = distinct case terms."

func main() {
	o := vhlib.ParseOpts()
	if raceEnabled && os.Getenv("C04_RACE_CHILD") == "" {
		raceParent(o)
		return
	}
	rng := vhlib.NewRng(o.Seed)
	raceRun := strings.Contains(o.Extra, "race")
	shard := 100
	if raceRun {
		shard = 50 // few cases, all of them concurrent histories: spread them over more coqc processes
	}
	w := vhlib.NewWriter(o.Out, header, "case", "mismatches", shard)
	if !raceRun {
		seqSection(w, o, rng.Fork())
	}
	rounds := 800
	if o.Thorough() {
		rounds = 4000
	}
	if raceRun {
		rounds = 300
		if o.Thorough() {
			rounds = 3000
		}
	}
	scriptSection(w, o)
	concSection(w, o, rng.Fork(), rounds, raceRun)
	lazyRounds := 150
	if o.Thorough() {
		lazyRounds = 1500
	}
	if raceRun {
		lazyRounds /= 3
	}
	lazySection(w, o, rng.Fork(), lazyRounds)
	w.Close(o, rule)
}

// Under -race the harness re-executes itself with GORACE pointing the detector's reports at a file
// in the output directory; reports become direct violations in meta.json.
func raceParent(o vhlib.Opts) {
	logBase := filepath.Join(o.Out, "race_report")
	old, _ := filepath.Glob(logBase + "*")
	for _, f := range old {
		os.Remove(f)
	}
	cmd := exec.Command(os.Args[0], os.Args[1:]...)
	cmd.Env = append(os.Environ(), "C04_RACE_CHILD=1", "GORACE=log_path="+logBase+" exitcode=0 halt_on_error=0")
	cmd.Stdout, cmd.Stderr = os.Stdout, os.Stderr
	if err := cmd.Run(); err != nil {
		fmt.Fprintln(os.Stderr, "race child failed:", err)
		os.Exit(1)
	}
	reports, _ := filepath.Glob(logBase + "*")
	if len(reports) == 0 {
		return
	}
	var text []string
	for _, f := range reports {
		b, _ := os.ReadFile(f)
		s := string(b)
		if len(s) > 6000 {
			s = s[:6000]
		}
		text = append(text, s)
	}
	mp := filepath.Join(o.Out, "meta.json")
	f, err := os.Open(mp)
	if err != nil {
		fmt.Fprintln(os.Stderr, err)
		os.Exit(1)
	}
	dec := json.NewDecoder(f)
	dec.UseNumber()
	var meta map[string]interface{}
	if err := dec.Decode(&meta); err != nil {
		fmt.Fprintln(os.Stderr, err)
		os.Exit(1)
	}
	f.Close()
	notes, _ := meta["notes"].(map[string]interface{})
	if notes == nil {
		notes = map[string]interface{}{}
	}
	dv, _ := notes["direct_violations"].([]interface{})
	dv = append(dv, map[string]interface{}{"label": "concurrent skipmap/skipset under -race", "what": "data race reported by the race detector", "detail": text})
	notes["direct_violations"] = dv
	meta["notes"] = notes
	b, _ := json.Marshal(meta)
	os.WriteFile(mp, b, 0o644)
}
