package main

import (
	"fmt"
	"math"

	"github.com/songzhibin97/go-baseutils/sys/fastrand"

	"vh/vhlib"
)

// ---------- height oracle: fastrand.Uint32 is a reassignable package variable ----------
// randomLevel() is `level := 1; for fastrand.Uint32n(4) == 0 { level++ }` (clamped to 16) and
// Uint32n(4) == Uint32() >> 30, so a queue of h-1 zero draws followed by a large one yields level h.

type drawSrc struct {
	q   []uint32
	pos int
}

func (d *drawSrc) next() uint32 {
	d.pos++
	if d.pos-1 < len(d.q) {
		return d.q[d.pos-1]
	}
	return math.MaxUint32
}
func (d *drawSrc) want(levels ...int) {
	d.q, d.pos = d.q[:0], 0
	for _, h := range levels {
		for i := 1; i < h; i++ {
			d.q = append(d.q, 0)
		}
		d.q = append(d.q, math.MaxUint32)
	}
}

// levels actually drawn by the calls of randomLevel() made since want()
func (d *drawSrc) drawn() []int {
	var out []int
	lvl := 1
	for i := 0; i < d.pos; i++ {
		v := uint32(math.MaxUint32)
		if i < len(d.q) {
			v = d.q[i]
		}
		if v>>30 == 0 {
			lvl++
			continue
		}
		if lvl > 16 {
			lvl = 16
		}
		out = append(out, lvl)
		lvl = 1
	}
	return out
}

// ---------- operations ----------

const (
	oStore = iota
	oLoad
	oLoadOrStore
	oLazy
	oLoadAndDelete
	oDelete
	oRange
	oLen
	oClear
	oKeys
	oValues
	oSize
	oEmpty
	oPut
	oGet
	oRemove
	nMapOps
)

var mapOpName = []string{"Store", "Load", "LoadOrStore", "LoadOrStoreLazy", "LoadAndDelete", "Delete", "Range", "Len", "Clear",
	"Keys", "Values", "Size", "Empty", "Put", "Get", "Remove"}

type mop struct {
	Kind  int   `json:"op"`
	K     int64 `json:"k,omitempty"`
	V     int64 `json:"v,omitempty"`
	H     int   `json:"h,omitempty"`     // level requested from the oracle
	Limit int   `json:"limit,omitempty"` // Range: callback answers false at this call (0 = never)
}

func shapeTerm(lanes, levels []int, hl int, length int64) string {
	it := make([]string, len(lanes))
	for i := range lanes {
		l := lanes[i]
		switch {
		case l < 0:
			l = 98 // reachable on an upper lane only
		case i >= len(levels) || levels[i] != l:
			l = 99 // linked on a number of lanes different from its level field
		}
		it[i] = vhlib.Nat(l)
	}
	if hl < 0 {
		hl = 9999
	}
	return fmt.Sprintf("{| sh_levels := %s; sh_hl := %s; sh_len := %s |}", vhlib.List(it), vhlib.Nat(hl), vhlib.Z(length))
}

// unreadableShape never equals a model shape (node levels are 1..16, highestLevel <= 16, length >= 0).
var unreadableShape = fmt.Sprintf("{| sh_levels := %s; sh_hl := %s; sh_len := %s |}", vhlib.List([]string{vhlib.Nat(97)}), vhlib.Nat(9999), vhlib.Z(-1))

// readShape takes the dump through the verif accessor. The accessor walks all sixteen lanes of the
// header, so on a structure whose header is broken (e.g. allocated too short) it panics itself: that
// must be a mismatching shape of this step (kind 1), not a crash of the harness process.
func readShape(shape func() ([]int, []int, int, int64)) (term string) {
	if p, _ := vhlib.Recover(func() {
		lanes, levels, hl, length := shape()
		term = shapeTerm(lanes, levels, hl, length)
	}); p {
		return unreadableShape
	}
	return term
}

func pairsTerm(ks, vs []int64) string {
	it := make([]string, len(ks))
	for i := range ks {
		it[i] = vhlib.Pair(vhlib.Z(ks[i]), vhlib.Z(vs[i]))
	}
	return vhlib.List(it)
}

// runMapTrace executes ops on a fresh map of the given variant and returns the Coq steps.
func runMapTrace(variant int, ops []mop, src *drawSrc) (steps []string, labels []string) {
	m, _ := newMap(variant)
	for _, o := range ops {
		var call, res string
		src.want(o.H)
		h := func() int { // the level randomLevel() returned in this call (0: it was not called)
			d := src.drawn()
			if len(d) == 0 {
				return 0
			}
			return d[0]
		}
		p, pv := vhlib.Recover(func() {
			switch o.Kind {
			case oStore:
				m.Store(o.K, o.V)
				call, res = fmt.Sprintf("Store %s %s %s", vhlib.Z(o.K), vhlib.Z(o.V), vhlib.Nat(h())), "RUnit"
			case oPut:
				m.Put(o.K, o.V)
				call, res = fmt.Sprintf("Put %s %s %s", vhlib.Z(o.K), vhlib.Z(o.V), vhlib.Nat(h())), "RUnit"
			case oLoad:
				v, ok := m.Load(o.K)
				call, res = fmt.Sprintf("Load %s", vhlib.Z(o.K)), fmt.Sprintf("RGet %s %s", vhlib.Z(v), vhlib.Bool(ok))
			case oGet:
				v, ok := m.Get(o.K)
				call, res = fmt.Sprintf("Get %s", vhlib.Z(o.K)), fmt.Sprintf("RGet %s %s", vhlib.Z(v), vhlib.Bool(ok))
			case oLoadOrStore:
				v, loaded := m.LoadOrStore(o.K, o.V)
				call = fmt.Sprintf("LoadOrStore %s %s %s", vhlib.Z(o.K), vhlib.Z(o.V), vhlib.Nat(h()))
				res = fmt.Sprintf("RLoS %s %s", vhlib.Z(v), vhlib.Bool(loaded))
			case oLazy:
				calls := 0
				v, loaded := m.LoadOrStoreLazy(o.K, func() int64 { calls++; return o.V })
				call = fmt.Sprintf("LoadOrStoreLazy %s %s %s", vhlib.Z(o.K), vhlib.Z(o.V), vhlib.Nat(h()))
				res = fmt.Sprintf("RLazy %s %s %s", vhlib.Z(v), vhlib.Bool(loaded), vhlib.Nat(calls))
			case oLoadAndDelete:
				v, ok := m.LoadAndDelete(o.K)
				call, res = fmt.Sprintf("LoadAndDelete %s", vhlib.Z(o.K)), fmt.Sprintf("RGet %s %s", vhlib.Z(v), vhlib.Bool(ok))
			case oDelete:
				ok := m.Delete(o.K)
				call, res = fmt.Sprintf("Delete %s", vhlib.Z(o.K)), "RBool "+vhlib.Bool(ok)
			case oRemove:
				m.Remove(o.K)
				call, res = fmt.Sprintf("Remove %s", vhlib.Z(o.K)), "RUnit"
			case oRange:
				var ks, vs []int64
				n := 0
				m.Range(func(k, v int64) bool {
					ks, vs = append(ks, k), append(vs, v)
					n++
					return n != o.Limit
				})
				call, res = "Range "+vhlib.Nat(o.Limit), "RPairs "+pairsTerm(ks, vs)
			case oLen:
				call, res = "Len", "RInt "+vhlib.Z(int64(m.Len()))
			case oSize:
				call, res = "Size", "RInt "+vhlib.Z(int64(m.Size()))
			case oEmpty:
				call, res = "Empty", "RBool "+vhlib.Bool(m.Empty())
			case oClear:
				m.Clear()
				call, res = "Clear", "RUnit"
			case oKeys:
				call, res = "Keys", "RList "+vhlib.ZList(m.Keys())
			case oValues:
				call, res = "Values", "RList "+vhlib.ZList(m.Values())
			}
		})
		if p {
			_ = pv
			call, res = mapCallNoResult(o), "RPanic"
		}
		steps = append(steps, fmt.Sprintf("(%s, %s, %s)", call, res, readShape(m.Shape)))
		labels = append(labels, mapOpName[o.Kind])
		if p {
			break // the state after a panic is undefined (locks may still be held): the trace ends here
		}
	}
	return
}

func mapCallNoResult(o mop) string {
	switch o.Kind {
	case oStore, oPut, oLoadOrStore, oLazy:
		return fmt.Sprintf("%s %s %s %s", mapOpName[o.Kind], vhlib.Z(o.K), vhlib.Z(o.V), vhlib.Nat(o.H))
	case oLoad, oGet, oLoadAndDelete, oDelete, oRemove:
		return fmt.Sprintf("%s %s", mapOpName[o.Kind], vhlib.Z(o.K))
	case oRange:
		return "Range " + vhlib.Nat(o.Limit)
	}
	return mapOpName[o.Kind]
}

// ---------- set ----------

const (
	sAddB = iota
	sAdd
	sContainsB
	sContains
	sRemoveB
	sRemove
	sRange
	sLen
	sSize
	sEmpty
	sClear
	sValues
	nSetOps
)

var setOpName = []string{"AddB", "Add", "ContainsB", "Contains", "RemoveB", "Remove", "Range", "Len", "Size", "Empty", "Clear", "Values"}
var setCtor = []string{"AddB", "Add", "ContainsB", "Contains", "RemoveB", "SRemove", "SRange", "SLen", "SSize", "SEmpty", "SClear", "SValues"}

type sop struct {
	Kind  int     `json:"op"`
	X     int64   `json:"x,omitempty"`
	H     int     `json:"h,omitempty"`
	Xs    []int64 `json:"xs,omitempty"`
	Hs    []int   `json:"hs,omitempty"`
	Limit int     `json:"limit,omitempty"`
}

func runSetTrace(variant int, ops []sop, src *drawSrc) (steps []string, labels []string) {
	s, _ := newSet(variant)
	for _, o := range ops {
		var call, res string
		if o.Kind == sAdd {
			src.want(o.Hs...)
		} else {
			src.want(o.H)
		}
		p, _ := vhlib.Recover(func() {
			switch o.Kind {
			case sAddB:
				ok := s.AddB(o.X)
				h := 0
				if d := src.drawn(); len(d) > 0 {
					h = d[0]
				}
				call, res = fmt.Sprintf("AddB %s %s", vhlib.Z(o.X), vhlib.Nat(h)), "RBool "+vhlib.Bool(ok)
			case sAdd:
				s.Add(o.Xs)
				d := src.drawn()
				it := make([]string, len(o.Xs))
				for i, x := range o.Xs {
					h := 0
					if i < len(d) {
						h = d[i]
					}
					it[i] = vhlib.Pair(vhlib.Z(x), vhlib.Nat(h))
				}
				call, res = "Add "+vhlib.List(it), "RUnit"
			case sContainsB:
				call, res = "ContainsB "+vhlib.Z(o.X), "RBool "+vhlib.Bool(s.ContainsB(o.X))
			case sContains:
				call, res = "Contains "+vhlib.ZList(o.Xs), "RBool "+vhlib.Bool(s.Contains(o.Xs))
			case sRemoveB:
				call, res = "RemoveB "+vhlib.Z(o.X), "RBool "+vhlib.Bool(s.RemoveB(o.X))
			case sRemove:
				s.Remove(o.Xs)
				call, res = "SRemove "+vhlib.ZList(o.Xs), "RUnit"
			case sRange:
				var xs []int64
				n := 0
				s.Range(func(x int64) bool {
					xs = append(xs, x)
					n++
					return n != o.Limit
				})
				call, res = "SRange "+vhlib.Nat(o.Limit), "RList "+vhlib.ZList(xs)
			case sLen:
				call, res = "SLen", "RInt "+vhlib.Z(int64(s.Len()))
			case sSize:
				call, res = "SSize", "RInt "+vhlib.Z(int64(s.Size()))
			case sEmpty:
				call, res = "SEmpty", "RBool "+vhlib.Bool(s.Empty())
			case sClear:
				s.Clear()
				call, res = "SClear", "RUnit"
			case sValues:
				call, res = "SValues", "RList "+vhlib.ZList(s.Values())
			}
		})
		if p {
			res = "RPanic"
			switch o.Kind {
			case sAddB:
				call = fmt.Sprintf("AddB %s %s", vhlib.Z(o.X), vhlib.Nat(o.H))
			case sAdd:
				call = "Add []"
			case sContainsB, sRemoveB:
				call = setCtor[o.Kind] + " " + vhlib.Z(o.X)
			case sContains, sRemove:
				call = setCtor[o.Kind] + " " + vhlib.ZList(o.Xs)
			case sRange:
				call = "SRange " + vhlib.Nat(o.Limit)
			default:
				call = setCtor[o.Kind]
			}
		}
		steps = append(steps, fmt.Sprintf("(%s, %s, %s)", call, res, readShape(s.Shape)))
		labels = append(labels, setOpName[o.Kind])
		if p {
			break // see runMapTrace
		}
	}
	return
}

// ---------- generators ----------

var profiles = []string{"ascending", "descending", "zigzag", "duplicate-heavy", "delete-heavy", "churn", "zero-values", "extreme", "clear-mix", "malformed"}

func pickHeight(rng *vhlib.Rng) int {
	switch rng.Intn(12) {
	case 0:
		return 16
	case 1:
		return 17 + rng.Intn(5) // more zero draws than levels: clamped to 16
	case 2, 3:
		return 4 + rng.Intn(6)
	case 4:
		return 3
	default:
		return 1 + rng.Intn(3)
	}
}

var extremeKeys = []int64{math.MinInt64, math.MinInt64 + 1, -1, 0, 1, math.MaxInt64 - 1, math.MaxInt64}

func genKey(rng *vhlib.Rng, profile string, i, n int, extremes bool) int64 {
	switch profile {
	case "ascending":
		return int64(i)
	case "descending":
		return int64(n - i)
	case "zigzag":
		if i%2 == 0 {
			return int64(i / 2)
		}
		return int64(n - i/2)
	case "duplicate-heavy":
		return int64(rng.Intn(3))
	case "extreme":
		if extremes {
			return extremeKeys[rng.Intn(len(extremeKeys))]
		}
		return []int64{-40000, -1, 0, 1, 39999}[rng.Intn(5)]
	case "malformed":
		return int64(rng.Intn(n+5) - 2)
	}
	return int64(rng.Intn(8)) - 2
}

func genMapTrace(rng *vhlib.Rng, profile string, extremes bool) []mop {
	n := rng.Range(6, 40)
	ops := make([]mop, 0, n)
	for i := 0; i < n; i++ {
		k := genKey(rng, profile, i, n, extremes)
		v := int64(100 + i)
		if profile == "zero-values" && rng.Bool() {
			v = 0
		}
		var kind int
		r := rng.Intn(100)
		switch profile {
		case "delete-heavy":
			kind = []int{oStore, oDelete, oLoadAndDelete, oDelete, oRemove, oLoadOrStore, oLen, oLoad}[rng.Intn(8)]
		case "clear-mix":
			kind = []int{oStore, oLoadOrStore, oLazy, oClear, oLen, oSize, oEmpty, oKeys, oDelete, oPut}[rng.Intn(10)]
		case "ascending", "descending", "zigzag":
			if r < 70 {
				kind = []int{oStore, oLoadOrStore, oLazy, oPut}[rng.Intn(4)]
			} else {
				kind = rng.Intn(nMapOps)
				if kind == oClear && rng.Intn(4) != 0 {
					kind = oRange
				}
			}
		default:
			kind = rng.Intn(nMapOps)
			if kind == oClear && rng.Intn(3) != 0 {
				kind = oStore
			}
		}
		o := mop{Kind: kind, K: k, V: v, H: pickHeight(rng)}
		if kind == oRange && rng.Intn(3) == 0 {
			o.Limit = 1 + rng.Intn(4)
		}
		ops = append(ops, o)
	}
	return ops
}

func genSetTrace(rng *vhlib.Rng, profile string, extremes bool) []sop {
	n := rng.Range(6, 40)
	ops := make([]sop, 0, n)
	for i := 0; i < n; i++ {
		x := genKey(rng, profile, i, n, extremes)
		var kind int
		switch profile {
		case "delete-heavy":
			kind = []int{sAddB, sRemoveB, sRemoveB, sRemove, sAdd, sLen, sContainsB}[rng.Intn(7)]
		case "clear-mix":
			kind = []int{sAddB, sAdd, sClear, sLen, sSize, sEmpty, sValues, sRemoveB}[rng.Intn(8)]
		case "ascending", "descending", "zigzag":
			if rng.Intn(100) < 70 {
				kind = sAddB
			} else {
				kind = rng.Intn(nSetOps)
				if kind == sClear && rng.Intn(4) != 0 {
					kind = sRange
				}
			}
		default:
			kind = rng.Intn(nSetOps)
			if kind == sClear && rng.Intn(3) != 0 {
				kind = sAddB
			}
		}
		o := sop{Kind: kind, X: x, H: pickHeight(rng)}
		if kind == sAdd || kind == sContains || kind == sRemove {
			m := rng.Intn(4) // includes the empty batch
			for j := 0; j < m; j++ {
				o.Xs = append(o.Xs, genKey(rng, profile, i+j, n, extremes))
				o.Hs = append(o.Hs, pickHeight(rng))
			}
		}
		if kind == sRange && rng.Intn(3) == 0 {
			o.Limit = 1 + rng.Intn(4)
		}
		ops = append(ops, o)
	}
	return ops
}

// ---------- deterministic "clear-tall" family ----------
// A header rebuilt by Clear must be as tall as the one built by New: only nodes of level >= 5 use the
// upper pointer array of the header, and a random trace rarely draws such a level soon after a Clear.
// Each case: a few low inserts, Clear (also: as the very first operation, twice in a row, and again
// after tall inserts), then fresh keys at levels 5..16 and 16 again through every insert flavour, each
// looked up right after it, then removals and Range/Keys/Len. No random choice is involved.

var tallUp = []int{5, 6, 7, 8, 9, 10, 11, 12, 13, 14, 15, 16, 16}
var tallDown = []int{16, 16, 15, 14, 13, 12, 11, 10, 9, 8, 7, 6, 5}
var tallZig = []int{16, 5, 15, 6, 14, 7, 13, 8, 12, 9, 11, 10, 16}

var clearTallKeys = []func(i int) int64{
	func(i int) int64 { return int64(10 + i) }, // ascending
	func(i int) int64 { return int64(40 - i) }, // descending
	func(i int) int64 { // alternating above / below everything present
		if i%2 == 0 {
			return int64(20 + i)
		}
		return int64(-3 - i)
	},
	func(i int) int64 { return int64(1 + i) },          // starts with the keys that were present before the Clear
	func(i int) int64 { return int64(100 + (7*i)%13) }, // shuffled
}

var mapInsertKinds = []int{oStore, oLoadOrStore, oLazy, oPut}

// tall map inserts: flavour (first+i) mod 4, each followed by Load/Get of the key just inserted
func tallMapOps(heights []int, key func(int) int64, first int, vbase int64) (ops []mop, keys []int64) {
	for i, h := range heights {
		k := key(i)
		ops = append(ops, mop{Kind: mapInsertKinds[(first+i)%4], K: k, V: vbase + int64(i), H: h})
		look := oLoad
		if i%2 == 1 {
			look = oGet
		}
		ops = append(ops, mop{Kind: look, K: k, H: 1})
		keys = append(keys, k)
	}
	return
}

func mapTail(keys []int64) []mop {
	n := len(keys)
	return []mop{
		{Kind: oDelete, K: keys[0], H: 1},
		{Kind: oLoadAndDelete, K: keys[n-1], H: 1},
		{Kind: oRemove, K: keys[n/2], H: 1},
		{Kind: oLoad, K: keys[0], H: 1},
		{Kind: oRange, H: 1},
		{Kind: oKeys, H: 1},
		{Kind: oLen, H: 1},
	}
}

func clearTallMapCases() [][]mop {
	low := func(first int) []mop { // three low nodes (levels 1..3) through three flavours
		return []mop{
			{Kind: mapInsertKinds[first%4], K: 1, V: 11, H: 1},
			{Kind: mapInsertKinds[(first+1)%4], K: 2, V: 12, H: 2},
			{Kind: mapInsertKinds[(first+2)%4], K: 3, V: 13, H: 3},
		}
	}
	clear := mop{Kind: oClear, H: 1}
	var cases [][]mop
	// inserts, Clear, tall inserts: every flavour is once the first tall insert after the Clear
	for c, hs := range [][]int{tallUp, tallDown, tallZig, tallUp} {
		ops := append(low(c), clear)
		tall, keys := tallMapOps(hs, clearTallKeys[c], c, 200)
		ops = append(ops, tall...)
		cases = append(cases, append(ops, mapTail(keys)...))
	}
	// Clear as the very first operation
	{
		ops := []mop{clear, {Kind: oLen, H: 1}}
		tall, keys := tallMapOps(tallDown, clearTallKeys[4], 2, 300)
		ops = append(ops, tall...)
		cases = append(cases, append(ops, mapTail(keys)...))
	}
	// Clear twice in a row, and once more after tall inserts
	{
		ops := append(low(1), clear, clear, mop{Kind: oLen, H: 1})
		tall, _ := tallMapOps([]int{5, 16, 7, 16, 9, 11}, clearTallKeys[0], 3, 400)
		ops = append(ops, tall...)
		ops = append(ops, clear, mop{Kind: oEmpty, H: 1})
		tall, keys := tallMapOps([]int{16, 6, 8, 10, 12, 14}, func(i int) int64 { return int64(8 + 2*i) }, 0, 500)
		ops = append(ops, tall...)
		cases = append(cases, append(ops, mapTail(keys)...))
	}
	return cases
}

// tall set inserts: AddB and batch Add (one or two elements) alternate, each followed by ContainsB / Contains
func tallSetOps(heights []int, key func(int) int64, batchFirst bool) (ops []sop, keys []int64) {
	batch := batchFirst
	for i := 0; i < len(heights); {
		if batch {
			n := 2
			if i+n > len(heights) {
				n = 1
			}
			var xs []int64
			for j := 0; j < n; j++ {
				xs = append(xs, key(i+j))
			}
			ops = append(ops, sop{Kind: sAdd, Xs: xs, Hs: append([]int(nil), heights[i:i+n]...), H: 1})
			ops = append(ops, sop{Kind: sContains, Xs: xs, H: 1})
			keys = append(keys, xs...)
			i += n
		} else {
			x := key(i)
			ops = append(ops, sop{Kind: sAddB, X: x, H: heights[i]}, sop{Kind: sContainsB, X: x, H: 1})
			keys = append(keys, x)
			i++
		}
		batch = !batch
	}
	return
}

func setTail(keys []int64) []sop {
	n := len(keys)
	return []sop{
		{Kind: sRemoveB, X: keys[0], H: 1},
		{Kind: sRemove, Xs: []int64{keys[n-1], keys[n/2]}, H: 1},
		{Kind: sContainsB, X: keys[0], H: 1},
		{Kind: sContains, Xs: []int64{keys[1], keys[n-1]}, H: 1},
		{Kind: sRange, H: 1},
		{Kind: sValues, H: 1},
		{Kind: sLen, H: 1},
	}
}

func clearTallSetCases() [][]sop {
	low := func() []sop {
		return []sop{
			{Kind: sAddB, X: 1, H: 1},
			{Kind: sAddB, X: 2, H: 2},
			{Kind: sAdd, Xs: []int64{3}, Hs: []int{3}, H: 1},
		}
	}
	clear := sop{Kind: sClear, H: 1}
	var cases [][]sop
	for c, hs := range [][]int{tallUp, tallDown, tallZig, tallUp} {
		ops := append(low(), clear)
		tall, keys := tallSetOps(hs, clearTallKeys[c], c%2 == 1)
		ops = append(ops, tall...)
		cases = append(cases, append(ops, setTail(keys)...))
	}
	{
		ops := []sop{clear, {Kind: sLen, H: 1}}
		tall, keys := tallSetOps(tallDown, clearTallKeys[4], true)
		ops = append(ops, tall...)
		cases = append(cases, append(ops, setTail(keys)...))
	}
	{
		ops := append(low(), clear, clear, sop{Kind: sLen, H: 1})
		tall, _ := tallSetOps([]int{5, 16, 7, 16, 9, 11}, clearTallKeys[0], false)
		ops = append(ops, tall...)
		ops = append(ops, clear, sop{Kind: sEmpty, H: 1})
		tall, keys := tallSetOps([]int{16, 6, 8, 10, 12, 14}, func(i int) int64 { return int64(8 + 2*i) }, true)
		ops = append(ops, tall...)
		cases = append(cases, append(ops, setTail(keys)...))
	}
	return cases
}

func seqSection(w *vhlib.Writer, o vhlib.Opts, rng *vhlib.Rng) {
	src := &drawSrc{}
	orig := fastrand.Uint32
	fastrand.Uint32 = src.next
	defer func() { fastrand.Uint32 = orig }()

	emitMap := func(variant int, ops []mop, gen string) {
		steps, labels := runMapTrace(variant, ops, src)
		nontrivial := false
		for _, op := range ops {
			if op.Kind == oStore || op.Kind == oLoadOrStore || op.Kind == oLazy || op.Kind == oPut {
				nontrivial = true
			}
		}
		w.Case("SeqMap "+vhlib.List(steps), "seq skipmap "+mapVariants[variant], nontrivial, labels,
			map[string]interface{}{"structure": "skipmap", "variant": mapVariants[variant], "generator": gen, "ops": ops, "op_names": mapOpName})
	}
	emitSet := func(variant int, ops []sop, gen string) {
		steps, labels := runSetTrace(variant, ops, src)
		nontrivial := false
		for _, op := range ops {
			if op.Kind == sAddB || (op.Kind == sAdd && len(op.Xs) > 0) {
				nontrivial = true
			}
		}
		w.Case("SeqSet "+vhlib.List(steps), "seq skipset "+setVariants[variant], nontrivial, labels,
			map[string]interface{}{"structure": "skipset", "variant": setVariants[variant], "generator": gen, "ops": ops, "op_names": setOpName})
	}

	// deterministic: Clear followed by tall nodes, on every variant
	for v := range mapVariants {
		for _, ops := range clearTallMapCases() {
			emitMap(v, ops, "clear-tall")
		}
	}
	for v := range setVariants {
		for _, ops := range clearTallSetCases() {
			emitSet(v, ops, "clear-tall")
		}
	}

	// random profiled traces
	reps := 12
	if o.Thorough() {
		reps = 150
	}
	for r := 0; r < reps; r++ {
		for pi, prof := range profiles {
			v := (r + pi) % len(mapVariants)
			_, ext := newMap(v)
			emitMap(v, genMapTrace(rng, prof, ext), prof)
			emitSet(v, genSetTrace(rng, prof, ext), prof)
		}
	}

	// bounded-exhaustive: every word of length L over a small alphabet
	mapAlpha := func(keys []int64) []mop {
		a := []mop{}
		for _, k := range keys {
			for _, kind := range []int{oStore, oLoad, oLoadOrStore, oLazy, oLoadAndDelete, oDelete} {
				a = append(a, mop{Kind: kind, K: k})
			}
		}
		return append(a, mop{Kind: oLen}, mop{Kind: oClear}, mop{Kind: oRange})
	}
	setAlpha := func(keys []int64) []sop {
		a := []sop{}
		for _, x := range keys {
			for _, kind := range []int{sAddB, sContainsB, sRemoveB} {
				a = append(a, sop{Kind: kind, X: x})
			}
		}
		return append(a, sop{Kind: sLen}, sop{Kind: sClear}, sop{Kind: sValues})
	}
	words := func(n, L int, f func(cnt int, word []int)) {
		word := make([]int, L)
		for cnt := 0; ; cnt++ {
			f(cnt, word)
			i := 0
			for ; i < L; i++ {
				word[i]++
				if word[i] < n {
					break
				}
				word[i] = 0
			}
			if i == L {
				return
			}
		}
	}
	exMap := func(keys []int64, L int) {
		alpha := mapAlpha(keys)
		words(len(alpha), L, func(cnt int, word []int) {
			ops := make([]mop, L)
			for i, a := range word {
				ops[i] = alpha[a]
				ops[i].V = int64(10*(i+1)) + ops[i].K
				ops[i].H = 1 + (cnt+i)%4
			}
			emitMap(cnt%len(mapVariants), ops, "exhaustive")
		})
	}
	exSet := func(keys []int64, L int) {
		alpha := setAlpha(keys)
		words(len(alpha), L, func(cnt int, word []int) {
			ops := make([]sop, L)
			for i, a := range word {
				ops[i] = alpha[a]
				ops[i].H = 1 + (cnt+i)%4
			}
			emitSet(cnt%len(setVariants), ops, "exhaustive")
		})
	}
	if o.Thorough() {
		exMap([]int64{1, 2, 3}, 3) // 21^3
		exMap([]int64{1}, 4)       // 9^4
		exSet([]int64{1, 2}, 4)    // 9^4
	} else {
		exMap([]int64{1, 2}, 3) // 15^3
		exSet([]int64{1, 2}, 3) // 9^3
	}
}
