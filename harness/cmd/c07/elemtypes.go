// Other element types for the C07 traces. The Coq cases keep speaking about content classes 0..4 (Z): the model
// keeps element identities abstract and uses the equality the code is supposed to use (reflect.DeepEqual =
// equality of content), so every Go value is encoded by its content class. Class 0 is the type's zero value
// (nil pointer, nil interface, ""), which is also what Get returns out of range and what make() fills with.
//
//	*T      pointers to structs: a fresh pointer for most uses (distinct pointers to equal structs), sometimes
//	        a pointer shared with earlier uses of the same class
//	any     holding []int, a struct with a slice field, or a map - dynamic types that == cannot compare
//	string  "" for class 0, otherwise a string built at run time (never the same backing bytes twice)
package main

import (
	"fmt"
	"strings"

	"github.com/songzhibin97/go-baseutils/base/bcomparator"
	"github.com/songzhibin97/go-baseutils/structure/lists/arraylist"
	"github.com/songzhibin97/go-baseutils/structure/lists/doublylinkedlist"
	"github.com/songzhibin97/go-baseutils/structure/lists/singlylinkedlist"

	"vh/vhlib"
)

type glist[E any] interface {
	Add(values ...E)
	Insert(index int, values ...E)
	Remove(index int)
	Set(index int, value E)
	Swap(i, j int)
	Sort(c bcomparator.Comparator[E])
	Clear()
	Get(index int) (E, bool)
	Contains(values ...E) bool
	IndexOf(value E) int
	Values() []E
	Size() int
	Empty() bool
}

type codec[E any] struct {
	enc func(int) E
	dec func(E) int
}

// wrap presents a list of E as the int-valued `list` the generators drive. It keeps every slice Values() returned
// (the very slice, not a copy) so that the trace can read them again at its end.
type wrap[E any] struct {
	l    glist[E]
	c    codec[E]
	kept [][]E
	// the iteration methods of the plain lists (Each, Map, Select, Any, All, Find), each driven by one callback that
	// says whether to go on looking (the Safe wrappers have none: nil)
	iters map[string]func(f func(int, E))
}

// the methods of the three lists that take a callback
type enumerable[E any, L any] interface {
	Each(f func(index int, value E))
	Map(f func(index int, value E) E) L
	Select(f func(index int, value E) bool) L
	Any(f func(index int, value E) bool) bool
	All(f func(index int, value E) bool) bool
	Find(f func(index int, value E) bool) (int, E)
}

var iterNames = []string{"Each", "Map", "Select", "Any", "All", "Find"}

// itersOf: every method visits every element (Any/Find are told "no", All/Select "yes")
func itersOf[E any, L any](x enumerable[E, L]) map[string]func(f func(int, E)) {
	return map[string]func(f func(int, E)){
		"Each":   func(f func(int, E)) { x.Each(f) },
		"Map":    func(f func(int, E)) { x.Map(func(i int, v E) E { f(i, v); return v }) },
		"Select": func(f func(int, E)) { x.Select(func(i int, v E) bool { f(i, v); return true }) },
		"Any":    func(f func(int, E)) { x.Any(func(i int, v E) bool { f(i, v); return false }) },
		"All":    func(f func(int, E)) { x.All(func(i int, v E) bool { f(i, v); return true }) },
		"Find":   func(f func(int, E)) { x.Find(func(i int, v E) bool { f(i, v); return false }) },
	}
}

func newAL[E any](c codec[E]) list {
	l := arraylist.New[E]()
	return wrapA[E]{&wrap[E]{l: l, c: c, iters: itersOf[E, *arraylist.List[E]](l)}}
}
func newDL[E any](c codec[E]) list {
	l := doublylinkedlist.New[E]()
	return &wrap[E]{l: l, c: c, iters: itersOf[E, *doublylinkedlist.List[E]](l)}
}
func newSL[E any](c codec[E]) list {
	l := singlylinkedlist.New[E]()
	return &wrap[E]{l: l, c: c, iters: itersOf[E, *singlylinkedlist.List[E]](l)}
}

type cbPanic struct{} // what the harness's callbacks panic with

// SortObserved sorts with a comparator that reads the list (Values(), by content class) at every invocation and
// panics at invocation number panicAt (never if negative). The caller recovers.
func (w *wrap[E]) SortObserved(panicAt int, during *[][]int) {
	n := 0
	w.l.Sort(func(a, b E) int {
		*during = append(*during, w.decs(w.l.Values()))
		if n == panicAt {
			panic(cbPanic{})
		}
		n++
		x, y := w.c.dec(a), w.c.dec(b)
		switch {
		case x < y:
			return -1
		case x > y:
			return 1
		}
		return 0
	})
}

// Iterate runs one of the callback-taking methods; the callback records its value argument and what the list
// reports at that moment, and panics at invocation number panicAt (never if negative). false: no such method here.
func (w *wrap[E]) Iterate(name string, panicAt int, seen *[]int, during *[][]int) bool {
	it, ok := w.iters[name]
	if !ok {
		return false
	}
	n := 0
	it(func(i int, v E) {
		*seen = append(*seen, w.c.dec(v))
		*during = append(*during, w.decs(w.l.Values()))
		if n == panicAt {
			panic(cbPanic{})
		}
		n++
	})
	return true
}

const sentinel = 77 // a content class that is never stored and never searched for

// KeptNow: what the slices returned by the Values() calls so far hold now
func (w *wrap[E]) KeptNow() [][]int {
	r := make([][]int, len(w.kept))
	for i, s := range w.kept {
		r[i] = w.decs(s)
	}
	return r
}

// Snapshot: the current contents for the generators' own use (not a recorded call, not kept)
func (w *wrap[E]) Snapshot() []int { return w.decs(w.l.Values()) }

// Scribble: a caller takes Values() and overwrites every cell of what it got
func (w *wrap[E]) Scribble() {
	s := w.l.Values()
	for i := range s {
		s[i] = w.c.enc(sentinel)
	}
}

func (w *wrap[E]) encs(vs []int) []E {
	r := make([]E, len(vs))
	for i, v := range vs {
		r[i] = w.c.enc(v)
	}
	return r
}
func (w *wrap[E]) decs(es []E) []int {
	r := make([]int, len(es))
	for i, e := range es {
		r[i] = w.c.dec(e)
	}
	return r
}

// Batches are passed as a spread slice that the caller reuses afterwards (it is overwritten right after the call):
// a list must have copied what it was given.
func (w *wrap[E]) reuse(es []E) {
	for i := range es {
		es[i] = w.c.enc(sentinel)
	}
}
func (w *wrap[E]) Add(vs ...int) {
	es := w.encs(vs)
	w.l.Add(es...)
	w.reuse(es)
}
func (w *wrap[E]) Insert(i int, vs ...int) {
	es := w.encs(vs)
	w.l.Insert(i, es...)
	w.reuse(es)
}
func (w *wrap[E]) Remove(i int)     { w.l.Remove(i) }
func (w *wrap[E]) Set(i int, v int) { w.l.Set(i, w.c.enc(v)) }
func (w *wrap[E]) Swap(i, j int)    { w.l.Swap(i, j) }
func (w *wrap[E]) Sort(bcomparator.Comparator[int]) {
	w.l.Sort(func(a, b E) int {
		x, y := w.c.dec(a), w.c.dec(b)
		switch {
		case x < y:
			return -1
		case x > y:
			return 1
		}
		return 0
	})
}
func (w *wrap[E]) Clear() { w.l.Clear() }
func (w *wrap[E]) Get(i int) (int, bool) {
	e, ok := w.l.Get(i)
	return w.c.dec(e), ok
}
func (w *wrap[E]) Contains(vs ...int) bool { return w.l.Contains(w.encs(vs)...) }
func (w *wrap[E]) IndexOf(v int) int       { return w.l.IndexOf(w.c.enc(v)) }
func (w *wrap[E]) Values() []int {
	s := w.l.Values()
	w.kept = append(w.kept, s)
	return w.decs(s)
}
func (w *wrap[E]) Size() int   { return w.l.Size() }
func (w *wrap[E]) Empty() bool { return w.l.Empty() }
func (w *wrap[E]) Append(vs ...int) {
	es := w.encs(vs)
	w.l.(interface{ Append(values ...E) }).Append(es...)
	w.reuse(es)
}
func (w *wrap[E]) Prepend(vs ...int) {
	es := w.encs(vs)
	w.l.(interface{ Prepend(values ...E) }).Prepend(es...)
	w.reuse(es)
}

// wrapA: array list, with the backing array
type wrapA[E any] struct{ *wrap[E] }

func (w wrapA[E]) VerifBacking() []int {
	return w.decs(w.l.(interface{ VerifBacking() []E }).VerifBacking())
}

func kindsOf[E any](tag string, c codec[E]) []kind {
	return []kind{
		{name: "arraylist<" + tag + ">", coq: "KArray", other: true, mk: func() list { return newAL(c) }},
		{name: "doublylinkedlist<" + tag + ">", coq: "KDList", other: true, mk: func() list { return newDL(c) }},
		{name: "singlylinkedlist<" + tag + ">", coq: "KSList", other: true, mk: func() list { return newSL(c) }},
		{name: "singlylinkedlist.Safe<" + tag + ">", coq: "KSList", other: true, safe: true, mk: func() list { return &wrap[E]{l: singlylinkedlist.NewSafe[E](), c: c} }},
	}
}

type T struct {
	A int
	B string
}
type withSlice struct {
	S []int
	N int
}

type myErr int

func (e myErr) Error() string { return fmt.Sprint("myErr ", int(e)) }

type strErr string

func (e strErr) Error() string { return string(e) }

type ptrErr struct{ N int }

func (e *ptrErr) Error() string { return "ptrErr" }

const badClass = -99 // a value the codec does not know: shows up as a disagreement

var idCodec = codec[int]{enc: func(v int) int { return v }, dec: func(v int) int { return v }}

func otherKinds(rng *vhlib.Rng) []kind {
	r := rng.Fork()
	pool := map[int]*T{}
	ptr := codec[*T]{
		enc: func(v int) *T {
			if v == 0 {
				return nil
			}
			if p, ok := pool[v]; ok && r.Chance(1, 4) {
				return p // a pointer already in use somewhere
			}
			p := &T{A: v, B: fmt.Sprint("c", v)}
			if r.Chance(1, 3) {
				pool[v] = p
			}
			return p
		},
		dec: func(p *T) int {
			if p == nil {
				return 0
			}
			if p.B != fmt.Sprint("c", p.A) {
				return badClass
			}
			return p.A
		},
	}
	// any: the zero value is the nil interface (class 0); the other classes mix non-nil interfaces holding zero-ish
	// dynamic values (any(0), a nil *T inside a non-nil interface) with dynamic types that == cannot compare
	dyn := codec[any]{
		enc: func(v int) any {
			switch v {
			case 0:
				return nil
			case 1:
				return 0
			case 2:
				return []int{2, 3}
			case 3:
				return (*T)(nil)
			case 4:
				return map[string]int{"k": 4}
			}
			return withSlice{S: []int{v}, N: v}
		},
		dec: func(x any) int {
			switch t := x.(type) {
			case nil:
				return 0
			case int:
				if t == 0 {
					return 1
				}
			case []int:
				if len(t) == 2 && t[0] == 2 && t[1] == 3 {
					return 2
				}
			case *T:
				if t == nil {
					return 3
				}
			case map[string]int:
				if len(t) == 1 && t["k"] == 4 {
					return 4
				}
			case withSlice:
				if len(t.S) == 1 && t.S[0] == t.N {
					return t.N
				}
			}
			return badClass
		},
	}
	// error: an interface element type with methods; nil error = class 0, then errors whose dynamic value is a zero
	// (myErr(0), strErr("")), a nil *ptrErr inside a non-nil error, and ordinary ones
	errc := codec[error]{
		enc: func(v int) error {
			switch v {
			case 0:
				return nil
			case 1:
				return myErr(0)
			case 2:
				return strErr("")
			case 3:
				return (*ptrErr)(nil)
			case 4:
				return &ptrErr{N: 4}
			}
			return myErr(v)
		},
		dec: func(e error) int {
			switch t := e.(type) {
			case nil:
				return 0
			case myErr:
				if t == 0 {
					return 1
				}
				if t > 4 || t < 0 {
					return int(t)
				}
			case strErr:
				if t == "" {
					return 2
				}
			case *ptrErr:
				if t == nil {
					return 3
				}
				if t.N == 4 {
					return 4
				}
			}
			return badClass
		},
	}
	str := codec[string]{ // total on every int: classes outside 0..4 (searched for, never stored) get their own strings
		enc: func(v int) string {
			if v < 0 {
				return "n" + strings.Repeat("ab", -v)
			}
			return strings.Repeat("ab", v)
		},
		dec: func(s string) int {
			if strings.HasPrefix(s, "n") && s[1:] == strings.Repeat("ab", len(s)/2) {
				return -(len(s) / 2)
			}
			if s != strings.Repeat("ab", len(s)/2) {
				return badClass
			}
			return len(s) / 2
		},
	}
	var ks []kind
	ks = append(ks, kindsOf("*T", ptr)...)
	ks = append(ks, kindsOf("any", dyn)...)
	ks = append(ks, kindsOf("error", errc)...)
	ks = append(ks, kindsOf("string", str)...)
	return ks
}
