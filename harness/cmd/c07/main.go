// C07 harness: drives arraylist / doublylinkedlist / singlylinkedlist (plain and Safe wrapper) through
// operation sequences, records after every call what it returned and how many bytes it wrote to stdout,
// and after every mutator the observables (Values, Size, Empty, Get i for i in [-1,size], IndexOf and
// Contains for every universe value, and the backing array of the array list). Writes Coq cases.
package main

import (
	"fmt"
	"io"
	"os"
	"strings"
	"time"

	"github.com/songzhibin97/go-baseutils/base/bcomparator"
	"github.com/songzhibin97/go-baseutils/structure/lists/arraylist"
	"github.com/songzhibin97/go-baseutils/structure/lists/doublylinkedlist"
	"github.com/songzhibin97/go-baseutils/structure/lists/singlylinkedlist"

	"vh/vhlib"
)

// what all six types offer
type list interface {
	Add(values ...int)
	Insert(index int, values ...int)
	Remove(index int)
	Set(index int, value int)
	Swap(i, j int)
	Sort(c bcomparator.Comparator[int])
	Clear()
	Get(index int) (int, bool)
	Contains(values ...int) bool
	IndexOf(value int) int
	Values() []int
	Size() int
	Empty() bool
	KeptNow() [][]int // the slices returned by Values() so far, as they are now
	Scribble()        // overwrite every cell of a fresh Values() result with a never-stored value
	Snapshot() []int  // current contents, for the generators (not a recorded call)
	// callbacks that observe the list in the middle of the operation (and may panic): see elemtypes.go
	SortObserved(panicAt int, during *[][]int)
	Iterate(name string, panicAt int, seen *[]int, during *[][]int) bool
}
type linked interface {
	Append(values ...int)
	Prepend(values ...int)
}
type backed interface{ VerifBacking() []int }

type kind struct {
	name, coq string
	safe      bool
	other     bool // element type other than int (elemtypes.go): runs a share of every stream
	mk        func() list
}

var kinds = []kind{
	{name: "arraylist", coq: "KArray", safe: false, mk: func() list { return newAL(idCodec) }},
	{name: "arraylist.Safe", coq: "KArray", safe: true, mk: func() list { return wrapA[int]{&wrap[int]{l: arraylist.NewSafe[int](), c: idCodec}} }},
	{name: "doublylinkedlist", coq: "KDList", safe: false, mk: func() list { return newDL(idCodec) }},
	{name: "doublylinkedlist.Safe", coq: "KDList", safe: true, mk: func() list { return &wrap[int]{l: doublylinkedlist.NewSafe[int](), c: idCodec} }},
	{name: "singlylinkedlist", coq: "KSList", safe: false, mk: func() list { return newSL(idCodec) }},
	{name: "singlylinkedlist.Safe", coq: "KSList", safe: true, mk: func() list { return &wrap[int]{l: singlylinkedlist.NewSafe[int](), c: idCodec} }},
}

// ---------- stdout capture: os.Stdout is a scratch file, the file offset is read around every call ----------
var capFile *os.File

func stdoutPos() int64 {
	p, err := capFile.Seek(0, io.SeekCurrent)
	if err != nil {
		panic(err)
	}
	return p
}

// ---------- operations ----------
type op struct {
	K    string // Add Append Prepend Insert Remove Set Swap Sort Clear | Get Contains IndexOf Values Size Empty | Gets IndexOfs ContainsEach
	I, J int
	Vs   []int
}

func (o op) String() string {
	switch o.K {
	case "Add", "Append", "Prepend", "Contains", "IndexOfs", "ContainsEach":
		return fmt.Sprintf("%s%v", o.K, o.Vs)
	case "Insert":
		return fmt.Sprintf("Insert(%d,%v)", o.I, o.Vs)
	case "Remove", "Get", "IndexOf":
		return fmt.Sprintf("%s(%d)", o.K, o.I)
	case "Set", "Swap":
		return fmt.Sprintf("%s(%d,%d)", o.K, o.I, o.J)
	}
	return o.K
}

func (o op) coq() string {
	z := func(v int) string { return vhlib.Z(int64(v)) }
	switch o.K {
	case "Add":
		return "(OAdd " + vhlib.IntList(o.Vs) + ")"
	case "Append":
		return "(OAppend " + vhlib.IntList(o.Vs) + ")"
	case "Prepend":
		return "(OPrepend " + vhlib.IntList(o.Vs) + ")"
	case "Insert":
		return "(OInsert " + z(o.I) + " " + vhlib.IntList(o.Vs) + ")"
	case "Remove":
		return "(ORemove " + z(o.I) + ")"
	case "Set":
		return "(OSet " + z(o.I) + " " + z(o.J) + ")"
	case "Swap":
		return "(OSwap " + z(o.I) + " " + z(o.J) + ")"
	case "Sort":
		return "OSort"
	case "Clear":
		return "OClear"
	case "Get":
		return "(OGet " + z(o.I) + ")"
	case "Contains":
		return "(OContains " + vhlib.IntList(o.Vs) + ")"
	case "IndexOf":
		return "(OIndexOf " + z(o.I) + ")"
	case "Values":
		return "OValues"
	case "Size":
		return "OSize"
	case "Empty":
		return "OEmpty"
	case "Gets":
		return "OGets"
	case "IndexOfs":
		return "(OIndexOfs " + vhlib.IntList(o.Vs) + ")"
	case "ContainsEach":
		return "(OContainsEach " + vhlib.IntList(o.Vs) + ")"
	}
	panic("unknown op " + o.K)
}

func isMutator(k string) bool {
	switch k {
	case "Add", "Append", "Prepend", "Insert", "Remove", "Set", "Swap", "Sort", "Clear":
		return true
	}
	return false
}

func boolList(bs []bool) string {
	it := make([]string, len(bs))
	for i, b := range bs {
		it[i] = vhlib.Bool(b)
	}
	return vhlib.List(it)
}

// exec runs one op on the real list; returns the Coq term of the result. arraylist has no Append/Prepend:
// the generators never produce them for it.
func exec(l list, o op) (res string) {
	switch o.K {
	case "Add":
		l.Add(o.Vs...)
	case "Append":
		l.(linked).Append(o.Vs...)
	case "Prepend":
		l.(linked).Prepend(o.Vs...)
	case "Insert":
		l.Insert(o.I, o.Vs...)
	case "Remove":
		l.Remove(o.I)
	case "Set":
		l.Set(o.I, o.J)
	case "Swap":
		l.Swap(o.I, o.J)
	case "Sort":
		l.Sort(bcomparator.IntComparator())
	case "Clear":
		l.Clear()
	case "Get":
		v, ok := l.Get(o.I)
		return fmt.Sprintf("(RGet %s %s)", vhlib.Z(int64(v)), vhlib.Bool(ok))
	case "Contains":
		return "(RBool " + vhlib.Bool(l.Contains(o.Vs...)) + ")"
	case "IndexOf":
		return "(RInt " + vhlib.Z(int64(l.IndexOf(o.I))) + ")"
	case "Values":
		return "(RList " + vhlib.IntList(l.Values()) + ")"
	case "Size":
		return "(RInt " + vhlib.Z(int64(l.Size())) + ")"
	case "Empty":
		return "(RBool " + vhlib.Bool(l.Empty()) + ")"
	case "Gets": // compact form gs_ values oks (Check.v): RGets (combine values oks)
		n := l.Size()
		var vs []int
		var oks []bool
		for i := -1; i <= n; i++ {
			v, ok := l.Get(i)
			vs = append(vs, v)
			oks = append(oks, ok)
		}
		return "@gs_ " + vhlib.IntList(vs) + " " + tfList(oks)
	case "IndexOfs":
		r := make([]int, len(o.Vs))
		for i, v := range o.Vs {
			r[i] = l.IndexOf(v)
		}
		if sameInts(o.Vs, universe) {
			return "@ix_ " + vhlib.IntList(r)
		}
		return "(RList " + vhlib.IntList(r) + ")"
	case "ContainsEach":
		r := make([]bool, len(o.Vs))
		for i, v := range o.Vs {
			r[i] = l.Contains(v)
		}
		if sameInts(o.Vs, universe) {
			return "@ce_ " + tfList(r)
		}
		return "(RBools " + boolList(r) + ")"
	default:
		panic("unknown op " + o.K)
	}
	return "RUnit"
}

var universe = []int{0, 1, 2, 3, 4}

func sameInts(a, b []int) bool {
	if len(a) != len(b) {
		return false
	}
	for i := range a {
		if a[i] != b[i] {
			return false
		}
	}
	return true
}

// T / F are abbreviations of true / false in Check.v
func tfList(bs []bool) string {
	it := make([]string, len(bs))
	for i, b := range bs {
		if b {
			it[i] = "T"
		} else {
			it[i] = "F"
		}
	}
	return vhlib.List(it)
}

type caseBuilder struct {
	k      kind
	l      list
	steps  []string
	labels []string
	hist   []string
	dead   bool // the implementation panicked or hung: the case ends there
	hung   bool // a call did not return: reported as a direct violation, the case itself is not written
	maxLen int
}

// ---------- watchdog: every call into the code under test runs under a time limit ----------
const hangLimit = 10 * time.Second

var (
	theWriter *vhlib.Writer
	hungKinds = map[string]int{} // calls that did not return, per structure: after two, its remaining cases are skipped
)

func newCase(k kind) *caseBuilder {
	c := &caseBuilder{k: k, l: k.mk()}
	if hungKinds[k.name] >= 2 {
		c.dead, c.hung = true, true
	}
	return c
}

// guarded runs f (a call into the code under test) recovering a panic, under the watchdog. A call that does not
// return ends the case and becomes a direct violation "call does not return" with the calls so far as the replay;
// the stuck goroutine is abandoned.
func (c *caseBuilder) guarded(what string, f func()) (panicked bool) {
	var p bool
	if vhlib.WithTimeout(hangLimit, func() { p, _ = vhlib.Recover(f) }) {
		return p
	}
	c.dead, c.hung = true, true
	hungKinds[c.k.name]++
	theWriter.Violation(c.k.name+" hang", what+": call does not return",
		map[string]interface{}{"structure": c.k.name, "calls": append(append([]string{}, c.hist...), what+"  <- does not return within "+hangLimit.String())})
	return false
}

func (c *caseBuilder) call(o op, label string) {
	if c.dead {
		return
	}
	before := stdoutPos()
	var res string
	p := c.guarded(o.String(), func() { res = exec(c.l, o) })
	if c.hung {
		return
	}
	bytes := stdoutPos() - before
	if p {
		res = "RPanic"
		c.dead = true
	}
	if strings.HasPrefix(res, "@") { // compact whole-step form; written out when the call also printed something
		if bytes == 0 {
			c.steps = append(c.steps, res[1:])
		} else {
			c.steps = append(c.steps, fmt.Sprintf("sbc_ (%s) %s", res[1:], vhlib.Nat(int(bytes))))
		}
	} else if bytes == 0 {
		c.steps = append(c.steps, fmt.Sprintf("s_ %s %s", o.coq(), res))
	} else {
		c.steps = append(c.steps, fmt.Sprintf("sb_ %s %s %s", o.coq(), res, vhlib.Nat(int(bytes))))
	}
	c.labels = append(c.labels, label)
}

// do = one mutator (or explicit query) followed by the full observation
func (c *caseBuilder) do(o op) {
	if c.dead {
		return
	}
	if c.k.coq == "KArray" { // arraylist has neither Append nor Prepend
		if o.K == "Append" {
			o.K = "Add"
		} else if o.K == "Prepend" {
			o = op{K: "Insert", I: 0, Vs: o.Vs}
		}
	}
	c.hist = append(c.hist, o.String())
	c.call(o, o.K)
	if isMutator(o.K) {
		c.observe(o.K)
	}
}

func (c *caseBuilder) observe(after string) {
	for _, q := range []op{{K: "Values"}, {K: "Size"}, {K: "Empty"}, {K: "Gets"}, {K: "IndexOfs", Vs: universe}, {K: "ContainsEach", Vs: universe}} {
		c.call(q, after+"/"+q.K)
	}
	if c.dead {
		return
	}
	if b, ok := c.l.(backed); ok {
		var arr []int
		p := c.guarded("VerifBacking", func() { arr = b.VerifBacking() })
		if !p && !c.hung {
			c.steps = append(c.steps, "SBack "+vhlib.IntList(arr))
			c.labels = append(c.labels, after+"/backing")
		}
	}
	if n := c.l.Size(); n > c.maxLen {
		c.maxLen = n
	}
}

// scribble: a caller overwrites the slice it got from Values(); the list must not notice. No Coq step (the model
// and the reference ignore it); the usual observers follow.
func (c *caseBuilder) scribble() {
	if c.dead {
		return
	}
	c.hist = append(c.hist, "Scribble(Values())")
	if p := c.guarded("Scribble(Values())", func() { c.l.Scribble() }); p || c.hung {
		return
	}
	c.observe("Scribble")
}

// run-length encoding of the states a callback saw: [(count, contents); ...]
func rle(states [][]int) string {
	var it []string
	for i := 0; i < len(states); {
		j := i
		for j < len(states) && sameInts(states[j], states[i]) {
			j++
		}
		it = append(it, vhlib.Pair(vhlib.Nat(j-i), vhlib.IntList(states[i])))
		i = j
	}
	return vhlib.List(it)
}

// sortObserved: Sort with a comparator that reads the list at every invocation and, if panicAt >= 0, panics at that
// invocation (recovered here). Plain lists only: a Safe wrapper holds its mutex while it sorts.
func (c *caseBuilder) sortObserved(panicAt int) {
	if c.dead {
		return
	}
	if c.k.safe {
		c.do(op{K: "Sort"})
		return
	}
	what := fmt.Sprintf("Sort(observing comparator, panics at call %d)", panicAt)
	c.hist = append(c.hist, what)
	var during [][]int
	before := stdoutPos()
	p := c.guarded(what, func() { c.l.SortObserved(panicAt, &during) })
	if c.hung {
		return
	}
	bytes := stdoutPos() - before
	switch {
	case p && panicAt >= 0 && len(during) == panicAt+1: // the comparator's own panic, recovered by the caller
		var after []int
		if c.guarded("Values", func() { after = c.l.Snapshot() }) || c.hung {
			c.dead = true
			return
		}
		c.steps = append(c.steps, "SSortPanic "+rle(during)+" "+vhlib.IntList(after))
		c.labels = append(c.labels, "Sort(comparator panics)")
		c.observe("Sort(comparator panics)")
	case p: // Sort itself panicked
		c.steps = append(c.steps, "s_ OSort RPanic")
		c.labels = append(c.labels, "Sort")
		c.dead = true
	default:
		if bytes == 0 {
			c.steps = append(c.steps, "s_ OSort RUnit")
		} else {
			c.steps = append(c.steps, "sb_ OSort RUnit "+vhlib.Nat(int(bytes)))
		}
		c.labels = append(c.labels, "Sort")
		c.steps = append(c.steps, "SDuring true "+rle(during))
		c.labels = append(c.labels, "Sort/list seen by the comparator")
		c.observe("Sort")
	}
}

// iterate: one of Each / Map / Select / Any / All / Find with a callback that records its argument and what the list
// reports at that moment and, if panicAt >= 0, panics at that invocation (recovered here). Plain lists only.
func (c *caseBuilder) iterate(name string, panicAt int) {
	if c.dead || c.k.safe {
		return
	}
	what := fmt.Sprintf("%s(observing callback, panics at call %d)", name, panicAt)
	var seen []int
	var during [][]int
	supported := true
	p := c.guarded(what, func() { supported = c.l.Iterate(name, panicAt, &seen, &during) })
	if c.hung || !supported {
		return
	}
	c.hist = append(c.hist, what)
	own := p && panicAt >= 0 && len(seen) == panicAt+1
	if p && !own { // the method itself panicked
		c.dead = true
		theWriter.Violation(c.k.name, name+": panics", map[string]interface{}{"structure": c.k.name, "calls": c.hist})
		return
	}
	c.steps = append(c.steps, fmt.Sprintf("SSeen %s %s", vhlib.Bool(!own), vhlib.IntList(seen)))
	c.labels = append(c.labels, name+"/callback arguments")
	c.steps = append(c.steps, "SDuring false "+rle(during))
	c.labels = append(c.labels, name+"/list seen by the callback")
	c.observe(name)
}

func (c *caseBuilder) emit(w *vhlib.Writer, profile string) {
	if !c.dead { // closing queries: search batches longer than the list, every value present (so with repetitions)
		var cur []int
		c.guarded("Values", func() { cur = c.l.Snapshot() })
		if len(cur) > 0 {
			c.do(op{K: "Contains", Vs: append(append([]int{}, cur...), cur...)})
			c.do(op{K: "Contains", Vs: []int{cur[0], cur[len(cur)-1], cur[0]}})
		} else {
			c.do(op{K: "Contains", Vs: []int{0, 0}})
		}
	}
	if !c.dead { // aliasing judgement: every slice Values() returned, read again now
		var now [][]int
		if p := c.guarded("KeptNow", func() { now = c.l.KeptNow() }); !p && !c.hung {
			it := make([]string, len(now))
			for i, s := range now {
				it[i] = vhlib.IntList(s)
			}
			c.steps = append(c.steps, "SKept "+vhlib.List(it))
			c.labels = append(c.labels, "kept Values() results")
		}
	}
	if c.hung { // reported by the watchdog as a direct violation
		return
	}
	term := fmt.Sprintf("{| c_kind := %s; c_steps := [%s] |}", c.k.coq, strings.Join(c.steps, ";\n "))
	w.Case(term, c.k.name+" "+profile, len(c.hist) >= 2 || c.maxLen >= 1, c.labels,
		map[string]interface{}{"structure": c.k.name, "profile": profile, "calls": c.hist})
}

func vals(r *vhlib.Rng, n int, zeroHeavy bool) []int {
	v := make([]int, n)
	for i := range v {
		if zeroHeavy && r.Chance(2, 3) {
			v[i] = 0
		} else {
			v[i] = r.Intn(4)
		}
	}
	return v
}

// build a list of length n by Add calls of uneven sizes (exercises growBy)
func (c *caseBuilder) fill(r *vhlib.Rng, n int) {
	if c.k.safe && len(c.hist) == 0 { // Safe wrappers: every trace starts with calls on the empty list (each must return)
		c.do(op{K: "Remove", I: 0})
		c.do(op{K: "Get", I: 0})
	}
	vs := vals(r, n, false)
	if n > 0 && !contains(vs, 0) { // the zero value is always somewhere in a long list
		vs[r.Intn(n)] = 0
	}
	for len(vs) > 0 {
		k := 1 + r.Intn(5)
		if k > len(vs) {
			k = len(vs)
		}
		c.do(op{K: "Add", Vs: vs[:k]})
		vs = vs[k:]
	}
	if n == 0 {
		c.observe("New")
	}
}

func contains(vs []int, v int) bool {
	for _, x := range vs {
		if x == v {
			return true
		}
	}
	return false
}

func main() {
	o := vhlib.ParseOpts()
	rng := vhlib.NewRng(o.Seed)
	var err error
	capFile, err = os.CreateTemp(o.Out, "stdout-capture-*")
	if err != nil {
		panic(err)
	}
	realStdout := os.Stdout
	os.Stdout = capFile
	defer func() {
		os.Stdout = realStdout
		capFile.Close()
		os.Remove(capFile.Name())
	}()
	w := vhlib.NewWriter(o.Out, "From VF Require Import C07.Model C07.Check.\nLocal Open Scope Z_scope.", "case", "mismatches", 60)
	theWriter = w
	thorough := o.Thorough()
	kinds := append(append([]kind{}, kinds...), otherKinds(rng)...)
	share := func(k kind) bool { return k.other && !thorough } // quick tier: a share of each stream for the other element types

	// ---- 1. Insert of a batch of 0..4 values at every index in [-1, size+1] of lists of several lengths ----
	lens := []int{0, 1, 2, 5, 12, 13}
	if thorough {
		lens = []int{0, 1, 2, 3, 4, 5, 7, 8, 12, 13, 16, 17, 25}
	}
	for _, k := range kinds {
		for _, n := range lens {
			if k.safe && !thorough && n != 2 && n != 13 {
				continue
			}
			if share(k) && (n != 13 || k.safe) {
				continue
			}
			for i := -1; i <= n+1; i++ {
				for b := 0; b <= 4; b++ {
					if share(k) && b != 0 && b != 3 {
						continue
					}
					r := rng.Fork()
					c := newCase(k)
					c.fill(r, n)
					c.do(op{K: "Insert", I: i, Vs: vals(r, b, b >= 3)})
					if b == 2 {
						c.scribble()
					}
					c.emit(w, "insert-everywhere")
				}
			}
		}
	}
	// ---- 2. Remove / Set / Get / Swap at every index ----
	plens := []int{1, 2, 12, 13}
	if thorough {
		plens = []int{1, 2, 3, 4, 5, 8, 12, 13, 17}
	}
	for _, k := range kinds {
		for _, n := range plens {
			if k.safe && !thorough && n != 13 {
				continue
			}
			for i := -1; i <= n+1; i++ {
				if share(k) && (k.safe || (i+1)%3 != 0) {
					continue
				}
				r := rng.Fork()
				c := newCase(k)
				c.fill(r, n)
				c.do(op{K: "Get", I: i})
				c.do(op{K: "Set", I: i, J: r.Intn(4)})
				c.scribble()
				c.do(op{K: "Get", I: i})
				c.do(op{K: "Remove", I: i})
				c.do(op{K: "Add", Vs: []int{3}}) // a Remove of the last element must leave `last` usable
				c.do(op{K: "Swap", I: i, J: r.Range(-1, n+1)})
				c.do(op{K: "Swap", I: r.Range(-1, n+1), J: i})
				c.do(op{K: "Swap", I: i, J: i})
				c.do(op{K: "Remove", I: i})
				c.do(op{K: "Append", Vs: []int{2, 0}})
				c.do(op{K: "Prepend", Vs: []int{1}})
				c.do(op{K: "Remove", I: c.l.Size() - 1})
				c.do(op{K: "Insert", I: c.l.Size() - 1, Vs: []int{0, 3}})
				c.do(op{K: "Add", Vs: []int{1}})
				c.emit(w, "point-ops-everywhere")
			}
		}
	}
	// ---- 2b. Clear in several fill states (incl. after growth and after shrink), then reuse starting with every kind of
	//          call, then Insert / Set / Remove at both ends, Clear again, reuse ----
	firsts := []op{{K: "Add", Vs: []int{0}}, {K: "Add", Vs: []int{3, 0, 1}}, {K: "Prepend", Vs: []int{2, 0}}, {K: "Append", Vs: []int{1}},
		{K: "Insert", I: 0, Vs: []int{0, 2}}, {K: "Insert", I: 0}, {K: "Insert", I: 1, Vs: []int{3}}, {K: "Set", I: 0, J: 0}, {K: "Set", I: 1, J: 2},
		{K: "Remove", I: 0}, {K: "Swap", I: 0, J: 0}, {K: "Sort"}, {K: "Clear"}}
	fills := []int{0, 1, 3, 12, 13}
	for _, k := range kinds {
		for fi, n := range fills {
			for oi, first := range firsts {
				if k.safe && !thorough && (fi+oi)%3 != 0 {
					continue
				}
				if share(k) && (fi+oi)%6 != 0 {
					continue
				}
				r := rng.Fork()
				c := newCase(k)
				c.fill(r, n)
				if n >= 12 && oi%2 == 1 { // let the array shrink before the Clear
					for i := 0; i < 10; i++ {
						c.do(op{K: "Remove", I: c.l.Size() - 1})
					}
				}
				c.do(op{K: "Clear"})
				c.do(first)
				c.do(op{K: "Add", Vs: []int{1, 0, 2}})
				c.scribble()
				c.do(op{K: "Insert", I: 0, Vs: []int{3}})
				c.do(op{K: "Insert", I: c.l.Size(), Vs: []int{0, 3}})
				c.do(op{K: "Insert", I: c.l.Size() - 1, Vs: []int{2}})
				c.do(op{K: "Set", I: 0, J: 0})
				c.do(op{K: "Set", I: c.l.Size() - 1, J: 1})
				c.do(op{K: "Set", I: c.l.Size(), J: 2})
				c.do(op{K: "Remove", I: c.l.Size() - 1})
				c.do(op{K: "Remove", I: 0})
				c.do(op{K: "Add", Vs: []int{0}})
				c.do(op{K: "Clear"})
				c.do(op{K: "Prepend", Vs: []int{0}})
				c.do(op{K: "Add", Vs: []int{2, 0}})
				c.do(op{K: "Remove", I: c.l.Size() - 1})
				c.do(op{K: "Add", Vs: []int{3}})
				c.emit(w, "clear-reuse")
			}
		}
	}
	// ---- 2c. user callbacks that watch the list in the middle of the operation (and sometimes panic): Sort comparators
	//          on lists with ties, and the six iteration methods; plain lists (a Safe wrapper holds its lock meanwhile) ----
	for _, k := range kinds {
		if k.safe {
			continue
		}
		ns := []int{0, 1, 2, 5, 13, 20}
		if share(k) {
			ns = []int{2, 13}
		}
		for _, n := range ns {
			pas := []int{-1, 0, n / 2, n - 2}
			if share(k) {
				pas = []int{-1, n / 2}
			}
			for _, pa := range pas {
				if pa >= n-1 && pa >= 0 {
					continue
				}
				r := rng.Fork()
				c := newCase(k)
				c.fill(r, n)
				c.sortObserved(pa)
				c.do(op{K: "Add", Vs: []int{1, 0}})
				c.sortObserved(-1)
				c.emit(w, "callbacks")
			}
			for ni, name := range iterNames {
				if share(k) && ni%3 != n%3 {
					continue
				}
				r := rng.Fork()
				c := newCase(k)
				c.fill(r, n)
				c.iterate(name, -1)
				if n > 0 {
					c.iterate(name, r.Intn(n))
				}
				c.do(op{K: "Add", Vs: []int{2}})
				c.iterate(name, -1)
				c.emit(w, "callbacks")
			}
		}
	}
	// ---- 3. profiled random walks ----
	profiles := []string{"grow", "shrink", "churn", "malformed", "sorty", "zeros", "prepend-heavy", "long"}
	walks := 10
	if thorough {
		walks = 150
	}
	for _, k := range kinds {
		for _, prof := range profiles {
			nw := walks
			if k.safe && !thorough {
				nw = walks / 3
			}
			if share(k) {
				nw = 1
			}
			for t := 0; t < nw; t++ {
				r := rng.Fork()
				c := newCase(k)
				walk(c, r, prof, thorough)
				c.emit(w, prof)
			}
		}
	}
	// ---- 4. bounded exhaustive: every word of length <= depth over a small alphabet, from three start lists ----
	depth := 1
	if thorough {
		depth = 2
	}
	for _, k := range kinds {
		if k.safe || share(k) {
			continue
		}
		for _, start := range [][]int{{}, {0}, {2, 0, 1}} {
			var rec func(prefix []op, n int, d int)
			rec = func(prefix []op, n int, d int) {
				c := newCase(k)
				if len(start) > 0 {
					c.do(op{K: "Add", Vs: start})
				}
				for _, p := range prefix {
					c.do(p)
				}
				if len(prefix) > 0 {
					c.do(op{K: "Contains"})
					c.do(op{K: "Contains", Vs: []int{0, 1}})
					c.do(op{K: "Contains", Vs: []int{1, 4}})
					c.emit(w, "exhaustive")
				}
				if d == 0 || c.dead {
					return
				}
				m := c.l.Size()
				for _, a := range alphabet(m) {
					rec(append(append([]op{}, prefix...), a), m, d-1)
				}
			}
			rec(nil, len(start), depth)
		}
	}
	w.Close(o, "one case = one list (array / doubly / singly linked, plain or Safe wrapper; element type int, and for a share of every stream *T with distinct and shared pointers to equal structs, any holding slices / structs with slices / maps, string - encoded by content class) driven through a call sequence; every call records (result, bytes written to stdout), Sort comparators and Each/Map/Select/Any/All/Find callbacks that read the list at every invocation (and sometimes panic, recovered) are steps of some traces, every call runs under a watchdog (a call that does not return is a violation), a caller scribbling over a Values() result is a step of some traces, every slice returned by Values() is read again at the end of the trace (aliasing judgement), every mutator is followed by Values, Size, Empty, Get i for i in [-1,size], IndexOf and Contains for each of 0..4 and, for the array list, the backing array; distinct = distinct case terms; non-trivial = at least two calls or a non-empty list reached")
}

func alphabet(n int) []op {
	var a []op
	a = append(a, op{K: "Add"}, op{K: "Add", Vs: []int{0}}, op{K: "Add", Vs: []int{3, 0}}, op{K: "Prepend", Vs: []int{1, 0}}, op{K: "Sort"}, op{K: "Clear"})
	for i := -1; i <= n+1; i++ {
		a = append(a, op{K: "Insert", I: i}, op{K: "Insert", I: i, Vs: []int{0}}, op{K: "Insert", I: i, Vs: []int{3, 0, 1}},
			op{K: "Remove", I: i}, op{K: "Set", I: i, J: 0})
		for j := i; j <= n+1; j++ {
			a = append(a, op{K: "Swap", I: i, J: j})
		}
	}
	return a
}

func walk(c *caseBuilder, r *vhlib.Rng, prof string, thorough bool) {
	if c.k.safe {
		c.do(op{K: "Remove", I: 0})
		c.do(op{K: "Get", I: 0})
	}
	steps := r.Range(8, 22)
	zero := prof == "zeros"
	switch prof {
	case "long":
		c.fill(r, r.Range(14, 30))
		steps = r.Range(6, 14)
	case "shrink":
		c.fill(r, r.Range(12, 40))
		steps = 60
	case "sorty", "churn", "malformed", "zeros":
		if r.Bool() {
			c.fill(r, r.Range(0, 14))
		}
	}
	for s := 0; s < steps && !c.dead; s++ {
		n := c.l.Size()
		idx := func() int { // mostly valid
			if prof == "malformed" || r.Chance(1, 6) {
				return r.Range(-2, n+2)
			}
			if n == 0 {
				return 0
			}
			return r.Intn(n)
		}
		batch := func() []int {
			if prof == "malformed" && r.Chance(1, 3) {
				return nil
			}
			return vals(r, r.Intn(5), zero)
		}
		if r.Chance(1, 10) {
			c.scribble()
		}
		var x int
		switch prof {
		case "grow", "prepend-heavy":
			x = r.Intn(6)
			if prof == "prepend-heavy" && r.Bool() {
				x = 2
			}
		case "shrink":
			x = 6
			if r.Chance(1, 8) {
				x = r.Intn(12)
			}
			if n == 0 {
				s = steps
			}
		case "sorty":
			x = r.Intn(14)
			if r.Chance(1, 4) {
				x = 10
			}
		default:
			x = r.Intn(14)
		}
		switch x {
		case 0, 1:
			c.do(op{K: "Add", Vs: batch()})
		case 2:
			c.do(op{K: "Prepend", Vs: batch()})
		case 3:
			c.do(op{K: "Append", Vs: batch()})
		case 4, 5:
			c.do(op{K: "Insert", I: idx(), Vs: batch()})
		case 6, 7:
			c.do(op{K: "Remove", I: idx()})
		case 8:
			c.do(op{K: "Set", I: idx(), J: vals(r, 1, zero)[0]})
		case 9:
			c.do(op{K: "Swap", I: idx(), J: idx()})
		case 10:
			if r.Bool() { // a comparator that watches the list, one time in three also panics somewhere
				pa := -1
				if n >= 2 && r.Chance(1, 3) {
					pa = r.Intn(n - 1)
				}
				c.sortObserved(pa)
			} else {
				c.do(op{K: "Sort"})
			}
		case 11:
			if r.Chance(1, 3) {
				c.do(op{K: "Clear"})
			} else {
				c.do(op{K: "Set", I: n, J: r.Intn(4)})
			}
		case 12:
			c.do(op{K: "Contains", Vs: vals(r, r.Intn(4), zero)})
			c.do(op{K: "IndexOf", I: r.Range(-1, 5)})
		case 13:
			c.do(op{K: "Get", I: r.Range(-3, n+3)})
			if r.Bool() {
				pa := -1
				if n >= 1 && r.Chance(1, 3) {
					pa = r.Intn(n)
				}
				c.iterate(iterNames[r.Intn(len(iterNames))], pa)
			}
		}
	}
}
