// C19 harness: runs sys/stringx on valid UTF-8 strings and writes Coq cases (rune lists + observations).
package main

import (
	"fmt"
	"math"
	"time"
	"unicode"
	"unicode/utf8"

	"github.com/songzhibin97/go-baseutils/sys/fastrand"
	"github.com/songzhibin97/go-baseutils/sys/stringx"

	"vh/vhlib"
)

// rune pools by encoded width and class
var (
	ascii     = []rune("abcxyzABZ019 .,*-_\x00\x7f\t")
	two       = []rune{'é', 'ß', 'ñ', 'Ω', 'я', 0x80, 0x7FF, 0x0663 /* arabic-indic digit 3 */, 0x0301 /* combining acute */, 0x0308}
	three     = []rune{'日', '本', '語', '€', 0x800, 0xD7FF, 0xE000, 0xFFFD, 0xFFFF, 0xFF13 /* fullwidth digit 3 */, 0x2167 /* roman numeral eight */, 0x20DD /* combining enclosing circle */, 0x0E01}
	four      = []rune{'😀', '𝄞', 0x10000, 0x10FFFF, 0x1D7CE /* math bold digit 0 */, 0x20000, 0x1F1E9}
	letters   = []rune{'a', 'Z', 'é', 'ß', 'Ω', 'я', '日', '語', 0x20000, 0x0E01}
	digits    = []rune{'0', '5', '9', 0x0663, 0xFF13, 0x1D7CE}
	combining = []rune{0x0301, 0x0308, 0x20DD, 0x0300}
	all       []rune
	padChars  = []rune{'*', ' ', 'é', '日', 0xFFFD, '😀', 0x0301, 0, -1, 0xD800, 0xDFFF, 0x110000, math.MaxInt32, math.MinInt32}
)

func init() {
	all = append(all, ascii...)
	all = append(all, two...)
	all = append(all, three...)
	all = append(all, four...)
}

func pick(r *vhlib.Rng, pool []rune) rune { return pool[r.Intn(len(pool))] }

// genString: profiles — mixed, single width classes, class-pure (letters/digits), few-distinct, U+FFFD-heavy, combining-heavy
func genString(r *vhlib.Rng, n int) []rune {
	s := make([]rune, n)
	prof := r.Intn(11)
	few := []rune{pick(r, all), pick(r, all), pick(r, three)}
	for i := range s {
		switch prof {
		case 0:
			s[i] = pick(r, ascii)
		case 1:
			s[i] = pick(r, two)
		case 2:
			s[i] = pick(r, three)
		case 3:
			s[i] = pick(r, four)
		case 4:
			s[i] = pick(r, letters)
		case 5:
			s[i] = pick(r, digits)
		case 6:
			if r.Bool() {
				s[i] = pick(r, letters)
			} else {
				s[i] = pick(r, digits)
			}
		case 7:
			s[i] = few[r.Intn(len(few))]
		case 8:
			if r.Chance(1, 3) {
				s[i] = 0xFFFD
			} else {
				s[i] = pick(r, all)
			}
		case 9:
			if i > 0 && r.Bool() {
				s[i] = pick(r, combining)
			} else {
				s[i] = pick(r, letters)
			}
		default:
			s[i] = pick(r, all)
		}
	}
	return s
}

func genLen(r *vhlib.Rng) int {
	switch r.Intn(10) {
	case 0:
		return 0
	case 1:
		return 1
	case 2:
		return 64
	case 3, 4:
		return r.Range(2, 6)
	default:
		return r.Range(0, 64)
	}
}

var extremes = []int64{math.MinInt64, math.MinInt64 + 1, math.MaxInt64, math.MaxInt64 - 1, -1 << 62, 1<<62 - 1, math.MinInt32, math.MaxInt32, 1 << 32, -(1 << 32)}
var nonposExtremes = []int64{math.MinInt64, math.MinInt64 + 1, -1 << 62, math.MinInt32, -(1 << 32)}

// integer argument in the window [-2n-2, 2n+2], sometimes an extreme value
func genArg(r *vhlib.Rng, n int, ext []int64) int64 {
	if r.Chance(1, 8) {
		return ext[r.Intn(len(ext))]
	}
	return int64(r.Range(-2*n-2, 2*n+2))
}

func runesZ(rs []rune) string {
	it := make([]string, len(rs))
	for i, v := range rs {
		it[i] = vhlib.Z(int64(v))
	}
	return vhlib.List(it)
}

func obsStr(res string) string {
	if !utf8.ValidString(res) {
		return "OInvalid"
	}
	return "OStr " + runesZ([]rune(res))
}

type recSrc struct {
	rng   *vhlib.Rng
	draws []int64
	over  chan struct{} // closed when the caller has drawn more than maxDraws values: it is looping
}

const maxDraws = 200000 // Shuffle of 64 runes needs < 64 draws plus rejections

func (r *recSrc) next() uint32 {
	if len(r.draws) >= maxDraws {
		if r.over != nil {
			close(r.over)
			r.over = nil
		}
		select {} // park the looping caller for good (it would otherwise spin on a CPU for the rest of the run)
	}
	var d uint32
	switch r.rng.Intn(8) {
	case 0:
		d = 0
	case 1:
		d = math.MaxUint32 - uint32(r.rng.Intn(4))
	case 2:
		d = uint32(r.rng.Intn(4))
	default:
		d = uint32(r.rng.U64())
	}
	if len(r.draws) > 400 {
		d = uint32(r.rng.U64())
	}
	r.draws = append(r.draws, int64(d))
	return d
}

func main() {
	o := vhlib.ParseOpts()
	if o.Replay != "" {
		runReplay(o.Replay)
		return
	}
	rng := vhlib.NewRng(o.Seed)
	w := vhlib.NewWriter(o.Out, "From VF Require Import C19.Model C19.Check.\nLocal Open Scope Z_scope.", "case", "mismatches", 400)
	orig := fastrand.Uint32
	defer func() { fastrand.Uint32 = orig }()

	emit := func(label string, rs []rune, call string, cls string, draws []int64, obs string, replay map[string]interface{}) {
		s := string(rs)
		if !utf8.ValidString(s) || string([]rune(s)) != s || len([]rune(s)) != len(rs) {
			panic(fmt.Sprintf("harness bug: generated an invalid string %q", s))
		}
		if cls == "" {
			cls = "[]"
		}
		term := fmt.Sprintf("{| c_s := %s; c_cls := %s; c_call := %s; c_draws := %s; c_used := %s; c_obs := %s |}",
			runesZ(rs), cls, call, vhlib.ZList(draws), vhlib.Nat(len(draws)), obs)
		replay["fn"] = label
		replay["s"] = fmt.Sprintf("%+q", s)
		replay["runes"] = rs
		replay["observed"] = obs
		replay["call"] = call
		switch obs {
		case "<skipped>":
			return
		case "<does not return>":
			delete(replay, "draws")
			w.Violation(label, "call does not return (watchdog)", replay)
			return
		}
		w.Case(term, label, len(rs) >= 1, nil, replay)
	}
	classes := func(rs []rune) string {
		seen := map[rune]bool{}
		var it []string
		for _, v := range rs {
			if seen[v] {
				continue
			}
			seen[v] = true
			b := int64(0)
			if unicode.IsLetter(v) {
				b |= 1
			}
			if unicode.IsDigit(v) {
				b |= 2
			}
			it = append(it, vhlib.Pair(vhlib.Z(int64(v)), vhlib.Z(b)))
		}
		return vhlib.List(it)
	}
	// Every call into the package runs under a watchdog: a call that does not return within callTimeout is a
	// property violation of its own ("none of them panics" presupposes that they return). The hung goroutine cannot
	// be killed, so a function that has hung twice is not called again in this run.
	const hangObs, skipObs = "<does not return>", "<skipped>"
	const callTimeout = 5 * time.Second
	hangs := map[string]int{}
	// guard runs f; abort, when not nil, is a second way of learning that f will not return
	guard := func(label string, abort <-chan struct{}, f func()) (panicked bool, state string) {
		if hangs[label] >= 2 {
			return false, skipObs
		}
		done := make(chan bool, 1)
		go func() {
			p, _ := vhlib.Recover(f)
			done <- p
		}()
		timer := time.NewTimer(callTimeout)
		defer timer.Stop()
		select {
		case p := <-done:
			return p, ""
		case <-abort:
		case <-timer.C:
		}
		hangs[label]++
		return false, hangObs
	}
	strCallAbort := func(label string, abort <-chan struct{}, f func() string) string {
		var res string
		p, st := guard(label, abort, func() { res = f() })
		if st != "" {
			return st
		}
		if p {
			return "OPanic"
		}
		return obsStr(res)
	}
	strCall := func(label string, f func() string) string { return strCallAbort(label, nil, f) }

	doPad := func(rs []rune, size int64, ch rune) {
		s := string(rs)
		a := map[string]interface{}{"size": size, "ch": ch}
		cp := func() map[string]interface{} { return map[string]interface{}{"args": a} }
		sz, c := vhlib.Z(size), vhlib.Z(int64(ch))
		emit("PadLeftChar", rs, fmt.Sprintf("CPadLeftChar %s %s", sz, c), "", nil, strCall("PadLeftChar", func() string { return stringx.PadLeftChar(s, int(size), ch) }), cp())
		emit("PadRightChar", rs, fmt.Sprintf("CPadRightChar %s %s", sz, c), "", nil, strCall("PadRightChar", func() string { return stringx.PadRightChar(s, int(size), ch) }), cp())
		emit("PadCenterChar", rs, fmt.Sprintf("CPadCenterChar %s %s", sz, c), "", nil, strCall("PadCenterChar", func() string { return stringx.PadCenterChar(s, int(size), ch) }), cp())
	}
	doPadSpace := func(rs []rune, size int64) {
		s := string(rs)
		cp := func() map[string]interface{} {
			return map[string]interface{}{"args": map[string]interface{}{"size": size}}
		}
		sz := vhlib.Z(size)
		emit("PadLeftSpace", rs, "CPadLeftSpace "+sz, "", nil, strCall("PadLeftSpace", func() string { return stringx.PadLeftSpace(s, int(size)) }), cp())
		emit("PadRightSpace", rs, "CPadRightSpace "+sz, "", nil, strCall("PadRightSpace", func() string { return stringx.PadRightSpace(s, int(size)) }), cp())
		emit("PadCenterSpace", rs, "CPadCenterSpace "+sz, "", nil, strCall("PadCenterSpace", func() string { return stringx.PadCenterSpace(s, int(size)) }), cp())
	}
	doSub := func(rs []rune, a, b int64) {
		s := string(rs)
		emit("Sub", rs, fmt.Sprintf("CSub %s %s", vhlib.Z(a), vhlib.Z(b)), "", nil, strCall("Sub", func() string { return stringx.Sub(s, int(a), int(b)) }),
			map[string]interface{}{"args": []int64{a, b}})
	}
	doSubStart := func(rs []rune, a int64) {
		s := string(rs)
		emit("SubStart", rs, "CSubStart "+vhlib.Z(a), "", nil, strCall("SubStart", func() string { return stringx.SubStart(s, int(a)) }),
			map[string]interface{}{"args": []int64{a}})
	}
	doRotate := func(rs []rune, k int64) {
		s := string(rs)
		emit("Rotate", rs, "CRotate "+vhlib.Z(k), "", nil, strCall("Rotate", func() string { return stringx.Rotate(s, int(k)) }),
			map[string]interface{}{"args": []int64{k}})
	}
	doReverse := func(rs []rune) {
		s := string(rs)
		var r1, r2 string
		var e1, e2 error
		p, st := guard("Reverse", nil, func() {
			r1, e1 = stringx.Reverse(s)
			r2, e2 = stringx.Reverse(r1)
		})
		obs := "OPanic"
		if st != "" {
			obs = st
		} else if !p {
			if !utf8.ValidString(r1) || !utf8.ValidString(r2) {
				obs = "OInvalid"
			} else {
				obs = fmt.Sprintf("ORev %s %s %s %s", runesZ([]rune(r1)), vhlib.Bool(e1 != nil), runesZ([]rune(r2)), vhlib.Bool(e2 != nil))
			}
		}
		emit("Reverse", rs, "CReverse", "", nil, obs, map[string]interface{}{"result": fmt.Sprintf("%+q", r1), "err": fmt.Sprint(e1), "back": fmt.Sprintf("%+q", r2)})
		emit("MustReverse", rs, "CMustReverse", "", nil, strCall("MustReverse", func() string { return stringx.MustReverse(s) }), map[string]interface{}{})
	}
	doRemoveChar := func(rs []rune, ch rune) {
		s := string(rs)
		emit("RemoveChar", rs, "CRemoveChar "+vhlib.Z(int64(ch)), "", nil, strCall("RemoveChar", func() string { return stringx.RemoveChar(s, ch) }),
			map[string]interface{}{"args": []rune{ch}})
	}
	doRemoveString := func(rs []rune, m []rune) {
		s := string(rs)
		ms := string(m)
		emit("RemoveString", rs, "CRemoveString "+runesZ(m), "", nil, strCall("RemoveString", func() string { return stringx.RemoveString(s, ms) }),
			map[string]interface{}{"rm": fmt.Sprintf("%+q", ms), "rm_runes": m})
	}
	doShuffle := func(rs []rune) {
		s := string(rs)
		over := make(chan struct{})
		r := &recSrc{rng: rng.Fork(), over: over}
		fastrand.Uint32 = r.next
		obs := strCallAbort("Shuffle", over, func() string { return stringx.Shuffle(s) })
		fastrand.Uint32 = orig
		if obs == hangObs {
			r.draws = nil // a looping call is parked inside the source; its draws are not a replay
		}
		emit("Shuffle", rs, "CShuffle", "", r.draws, obs, map[string]interface{}{"draws": r.draws})
	}
	doIs := func(rs []rune) {
		s := string(rs)
		cls := classes(rs)
		boolCall := func(label string, f func(string) bool) string {
			var b bool
			p, st := guard(label, nil, func() { b = f(s) })
			if st != "" {
				return st
			}
			if p {
				return "OPanic"
			}
			return "OBool " + vhlib.Bool(b)
		}
		emit("IsAlpha", rs, "CIsAlpha", cls, nil, boolCall("IsAlpha", stringx.IsAlpha), map[string]interface{}{})
		emit("IsNumeric", rs, "CIsNumeric", cls, nil, boolCall("IsNumeric", stringx.IsNumeric), map[string]interface{}{})
		emit("IsAlphanumeric", rs, "CIsAlphanumeric", cls, nil, boolCall("IsAlphanumeric", stringx.IsAlphanumeric), map[string]interface{}{})
	}

	// ---------- fixed inputs (documented examples) ----------
	doRotate([]rune("日本語"), 4)
	doRotate([]rune("日本語"), 1)
	doRotate([]rune("日本語"), -1)
	doRotate([]rune("héllo"), 6)
	doReverse([]rune("a\uFFFDb"))
	doReverse([]rune("日本語"))

	// ---------- runs of one rune, every encoded width (a string whose only permutation is itself) ----------
	for _, c := range []rune{'a', ' ', 'é', '日', 0xFFFD, '😀', 0x0301} {
		for _, n := range []int{2, 3, 5, 17, 64} {
			rs := make([]rune, n)
			for i := range rs {
				rs[i] = c
			}
			variants := [][]rune{rs}
			if n >= 3 {
				v := append([]rune(nil), rs...)
				v[n/2] = 'b' // a run with one foreign rune
				variants = append(variants, v)
			}
			for _, v := range variants {
				doShuffle(v)
				doReverse(v)
				doIs(v)
				for _, k := range []int64{-1, 0, 1, int64(n) - 1, int64(n), int64(n) + 1, int64(2*n + 1)} {
					doRotate(v, k)
					doSubStart(v, k)
					doSub(v, k-1, k+1)
				}
				doSub(v, 0, int64(n))
				doSub(v, -int64(n), -1)
				doPad(v, int64(n+3), c)
				doPad(v, int64(n), '*')
				doPadSpace(v, int64(n+2))
				doRemoveChar(v, c)
				doRemoveChar(v, 'b')
				doRemoveString(v, []rune{c, c})
				doRemoveString(v, []rune{c})
			}
		}
	}

	// ---------- bounded-exhaustive stream over a tiny universe ----------
	small := []rune{'a', '日', 0xFFFD}
	var smallStrings [][]rune
	var build func(prefix []rune, n int)
	build = func(prefix []rune, n int) {
		if n == 0 {
			smallStrings = append(smallStrings, append([]rune(nil), prefix...))
			return
		}
		for _, c := range small {
			build(append(prefix, c), n-1)
		}
	}
	for n := 0; n <= 3; n++ {
		build(nil, n)
	}
	for _, rs := range smallStrings {
		n := len(rs)
		for k := -2*n - 2; k <= 2*n+2; k++ {
			doRotate(rs, int64(k))
			doSubStart(rs, int64(k))
		}
		for size := -1; size <= 2*n+2; size++ {
			doPad(rs, int64(size), '*')
		}
		doReverse(rs)
		for _, c := range small {
			doRemoveChar(rs, c)
		}
		for _, m := range smallStrings {
			if len(m) <= 2 {
				doRemoveString(rs, m)
			}
		}
		doIs(rs)
	}
	for _, rs := range [][]rune{{}, {'日'}, {'a', '日'}, {'日', 'a', 0xFFFD}, {'é', '😀', 'a', '本'}} {
		n := len(rs)
		for a := -2*n - 2; a <= 2*n+2; a++ {
			for b := -2*n - 2; b <= 2*n+2; b++ {
				doSub(rs, int64(a), int64(b))
			}
		}
	}

	// ---------- profiled random stream ----------
	reps := 220
	if o.Thorough() {
		reps = 6000
	}
	for i := 0; i < reps; i++ {
		n := genLen(rng)
		rs := genString(rng, n)
		// pads: sizes in the window, or non-positive extremes (a huge positive size is an allocation, not a property question)
		size := genArg(rng, n, nonposExtremes)
		doPad(rs, size, padChars[rng.Intn(len(padChars))])
		doPadSpace(rs, genArg(rng, n, nonposExtremes))
		{
			ch, k := padChars[rng.Intn(len(padChars))], genArg(rng, 20, nonposExtremes)
			emit("RepeatChar", nil, fmt.Sprintf("CRepeatChar %s %s", vhlib.Z(int64(ch)), vhlib.Z(k)), "", nil,
				strCall("RepeatChar", func() string { return stringx.RepeatChar(ch, int(k)) }), map[string]interface{}{"args": []int64{int64(ch), k}})
		}
		doSub(rs, genArg(rng, n, extremes), genArg(rng, n, extremes))
		doSub(rs, genArg(rng, n, extremes), genArg(rng, n, extremes))
		doSubStart(rs, genArg(rng, n, extremes))
		doRotate(rs, genArg(rng, n, extremes))
		doRotate(rs, genArg(rng, n, extremes))
		// shifts that are multiples of the byte length / rune length ± 1
		if n > 0 {
			bl := int64(len(string(rs)))
			for _, k := range []int64{bl, -bl, bl + 1, int64(n), int64(n) + 1, -int64(n) - 1} {
				if rng.Chance(1, 3) {
					doRotate(rs, k)
				}
			}
		}
		doReverse(rs)
		// RemoveChar: a rune of the string, or any rune, or an invalid code point
		switch {
		case n > 0 && rng.Chance(2, 3):
			doRemoveChar(rs, rs[rng.Intn(n)])
		case rng.Bool():
			doRemoveChar(rs, pick(rng, all))
		default:
			doRemoveChar(rs, padChars[rng.Intn(len(padChars))])
		}
		// RemoveString: a sub-slice of the string (so that it matches), a self-overlapping pattern, a random one, "", the whole string
		var m []rune
		switch rng.Intn(6) {
		case 0:
			m = nil
		case 1:
			m = append([]rune(nil), rs...)
		case 2:
			m = genString(rng, rng.Range(1, 3))
		case 3:
			if n > 0 {
				c := rs[rng.Intn(n)]
				m = []rune{c, c}
			}
		default:
			if n > 0 {
				a := rng.Intn(n)
				b := a + 1 + rng.Intn(3)
				if b > n {
					b = n
				}
				m = append([]rune(nil), rs[a:b]...)
			}
		}
		doRemoveString(rs, m)
		if rng.Chance(1, 4) { // aaaa… with pattern aa, aba…
			c, d := pick(rng, all), pick(rng, all)
			t := make([]rune, rng.Range(1, 12))
			for j := range t {
				t[j] = c
				if rng.Chance(1, 5) {
					t[j] = d
				}
			}
			doRemoveString(t, []rune{c, c})
			doRemoveString(t, []rune{c, d, c})
		}
		doShuffle(rs)
		doIs(rs)
	}
	fastrand.Uint32 = orig
	w.Close(o, "one case = one call of a stringx function on a generated valid UTF-8 string (rune pools: ASCII incl. NUL/DEL, 2-, 3-, 4-byte runes, U+FFFD, combining marks, non-ASCII digits; lengths 0..64; 11 profiles) with integer arguments in [-2n-2, 2n+2] or int64 extremes (pads: non-positive extremes only), plus a bounded-exhaustive stream over {a, 日, U+FFFD}^(<=3); plus runs of one rune of every encoded width (lengths 2..64, also with one foreign rune) through every function; every call runs under a 5 s watchdog (a call that does not return is reported as a violation with the function and its arguments, and a function that has hung twice is not called again); Shuffle runs on a recorded fastrand.Uint32 source that parks a caller drawing more than 200000 values; distinct = distinct (string, call, observation) terms; non-trivial = non-empty input string")
}
