package main

import (
	"encoding/json"
	"fmt"
	"os"

	"github.com/songzhibin97/go-baseutils/sys/stringx"
)

// runReplay re-runs the failing case of a replay file (replays/C19-*.json or findings/D2x-*.json) on the real
// code and prints what it returns next to a []rune reference: confirmation of a finding outside Coq.
func runReplay(path string) {
	raw, err := os.ReadFile(path)
	if err != nil {
		fmt.Println("cannot read", path, err)
		os.Exit(2)
	}
	var doc map[string]interface{}
	if err := json.Unmarshal(raw, &doc); err != nil {
		fmt.Println("bad json", err)
		os.Exit(2)
	}
	var cases []map[string]interface{}
	if c, ok := doc["case"].(map[string]interface{}); ok {
		cases = append(cases, c)
	}
	if cs, ok := doc["cases"].([]interface{}); ok {
		for _, c := range cs {
			if m, ok := c.(map[string]interface{}); ok {
				cases = append(cases, m)
			}
		}
	}
	differ := 0
	for _, c := range cases {
		rp, _ := c["replay"].(map[string]interface{})
		if rp == nil {
			continue
		}
		fn, _ := rp["fn"].(string)
		var rs []rune
		if l, ok := rp["runes"].([]interface{}); ok {
			for _, v := range l {
				rs = append(rs, rune(v.(float64)))
			}
		}
		s := string(rs)
		n := len(rs)
		var args []int64
		if l, ok := rp["args"].([]interface{}); ok {
			for _, v := range l {
				args = append(args, int64(v.(float64)))
			}
		}
		switch fn {
		case "Rotate":
			k := int(args[0])
			got := stringx.Rotate(s, k)
			want := s
			if n > 0 {
				m := ((k % n) + n) % n
				want = string(rs[n-m:]) + string(rs[:n-m])
			}
			fmt.Printf("Rotate(%+q, %d) = %+q   rune-level cyclic shift by %d mod %d: %+q   %s\n", s, k, got, k, n, want, verdict(got == want, &differ))
		case "Reverse", "MustReverse":
			got, err := stringx.Reverse(s)
			rv := make([]rune, n)
			for i := range rs {
				rv[n-1-i] = rs[i]
			}
			fmt.Printf("Reverse(%+q) = %+q, err=%v   reversed runes: %+q   %s\n", s, got, err, string(rv), verdict(got == string(rv) && err == nil, &differ))
		default:
			fmt.Printf("%s: replay of this function is not implemented; case: %v\n", fn, rp)
		}
	}
	if differ > 0 {
		fmt.Printf("CONFIRMED: %d case(s) differ from the rune-level definition on the real code\n", differ)
		os.Exit(1)
	}
	fmt.Println("no replayed case differs")
}

func verdict(ok bool, differ *int) string {
	if ok {
		return "AGREE"
	}
	*differ++
	return "DIFFER"
}
