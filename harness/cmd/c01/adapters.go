// Adapters giving the six tree-backed containers (and their Safe* wrappers) one interface, and the
// pre-order dump of the three trees through exported pointers + verif accessors.
package main

import (
	"fmt"
	"strconv"
	"strings"

	"github.com/songzhibin97/go-baseutils/base/bcomparator"
	"github.com/songzhibin97/go-baseutils/structure/maps/treebidimap"
	"github.com/songzhibin97/go-baseutils/structure/maps/treemap"
	"github.com/songzhibin97/go-baseutils/structure/sets/treeset"
	"github.com/songzhibin97/go-baseutils/structure/trees/avltree"
	"github.com/songzhibin97/go-baseutils/structure/trees/btree"
	rbt "github.com/songzhibin97/go-baseutils/structure/trees/redblacktree"
)

// OMap: the ordered-map API the property names. Left/Right/Floor/Ceiling return ok=false for nil.
type OMap interface {
	Put(k, v int)
	Remove(k int)
	Clear()
	Get(k int) (int, bool)
	Size() int
	Empty() bool
	Keys() []int
	Values() []int
	Left() (int, int, bool)
	Right() (int, int, bool)
	Floor(k int) (int, int, bool)
	Ceiling(k int) (int, int, bool)
}

// ---------------- red-black ----------------
type rbA struct{ t *rbt.Tree[int, int] }

func rbNode(n *rbt.Node[int, int]) (int, int, bool) {
	if n == nil {
		return 0, 0, false
	}
	return n.Key, n.Value, true
}
func (a rbA) Put(k, v int)          { a.t.Put(k, v) }
func (a rbA) Remove(k int)          { a.t.Remove(k) }
func (a rbA) Clear()                { a.t.Clear() }
func (a rbA) Get(k int) (int, bool) { return a.t.Get(k) }
func (a rbA) Size() int             { return a.t.Size() }
func (a rbA) Empty() bool           { return a.t.Empty() }
func (a rbA) Keys() []int           { return a.t.Keys() }
func (a rbA) Values() []int         { return a.t.Values() }
func (a rbA) Left() (int, int, bool) {
	return rbNode(a.t.Left())
}
func (a rbA) Right() (int, int, bool) { return rbNode(a.t.Right()) }
func (a rbA) Floor(k int) (int, int, bool) {
	n, ok := a.t.Floor(k)
	if !ok {
		if n != nil {
			return n.Key, n.Value, true // found=false with a node: reported as a node (mismatch)
		}
		return 0, 0, false
	}
	return rbNode(n)
}
func (a rbA) Ceiling(k int) (int, int, bool) {
	n, ok := a.t.Ceiling(k)
	if !ok {
		if n != nil {
			return n.Key, n.Value, true
		}
		return 0, 0, false
	}
	return rbNode(n)
}

type rbS struct{ t *rbt.TreeSafe[int, int] }

func (a rbS) Put(k, v int)            { a.t.Put(k, v) }
func (a rbS) Remove(k int)            { a.t.Remove(k) }
func (a rbS) Clear()                  { a.t.Clear() }
func (a rbS) Get(k int) (int, bool)   { return a.t.Get(k) }
func (a rbS) Size() int               { return a.t.Size() }
func (a rbS) Empty() bool             { return a.t.Empty() }
func (a rbS) Keys() []int             { return a.t.Keys() }
func (a rbS) Values() []int           { return a.t.Values() }
func (a rbS) Left() (int, int, bool)  { return rbNode(a.t.Left()) }
func (a rbS) Right() (int, int, bool) { return rbNode(a.t.Right()) }
func (a rbS) Floor(k int) (int, int, bool) {
	n, ok := a.t.Floor(k)
	if !ok && n == nil {
		return 0, 0, false
	}
	return rbNode(n)
}
func (a rbS) Ceiling(k int) (int, int, bool) {
	n, ok := a.t.Ceiling(k)
	if !ok && n == nil {
		return 0, 0, false
	}
	return rbNode(n)
}

// ---------------- AVL ----------------
type avlA struct{ t *avltree.Tree[int, int] }

func avlNode(n *avltree.Node[int, int]) (int, int, bool) {
	if n == nil {
		return 0, 0, false
	}
	return n.Key, n.Value, true
}
func (a avlA) Put(k, v int)            { a.t.Put(k, v) }
func (a avlA) Remove(k int)            { a.t.Remove(k) }
func (a avlA) Clear()                  { a.t.Clear() }
func (a avlA) Get(k int) (int, bool)   { return a.t.Get(k) }
func (a avlA) Size() int               { return a.t.Size() }
func (a avlA) Empty() bool             { return a.t.Empty() }
func (a avlA) Keys() []int             { return a.t.Keys() }
func (a avlA) Values() []int           { return a.t.Values() }
func (a avlA) Left() (int, int, bool)  { return avlNode(a.t.Left()) }
func (a avlA) Right() (int, int, bool) { return avlNode(a.t.Right()) }
func (a avlA) Floor(k int) (int, int, bool) {
	n, ok := a.t.Floor(k)
	if !ok && n == nil {
		return 0, 0, false
	}
	return avlNode(n)
}
func (a avlA) Ceiling(k int) (int, int, bool) {
	n, ok := a.t.Ceiling(k)
	if !ok && n == nil {
		return 0, 0, false
	}
	return avlNode(n)
}

type avlS struct{ t *avltree.TreeSafe[int, int] }

func (a avlS) Put(k, v int)            { a.t.Put(k, v) }
func (a avlS) Remove(k int)            { a.t.Remove(k) }
func (a avlS) Clear()                  { a.t.Clear() }
func (a avlS) Get(k int) (int, bool)   { return a.t.Get(k) }
func (a avlS) Size() int               { return a.t.Size() }
func (a avlS) Empty() bool             { return a.t.Empty() }
func (a avlS) Keys() []int             { return a.t.Keys() }
func (a avlS) Values() []int           { return a.t.Values() }
func (a avlS) Left() (int, int, bool)  { return avlNode(a.t.Left()) }
func (a avlS) Right() (int, int, bool) { return avlNode(a.t.Right()) }
func (a avlS) Floor(k int) (int, int, bool) {
	n, ok := a.t.Floor(k)
	if !ok && n == nil {
		return 0, 0, false
	}
	return avlNode(n)
}
func (a avlS) Ceiling(k int) (int, int, bool) {
	n, ok := a.t.Ceiling(k)
	if !ok && n == nil {
		return 0, 0, false
	}
	return avlNode(n)
}

// ---------------- B-tree (no Floor/Ceiling) ----------------
type btA struct{ t *btree.Tree[int, int] }

func (a btA) Put(k, v int)          { a.t.Put(k, v) }
func (a btA) Remove(k int)          { a.t.Remove(k) }
func (a btA) Clear()                { a.t.Clear() }
func (a btA) Get(k int) (int, bool) { return a.t.Get(k) }
func (a btA) Size() int             { return a.t.Size() }
func (a btA) Empty() bool           { return a.t.Empty() }
func (a btA) Keys() []int           { return a.t.Keys() }
func (a btA) Values() []int         { return a.t.Values() }
func (a btA) Left() (int, int, bool) {
	if a.t.Left() == nil {
		return a.t.LeftKey(), a.t.LeftValue(), a.t.LeftKey() != 0 || a.t.LeftValue() != 0 // zero results expected on empty
	}
	return a.t.LeftKey(), a.t.LeftValue(), true
}
func (a btA) Right() (int, int, bool) {
	if a.t.Right() == nil {
		return a.t.RightKey(), a.t.RightValue(), a.t.RightKey() != 0 || a.t.RightValue() != 0
	}
	return a.t.RightKey(), a.t.RightValue(), true
}
func (a btA) Floor(k int) (int, int, bool)   { panic("btree has no Floor") }
func (a btA) Ceiling(k int) (int, int, bool) { panic("btree has no Ceiling") }

type btS struct{ t *btree.TreeSafe[int, int] }

func (a btS) Put(k, v int)          { a.t.Put(k, v) }
func (a btS) Remove(k int)          { a.t.Remove(k) }
func (a btS) Clear()                { a.t.Clear() }
func (a btS) Get(k int) (int, bool) { return a.t.Get(k) }
func (a btS) Size() int             { return a.t.Size() }
func (a btS) Empty() bool           { return a.t.Empty() }
func (a btS) Keys() []int           { return a.t.Keys() }
func (a btS) Values() []int         { return a.t.Values() }
func (a btS) Left() (int, int, bool) {
	if a.t.Left() == nil {
		return a.t.LeftKey(), a.t.LeftValue(), a.t.LeftKey() != 0 || a.t.LeftValue() != 0
	}
	return a.t.LeftKey(), a.t.LeftValue(), true
}
func (a btS) Right() (int, int, bool) {
	if a.t.Right() == nil {
		return a.t.RightKey(), a.t.RightValue(), a.t.RightKey() != 0 || a.t.RightValue() != 0
	}
	return a.t.RightKey(), a.t.RightValue(), true
}
func (a btS) Floor(k int) (int, int, bool)   { panic("btree has no Floor") }
func (a btS) Ceiling(k int) (int, int, bool) { panic("btree has no Ceiling") }

// ---------------- treemap: Min/Max/Floor/Ceiling return zero key and value when absent ----------------
type tmA struct{ t *treemap.Map[int, int] }

func (a tmA) Put(k, v int)          { a.t.Put(k, v) }
func (a tmA) Remove(k int)          { a.t.Remove(k) }
func (a tmA) Clear()                { a.t.Clear() }
func (a tmA) Get(k int) (int, bool) { return a.t.Get(k) }
func (a tmA) Size() int             { return a.t.Size() }
func (a tmA) Empty() bool           { return a.t.Empty() }
func (a tmA) Keys() []int           { return a.t.Keys() }
func (a tmA) Values() []int         { return a.t.Values() }
func (a tmA) Left() (int, int, bool) {
	k, v := a.t.Min()
	return k, v, true
}
func (a tmA) Right() (int, int, bool) {
	k, v := a.t.Max()
	return k, v, true
}
func (a tmA) Floor(x int) (int, int, bool) {
	k, v := a.t.Floor(x)
	return k, v, true
}
func (a tmA) Ceiling(x int) (int, int, bool) {
	k, v := a.t.Ceiling(x)
	return k, v, true
}

type tmS struct{ t *treemap.MapSafe[int, int] }

func (a tmS) Put(k, v int)          { a.t.Put(k, v) }
func (a tmS) Remove(k int)          { a.t.Remove(k) }
func (a tmS) Clear()                { a.t.Clear() }
func (a tmS) Get(k int) (int, bool) { return a.t.Get(k) }
func (a tmS) Size() int             { return a.t.Size() }
func (a tmS) Empty() bool           { return a.t.Empty() }
func (a tmS) Keys() []int           { return a.t.Keys() }
func (a tmS) Values() []int         { return a.t.Values() }
func (a tmS) Left() (int, int, bool) {
	k, v := a.t.Min()
	return k, v, true
}
func (a tmS) Right() (int, int, bool) {
	k, v := a.t.Max()
	return k, v, true
}
func (a tmS) Floor(x int) (int, int, bool) {
	k, v := a.t.Floor(x)
	return k, v, true
}
func (a tmS) Ceiling(x int) (int, int, bool) {
	k, v := a.t.Ceiling(x)
	return k, v, true
}

// ---------------- tree set ----------------
type OSet interface {
	Add(items ...int)
	Remove(items ...int)
	Contains(items ...int) bool
	Size() int
	Empty() bool
	Clear()
	Values() []int
}

// ---------------- tree bidi map ----------------
type OBidi interface {
	Put(k, v int)
	Remove(k int)
	Clear()
	Get(k int) (int, bool)
	GetKey(v int) (int, bool)
	Size() int
	Empty() bool
	Keys() []int
	Values() []int
}

// ---------------- container kinds ----------------
type mapKind struct {
	label    string // meta label
	coq      string // Coq kind term
	mk       func(c bcomparator.Comparator[int]) OMap
	hasFloor bool
	zeros    bool // treemap style results
}

func mapKinds() []mapKind {
	ks := []mapKind{
		{"rb", "KRB", func(c bcomparator.Comparator[int]) OMap { return rbA{rbt.NewWith[int, int](c)} }, true, false},
		{"rb-safe", "KRB", func(c bcomparator.Comparator[int]) OMap { return rbS{rbt.NewSafeWith[int, int](c)} }, true, false},
		{"avl", "KAVL", func(c bcomparator.Comparator[int]) OMap { return avlA{avltree.NewWith[int, int](c)} }, true, false},
		{"avl-safe", "KAVL", func(c bcomparator.Comparator[int]) OMap { return avlS{avltree.NewSafeWith[int, int](c)} }, true, false},
		{"treemap", "KTMap", func(c bcomparator.Comparator[int]) OMap { return tmA{treemap.NewWith[int, int](c)} }, true, true},
		{"treemap-safe", "KTMap", func(c bcomparator.Comparator[int]) OMap { return tmS{treemap.NewSafeWith[int, int](c)} }, true, true},
	}
	return ks
}

func btKind(m int, safe bool) mapKind {
	mm := m
	if safe {
		return mapKind{fmt.Sprintf("bt%d-safe", m), fmt.Sprintf("(KBT %d)", m), func(c bcomparator.Comparator[int]) OMap { return btS{btree.NewSafeWith[int, int](mm, c)} }, false, false}
	}
	return mapKind{fmt.Sprintf("bt%d", m), fmt.Sprintf("(KBT %d)", m), func(c bcomparator.Comparator[int]) OMap { return btA{btree.NewWith[int, int](mm, c)} }, false, false}
}

func newSet(safe bool, c bcomparator.Comparator[int]) OSet {
	if safe {
		return treeset.NewSafeWith[int](c)
	}
	return treeset.NewWith[int](c)
}
func newBidi(safe bool, c bcomparator.Comparator[int]) OBidi {
	if safe {
		return treebidimap.NewSafeWith[int, int](c, c)
	}
	return treebidimap.NewWith[int, int](c, c)
}

// ---------------- dumps (C02) ----------------
// binary node = [key; hasLeft + 2*hasRight + 4*hasParent + 8*a; parentKey or 0]
const maxDumpNodes = 1 << 22

func dumpRB(t *rbt.Tree[int, int]) []int64 {
	var out []int64
	count := 0
	var walk func(n *rbt.Node[int, int])
	walk = func(n *rbt.Node[int, int]) {
		count++
		if count > maxDumpNodes {
			panic("dump: too many nodes (cycle?)")
		}
		code := int64(0)
		if n.Left != nil {
			code |= 1
		}
		if n.Right != nil {
			code |= 2
		}
		pk := int64(0)
		if n.Parent != nil {
			code |= 4
			pk = int64(n.Parent.Key)
		}
		if n.VerifColor() {
			code += 8
		}
		out = append(out, int64(n.Key), code, pk)
		if n.Left != nil {
			walk(n.Left)
		}
		if n.Right != nil {
			walk(n.Right)
		}
	}
	if t.Root != nil {
		walk(t.Root)
	}
	return out
}

func dumpAVL(t *avltree.Tree[int, int]) []int64 {
	var out []int64
	count := 0
	var walk func(n *avltree.Node[int, int])
	walk = func(n *avltree.Node[int, int]) {
		count++
		if count > maxDumpNodes {
			panic("dump: too many nodes (cycle?)")
		}
		code := int64(0)
		if n.Children[0] != nil {
			code |= 1
		}
		if n.Children[1] != nil {
			code |= 2
		}
		pk := int64(0)
		if n.Parent != nil {
			code |= 4
			pk = int64(n.Parent.Key)
		}
		code += 8 * int64(n.VerifBalance()+128)
		out = append(out, int64(n.Key), code, pk)
		if n.Children[0] != nil {
			walk(n.Children[0])
		}
		if n.Children[1] != nil {
			walk(n.Children[1])
		}
	}
	if t.Root != nil {
		walk(t.Root)
	}
	return out
}

// B-tree node = [nKeys; nChildren; hasParent; parent's first key or 0; keys...]
func dumpBT(t *btree.Tree[int, int]) []int64 {
	var out []int64
	count := 0
	var walk func(n *btree.Node[int, int])
	walk = func(n *btree.Node[int, int]) {
		count++
		if count > maxDumpNodes {
			panic("dump: too many nodes (cycle?)")
		}
		hp, pk := int64(0), int64(0)
		if n.Parent != nil {
			hp = 1
			if len(n.Parent.Entries) > 0 && n.Parent.Entries[0] != nil {
				pk = int64(n.Parent.Entries[0].Key)
			} else {
				hp = 2 // parent without entries: never equal to the model's layout
			}
		}
		out = append(out, int64(len(n.Entries)), int64(len(n.Children)), hp, pk)
		for _, e := range n.Entries {
			if e == nil {
				out = append(out, -999999999)
			} else {
				out = append(out, int64(e.Key))
			}
		}
		for _, c := range n.Children {
			if c == nil {
				out = append(out, -1, -1, -1, -1) // nil child: undecodable
			} else {
				walk(c)
			}
		}
	}
	if t.Root != nil {
		walk(t.Root)
	}
	return out
}

// canonical key of a reachable state = the shape dump ONLY. Size() is deliberately not part of it: a defect that
// makes the cached size drift would otherwise create endlessly many "new" states (the transition that shows the
// wrong size is still recorded and judged).
func dumpKey(d []int64) string {
	var sb strings.Builder
	for _, x := range d {
		sb.WriteString(strconv.FormatInt(x, 36))
		sb.WriteByte(',')
	}
	return sb.String()
}

// dumpable trees (C02)
type DTree interface {
	Put(k, v int)
	Remove(k int)
	Clear()
	Size() int
	Empty() bool
	Keys() []int
	Dump() []int64
}
type rbD struct{ t *rbt.Tree[int, int] }

func (a rbD) Put(k, v int)  { a.t.Put(k, v) }
func (a rbD) Remove(k int)  { a.t.Remove(k) }
func (a rbD) Clear()        { a.t.Clear() }
func (a rbD) Size() int     { return a.t.Size() }
func (a rbD) Empty() bool   { return a.t.Empty() }
func (a rbD) Keys() []int   { return a.t.Keys() }
func (a rbD) Dump() []int64 { return dumpRB(a.t) }

type avlD struct{ t *avltree.Tree[int, int] }

func (a avlD) Put(k, v int)  { a.t.Put(k, v) }
func (a avlD) Remove(k int)  { a.t.Remove(k) }
func (a avlD) Clear()        { a.t.Clear() }
func (a avlD) Size() int     { return a.t.Size() }
func (a avlD) Empty() bool   { return a.t.Empty() }
func (a avlD) Keys() []int   { return a.t.Keys() }
func (a avlD) Dump() []int64 { return dumpAVL(a.t) }

type btD struct{ t *btree.Tree[int, int] }

func (a btD) Put(k, v int)  { a.t.Put(k, v) }
func (a btD) Remove(k int)  { a.t.Remove(k) }
func (a btD) Clear()        { a.t.Clear() }
func (a btD) Size() int     { return a.t.Size() }
func (a btD) Empty() bool   { return a.t.Empty() }
func (a btD) Keys() []int   { return a.t.Keys() }
func (a btD) Dump() []int64 { return dumpBT(a.t) }

type treeKind struct {
	label string
	coq   string
	mk    func(c bcomparator.Comparator[int]) DTree
}

func treeKinds(orders []int) []treeKind {
	ks := []treeKind{
		{"rb", "KRB", func(c bcomparator.Comparator[int]) DTree { return rbD{rbt.NewWith[int, int](c)} }},
		{"avl", "KAVL", func(c bcomparator.Comparator[int]) DTree { return avlD{avltree.NewWith[int, int](c)} }},
	}
	for _, m := range orders {
		ks = append(ks, btTreeKind(m))
	}
	return ks
}
func btTreeKind(m int) treeKind {
	mm := m
	return treeKind{fmt.Sprintf("bt%d", m), fmt.Sprintf("(KBT %d)", m), func(c bcomparator.Comparator[int]) DTree { return btD{btree.NewWith[int, int](mm, c)} }}
}
