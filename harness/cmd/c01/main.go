// C01/C02 harness: drives the REAL tree-backed containers of /repo (red-black tree, AVL tree, B-tree,
// treemap, treeset, treebidimap and their Safe* wrappers) and writes Coq case files.
//
//	-extra ""    : C01 stream (observable results of every query the property names)
//	-extra "c02" : C02 stream (pre-order shape dumps through the verif accessors)
package main

import "vh/vhlib"

func main() {
	o := vhlib.ParseOpts()
	if o.Extra == "c02" {
		runC02(o)
		return
	}
	runC01(o)
}
