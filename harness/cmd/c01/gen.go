// Operation-sequence generators shared by the C01 and C02 streams.
package main

import (
	"fmt"
	"math"
	"os"
	"strings"
	"sync"
	"time"

	"github.com/songzhibin97/go-baseutils/base/bcomparator"

	"vh/vhlib"
)

type mop struct {
	kind int // 0 Put, 1 Remove, 2 Clear
	k, v int
}

func (o mop) coq() string {
	switch o.kind {
	case 0:
		return "Put " + vhlib.Z(int64(o.k)) + " " + vhlib.Z(int64(o.v))
	case 1:
		return "Remove " + vhlib.Z(int64(o.k))
	}
	return "Clear"
}
func (o mop) label() string {
	switch o.kind {
	case 0:
		return "Put"
	case 1:
		return "Remove"
	}
	return "Clear"
}

var profileNames = []string{"ascending", "descending", "zigzag", "dup-heavy", "delete-heavy", "churn", "zero-values", "extreme-ints", "clear-reuse"}

var extremeKeys = []int{math.MinInt64, math.MinInt64 + 1, math.MinInt64 + 2, -1 << 32, -65536, -2, -1, 0, 1, 2, 65535, 1 << 31, 1<<32 + 1,
	math.MaxInt64 - 2, math.MaxInt64 - 1, math.MaxInt64, math.MinInt32, math.MaxInt32}

// profile: a mostly-valid operation sequence of about n operations. Values are fresh (a counter), so a stale
// value is visible; removes of absent keys and re-puts of present keys occur in every profile.
func profile(name string, rng *vhlib.Rng, n int) []mop {
	var ops []mop
	val := 1000
	put := func(k int) { val++; ops = append(ops, mop{0, k, val}) }
	rem := func(k int) { ops = append(ops, mop{1, k, 0}) }
	half := n / 2
	if half < 1 {
		half = 1
	}
	switch name {
	case "ascending":
		for i := 1; i <= half; i++ {
			put(3 * i)
		}
		for i := 1; i <= half; i++ {
			switch rng.Intn(4) {
			case 0:
				rem(3 * i)
			case 1:
				rem(3 * (half + 1 - i))
			case 2:
				rem(3*i + 1) // absent
			default:
				put(3 * rng.Range(1, half)) // re-put
			}
		}
	case "descending":
		for i := half; i >= 1; i-- {
			put(3 * i)
		}
		for i := half; i >= 1; i-- {
			switch rng.Intn(4) {
			case 0, 1:
				rem(3 * i)
			case 2:
				rem(3*i - 1)
			default:
				put(3 * rng.Range(1, half))
			}
		}
	case "zigzag":
		lo, hi := 1, half
		for lo <= hi {
			put(2 * lo)
			if lo != hi {
				put(2 * hi)
			}
			lo++
			hi--
		}
		lo, hi = 1, half
		for lo <= hi {
			if rng.Chance(2, 3) {
				rem(2 * hi)
			}
			if rng.Chance(2, 3) {
				rem(2 * lo)
			}
			if rng.Chance(1, 4) {
				put(2 * rng.Range(1, half))
			}
			lo++
			hi--
		}
	case "dup-heavy":
		u := n/8 + 2
		for i := 0; i < n; i++ {
			k := rng.Range(1, u)
			if rng.Chance(3, 4) {
				put(k)
			} else {
				rem(k)
			}
		}
	case "delete-heavy":
		u := half
		for _, i := range rng.Perm(u) {
			put(i + 1)
		}
		for i := 0; i < half; i++ {
			if rng.Chance(9, 10) {
				rem(rng.Range(0, u+1))
			} else {
				put(rng.Range(1, u))
			}
		}
	case "churn":
		u := n/3 + 4
		for i := 0; i < n; i++ {
			k := rng.Range(1, u)
			if rng.Bool() {
				put(k)
			} else {
				rem(k)
			}
		}
	case "zero-values":
		u := n/4 + 2
		for i := 0; i < n; i++ {
			k := rng.Range(-u/2, u/2)
			if rng.Chance(2, 3) {
				ops = append(ops, mop{0, k, 0}) // value 0 = Go zero value
			} else if rng.Chance(1, 2) {
				put(k)
			} else {
				rem(k)
			}
		}
	case "extreme-ints":
		for i := 0; i < n; i++ {
			k := extremeKeys[rng.Intn(len(extremeKeys))]
			if rng.Chance(2, 3) {
				val++
				v := val
				if rng.Chance(1, 4) {
					v = extremeKeys[rng.Intn(len(extremeKeys))]
				}
				ops = append(ops, mop{0, k, v})
			} else {
				rem(k)
			}
		}
	case "clear-reuse":
		u := n/4 + 3
		for i := 0; i < n; i++ {
			k := rng.Range(1, u)
			switch {
			case rng.Chance(1, 12):
				ops = append(ops, mop{2, 0, 0})
			case rng.Chance(2, 3):
				put(k)
			default:
				rem(k)
			}
		}
	}
	// the zero key (Go zero value of the key type) takes part in every profile: one key that is put by the
	// profile swaps roles with 0, so 0 is present while absent keys are removed, and is itself removed and re-put
	if name != "extreme-ints" {
		var puts []int
		for _, o := range ops {
			if o.kind == 0 {
				puts = append(puts, o.k)
			}
		}
		if len(puts) > 0 {
			pivot := puts[rng.Intn(len(puts))]
			for i := range ops {
				switch ops[i].k {
				case pivot:
					ops[i].k = 0
				case 0:
					if ops[i].kind != 2 {
						ops[i].k = pivot
					}
				}
			}
		}
	}
	return ops
}

// probes: keys to query around the current key set (members, gaps, below the minimum, above the maximum)
func probesFor(rng *vhlib.Rng, keys []int, maxN int) []int {
	seen := map[int]bool{}
	var ps []int
	add := func(p int) {
		if !seen[p] {
			seen[p] = true
			ps = append(ps, p)
		}
	}
	if len(keys) == 0 {
		add(0)
		add(1)
		add(-1)
		return ps
	}
	if keys[0] > math.MinInt64 {
		add(keys[0] - 1)
	}
	if keys[len(keys)-1] < math.MaxInt64 {
		add(keys[len(keys)-1] + 1)
	}
	add(keys[0])
	add(keys[len(keys)-1])
	for it := 0; it < 6*maxN && len(ps) < maxN; it++ {
		k := keys[rng.Intn(len(keys))]
		switch rng.Intn(3) {
		case 0:
			add(k)
		case 1:
			if k < math.MaxInt64 {
				add(k + 1)
			}
		default:
			if k > math.MinInt64 {
				add(k - 1)
			}
		}
	}
	return ps
}

// Big cases are spread between the small ones so that no shard file gets more than one of them.
type spreader struct {
	pending []func()
	every   int
	n       int
}

var spread = &spreader{every: 1 << 30}

func (sp *spreader) add(f func()) { sp.pending = append(sp.pending, f) }
func (sp *spreader) tick() {
	sp.n++
	if sp.n%sp.every == 0 && len(sp.pending) > 0 {
		f := sp.pending[0]
		sp.pending = sp.pending[1:]
		f()
	}
}
func (sp *spreader) drain() {
	for len(sp.pending) > 0 {
		f := sp.pending[0]
		sp.pending = sp.pending[1:]
		f()
	}
}

// Coq overflows its stack on list literals with more than ~25 000 elements: long lists are written as
// ([..] ++ [..] ++ ...) with literal chunks of at most chunkLen elements.
const chunkLen = 4000

func coqList(items []string) string {
	if len(items) <= chunkLen {
		return "[" + strings.Join(items, "; ") + "]"
	}
	var parts []string
	for i := 0; i < len(items); i += chunkLen {
		j := i + chunkLen
		if j > len(items) {
			j = len(items)
		}
		parts = append(parts, "["+strings.Join(items[i:j], "; ")+"]")
	}
	return "(" + strings.Join(parts, " ++ ") + ")"
}

// ---------------- comparator shapes and key spreads ----------------
// The property quantifies over every comparator that is a total preorder; a Go comparator may return any int.
// Every stream builds the real containers with each of these shapes (NewWith...), over key universes whose
// differences cross 127/128, 255/256, 32767/32768 and 2^31. |keys| stay below 2^40 so that a-b and the scaled
// variants do not overflow a 64-bit int (the Coq side computes in Z).
type cmpCfg struct {
	coq    string // constructor of C01/CmpSel.v
	f      bcomparator.Comparator[int]
	spread int // universe index i -> key i*spread
}

func clamp3(a, b int) int {
	d := a - b
	if d > 3 {
		return 3
	}
	if d < -3 {
		return -3
	}
	return d
}

var (
	cmpInt     = bcomparator.IntComparator()
	cmpSub     = bcomparator.Comparator[int](func(a, b int) int { return a - b })
	cmpDesc    = bcomparator.Comparator[int](func(a, b int) int { return b - a })
	cmpScale7  = bcomparator.Comparator[int](func(a, b int) int { return (a - b) * 7 })
	cmpDescBig = bcomparator.Comparator[int](func(a, b int) int { return (b - a) * 1000003 })
	cmpClamp   = bcomparator.Comparator[int](clamp3)
)

var plainCfg = cmpCfg{"CInt", cmpInt, 1}

// rotation used by the exhaustive streams (the built-in comparator on dense keys keeps every third slot)
var cmpCfgs = []cmpCfg{
	plainCfg,
	{"CSub", cmpSub, 64},
	{"CDesc", cmpDesc, 256},
	plainCfg,
	{"CScale7", cmpScale7, 40},
	{"CDescBig", cmpDescBig, 3000}, // results cross 2^31 with small keys
	plainCfg,
	{"CClamp", cmpClamp, 1},
	{"CSub", cmpSub, 8191},
	{"CInt", cmpInt, 300},
	{"CDesc", cmpDesc, 1},
	{"CSub", cmpSub, 1<<31 + 1}, // the one slot with huge keys: differences cross 2^31
	{"CScale7", cmpScale7, 5000},
	{"CClamp", cmpClamp, 100},
	{"CDescBig", cmpDescBig, 3},
}

const keyLimit = 1 << 40

// pickCfg: a comparator shape and spread for an operation list whose keys (and values, for the bidi-map) have
// absolute value at most maxAbs before spreading
func pickCfg(rng *vhlib.Rng, maxAbs int) cmpCfg {
	if maxAbs < 1 {
		maxAbs = 1
	}
	for tries := 0; tries < 50; tries++ {
		c := cmpCfgs[rng.Intn(len(cmpCfgs))]
		if maxAbs <= keyLimit/c.spread {
			return c
		}
	}
	return plainCfg
}

func maxAbsKey(ops []mop, withValues bool) int {
	m := 0
	up := func(x int) {
		if x < 0 {
			x = -x
		}
		if x < 0 || x > m { // x < 0: MinInt64
			m = x
			if x < 0 {
				m = math.MaxInt64
			}
		}
	}
	for _, o := range ops {
		up(o.k)
		if withValues && o.kind == 0 {
			up(o.v)
		}
	}
	return m
}

// spreadOps maps keys (and bidi-map values) i -> i*spread
func spreadOps(ops []mop, c cmpCfg, withValues bool) []mop {
	r := make([]mop, len(ops))
	for i, o := range ops {
		o.k *= c.spread
		if withValues {
			o.v *= c.spread
		}
		r[i] = o
	}
	return r
}

// ---------------- watchdog ----------------
// A defect that corrupts the pointer structure (e.g. a parent-link cycle) can make a call of the real container
// loop forever. Every real call runs under guard(); if one does not return within hangLimit the watchdog records
// it as a direct violation (decided outside Coq, CONVENTIONS item 5), writes meta.json and ends the run.
const hangLimit = 20 * time.Second

var wd struct {
	mu     sync.Mutex
	active bool
	since  time.Time
	what   string
	detail interface{}
}
var curLabel string // label of the case being generated

func guard(what string, detail interface{}, f func()) (bool, interface{}) {
	wd.mu.Lock()
	wd.active, wd.since, wd.what, wd.detail = true, time.Now(), what, detail
	wd.mu.Unlock()
	p, v := vhlib.Recover(f)
	wd.mu.Lock()
	wd.active = false
	wd.mu.Unlock()
	return p, v
}

func startWatchdog(w *vhlib.Writer, o vhlib.Opts, rule string) {
	go func() {
		for {
			time.Sleep(500 * time.Millisecond)
			wd.mu.Lock()
			hung := wd.active && time.Since(wd.since) > hangLimit
			what, detail := wd.what, wd.detail
			wd.mu.Unlock()
			if hung {
				// the main goroutine is stuck inside the library call: the writer is not in use
				w.Violation(curLabel, what+": call does not return (hang)", detail)
				w.Notes["watchdog"] = fmt.Sprintf("run ended early: %s did not return within %s in case %s", what, hangLimit, curLabel)
				w.Close(o, rule)
				os.Exit(0)
			}
		}
	}()
}
