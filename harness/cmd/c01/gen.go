// Operation-sequence generators shared by the C01 and C02 streams.
package main

import (
	"math"
	"strings"

	"vh/vhlib"
)

type mop struct {
	kind int // 0 Put, 1 Remove, 2 Clear
	k, v int
}

func (o mop) coq() string {
	switch o.kind {
	case 0:
		return "Put " + vhlib.Z(int64(o.k)) + " " + vhlib.Z(int64(o.v))
	case 1:
		return "Remove " + vhlib.Z(int64(o.k))
	}
	return "Clear"
}
func (o mop) label() string {
	switch o.kind {
	case 0:
		return "Put"
	case 1:
		return "Remove"
	}
	return "Clear"
}

var profileNames = []string{"ascending", "descending", "zigzag", "dup-heavy", "delete-heavy", "churn", "zero-values", "extreme-ints", "clear-reuse"}

var extremeKeys = []int{math.MinInt64, math.MinInt64 + 1, math.MinInt64 + 2, -1 << 32, -65536, -2, -1, 0, 1, 2, 65535, 1 << 31, 1<<32 + 1,
	math.MaxInt64 - 2, math.MaxInt64 - 1, math.MaxInt64, math.MinInt32, math.MaxInt32}

// profile: a mostly-valid operation sequence of about n operations. Values are fresh (a counter), so a stale
// value is visible; removes of absent keys and re-puts of present keys occur in every profile.
func profile(name string, rng *vhlib.Rng, n int) []mop {
	var ops []mop
	val := 1000
	put := func(k int) { val++; ops = append(ops, mop{0, k, val}) }
	rem := func(k int) { ops = append(ops, mop{1, k, 0}) }
	half := n / 2
	if half < 1 {
		half = 1
	}
	switch name {
	case "ascending":
		for i := 1; i <= half; i++ {
			put(3 * i)
		}
		for i := 1; i <= half; i++ {
			switch rng.Intn(4) {
			case 0:
				rem(3 * i)
			case 1:
				rem(3 * (half + 1 - i))
			case 2:
				rem(3*i + 1) // absent
			default:
				put(3 * rng.Range(1, half)) // re-put
			}
		}
	case "descending":
		for i := half; i >= 1; i-- {
			put(3 * i)
		}
		for i := half; i >= 1; i-- {
			switch rng.Intn(4) {
			case 0, 1:
				rem(3 * i)
			case 2:
				rem(3*i - 1)
			default:
				put(3 * rng.Range(1, half))
			}
		}
	case "zigzag":
		lo, hi := 1, half
		for lo <= hi {
			put(2 * lo)
			if lo != hi {
				put(2 * hi)
			}
			lo++
			hi--
		}
		lo, hi = 1, half
		for lo <= hi {
			if rng.Chance(2, 3) {
				rem(2 * hi)
			}
			if rng.Chance(2, 3) {
				rem(2 * lo)
			}
			if rng.Chance(1, 4) {
				put(2 * rng.Range(1, half))
			}
			lo++
			hi--
		}
	case "dup-heavy":
		u := n/8 + 2
		for i := 0; i < n; i++ {
			k := rng.Range(1, u)
			if rng.Chance(3, 4) {
				put(k)
			} else {
				rem(k)
			}
		}
	case "delete-heavy":
		u := half
		for _, i := range rng.Perm(u) {
			put(i + 1)
		}
		for i := 0; i < half; i++ {
			if rng.Chance(9, 10) {
				rem(rng.Range(0, u+1))
			} else {
				put(rng.Range(1, u))
			}
		}
	case "churn":
		u := n/3 + 4
		for i := 0; i < n; i++ {
			k := rng.Range(1, u)
			if rng.Bool() {
				put(k)
			} else {
				rem(k)
			}
		}
	case "zero-values":
		u := n/4 + 2
		for i := 0; i < n; i++ {
			k := rng.Range(-u/2, u/2)
			if rng.Chance(2, 3) {
				ops = append(ops, mop{0, k, 0}) // value 0 = Go zero value
			} else if rng.Chance(1, 2) {
				put(k)
			} else {
				rem(k)
			}
		}
	case "extreme-ints":
		for i := 0; i < n; i++ {
			k := extremeKeys[rng.Intn(len(extremeKeys))]
			if rng.Chance(2, 3) {
				val++
				v := val
				if rng.Chance(1, 4) {
					v = extremeKeys[rng.Intn(len(extremeKeys))]
				}
				ops = append(ops, mop{0, k, v})
			} else {
				rem(k)
			}
		}
	case "clear-reuse":
		u := n/4 + 3
		for i := 0; i < n; i++ {
			k := rng.Range(1, u)
			switch {
			case rng.Chance(1, 12):
				ops = append(ops, mop{2, 0, 0})
			case rng.Chance(2, 3):
				put(k)
			default:
				rem(k)
			}
		}
	}
	return ops
}

// probes: keys to query around the current key set (members, gaps, below the minimum, above the maximum)
func probesFor(rng *vhlib.Rng, keys []int, maxN int) []int {
	seen := map[int]bool{}
	var ps []int
	add := func(p int) {
		if !seen[p] {
			seen[p] = true
			ps = append(ps, p)
		}
	}
	if len(keys) == 0 {
		add(0)
		add(1)
		add(-1)
		return ps
	}
	if keys[0] > math.MinInt64 {
		add(keys[0] - 1)
	}
	if keys[len(keys)-1] < math.MaxInt64 {
		add(keys[len(keys)-1] + 1)
	}
	add(keys[0])
	add(keys[len(keys)-1])
	for it := 0; it < 6*maxN && len(ps) < maxN; it++ {
		k := keys[rng.Intn(len(keys))]
		switch rng.Intn(3) {
		case 0:
			add(k)
		case 1:
			if k < math.MaxInt64 {
				add(k + 1)
			}
		default:
			if k > math.MinInt64 {
				add(k - 1)
			}
		}
	}
	return ps
}

// Big cases are spread between the small ones so that no shard file gets more than one of them.
type spreader struct {
	pending []func()
	every   int
	n       int
}

var spread = &spreader{every: 1 << 30}

func (sp *spreader) add(f func()) { sp.pending = append(sp.pending, f) }
func (sp *spreader) tick() {
	sp.n++
	if sp.n%sp.every == 0 && len(sp.pending) > 0 {
		f := sp.pending[0]
		sp.pending = sp.pending[1:]
		f()
	}
}
func (sp *spreader) drain() {
	for len(sp.pending) > 0 {
		f := sp.pending[0]
		sp.pending = sp.pending[1:]
		f()
	}
}

// Coq overflows its stack on list literals with more than ~25 000 elements: long lists are written as
// ([..] ++ [..] ++ ...) with literal chunks of at most chunkLen elements.
const chunkLen = 4000

func coqList(items []string) string {
	if len(items) <= chunkLen {
		return "[" + strings.Join(items, "; ") + "]"
	}
	var parts []string
	for i := 0; i < len(items); i += chunkLen {
		j := i + chunkLen
		if j > len(items) {
			j = len(items)
		}
		parts = append(parts, "["+strings.Join(items[i:j], "; ")+"]")
	}
	return "(" + strings.Join(parts, " ++ ") + ")"
}
