// C01 stream: observable behaviour of the six tree-backed containers (and their Safe* wrappers).
package main

import (
	"fmt"
	"sort"
	"strings"

	"vh/vhlib"
)

func zl(vs []int) string {
	it := make([]string, len(vs))
	for i, v := range vs {
		it[i] = vhlib.Z(int64(v))
	}
	return coqList(it)
}
func zi(v int) string { return vhlib.Z(int64(v)) }
func bl(bs []bool) string {
	it := make([]string, len(bs))
	for i, b := range bs {
		it[i] = vhlib.Bool(b)
	}
	return coqList(it)
}

// recorder of one case
type rec struct {
	steps  []string
	labels []string
	dead   bool
	desc   []string // replay description (operation words)
}

func (r *rec) add(term, label string) {
	r.steps = append(r.steps, term)
	r.labels = append(r.labels, label)
}

// try runs f; on panic records the call as panicked and ends the case
func (r *rec) try(opTerm, label string, f func() string) {
	if r.dead {
		return
	}
	var term string
	p, val := guard(label, append([]string{}, r.desc...), func() { term = f() })
	if p {
		r.add(fmt.Sprintf("C1 (%s) RPanic", opTerm), label)
		r.desc = append(r.desc, fmt.Sprintf("PANIC in %s: %v", label, val))
		r.dead = true
		return
	}
	r.add(term, label)
}

// ---------------- ordered maps (rb, avl, btree, treemap) ----------------
type mapRun struct {
	k mapKind
	m OMap
	r *rec
}

func (x *mapRun) out(t string) string {
	return "RO (" + t + ")"
}

func (x *mapRun) apply(o mop) {
	x.r.desc = append(x.r.desc, o.coq())
	switch o.kind {
	case 0:
		x.r.try("GO ("+o.coq()+")", "Put", func() string { x.m.Put(o.k, o.v); return "CPut " + zi(o.k) + " " + zi(o.v) })
	case 1:
		x.r.try("GO ("+o.coq()+")", "Remove", func() string { x.m.Remove(o.k); return "CRemove " + zi(o.k) })
	default:
		x.r.try("GO Clear", "Clear", func() string { x.m.Clear(); return "CClear" })
	}
}

func (x *mapRun) gets(ps []int) {
	x.r.try("GO Size", "Get", func() string {
		vs := make([]int, len(ps))
		fs := make([]bool, len(ps))
		for i, p := range ps {
			vs[i], fs[i] = x.m.Get(p)
		}
		return fmt.Sprintf("CGets %s %s %s", zl(ps), zl(vs), bl(fs))
	})
}
func (x *mapRun) size() {
	x.r.try("GO Size", "Size", func() string { return fmt.Sprintf("C1 (GO Size) (%s)", x.out("OSize "+zi(x.m.Size()))) })
}
func (x *mapRun) entry(op, label string, f func() (int, int, bool)) {
	x.r.try("GO "+op, label, func() string {
		k, v, ok := f()
		if x.k.zeros {
			return fmt.Sprintf("C1 (GO %s) (RX (XPair %s %s))", op, zi(k), zi(v))
		}
		if ok {
			return fmt.Sprintf("C1 (GO %s) (RO (OEntry (Some (%s, %s))))", op, zi(k), zi(v))
		}
		return fmt.Sprintf("C1 (GO %s) (RO (OEntry None))", op)
	})
}
func (x *mapRun) around(name, label string, ps []int, f func(int) (int, int, bool)) {
	x.r.try("GO Size", label, func() string {
		ks := make([]int, len(ps))
		vs := make([]int, len(ps))
		fs := make([]bool, len(ps))
		for i, p := range ps {
			ks[i], vs[i], fs[i] = f(p)
		}
		if x.k.zeros {
			return fmt.Sprintf("CX%s %s %s %s", name, zl(ps), zl(ks), zl(vs))
		}
		return fmt.Sprintf("C%s %s %s %s %s", name, zl(ps), zl(ks), zl(vs), bl(fs))
	})
}

func (x *mapRun) emptyAndLen() {
	x.r.try("GO Empty", "Empty", func() string { return fmt.Sprintf("C1 (GO Empty) (%s)", x.out("OBool "+vhlib.Bool(x.m.Empty()))) })
	x.r.try("GO Keys", "len(Keys)", func() string { return "CKeysLen " + zi(len(x.m.Keys())) })
}

// battery: every query the property names
func (x *mapRun) battery(ps []int) {
	x.gets(ps)
	x.size()
	x.r.try("GO Empty", "Empty", func() string { return fmt.Sprintf("C1 (GO Empty) (%s)", x.out("OBool "+vhlib.Bool(x.m.Empty()))) })
	x.r.try("GO Keys", "Keys", func() string { return fmt.Sprintf("C1 (GO Keys) (%s)", x.out("OKeys "+zl(x.m.Keys()))) })
	x.r.try("GO Values", "Values", func() string { return fmt.Sprintf("C1 (GO Values) (%s)", x.out("OVals "+zl(x.m.Values()))) })
	lname, rname := "Left", "Right"
	if x.k.zeros {
		lname, rname = "Min", "Max"
	}
	x.entry("Left", lname, x.m.Left)
	x.entry("Right", rname, x.m.Right)
	if x.k.hasFloor {
		x.around("Floors", "Floor", ps, x.m.Floor)
		x.around("Ceils", "Ceiling", ps, x.m.Ceiling)
	}
}

func (x *mapRun) keysSafe() []int {
	var ks []int
	guard("Keys", append([]string{}, x.r.desc...), func() { ks = x.m.Keys() })
	return ks
}

func emitCase(w *vhlib.Writer, kindCoq string, c cmpCfg, label string, r *rec, nontrivial bool) {
	term := fmt.Sprintf("{| c_kind := %s; c_cmp := %s; c_steps := %s |}", kindCoq, c.coq, coqList(r.steps))
	w.Case(term, label, nontrivial, r.labels, map[string]interface{}{"container": label, "comparator": c.coq, "ops": r.desc})
	w.Dist["comparator "+c.coq]++
	spread.tick()
}

// random profile on an ordered map: after every mutator Get(key) and Size; full battery at checkpoints
func mapProfileCase(w *vhlib.Writer, k mapKind, prof string, rng *vhlib.Rng, n, probesN int) {
	curLabel = k.label + "/" + prof
	ops := profile(prof, rng, n)
	cfg := pickCfg(rng, maxAbsKey(ops, false))
	ops = spreadOps(ops, cfg, false)
	m := k.mk(cfg.f)
	x := &mapRun{k: k, m: m, r: &rec{}}
	every := len(ops)/3 + 1
	muts := 0
	for i, o := range ops {
		x.apply(o)
		if x.r.dead {
			break
		}
		if o.kind != 2 {
			x.gets([]int{o.k})
		}
		x.size()
		x.emptyAndLen()
		muts++
		if (i+1)%every == 0 || i == len(ops)-1 {
			x.battery(probesFor(rng, x.keysSafe(), probesN))
		}
		if x.r.dead {
			break
		}
	}
	emitCase(w, k.coq, cfg, k.label+"/"+prof, x.r, muts >= 2)
}

// bounded-exhaustive: BFS over distinct states (canonical key = shape dump when available, else contents),
// every next operation from every state; one case per transition = path, operation, full battery
func mapExhaustive(w *vhlib.Writer, k mapKind, keyFn func(OMap) string, U int, maxStates int) int {
	type st struct{ path []mop }
	curLabel = k.label + "/exhaustive"
	// states are discovered on a reference instance (built-in comparator, dense keys); the recorded run of each
	// state uses the next comparator shape / key spread of the rotation
	build := func(path []mop) OMap {
		m := k.mk(plainCfg.f)
		for _, o := range path {
			if o.kind == 0 {
				m.Put(o.k, o.v)
			} else {
				m.Remove(o.k)
			}
		}
		return m
	}
	seen := map[string]bool{keyFn(build(nil)): true}
	queue := []st{{nil}}
	trans := 0
	stateNo := 0
	for len(queue) > 0 {
		s := queue[0]
		queue = queue[1:]
		cfg := cmpCfgs[stateNo%len(cmpCfgs)]
		stateNo++
		probes := make([]int, 0, 2*U+1)
		for p := -1; p <= 2*U-1; p++ { // universe keys 0, 2, .., 2U-2 (0 = the zero key), gaps and both ends
			probes = append(probes, p*cfg.spread)
		}
		for kk := 1; kk <= U; kk++ {
			for _, kind := range []int{0, 1} {
				o := mop{kind, 2 * (kk - 1), 100*(len(s.path)+1) + 2*kk}
				x := &mapRun{k: k, m: k.mk(cfg.f), r: &rec{}}
				for _, po := range spreadOps(s.path, cfg, false) {
					x.apply(po)
				}
				x.apply(spreadOps([]mop{o}, cfg, false)[0])
				if !x.r.dead {
					x.battery(probes)
				}
				trans++
				emitCase(w, k.coq, cfg, k.label+"/exhaustive", x.r, true)
				var key string
				if p, _ := guard("reference replay", opWords(append(append([]mop{}, s.path...), o)), func() {
					ref := build(s.path)
					if o.kind == 0 {
						ref.Put(o.k, o.v)
					} else {
						ref.Remove(o.k)
					}
					key = keyFn(ref)
				}); p {
					continue
				}
				if !seen[key] && len(seen) < maxStates {
					seen[key] = true
					np := append(append([]mop{}, s.path...), o)
					queue = append(queue, st{np})
				}
			}
		}
	}
	w.Notes["exhaustive "+k.label] = fmt.Sprintf("universe %d keys: %d distinct states, %d transitions", U, len(seen), trans)
	if len(seen) >= maxStates {
		w.Notes["exhaustive "+k.label+" TRUNCATED"] = fmt.Sprintf("state cap %d reached: the implementation reaches more states than a correct tree has shapes", maxStates)
	}
	return trans
}

func contentsKey(m OMap) string {
	return fmt.Sprint(m.Keys()) // values are fresh per step: not part of the state key
}

// ---------------- tree set ----------------
func setCase(w *vhlib.Writer, safe bool, prof string, rng *vhlib.Rng, n int, malformed bool) {
	ops := profile(prof, rng, n)
	cfg := pickCfg(rng, maxAbsKey(ops, false))
	ops = spreadOps(ops, cfg, false)
	s := newSet(safe, cfg.f)
	label := "treeset"
	if safe {
		label = "treeset-safe"
	}
	curLabel = label + "/" + prof
	if malformed {
		curLabel = label + "/malformed"
	}
	r := &rec{}
	batchAdd, batchRem := []int{}, []int{}
	flush := func() {
		if len(batchAdd) > 0 || malformed && rng.Chance(1, 6) {
			b := append([]int{}, batchAdd...)
			batchAdd = batchAdd[:0]
			r.desc = append(r.desc, fmt.Sprint("Add", b))
			r.try("GS (SAdd "+zl(b)+")", "Add", func() string {
				if len(b) == 0 && rng.Bool() {
					s.Add() // empty batch
				} else if len(b) == 0 {
					var nilSlice []int
					s.Add(nilSlice...)
				} else {
					s.Add(b...)
				}
				return "CAdd " + zl(b)
			})
		}
		if len(batchRem) > 0 || malformed && rng.Chance(1, 6) {
			b := append([]int{}, batchRem...)
			batchRem = batchRem[:0]
			r.desc = append(r.desc, fmt.Sprint("Remove", b))
			r.try("GS (SRemove "+zl(b)+")", "Remove", func() string {
				if len(b) == 0 {
					s.Remove()
				} else {
					s.Remove(b...)
				}
				return "CSRemove " + zl(b)
			})
		}
	}
	battery := func() {
		var vals []int
		r.try("GS SValues", "Values", func() string { vals = s.Values(); return fmt.Sprintf("C1 (GS SValues) (RS (SOVals %s))", zl(vals)) })
		r.try("GS SSize", "Size", func() string { return fmt.Sprintf("C1 (GS SSize) (RS (SOSize %s))", zi(s.Size())) })
		r.try("GS SEmpty", "Empty", func() string { return fmt.Sprintf("C1 (GS SEmpty) (RS (SOBool %s))", vhlib.Bool(s.Empty())) })
		ps := probesFor(rng, vals, 16)
		r.try("GS SSize", "Contains", func() string {
			bs := make([]bool, len(ps))
			for i, p := range ps {
				bs[i] = s.Contains(p)
			}
			return fmt.Sprintf("CContains %s %s", zl(ps), bl(bs))
		})
		// multi-argument Contains: all present / one absent / empty argument list / a present item repeated
		if len(vals) > 0 {
			v := vals[rng.Intn(len(vals))]
			rep := []int{v, v, v}
			r.try("GS (SContains "+zl(rep)+")", "Contains", func() string {
				return fmt.Sprintf("C1 (GS (SContains %s)) (RS (SOBool %s))", zl(rep), vhlib.Bool(s.Contains(rep...)))
			})
		}
		for j := 0; j < 3; j++ {
			var q []int
			for i := 0; i < j+1 && len(vals) > 0; i++ {
				q = append(q, vals[rng.Intn(len(vals))])
			}
			if j == 1 && len(ps) > 0 {
				q = append(q, ps[rng.Intn(len(ps))])
			}
			if j == 2 && malformed {
				q = nil
			}
			qq := q
			r.try("GS (SContains "+zl(qq)+")", "Contains", func() string {
				return fmt.Sprintf("C1 (GS (SContains %s)) (RS (SOBool %s))", zl(qq), vhlib.Bool(s.Contains(qq...)))
			})
		}
	}
	every := len(ops)/3 + 1
	for i, o := range ops {
		switch o.kind {
		case 0:
			if len(batchRem) > 0 {
				flush()
			}
			batchAdd = append(batchAdd, o.k)
		case 1:
			if len(batchAdd) > 0 {
				flush()
			}
			batchRem = append(batchRem, o.k)
		default:
			flush()
			r.desc = append(r.desc, "Clear")
			r.try("GS SClear", "Clear", func() string { s.Clear(); return "CSClear" })
		}
		if len(batchAdd)+len(batchRem) >= 1+rng.Intn(4) {
			flush()
			r.try("GS SSize", "Size", func() string { return fmt.Sprintf("C1 (GS SSize) (RS (SOSize %s))", zi(s.Size())) })
			r.try("GS SEmpty", "Empty", func() string { return fmt.Sprintf("C1 (GS SEmpty) (RS (SOBool %s))", vhlib.Bool(s.Empty())) })
			r.try("GS SValues", "len(Values)", func() string { return "CKeysLen " + zi(len(s.Values())) })
		}
		if (i+1)%every == 0 || i == len(ops)-1 {
			flush()
			battery()
		}
		if r.dead {
			break
		}
	}
	lab := label + "/" + prof
	if malformed {
		lab = label + "/malformed"
	}
	emitCase(w, "KTSet", cfg, lab, r, len(ops) >= 2)
}

// ---------------- tree bidi map ----------------
// every key (value) present, the zero key (value), and a few neighbours
func bidiProbes(rng *vhlib.Rng, sorted []int) []int {
	seen := map[int]bool{}
	var ps []int
	add := func(p int) {
		if !seen[p] {
			seen[p] = true
			ps = append(ps, p)
		}
	}
	add(0)
	for i, k := range sorted {
		if i < 24 {
			add(k)
		}
	}
	for _, p := range probesFor(rng, sorted, 6) {
		add(p)
	}
	return ps
}

func bidiCase(w *vhlib.Writer, safe bool, prof string, rng *vhlib.Rng, n int, exhaustivePath []mop, fixed *cmpCfg, batteryFrom int) {
	label := "treebidimap"
	if safe {
		label = "treebidimap-safe"
	}
	curLabel = label + "/" + prof
	r := &rec{}
	var ops []mop
	if exhaustivePath != nil {
		ops = exhaustivePath
	} else {
		base := profile(prof, rng, n)
		// values from a small universe 0..u-1 so that Put hits every overwrite pattern (same key, same value, both);
		// value 0 (the Go zero value, what Get returns for an absent key) is bound often and stays 0 under every
		// spread. Repetition / absent-key patterns are woven in: double Remove, Remove of a key that was never put,
		// the identical Put twice, re-binding a key from and to the zero value.
		u := n/6 + 2
		for _, o := range base {
			if o.kind == 0 && prof != "extreme-ints" {
				o.v = rng.Intn(u)
				if rng.Chance(1, 4) {
					o.v = 0
				}
			}
			ops = append(ops, o)
			switch {
			case o.kind == 1 && rng.Chance(1, 3):
				ops = append(ops, o) // the same Remove again
			case o.kind == 1 && rng.Chance(1, 4):
				ops = append(ops, mop{1, o.k + 7777, 0}) // never put
			case o.kind == 0 && rng.Chance(1, 5):
				ops = append(ops, o) // the identical pair again
			case o.kind == 0 && prof != "extreme-ints" && rng.Chance(1, 5):
				ops = append(ops, mop{0, o.k, 0}, mop{0, o.k, 1 + rng.Intn(u)}) // to the zero value and away from it
			}
		}
	}
	// keys AND values go through the comparator in a bidi-map: both are spread
	var cfg cmpCfg
	if fixed != nil {
		cfg = *fixed
	} else {
		cfg = pickCfg(rng, maxAbsKey(ops, true))
	}
	ops = spreadOps(ops, cfg, true)
	b := newBidi(safe, cfg.f)
	battery := func() {
		var ks, vs []int
		r.try("GB BKeys", "Keys", func() string { ks = b.Keys(); return fmt.Sprintf("C1 (GB BKeys) (RB (BOKeys %s))", zl(ks)) })
		r.try("GB BValues", "Values", func() string { vs = b.Values(); return fmt.Sprintf("C1 (GB BValues) (RB (BOVals %s))", zl(vs)) })
		r.try("GB BSize", "Size", func() string { return fmt.Sprintf("C1 (GB BSize) (RB (BOSize %s))", zi(b.Size())) })
		r.try("GB BEmpty", "Empty", func() string { return fmt.Sprintf("C1 (GB BEmpty) (RB (BOBool %s))", vhlib.Bool(b.Empty())) })
		sk := append([]int{}, ks...)
		sort.Ints(sk)
		sv := append([]int{}, vs...)
		sort.Ints(sv)
		pk := bidiProbes(rng, sk)
		pv := bidiProbes(rng, sv)
		r.try("GB BSize", "Get", func() string {
			ov := make([]int, len(pk))
			of := make([]bool, len(pk))
			for i, p := range pk {
				ov[i], of[i] = b.Get(p)
			}
			return fmt.Sprintf("CBGets %s %s %s", zl(pk), zl(ov), bl(of))
		})
		r.try("GB BSize", "GetKey", func() string {
			ok := make([]int, len(pv))
			of := make([]bool, len(pv))
			for i, p := range pv {
				ok[i], of[i] = b.GetKey(p)
			}
			return fmt.Sprintf("CBGetKeys %s %s %s", zl(pv), zl(ok), bl(of))
		})
	}
	every := len(ops)/3 + 1
	if exhaustivePath != nil {
		every = 1 << 30
	}
	for i, o := range ops {
		oo := o
		r.desc = append(r.desc, o.coq())
		switch o.kind {
		case 0:
			r.try(fmt.Sprintf("GB (BPut %s %s)", zi(o.k), zi(o.v)), "Put", func() string { b.Put(oo.k, oo.v); return "CBPut " + zi(oo.k) + " " + zi(oo.v) })
		case 1:
			r.try(fmt.Sprintf("GB (BRemove %s)", zi(o.k)), "Remove", func() string { b.Remove(oo.k); return "CBRemove " + zi(oo.k) })
		default:
			r.try("GB BClear", "Clear", func() string { b.Clear(); return "CBClear" })
		}
		if exhaustivePath == nil {
			r.try("GB BSize", "Size", func() string { return fmt.Sprintf("C1 (GB BSize) (RB (BOSize %s))", zi(b.Size())) })
			r.try("GB BEmpty", "Empty", func() string { return fmt.Sprintf("C1 (GB BEmpty) (RB (BOBool %s))", vhlib.Bool(b.Empty())) })
			r.try("GB BKeys", "len(Keys)", func() string { return "CKeysLen " + zi(len(b.Keys())) })
		}
		// both directions after every operation (short sequences and the tail of exhaustive words), else at checkpoints
		if len(ops) <= 120 && exhaustivePath == nil || exhaustivePath != nil && i >= batteryFrom || (i+1)%every == 0 || i == len(ops)-1 {
			battery()
		}
		if r.dead {
			break
		}
	}
	lab := label + "/" + prof
	emitCase(w, "KBidi", cfg, lab, r, len(ops) >= 2)
}

// all Put words of a given length over keys {0..u-1} x values {0..u-1} (0 = the Go zero value on both sides, under
// every spread), each followed by one of: Remove of key i in 0..u (u is never present), the same Remove twice,
// the last Put repeated; full battery in both directions after the last Put and after every suffix operation
func bidiExhaustive(w *vhlib.Writer, safe bool, rng *vhlib.Rng, u, length int) {
	n := u * u
	total := 1
	for i := 0; i < length; i++ {
		total *= n
	}
	for word := 0; word < total; word++ {
		var path []mop
		x := word
		for i := 0; i < length; i++ {
			c := x % n
			x /= n
			path = append(path, mop{0, c / u, c % u})
		}
		switch sfx := (word / 7) % (u + 3); {
		case sfx <= u:
			path = append(path, mop{1, sfx, 0})
		case sfx == u+1:
			k := word % (u + 1)
			path = append(path, mop{1, k, 0}, mop{1, k, 0})
		default:
			path = append(path, path[length-1], mop{1, u, 0})
		}
		cfg := cmpCfgs[word%len(cmpCfgs)]
		bidiCase(w, safe, "exhaustive", rng, 0, path, &cfg, length-1)
	}
}

const c01Rule = "one case = one container (red-black tree, AVL tree, B-tree of order m, treemap, treeset, treebidimap, plain or Safe* wrapper) " +
	"and a sequence of API calls with everything they returned; exhaustive cases = every distinct reachable state over a small key universe x every " +
	"next Put/Remove followed by the full query battery (Get/Floor/Ceiling of every key and gap, Size, Empty, Keys, Values, Left/Right or Min/Max, GetKey); " +
	"profile cases = seeded sequences (ascending, descending, zig-zag, duplicate-heavy, delete-heavy, churn, zero values, extreme integers, clear-reuse, " +
	"malformed = empty/nil batches) with Get+Size after every mutation and the battery at checkpoints; distinct = distinct case terms; " +
	"non-trivial = at least two mutating calls"

func runC01(o vhlib.Opts) {
	rng := vhlib.NewRng(o.Seed)
	shardSize := 150
	if o.Thorough() {
		shardSize = 100
	}
	w := vhlib.NewWriter(o.Out, "From VF Require Import Common.Base C01.CmpSel C01.SortedMap C01.Check.\nLocal Open Scope Z_scope.", "case", "mismatches", shardSize)
	thorough := o.Thorough()
	startWatchdog(w, o, c01Rule)

	kinds := mapKinds()
	orders := []int{3, 4, 5, 6, 7, 8, 9, 16, 64}
	for _, m := range orders {
		kinds = append(kinds, btKind(m, false))
	}
	kinds = append(kinds, btKind(3, true), btKind(5, true))

	if thorough {
		// long sequences (10^3 .. 10^4 keys), light queries, sparse batteries; spread between the small cases
		spread.every = 400
		for _, k := range kinds {
			for _, prof := range []string{"ascending", "zigzag", "churn", "delete-heavy"} {
				kk, pp, rr := k, prof, rng.Fork()
				n := 2500
				if (k.label == "rb" || k.label == "avl" || k.label == "bt4" || k.label == "bt64") && prof != "zigzag" {
					n = 12000
				}
				spread.add(func() { mapProfileCase(w, kk, pp, rr, n, 40) })
			}
		}
	}
	// 1. bounded-exhaustive: every distinct state x every next operation
	exU := map[string]int{"rb": 5, "avl": 5, "bt3": 5, "bt4": 5, "bt5": 6, "bt6": 5, "treemap": 4, "rb-safe": 3, "avl-safe": 3, "bt3-safe": 4, "treemap-safe": 3}
	if thorough {
		exU = map[string]int{"rb": 7, "avl": 7, "bt3": 8, "bt4": 8, "bt5": 8, "bt6": 8, "bt7": 8, "treemap": 6, "rb-safe": 5, "avl-safe": 5, "bt3-safe": 6, "bt5-safe": 6, "treemap-safe": 5}
	}
	maxStates := 300 // a correct tree has at most 72 distinct states over these universes
	if thorough {
		maxStates = 3000
	}
	for _, k := range kinds {
		if u, ok := exU[k.label]; ok {
			mapExhaustive(w, k, contentsOrShapeKey(k), u, maxStates)
		}
	}
	// 2. profiled random sequences
	reps, n, pn := 1, 60, 10
	if thorough {
		reps, n, pn = 6, 400, 24
	}
	// a container and its Safe* wrapper run the SAME traces (same seed per base container, profile, repetition)
	seeds := map[string]uint64{}
	seedFor := func(label, prof string, rep int) *vhlib.Rng {
		key := fmt.Sprintf("%s/%s/%d", strings.TrimSuffix(label, "-safe"), prof, rep)
		if _, ok := seeds[key]; !ok {
			seeds[key] = rng.U64()
		}
		return vhlib.NewRng(seeds[key])
	}
	for _, k := range kinds {
		for _, prof := range profileNames {
			for rep := 0; rep < reps; rep++ {
				nn := n
				if prof == "extreme-ints" {
					nn = n / 3
				}
				if rep%2 == 1 {
					nn = n / 4
				}
				mapProfileCase(w, k, prof, seedFor(k.label, prof, rep), nn, pn)
			}
		}
	}
	// 3. tree set and tree bidi map (plain and Safe*)
	for _, safe := range []bool{false, true} {
		for _, prof := range profileNames {
			for rep := 0; rep < reps; rep++ {
				setCase(w, safe, prof, seedFor("treeset", prof, rep), n, false)
				bidiCase(w, safe, prof, seedFor("treebidimap", prof, rep), n, nil, nil, 0)
			}
		}
		for rep := 0; rep < 4*reps; rep++ {
			setCase(w, safe, "churn", seedFor("treeset-malformed", "churn", rep), n/2, true)
		}
	}
	bidiExhaustive(w, false, rng, 3, 3)
	if thorough {
		bidiExhaustive(w, false, rng, 3, 4)
		bidiExhaustive(w, true, rng, 3, 3)
	} else {
		bidiExhaustive(w, true, rng, 2, 3)
	}
	spread.drain()
	w.Close(o, c01Rule)
}

// canonical state key: the shape dump where the tree is reachable, else the contents
func contentsOrShapeKey(k mapKind) func(OMap) string {
	return func(m OMap) string {
		switch a := m.(type) {
		case rbA:
			return dumpKey(dumpRB(a.t))
		case avlA:
			return dumpKey(dumpAVL(a.t))
		case btA:
			return dumpKey(dumpBT(a.t))
		}
		return contentsKey(m)
	}
}
