// C02 stream: shape of the three balanced trees after every Put/Remove.
package main

import (
	"fmt"

	"vh/vhlib"
)

func z64l(vs []int64) string {
	it := make([]string, len(vs))
	for i, v := range vs {
		it[i] = vhlib.Z(v)
	}
	return coqList(it)
}

type c02step struct {
	pre   []mop
	o     mop
	dump  []int64
	size  int
	empty bool
	nkeys int
	panic bool
}

// observe: dump + Size() + Empty() + len(Keys()) of the real tree
func (st *c02step) observe(t DTree) {
	st.dump = t.Dump()
	st.size = t.Size()
	st.empty = t.Empty()
	st.nkeys = len(t.Keys())
}

func c02Term(kindCoq string, c cmpCfg, path []mop, branch bool, steps []c02step) string {
	ps := make([]string, len(path))
	for i, o := range path {
		ps[i] = o.coq()
	}
	ss := make([]string, len(steps))
	for i, s := range steps {
		pre := make([]string, len(s.pre))
		for j, o := range s.pre {
			pre[j] = o.coq()
		}
		d := z64l(s.dump)
		if s.panic {
			d = "[-1]"
		}
		ss[i] = fmt.Sprintf("(%s, %s, %s, %s, %s, %s)", coqList(pre), s.o.coq(), d, zi(s.size), vhlib.Bool(s.empty), zi(s.nkeys))
	}
	return fmt.Sprintf("{| c_kind := %s; c_cmp := %s; c_path := %s; c_branch := %s; c_steps := %s |}",
		kindCoq, c.coq, coqList(ps), vhlib.Bool(branch), coqList(ss))
}

func applyOp(t DTree, o mop) {
	switch o.kind {
	case 0:
		t.Put(o.k, o.v)
	case 1:
		t.Remove(o.k)
	default:
		t.Clear()
	}
}

func opWords(ops []mop) []string {
	r := make([]string, len(ops))
	for i, o := range ops {
		r[i] = o.coq()
	}
	return r
}

// every reachable shape x every next operation: BFS keyed by canonical dump; one case per shape
func shapeBFS(w *vhlib.Writer, k treeKind, U int, maxStates int) {
	curLabel = k.label + "/shapes"
	// shapes are discovered on a reference instance (built-in comparator, dense keys 1..U); the recorded run of
	// each shape uses the next comparator shape / key spread of the rotation
	seen := map[string]bool{}
	{
		t := k.mk(plainCfg.f)
		seen[dumpKey(t.Dump())] = true
	}
	queue := [][]mop{nil}
	trans := 0
	stateNo := 0
	for len(queue) > 0 {
		path := queue[0]
		queue = queue[1:]
		cfg := cmpCfgs[stateNo%len(cmpCfgs)]
		stateNo++
		spath := spreadOps(path, cfg, false)
		var steps []c02step
		var labels []string
		for kk := 1; kk <= U; kk++ {
			for _, kind := range []int{0, 1} {
				o := mop{kind, kk - 1, kk} // universe keys 0..U-1: the zero key included
				so := spreadOps([]mop{o}, cfg, false)[0]
				t := k.mk(cfg.f)
				st := c02step{o: so}
				p, _ := guard(so.coq(), opWords(spath), func() {
					for _, po := range spath {
						applyOp(t, po)
					}
					applyOp(t, so)
					st.observe(t)
				})
				st.panic = p
				steps = append(steps, st)
				labels = append(labels, o.label())
				trans++
				var key string
				if rp, _ := guard("reference replay", opWords(path), func() {
					ref := k.mk(plainCfg.f)
					for _, po := range path {
						applyOp(ref, po)
					}
					applyOp(ref, o)
					key = dumpKey(ref.Dump())
				}); rp {
					continue
				}
				if !seen[key] && len(seen) < maxStates {
					seen[key] = true
					queue = append(queue, append(append([]mop{}, path...), o))
				}
			}
		}
		w.Case(c02Term(k.coq, cfg, spath, true, steps), k.label+"/shapes", true, labels,
			map[string]interface{}{"tree": k.label, "comparator": cfg.coq, "path": opWords(spath), "then": "every Put/Remove over the universe", "universe": U, "spread": cfg.spread})
		w.Dist["comparator "+cfg.coq]++
		spread.tick()
	}
	w.Notes["shapes "+k.label] = fmt.Sprintf("universe 1..%d: %d reachable shapes, %d transitions", U, len(seen), trans)
	if len(seen) >= maxStates {
		w.Notes["shapes "+k.label+" TRUNCATED"] = fmt.Sprintf("state cap %d reached: the implementation reaches more states than a correct tree has shapes", maxStates)
	}
}

// profiled random sequence; dump after every operation (dense) or after every 2^j-th operation (sparse)
func shapeProfile(w *vhlib.Writer, k treeKind, prof string, rng *vhlib.Rng, n int, dense bool) {
	ops := profile(prof, rng, n)
	curLabel = k.label + "/" + prof
	cfg := pickCfg(rng, maxAbsKey(ops, false))
	ops = spreadOps(ops, cfg, false)
	t := k.mk(cfg.f)
	var steps []c02step
	var labels []string
	var pre []mop
	next := 1
	for i, o := range ops {
		if !dense && i+1 != next && i != len(ops)-1 {
			p, _ := guard(o.coq(), fmt.Sprintf("operation %d of the sequence", i), func() { applyOp(t, o) })
			if !p {
				pre = append(pre, o)
				continue
			}
			// panic in an unrecorded step: record it
			steps = append(steps, c02step{pre: pre, o: o, panic: true})
			labels = append(labels, o.label())
			break
		}
		if i+1 == next {
			next *= 2
		}
		st := c02step{pre: pre, o: o}
		pre = nil
		p, _ := guard(o.coq(), fmt.Sprintf("operation %d of the sequence", i), func() {
			applyOp(t, o)
			st.observe(t)
		})
		st.panic = p
		steps = append(steps, st)
		labels = append(labels, o.label())
		if p {
			break
		}
	}
	w.Case(c02Term(k.coq, cfg, nil, false, steps), k.label+"/"+prof, len(ops) >= 2, labels,
		map[string]interface{}{"tree": k.label, "comparator": cfg.coq, "ops": opWords(ops)})
	w.Dist["comparator "+cfg.coq]++
}

const c02Rule = "one case = one tree (red-black, AVL, B-tree of order m); shapes cases = one reachable shape (BFS over canonical dumps of the real tree over a " +
	"small key universe) with EVERY next Put/Remove applied to it, each followed by a full pre-order dump (key, colour | balance factor | node entries, " +
	"children, parent key) and Size(); profile cases = seeded sequences with a dump after every operation (dense) or after every 2^j-th operation (large trees); " +
	"distinct = distinct case terms; non-trivial = at least two operations"

func runC02(o vhlib.Opts) {
	rng := vhlib.NewRng(o.Seed)
	shardSize := 60
	if o.Thorough() {
		shardSize = 40
	}
	w := vhlib.NewWriter(o.Out, "From VF Require Import Common.Base C01.CmpSel C01.SortedMap C02.Check.\nLocal Open Scope Z_scope.", "case", "mismatches", shardSize)
	thorough := o.Thorough()
	startWatchdog(w, o, c02Rule)
	orders := []int{3, 4, 5, 6, 7, 8, 9, 16, 64}
	kinds := treeKinds(orders)
	u := map[string]int{"rb": 6, "avl": 6, "bt3": 7, "bt4": 6, "bt5": 7, "bt6": 7}
	if thorough {
		u = map[string]int{"rb": 9, "avl": 8, "bt3": 11, "bt4": 10, "bt5": 10, "bt6": 10, "bt7": 9}
	}
	// larger trees, invariant evaluated on the dump after every 2^j-th operation; in the thorough tier these big
	// cases are spread between the small ones
	big := 600
	if thorough {
		big = 3000
		spread.every = 150
	}
	for _, k := range kinds {
		for _, prof := range []string{"ascending", "descending", "zigzag", "churn", "delete-heavy"} {
			kk, pp, rr := k, prof, rng.Fork()
			n := big
			if thorough && (k.label == "rb" || k.label == "avl" || k.label == "bt4" || k.label == "bt64") && (prof == "ascending" || prof == "churn") {
				n = 20000
			}
			if thorough {
				spread.add(func() { shapeProfile(w, kk, pp, rr, n, false) })
			} else {
				shapeProfile(w, kk, pp, rr, n, false)
			}
		}
	}
	capStates := 600 // a correct tree has at most 295 shapes over the quick universes
	if thorough {
		capStates = 12000
	}
	for _, k := range kinds {
		if uu, ok := u[k.label]; ok {
			shapeBFS(w, k, uu, capStates)
		}
	}
	reps, n := 1, 40
	if thorough {
		reps, n = 4, 150
	}
	for _, k := range kinds {
		for _, prof := range profileNames {
			for rep := 0; rep < reps; rep++ {
				nn := n
				if prof == "extreme-ints" {
					nn = n / 2
				}
				shapeProfile(w, k, prof, rng.Fork(), nn, true)
				spread.tick()
			}
		}
	}
	spread.drain()
	w.Close(o, c02Rule)
}
