// C18 harness: runs the real app/bconcurrent combinators under randomised producers, consumers, buffer sizes
// and cancellation points and records only what each side of a channel observes on its own channel
// (DESIGN §4 C18): per input channel what the producer managed to hand over, per output channel what the
// consumer received and whether it saw the close, and whether cancel() had been called before the close was
// seen. Coq (C18.Check.mismatches) decides every run by the boolean twin of the relation proved of the
// transition systems. Goroutine leaks are decided here (runtime.NumGoroutine must settle back to the level
// before each batch) and reported with Writer.Violation.
package main

import (
	"context"
	"fmt"
	"runtime"
	"sync"
	"sync/atomic"
	"time"

	bc "github.com/songzhibin97/go-baseutils/app/bconcurrent"

	"vh/vhlib"
)

const closeDeadline = 6 * time.Second // generous: the machine is shared; a correct combinator closes in microseconds
const settleDeadline = 3 * time.Second

// unclosed counts the runs of the current batch whose output was not closed within closeDeadline; once a batch has
// produced 8 of them the verdict is settled and the remaining runs of that batch wait 1 s only (keeps a failing tree fast)
var unclosed atomic.Int32

func deadlineNow() time.Duration {
	if unclosed.Load() >= 8 {
		return time.Second
	}
	return closeDeadline
}

// ---------- predicates / functions handed to the combinators (mirrored by C18.Check.pred) ----------

type pred struct{ kind, m, r, c int }

func (p pred) eval(v int) bool {
	switch p.kind {
	case 0:
		return true
	case 1:
		return false
	case 2:
		return v%p.m == p.r // values are non-negative, m > 0: same as Coq's mod
	default:
		return v < p.c
	}
}
func (p pred) coq() string {
	switch p.kind {
	case 0:
		return "PTrue"
	case 1:
		return "PFalse"
	case 2:
		return fmt.Sprintf("(PModEq %d %d)", p.m, p.r)
	default:
		return fmt.Sprintf("(PLt %d)", p.c)
	}
}
func genPred(r *vhlib.Rng) pred {
	switch r.Intn(8) {
	case 0:
		return pred{kind: 0}
	case 1:
		return pred{kind: 1}
	case 2, 3, 4:
		m := r.Range(2, 4)
		return pred{kind: 2, m: m, r: r.Intn(m)}
	default:
		return pred{kind: 3, c: r.Range(0, 12)}
	}
}

func delay(r *vhlib.Rng) {
	switch r.Intn(10) {
	case 0, 1, 2, 3, 4:
	case 5, 6:
		runtime.Gosched()
	case 7, 8:
		time.Sleep(time.Duration(r.Range(5, 120)) * time.Microsecond)
	default:
		time.Sleep(time.Duration(r.Range(100, 900)) * time.Microsecond)
	}
}

func genValues(r *vhlib.Rng) []int {
	n := r.Range(0, 8)
	vs := make([]int, n)
	switch r.Intn(4) {
	case 0: // ascending distinct
		for i := range vs {
			vs[i] = i + 1
		}
	case 1: // duplicate-heavy
		for i := range vs {
			vs[i] = r.Intn(3)
		}
	case 2: // zero values included
		for i := range vs {
			vs[i] = r.Intn(2) * r.Intn(15)
		}
	default:
		for i := range vs {
			vs[i] = r.Intn(15)
		}
	}
	return vs
}

// ---------- one-input one-output stages ----------

type stageCase struct {
	name    string // combinator = case label
	coq     string // C18.Check.comb term
	aware   bool
	nilIn   bool
	planned []int
	incap   int
	mode    int // cancellation: 0 never, 1 consumer after k outputs, 2 producer after k hand-overs, 3 timer, 4 before start,
	// 5 producer hands over k values, goes silent for ever (never closes), then cancel: the stage is blocked on a RECEIVE site
	// 7 producer hands over exactly the elements the combinator needs to complete its output (TaskN: n, TaskWhile: up to
	// its first match) and then stays OPEN AND IDLE for ever, no cancel: the output must be closed all the same
	apply    func([]int) []int // Go-side reference of the combinator's list function (only used to place the abandon scenario)
	abandonJ int               // >= 0: abandon scenario (runAbandon): the consumer reads exactly j values and never reads again
	need     int               // abandon: inputs to hand over so that output j+1 is pending at a SEND site
	k       int
	pause   bool
	which   int
	n       int  // TaskN / SkipN argument as passed
	p       pred // predicate of TaskFn / TaskWhile / SkipFn / SkipWhile
	ma, mb  int  // MapChan: fn v = ma*v + mb
	ptr     bool // element type *int instead of int: the user function dereferences its argument; a fabricated zero value is nil
	pre     int  // state of the input channel at the moment the combinator is called: 0 open and empty (producer starts at once),
	// 1 already closed and empty, 2 already closed with all its values buffered, 3 open with k values already buffered,
	// 4 open, unbuffered or not, with a producer that has not started yet
	resume  bool // abandon scenario, second flavour: after the cancel the consumer reads on and the producer keeps feeding
	ctxKind int  // mode 4: 0 = cancel() called before the combinator, 1 = a context whose deadline has already passed
	mu      sync.Mutex
	calls   []int // arguments the user function was called with, in call order (sentinel = nil pointer / panic on dereference)
	seed    uint64
	// observations
	ins, outs         []int
	closed, cancelled bool
	cancelToClose     time.Duration // how long after cancel() the close was seen (evidence only)
}

func genStage(r *vhlib.Rng, which int) *stageCase {
	c := &stageCase{planned: genValues(r), incap: []int{0, 0, 0, 1, 2, 3}[r.Intn(6)], seed: r.U64()}
	n := r.Range(-1, len(c.planned)+2) // malformed: negative and beyond the length
	nn := n
	if nn < 0 {
		nn = 0 // for i := 0; i < num: a negative num behaves as 0
	}
	p := genPred(r)
	c.abandonJ = -1
	filt := func(keep func(int) bool) func([]int) []int {
		return func(vs []int) []int {
			var o []int
			for _, v := range vs {
				if keep(v) {
					o = append(o, v)
				}
			}
			return o
		}
	}
	switch which {
	case 0:
		c.apply = func(vs []int) []int { return vs }
	case 1:
		c.apply = func(vs []int) []int {
			if nn < len(vs) {
				return vs[:nn]
			}
			return vs
		}
	case 2:
		c.apply = filt(p.eval)
	case 3:
		c.apply = func(vs []int) []int {
			for _, v := range vs {
				if p.eval(v) {
					return []int{v}
				}
			}
			return nil
		}
	case 4:
		c.apply = func(vs []int) []int {
			if nn < len(vs) {
				return vs[nn:]
			}
			return nil
		}
	case 5:
		c.apply = filt(func(v int) bool { return !p.eval(v) })
	case 6:
		c.apply = func(vs []int) []int {
			for i, v := range vs {
				if !p.eval(v) {
					return vs[i:]
				}
			}
			return nil
		}
	}
	c.which, c.n, c.p = which, n, p
	c.ptr = r.Chance(1, 3)
	c.ctxKind = r.Intn(2)
	switch which {
	case 0:
		c.name, c.coq, c.aware = "Stream", "CStream", true
	case 1:
		c.name, c.coq, c.aware = "TaskN", fmt.Sprintf("(CTaskN %s)", vhlib.Nat(nn)), true
	case 2:
		c.name, c.coq, c.aware = "TaskFn", fmt.Sprintf("(CTaskFn %s)", p.coq()), true
	case 3:
		c.name, c.coq, c.aware = "TaskWhile", fmt.Sprintf("(CTaskWhile %s)", p.coq()), true
	case 4:
		c.name, c.coq, c.aware = "SkipN", fmt.Sprintf("(CSkipN %s)", vhlib.Nat(nn)), true
	case 5:
		c.name, c.coq, c.aware = "SkipFn", fmt.Sprintf("(CSkipFn %s)", p.coq()), true
	case 6:
		c.name, c.coq, c.aware = "SkipWhile", fmt.Sprintf("(CSkipWhile %s)", p.coq()), true
	case 7:
		c.ma, c.mb = r.Range(-3, 3), r.Range(-5, 5)
		c.name, c.coq = "MapChan", fmt.Sprintf("(CMapChan %s %s)", vhlib.Z(int64(c.ma)), vhlib.Z(int64(c.mb)))
		c.nilIn = r.Chance(1, 12)
	default:
		c.name, c.coq = "Pipeline", "CPipeline"
	}
	if c.aware {
		switch r.Intn(12) {
		case 0, 1, 2, 3:
			c.mode = 0
		case 4, 5:
			c.mode, c.k = 1, r.Range(0, len(c.planned))
		case 6, 7:
			c.mode, c.k = 2, r.Range(0, len(c.planned))
		case 8:
			c.mode = 3
		case 9:
			c.mode = 4
		default:
			c.mode, c.k = 5, r.Range(0, len(c.planned))
			if which == 0 { // Stream has no input channel
				c.mode = 1
			}
		}
		c.pause = r.Chance(1, 3)
		if (which == 1 || which == 3) && r.Chance(1, 3) {
			// complete after m inputs? (TaskN: m = n <= len; TaskWhile: first match)
			m := -1
			if which == 1 && nn <= len(c.planned) {
				m = nn
			}
			if which == 3 {
				for i, v := range c.planned {
					if p.eval(v) {
						m = i + 1
						break
					}
				}
			}
			if m >= 0 {
				c.mode, c.k = 7, m
			}
		}
	}
	if which != 0 && !c.nilIn {
		switch r.Intn(12) {
		case 0, 1:
			c.pre, c.planned = 1, nil
		case 2, 3:
			c.pre = 2
		case 4, 5:
			c.pre = 3
		case 6:
			c.pre = 4
		}
		if c.pre == 1 || c.pre == 2 {
			c.incap = len(c.planned) + r.Intn(2) // everything is in the buffer before the call
			if c.mode == 2 || c.mode == 5 || c.mode == 7 {
				c.mode = 0 // no producer to drive those
			}
		}
	}
	if c.nilIn {
		c.planned = nil
	}
	return c
}

// sentinel stands for "not a value that was ever sent": a nil pointer handed to the user function or delivered
// to the consumer (a fabricated zero value of a pointer element type), or a dereference that panicked.
const sentinel = -1000000007

// codec: how the int values of a case travel through channels of element type T.
type codec[T any] struct {
	enc func(int) T
	dec func(T) int // total: sentinel for nil
}

var intCodec = codec[int]{enc: func(v int) int { return v }, dec: func(v int) int { return v }}
var ptrCodec = codec[*int]{
	enc: func(v int) *int { x := v; return &x },
	dec: func(p *int) (v int) {
		defer func() { // the user function dereferences its argument: a panic in the worker is recorded, not fatal
			if recover() != nil {
				v = sentinel
			}
		}()
		return *p
	},
}

func (c *stageCase) record(v int) {
	c.mu.Lock()
	c.calls = append(c.calls, v)
	c.mu.Unlock()
}

// mkStage builds the real combinator for element type T; every user function records the argument it was called with.
func mkStage[T any](c *stageCase, e codec[T], ctx context.Context, in chan T) <-chan T {
	predT := func(x T) bool {
		v := e.dec(x)
		c.record(v)
		if v == sentinel {
			return false
		}
		return c.p.eval(v)
	}
	switch c.which {
	case 0:
		vals := make([]T, len(c.planned))
		for i, v := range c.planned {
			vals[i] = e.enc(v)
		}
		return bc.Stream(ctx, vals...)
	case 1:
		return bc.TaskN[T](ctx, in, c.n)
	case 2:
		return bc.TaskFn[T](ctx, in, predT)
	case 3:
		return bc.TaskWhile[T](ctx, in, predT)
	case 4:
		return bc.SkipN[T](ctx, in, c.n)
	case 5:
		return bc.SkipFn[T](ctx, in, predT)
	case 6:
		return bc.SkipWhile[T](ctx, in, predT)
	case 7:
		fn := func(x T) T {
			v := e.dec(x)
			c.record(v)
			if v == sentinel {
				return x
			}
			return e.enc(c.ma*v + c.mb)
		}
		if in == nil {
			return bc.MapChan[T](nil, fn)
		}
		return bc.MapChan[T](in, fn)
	default:
		return bc.Pipeline[T](in)
	}
}

func (c *stageCase) run() {
	if c.ptr {
		runStage(c, ptrCodec)
	} else {
		runStage(c, intCodec)
	}
}

func (c *stageCase) runAbandon() bool {
	if c.ptr {
		return runAbandonG(c, ptrCodec)
	}
	return runAbandonG(c, intCodec)
}

func runStage[T any](c *stageCase, e codec[T]) {
	r := vhlib.NewRng(c.seed)
	rp, rc, rt := r.Fork(), r.Fork(), r.Fork()
	ctx, cancel := context.WithCancel(context.Background())
	defer cancel()
	var issued atomic.Bool
	var issuedAt atomic.Int64
	doCancel := func() { issued.Store(true); issuedAt.CompareAndSwap(0, time.Now().UnixNano()); cancel() }
	if c.mode == 4 {
		if c.ctxKind == 1 { // the earliest cancellation point: a context that has expired before the combinator is even called
			cancel()
			ctx, cancel = context.WithDeadline(context.Background(), time.Now().Add(-time.Second))
			defer cancel()
			issued.Store(true)
			issuedAt.Store(time.Now().UnixNano())
		} else {
			doCancel()
		}
	}
	var in chan T
	isStream := c.name == "Stream"
	if !c.nilIn && !isStream {
		in = make(chan T, c.incap)
	}
	handed := 0
	inClosed := false
	if in != nil {
		switch c.pre {
		case 1, 2: // closed (and, for 2, full) before the combinator exists
			for _, v := range c.planned {
				in <- e.enc(v)
				handed++
			}
			close(in)
			inClosed = true
		case 3: // some values are already waiting in the buffer
			for handed < len(c.planned) && handed < c.incap && !((c.mode == 5 || c.mode == 7) && handed == c.k) {
				in <- e.enc(c.planned[handed])
				handed++
			}
		}
	}
	out := mkStage(c, e, ctx, in)
	stop := make(chan struct{})
	var wg sync.WaitGroup
	if in != nil && !inClosed {
		wg.Add(1)
		go func() {
			defer wg.Done()
			if c.pre == 4 {
				time.Sleep(time.Duration(rp.Range(50, 600)) * time.Microsecond)
			}
			if c.mode == 2 && c.k == 0 {
				doCancel()
			}
			for _, v := range c.planned[handed:] {
				if (c.mode == 5 || c.mode == 7) && handed == c.k {
					break
				}
				delay(rp)
				select {
				case in <- e.enc(v):
					handed++
					if c.mode == 2 && handed == c.k {
						doCancel()
					}
				case <-stop:
					return
				}
			}
			if c.mode == 7 { // open and idle: nothing more is offered, nothing is closed, nobody cancels
				<-stop
				return
			}
			if c.mode == 5 { // silent producer: the input is never closed; only ctx can end the stage
				delay(rp)
				doCancel()
				<-stop
				return
			}
			close(in)
		}()
	}
	if c.mode == 3 {
		wg.Add(1)
		go func() {
			defer wg.Done()
			t := time.NewTimer(time.Duration(rt.Range(0, 800)) * time.Microsecond)
			defer t.Stop()
			select {
			case <-t.C:
				doCancel()
			case <-stop:
			}
		}()
	}
	dl := time.NewTimer(deadlineNow())
	defer dl.Stop()
loop:
	for {
		if c.mode == 1 && len(c.outs) == c.k && !issued.Load() {
			doCancel()
			if c.pause {
				time.Sleep(time.Duration(rc.Range(50, 400)) * time.Microsecond)
			}
		}
		delay(rc)
		select {
		case v, ok := <-out:
			if !ok {
				c.closed = true
				c.cancelled = issued.Load()
				if t := issuedAt.Load(); c.cancelled && t != 0 {
					c.cancelToClose = time.Duration(time.Now().UnixNano() - t)
				}
				break loop
			}
			c.outs = append(c.outs, e.dec(v))
		case <-dl.C:
			c.cancelled = issued.Load()
			unclosed.Add(1)
			break loop
		}
	}
	close(stop)
	wg.Wait()
	if isStream {
		c.ins = c.planned
		c.incap = len(c.planned)
	} else {
		c.ins = c.planned[:handed]
	}
}

// runAbandon: the blocked-on-SEND states of stage_cancel, one send site at a time. The consumer reads exactly
// abandonJ values and never reads again; the producer hands over exactly the inputs that make output abandonJ+1
// pending and goes silent; then cancel. Nobody will ever take the pending value, so only the ctx case of the
// send's select can end the goroutine: it must be gone (NumGoroutine back to the level before the run) within the
// deadline, and the output must then be closed. Runs sequentially on the calling goroutine (NumGoroutine is global).
// Returns true when the goroutine leaked.
func runAbandonG[T any](c *stageCase, e codec[T]) bool {
	r := vhlib.NewRng(c.seed)
	base := runtime.NumGoroutine()
	ctx, cancel := context.WithCancel(context.Background())
	defer cancel()
	isStream := c.name == "Stream"
	var in chan T
	if !isStream {
		in = make(chan T)
	}
	c.incap = 0
	out := mkStage(c, e, ctx, in)
	stop := make(chan struct{})
	handedAll := make(chan struct{})
	var wg sync.WaitGroup
	handed := 0
	if in != nil {
		wg.Add(1)
		go func() {
			defer wg.Done()
			for i, v := range c.planned {
				if i == c.need {
					close(handedAll)
					if !c.resume {
						<-stop
						return
					}
				}
				select {
				case in <- e.enc(v):
					handed++
				case <-stop:
					return
				}
			}
			if len(c.planned) == c.need {
				close(handedAll)
				if !c.resume {
					<-stop
					return
				}
			}
			close(in) // resume variant: the producer keeps feeding to the end
		}()
	} else {
		close(handedAll)
	}
	dl := time.NewTimer(deadlineNow())
	defer dl.Stop()
	early := false
	for len(c.outs) < c.abandonJ && !early {
		select {
		case v, ok := <-out:
			if !ok {
				early = true
				break
			}
			c.outs = append(c.outs, e.dec(v))
		case <-dl.C:
			early = true
		}
	}
	select {
	case <-handedAll:
	case <-dl.C:
	}
	switch r.Intn(4) { // let the stage reach its send (or not: a stage that is not there yet must honour ctx all the same)
	case 0:
	case 1:
		runtime.Gosched()
	default:
		time.Sleep(time.Duration(r.Range(5, 150)) * time.Microsecond)
	}
	cancel()
	c.cancelled = true
	if c.resume {
		// the consumer comes back at once and reads to the close while the producer keeps offering the rest: a stage
		// that dropped the pending value but kept working would now deliver a later one (a hole, not a prefix)
	again:
		for {
			select {
			case v, more := <-out:
				if !more {
					c.closed = true
					break again
				}
				c.outs = append(c.outs, e.dec(v))
			case <-dl.C:
				unclosed.Add(1)
				break again
			}
		}
	}
	close(stop)
	wg.Wait()
	_, ok := settle(base)
	if c.resume {
		if isStream {
			c.ins = c.planned
			c.incap = len(c.planned)
		} else {
			c.ins = c.planned[:handed]
		}
		return !ok
	}
	if ok { // the goroutine is gone: out must be closed by now; a goroutine that ended WITHOUT closing leaves a
		// channel on which a receive would block for ever, so look without blocking
	drain:
		for {
			select {
			case v, more := <-out:
				if !more {
					c.closed = true
					break drain
				}
				c.outs = append(c.outs, e.dec(v))
			default:
				break drain // not closed although its goroutine is gone: recorded as closed = false (kind 2)
			}
		}
	} else { // rescue the stuck sender so that later runs start from a clean level
		t := time.NewTimer(200 * time.Millisecond)
	rescue:
		for {
			select {
			case _, ok := <-out:
				if !ok {
					break rescue
				}
			case <-t.C:
				break rescue
			}
		}
		t.Stop()
		settle(base)
	}
	if isStream {
		c.ins = c.planned
		c.incap = len(c.planned)
	} else {
		c.ins = c.planned[:handed]
	}
	return !ok
}

// genAbandon draws a stage whose list function yields at least j+1 outputs on its planned input.
func genAbandon(r *vhlib.Rng, which int) *stageCase {
	for {
		c := genStage(r, which)
		outs := c.apply(c.planned)
		if len(outs) == 0 {
			continue
		}
		j := []int{0, 0, 0, 1, 1, 2, 3}[r.Intn(7)]
		if j >= len(outs) {
			j = len(outs) - 1
		}
		need := 0
		for need <= len(c.planned) && len(c.apply(c.planned[:need])) < j+1 {
			need++
		}
		c.abandonJ, c.need, c.mode, c.k = j, need, 6, j
		c.resume = r.Bool()
		return c
	}
}

func (c *stageCase) term() string {
	c.mu.Lock()
	calls := append([]int(nil), c.calls...)
	c.mu.Unlock()
	return fmt.Sprintf("KStage %s %s %s %s %s %s %s %s", c.coq, vhlib.Bool(c.nilIn), vhlib.Nat(c.incap),
		vhlib.IntList(c.ins), vhlib.IntList(c.outs), vhlib.Bool(c.closed), vhlib.Bool(c.cancelled), vhlib.IntList(calls))
}

// feed prepares an int input channel in a given state AT THE MOMENT THE COMBINATOR IS CALLED and returns the function
// that hands over the rest and closes (nil when nothing is left to do): pre = 0 open and empty, 1/2 already closed with
// everything (possibly nothing) buffered, 3 open with up to cap values already buffered, 4 open with a late producer.
func feed(pre int, planned []int, capacity int, rp *vhlib.Rng) (chan int, func()) {
	switch pre {
	case 1, 2:
		ch := make(chan int, len(planned)+capacity%2)
		for _, v := range planned {
			ch <- v
		}
		close(ch)
		return ch, nil
	case 3:
		ch := make(chan int, capacity)
		k := 0
		for k < len(planned) && k < capacity {
			ch <- planned[k]
			k++
		}
		return ch, func() {
			for _, v := range planned[k:] {
				delay(rp)
				ch <- v
			}
			close(ch)
		}
	default:
		ch := make(chan int, capacity)
		return ch, func() {
			if pre == 4 {
				time.Sleep(time.Duration(rp.Range(50, 600)) * time.Microsecond)
			}
			for _, v := range planned {
				delay(rp)
				ch <- v
			}
			close(ch)
		}
	}
}

func genPre(r *vhlib.Rng) int {
	switch r.Intn(12) {
	case 0, 1:
		return 1
	case 2, 3:
		return 2
	case 4, 5:
		return 3
	case 6:
		return 4
	}
	return 0
}

// streamReuse: Stream(ctx, values...) is handed the caller's slice itself: it must leave it untouched and a second
// Stream over the same slice must deliver the same sequence.
type streamReuseCase struct {
	vals, outs2        []int
	untouched, closed2 bool
}

func (c *streamReuseCase) run() {
	drain := func(out <-chan int) (vs []int, closed bool) {
		dl := time.NewTimer(deadlineNow())
		defer dl.Stop()
		for {
			select {
			case v, ok := <-out:
				if !ok {
					return vs, true
				}
				vs = append(vs, v)
			case <-dl.C:
				unclosed.Add(1)
				return vs, false
			}
		}
	}
	vals := append([]int(nil), c.vals...)
	ctx, cancel := context.WithCancel(context.Background())
	defer cancel()
	_, closed1 := drain(bc.Stream(ctx, vals...))
	c.untouched = len(vals) == len(c.vals)
	for i := range c.vals {
		if vals[i] != c.vals[i] {
			c.untouched = false
		}
	}
	if closed1 {
		c.outs2, c.closed2 = drain(bc.Stream(ctx, vals...))
	}
}

// ---------- fan-in ----------

type faninCase struct {
	merge   bool // MergeChannel(a, b) instead of FanInRec(channels...)
	planned [][]int
	isNil   []bool
	caps    []int
	seed    uint64
	pre     []int // per source: state of the channel at call time (see feed)
	ins     [][]int
	outs    []int
	closed  bool
	// argument re-use: the caller's channel slice after the call, and a second call with the same (by now closed) channels
	untouched bool
	outs2     []int
	closed2   bool
}

func genFanIn(r *vhlib.Rng, merge bool) *faninCase {
	c := &faninCase{merge: merge, seed: r.U64()}
	n := r.Range(0, 3)
	if merge {
		n = 2
	}
	for i := 0; i < n; i++ {
		vs := genValues(r)
		if len(vs) > 5 {
			vs = vs[:5]
		}
		if r.Chance(1, 3) { // make sources distinguishable
			for j := range vs {
				vs[j] = 100*(i+1) + j
			}
		}
		nilc := merge && r.Chance(1, 6)
		pre := genPre(r)
		if nilc || pre == 1 {
			vs = nil
		}
		c.pre = append(c.pre, pre)
		c.planned = append(c.planned, vs)
		c.isNil = append(c.isNil, nilc)
		c.caps = append(c.caps, []int{0, 0, 1, 2}[r.Intn(4)])
	}
	return c
}

func (c *faninCase) run() {
	r := vhlib.NewRng(c.seed)
	rc := r.Fork()
	n := len(c.planned)
	chans := make([]chan int, n)
	var wg sync.WaitGroup
	for i := 0; i < n; i++ {
		if c.isNil[i] {
			continue
		}
		var rest func() // fan-in has no cancellation: every value is eventually taken
		chans[i], rest = feed(c.pre[i], c.planned[i], c.caps[i], r.Fork())
		if rest != nil {
			wg.Add(1)
			go func() { defer wg.Done(); rest() }()
		}
	}
	var ro, roCopy []<-chan int
	var out <-chan int
	if c.merge {
		var a, b <-chan int
		if chans[0] != nil {
			a = chans[0]
		}
		if chans[1] != nil {
			b = chans[1]
		}
		out = bc.MergeChannel[int](a, b)
	} else {
		ro = make([]<-chan int, n)
		for i := range chans {
			ro[i] = chans[i]
		}
		roCopy = append([]<-chan int(nil), ro...)
		out = bc.FanInRec[int](ro...)
	}
	dl := time.NewTimer(closeDeadline)
	defer dl.Stop()
loop:
	for {
		delay(rc)
		select {
		case v, ok := <-out:
			if !ok {
				c.closed = true
				break loop
			}
			c.outs = append(c.outs, v)
		case <-dl.C:
			break loop
		}
	}
	if c.closed {
		wg.Wait()
	}
	c.ins = c.planned // closed: every source was drained; not closed: reported as a violation anyway
	c.untouched = true
	if !c.merge && c.closed {
		for i := range roCopy {
			if ro[i] != roCopy[i] {
				c.untouched = false
			}
		}
		// the same argument list once more: every channel is closed and empty by now
		out2 := bc.FanInRec[int](ro...)
		dl2 := time.NewTimer(deadlineNow())
		defer dl2.Stop()
	loop2:
		for {
			select {
			case v, ok := <-out2:
				if !ok {
					c.closed2 = true
					break loop2
				}
				c.outs2 = append(c.outs2, v)
			case <-dl2.C:
				unclosed.Add(1)
				break loop2
			}
		}
	}
}

func (c *faninCase) term() string {
	srcs := make([]string, len(c.ins))
	for i, s := range c.ins {
		srcs[i] = vhlib.IntList(s)
	}
	return fmt.Sprintf("KFanIn %s %s %s", vhlib.List(srcs), vhlib.IntList(c.outs), vhlib.Bool(c.closed))
}

// ---------- fan-out ----------

type fanoutCase struct {
	async   bool
	planned []int
	caps    []int
	seed    uint64
	outs    [][]int
	closed  []bool
	inDone  bool
	pre       int  // state of the input channel at call time
	untouched bool // the caller's out slice after the call
}

func genFanOut(r *vhlib.Rng, async bool) *fanoutCase {
	c := &fanoutCase{async: async, planned: genValues(r), seed: r.U64(), pre: genPre(r)}
	if c.pre == 1 {
		c.planned = nil
	}
	n := r.Range(0, 3)
	for i := 0; i < n; i++ {
		c.caps = append(c.caps, []int{0, 0, 1, 2}[r.Intn(4)])
	}
	return c
}

func (c *fanoutCase) run() {
	r := vhlib.NewRng(c.seed)
	n := len(c.caps)
	incap := []int{0, 0, 1, 2}[r.Intn(4)]
	var in chan int
	handed := 0
	switch c.pre {
	case 1, 2: // closed, with everything buffered, before FanOut is called
		in = make(chan int, len(c.planned)+incap%2)
		for _, v := range c.planned {
			in <- v
		}
		handed = len(c.planned)
		close(in)
	default:
		in = make(chan int, incap)
		if c.pre == 3 {
			for handed < len(c.planned) && handed < incap {
				in <- c.planned[handed]
				handed++
			}
		}
	}
	outs := make([]chan int, n)
	for i := range outs {
		outs[i] = make(chan int, c.caps[i])
	}
	outsCopy := append([]chan int(nil), outs...)
	c.outs = make([][]int, n)
	c.closed = make([]bool, n)
	bc.FanOut[int](in, outs, c.async)
	var wg sync.WaitGroup
	var pdone atomic.Bool
	if c.pre == 1 || c.pre == 2 {
		pdone.Store(true)
	} else {
		wg.Add(1)
		go func(rp *vhlib.Rng) {
			defer wg.Done()
			dl := time.NewTimer(closeDeadline)
			defer dl.Stop()
			if c.pre == 4 {
				time.Sleep(time.Duration(rp.Range(50, 600)) * time.Microsecond)
			}
			for _, v := range c.planned[handed:] {
				delay(rp)
				select {
				case in <- v:
				case <-dl.C:
					return
				}
			}
			close(in)
			pdone.Store(true)
		}(r.Fork())
	}
	for i := 0; i < n; i++ {
		wg.Add(1)
		go func(i int, rc *vhlib.Rng) {
			defer wg.Done()
			dl := time.NewTimer(closeDeadline)
			defer dl.Stop()
			for {
				delay(rc)
				select {
				case v, ok := <-outs[i]:
					if !ok {
						c.closed[i] = true
						return
					}
					c.outs[i] = append(c.outs[i], v)
				case <-dl.C:
					return
				}
			}
		}(i, r.Fork())
	}
	wg.Wait()
	c.inDone = pdone.Load()
	c.untouched = true
	for i := range outsCopy {
		if outs[i] != outsCopy[i] {
			c.untouched = false
		}
	}
}

func (c *fanoutCase) term() string {
	os := make([]string, len(c.outs))
	cl := make([]string, len(c.outs))
	for i := range c.outs {
		os[i] = vhlib.IntList(c.outs[i])
		cl[i] = vhlib.Bool(c.closed[i])
	}
	return fmt.Sprintf("KFanOut %s %s %s %s", vhlib.Bool(c.async), vhlib.IntList(c.planned), vhlib.List(os), vhlib.List(cl))
}

// ---------- ReduceChan ----------

// reducers: mirrored by C18.Check.rfn. Only for the sum is the zero value a left identity.
type rfn struct{ kind, a, b int }

func (f rfn) eval(r, v int) int {
	switch f.kind {
	case 0:
		return r + v
	case 1:
		return r * v
	case 2:
		if v > r {
			return v
		}
		return r
	case 3:
		if v < r {
			return v
		}
		return r
	case 4:
		return r - v
	case 5:
		return r
	case 6:
		return v
	default:
		return r*f.a + v + f.b
	}
}
func (f rfn) coq() string {
	names := []string{"RSum", "RProd", "RMax", "RMin", "RSub", "RFirst", "RLast"}
	if f.kind < len(names) {
		return names[f.kind]
	}
	return fmt.Sprintf("(RAffine %s %s)", vhlib.Z(int64(f.a)), vhlib.Z(int64(f.b)))
}
func genRfn(r *vhlib.Rng) rfn {
	k := r.Intn(9)
	if k >= 7 {
		if r.Bool() {
			return rfn{kind: 7, a: 31, b: 1}
		}
		return rfn{kind: 7, a: r.Range(-3, 3), b: r.Range(-2, 2)}
	}
	return rfn{kind: k}
}

// inputs for the reducers: negatives, zeros and ones included, lengths 0..8
func genReduceValues(r *vhlib.Rng) []int {
	n := r.Range(0, 8)
	vs := make([]int, n)
	for i := range vs {
		switch r.Intn(5) {
		case 0:
			vs[i] = []int{0, 1, -1}[r.Intn(3)]
		case 1:
			vs[i] = -r.Range(1, 9)
		default:
			vs[i] = r.Range(1, 9)
		}
	}
	return vs
}

type reduceCase struct {
	pre      int // state of the input channel at call time (see feed)
	nilIn    bool
	f        rfn
	planned  []int
	seed     uint64
	result   int
	returned bool
	mu       sync.Mutex
	calls    [][2]int // argument pairs the reducer was called with
}

func (c *reduceCase) fn(x, v int) int {
	c.mu.Lock()
	c.calls = append(c.calls, [2]int{x, v})
	c.mu.Unlock()
	return c.f.eval(x, v)
}

func (c *reduceCase) run() {
	r := vhlib.NewRng(c.seed)
	var in chan int
	var wg sync.WaitGroup
	if !c.nilIn {
		var rest func()
		in, rest = feed(c.pre, c.planned, []int{0, 0, 1, 3}[r.Intn(4)], r.Fork())
		if rest != nil {
			wg.Add(1)
			go func() { defer wg.Done(); rest() }()
		}
	}
	done := make(chan int, 1)
	go func() {
		if in == nil {
			done <- bc.ReduceChan[int](nil, c.fn)
		} else {
			done <- bc.ReduceChan[int](in, c.fn)
		}
	}()
	select {
	case c.result = <-done:
		c.returned = true
		wg.Wait()
	case <-time.After(closeDeadline):
	}
}

// ---------- Orderly ----------

type orderlyCase struct {
	n        int
	seed     uint64
	log      [][2]int
	returned bool
	// argument aliasing and re-use: the caller's slice after the first call, then a second call on the same list, on a
	// sub-slice of it, or on a longer slice sharing its backing array (ids in log2 are relative to lo)
	untouched bool
	lo, hi    int
	log2      [][2]int
	returned2 bool
	panic2    string
}

func (c *orderlyCase) run() {
	r := vhlib.NewRng(c.seed)
	var mu sync.Mutex
	extra := r.Intn(3)
	backing := make([]*bc.OrderlyTask, c.n+extra)
	cur := &c.log
	for i := range backing {
		i := i
		rt := r.Fork()
		backing[i] = bc.NewOrderTask(func() {
			mu.Lock()
			*cur = append(*cur, [2]int{i, 1})
			mu.Unlock()
			delay(rt)
			delay(rt)
			mu.Lock()
			*cur = append(*cur, [2]int{i, 0})
			mu.Unlock()
		})
	}
	before := append([]*bc.OrderlyTask(nil), backing...)
	call := func(ts []*bc.OrderlyTask) (returned bool, panicked string) {
		done := make(chan string, 1)
		go func() {
			defer func() { // a panic of the code under test is an outcome, not the end of the harness
				if x := recover(); x != nil {
					done <- fmt.Sprint(x)
				}
			}()
			bc.Orderly(ts)
			done <- ""
		}()
		select {
		case p := <-done:
			return p == "", p
		case <-time.After(deadlineNow()):
			unclosed.Add(1)
			return false, ""
		}
	}
	c.returned, _ = call(backing[:c.n])
	c.untouched = true
	for i := range backing {
		if backing[i] != before[i] {
			c.untouched = false
		}
	}
	// second call: the same list, a sub-slice, or a longer slice over the same backing array
	switch r.Intn(3) {
	case 0:
		c.lo, c.hi = 0, c.n
	case 1:
		c.lo = r.Range(0, c.n)
		c.hi = r.Range(c.lo, c.n)
	default:
		c.lo, c.hi = r.Range(0, c.n), c.n+extra
	}
	mu.Lock()
	cur = &c.log2
	mu.Unlock()
	if c.returned {
		c.returned2, c.panic2 = call(backing[c.lo:c.hi])
	}
	mu.Lock()
	c.log = append([][2]int(nil), c.log...)
	c.log2 = append([][2]int(nil), c.log2...)
	mu.Unlock()
}

func (c *orderlyCase) term2() string {
	it := make([]string, 0, len(c.log2))
	for _, e := range c.log2 {
		id := e[0] - c.lo
		if id < 0 {
			id = 1000 + e[0] // a task outside the slice ran: cannot match the expected log
		}
		it = append(it, vhlib.Pair(vhlib.Nat(id), vhlib.Bool(e[1] == 1)))
	}
	return fmt.Sprintf("KOrderly %s %s %s", vhlib.Nat(c.hi-c.lo), vhlib.List(it), vhlib.Bool(c.returned2))
}

func (c *orderlyCase) term() string {
	it := make([]string, len(c.log))
	for i, e := range c.log {
		it[i] = vhlib.Pair(vhlib.Nat(e[0]), vhlib.Bool(e[1] == 1))
	}
	return fmt.Sprintf("KOrderly %s %s %s", vhlib.Nat(c.n), vhlib.List(it), vhlib.Bool(c.returned))
}

// ---------- batches ----------

func settle(base int) (int, bool) {
	end := time.Now().Add(settleDeadline)
	for {
		n := runtime.NumGoroutine()
		if n <= base {
			return n, true
		}
		if time.Now().After(end) {
			return n, false
		}
		time.Sleep(2 * time.Millisecond)
	}
}

// runBatch runs the jobs with bounded parallelism, then requires the goroutine count to settle.
func runBatch(w *vhlib.Writer, label string, jobs []func(), par int) {
	unclosed.Store(0)
	base, _ := settle(runtime.NumGoroutine()) // current level (nothing of ours is running between batches)
	sem := make(chan struct{}, par)
	var wg sync.WaitGroup
	for _, j := range jobs {
		wg.Add(1)
		sem <- struct{}{}
		go func(j func()) {
			defer wg.Done()
			defer func() { <-sem }()
			j()
		}(j)
	}
	wg.Wait()
	if n, ok := settle(base); !ok {
		buf := make([]byte, 1<<16)
		buf = buf[:runtime.Stack(buf, true)]
		w.Violation(label, "goroutine leak", map[string]interface{}{"before": base, "after": n, "runs": len(jobs), "stacks": string(buf[:min(len(buf), 6000)])})
	}
}

func min(a, b int) int {
	if a < b {
		return a
	}
	return b
}

func main() {
	o := vhlib.ParseOpts()
	rng := vhlib.NewRng(o.Seed)
	w := vhlib.NewWriter(o.Out, "From VF Require Import C18.Stage C18.Check.\nLocal Open Scope Z_scope.", "case", "mismatches", 400)
	reps := 500
	par := 12
	nAbandon := 200
	if o.Thorough() {
		reps = 6000
		nAbandon = 1500
	}
	stageNames := []string{"Stream", "TaskN", "TaskFn", "TaskWhile", "SkipN", "SkipFn", "SkipWhile", "MapChan", "Pipeline"}
	cancelled, complete := 0, 0
	var maxC2C time.Duration
	for which, name := range stageNames {
		cs := make([]*stageCase, reps)
		jobs := make([]func(), reps)
		for i := range cs {
			cs[i] = genStage(rng, which)
			jobs[i] = cs[i].run
		}
		runBatch(w, name, jobs, par)
		if which <= 6 { // ctx-aware: the blocked-on-send scenarios, sequentially
			settle(runtime.NumGoroutine())
			leaks := 0
			for i := 0; i < nAbandon && leaks < 4; i++ { // each leak costs the settle deadline: a few are proof enough
				c := genAbandon(rng, which)
				leaked := c.runAbandon()
				if !c.closed && !leaked {
					leaks++ // not closed although nothing leaked (or the close never came): also settles the verdict
				}
				if leaked {
					leaks++
					w.Violation(name, "goroutine leak", map[string]interface{}{"scenario": "consumer stopped after j values, cancel while value j+1 is pending at the send",
						"j": c.abandonJ, "coq": c.coq, "planned": c.planned, "handed": c.ins, "received": c.outs})
				}
				cs = append(cs, c)
			}
		}
		for _, c := range cs {
			if c.cancelToClose > maxC2C {
				maxC2C = c.cancelToClose
			}
			if c.cancelled {
				cancelled++
			} else if c.closed {
				complete++
			}
			w.Case(c.term(), c.name, len(c.ins) > 0, nil, map[string]interface{}{"combinator": c.name, "coq": c.coq,
				"planned": c.planned, "incap": c.incap, "cancel_mode": c.mode, "cancel_k": c.k, "input_state_at_call": c.pre, "abandon_j": c.abandonJ, "abandon_resume": c.resume, "pointer_elements": c.ptr, "ctx_kind": c.ctxKind, "nil_in": c.nilIn, "run_seed": c.seed,
				"observed": map[string]interface{}{"ins": c.ins, "outs": c.outs, "closed": c.closed, "cancelled": c.cancelled, "fn_called_with": c.calls}})
		}
	}
	{
		cs := make([]*streamReuseCase, reps/4)
		jobs := make([]func(), len(cs))
		for i := range cs {
			cs[i] = &streamReuseCase{vals: genValues(rng)}
			jobs[i] = cs[i].run
		}
		runBatch(w, "Stream", jobs, par)
		for _, c := range cs {
			w.Case("KUntouched "+vhlib.Bool(c.untouched), "Stream args", false, nil, map[string]interface{}{"combinator": "Stream",
				"what": "the caller's values slice compared with a copy taken before the call", "values": c.vals})
			w.Case(fmt.Sprintf("KStage CStream false %s %s %s %s false []", vhlib.Nat(len(c.vals)), vhlib.IntList(c.vals), vhlib.IntList(c.outs2), vhlib.Bool(c.closed2)),
				"Stream reuse", len(c.vals) > 0, nil, map[string]interface{}{"combinator": "Stream", "what": "second Stream over the same values slice",
					"values": c.vals, "observed": map[string]interface{}{"outs": c.outs2, "closed": c.closed2}})
		}
	}
	for _, merge := range []bool{false, true} {
		name := "FanInRec"
		if merge {
			name = "MergeChannel"
		}
		cs := make([]*faninCase, reps)
		jobs := make([]func(), reps)
		for i := range cs {
			cs[i] = genFanIn(rng, merge)
			jobs[i] = cs[i].run
		}
		runBatch(w, name, jobs, par)
		for _, c := range cs {
			w.Case(c.term(), name, len(c.outs) > 0, nil, map[string]interface{}{"combinator": name, "planned": c.planned,
				"nil": c.isNil, "caps": c.caps, "input_state_at_call": c.pre, "run_seed": c.seed, "observed": map[string]interface{}{"outs": c.outs, "closed": c.closed}})
			if !merge && c.closed {
				w.Case("KUntouched "+vhlib.Bool(c.untouched), "FanInRec args", false, nil, map[string]interface{}{"combinator": name,
					"what": "the caller's channel slice passed as channels... compared with a copy taken before the call", "planned": c.planned})
				empty := make([]string, len(c.planned))
				for i := range empty {
					empty[i] = "[]"
				}
				w.Case(fmt.Sprintf("KFanIn %s %s %s", vhlib.List(empty), vhlib.IntList(c.outs2), vhlib.Bool(c.closed2)), "FanInRec reuse", false, nil,
					map[string]interface{}{"combinator": name, "what": "second call with the same, by now closed and drained, channels", "sources": len(c.planned),
						"observed": map[string]interface{}{"outs": c.outs2, "closed": c.closed2}})
			}
		}
	}
	for _, async := range []bool{false, true} {
		name := "FanOut/sync"
		if async {
			name = "FanOut/async"
		}
		cs := make([]*fanoutCase, reps)
		jobs := make([]func(), reps)
		for i := range cs {
			cs[i] = genFanOut(rng, async)
			jobs[i] = cs[i].run
		}
		runBatch(w, "FanOut", jobs, par)
		for _, c := range cs {
			w.Case(c.term(), name, len(c.planned) > 0 && len(c.caps) > 0, nil, map[string]interface{}{"combinator": name,
				"planned": c.planned, "caps": c.caps, "run_seed": c.seed, "input_fully_taken": c.inDone, "input_state_at_call": c.pre,
				"observed": map[string]interface{}{"outs": c.outs, "closed": c.closed}})
			w.Case("KUntouched "+vhlib.Bool(c.untouched), "FanOut args", false, nil, map[string]interface{}{"combinator": name,
				"what": "the caller's out slice compared with a copy taken before the call", "outputs": len(c.caps)})
		}
	}
	{
		cs := make([]*reduceCase, reps)
		jobs := make([]func(), reps)
		for i := range cs {
			cs[i] = &reduceCase{nilIn: rng.Chance(1, 10), f: genRfn(rng), planned: genReduceValues(rng), seed: rng.U64()}
			cs[i].pre = genPre(rng)
			if cs[i].nilIn || cs[i].pre == 1 {
				cs[i].planned = nil
			}
			jobs[i] = cs[i].run
		}
		runBatch(w, "ReduceChan", jobs, par)
		for _, c := range cs {
			if !c.returned {
				w.Violation("ReduceChan", "did not return", map[string]interface{}{"planned": c.planned, "nil": c.nilIn})
				continue
			}
			c.mu.Lock()
			pairs := make([]string, len(c.calls))
			for i, pr := range c.calls {
				pairs[i] = vhlib.Pair(vhlib.Z(int64(pr[0])), vhlib.Z(int64(pr[1])))
			}
			c.mu.Unlock()
			term := fmt.Sprintf("KReduce %s %s %s %s %s", vhlib.Bool(c.nilIn), c.f.coq(), vhlib.IntList(c.planned), vhlib.Z(int64(c.result)), vhlib.List(pairs))
			w.Case(term, "ReduceChan", len(c.planned) > 1, nil, map[string]interface{}{"combinator": "ReduceChan", "reducer": c.f.coq(),
				"planned": c.planned, "nil_in": c.nilIn, "observed": c.result})
		}
	}
	{
		cs := make([]*orderlyCase, reps)
		jobs := make([]func(), reps)
		for i := range cs {
			cs[i] = &orderlyCase{n: rng.Range(0, 5), seed: rng.U64()}
			jobs[i] = cs[i].run
		}
		runBatch(w, "Orderly", jobs, par)
		for _, c := range cs {
			w.Case(c.term(), "Orderly", c.n > 1, nil, map[string]interface{}{"combinator": "Orderly", "n": c.n, "run_seed": c.seed,
				"observed": map[string]interface{}{"log": c.log, "returned": c.returned}})
			if c.returned {
				w.Case("KUntouched "+vhlib.Bool(c.untouched), "Orderly args", false, nil, map[string]interface{}{"combinator": "Orderly", "n": c.n,
					"what": "the caller's task slice (whole backing array) compared with a copy taken before the call"})
				w.Case(c.term2(), "Orderly reuse", c.hi-c.lo > 1, nil, map[string]interface{}{"combinator": "Orderly", "n": c.n, "run_seed": c.seed,
					"what": "second Orderly call on tasks[lo:hi] of the backing array whose [0:n] was run before", "lo": c.lo, "hi": c.hi,
					"observed": map[string]interface{}{"log": c.log2, "returned": c.returned2, "panic": c.panic2}})
			}
		}
	}
	w.Notes["runs_cancelled_before_close_seen"] = cancelled
	w.Notes["runs_completed_without_cancel"] = complete
	w.Notes["max_cancel_to_close_seen_us"] = maxC2C.Microseconds() // includes the consumer's own random delays (<= ~1.4 ms per receive)
	w.Notes["not_exercised"] = "OrDone (not named by the property); nil inputs to Pipeline/FanInRec/FanOut (they block for ever by construction: no ctx)"
	w.Close(o, "one case = one run of one combinator on a seeded input (length 0..8, 0..3 sources/outputs, input buffer 0..3) with seeded producer/consumer delays and cancellation point; "+
		"the recorded per-channel observations are what Coq judges (scheduling makes them vary between runs of the same seed); distinct = distinct case terms; non-trivial = non-empty input (>= 2 tasks for Orderly, >= 2 values for ReduceChan)")
}
