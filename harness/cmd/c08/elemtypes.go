// Interface element types for the C08 containers. The zero value of an interface type is the nil interface: it must
// be storable like any other value. The Coq cases keep speaking about content classes (Z): class 0 = the nil
// interface; 1, 2 = non-nil interfaces holding zero-ish dynamic values; other classes = ordinary values. Heaps and
// priority queues get a comparator that orders by class (nil first): shape a-b (cmpsel CSub).
package main

import (
	"fmt"

	"github.com/songzhibin97/go-baseutils/structure/queues/arrayqueue"
	"github.com/songzhibin97/go-baseutils/structure/queues/circularbuffer"
	"github.com/songzhibin97/go-baseutils/structure/queues/linkedlistqueue"
	"github.com/songzhibin97/go-baseutils/structure/queues/priorityqueue"
	"github.com/songzhibin97/go-baseutils/structure/stacks/arraystack"
	"github.com/songzhibin97/go-baseutils/structure/stacks/linkedliststack"
	"github.com/songzhibin97/go-baseutils/structure/trees/binaryheap"

	"vh/vhlib"
)

type codec[E any] struct {
	enc func(int) E
	dec func(E) int
}

const badClass = -99

func decs[E any](c codec[E], es []E) []int {
	r := make([]int, len(es))
	for i, e := range es {
		r[i] = c.dec(e)
	}
	return r
}

type gstack[E any] interface {
	Push(v E)
	Pop() (E, bool)
	Peek() (E, bool)
	Clear()
	Values() []E
	Size() int
	Empty() bool
}

// shapeOf: SRaw / SRing step from the verif accessors, decoded by class
func shapeOf[E any](x interface{}, c codec[E]) func() string {
	if r, ok := x.(interface{ VerifBacking() ([]E, int) }); ok {
		return func() string {
			e, n := r.VerifBacking()
			return fmt.Sprintf("SRaw %s %s", vhlib.IntList(decs(c, e)), vhlib.Nat(n))
		}
	}
	if r, ok := x.(interface {
		VerifState() ([]E, int, int, bool, int, int)
	}); ok {
		return func() string {
			v, s, e, f, n, _ := r.VerifState()
			return fmt.Sprintf("SRing %s %s %s %s %s", vhlib.IntList(decs(c, v)), vhlib.Nat(s), vhlib.Nat(e), vhlib.Bool(f), vhlib.Nat(n))
		}
	}
	return nil
}

func scribbler[E any](values func() []E, c codec[E]) func() {
	return func() {
		s := values()
		for i := range s {
			s[i] = c.enc(sentinel)
		}
	}
}

func fromQueueG[E any](q gqueue[E], c codec[E]) *box {
	b := &box{enq: func(v int) { q.Enqueue(c.enc(v)) },
		deq:   func() (int, bool) { e, ok := q.Dequeue(); return c.dec(e), ok },
		peek:  func() (int, bool) { e, ok := q.Peek(); return c.dec(e), ok },
		clear: q.Clear, values: func() []int { return decs(c, q.Values()) }, size: q.Size, empty: q.Empty,
		nEnq: "Enqueue", nDeq: "Dequeue", shape: shapeOf(q, c), scribble: scribbler(q.Values, c)}
	if f, ok := q.(interface{ Full() bool }); ok {
		b.full = f.Full
	}
	return b
}
func fromStackG[E any](s gstack[E], c codec[E]) *box {
	return &box{enq: func(v int) { s.Push(c.enc(v)) },
		deq:   func() (int, bool) { e, ok := s.Pop(); return c.dec(e), ok },
		peek:  func() (int, bool) { e, ok := s.Peek(); return c.dec(e), ok },
		clear: s.Clear, values: func() []int { return decs(c, s.Values()) }, size: s.Size, empty: s.Empty,
		nEnq: "Push", nDeq: "Pop", scribble: scribbler(s.Values, c)}
}
func fromHeapG[E any](h gheap[E], c codec[E]) *box {
	return &box{enq: func(v int) { h.Push(c.enc(v)) },
		push: func(vs []int) { // the caller reuses its batch buffer right after the call
			es := make([]E, len(vs))
			for i, v := range vs {
				es[i] = c.enc(v)
			}
			h.Push(es...)
			for i := range es {
				es[i] = c.enc(sentinel)
			}
		},
		deq:   func() (int, bool) { e, ok := h.Pop(); return c.dec(e), ok },
		peek:  func() (int, bool) { e, ok := h.Peek(); return c.dec(e), ok },
		clear: h.Clear, values: func() []int { return decs(c, h.Values()) }, size: h.Size, empty: h.Empty,
		nEnq: "Push", nDeq: "Pop", shape: shapeOf(h, c), scribble: scribbler(h.Values, c)}
}

// ---------- the element types ----------
type T struct{ A int }

type myErr int

func (e myErr) Error() string { return fmt.Sprint("myErr ", int(e)) }

type ptrErr struct{ N int }

func (e *ptrErr) Error() string { return "ptrErr" }

// a small interface of the user's own
type shape interface{ Area() int }
type square int

func (s square) Area() int { return int(s) * int(s) }

type circle struct{ r int }

func (c *circle) Area() int { return 3 * c.r * c.r }

// class 0 = nil interface; 1 and 2 = non-nil interfaces holding a zero / a nil pointer; v otherwise
var anyCodec = codec[any]{
	enc: func(v int) any {
		switch v {
		case 0:
			return nil
		case 1:
			return 0
		case 2:
			return (*T)(nil)
		}
		if v%2 == 0 {
			return fmt.Sprint("s", v)
		}
		return v
	},
	dec: func(x any) int {
		switch t := x.(type) {
		case nil:
			return 0
		case int:
			if t == 0 {
				return 1
			}
			if t != 1 && t != 2 && t%2 != 0 {
				return t
			}
		case *T:
			if t == nil {
				return 2
			}
		case string:
			var v int
			if n, _ := fmt.Sscanf(t, "s%d", &v); n == 1 && v%2 == 0 && v != 0 && v != 2 {
				return v
			}
		}
		return badClass
	},
}
var errCodec = codec[error]{
	enc: func(v int) error {
		switch v {
		case 0:
			return nil
		case 1:
			return myErr(0)
		case 2:
			return (*ptrErr)(nil)
		}
		return myErr(v)
	},
	dec: func(e error) int {
		switch t := e.(type) {
		case nil:
			return 0
		case myErr:
			if t == 0 {
				return 1
			}
			if t != 1 && t != 2 {
				return int(t)
			}
		case *ptrErr:
			if t == nil {
				return 2
			}
		}
		return badClass
	},
}
var shapeCodec = codec[shape]{
	enc: func(v int) shape {
		switch v {
		case 0:
			return nil
		case 1:
			return square(0)
		case 2:
			return (*circle)(nil)
		}
		return square(v)
	},
	dec: func(s shape) int {
		switch t := s.(type) {
		case nil:
			return 0
		case square:
			if t == 0 {
				return 1
			}
			if t != 1 && t != 2 {
				return int(t)
			}
		case *circle:
			if t == nil {
				return 2
			}
		}
		return badClass
	},
}

func byClass[E any](c codec[E]) func(a, b E) int {
	return func(a, b E) int { return c.dec(a) - c.dec(b) } // nil (class 0) first
}

// ifaceKinds: the containers over interface element types. They run short exhaustive words, the clear-reuse stream
// and a few random walks (quick tier), everything in the thorough tier.
func ifaceKinds() []kind {
	var ks []kind
	add := func(name, coq string, k kind) {
		k.name, k.coq, k.iface = name, coq, true
		ks = append(ks, k)
	}
	// any
	add("arraystack<any>", "KAS", kind{mk: func() *box { return fromStackG[any](arraystack.New[any](), anyCodec) }})
	add("arraystack.Safe<any>", "KAS", kind{safe: true, mk: func() *box { return fromStackG[any](arraystack.NewSafe[any](), anyCodec) }})
	add("linkedliststack<any>", "KLS", kind{mk: func() *box { return fromStackG[any](linkedliststack.New[any](), anyCodec) }})
	add("arrayqueue<any>", "KAQ", kind{mk: func() *box { return fromQueueG[any](arrayqueue.New[any](), anyCodec) }})
	add("linkedlistqueue<any>", "KLQ", kind{mk: func() *box { return fromQueueG[any](linkedlistqueue.New[any](), anyCodec) }})
	add("circularbuffer[2]<any>", "(KCB 2%nat)", kind{cap: 2, mk: func() *box { return fromQueueG[any](circularbuffer.New[any](2), anyCodec) }})
	add("circularbuffer[3]<any>", "(KCB 3%nat)", kind{cap: 3, mk: func() *box { return fromQueueG[any](circularbuffer.New[any](3), anyCodec) }})
	add("priorityqueue<any>", "(KPQ CSub)", kind{ordered: true, mk: func() *box { return fromQueueG[any](priorityqueue.NewWith[any](byClass(anyCodec)), anyCodec) }})
	add("binaryheap<any>", "(KBH CSub)", kind{heap: true, ordered: true, mk: func() *box { return fromHeapG[any](binaryheap.NewWith[any](byClass(anyCodec)), anyCodec) }})
	// error
	add("arraystack<error>", "KAS", kind{mk: func() *box { return fromStackG[error](arraystack.New[error](), errCodec) }})
	add("linkedliststack<error>", "KLS", kind{mk: func() *box { return fromStackG[error](linkedliststack.New[error](), errCodec) }})
	add("arrayqueue<error>", "KAQ", kind{mk: func() *box { return fromQueueG[error](arrayqueue.New[error](), errCodec) }})
	add("circularbuffer[2]<error>", "(KCB 2%nat)", kind{cap: 2, mk: func() *box { return fromQueueG[error](circularbuffer.New[error](2), errCodec) }})
	add("binaryheap<error>", "(KBH CSub)", kind{heap: true, ordered: true, mk: func() *box { return fromHeapG[error](binaryheap.NewWith[error](byClass(errCodec)), errCodec) }})
	// a user interface
	add("arraystack<shape>", "KAS", kind{mk: func() *box { return fromStackG[shape](arraystack.New[shape](), shapeCodec) }})
	add("linkedlistqueue<shape>", "KLQ", kind{mk: func() *box { return fromQueueG[shape](linkedlistqueue.New[shape](), shapeCodec) }})
	add("priorityqueue<shape>", "(KPQ CSub)", kind{ordered: true, mk: func() *box { return fromQueueG[shape](priorityqueue.NewWith[shape](byClass(shapeCodec)), shapeCodec) }})
	return ks
}
