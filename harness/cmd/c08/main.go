// C08 harness: drives arrayqueue, linkedlistqueue, circularbuffer (capacities 1..5), priorityqueue, binaryheap
// (int comparator and its reverse), arraystack, linkedliststack - plain and through their Safe wrappers -
// with insert / remove / peek / clear words; records every result, and after every mutator Peek, Values, Size,
// Empty (Full) and the internal shape (ring cursors, heap array) read through verif accessors. Writes Coq cases.
package main

import (
	"fmt"
	"strings"
	"time"

	"github.com/songzhibin97/go-baseutils/base/bcomparator"
	"github.com/songzhibin97/go-baseutils/structure/queues/arrayqueue"
	"github.com/songzhibin97/go-baseutils/structure/queues/circularbuffer"
	"github.com/songzhibin97/go-baseutils/structure/queues/linkedlistqueue"
	"github.com/songzhibin97/go-baseutils/structure/queues/priorityqueue"
	"github.com/songzhibin97/go-baseutils/structure/stacks/arraystack"
	"github.com/songzhibin97/go-baseutils/structure/stacks/linkedliststack"
	"github.com/songzhibin97/go-baseutils/structure/trees/binaryheap"

	"vh/vhlib"
)

type queueLike interface {
	Enqueue(v int)
	Dequeue() (int, bool)
	Peek() (int, bool)
	Clear()
	Values() []int
	Size() int
	Empty() bool
}
type stackLike interface {
	Push(v int)
	Pop() (int, bool)
	Peek() (int, bool)
	Clear()
	Values() []int
	Size() int
	Empty() bool
}
type heapLike interface {
	Push(vs ...int)
	Pop() (int, bool)
	Peek() (int, bool)
	Clear()
	Values() []int
	Size() int
	Empty() bool
}

// uniform view
type box struct {
	enq    func(int)
	push   func([]int) // heap only
	deq    func() (int, bool)
	peek   func() (int, bool)
	clear  func()
	values func() []int
	size   func() int
	empty  func() bool
	full   func() bool   // circular buffer only
	shape  func() string // Coq term of an SRaw / SRing step, or ""
	// scribble: a caller overwrites every cell of a fresh Values() result (nil: do it on values())
	scribble func()
	// cmpSizes: the container's comparator reads Size() at every invocation; this returns (and forgets) what it saw
	cmpSizes func() []int
	// method names for the labels
	nEnq, nDeq string
}

func fromQueue(q queueLike) *box {
	b := &box{enq: q.Enqueue, deq: q.Dequeue, peek: q.Peek, clear: q.Clear, values: q.Values, size: q.Size, empty: q.Empty, nEnq: "Enqueue", nDeq: "Dequeue"}
	if f, ok := q.(interface{ Full() bool }); ok {
		b.full = f.Full
	}
	if r, ok := q.(interface {
		VerifState() ([]int, int, int, bool, int, int)
	}); ok {
		b.shape = func() string {
			v, s, e, f, n, _ := r.VerifState()
			return fmt.Sprintf("SRing %s %s %s %s %s", vhlib.IntList(v), vhlib.Nat(s), vhlib.Nat(e), vhlib.Bool(f), vhlib.Nat(n))
		}
	}
	if r, ok := q.(interface{ VerifBacking() ([]int, int) }); ok {
		b.shape = func() string {
			e, n := r.VerifBacking()
			return fmt.Sprintf("SRaw %s %s", vhlib.IntList(e), vhlib.Nat(n))
		}
	}
	return b
}
func fromStack(s stackLike) *box {
	return &box{enq: s.Push, deq: s.Pop, peek: s.Peek, clear: s.Clear, values: s.Values, size: s.Size, empty: s.Empty, nEnq: "Push", nDeq: "Pop"}
}
func fromHeap(h heapLike) *box {
	b := &box{enq: func(v int) { h.Push(v) },
		push: func(vs []int) { // the caller reuses its batch buffer right after the call
			buf := append([]int(nil), vs...)
			h.Push(buf...)
			for i := range buf {
				buf[i] = sentinel
			}
		}, deq: h.Pop, peek: h.Peek, clear: h.Clear,
		values: h.Values, size: h.Size, empty: h.Empty, nEnq: "Push", nDeq: "Pop"}
	if r, ok := h.(interface{ VerifBacking() ([]int, int) }); ok {
		b.shape = func() string {
			e, n := r.VerifBacking()
			return fmt.Sprintf("SRaw %s %s", vhlib.IntList(e), vhlib.Nat(n))
		}
	}
	return b
}

// ---------- struct elements ordered by a priority field; encoded in the Coq cases by that priority ----------
type item struct {
	prio int
	name string
}

var itemSeq int

func mkItem(v int) item {
	itemSeq++
	return item{prio: v, name: fmt.Sprint("job", itemSeq%7)}
}

type gheap[E any] interface {
	Push(vs ...E)
	Pop() (E, bool)
	Peek() (E, bool)
	Clear()
	Values() []E
	Size() int
	Empty() bool
}
type gqueue[E any] interface {
	Enqueue(v E)
	Dequeue() (E, bool)
	Peek() (E, bool)
	Clear()
	Values() []E
	Size() int
	Empty() bool
}

func itemShape(x interface{}) func() string {
	if r, ok := x.(interface{ VerifBacking() ([]item, int) }); ok {
		return func() string {
			e, n := r.VerifBacking()
			return fmt.Sprintf("SRaw %s %s", vhlib.IntList(prios(e)), vhlib.Nat(n))
		}
	}
	return nil
}
func prios(es []item) []int {
	r := make([]int, len(es))
	for i, e := range es {
		r[i] = e.prio
	}
	return r
}
func fromItemHeap(h gheap[item]) *box {
	return &box{enq: func(v int) { h.Push(mkItem(v)) },
		push: func(vs []int) {
			es := make([]item, len(vs))
			for i, v := range vs {
				es[i] = mkItem(v)
			}
			h.Push(es...)
			for i := range es {
				es[i] = mkItem(sentinel)
			}
		},
		deq: func() (int, bool) { e, ok := h.Pop(); return e.prio, ok }, peek: func() (int, bool) { e, ok := h.Peek(); return e.prio, ok },
		clear: h.Clear, values: func() []int { return prios(h.Values()) }, size: h.Size, empty: h.Empty, nEnq: "Push", nDeq: "Pop",
		shape: itemShape(h),
		scribble: func() {
			s := h.Values()
			for i := range s {
				s[i] = mkItem(sentinel)
			}
		}}
}
func fromItemQueue(q gqueue[item]) *box {
	return &box{enq: func(v int) { q.Enqueue(mkItem(v)) },
		deq: func() (int, bool) { e, ok := q.Dequeue(); return e.prio, ok }, peek: func() (int, bool) { e, ok := q.Peek(); return e.prio, ok },
		clear: q.Clear, values: func() []int { return prios(q.Values()) }, size: q.Size, empty: q.Empty, nEnq: "Enqueue", nDeq: "Dequeue",
		shape: itemShape(q),
		scribble: func() {
			s := q.Values()
			for i := range s {
				s[i] = mkItem(sentinel)
			}
		}}
}

const sentinel = 77 // never enqueued

type kind struct {
	name, coq string
	safe      bool
	mk        func() *box
	heap      bool // bulk Push exists
	ordered   bool // heap-ordered container (binaryheap, priorityqueue): also runs the wide-magnitude profile
	iface     bool // interface element type (elemtypes.go): short exhaustive words, a share of the other streams
	noExh     bool // no bounded-exhaustive stream for this comparator shape (the other shapes cover it)
	cap       int
}

// a heap / priority queue whose user comparator (a - b) looks at the container every time it is called
func watchingHeap() *box {
	var h *binaryheap.Heap[int]
	var seen []int
	h = binaryheap.NewWith[int](func(a, b int) int { seen = append(seen, h.Size()); return a - b })
	b := fromHeap(h)
	b.cmpSizes = func() []int { r := seen; seen = nil; return r }
	return b
}
func watchingPQ() *box {
	var q *priorityqueue.Queue[int]
	var seen []int
	q = priorityqueue.NewWith[int](func(a, b int) int { seen = append(seen, q.Size()); return a - b })
	b := fromQueue(q)
	b.cmpSizes = func() []int { r := seen; seen = nil; return r }
	return b
}

func allKinds() []kind {
	cmp := bcomparator.IntComparator()
	rev := bcomparator.ReverseComparator(bcomparator.IntComparator())
	sub := func(a, b int) int { return a - b }
	subRev := func(a, b int) int { return b - a }
	scaled := func(a, b int) int { return (a - b) * 7 }
	byPrio := func(a, b item) int { return a.prio - b.prio }
	ks := []kind{
		{name: "arrayqueue", coq: "KAQ", mk: func() *box { return fromQueue(arrayqueue.New[int]()) }},
		{name: "arrayqueue.Safe", coq: "KAQ", safe: true, mk: func() *box { return fromQueue(arrayqueue.NewSafe[int]()) }},
		{name: "linkedlistqueue", coq: "KLQ", mk: func() *box { return fromQueue(linkedlistqueue.New[int]()) }},
		{name: "linkedlistqueue.Safe", coq: "KLQ", safe: true, mk: func() *box { return fromQueue(linkedlistqueue.NewSafe[int]()) }},
		{name: "arraystack", coq: "KAS", mk: func() *box { return fromStack(arraystack.New[int]()) }},
		{name: "arraystack.Safe", coq: "KAS", safe: true, mk: func() *box { return fromStack(arraystack.NewSafe[int]()) }},
		{name: "linkedliststack", coq: "KLS", mk: func() *box { return fromStack(linkedliststack.New[int]()) }},
		{name: "linkedliststack.Safe", coq: "KLS", safe: true, mk: func() *box { return fromStack(linkedliststack.NewSafe[int]()) }},
		// comparator shapes: -1/0/+1, its reverse, and user-style comparators whose magnitudes vary
		{name: "priorityqueue", coq: "(KPQ CInt)", ordered: true, mk: func() *box { return fromQueue(priorityqueue.NewWith[int](cmp)) }},
		{name: "priorityqueue(reverse)", coq: "(KPQ CRev)", ordered: true, noExh: true, mk: func() *box { return fromQueue(priorityqueue.NewWith[int](rev)) }},
		{name: "priorityqueue(a-b)", coq: "(KPQ CSub)", ordered: true, mk: watchingPQ},
		{name: "priorityqueue(b-a)", coq: "(KPQ CSubRev)", ordered: true, noExh: true, mk: func() *box { return fromQueue(priorityqueue.NewWith[int](subRev)) }},
		{name: "priorityqueue((a-b)*7)", coq: "(KPQ CScaled)", ordered: true, noExh: true, mk: func() *box { return fromQueue(priorityqueue.NewWith[int](scaled)) }},
		{name: "priorityqueue(a.prio-b.prio)", coq: "(KPQ CPrio)", ordered: true, mk: func() *box { return fromItemQueue(priorityqueue.NewWith[item](byPrio)) }},
		{name: "priorityqueue.Safe", coq: "(KPQ CInt)", ordered: true, safe: true, mk: func() *box { return fromQueue(priorityqueue.NewSafeWith[int](cmp)) }},
		{name: "priorityqueue.Safe(a-b)", coq: "(KPQ CSub)", ordered: true, safe: true, mk: func() *box { return fromQueue(priorityqueue.NewSafeWith[int](sub)) }},
		{name: "binaryheap", coq: "(KBH CInt)", heap: true, ordered: true, mk: func() *box { return fromHeap(binaryheap.NewWith[int](cmp)) }},
		{name: "binaryheap(reverse)", coq: "(KBH CRev)", heap: true, ordered: true, noExh: true, mk: func() *box { return fromHeap(binaryheap.NewWith[int](rev)) }},
		{name: "binaryheap(a-b)", coq: "(KBH CSub)", heap: true, ordered: true, noExh: true, mk: watchingHeap},
		{name: "binaryheap(b-a)", coq: "(KBH CSubRev)", heap: true, ordered: true, mk: func() *box { return fromHeap(binaryheap.NewWith[int](subRev)) }},
		{name: "binaryheap((a-b)*7)", coq: "(KBH CScaled)", heap: true, ordered: true, mk: func() *box { return fromHeap(binaryheap.NewWith[int](scaled)) }},
		{name: "binaryheap(a.prio-b.prio)", coq: "(KBH CPrio)", heap: true, ordered: true, noExh: true, mk: func() *box { return fromItemHeap(binaryheap.NewWith[item](byPrio)) }},
		{name: "binaryheap.Safe", coq: "(KBH CInt)", heap: true, ordered: true, safe: true, mk: func() *box { return fromHeap(binaryheap.NewSafeWith[int](cmp)) }},
		{name: "binaryheap.Safe(b-a)", coq: "(KBH CSubRev)", heap: true, ordered: true, safe: true, mk: func() *box { return fromHeap(binaryheap.NewSafeWith[int](subRev)) }},
	}
	for c := 1; c <= 5; c++ {
		c := c
		ks = append(ks, kind{name: fmt.Sprintf("circularbuffer[%d]", c), coq: fmt.Sprintf("(KCB %d%%nat)", c), cap: c,
			mk: func() *box { return fromQueue(circularbuffer.New[int](c)) }})
		ks = append(ks, kind{name: fmt.Sprintf("circularbuffer[%d].Safe", c), coq: fmt.Sprintf("(KCB %d%%nat)", c), cap: c, safe: true,
			mk: func() *box { return fromQueue(circularbuffer.NewSafe[int](c)) }})
	}
	return ks
}

type op struct {
	K  string // Enq Push Deq Peek Clear Values Size Empty Full
	V  int
	Vs []int
}

func (o op) String() string {
	switch o.K {
	case "Enq":
		return fmt.Sprintf("Enq(%d)", o.V)
	case "Push":
		return fmt.Sprintf("Push%v", o.Vs)
	}
	return o.K
}

type caseBuilder struct {
	k      kind
	b      *box
	steps  []string
	labels []string
	hist   []string
	dead   bool
	peak   int
	kept   [][]int // every slice Values() returned (the very slice)
	hung   bool    // a call did not return: reported as a direct violation, the case itself is not written
}

// ---------- watchdog: every call into the code under test runs under a time limit ----------
const hangLimit = 10 * time.Second

var (
	theWriter *vhlib.Writer
	hungKinds = map[string]int{} // calls that did not return, per structure: after two, its remaining cases are skipped
)

// guarded runs f (a call into the code under test) recovering a panic, under the watchdog. A call that does not
// return ends the case and becomes a direct violation "call does not return" with the calls so far as the replay;
// the stuck goroutine is abandoned.
func (c *caseBuilder) guarded(what string, f func()) (panicked bool) {
	var p bool
	if vhlib.WithTimeout(hangLimit, func() { p, _ = vhlib.Recover(f) }) {
		return p
	}
	c.dead, c.hung = true, true
	hungKinds[c.k.name]++
	theWriter.Violation(c.k.name+" hang", what+": call does not return",
		map[string]interface{}{"structure": c.k.name, "calls": append(append([]string{}, c.hist...), what+"  <- does not return within "+hangLimit.String())})
	return false
}

// size of the container, for the generators (0 once the case is over)
func (c *caseBuilder) size() int {
	n := 0
	if !c.dead {
		c.guarded("Size", func() { n = c.b.size() })
	}
	return n
}

// sizes the watching comparator saw since the last time: one step, the distinct values
func (c *caseBuilder) cmpSizes(after string) {
	if c.dead || c.b.cmpSizes == nil {
		return
	}
	seen := map[int]bool{}
	var ds []int
	for _, v := range c.b.cmpSizes() {
		if !seen[v] {
			seen[v] = true
			ds = append(ds, v)
		}
	}
	c.steps = append(c.steps, "SCmpSizes "+vhlib.IntList(ds))
	c.labels = append(c.labels, after+"/size seen by the comparator")
}

func newCase(k kind) *caseBuilder {
	c := &caseBuilder{k: k, b: k.mk()}
	if hungKinds[k.name] >= 2 {
		c.dead, c.hung = true, true
	}
	if k.safe { // Safe wrappers: every trace starts with a removal from the empty container (it must return)
		c.do(op{K: "Deq"})
	}
	return c
}

func tf(b bool) string {
	if b {
		return "T"
	}
	return "F"
}

// call runs one call on the real container and appends the step (short forms en_, dq_, pk_, vl_, sz_, em_, fu_ of
// Check.v; a panic is SOp <op> RPanic and ends the case)
func (c *caseBuilder) call(o op, label string) {
	if c.dead {
		return
	}
	var coq, step string
	p := c.guarded(o.String(), func() {
		switch o.K {
		case "Enq":
			coq = "(QEnq " + vhlib.Z(int64(o.V)) + ")"
			c.b.enq(o.V)
			step = "en_ " + vhlib.Z(int64(o.V))
		case "Push":
			coq = "(QPush " + vhlib.IntList(o.Vs) + ")"
			c.b.push(o.Vs)
			step = "SOp " + coq + " RUnit"
		case "Deq":
			coq = "QDeq"
			v, ok := c.b.deq()
			step = "dq_ " + vhlib.Z(int64(v)) + " " + tf(ok)
		case "Peek":
			coq = "QPeek"
			v, ok := c.b.peek()
			step = "pk_ " + vhlib.Z(int64(v)) + " " + tf(ok)
		case "Clear":
			coq = "QClear"
			c.b.clear()
			step = "SOp QClear RUnit"
		case "Values":
			coq = "QValues"
			vs := c.b.values()
			c.kept = append(c.kept, vs)
			step = "vl_ " + vhlib.IntList(vs)
		case "Size":
			coq = "QSize"
			step = "sz_ " + vhlib.Z(int64(c.b.size()))
		case "Empty":
			coq = "QEmpty"
			step = "em_ " + tf(c.b.empty())
		case "Full":
			coq = "QFull"
			step = "fu_ " + tf(c.b.full())
		}
	})
	if c.hung {
		return
	}
	if p {
		step = "SOp " + coq + " RPanic"
		c.dead = true
	}
	c.steps = append(c.steps, step)
	c.labels = append(c.labels, label)
}

func (c *caseBuilder) name(o op) string {
	switch o.K {
	case "Enq":
		return c.b.nEnq
	case "Push":
		return "Push(bulk)"
	case "Deq":
		return c.b.nDeq
	}
	return o.K
}

func (c *caseBuilder) do(o op) {
	if c.dead {
		return
	}
	if o.K == "Push" && c.b.push == nil {
		for _, v := range o.Vs {
			c.do(op{K: "Enq", V: v})
		}
		return
	}
	nm := c.name(o)
	c.hist = append(c.hist, o.String())
	c.call(o, nm)
	c.cmpSizes(nm)
	c.observe(nm)
}

func (c *caseBuilder) observe(after string) {
	qs := []string{"Peek", "Values", "Size", "Empty"}
	if c.b.full != nil {
		qs = append(qs, "Full")
	}
	for _, q := range qs {
		c.call(op{K: q}, after+"/"+q)
	}
	if c.dead {
		return
	}
	if c.b.shape != nil {
		var t string
		p := c.guarded("verif accessor", func() { t = c.b.shape() })
		if !p && !c.hung {
			c.steps = append(c.steps, t)
			c.labels = append(c.labels, after+"/shape")
		}
	}
	c.cmpSizes(after)
	if n := c.size(); n > c.peak {
		c.peak = n
	}
}

// scribble: a caller overwrites the slice it got from Values(); the container must not notice. No Coq step (model and
// reference ignore it); the usual observers follow.
func (c *caseBuilder) scribble() {
	if c.dead {
		return
	}
	c.hist = append(c.hist, "Scribble(Values())")
	p := c.guarded("Scribble(Values())", func() {
		if c.b.scribble != nil {
			c.b.scribble()
			return
		}
		s := c.b.values()
		for i := range s {
			s[i] = sentinel
		}
	})
	if !p && !c.hung {
		c.observe("Scribble")
	}
}

func (c *caseBuilder) emit(w *vhlib.Writer, profile string) {
	if c.hung { // reported by the watchdog as a direct violation
		return
	}
	if !c.dead { // aliasing judgement: the slices Values() returned, read again now
		it := make([]string, len(c.kept))
		for i, s := range c.kept {
			it[i] = vhlib.IntList(s)
		}
		c.steps = append(c.steps, "SKept "+vhlib.List(it))
		c.labels = append(c.labels, "kept Values() results")
	}
	term := fmt.Sprintf("{| c_kind := %s; c_steps := [%s] |}", c.k.coq, strings.Join(c.steps, ";\n "))
	w.Case(term, c.k.name+" "+profile, len(c.hist) >= 2 && c.peak >= 1, c.labels,
		map[string]interface{}{"structure": c.k.name, "profile": profile, "calls": c.hist})
}

func main() {
	o := vhlib.ParseOpts()
	rng := vhlib.NewRng(o.Seed)
	w := vhlib.NewWriter(o.Out, "From VF Require Import C07.Model C08.Model C08.Check.\nLocal Open Scope Z_scope.", "case", "mismatches", 150)
	thorough := o.Thorough()
	theWriter = w
	kinds := append(allKinds(), ifaceKinds()...)

	// ---- 1. bounded exhaustive: every word of length L over the alphabet ----
	alpha := []op{{K: "Enq", V: 0}, {K: "Enq", V: 1}, {K: "Enq", V: 2}, {K: "Deq"}}
	L := 4
	if thorough {
		alpha = append(alpha, op{K: "Clear"})
		L = 5
	}
	for _, k := range kinds {
		if k.safe && !(thorough && k.cap > 0 && k.cap <= 2) {
			continue
		}
		if k.noExh && !thorough {
			continue
		}
		l := L
		if k.cap > 0 && k.cap <= 3 && !thorough && !k.iface {
			l = 5 // wrap-around of the small rings (the larger ones wrap in the random long words)
		}
		if k.cap > 0 && !k.safe && thorough {
			l = 6
		}
		if k.iface { // interface element types: shorter words (the int kinds carry the long ones)
			l = 3
			if k.cap > 0 || thorough {
				l = 4
			}
			if k.cap > 0 && thorough {
				l = 5
			}
		}
		al := alpha
		if k.cap > 0 && !k.safe && thorough { // longer words over a smaller alphabet: two wrap-arounds of every ring
			al = []op{{K: "Enq", V: 0}, {K: "Enq", V: 1}, {K: "Deq"}, {K: "Clear"}}
		}
		word := make([]int, l)
		for {
			c := newCase(k)
			c.observe("New")
			for _, x := range word {
				c.do(al[x])
			}
			c.emit(w, "exhaustive")
			i := l - 1
			for i >= 0 {
				word[i]++
				if word[i] < len(al) {
					break
				}
				word[i] = 0
				i--
			}
			if i < 0 {
				break
			}
		}
	}
	// ---- 1b. Clear in every fill state, then reuse: for the rings every capacity x {empty, each partial fill, exactly
	//          full, full after k evictions, full with start moved by dequeue/enqueue}; for the others several sizes.
	//          The suffix enqueues more than two capacities, dequeues in between, clears once more and drains. ----
	for _, k := range kinds {
		var prefixes [][]op
		enq := func(n int, base int) []op {
			var r []op
			for i := 0; i < n; i++ {
				r = append(r, op{K: "Enq", V: (base + i) % 3})
			}
			return r
		}
		deq := func(n int) []op {
			var r []op
			for i := 0; i < n; i++ {
				r = append(r, op{K: "Deq"})
			}
			return r
		}
		if k.cap > 0 {
			c := k.cap
			for n := 0; n <= c; n++ { // empty, partial, exactly full
				prefixes = append(prefixes, enq(n, 1))
			}
			for j := 1; j <= c+1; j++ { // full after j evictions (wrap-around of end and start)
				prefixes = append(prefixes, enq(c+j, 0))
			}
			for d := 1; d <= c; d++ { // full again after d dequeues and d enqueues: start = d mod c
				prefixes = append(prefixes, append(append(enq(c, 2), deq(d)...), enq(d, 0)...))
			}
			for d := 1; d < c; d++ { // partial with start moved
				prefixes = append(prefixes, append(enq(c, 1), deq(d)...))
			}
		} else {
			for _, n := range []int{0, 1, 2, 3, 6, 9} {
				prefixes = append(prefixes, enq(n, 1))
			}
			prefixes = append(prefixes, append(enq(7, 0), deq(3)...), append(enq(4, 2), deq(4)...), append(enq(2, 0), deq(3)...))
			if k.heap {
				prefixes = append(prefixes, []op{{K: "Push", Vs: []int{2, 0, 1, 0, 2}}}, []op{{K: "Push", Vs: []int{}}})
			}
		}
		m := k.cap
		if m == 0 {
			m = 3
		}
		for pi, pre := range prefixes {
			if (k.safe || k.iface) && !thorough && pi%2 == 1 {
				continue
			}
			for variant := 0; variant < 2; variant++ {
				c := newCase(k)
				c.observe("New")
				for _, p := range pre {
					c.do(p)
				}
				c.do(op{K: "Clear"})
				if variant == 1 {
					c.do(op{K: "Clear"}) // Clear of a just-cleared container
					c.do(op{K: "Deq"})   // removal from the cleared container
				}
				// reuse: more than two capacities, a dequeue after every third enqueue
				for i := 0; i < 2*m+3; i++ {
					c.do(op{K: "Enq", V: (i + variant) % 3})
					if i%3 == 2 {
						c.do(op{K: "Deq"})
					}
				}
				if k.heap {
					c.do(op{K: "Push", Vs: []int{1, 0, 2, 0}})
				}
				c.scribble()
				c.do(op{K: "Enq", V: 1})
				c.do(op{K: "Clear"})
				for _, p := range enq(m+1, variant) {
					c.do(p)
				}
				for _, p := range deq(m + 2) { // drain, one removal past empty
					c.do(p)
				}
				c.emit(w, "clear-reuse")
			}
		}
	}
	// ---- 2. random long words in profiles ----
	walks := 12
	if thorough {
		walks = 200
	}
	for _, k := range kinds {
		for _, prof := range []string{"fill-drain", "churn", "zeros", "wide", "bulk", "spread"} {
			if prof == "bulk" && !k.heap {
				continue
			}
			if prof == "spread" && !k.ordered { // magnitudes of comparator results vary widely
				continue
			}
			nw := walks
			if k.ordered && !thorough {
				nw = 5
			}
			if k.safe && !thorough {
				nw = walks / 3
			}
			if k.iface && !thorough {
				nw = 2
			}
			for t := 0; t < nw; t++ {
				r := rng.Fork()
				c := newCase(k)
				walk(c, r, prof)
				c.emit(w, prof)
			}
		}
	}
	w.Close(o, "one case = one container (array/linked queue, circular buffer of capacity 1..5, priority queue and binary heap with comparators of several shapes: -1/0/+1, its reverse, a-b, b-a, (a-b)*7, struct priority subtraction; array/linked stack; plain or Safe wrapper; element type int, and for a share of the streams the interface types any, error and a user interface, whose zero value is the nil interface) driven through a word of Enqueue/Push, Dequeue/Pop, Clear, bulk Push (exhaustive short words, Clear in every fill state followed by reuse, profiled random long words); a caller scribbling over a Values() result is a step of some traces and every slice returned by Values() is read again at the end (aliasing judgement); after every mutator Peek, Values, Size, Empty (Full) and the ring cursors / heap array are recorded; distinct = distinct case terms; non-trivial = at least two mutators and a non-empty container reached")
}

func walk(c *caseBuilder, r *vhlib.Rng, prof string) {
	steps := r.Range(20, 45)
	val := func() int {
		switch prof {
		case "zeros":
			if r.Chance(2, 3) {
				return 0
			}
			return r.Intn(3)
		case "wide", "bulk":
			return r.Intn(9) - 2
		case "spread":
			return []int{-7, 0, 3, 10, 50, 51, 0, 3}[r.Intn(8)]
		}
		return r.Intn(3)
	}
	phaseUp := true
	for s := 0; s < steps && !c.dead; s++ {
		n := c.size()
		if r.Chance(1, 12) {
			c.scribble()
		}
		x := r.Intn(10)
		switch prof {
		case "fill-drain":
			if phaseUp && n >= r.Range(4, 11) {
				phaseUp = false
			} else if !phaseUp && n == 0 {
				phaseUp = true
				if r.Bool() {
					c.do(op{K: "Deq"}) // remove from empty
				}
			}
			if phaseUp {
				x = 0
			} else {
				x = 7
			}
			if r.Chance(1, 8) {
				x = r.Intn(10)
			}
		case "bulk":
			if r.Chance(1, 3) {
				k := r.Intn(8)
				vs := make([]int, k)
				for i := range vs {
					vs[i] = val()
				}
				c.do(op{K: "Push", Vs: vs})
				continue
			}
		}
		switch {
		case x <= 5:
			c.do(op{K: "Enq", V: val()})
		case x <= 8:
			c.do(op{K: "Deq"})
		default:
			if r.Chance(1, 3) {
				c.do(op{K: "Clear"})
			} else {
				c.do(op{K: "Deq"})
			}
		}
	}
}
