// C16 harness: runs the REAL sys/xxhash3 (Hash, Hash128, HashString, Hash128String) on every length of the
// tier, on random and structured data, with each of the three accumulation back ends forced through the verif
// hook (restored afterwards), at sub-slice offsets 0..63 of a 64-byte aligned buffer, with exact and extra
// capacity, and compares three ways:
//
//	Go result  vs  Coq Model and Coq Spec (vm_compute inside the case files: kind 1 / kind 2)
//	           vs  the in-tree independent port internal/xxh3_raw (re-exported by the hook)
//
// Inputs that do not go through Coq (the tier's budget) are compared Go-vs-xxh3_raw-vs-back-ends here and counted
// in the notes; every input on which anything disagrees is ADDED to the Coq cases (smallest first, capped), so
// that the Spec arbitrates (a Spec/xxh3_raw disagreement is reported as "Spec suspect", never blamed on the
// code). A back-end disagreement on the same bytes is additionally reported directly (w.Violation).
// Guard pages: see guard.go (child process).
package main

import (
	"encoding/hex"
	"fmt"
	"os"
	"os/exec"
	"runtime"
	"sort"
	"strings"
	"sync"
	"unsafe"

	"github.com/songzhibin97/go-baseutils/sys/xxhash3"

	"vh/vhlib"
)

type triple struct{ h64, hi, lo uint64 }

type backend struct {
	name       string
	avx2, sse2 bool
}

type input struct {
	n       int
	pattern string
	data    []byte
	coq     bool // goes through Coq regardless of the outcome
	raw     triple
	// distinct observed triples in deterministic order, with the first variant that produced each
	obs    []triple
	labels []string
	calls  int
	wrote  string // non-empty: a variant after which the input bytes had changed
	desc   string // crafted inputs: how the bytes were derived
}

func lenClass(n int) string {
	switch {
	case n == 0:
		return "0"
	case n <= 3:
		return "1-3"
	case n <= 8:
		return "4-8"
	case n <= 16:
		return "9-16"
	case n <= 128:
		return "17-128"
	case n <= 240:
		return "129-240"
	case n <= 1024:
		return "241-1024"
	default:
		return ">1024"
	}
}

func mkData(seed uint64, n int, pattern string) []byte {
	b := make([]byte, n)
	switch pattern {
	case "zero":
	case "ff":
		for i := range b {
			b[i] = 0xff
		}
	case "counter":
		for i := range b {
			b[i] = byte(i)
		}
	default: // random, derived from (seed, n, pattern) only
		r := vhlib.NewRng(seed ^ uint64(n)*0x9E3779B97F4A7C15 ^ uint64(len(pattern))<<56)
		i := 0
		for ; i+8 <= n; i += 8 {
			v := r.U64()
			for k := 0; k < 8; k++ {
				b[i+k] = byte(v >> (8 * uint(k)))
			}
		}
		v := r.U64()
		for ; i < n; i++ {
			b[i] = byte(v)
			v >>= 8
		}
	}
	return b
}

func (in *input) record(t triple, label string) {
	in.calls++
	for _, o := range in.obs {
		if o == t {
			return
		}
	}
	in.obs = append(in.obs, t)
	in.labels = append(in.labels, label)
}

// aligned returns a sub-slice of a fresh buffer whose first byte is at address = 0 mod 64, of length n.
func alignedBuf(n int) []byte {
	buf := make([]byte, n+64)
	a := uintptr(unsafe.Pointer(&buf[0])) & 63
	s := 0
	if a != 0 {
		s = int(64 - a)
	}
	return buf[s : s+n]
}

func strView(b []byte) string {
	return *(*string)(unsafe.Pointer(&b)) // same memory, same alignment (what hack.BytesToString does)
}

// runVariants hashes in.data with the currently selected back end at the given offsets.
func runVariants(in *input, be string, offsets []int, work []byte) {
	n := in.n
	for _, off := range offsets {
		// work is 64-byte aligned and has room for 63 + n + 64 bytes
		region := work[: off+n+37 : off+n+37]
		for i := range region {
			region[i] = 0xA5
		}
		copy(region[off:], in.data)
		for _, capv := range []string{"cap=len", "cap>len"} {
			var b []byte
			if capv == "cap=len" {
				b = region[off : off+n : off+n]
			} else {
				b = region[off : off+n]
			}
			h := xxhash3.Hash(b)
			h2 := xxhash3.Hash128(b)
			in.record(triple{h, h2[0], h2[1]}, fmt.Sprintf("%s/off%d/%s/Hash,Hash128", be, off, capv))
			s := strView(b)
			hs := xxhash3.HashString(s)
			hs2 := xxhash3.Hash128String(s)
			in.record(triple{hs, hs2[0], hs2[1]}, fmt.Sprintf("%s/off%d/%s/HashString,Hash128String", be, off, capv))
		}
		// never modifies: the bytes and their surroundings are what was put there
		ok := true
		for i := 0; i < off && ok; i++ {
			ok = region[i] == 0xA5
		}
		for i := 0; i < n && ok; i++ {
			ok = region[off+i] == in.data[i]
		}
		for i := off + n; i < len(region) && ok; i++ {
			ok = region[i] == 0xA5
		}
		if !ok && in.wrote == "" {
			in.wrote = fmt.Sprintf("%s/off%d", be, off)
		}
	}
	// a heap copy as a Go string (fresh allocation, its own alignment)
	s := string(in.data)
	hs := xxhash3.HashString(s)
	hs2 := xxhash3.Hash128String(s)
	in.record(triple{hs, hs2[0], hs2[1]}, be+"/string-copy/HashString,Hash128String")
}

// wordsTerm renders the bytes as little-endian 64-bit words (the last one zero-padded).
func wordsTerm(b []byte) string {
	ws := make([]string, 0, (len(b)+7)/8)
	for i := 0; i < len(b); i += 8 {
		var v uint64
		for k := 0; k < 8 && i+k < len(b); k++ {
			v |= uint64(b[i+k]) << (8 * uint(k))
		}
		ws = append(ws, fmt.Sprintf("0x%x", v))
	}
	return vhlib.List(ws)
}

func obsTerm(t triple) string {
	return fmt.Sprintf("{| o_h64 := %s; o_hi := %s; o_lo := %s |}", vhlib.ZU(t.h64), vhlib.ZU(t.hi), vhlib.ZU(t.lo))
}

func main() {
	if os.Getenv("C16_GUARD_CHILD") != "" {
		guardChild()
		return
	}
	if os.Getenv("C16_HUGE_CHILD") != "" {
		hugeChild()
		return
	}
	o := vhlib.ParseOpts()
	// the two child processes (guard pages, > 2 GiB inputs) run concurrently with the main differential
	hugeCh := make(chan guardResult, 1)
	go func() { hugeCh <- runHugeChild(o) }()
	rng := vhlib.NewRng(o.Seed)
	thorough := o.Thorough()

	hasAVX2, hasSSE2 := xxhash3.VerifCPU()
	backends := []backend{}
	if hasAVX2 {
		backends = append(backends, backend{"avx2", true, true})
	}
	if hasSSE2 {
		backends = append(backends, backend{"sse2", false, true})
	}
	backends = append(backends, backend{"scalar", false, false})
	defA, defS := xxhash3.VerifBackend()

	// ---------------- inputs ----------------
	maxAll := 1100
	coqAllRandom := 1100 // every length up to here goes through Coq with random data
	coqStructured := 300 // ... and with the structured patterns up to here
	if thorough {
		maxAll = 8192
		coqAllRandom = 2100
		coqStructured = 600
	}
	specials := []int{1023, 1024, 1025, 2047, 2048, 2049, 3071, 3072, 3073, 4095, 4096, 4097, 8191, 8192, 8193}
	patterns := []string{"random", "zero", "ff", "counter"}
	var inputs []*input
	add := func(n int, p string, coq bool) {
		inputs = append(inputs, &input{n: n, pattern: p, data: mkData(o.Seed, n, p), coq: coq})
	}
	for n := 0; n <= maxAll; n++ {
		for _, p := range patterns {
			// quick: random data on every length up to 400 and 960..1100 (block boundary 1024/1025, stripe boundaries),
			// every 7th length in between; structured data on every length up to 130, every 3rd up to 300
			coq := (p == "random" && n <= coqAllRandom && (thorough || n <= 400 || n >= 960 || n%7 == 0)) ||
				(n <= coqStructured && (thorough || n <= 130 || n%3 == 0 || p == "random"))
			if thorough && p == "random" && n > coqAllRandom && (n%64 <= 1 || n%64 == 63 || n%1024 <= 1 || n%1024 == 1023) {
				coq = true // stripe and block boundaries and their neighbours
			}
			add(n, p, coq)
		}
	}
	for _, n := range specials {
		if n > maxAll {
			add(n, "random", true)
			add(n, "counter", false)
		}
	}
	nLarge := 6
	if thorough {
		nLarge = 40
	}
	for i := 0; i < nLarge; i++ {
		n := 8194 + rng.Intn(4000)
		add(n, "random", i < 3)
	}
	for i := 0; i < nLarge; i++ { // much larger: harness-only (Go vs xxh3_raw vs back ends)
		n := 20000 + rng.Intn(1<<20)
		add(n, "random", false)
	}

	// inputs crafted relative to the default secret (secretrel.go)
	craftedIn, secretSrc := secretRelativeInputs(o.Seed, thorough)
	nCraftedCoq := 0
	for _, c := range craftedIn {
		inputs = append(inputs, &input{n: len(c.data), pattern: "secret-rel", data: c.data, coq: c.coq, desc: c.desc})
		if c.coq {
			nCraftedCoq++
		}
	}

	// ---------------- run the real code ----------------
	for _, in := range inputs {
		c := append([]byte(nil), in.data...)
		h := xxhash3.VerifRawHash(c)
		h2 := xxhash3.VerifRawHash128(c)
		in.raw = triple{h, h2[0], h2[1]}
	}
	workers := runtime.GOMAXPROCS(0)
	for _, be := range backends {
		restore := xxhash3.VerifSetBackend(be.avx2, be.sse2)
		var wg sync.WaitGroup
		chunks := make(chan int, len(inputs))
		for i := range inputs {
			chunks <- i
		}
		close(chunks)
		// the offsets of every input are fixed before the workers start (determinism)
		offs := make([][]int, len(inputs))
		for i, in := range inputs {
			switch {
			case thorough && in.pattern == "random" && in.n <= 8192:
				all := make([]int, 64)
				for k := range all {
					all[k] = k
				}
				offs[i] = all
			case in.n > 20000:
				offs[i] = []int{0, 1 + rng.Intn(63)}
			default:
				offs[i] = []int{0, 1 + rng.Intn(7), 8 + rng.Intn(8), 16 + rng.Intn(16), 32 + rng.Intn(31), 63}
			}
		}
		for wk := 0; wk < workers; wk++ {
			wg.Add(1)
			go func() {
				defer wg.Done()
				var work []byte
				for i := range chunks {
					in := inputs[i]
					need := 63 + in.n + 64
					if len(work) < need {
						work = alignedBuf(need + need/4)
					}
					runVariants(in, be.name, offs[i], work)
				}
			}()
		}
		wg.Wait()
		restore()
	}
	if a, s := xxhash3.VerifBackend(); a != defA || s != defS {
		panic("back end selection not restored")
	}

	// ---------------- classify ----------------
	var viol []guardViolation
	var bad []*input
	harnessOnly, harnessCalls, coqCalls := 0, 0, 0
	for _, in := range inputs {
		agree := len(in.obs) == 1 && in.obs[0] == in.raw
		if !agree {
			bad = append(bad, in)
		}
		if len(in.obs) > 1 {
			viol = append(viol, guardViolation{fmt.Sprintf("len-class %s/%s", lenClass(in.n), in.pattern), "back ends / layouts / entry points disagree on the same bytes",
				map[string]interface{}{"len": in.n, "pattern": in.pattern, "data_seed": o.Seed, "variants": in.labels, "results": fmt.Sprint(in.obs), "xxh3_raw": fmt.Sprint(in.raw)}})
		}
		if in.wrote != "" {
			viol = append(viol, guardViolation{fmt.Sprintf("len-class %s/%s", lenClass(in.n), in.pattern), "hashing modified the input or its surroundings",
				map[string]interface{}{"len": in.n, "pattern": in.pattern, "data_seed": o.Seed, "variant": in.wrote}})
		}
		if in.coq {
			coqCalls += in.calls
		} else {
			harnessOnly++
			harnessCalls += in.calls
		}
	}
	// disagreeing inputs that were not scheduled for Coq: let the Spec arbitrate on the smallest ones
	sort.SliceStable(bad, func(i, j int) bool { return bad[i].n < bad[j].n })
	extra := 0
	for _, in := range bad {
		if !in.coq && extra < 24 && in.n <= 20000 {
			in.coq = true
			extra++
		}
	}
	var cases []*input
	for _, in := range inputs {
		if in.coq {
			cases = append(cases, in)
		}
	}
	// balance the shards: equal case counts, similar byte totals (largest first, dealt in snake order)
	nsh := 2 * workers
	totalBytes := 0
	for _, in := range cases {
		totalBytes += in.n
	}
	if k := totalBytes/65536 + 1; k > nsh { // at most ~64 KB of input per shard (memory of one coqc)
		nsh = k
	}
	if nsh > len(cases) {
		nsh = len(cases)
	}
	if nsh < 1 {
		nsh = 1
	}
	// nsh bins of exactly `per` cases each (largest first, dealt in snake order: similar byte totals); the
	// fewer than nsh smallest cases that remain form a last short shard. The Writer cuts a shard every `per` cases.
	per := len(cases) / nsh
	order := make([]*input, len(cases))
	copy(order, cases)
	sort.SliceStable(order, func(i, j int) bool { return order[i].n > order[j].n })
	bins := make([][]*input, nsh+1)
	for i, in := range order {
		if per == 0 || i >= per*nsh {
			bins[nsh] = append(bins[nsh], in)
			continue
		}
		round, pos := i/nsh, i%nsh
		if round%2 == 1 {
			pos = nsh - 1 - pos
		}
		bins[pos] = append(bins[pos], in)
	}
	if per < 1 {
		per = 1
	}
	w := vhlib.NewWriter(o.Out, "From VF Require Import C16.Spec C16.Model C16.Check.\nLocal Open Scope Z_scope.", "case", "mismatches", per)
	for _, v := range viol {
		w.Violation(v.Label, v.What, v.Detail)
	}
	for _, bin := range bins {
		for _, in := range bin {
			obs := make([]string, len(in.obs))
			for i, t := range in.obs {
				obs[i] = obsTerm(t)
			}
			term := fmt.Sprintf("{| c_len := %s; c_words := %s; c_raw := %s; c_obs := %s |}", vhlib.Nat(in.n), wordsTerm(in.data), obsTerm(in.raw), vhlib.List(obs))
			steps := append([]string{"Spec vs internal/xxh3_raw (the Spec is suspect)"}, in.labels...)
			replay := map[string]interface{}{"len": in.n, "pattern": in.pattern, "data_seed": o.Seed,
				"variants": in.labels, "observed": fmt.Sprint(in.obs), "xxh3_raw": fmt.Sprint(in.raw)}
			if in.desc != "" {
				replay["crafted"] = in.desc
			}
			if in.n <= 64 || in.desc != "" || (in.n <= 20000 && !(len(in.obs) == 1 && in.obs[0] == in.raw)) {
				replay["data_hex"] = hex.EncodeToString(in.data) // always for an input on which anything disagrees
			}
			w.Case(term, fmt.Sprintf("len-class %s/%s", lenClass(in.n), in.pattern), in.n >= 1, steps, replay)
		}
	}

	// ---------------- guard pages (child process) ----------------
	gres := runGuardChild(o)
	for _, v := range gres.Violations {
		w.Violation(v.Label, v.What, v.Detail)
	}
	hres := <-hugeCh
	for _, v := range hres.Violations {
		w.Violation(v.Label, v.What, v.Detail)
	}
	names := make([]string, len(backends))
	for i, be := range backends {
		names[i] = be.name
	}
	w.Notes["backends"] = strings.Join(names, ",")
	w.Notes["inputs_total"] = len(inputs)
	w.Notes["inputs_through_coq"] = len(cases)
	w.Notes["inputs_harness_only(go_vs_xxh3_raw_vs_backends)"] = harnessOnly
	w.Notes["hash_calls_on_coq_inputs"] = coqCalls
	w.Notes["hash_calls_harness_only"] = harnessCalls
	w.Notes["inputs_with_any_disagreement"] = len(bad)
	w.Notes["disagreeing_inputs_added_to_coq"] = extra
	w.Notes["guard_page_hash_calls"] = gres.Calls
	w.Notes["secret_relative_inputs"] = len(craftedIn)
	w.Notes["secret_relative_inputs_through_coq"] = nCraftedCoq
	w.Notes["secret_relative_pairing_source"] = secretSrc
	w.Notes["guard_page_child"] = gres.Status
	w.Notes["huge_input_child(>2GiB)"] = hres.Status
	w.Notes["huge_input_lengths"] = fmt.Sprint(hugeLengths(thorough))
	w.Notes["huge_input_hash_calls"] = hres.Calls
	w.Close(o, "one case = one byte string (length, pattern) with the distinct (Hash, Hash128) results the real code returned over all back ends "+
		"("+strings.Join(names, ",")+"), sub-slice offsets, capacities and entry points (HashString/Hash128String on the same memory and on a copy), plus the xxh3_raw digests; "+
		"the Coq checker evaluates Spec and Model on the bytes. distinct = distinct case terms; non-trivial = length >= 1. "+
		"Inputs not sent through Coq are compared Go vs xxh3_raw vs back ends in the harness and counted in harness_notes.")
	if len(bad) > 0 {
		fmt.Printf("c16: %d input(s) with a disagreement (first: len %d %s)\n", len(bad), bad[0].n, bad[0].pattern)
	}
}

// ---- guard-page child plumbing ----

type guardViolation struct {
	Label  string      `json:"label"`
	What   string      `json:"what"`
	Detail interface{} `json:"detail"`
}
type guardResult struct {
	Calls      int              `json:"calls"`
	Status     string           `json:"status"`
	Violations []guardViolation `json:"violations"`
}

func runGuardChild(o vhlib.Opts) guardResult {
	exe, err := os.Executable()
	if err != nil {
		return guardResult{Status: "cannot locate executable: " + err.Error(),
			Violations: []guardViolation{{"guard-pages", "guard-page child could not be started", err.Error()}}}
	}
	cmd := exec.Command(exe)
	cmd.Env = append(os.Environ(), "C16_GUARD_CHILD=1", fmt.Sprintf("C16_SEED=%d", o.Seed), "C16_TIER="+o.Tier)
	var stdout, stderr strings.Builder
	cmd.Stdout = &stdout
	cmd.Stderr = &stderr
	err = cmd.Run()
	res, ok := parseGuard(stdout.String())
	if err != nil || !ok {
		tail := stderr.String()
		if len(tail) > 1500 {
			tail = tail[len(tail)-1500:]
		}
		res.Status = fmt.Sprintf("child failed: %v", err)
		res.Violations = append(res.Violations, guardViolation{"guard-pages", "guard-page child crashed (fault that could not be recovered) or produced no report",
			map[string]interface{}{"error": fmt.Sprint(err), "stderr_tail": tail, "last_progress": lastLine(stdout.String())}})
	}
	return res
}

func lastLine(s string) string {
	s = strings.TrimSpace(s)
	if i := strings.LastIndex(s, "\n"); i >= 0 {
		s = s[i+1:]
	}
	if len(s) > 300 {
		s = s[:300]
	}
	return s
}
