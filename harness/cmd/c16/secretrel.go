package main

// "Secret-relative" stream: inputs crafted RELATIVE TO THE DEFAULT SECRET so that the operands of XXH3's internal
// multiplications / folds take special values. On random data an operand  input_word ^ secret_word  is an
// arbitrary 64-bit value: an implementation slip that only shows when an operand is 0, below 2^32, a multiple
// of 2^32, all ones ... has probability ~2^-31 per call and is never seen. Here, for a set of lengths of every
// class and for every window (8-byte word; 4-byte word and single byte on the short paths) that XXH3 reads,
// the window is overwritten with  (secret word XXH3 pairs it with) XOR d  for d in a set of special values;
// plus inputs where both operands of one fold are special, and inputs where every window is secret-like.
//
// The pairing (which input offset meets which secret offset) is written here from the SPEC side -- the XXH3
// definition as transcribed in coq/theories/C16/Spec.v (len_4to8, len_9to16, len_17to128, len_129to240,
// accumulate/long_acc and their _128 counterparts) -- and the secret bytes are read from Spec.v itself
// (kSecret; an embedded copy is the fallback and must agree). Nothing here looks at the implementation under
// test, so a slip in the implementation's pairing is not mirrored.
//
// All of these inputs run through every back end, offset, capacity and entry point like any other input and are
// compared with internal/xxh3_raw in the harness; a rotating sample goes through Coq (Spec and Model), and every
// input on which anything disagrees is added to the Coq cases (the Spec arbitrates: kind 2).

import (
	"fmt"
	"os"
	"regexp"
	"strconv"

	"vh/vhlib"
)

// XXH3_kSecret, copied from coq/theories/C16/Spec.v (fallback when Spec.v cannot be read at run time)
var kSecretEmbedded = [192]byte{
	0xb8, 0xfe, 0x6c, 0x39, 0x23, 0xa4, 0x4b, 0xbe, 0x7c, 0x01, 0x81, 0x2c, 0xf7, 0x21, 0xad, 0x1c,
	0xde, 0xd4, 0x6d, 0xe9, 0x83, 0x90, 0x97, 0xdb, 0x72, 0x40, 0xa4, 0xa4, 0xb7, 0xb3, 0x67, 0x1f,
	0xcb, 0x79, 0xe6, 0x4e, 0xcc, 0xc0, 0xe5, 0x78, 0x82, 0x5a, 0xd0, 0x7d, 0xcc, 0xff, 0x72, 0x21,
	0xb8, 0x08, 0x46, 0x74, 0xf7, 0x43, 0x24, 0x8e, 0xe0, 0x35, 0x90, 0xe6, 0x81, 0x3a, 0x26, 0x4c,
	0x3c, 0x28, 0x52, 0xbb, 0x91, 0xc3, 0x00, 0xcb, 0x88, 0xd0, 0x65, 0x8b, 0x1b, 0x53, 0x2e, 0xa3,
	0x71, 0x64, 0x48, 0x97, 0xa2, 0x0d, 0xf9, 0x4e, 0x38, 0x19, 0xef, 0x46, 0xa9, 0xde, 0xac, 0xd8,
	0xa8, 0xfa, 0x76, 0x3f, 0xe3, 0x9c, 0x34, 0x3f, 0xf9, 0xdc, 0xbb, 0xc7, 0xc7, 0x0b, 0x4f, 0x1d,
	0x8a, 0x51, 0xe0, 0x4b, 0xcd, 0xb4, 0x59, 0x31, 0xc8, 0x9f, 0x7e, 0xc9, 0xd9, 0x78, 0x73, 0x64,
	0xea, 0xc5, 0xac, 0x83, 0x34, 0xd3, 0xeb, 0xc3, 0xc5, 0x81, 0xa0, 0xff, 0xfa, 0x13, 0x63, 0xeb,
	0x17, 0x0d, 0xdd, 0x51, 0xb7, 0xf0, 0xda, 0x49, 0xd3, 0x16, 0x55, 0x26, 0x29, 0xd4, 0x68, 0x9e,
	0x2b, 0x16, 0xbe, 0x58, 0x7d, 0x47, 0xa1, 0xfc, 0x8f, 0xf8, 0xb8, 0xd1, 0x7a, 0xd0, 0x31, 0xce,
	0x45, 0xcb, 0x3a, 0x8f, 0x95, 0x16, 0x04, 0x28, 0xaf, 0xd7, 0xfb, 0xca, 0xbb, 0x4b, 0x40, 0x7e,
}

// specSecret returns kSecret as written in Spec.v and where it was taken from.
func specSecret() ([]byte, string) {
	re := regexp.MustCompile(`(?s)Definition kSecret : list Z := \[(.*?)\]\.`)
	num := regexp.MustCompile(`0x[0-9a-fA-F]+`)
	for _, p := range []string{"../coq/theories/C16/Spec.v", "coq/theories/C16/Spec.v", "/verif/coq/theories/C16/Spec.v"} {
		b, err := os.ReadFile(p)
		if err != nil {
			continue
		}
		m := re.FindSubmatch(b)
		if m == nil {
			continue
		}
		var sec []byte
		for _, t := range num.FindAll(m[1], -1) {
			v, err := strconv.ParseUint(string(t[2:]), 16, 8)
			if err != nil {
				sec = nil
				break
			}
			sec = append(sec, byte(v))
		}
		if len(sec) != 192 {
			continue
		}
		for i := range sec {
			if sec[i] != kSecretEmbedded[i] {
				panic("c16: the harness copy of kSecret differs from coq/theories/C16/Spec.v")
			}
		}
		return sec, "Spec.v kSecret (" + p + ")"
	}
	return kSecretEmbedded[:], "embedded copy of Spec.v kSecret"
}

func le(b []byte, off, width int) uint64 {
	var v uint64
	for k := 0; k < width; k++ {
		v |= uint64(b[off+k]) << (8 * uint(k))
	}
	return v
}

func putLE(b []byte, off, width int, v uint64) {
	for k := 0; k < width; k++ {
		b[off+k] = byte(v >> (8 * uint(k)))
	}
}

// one window of the input that XXH3 combines (XOR) with a secret-derived word
type window struct {
	off, width int    // bytes off .. off+width-1 of the input
	pair       uint64 // the secret-derived word it is XORed with (already reduced to `width` bytes)
	dep        int    // >= 0: the pairing word additionally includes the 8-byte input word at this offset (Hash128, 9..16)
	what       string // where in the Spec
}

type pairing struct {
	name   string
	wins   []window
	groups [][2]int // indices of the two windows that are the operands of one 64x64 fold
}

// pairingsFor lists, for an input of n bytes, what XXH3 (64-bit) and XXH3-128 pair with the secret.
func pairingsFor(n int, sec []byte, rng *vhlib.Rng) []pairing {
	s64 := func(o int) uint64 { return le(sec, o, 8) }
	s32 := func(o int) uint64 { return le(sec, o, 4) }
	var h64, h128 pairing
	h64.name, h128.name = "xxh3_64", "xxh3_128"
	add := func(p *pairing, off, width int, pair uint64, what string) int {
		p.wins = append(p.wins, window{off, width, pair, -1, what})
		return len(p.wins) - 1
	}
	mix16 := func(p *pairing, o, so int, what string) { // XXH3_mix16B(in+o, secret+so)
		a := add(p, o, 8, s64(so), what)
		b := add(p, o+8, 8, s64(so+8), what)
		p.groups = append(p.groups, [2]int{a, b})
	}
	switch {
	case n == 0:
	case n <= 3:
		// combined = c1<<16 | c2<<24 | c3 | len<<8, keyed with sec32(0)^sec32(4) (64) ; high word with sec32(8)^sec32(12) (128)
		k := s32(0) ^ s32(4)
		add(&h64, 0, 1, (k>>16)&0xff, "len_1to3 c1")
		add(&h64, n>>1, 1, (k>>24)&0xff, "len_1to3 c2")
		add(&h64, n-1, 1, k&0xff, "len_1to3 c3")
		h128.wins = append(h128.wins, h64.wins...)
	case n <= 8:
		// 64: input64 = rd32(len-4) + rd32(0)<<32, keyed with sec64(8)^sec64(16)
		b := s64(8) ^ s64(16)
		x := add(&h64, 0, 4, b>>32, "len_4to8 in1 (high half)")
		y := add(&h64, n-4, 4, b&0xffffffff, "len_4to8 in2 (low half)")
		h64.groups = append(h64.groups, [2]int{x, y})
		// 128: input64 = rd32(0) + rd32(len-4)<<32, keyed with sec64(16)^sec64(24)
		b = s64(16) ^ s64(24)
		x = add(&h128, 0, 4, b&0xffffffff, "len_4to8_128 in_lo (low half)")
		y = add(&h128, n-4, 4, b>>32, "len_4to8_128 in_hi (high half)")
		h128.groups = append(h128.groups, [2]int{x, y})
	case n <= 16:
		x := add(&h64, 0, 8, s64(24)^s64(32), "len_9to16 lo")
		y := add(&h64, n-8, 8, s64(40)^s64(48), "len_9to16 hi")
		h64.groups = append(h64.groups, [2]int{x, y})
		// 128: in_hi ^ (sec64(48)^sec64(56)); in_lo ^ in_hi ^ (sec64(32)^sec64(40))
		y = add(&h128, n-8, 8, s64(48)^s64(56), "len_9to16_128 in_hi ^ bitfliph")
		x = add(&h128, 0, 8, s64(32)^s64(40), "len_9to16_128 in_lo ^ in_hi ^ bitflipl")
		h128.wins[x].dep = n - 8
		h128.groups = append(h128.groups, [2]int{y, x})
	case n <= 128:
		for i := 0; i <= (n-1)/32; i++ {
			mix16(&h64, 16*i, 32*i, fmt.Sprintf("len_17to128 i=%d first", i))
			mix16(&h64, n-16*(i+1), 32*i+16, fmt.Sprintf("len_17to128 i=%d second", i))
		}
		h128 = pairing{name: "xxh3_128", wins: h64.wins, groups: h64.groups} // mix32 pairs the same words
	case n <= 240:
		for i := 0; i < 8; i++ {
			mix16(&h64, 16*i, 16*i, fmt.Sprintf("len_129to240 round %d", i))
		}
		for i := 8; i < n/16; i++ {
			mix16(&h64, 16*i, 16*(i-8)+3, fmt.Sprintf("len_129to240 round %d", i))
		}
		mix16(&h64, n-16, 119, "len_129to240 last")
		// 128: rounds are 32 bytes wide (i < len/32); last = mix32(in+len-16, in+len-32, secret+103)
		for i := 0; i < 4; i++ {
			mix16(&h128, 32*i, 32*i, fmt.Sprintf("len_129to240_128 round %d lo", i))
			mix16(&h128, 32*i+16, 32*i+16, fmt.Sprintf("len_129to240_128 round %d hi", i))
		}
		for i := 4; i < n/32; i++ {
			mix16(&h128, 32*i, 3+32*(i-4), fmt.Sprintf("len_129to240_128 round %d lo", i))
			mix16(&h128, 32*i+16, 3+32*(i-4)+16, fmt.Sprintf("len_129to240_128 round %d hi", i))
		}
		mix16(&h128, n-16, 103, "len_129to240_128 last lo")
		mix16(&h128, n-32, 119, "len_129to240_128 last hi")
	default:
		// accumulate: lane j of stripe S (S-th 64 bytes) meets sec64(8*(S mod 16) + 8j); the last 64 bytes meet sec64(121 + 8j).
		// A lane's two multiplication operands are the halves of (data ^ secret): the d values cover both.
		stripes := (n - 1) / 64
		lane := func(S, j int) {
			add(&h64, 64*S+8*j, 8, s64(8*(S%16)+8*j), fmt.Sprintf("accumulate stripe %d lane %d", S, j))
		}
		for j := 0; j < 8; j++ {
			lane(0, j)
		}
		for k := 0; k < 8; k++ {
			lane(rng.Intn(stripes), rng.Intn(8))
		}
		if stripes > 16 {
			lane(15, 7)
			lane(16, 0)
		}
		for j := 0; j < 8; j++ {
			add(&h64, n-64+8*j, 8, s64(121+8*j), fmt.Sprintf("accumulate last stripe lane %d", j))
		}
		h128 = pairing{} // same accumulation
	}
	var out []pairing
	if len(h64.wins) > 0 {
		out = append(out, h64)
	}
	if len(h128.wins) > 0 && n > 3 && !(n > 16 && n <= 128) {
		out = append(out, h128)
	}
	return out
}

func specialDeltas(width int, rng *vhlib.Rng) []uint64 {
	switch width {
	case 1:
		return []uint64{0, 1, 0x80, 0xff}
	case 4:
		return []uint64{0, 1, 0xff, 1 << 31, 1<<32 - 1, 0xffff, uint64(uint32(rng.U64())), uint64(rng.Intn(1 << 12))}
	}
	return []uint64{0, 1, 0xff, 1 << 31, 1<<32 - 1, 1 << 32, 1 << 63, ^uint64(0),
		uint64(rng.Intn(1 << 16)), rng.U64() >> 32, rng.U64() << 32}
}

func (w window) write(data []byte, d uint64) {
	p := w.pair
	if w.dep >= 0 {
		p ^= le(data, w.dep, 8)
	}
	v := p ^ d
	if w.width < 8 {
		v &= 1<<(8*uint(w.width)) - 1
	}
	putLE(data, w.off, w.width, v)
}

type crafted struct {
	data []byte
	desc string
	coq  bool
}

// secretRelativeInputs builds the stream. coqEvery: of the single-window inputs, every coqEvery-th goes through Coq.
func secretRelativeInputs(seed uint64, thorough bool) ([]crafted, string) {
	sec, src := specSecret()
	rng := vhlib.NewRng(seed*31 + 5)
	lens := []int{1, 2, 3, 4, 5, 7, 8, 9, 12, 15, 16, 17, 24, 31, 32, 33, 48, 64, 65, 80, 96, 97, 127, 128,
		129, 144, 160, 176, 191, 192, 208, 224, 239, 240, 241, 300, 1024, 1025, 1100, 2100}
	if thorough {
		for n := 4; n <= 260; n++ {
			lens = append(lens, n)
		}
		lens = append(lens, 512, 1088, 2048, 2049, 4096, 5000)
	}
	var out []crafted
	seen := map[int]bool{}
	for _, n := range lens {
		if seen[n] {
			continue
		}
		seen[n] = true
		for _, pr := range pairingsFor(n, sec, rng) {
			base := func() []byte { return mkData(seed+uint64(len(out)), n, "secret-rel") }
			// (a) one window special
			for wi, w := range pr.wins {
				ds := specialDeltas(w.width, rng)
				for di, d := range ds {
					data := base()
					w.write(data, d)
					out = append(out, crafted{data, fmt.Sprintf("%s: %s: input[%d..%d) = paired secret word ^ %#x", pr.name, w.what, w.off, w.off+w.width, d),
						n <= 240 && di == (wi+int(seed))%len(ds) && (wi+int(seed)/2)%2 == 0})
				}
			}
			// (b) both operands of one fold special
			for _, g := range pr.groups {
				a, b := pr.wins[g[0]], pr.wins[g[1]]
				da, db := specialDeltas(a.width, rng), specialDeltas(b.width, rng)
				for k := 0; k < 6; k++ {
					x, y := da[(k*3)%len(da)], db[(k*5+1)%len(db)]
					if k == 0 {
						x, y = 0, 0
					}
					data := base()
					a.write(data, x)
					b.write(data, y)
					if a.dep >= 0 { // the dependent word is written last
						a.write(data, x)
					}
					if b.dep >= 0 {
						b.write(data, y)
					}
					out = append(out, crafted{data, fmt.Sprintf("%s: %s / %s: both operands special (^%#x, ^%#x)", pr.name, a.what, b.what, x, y), k == int(seed)%6 && n <= 64})
				}
			}
			// (c) every window secret-like
			nd := 11
			for k := 0; k < nd; k++ {
				data := base()
				for wi, w := range pr.wins {
					if w.dep >= 0 {
						continue
					}
					ds := specialDeltas(w.width, rng)
					w.write(data, ds[(k+wi)%len(ds)])
				}
				for wi, w := range pr.wins {
					if w.dep >= 0 {
						ds := specialDeltas(w.width, rng)
						w.write(data, ds[(k+wi)%len(ds)])
					}
				}
				out = append(out, crafted{data, fmt.Sprintf("%s: every window = paired secret word ^ special value (rotation %d)", pr.name, k), k < 2})
			}
		}
	}
	return out, src
}
