package main

// Guard pages: the bytes to hash are placed in an mmap'ed region between two PROT_NONE pages, flush against the
// trailing guard (any read past the end faults) and right after the leading guard (any read before the start
// faults); the region itself is made read-only while hashing (any write faults). Faults are turned into
// panics (debug.SetPanicOnFault) and recovered; this runs in a child process so that a fault that cannot be
// recovered (e.g. inside the assembly back ends) is still observed by the parent as a crash.

import (
	"encoding/json"
	"fmt"
	"os"
	"runtime/debug"
	"strconv"
	"strings"
	"syscall"
	"unsafe"

	"github.com/songzhibin97/go-baseutils/sys/xxhash3"

	"vh/vhlib"
)

func parseGuard(out string) (guardResult, bool) {
	var res guardResult
	i := strings.LastIndex(out, "RESULT ")
	if i < 0 {
		return res, false
	}
	if err := json.Unmarshal([]byte(strings.TrimSpace(out[i+7:])), &res); err != nil {
		return res, false
	}
	return res, true
}

type faultInfo struct {
	addr uintptr
	msg  string
}

func try(f func()) (fi *faultInfo) {
	defer func() {
		if r := recover(); r != nil {
			fi = &faultInfo{msg: fmt.Sprint(r)}
			if e, ok := r.(interface{ Addr() uintptr }); ok {
				fi.addr = e.Addr()
			}
		}
	}()
	f()
	return nil
}

func guardChild() {
	seed, _ := strconv.ParseUint(os.Getenv("C16_SEED"), 10, 64)
	thorough := os.Getenv("C16_TIER") == "thorough"
	debug.SetPanicOnFault(true)
	rng := vhlib.NewRng(seed + 77)
	page := syscall.Getpagesize()

	var lens []int
	maxDense := 320
	if thorough {
		maxDense = 2200
	}
	for n := 0; n <= maxDense; n++ {
		lens = append(lens, n)
	}
	for _, n := range []int{511, 512, 513, 959, 960, 961, 1023, 1024, 1025, 1087, 1088, 1089, 2047, 2048, 2049, 3072, 3073, 4095, 4096, 4097, 8191, 8192, 8193} {
		if n > maxDense {
			lens = append(lens, n)
		}
	}
	for i := 0; i < 8; i++ {
		lens = append(lens, 2200+rng.Intn(30000))
	}
	maxLen := 0
	for _, n := range lens {
		if n > maxLen {
			maxLen = n
		}
	}
	dataPages := (maxLen + page - 1) / page
	if dataPages == 0 {
		dataPages = 1
	}
	total := (dataPages + 2) * page
	mem, err := syscall.Mmap(-1, 0, total, syscall.PROT_READ|syscall.PROT_WRITE, syscall.MAP_ANON|syscall.MAP_PRIVATE)
	if err != nil {
		fmt.Printf("RESULT %s\n", mustJSON(guardResult{Status: "mmap failed: " + err.Error()}))
		return
	}
	if err := syscall.Mprotect(mem[:page], syscall.PROT_NONE); err != nil {
		panic(err)
	}
	if err := syscall.Mprotect(mem[total-page:], syscall.PROT_NONE); err != nil {
		panic(err)
	}
	region := mem[page : total-page]
	base := uintptr(unsafe.Pointer(&region[0]))

	hasAVX2, hasSSE2 := xxhash3.VerifCPU()
	backends := []backend{}
	if hasAVX2 {
		backends = append(backends, backend{"avx2", true, true})
	}
	if hasSSE2 {
		backends = append(backends, backend{"sse2", false, true})
	}
	backends = append(backends, backend{"scalar", false, false})

	res := guardResult{Status: "ok"}
	report := func(n int, be, place, entry, what string, detail map[string]interface{}) {
		if len(res.Violations) >= 20 {
			return
		}
		detail["len"] = n
		detail["backend"] = be
		detail["placement"] = place
		detail["entry"] = entry
		detail["data_seed"] = seed
		res.Violations = append(res.Violations, guardViolation{
			Label: fmt.Sprintf("len-class %s/guard", lenClass(n)), What: what, Detail: detail})
	}
	for _, n := range lens {
		data := mkData(seed+1, n, "random")
		// expected: the same code on an ordinary heap copy of the same bytes (the digest must not depend on where
		// the bytes live); whether that digest is the right one is decided by the main differential, not here
		cp := append([]byte(nil), data...)
		rh := xxhash3.Hash(cp)
		rh2 := xxhash3.Hash128(cp)
		want := triple{rh, rh2[0], rh2[1]}
		for _, place := range []string{"flush-against-trailing-guard", "right-after-leading-guard"} {
			start := 0
			if place == "flush-against-trailing-guard" {
				start = len(region) - n
			}
			if err := syscall.Mprotect(region, syscall.PROT_READ|syscall.PROT_WRITE); err != nil {
				panic(err)
			}
			copy(region[start:start+n], data)
			if err := syscall.Mprotect(region, syscall.PROT_READ); err != nil {
				panic(err)
			}
			b := region[start : start+n : start+n]
			for _, be := range backends {
				restore := xxhash3.VerifSetBackend(be.avx2, be.sse2)
				fmt.Printf("progress len=%d backend=%s placement=%s\n", n, be.name, place)
				for _, entry := range []string{"Hash", "Hash128", "HashString", "Hash128String"} {
					var got triple
					fi := try(func() {
						switch entry {
						case "Hash":
							got = triple{h64: xxhash3.Hash(b)}
						case "Hash128":
							h := xxhash3.Hash128(b)
							got = triple{hi: h[0], lo: h[1]}
						case "HashString":
							got = triple{h64: xxhash3.HashString(strView(b))}
						case "Hash128String":
							h := xxhash3.Hash128String(strView(b))
							got = triple{hi: h[0], lo: h[1]}
						}
					})
					res.Calls++
					if fi != nil {
						what := "fault while hashing: access outside the given bytes"
						if fi.addr >= base+uintptr(start) && fi.addr < base+uintptr(start+n) {
							what = "fault while hashing: write into the given bytes"
						} else if fi.addr >= base && fi.addr < base+uintptr(len(region)) {
							what = "fault while hashing: write next to the given bytes"
						}
						report(n, be.name, place, entry, what, map[string]interface{}{"fault": fi.msg, "fault_addr_minus_data_start": int64(fi.addr) - int64(base+uintptr(start))})
						continue
					}
					exp := want
					if entry == "Hash" || entry == "HashString" {
						exp = triple{h64: want.h64}
					} else {
						exp = triple{hi: want.hi, lo: want.lo}
					}
					if got != exp {
						report(n, be.name, place, entry, "digest of guarded memory differs from the digest of a heap copy of the same bytes", map[string]interface{}{"got": fmt.Sprint(got), "heap_copy": fmt.Sprint(exp)})
					}
				}
				restore()
			}
			// the bytes are unchanged (the region was read-only, so this can only fail together with a fault)
			for i := 0; i < n; i++ {
				if region[start+i] != data[i] {
					report(n, "all", place, "all", "hashing modified the input", map[string]interface{}{"index": i})
					break
				}
			}
		}
	}
	fmt.Printf("RESULT %s\n", mustJSON(res))
}

func mustJSON(v interface{}) string {
	b, err := json.Marshal(v)
	if err != nil {
		panic(err)
	}
	return string(b)
}
