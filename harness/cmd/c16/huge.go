package main

// "Huge input" stream: lengths around 2^31 and 2^32. The Coq model does the length-class dispatch and all index
// arithmetic on unbounded integers, so nothing in the model can notice a Go int/uint32 truncation or a sign
// trick that misroutes very long inputs; this stream is what ties the behaviour beyond 2 GiB to the property.
//
// The bytes live in a sparse anonymous mapping (MAP_NORESERVE, untouched pages are the kernel's zero page):
// all zero except a few deterministic non-zero bytes at the start, at stripe/block boundaries and at the end.
// Each length (quick: 2^31+17, 2^32+17; thorough: 2^31+16, 2^31+17, 2^31+1MiB, 2^32+16, 2^32+17) is hashed with
// every back end through Hash, HashString, Hash128 and Hash128String. Judged (all kind 2, label "len-class >2GiB/sparse"):
//   (a) the results of all back ends / entry points must be identical;
//   (b) Hash must equal internal/xxh3_raw.Hash on the same memory (independent scalar port, uint64 lengths)
//       and Hash128 must equal xxh3_raw.Hash128;
//   (c) Hash must equal the low 64 bits of Hash128: for every input longer than 240 bytes that is a theorem
//       about the Spec (C16_long_low64), so it is a Spec-backed reference that does not need to evaluate
//       2 GiB inside Coq.
// Runs in a child process: a crash is observed by the parent; the parent enforces a time limit; the child
// refuses to start when little memory is available and stops if its resident set grows (the mapping is not
// supposed to consume memory). Refusals/timeouts are notes ("skipped"), never violations.

import (
	"context"
	"fmt"
	"os"
	"os/exec"
	"strconv"
	"strings"
	"syscall"
	"time"

	"github.com/songzhibin97/go-baseutils/sys/xxhash3"

	"vh/vhlib"
)

const mapNoReserve = 0x4000 // MAP_NORESERVE (linux)

func memAvailableMiB() int {
	b, err := os.ReadFile("/proc/meminfo")
	if err != nil {
		return -1
	}
	for _, l := range strings.Split(string(b), "\n") {
		if strings.HasPrefix(l, "MemAvailable:") {
			f := strings.Fields(l)
			if len(f) >= 2 {
				kb, _ := strconv.Atoi(f[1])
				return kb / 1024
			}
		}
	}
	return -1
}

func rssMiB() int {
	b, err := os.ReadFile("/proc/self/statm")
	if err != nil {
		return -1
	}
	f := strings.Fields(string(b))
	if len(f) < 2 {
		return -1
	}
	pages, _ := strconv.Atoi(f[1])
	return pages * syscall.Getpagesize() / (1 << 20)
}

func hugeLengths(thorough bool) []int {
	if thorough {
		return []int{1<<31 + 16, 1<<31 + 17, 1<<31 + 1<<20, 1<<32 + 16, 1<<32 + 17}
	}
	return []int{1<<31 + 17, 1<<32 + 17}
}

func hugeChild() {
	seed, _ := strconv.ParseUint(os.Getenv("C16_SEED"), 10, 64)
	thorough := os.Getenv("C16_TIER") == "thorough"
	res := guardResult{Status: "ok"}
	finish := func() { fmt.Printf("RESULT %s\n", mustJSON(res)) }
	if strconv.IntSize < 64 {
		res.Status = "skipped: 32-bit int"
		finish()
		return
	}
	if av := memAvailableMiB(); av >= 0 && av < 1536 {
		res.Status = fmt.Sprintf("skipped: only %d MiB available", av)
		finish()
		return
	}
	lens := hugeLengths(thorough)
	maxLen := 0
	for _, n := range lens {
		if n > maxLen {
			maxLen = n
		}
	}
	page := syscall.Getpagesize()
	total := (maxLen + page) / page * page
	mem, err := syscall.Mmap(-1, 0, total, syscall.PROT_READ|syscall.PROT_WRITE, syscall.MAP_ANON|syscall.MAP_PRIVATE|mapNoReserve)
	if err != nil {
		res.Status = "skipped: mmap failed: " + err.Error()
		finish()
		return
	}
	hasAVX2, hasSSE2 := xxhash3.VerifCPU()
	backends := []backend{}
	if hasAVX2 {
		backends = append(backends, backend{"avx2", true, true})
	}
	if hasSSE2 {
		backends = append(backends, backend{"sse2", false, true})
	}
	backends = append(backends, backend{"scalar", false, false})

	rng := vhlib.NewRng(seed + 4242)
	for _, n := range lens {
		// a few non-zero bytes: start, stripe and block boundaries, the middle, the end (restored to zero afterwards)
		offs := []int{0, 1, 7, 8, 15, 16, 17, 63, 64, 65, 127, 128, 239, 240, 241, 1023, 1024, 1025,
			n/2 - 1, n / 2, n/2 + 64, 1<<31 - 1, 1 << 31, 1<<31 + 1, n - 1025, n - 1024, n - 129, n - 65, n - 64, n - 63, n - 33, n - 32, n - 17, n - 16, n - 9, n - 8, n - 2, n - 1}
		var marks []int
		for _, o := range offs {
			if o >= 0 && o < n {
				mem[o] = byte(1 + rng.Intn(255))
				marks = append(marks, o)
			}
		}
		b := mem[:n:n]
		report := func(what string, detail map[string]interface{}) {
			if len(res.Violations) >= 20 {
				return
			}
			detail["len"] = n
			detail["len_minus_2^31"] = n - 1<<31
			detail["nonzero_offsets"] = marks
			detail["data_seed"] = seed
			res.Violations = append(res.Violations, guardViolation{Label: "len-class >2GiB/sparse", What: what, Detail: detail})
		}
		fmt.Printf("progress len=%d raw\n", n)
		rawH := xxhash3.VerifRawHash(b)
		var rawH128 [2]uint64
		rawH128 = xxhash3.VerifRawHash128(b)
		res.Calls++
		var firstH uint64
		var firstH128 [2]uint64
		have128 := false
		for bi, be := range backends {
			restore := xxhash3.VerifSetBackend(be.avx2, be.sse2)
			fmt.Printf("progress len=%d backend=%s\n", n, be.name)
			h := xxhash3.Hash(b)
			res.Calls++
			if bi == 0 {
				firstH = h
			} else if h != firstH {
				report("back ends disagree on Hash", map[string]interface{}{"backend": be.name, "got": fmt.Sprint(h), "first_backend": backends[0].name, "first": fmt.Sprint(firstH)})
			}
			if h != rawH {
				report("Hash differs from internal/xxh3_raw on the same bytes", map[string]interface{}{"backend": be.name, "got": fmt.Sprint(h), "xxh3_raw": fmt.Sprint(rawH)})
			}
			{
				hs := xxhash3.HashString(strView(b))
				h128 := xxhash3.Hash128(b)
				res.Calls += 2
				if hs != h {
					report("HashString differs from Hash on the same bytes", map[string]interface{}{"backend": be.name, "Hash": fmt.Sprint(h), "HashString": fmt.Sprint(hs)})
				}
				if h128[1] != h {
					report("Hash differs from the low 64 bits of Hash128 (equal for every input > 240 bytes: theorem C16_long_low64)",
						map[string]interface{}{"backend": be.name, "Hash": fmt.Sprint(h), "Hash128": fmt.Sprint(h128)})
				}
				if !have128 {
					firstH128, have128 = h128, true
				} else if h128 != firstH128 {
					report("back ends disagree on Hash128", map[string]interface{}{"backend": be.name, "got": fmt.Sprint(h128), "first": fmt.Sprint(firstH128)})
				}
				{
					hs128 := xxhash3.Hash128String(strView(b))
					res.Calls++
					if hs128 != h128 {
						report("Hash128String differs from Hash128 on the same bytes", map[string]interface{}{"backend": be.name})
					}
					if h128 != rawH128 {
						report("Hash128 differs from internal/xxh3_raw on the same bytes", map[string]interface{}{"backend": be.name, "got": fmt.Sprint(h128), "xxh3_raw": fmt.Sprint(rawH128)})
					}
				}
			}
			restore()
		}
		for _, o := range marks {
			mem[o] = 0
		}
		if r := rssMiB(); r > 768 {
			res.Status = fmt.Sprintf("stopped after len=%d: resident set %d MiB (mapping is not sparse here)", n, r)
			break
		}
	}
	syscall.Munmap(mem)
	finish()
}

func runHugeChild(o vhlib.Opts) guardResult {
	exe, err := os.Executable()
	if err != nil {
		return guardResult{Status: "skipped: cannot locate executable: " + err.Error()}
	}
	limit := 150 * time.Second
	if o.Thorough() {
		limit = 900 * time.Second
	}
	ctx, cancel := context.WithTimeout(context.Background(), limit)
	defer cancel()
	cmd := exec.CommandContext(ctx, exe)
	cmd.Env = append(os.Environ(), "C16_HUGE_CHILD=1", fmt.Sprintf("C16_SEED=%d", o.Seed), "C16_TIER="+o.Tier)
	var stdout, stderr strings.Builder
	cmd.Stdout = &stdout
	cmd.Stderr = &stderr
	t0 := time.Now()
	err = cmd.Run()
	res, ok := parseGuard(stdout.String())
	if ctx.Err() != nil {
		res.Status = fmt.Sprintf("skipped: time limit %s exceeded (last: %s)", limit, lastLine(stdout.String()))
		return res
	}
	if err != nil || !ok {
		tail := stderr.String()
		if len(tail) > 1500 {
			tail = tail[len(tail)-1500:]
		}
		if strings.Contains(tail, "out of memory") || strings.Contains(fmt.Sprint(err), "killed") {
			res.Status = fmt.Sprintf("skipped: child killed / out of memory (%v)", err)
			return res
		}
		res.Status = fmt.Sprintf("child failed: %v", err)
		res.Violations = append(res.Violations, guardViolation{"len-class >2GiB/sparse", "crash while hashing an input longer than 2 GiB",
			map[string]interface{}{"error": fmt.Sprint(err), "stderr_tail": tail, "last_progress": lastLine(stdout.String())}})
	}
	res.Status += fmt.Sprintf(" (%.1fs)", time.Since(t0).Seconds())
	return res
}
