// C12 harness: see package vh/bcachetrace (MainC12).
package main

import "vh/bcachetrace"

func main() { bcachetrace.MainC12() }
