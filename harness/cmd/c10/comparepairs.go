package main

import (
	"fmt"

	"github.com/songzhibin97/go-baseutils/base/bcomparator"
	"github.com/songzhibin97/go-baseutils/base/bslice"

	"vh/vhlib"
)

// comparePair: Compare / Equal on (s1, s2) and CompareFunc / EqualFunc on their tagged versions (key comparison),
// through the package functions or, when via != "", through the wrappers' methods.
func comparePair(rng *vhlib.Rng, label string, s1, s2 []int64, wrappers bool) {
	i64 := bcomparator.Int64Comparator()
	keyOf := func(x int64) int64 { return x >> tagBits }
	n := len(s1)
	intObs := func(f func() int) string {
		var c int
		p, _ := vhlib.Recover(func() { c = f() })
		if p {
			return "OPanic"
		}
		return "OInt " + vhlib.Z(int64(c))
	}
	boolObs := func(f func() bool) string {
		var b bool
		p, _ := vhlib.Recover(func() { b = f() })
		if p {
			return "OPanic"
		}
		return "OBool " + vhlib.Bool(b)
	}
	sfx := ""
	if label != "" {
		sfx = "/" + label
	}
	add(n+1, "Compare"+sfx, "KCompare "+vhlib.ZList(s2), s1, intObs(func() int { return bslice.Compare(s1, s2) }), true, nil)
	add(n+1, "Equal"+sfx, "KEqual "+vhlib.ZList(s2), s1, boolObs(func() bool { return bslice.Equal(s1, s2) }), true, nil)
	t1, t2 := tagged(s1), tagged(s2)
	if rng.Bool() { // different tags, same keys: equal under the key comparison
		for i := range t2 {
			t2[i] ^= int64(rng.Intn(8))
		}
	}
	kc := func(a, b int64) int { return i64(keyOf(a), keyOf(b)) }
	ke := func(a, b int64) bool { return keyOf(a) == keyOf(b) }
	add(n+1, "CompareFunc"+sfx, "KCompareFunc OKey "+vhlib.ZList(t2), t1, intObs(func() int { return bslice.CompareFunc(t1, t2, kc) }), true, nil)
	add(n+1, "EqualFunc"+sfx, "KEqualFunc OKey "+vhlib.ZList(t2), t1, boolObs(func() bool { return bslice.EqualFunc(t1, t2, ke) }), true, nil)
	if wrappers {
		cp := func(s []int64) []int64 { return append([]int64(nil), s...) }
		ord := []struct {
			name string
			b    bslice.OrderedBSlice[int64]
		}{
			{"UnsafeOrderedBSlice", bslice.NewUnsafeOrderedBSliceBySlice(cp(s1))},
			{"SafeOrderedBSlice", bslice.NewSafeOrderedBSliceBySlice(cp(s1))},
			{"UnsafeCalculableBSlice", bslice.NewUnsafeCalculableBSliceBySlice(cp(s1))},
			{"SafeCalculableBSlice", bslice.NewSafeCalculableBSliceBySlice(cp(s1))},
		}
		o := ord[rng.Intn(len(ord))]
		add(n+1, o.name+".Compare"+sfx, "KCompare "+vhlib.ZList(s2), s1, intObs(func() int { return o.b.Compare(s2) }), true, nil)
		add(n+1, o.name+".Equal"+sfx, "KEqual "+vhlib.ZList(s2), s1, boolObs(func() bool { return o.b.Equal(s2) }), true, nil)
		fl := anyFlavours[rng.Intn(len(anyFlavours))]
		ab := fl.mk(cp(t1))
		add(n+1, fl.name+".CompareFunc"+sfx, "KCompareFunc OKey "+vhlib.ZList(t2), t1, intObs(func() int { return ab.CompareFunc(t2, kc) }), true, nil)
		add(n+1, fl.name+".EqualFunc"+sfx, "KEqualFunc OKey "+vhlib.ZList(t2), t1, boolObs(func() bool { return ab.EqualFunc(t2, ke) }), true, nil)
	}
}

// doComparePairs: the systematic family for Compare(Func) / Equal(Func): proper prefixes with length differences
// 0, 1, 2, 3, 5, 17 in both directions, empty against non-empty, and slices of different lengths that differ
// before the shorter one ends (either sign).
func doComparePairs(rng *vhlib.Rng, thorough bool) {
	bases := [][]int64{{}, {0}, {7}, {1, 2}, {2, 2}, {-3, 0, 3}, {5, 5, 5, 5}, {1, 2, 3, 4, 5, 6}}
	nb := 6
	if thorough {
		nb = 40
	}
	for i := 0; i < nb; i++ {
		g := gens[rng.Intn(len(gens))]
		bases = append(bases, g.f(rng, rng.Range(1, 40)))
	}
	ext := func(s []int64, k int) []int64 {
		out := append([]int64(nil), s...)
		for j := 0; j < k; j++ {
			out = append(out, int64(rng.Intn(7))-3)
		}
		return out
	}
	for bi, b := range bases {
		for _, k := range []int{0, 1, 2, 3, 5, 17} {
			longer := ext(b, k)
			w := (bi+k)%3 == 0
			comparePair(rng, fmt.Sprintf("prefix, %d shorter", k), b, longer, w)
			comparePair(rng, fmt.Sprintf("prefix, %d longer", k), longer, b, w)
		}
		// different lengths, first difference inside the shorter one
		if len(b) > 0 {
			for _, k := range []int{1, 2, 4} {
				for _, delta := range []int64{-1, 1} {
					other := ext(b, k)
					other[rng.Intn(len(b))] += delta
					comparePair(rng, "differs before the shorter ends", b, other, false)
					comparePair(rng, "differs before the shorter ends", other, b, false)
				}
			}
		}
	}
}
