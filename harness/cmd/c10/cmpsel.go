package main

import (
	"fmt"
	"sort"

	"github.com/songzhibin97/go-baseutils/base/bcomparator"
	"github.com/songzhibin97/go-baseutils/base/bslice"
	"github.com/songzhibin97/go-baseutils/structure/containers"
	"github.com/songzhibin97/go-baseutils/structure/lists/arraylist"
	"github.com/songzhibin97/go-baseutils/structure/lists/doublylinkedlist"
	"github.com/songzhibin97/go-baseutils/structure/lists/singlylinkedlist"

	"vh/vhlib"
)

// comparison shapes (Coq: C10/CmpSel.v zcmp_of) and two-argument predicates (pred_of)
type cmpShape struct {
	name string
	f    func(a, b int64) int
}

func sgn(x int64) int {
	switch {
	case x < 0:
		return -1
	case x > 0:
		return 1
	}
	return 0
}

var cmpShapes = []cmpShape{
	{"CUnit", func(a, b int64) int { return bcomparator.Int64Comparator()(a, b) }},
	{"CSub", func(a, b int64) int { return int(a - b) }},
	{"CDesc", func(a, b int64) int { return int(b - a) }},
	{"CScale10", func(a, b int64) int { return 10 * sgn(a-b) }},
	{"CDescBig", func(a, b int64) int { return int((b - a) * 1000003) }},
	{"CClamp", func(a, b int64) int {
		d := a - b
		if d > 3 {
			d = 3
		}
		if d < -3 {
			d = -3
		}
		return int(d)
	}},
}

type predShape struct {
	name string
	f    func(a, b int64) bool
}

var predShapes = []predShape{
	{"PEq", func(a, b int64) bool { return a == b }},
	{"PKeyEq", func(a, b int64) bool { return a>>tagBits == b>>tagBits }},
	{"PSucc", func(a, b int64) bool { return a == b+1 }},
	{"PLe", func(a, b int64) bool { return a <= b }},
	{"PDivides", func(a, b int64) bool { return a != 0 && b%a == 0 }},
}

func pairList(calls [][2]int64) string {
	it := make([]string, len(calls))
	for i, c := range calls {
		it[i] = vhlib.Pair(vhlib.Z(c[0]), vhlib.Z(c[1]))
	}
	return vhlib.List(it)
}

// two-sequence entry points: the package function and the method of every wrapper flavour (receiver = s1)
type twoSeq struct {
	name    string
	compare func(s1, s2 []int64, f func(a, b int64) int) int
	equal   func(s1, s2 []int64, f func(a, b int64) bool) bool
	search  func(s1 []int64, t int64, f func(a, b int64) int) (int, bool)
}

func twoSeqEntries() []twoSeq {
	es := []twoSeq{{"bslice", func(s1, s2 []int64, f func(a, b int64) int) int { return bslice.CompareFunc(s1, s2, f) },
		func(s1, s2 []int64, f func(a, b int64) bool) bool { return bslice.EqualFunc(s1, s2, f) },
		func(s1 []int64, t int64, f func(a, b int64) int) (int, bool) { return bslice.BinarySearchFunc(s1, t, f) }}}
	for _, fl := range anyFlavours {
		fl := fl
		cp := func(s []int64) []int64 { return append([]int64(nil), s...) }
		es = append(es, twoSeq{fl.name,
			func(s1, s2 []int64, f func(a, b int64) int) int { return fl.mk(cp(s1)).CompareFunc(s2, f) },
			func(s1, s2 []int64, f func(a, b int64) bool) bool { return fl.mk(cp(s1)).EqualFunc(s2, f) },
			func(s1 []int64, t int64, f func(a, b int64) int) (int, bool) { return fl.mk(cp(s1)).BinarySearchFunc(t, f) }})
	}
	return es
}

func doCmpShapes(rng *vhlib.Rng, thorough bool, w *vhlib.Writer) {
	entries := twoSeqEntries()
	small := func(n int) []int64 {
		s := make([]int64, n)
		for i := range s {
			s[i] = int64(rng.Intn(13)) - 4
		}
		return s
	}
	rounds := 2
	if thorough {
		rounds = 12
	}
	k := 0
	// ---------- CompareFunc: the exact value of the first non-zero cmp, and the calls ----------
	emitCompare := func(e twoSeq, sh cmpShape, s1, s2 []int64, what string) {
		var calls [][2]int64
		f := func(a, b int64) int { calls = append(calls, [2]int64{a, b}); return sh.f(a, b) }
		var r int
		p, _ := vhlib.Recover(func() { r = e.compare(s1, s2, f) })
		obs := fmt.Sprintf("OIntCalls %s %s", vhlib.Z(int64(r)), pairList(calls))
		if p {
			obs = "OPanic"
		}
		// the definition side by a plain loop (for the replay file; the judgement is Coq's)
		exp, expCalls := 0, [][2]int64{}
		decided := false
		for i := 0; i < len(s1) && i < len(s2) && !decided; i++ {
			expCalls = append(expCalls, [2]int64{s1[i], s2[i]})
			if c := sh.f(s1[i], s2[i]); c != 0 {
				exp, decided = c, true
			}
		}
		if !decided {
			exp = sgn(int64(len(s1) - len(s2)))
		}
		add(len(s1)+1, e.name+".CompareFunc["+sh.name+"]/"+what, fmt.Sprintf("KCompareFuncSel %s %s", sh.name, vhlib.ZList(s2)), s1, obs, true,
			map[string]interface{}{"entry_point": e.name + ".CompareFunc", "first_operand_or_receiver": s1, "second_operand_or_argument": s2, "cmp": sh.name,
				"recorded_calls_first_second": calls, "result": r, "expected_result": exp, "expected_calls": expCalls})
	}
	for r := 0; r < rounds; r++ {
		for _, sh := range cmpShapes {
			for _, e := range entries {
				k++
				n := rng.Intn(7)
				s1 := small(n)
				// first difference at a chosen place with a chosen magnitude, tails unrelated and of any length
				s2 := append([]int64(nil), s1...)
				if n > 0 {
					i := rng.Intn(n)
					s2[i] += []int64{-7, -3, -2, -1, 1, 2, 3, 7}[rng.Intn(8)]
					s2 = append(s2[:i+1], small(rng.Intn(4))...)
				}
				emitCompare(e, sh, s1, s2, "differ")
				if k%3 == 0 {
					emitCompare(e, sh, s2, s1, "differ")
				}
				// one is a prefix of the other / equal / unrelated
				switch k % 4 {
				case 0:
					emitCompare(e, sh, s1, append(append([]int64(nil), s1...), small(1+rng.Intn(3))...), "prefix")
				case 1:
					emitCompare(e, sh, append(append([]int64(nil), s1...), small(1+rng.Intn(3))...), s1, "prefix")
				case 2:
					emitCompare(e, sh, s1, append([]int64(nil), s1...), "equal")
				default:
					emitCompare(e, sh, small(rng.Intn(5)), small(rng.Intn(5)), "unrelated")
				}
			}
		}
	}
	// ---------- EqualFunc: asymmetric predicates, calls ----------
	emitEqual := func(e twoSeq, ps predShape, s1, s2 []int64, what string) {
		var calls [][2]int64
		f := func(a, b int64) bool { calls = append(calls, [2]int64{a, b}); return ps.f(a, b) }
		var r bool
		p, _ := vhlib.Recover(func() { r = e.equal(s1, s2, f) })
		obs := fmt.Sprintf("OBoolCalls %s %s", vhlib.Bool(r), pairList(calls))
		if p {
			obs = "OPanic"
		}
		exp, expCalls := len(s1) == len(s2), [][2]int64{}
		for i := 0; exp && i < len(s1); i++ {
			expCalls = append(expCalls, [2]int64{s1[i], s2[i]})
			exp = ps.f(s1[i], s2[i])
		}
		add(len(s1)+1, e.name+".EqualFunc["+ps.name+"]/"+what, fmt.Sprintf("KEqualFuncSel %s %s", ps.name, vhlib.ZList(s2)), s1, obs, true,
			map[string]interface{}{"entry_point": e.name + ".EqualFunc", "first_operand_or_receiver": s1, "second_operand_or_argument": s2, "predicate": ps.name,
				"recorded_calls_first_second": calls, "result": r, "expected_result": exp, "expected_calls": expCalls})
	}
	for r := 0; r < rounds; r++ {
		for _, ps := range predShapes {
			for _, e := range entries {
				k++
				n := 1 + rng.Intn(6)
				s2 := small(n)
				// s1 related to s2 so that the predicate holds on every pair in THIS orientation (and, for the
				// asymmetric ones, not in the other)
				s1 := make([]int64, n)
				for i, b := range s2 {
					switch ps.name {
					case "PEq":
						s1[i] = b
					case "PKeyEq":
						s2[i] = b<<tagBits | int64(rng.Intn(8))
						s1[i] = b<<tagBits | int64(8+rng.Intn(8))
					case "PSucc":
						s1[i] = b + 1
					case "PLe":
						s1[i] = b - int64(1+rng.Intn(3))
					case "PDivides":
						if b == 0 || b == 1 || b == -1 {
							s2[i] = 6
							b = 6
						}
						s1[i] = []int64{2, 3, -2}[rng.Intn(3)]
						s2[i] = b * s1[i] * 2
					}
				}
				emitEqual(e, ps, s1, s2, "holds")
				if k%2 == 0 { // the other orientation (fails for the asymmetric predicates)
					emitEqual(e, ps, s2, s1, "operands exchanged")
				}
				switch k % 3 {
				case 0: // one pair spoiled: stops there
					t1 := append([]int64(nil), s1...)
					t1[rng.Intn(n)] += 5
					emitEqual(e, ps, t1, s2, "one pair fails")
				case 1: // different lengths: no call at all
					emitEqual(e, ps, s1, append(append([]int64(nil), s2...), 1), "lengths differ")
				default:
					emitEqual(e, ps, small(n), small(n), "unrelated")
				}
			}
		}
	}
	// ---------- BinarySearchFunc: only the sign of cmp may matter; descending shapes search descending slices ----------
	for r := 0; r < rounds; r++ {
		for _, sh := range cmpShapes {
			for _, e := range entries {
				n := rng.Intn(12)
				xs := small(n)
				sort.Slice(xs, func(i, j int) bool { return sh.f(xs[i], xs[j]) < 0 })
				t := int64(rng.Intn(15)) - 5
				if n > 0 && rng.Bool() {
					t = xs[rng.Intn(n)]
				}
				var i int
				var f bool
				p, _ := vhlib.Recover(func() { i, f = e.search(xs, t, sh.f) })
				obs := pos(i, f)
				if p {
					obs = "OPanic"
				}
				add(n+1, e.name+".BinarySearchFunc["+sh.name+"]", fmt.Sprintf("KBinarySearchFuncSel %s %s", sh.name, vhlib.Z(t)), xs, obs, n >= 2, nil)
			}
		}
	}
	// ---------- ReverseComparator of every shape: exactly the negated value ----------
	for _, sh := range cmpShapes {
		rev := bcomparator.ReverseComparator(bcomparator.Comparator[int64](sh.f))
		for j := 0; j < 12; j++ {
			a, b := int64(rng.Intn(21))-10, int64(rng.Intn(21))-10
			if j%4 == 0 {
				b = a
			}
			var r int
			p, _ := vhlib.Recover(func() { r = rev(a, b) })
			obs := oint(r)
			if p {
				obs = "OPanic"
			}
			add(1, "ReverseComparator["+sh.name+"]", fmt.Sprintf("KReverseSel %s %s %s", sh.name, vhlib.Z(a), vhlib.Z(b)), nil, obs, true, nil)
		}
	}
	// ---------- the comparator-taking sorts with every shape (they may use only the sign) ----------
	type cs struct {
		name string
		f    func(v []int64, c bcomparator.Comparator[int64]) []int64
	}
	sorts := []cs{
		{"bcomparator.Sort", func(v []int64, c bcomparator.Comparator[int64]) []int64 { bcomparator.Sort(v, c); return v }},
		{"arraylist.Sort", func(v []int64, c bcomparator.Comparator[int64]) []int64 { l := arraylist.New(v...); l.Sort(c); return l.Values() }},
		{"doublylinkedlist.Sort", func(v []int64, c bcomparator.Comparator[int64]) []int64 { l := doublylinkedlist.New(v...); l.Sort(c); return l.Values() }},
		{"singlylinkedlist.Sort", func(v []int64, c bcomparator.Comparator[int64]) []int64 { l := singlylinkedlist.New(v...); l.Sort(c); return l.Values() }},
		{"containers.GetSortedValues(arraylist)", func(v []int64, c bcomparator.Comparator[int64]) []int64 {
			return containers.GetSortedValues[int64](arraylist.New(v...), c)
		}},
	}
	for _, fl := range anyFlavours {
		fl := fl
		sorts = append(sorts, cs{fl.name + ".SortComparator", func(v []int64, c bcomparator.Comparator[int64]) []int64 {
			b := fl.mk(v)
			b.SortComparator(c)
			return b.ToMetaSlice()
		}})
	}
	for _, sh := range cmpShapes {
		for si, s := range sorts {
			n := []int{2, 3, 7, 20, 45}[(si+len(sh.name))%5]
			in := small(n)
			var out []int64
			p, _ := vhlib.Recover(func() { out = s.f(append([]int64(nil), in...), bcomparator.Comparator[int64](sh.f)) })
			obs := obsList(out, 0, 0)
			if p {
				obs = "OPanic"
			}
			add(n+1, s.name+"["+sh.name+"]", "KSortCmp "+sh.name, in, obs, true, nil)
		}
	}
}
