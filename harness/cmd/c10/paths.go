package main

import (
	"context"
	"fmt"
	"os"
	"os/exec"
	"path/filepath"
	"regexp"
	"strconv"
	"strings"
	"time"
)

// Evidence only: which branches of pdqsort / stable the generated inputs drive the Coq model through.
// A sample of the sort cases is evaluated with Check.paths_of by one extra coqc run; the result goes to meta.json.
var pathNames = []string{"insertionSort", "heapSort(limit=0)", "breakPatterns", "reverseRange", "partialInsertionSort=true",
	"partialInsertionSort=false", "partitionEqual", "alreadyPartitioned", "ninther", "partialInsertionSort shifts", "symMerge rotate", "unbalanced partition"}

var pathAdv, pathOthers []string

// branches the targeted family must reach (indexes into pathNames): heapsort fallback, breakPatterns, reverseRange,
// partialInsertionSort true / false, partitionEqual
var requiredBranches = []int{1, 2, 3, 4, 5, 6}

func decodePaths(v int64) []string {
	var out []string
	for i, n := range pathNames {
		if v&(1<<uint(i)) != 0 {
			out = append(out, n)
		}
	}
	return out
}

func evalPaths(outdir string) (res map[string]interface{}, evaluated bool, missingRequired []string) {
	res = map[string]interface{}{}
	if len(pathAdv)+len(pathOthers) == 0 {
		return
	}
	theories, _ := filepath.Abs(filepath.Join("..", "coq", "theories"))
	if _, err := os.Stat(filepath.Join(theories, "C10", "Check.vo")); err != nil {
		res["status"] = "not evaluated: compiled C10/Check.vo not found from " + theories
		return
	}
	src := "From VF Require Import C10.Model C10.SortModel C10.Spec C10.Check.\nLocal Open Scope Z_scope.\n" +
		"Definition adv : list case := [\n" + strings.Join(pathAdv, ";\n") + "\n].\n" +
		"Definition others : list case := [\n" + strings.Join(pathOthers, ";\n") + "\n].\n" +
		"Definition PA := Eval vm_compute in (map paths_of adv).\nPrint PA.\n" +
		"Definition PO := Eval vm_compute in (paths_union others).\nPrint PO.\n"
	file := filepath.Join(outdir, "paths.v")
	if err := os.WriteFile(file, []byte(src), 0o644); err != nil {
		res["status"] = "not evaluated: " + err.Error()
		return
	}
	ctx, cancel := context.WithTimeout(context.Background(), 120*time.Second)
	defer cancel()
	cmd := exec.CommandContext(ctx, "coqc", "-R", theories, "VF", file)
	cmd.Dir = outdir
	out, err := cmd.CombinedOutput()
	if err != nil {
		res["status"] = "not evaluated: coqc: " + err.Error()
		return
	}
	flat := strings.Join(strings.Fields(string(out)), " ")
	var union int64
	if m := regexp.MustCompile(`PA = \[([^\]]*)\]`).FindStringSubmatch(flat); m != nil {
		counts := make([]int, len(pathNames))
		for _, f := range strings.Split(m[1], ";") {
			v, _ := strconv.ParseInt(strings.TrimSpace(f), 10, 64)
			union |= v
			for i := range pathNames {
				if v&(1<<uint(i)) != 0 {
					counts[i]++
				}
			}
		}
		per := map[string]int{}
		for i, n := range pathNames {
			per[n] = counts[i]
		}
		res["targeted_cases_reaching_branch"] = per
		res["heapsort_fallback_cases"] = counts[1]
		for _, i := range requiredBranches {
			if counts[i] == 0 {
				missingRequired = append(missingRequired, pathNames[i])
			}
		}
		res["coverage_ok"] = len(missingRequired) == 0
		evaluated = true
	}
	if m := regexp.MustCompile(`PO = (\d+)`).FindStringSubmatch(flat); m != nil {
		v, _ := strconv.ParseInt(m[1], 10, 64)
		union |= v
	}
	res["status"] = fmt.Sprintf("evaluated on %d targeted (SortFunc replays through the model) and %d sampled sort cases", len(pathAdv), len(pathOthers))
	res["branches_hit"] = decodePaths(union)
	var missing []string
	for i, n := range pathNames {
		if union&(1<<uint(i)) == 0 {
			missing = append(missing, n)
		}
	}
	res["branches_not_hit_by_the_sample"] = missing
	return
}
