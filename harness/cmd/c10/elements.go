package main

import (
	"fmt"
	"math"
	"sort"

	"github.com/songzhibin97/go-baseutils/base/bslice"

	"vh/vhlib"
)

// Elements whose == is not reflexive, and aliased operands.
// Class codes (Coq: CmpSel.v, relation EPartial): values that are == share a code, codes grow with the native <,
// everything that is not == to itself gets -1. +0 and -0 are == and share a code although their bits differ.

func floatCodes(all []float64) func(float64) int64 {
	var vs []float64
	for _, v := range all {
		if v == v {
			vs = append(vs, v)
		}
	}
	sort.Float64s(vs)
	return func(x float64) int64 {
		if x != x {
			return -1
		}
		i := sort.Search(len(vs), func(j int) bool { return vs[j] >= x })
		// first index with an == value: equal values (incl. +0 / -0) map to the same index
		for i > 0 && vs[i-1] == x {
			i--
		}
		return int64(i)
	}
}

type fstruct struct {
	F float64
	K int
}

var floatPool = []float64{math.NaN(), math.NaN(), 0, math.Copysign(0, -1), 1, -1, 2.5, math.Inf(1), math.Inf(-1), math.MaxFloat64, math.SmallestNonzeroFloat64, 1e-7, 3}

func genFloats(rng *vhlib.Rng, n int, nanChance int) []float64 {
	s := make([]float64, n)
	for i := range s {
		switch {
		case rng.Chance(nanChance, 10):
			s[i] = math.NaN()
		case rng.Chance(1, 5):
			s[i] = floatPool[2+rng.Intn(len(floatPool)-2)]
		default:
			s[i] = float64(rng.Intn(7)) - 2
		}
	}
	return s
}

// operand pairs: how the second operand relates to the first in memory
type aliasKind struct {
	name string
	mk   func(base []float64, rng *vhlib.Rng) (s1, s2 []float64)
}

var aliasKinds = []aliasKind{
	{"copies", func(b []float64, r *vhlib.Rng) ([]float64, []float64) { return b, append([]float64(nil), b...) }},
	{"same slice", func(b []float64, r *vhlib.Rng) ([]float64, []float64) { return b, b }},
	{"same start, capped view", func(b []float64, r *vhlib.Rng) ([]float64, []float64) { return b, b[:len(b):len(b)] }},
	{"same start, shorter view", func(b []float64, r *vhlib.Rng) ([]float64, []float64) {
		if len(b) == 0 {
			return b, b
		}
		return b, b[:r.Intn(len(b))]
	}},
	{"same array, shifted view of equal length", func(b []float64, r *vhlib.Rng) ([]float64, []float64) {
		if len(b) < 2 {
			return b, b
		}
		k := 1 + r.Intn(len(b)-1)
		return b[:len(b)-k], b[k:]
	}},
	{"suffix view against the whole", func(b []float64, r *vhlib.Rng) ([]float64, []float64) {
		if len(b) == 0 {
			return b, b
		}
		return b[r.Intn(len(b)):], b
	}},
	{"different contents", func(b []float64, r *vhlib.Rng) ([]float64, []float64) {
		c := append([]float64(nil), b...)
		if len(c) > 0 {
			c[r.Intn(len(c))] = floatPool[r.Intn(len(floatPool))]
		}
		return b, c
	}},
}

func cmpNative[T float64 | float32 | int64](a, b T) int {
	switch {
	case a < b:
		return -1
	case a > b:
		return 1
	}
	return 0
}

func doElements(rng *vhlib.Rng, thorough bool) {
	rounds := 3
	if thorough {
		rounds = 30
	}
	codeList := func(code func(float64) int64, s []float64) []int64 {
		out := make([]int64, len(s))
		for i, v := range s {
			out[i] = code(v)
		}
		return out
	}
	bobs := func(f func() bool) string {
		var b bool
		p, _ := vhlib.Recover(func() { b = f() })
		if p {
			return "OPanic"
		}
		return "OBool " + vhlib.Bool(b)
	}
	iobs := func(f func() int) string {
		var c int
		p, _ := vhlib.Recover(func() { c = f() })
		if p {
			return "OPanic"
		}
		return "OInt " + vhlib.Z(int64(c))
	}
	info := func(s1, s2 interface{}, alias string) map[string]interface{} {
		return map[string]interface{}{"operand1": fmt.Sprint(s1), "operand2": fmt.Sprint(s2), "aliasing": alias}
	}
	k := 0
	for r := 0; r < rounds; r++ {
		for _, ak := range aliasKinds {
			for _, nan := range []int{0, 3} { // without NaN, and with about a third NaN
				k++
				base := genFloats(rng, rng.Intn(7), nan)
				if k%5 == 0 && len(base) > 0 {
					base[0] = math.NaN() // the first element is where an identity shortcut would look
				}
				s1, s2 := ak.mk(base, rng)
				code := floatCodes(append(append(append([]float64(nil), base...), s1...), s2...))
				c1, c2 := codeList(code, s1), codeList(code, s2)
				z2 := vhlib.ZList(c2)
				lab := "float64, " + ak.name
				ri := func() map[string]interface{} { return info(s1, s2, ak.name) } // a fresh map per case
				add(len(c1)+1, "Equal/"+lab, "KEqualEl EPartial "+z2, c1, bobs(func() bool { return bslice.Equal(s1, s2) }), true, ri())
				add(len(c1)+1, "EqualFunc(==)/"+lab, "KEqualEl EPartial "+z2, c1, bobs(func() bool {
					return bslice.EqualFunc(s1, s2, func(a, b float64) bool { return a == b })
				}), true, ri())
				add(len(c1)+1, "Compare/"+lab, "KCompareEl EPartial "+z2, c1, iobs(func() int { return bslice.Compare(s1, s2) }), true, ri())
				add(len(c1)+1, "CompareFunc(native)/"+lab, "KCompareEl EPartial "+z2, c1, iobs(func() int {
					return bslice.CompareFunc(s1, s2, cmpNative[float64])
				}), true, ri())
				// the wrappers' methods, the receiver built on s1 itself (so the aliasing is kept), also against its own ToMetaSlice()
				switch k % 4 {
				case 0:
					b := bslice.NewUnsafeComparableBSliceBySlice(s1)
					add(len(c1)+1, "UnsafeComparableBSlice.Equal/"+lab, "KEqualEl EPartial "+z2, c1, bobs(func() bool { return b.Equal(s2) }), true, ri())
					add(len(c1)+1, "UnsafeComparableBSlice.Equal(own ToMetaSlice)/float64", "KEqualEl EPartial "+vhlib.ZList(c1), c1,
						bobs(func() bool { return b.Equal(b.ToMetaSlice()) }), true, info(s1, s1, "own ToMetaSlice"))
				case 1:
					b := bslice.NewSafeOrderedBSliceBySlice(s1)
					add(len(c1)+1, "SafeOrderedBSlice.Equal/"+lab, "KEqualEl EPartial "+z2, c1, bobs(func() bool { return b.Equal(s2) }), true, ri())
					add(len(c1)+1, "SafeOrderedBSlice.Compare/"+lab, "KCompareEl EPartial "+z2, c1, iobs(func() int { return b.Compare(s2) }), true, ri())
				case 2:
					b := bslice.NewUnsafeCalculableBSliceBySlice(s1)
					add(len(c1)+1, "UnsafeCalculableBSlice.Equal/"+lab, "KEqualEl EPartial "+z2, c1, bobs(func() bool { return b.Equal(s2) }), true, ri())
					add(len(c1)+1, "UnsafeCalculableBSlice.Compare(own ToMetaSlice)/float64", "KCompareEl EPartial "+vhlib.ZList(c1), c1,
						iobs(func() int { return b.Compare(b.ToMetaSlice()) }), true, info(s1, s1, "own ToMetaSlice"))
				default:
					b := bslice.NewSafeAnyBSliceBySlice(s1)
					add(len(c1)+1, "SafeAnyBSlice.EqualFunc(==)/"+lab, "KEqualEl EPartial "+z2, c1, bobs(func() bool {
						return b.EqualFunc(s2, func(a, b float64) bool { return a == b })
					}), true, ri())
					add(len(c1)+1, "SafeAnyBSlice.CompareFunc(native)/"+lab, "KCompareEl EPartial "+z2, c1, iobs(func() int {
						return b.CompareFunc(s2, cmpNative[float64])
					}), true, ri())
				}
				// Index / Contains / IsSorted on the first operand: every element of it, NaN, and an absent value
				targets := []float64{math.NaN(), 99}
				if len(s1) > 0 {
					targets = append(targets, s1[rng.Intn(len(s1))], s1[0])
				}
				for _, t := range targets {
					codeT := floatCodes(append(append(append([]float64(nil), base...), s1...), t))
					ct := codeList(codeT, s1)
					tv := vhlib.Z(codeT(t))
					add(len(ct)+1, "Index/float64", "KIndexEl EPartial "+tv, ct, iobs(func() int { return bslice.Index(s1, t) }), true, map[string]interface{}{"slice": fmt.Sprint(s1), "value": fmt.Sprint(t)})
					add(len(ct)+1, "Contains/float64", "KContainsEl EPartial "+tv, ct, bobs(func() bool { return bslice.Contains(s1, t) }), true, map[string]interface{}{"slice": fmt.Sprint(s1), "value": fmt.Sprint(t)})
					if k%3 == 0 {
						b := bslice.NewUnsafeComparableBSliceBySlice(s1)
						add(len(ct)+1, "UnsafeComparableBSlice.Contains/float64", "KContainsEl EPartial "+tv, ct, bobs(func() bool { return b.Contains(t) }), true, nil)
					}
				}
				add(len(c1)+1, "IsSorted/float64", "KIsSortedEl EPartial", c1, bobs(func() bool { return bslice.IsSorted(s1) }), true, map[string]interface{}{"slice": fmt.Sprint(s1)})
				// float32 and a struct with a float field: the same operands converted (aliasing kept by converting the base once)
				if k%2 == 0 && ak.name != "copies" && ak.name != "different contents" {
					b32 := make([]float32, len(base))
					bst := make([]fstruct, len(base))
					for i, v := range base {
						b32[i] = float32(v)
						bst[i] = fstruct{F: v, K: i % 2}
					}
					// rebuild the same views on the converted arrays by position
					o1, o2 := viewOffsets(base, s1), viewOffsets(base, s2)
					t1, t2 := b32[o1[0]:o1[1]], b32[o2[0]:o2[1]]
					code32 := func(x float32) int64 { return code(float64(x)) }
					e1, e2 := make([]int64, len(t1)), make([]int64, len(t2))
					lossy := false
					for i, v := range base {
						lossy = lossy || (v == v && float64(b32[i]) != v)
					}
					for i, v := range t1 {
						e1[i] = code32(v)
					}
					for i, v := range t2 {
						e2[i] = code32(v)
					}
					if !lossy {
						add(len(e1)+1, "Equal/float32, "+ak.name, "KEqualEl EPartial "+vhlib.ZList(e2), e1, bobs(func() bool { return bslice.Equal(t1, t2) }), true, info(t1, t2, ak.name))
						add(len(e1)+1, "Compare/float32, "+ak.name, "KCompareEl EPartial "+vhlib.ZList(e2), e1, iobs(func() int { return bslice.Compare(t1, t2) }), true, info(t1, t2, ak.name))
					}
					// structs: == iff F == F (not NaN) and K equal; code = -1 for a NaN field, else 2*code(F) + K
					u1, u2 := bst[o1[0]:o1[1]], bst[o2[0]:o2[1]]
					sc := func(x fstruct) int64 {
						if x.F != x.F {
							return -1
						}
						return 2*code(x.F) + int64(x.K)
					}
					g1, g2 := make([]int64, len(u1)), make([]int64, len(u2))
					for i, v := range u1 {
						g1[i] = sc(v)
					}
					for i, v := range u2 {
						g2[i] = sc(v)
					}
					add(len(g1)+1, "Equal/struct{float64,int}, "+ak.name, "KEqualEl EPartial "+vhlib.ZList(g2), g1, bobs(func() bool { return bslice.Equal(u1, u2) }), true, info(u1, u2, ak.name))
					if len(u1) > 0 {
						tv := u1[rng.Intn(len(u1))]
						add(len(g1)+1, "Index/struct{float64,int}", "KIndexEl EPartial "+vhlib.Z(sc(tv)), g1, iobs(func() int { return bslice.Index(u1, tv) }), true, map[string]interface{}{"slice": fmt.Sprint(u1), "value": fmt.Sprint(tv)})
						add(len(g1)+1, "Contains/struct{float64,int}", "KContainsEl EPartial "+vhlib.Z(sc(tv)), g1, bobs(func() bool { return bslice.Contains(u1, tv) }), true, nil)
					}
				}
			}
		}
	}
	// aliased INTEGER operands through the functions taking a user comparison / predicate (recorded calls)
	entries := twoSeqEntries()
	for r := 0; r < rounds; r++ {
		for ei, e := range entries {
			base := make([]int64, 1+rng.Intn(6))
			for i := range base {
				base[i] = int64(rng.Intn(9)) - 2
			}
			views := [][2][]int64{{base, base}, {base, base[:len(base):len(base)]}, {base[:len(base)-1], base[1:]}, {base[len(base)/2:], base}}
			v := views[(r+ei)%len(views)]
			sh := cmpShapes[(r+ei)%len(cmpShapes)]
			ps := predShapes[(r+ei)%len(predShapes)]
			var calls [][2]int64
			var rc int
			p, _ := vhlib.Recover(func() {
				rc = e.compare(v[0], v[1], func(a, b int64) int { calls = append(calls, [2]int64{a, b}); return sh.f(a, b) })
			})
			obs := fmt.Sprintf("OIntCalls %s %s", vhlib.Z(int64(rc)), pairList(calls))
			if p {
				obs = "OPanic"
			}
			add(len(v[0])+1, e.name+".CompareFunc["+sh.name+"]/aliased operands", fmt.Sprintf("KCompareFuncSel %s %s", sh.name, vhlib.ZList(v[1])), v[0], obs, true, nil)
			calls = nil
			var rb bool
			p, _ = vhlib.Recover(func() {
				rb = e.equal(v[0], v[1], func(a, b int64) bool { calls = append(calls, [2]int64{a, b}); return ps.f(a, b) })
			})
			obs = fmt.Sprintf("OBoolCalls %s %s", vhlib.Bool(rb), pairList(calls))
			if p {
				obs = "OPanic"
			}
			add(len(v[0])+1, e.name+".EqualFunc["+ps.name+"]/aliased operands", fmt.Sprintf("KEqualFuncSel %s %s", ps.name, vhlib.ZList(v[1])), v[0], obs, true, nil)
		}
	}
}

// viewOffsets: [lo, hi) of view s inside base (s must be a view of base; an empty view maps to [0,0))
func viewOffsets(base, s []float64) [2]int {
	if len(s) == 0 || len(base) == 0 {
		return [2]int{0, 0}
	}
	for i := range base {
		if &base[i] == &s[0] {
			return [2]int{i, i + len(s)}
		}
	}
	return [2]int{0, 0}
}
