package main

import (
	"fmt"
	"sort"

	"github.com/songzhibin97/go-baseutils/base/bslice"

	"vh/vhlib"
)

// adversary: McIlroy's anti-quicksort adversary run against the real SortFunc; returns the killer key sequence.
// All items start as "gas"; a comparison of two gas items freezes one of them to the next solid value:
//   variant 0: McIlroy's candidate rule (prefreeze: the middle sample of choosePivot is solid beforehand, otherwise
//              the answers look like a sorted slice and pdqsort leaves through partialInsertionSort in O(n))
//   variant 1: always the first argument, variant 2: always the second argument
//   variant >= 3: a coin from r decides (the first argument with probability 1 - 1/(variant-1))
// Replaying the VALUES through any entry point takes the same comparisons as the run against the adversary.
func adversary(n, variant int, prefreeze bool, r *vhlib.Rng) []int64 {
	val := make([]int, n)
	gas := n - 1
	for i := range val {
		val[i] = gas
	}
	nsolid, candidate := 0, 0
	if prefreeze && n >= 8 {
		val[(n/4)*2] = 0
		nsolid = 1
	}
	items := make([]int64, n)
	for i := range items {
		items[i] = int64(i)
	}
	less := func(xa, ya int64) bool {
		x, y := int(xa), int(ya)
		if val[x] == gas && val[y] == gas {
			switch {
			case variant == 0:
				if x == candidate {
					val[x] = nsolid
				} else {
					val[y] = nsolid
				}
			case variant == 1:
				val[x] = nsolid
			case variant == 2:
				val[y] = nsolid
			case r.Intn(variant-1) == 0:
				val[y] = nsolid
			default:
				val[x] = nsolid
			}
			nsolid++
		}
		if val[x] == gas {
			candidate = x
		} else if val[y] == gas {
			candidate = y
		}
		return val[x] < val[y]
	}
	bslice.SortFunc(items, less)
	out := make([]int64, n)
	for i := range out {
		out[i] = int64(val[i])
	}
	return out
}

// denseRanks: order-isomorphic small non-negative integers (ties stay ties), and the table to map them back
func denseRanks(keys []int64) (ranks []int, back []int64) {
	back = append([]int64(nil), keys...)
	sort.Slice(back, func(i, j int) bool { return back[i] < back[j] })
	u := back[:0]
	for i, v := range back {
		if i == 0 || v != u[len(u)-1] {
			u = append(u, v)
		}
	}
	back = u
	ranks = make([]int, len(keys))
	for i, k := range keys {
		ranks[i] = sort.Search(len(back), func(j int) bool { return back[j] >= k })
	}
	return
}

// replayEverywhere: one key sequence through every sort entry point: Sort on int64 / int / int32 / float64 / string
// (the Ordered copy of pdqsort), SortFunc, SortStableFunc and the BSlice methods. With model = true the int64 Sort
// and SortFunc runs are replayed through the Coq model as well (and SortFunc's less-call sequence compared);
// all results are judged by the verified checkers.
// full = false: the element types and the BSlice methods rotate instead of all being run (same generic code).
func replayEverywhere(rng *vhlib.Rng, name string, keys []int64, model, full bool,
	runSortOrdered func(string, []int64), runSortFunc func(string, []int64, bool)) {
	tname := name + " [targeted]"
	if model {
		runSortFunc(tname, keys, false)
		runSortOrdered(tname, keys)
	} else {
		xs := append([]int64(nil), keys...)
		p, _ := vhlib.Recover(func() { bslice.Sort(xs) })
		emitSorted("Sort/"+tname, keys, xs, p, false, false, nil)
		ys := append([]int64(nil), keys...)
		p, _ = vhlib.Recover(func() { bslice.SortFunc(ys, func(a, b int64) bool { return a < b }) })
		emitSorted("SortFunc/"+tname, keys, ys, p, false, false, nil)
	}
	ranks, back := denseRanks(keys)
	n := len(keys)
	mapBack := func(get func(i int) int) []int64 {
		out := make([]int64, n)
		for i := range out {
			r := get(i)
			if r < 0 || r >= len(back) {
				out[i] = -1 << 40 // not an element of the input: the permutation check fails
			} else {
				out[i] = back[r]
			}
		}
		return out
	}
	all := full
	pick := rng.Intn(4)
	if all || pick == 0 {
		xs := append([]int(nil), ranks...)
		p, _ := vhlib.Recover(func() { bslice.Sort(xs) })
		emitSorted("Sort[int]/"+tname, keys, mapBack(func(i int) int { return xs[i] }), p, false, false, nil)
	}
	if all || pick == 1 {
		xs := make([]int32, n)
		for i, r := range ranks {
			xs[i] = int32(r)
		}
		p, _ := vhlib.Recover(func() { bslice.Sort(xs) })
		emitSorted("Sort[int32]/"+tname, keys, mapBack(func(i int) int { return int(xs[i]) }), p, false, false, nil)
	}
	if all || pick == 2 {
		xs := make([]float64, n)
		for i, r := range ranks {
			xs[i] = float64(r)*0.5 - 3
		}
		p, _ := vhlib.Recover(func() { bslice.Sort(xs) })
		emitSorted("Sort[float64]/"+tname, keys, mapBack(func(i int) int { return int((xs[i] + 3) * 2) }), p, false, false, nil)
	}
	if all || pick == 3 {
		xs := make([]string, n)
		for i, r := range ranks {
			xs[i] = fmt.Sprintf("k%07d", r)
		}
		p, _ := vhlib.Recover(func() { bslice.Sort(xs) })
		emitSorted("Sort[string]/"+tname, keys, mapBack(func(i int) int {
			var r int
			if _, err := fmt.Sscanf(xs[i], "k%07d", &r); err != nil {
				return -1
			}
			return r
		}), p, false, false, nil)
	}
	// SortStableFunc and the BSlice methods on tagged pairs (key order)
	in := tagged(keys)
	which := rng.Intn(3)
	if all || which == 0 {
		xs := append([]int64(nil), in...)
		p, _ := vhlib.Recover(func() { bslice.SortStableFunc(xs, keyLess) })
		emitSorted("SortStableFunc/"+tname, in, xs, p, true, true, nil)
	}
	fl := anyFlavours[rng.Intn(len(anyFlavours))]
	for _, ep := range entryPoints {
		if !(all && (ep.name == "SortFunc" || ep.name == "SortStableFunc" || ep.name == "SortFuncToSlice")) &&
			!(which == 1 && ep.name == "SortFunc") && !(which == 2 && ep.name == "SortStableFunc") {
			continue
		}
		var out []int64
		p, _ := vhlib.Recover(func() { out = ep.f(fl.mk(append([]int64(nil), in...))) })
		emitSorted(fl.name+"."+ep.name+"/"+tname, in, out, p, ep.stable, true, nil)
	}
	runWrapperSort(rng, tname, keys)
}

// doTargeted: inputs built to drive pdqsort into each of its branches, replayed through every entry point.
// The adversary-built killers exhaust the bad-pivot limit (heapsort fallback, breakPatterns, unbalanced partitions);
// duplicate-heavy inputs take partitionEqual; displaced / nearly sorted ones partialInsertionSort (success and failure);
// strictly descending ones reverseRange. Which branches the model-replayed ones really take is evaluated in Coq
// (Check.paths_of) and reported in the notes; see coverageCase.
func doTargeted(rng *vhlib.Rng, thorough bool, maxModel int,
	runSortOrdered func(string, []int64), runSortFunc func(string, []int64, bool)) {
	sizes := []int{50, 100, 300}
	big := []int{1000, 2000}
	type kv struct {
		variant int
		pre     bool
	}
	variants := []kv{{0, true}, {1, false}, {2, true}, {3 + rng.Intn(5), rng.Bool()}}
	if thorough {
		sizes = []int{50, 51, 63, 64, 65, 100, 127, 128, 129, 200, 250, 300}
		big = []int{500, 1000, 2000}
		variants = append(variants, kv{1, true}, kv{3, false}, kv{4, true}, kv{7, false})
	}
	for si, n := range sizes {
		for vi, v := range variants {
			keys := adversary(n, v.variant, v.pre, rng.Fork())
			// every element type / method for one killer per size (the variant rotates), the others rotate the types
			full := thorough || vi == (si+1)%len(variants)
			replayEverywhere(rng, fmt.Sprintf("killer(variant %d, len %d)", v.variant, n), keys, n <= maxModel, full, runSortOrdered, runSortFunc)
		}
	}
	for i, n := range big {
		vs := variants[1:2] // the first-argument rule
		if thorough {
			vs = variants
		} else if i == len(big)-1 {
			vs = variants[3:4]
		}
		for _, v := range vs {
			keys := adversary(n, v.variant, v.pre, rng.Fork())
			replayEverywhere(rng, fmt.Sprintf("killer(variant %d, len %d)", v.variant, n), keys, n <= maxModel, thorough, runSortOrdered, runSortFunc)
		}
	}
	// the other branches
	for gi, gname := range []string{"few-distinct", "dup-blocks", "reversed-distinct", "reversed", "nearly-sorted", "sorted-then-small", "organ-pipe", "sorted-distinct"} {
		for _, g := range gens {
			if g.name != gname {
				continue
			}
			replayEverywhere(rng, g.name, g.f(rng, 60), true, thorough || gi%4 == 0, runSortOrdered, runSortFunc)
			if thorough || gi < 3 {
				replayEverywhere(rng, g.name, g.f(rng, 240), true, thorough, runSortOrdered, runSortFunc)
			}
		}
	}
	asc := make([]int64, 120)
	for i := range asc {
		asc[i] = int64(i)
	}
	replayEverywhere(rng, "one-displaced", moved(asc, 0, 2), true, thorough, runSortOrdered, runSortFunc)
	replayEverywhere(rng, "one-displaced", moved(asc, 119, 60), true, thorough, runSortOrdered, runSortFunc)
	// ascending with seven adjacent transpositions away from the pivot samples: taken for sorted, but more disorder than
	// partialInsertionSort repairs (it gives up after five: returns false)
	many := append([]int64(nil), asc...)
	for _, i := range []int{10, 20, 33, 45, 70, 80, 100} {
		many[i], many[i+1] = many[i+1], many[i]
	}
	replayEverywhere(rng, "seven-transpositions", many, true, thorough, runSortOrdered, runSortFunc)
	// three values in rotation: partitionEqual
	rot := make([]int64, 90)
	for i := range rot {
		rot[i] = int64(i % 3)
	}
	replayEverywhere(rng, "three-values", rot, true, thorough, runSortOrdered, runSortFunc)
}
