package main

import (
	"fmt"
	"math"

	"github.com/songzhibin97/go-baseutils/base/bcomparator"

	"vh/vhlib"
)

func oint(r int) string { return "OInt " + vhlib.Z(int64(r)) }

// dyadic: f = m * 2^e exactly (f finite)
func dyadic(f float64) (int64, int) {
	if f == 0 {
		return 0, 0
	}
	fr, ex := math.Frexp(f)
	m := int64(fr * (1 << 53))
	e := ex - 53
	for m%2 == 0 {
		m /= 2
		e++
	}
	return m, e
}

func cmpCall[T any](c bcomparator.Comparator[T], a, b T, rev bool) (string, bool) {
	if rev {
		c = bcomparator.ReverseComparator(c)
	}
	var r int
	p, _ := vhlib.Recover(func() { r = c(a, b) })
	if p {
		return "OPanic", true
	}
	return oint(r), false
}

func intPairs[T any](rng *vhlib.Rng, tname string, reps int, cmp bcomparator.Comparator[T], ord bcomparator.Comparator[T],
	extremes []T, random func() T, toZ func(T) string) {
	emit := func(a, b T) {
		rev := rng.Chance(1, 4)
		c := cmp
		label := tname + "Comparator"
		if rng.Chance(1, 5) {
			c, label = ord, "OrderedComparator["+tname+"]"
		}
		if rev {
			label = "ReverseComparator(" + label + ")"
		}
		obs, _ := cmpCall(c, a, b, rev)
		add(1, label, fmt.Sprintf("KCmpInt T%s %s %s %s", tname, vhlib.Bool(rev), toZ(a), toZ(b)), nil, obs, true,
			map[string]interface{}{"a": toZ(a), "b": toZ(b)})
	}
	for _, a := range extremes {
		for _, b := range extremes {
			emit(a, b)
		}
	}
	for i := 0; i < reps; i++ {
		a := random()
		b := random()
		if rng.Chance(1, 4) {
			b = a
		}
		emit(a, b)
	}
}

func doComparators(rng *vhlib.Rng, thorough bool) {
	reps := 25
	if thorough {
		reps = 200
	}
	zi := func(v int64) string { return vhlib.Z(v) }
	intPairs(rng, "Int", reps, bcomparator.IntComparator(), bcomparator.OrderedComparator[int](),
		[]int{math.MinInt64, math.MinInt64 + 1, -1, 0, 1, math.MaxInt64 - 1, math.MaxInt64}, func() int { return int(rng.U64() >> uint(rng.Intn(64))) * (1 - 2*rng.Intn(2)) },
		func(v int) string { return zi(int64(v)) })
	intPairs(rng, "Int8", reps, bcomparator.Int8Comparator(), bcomparator.OrderedComparator[int8](),
		[]int8{math.MinInt8, math.MinInt8 + 1, -1, 0, 1, math.MaxInt8 - 1, math.MaxInt8}, func() int8 { return int8(rng.U64()) },
		func(v int8) string { return zi(int64(v)) })
	intPairs(rng, "Int16", reps, bcomparator.Int16Comparator(), bcomparator.OrderedComparator[int16](),
		[]int16{math.MinInt16, math.MinInt16 + 1, -1, 0, 1, math.MaxInt16 - 1, math.MaxInt16}, func() int16 { return int16(rng.U64()) },
		func(v int16) string { return zi(int64(v)) })
	intPairs(rng, "Int32", reps, bcomparator.Int32Comparator(), bcomparator.OrderedComparator[int32](),
		[]int32{math.MinInt32, math.MinInt32 + 1, -1, 0, 1, math.MaxInt32 - 1, math.MaxInt32}, func() int32 { return int32(rng.U64()) },
		func(v int32) string { return zi(int64(v)) })
	intPairs(rng, "Int64", reps, bcomparator.Int64Comparator(), bcomparator.OrderedComparator[int64](),
		[]int64{math.MinInt64, math.MinInt64 + 1, -1, 0, 1, math.MaxInt64 - 1, math.MaxInt64}, func() int64 { return int64(rng.U64()) },
		zi)
	intPairs(rng, "Uint", reps, bcomparator.UintComparator(), bcomparator.OrderedComparator[uint](),
		[]uint{0, 1, math.MaxInt64, math.MaxInt64 + 1, math.MaxUint64 - 1, math.MaxUint64}, func() uint { return uint(rng.U64() >> uint(rng.Intn(64))) },
		func(v uint) string { return vhlib.ZU(uint64(v)) })
	intPairs(rng, "Uint8", reps, bcomparator.Uint8Comparator(), bcomparator.OrderedComparator[uint8](),
		[]uint8{0, 1, 127, 128, 254, 255}, func() uint8 { return uint8(rng.U64()) },
		func(v uint8) string { return vhlib.ZU(uint64(v)) })
	intPairs(rng, "Uint16", reps, bcomparator.Uint16Comparator(), bcomparator.OrderedComparator[uint16](),
		[]uint16{0, 1, math.MaxInt16, math.MaxInt16 + 1, math.MaxUint16 - 1, math.MaxUint16}, func() uint16 { return uint16(rng.U64()) },
		func(v uint16) string { return vhlib.ZU(uint64(v)) })
	intPairs(rng, "Uint32", reps, bcomparator.Uint32Comparator(), bcomparator.OrderedComparator[uint32](),
		[]uint32{0, 1, math.MaxInt32, math.MaxInt32 + 1, math.MaxUint32 - 1, math.MaxUint32}, func() uint32 { return uint32(rng.U64()) },
		func(v uint32) string { return vhlib.ZU(uint64(v)) })
	intPairs(rng, "Uint64", reps, bcomparator.Uint64Comparator(), bcomparator.OrderedComparator[uint64](),
		[]uint64{0, 1, math.MaxInt64, math.MaxInt64 + 1, math.MaxUint64 - 1, math.MaxUint64}, func() uint64 { return rng.U64() >> uint(rng.Intn(64)) },
		vhlib.ZU)

	// strings: OrderedComparator[string] and StringComparator (strings.Compare), bytewise
	strs := []string{"", "a", "b", "aa", "ab", "a\x00", "\x00", "\x7f", "\x80", "\xff", "\xff\xff", "abc", "abd", "ab\xff", "日本", "日本語", "é", "é", "Z", "z"}
	randStr := func() string {
		n := rng.Intn(6)
		b := make([]byte, n)
		for i := range b {
			switch rng.Intn(3) {
			case 0:
				b[i] = byte('a' + rng.Intn(3))
			case 1:
				b[i] = byte(rng.U64())
			default:
				b[i] = []byte{0, 0x7f, 0x80, 0xff}[rng.Intn(4)]
			}
		}
		return string(b)
	}
	strEmit := func(a, b string) {
		ordered := rng.Bool()
		rev := rng.Chance(1, 4)
		c, label := bcomparator.StringComparator(), "StringComparator"
		if ordered {
			c, label = bcomparator.OrderedComparator[string](), "OrderedComparator[string]"
		}
		if rev {
			label = "ReverseComparator(" + label + ")"
		}
		obs, _ := cmpCall(c, a, b, rev)
		add(1, label, fmt.Sprintf("KCmpStr %s %s %s %s", vhlib.Bool(ordered), vhlib.Bool(rev), vhlib.Bytes([]byte(a)), vhlib.Bytes([]byte(b))), nil, obs, true,
			map[string]interface{}{"a": fmt.Sprintf("%+q", a), "b": fmt.Sprintf("%+q", b)})
	}
	for _, a := range strs {
		for _, b := range strs {
			strEmit(a, b)
		}
	}
	for i := 0; i < 4*reps; i++ {
		a := randStr()
		b := randStr()
		switch rng.Intn(4) {
		case 0:
			b = a
		case 1:
			b = a + randStr()
		}
		strEmit(a, b)
	}
	// bool
	for _, a := range []bool{false, true} {
		for _, b := range []bool{false, true} {
			for _, rev := range []bool{false, true} {
				obs, _ := cmpCall(bcomparator.BoolComparator(), a, b, rev)
				add(1, "BoolComparator", fmt.Sprintf("KCmpBool %s %s %s", vhlib.Bool(rev), vhlib.Bool(a), vhlib.Bool(b)), nil, obs, true, nil)
			}
		}
	}
	// floats: finite operands; judged only when |a-b| > tolerance
	const tol = 0.0000001
	mt, et := dyadic(tol)
	f64 := bcomparator.Float64Comparator()
	f32 := bcomparator.Float32Comparator()
	emit64 := func(a, b float64) {
		if math.IsNaN(a) || math.IsNaN(b) || math.IsInf(a, 0) || math.IsInf(b, 0) {
			return
		}
		obs, _ := cmpCall(f64, a, b, false)
		ma, ea := dyadic(a)
		mb, eb := dyadic(b)
		add(2, "Float64Comparator", fmt.Sprintf("KCmpFloat false %s %s %s %s %s %s", vhlib.Z(ma), vhlib.Z(int64(ea)), vhlib.Z(mb), vhlib.Z(int64(eb)), vhlib.Z(mt), vhlib.Z(int64(et))), nil, obs, true,
			map[string]interface{}{"a": a, "b": b})
	}
	emit32 := func(a, b float32) {
		if a != a || b != b || math.IsInf(float64(a), 0) || math.IsInf(float64(b), 0) {
			return
		}
		obs, _ := cmpCall(f32, a, b, false)
		ma, ea := dyadic(float64(a))
		mb, eb := dyadic(float64(b))
		add(2, "Float32Comparator", fmt.Sprintf("KCmpFloat true %s %s %s %s %s %s", vhlib.Z(ma), vhlib.Z(int64(ea)), vhlib.Z(mb), vhlib.Z(int64(eb)), vhlib.Z(mt), vhlib.Z(int64(et))), nil, obs, true,
			map[string]interface{}{"a": a, "b": b})
	}
	specials := []float64{0, math.Copysign(0, -1), 1, -1, tol, -tol, 2 * tol, tol / 2, 1 + tol, 1 - tol, 1e-300, -1e-300, math.SmallestNonzeroFloat64,
		math.MaxFloat64, -math.MaxFloat64, 1e15, 1e15 + 0.125, 123456.789, 0.1, 0.2, 0.30000000000000004, 0.3}
	for _, a := range specials {
		for _, b := range specials {
			emit64(a, b)
			if math.Abs(a) <= math.MaxFloat32 && math.Abs(b) <= math.MaxFloat32 {
				emit32(float32(a), float32(b))
			}
		}
	}
	factors := []float64{0, 0.1, 0.49, 0.5, 0.51, 0.99, 1, 1.01, 1.5, 2, 10, 1e3}
	for i := 0; i < 6*reps; i++ {
		var a float64
		switch rng.Intn(4) {
		case 0:
			a = (float64(rng.Intn(2001)) - 1000) / 8
		case 1:
			a = math.Float64frombits(rng.U64())
		case 2:
			a = (float64(rng.U64()>>11) / (1 << 53)) * 2e-7
		default:
			a = float64(int64(rng.U64())) / (1 << 40)
		}
		if math.IsNaN(a) || math.IsInf(a, 0) {
			continue
		}
		d := tol * factors[rng.Intn(len(factors))]
		if rng.Bool() {
			d = -d
		}
		b := a + d
		if rng.Chance(1, 4) {
			b = math.Float64frombits(rng.U64())
		}
		emit64(a, b)
		if math.Abs(a) <= math.MaxFloat32 && math.Abs(b) <= math.MaxFloat32 {
			emit32(float32(a), float32(b))
		}
	}
}
