package main

import (
	"fmt"
	"sort"

	"github.com/songzhibin97/go-baseutils/base/bcomparator"
	"github.com/songzhibin97/go-baseutils/base/bslice"

	"vh/vhlib"
)

func pos(i int, f bool) string { return fmt.Sprintf("OPos %d %s", i, vhlib.Bool(f)) }

// BinarySearch(Func), IsSorted(Func), Compare(Func), Equal(Func), Index, Contains on []int64
func doSearches(rng *vhlib.Rng, thorough bool) {
	reps := 120
	if thorough {
		reps = 700
	}
	i64 := bcomparator.Int64Comparator()
	keyOf := func(x int64) int64 { return x >> tagBits }
	lessKey := func(a, b int64) bool { return keyOf(a) < keyOf(b) }
	lessFull := func(a, b int64) bool { return a < b }

	search := func(xs []int64, t int64, label string) {
		var i int
		var f bool
		p, _ := vhlib.Recover(func() { i, f = bslice.BinarySearch(xs, t) })
		obs := pos(i, f)
		if p {
			obs = "OPanic"
		}
		add(len(xs)+1, "BinarySearch/"+label, "KBinarySearch "+vhlib.Z(t), xs, obs, len(xs) >= 2, nil)
	}
	searchFunc := func(xs []int64, t int64, key bool, label string) {
		cmp := func(e, t int64) int { return i64(e, t) }
		if key {
			cmp = func(e, t int64) int { return i64(keyOf(e), t) }
		}
		var i int
		var f bool
		p, _ := vhlib.Recover(func() { i, f = bslice.BinarySearchFunc(xs, t, cmp) })
		obs := pos(i, f)
		if p {
			obs = "OPanic"
		}
		add(len(xs)+1, "BinarySearchFunc/"+label, fmt.Sprintf("KBinarySearchFunc %s %s", ordName(key), vhlib.Z(t)), xs, obs, len(xs) >= 2, nil)
	}
	// bounded-exhaustive: every sorted slice over {0,2,4} of length <= 4 with every target in -1..5
	var small [][]int64
	var build func(prefix []int64, n int, lo int64)
	build = func(prefix []int64, n int, lo int64) {
		small = append(small, append([]int64(nil), prefix...))
		if n == 0 {
			return
		}
		for v := lo; v <= 4; v += 2 {
			build(append(prefix, v), n-1, v)
		}
	}
	build(nil, 4, 0)
	for _, xs := range small {
		for t := int64(-1); t <= 5; t++ {
			search(xs, t, "exhaustive")
		}
	}
	for r := 0; r < reps; r++ {
		n := rng.Intn(70)
		if rng.Chance(1, 10) {
			n = rng.Intn(4)
		}
		g := gens[rng.Intn(len(gens))]
		keys := g.f(rng, n)
		sorted := append([]int64(nil), keys...)
		sort.Slice(sorted, func(i, j int) bool { return sorted[i] < sorted[j] })
		// targets: an element, a neighbour of an element, outside the range
		pickT := func(xs []int64) int64 {
			if len(xs) == 0 {
				return int64(rng.Intn(5)) - 2
			}
			switch rng.Intn(5) {
			case 0:
				return xs[0] - 1 - int64(rng.Intn(3))
			case 1:
				return xs[len(xs)-1] + 1 + int64(rng.Intn(3))
			case 2:
				return xs[rng.Intn(len(xs))] + int64(rng.Intn(3)) - 1
			default:
				return xs[rng.Intn(len(xs))]
			}
		}
		search(sorted, pickT(sorted), "sorted")
		search(sorted, pickT(sorted), "sorted")
		if rng.Chance(1, 4) {
			search(keys, pickT(keys), "unsorted(model tie only)")
		}
		tg := tagged(sorted) // sorted by key; the tags make equal keys distinct elements
		searchFunc(tg, pickT(sorted), true, "sorted")
		searchFunc(sorted, pickT(sorted), false, "sorted")

		// IsSorted / IsSortedFunc
		for _, xs := range [][]int64{keys, sorted} {
			var b bool
			p, _ := vhlib.Recover(func() { b = bslice.IsSorted(xs) })
			obs := "OBool " + vhlib.Bool(b)
			if p {
				obs = "OPanic"
			}
			add(len(xs)+1, "IsSorted", "KIsSorted", xs, obs, len(xs) >= 2, nil)
		}
		{
			xs := tagged(keys)
			if rng.Bool() {
				xs = tagged(sorted)
				if n >= 2 && rng.Bool() { // equal keys with decreasing tags are still sorted by key
					i := rng.Intn(n - 1)
					xs[i], xs[i+1] = xs[i+1], xs[i]
				}
			}
			var b bool
			key := rng.Chance(3, 4)
			less := lessFull
			if key {
				less = lessKey
			}
			p, _ := vhlib.Recover(func() { b = bslice.IsSortedFunc(xs, less) })
			obs := "OBool " + vhlib.Bool(b)
			if p {
				obs = "OPanic"
			}
			add(len(xs)+1, "IsSortedFunc", "KIsSortedFunc "+ordName(key), xs, obs, len(xs) >= 2, nil)
		}
		// Compare / Equal and their Func variants: s2 = copy, prefix, extension by 1..4, one element changed, unrelated
		// (the systematic prefix / length-difference family is doComparePairs)
		s1 := keys
		var s2 []int64
		switch rng.Intn(6) {
		case 0:
			s2 = append([]int64(nil), s1...)
		case 1:
			s2 = append([]int64(nil), s1[:rng.Intn(n+1)]...)
		case 2:
			s2 = append([]int64(nil), s1...)
			for k := 1 + rng.Intn(4); k > 0; k-- {
				s2 = append(s2, int64(rng.Intn(5)))
			}
		case 3, 4:
			s2 = append([]int64(nil), s1...)
			if n > 0 {
				s2[rng.Intn(n)] += int64(rng.Intn(3)) - 1
			}
		default:
			s2 = g.f(rng, rng.Intn(n+2))
		}
		comparePair(rng, "", s1, s2, false)
		// Index / Contains
		{
			v := int64(rng.Intn(7)) - 3
			if n > 0 && rng.Chance(2, 3) {
				v = keys[rng.Intn(n)]
			}
			var ix int
			p, _ := vhlib.Recover(func() { ix = bslice.Index(keys, v) })
			obs := fmt.Sprintf("OInt %s", vhlib.Z(int64(ix)))
			if p {
				obs = "OPanic"
			}
			add(n+1, "Index", "KIndex "+vhlib.Z(v), keys, obs, n >= 1, nil)
			var b bool
			p, _ = vhlib.Recover(func() { b = bslice.Contains(keys, v) })
			obs = "OBool " + vhlib.Bool(b)
			if p {
				obs = "OPanic"
			}
			add(n+1, "Contains", "KContains "+vhlib.Z(v), keys, obs, n >= 1, nil)
		}
	}
}
