package main

import (
	"fmt"

	"github.com/songzhibin97/go-baseutils/base/bcomparator"
	"github.com/songzhibin97/go-baseutils/base/bslice"
	"github.com/songzhibin97/go-baseutils/structure/containers"
	"github.com/songzhibin97/go-baseutils/structure/lists/arraylist"
	"github.com/songzhibin97/go-baseutils/structure/lists/doublylinkedlist"
	"github.com/songzhibin97/go-baseutils/structure/lists/singlylinkedlist"
	"github.com/songzhibin97/go-baseutils/structure/sets/hashset"
	"github.com/songzhibin97/go-baseutils/structure/sets/linkedhashset"
	"github.com/songzhibin97/go-baseutils/structure/sets/treeset"

	"vh/vhlib"
)

var keyLess = func(a, b int64) bool { return a>>tagBits < b>>tagBits }
var keyCmpF = bcomparator.Comparator[int64](func(a, b int64) int {
	return bcomparator.Int64Comparator()(a>>tagBits, b>>tagBits)
})

// emitSorted: output-checker-only case (no model): sorted w.r.t. the order + permutation, plus stability when asked
func emitSorted(label string, in, out []int64, panicked bool, stable, key bool, extra map[string]interface{}) {
	call := "KSortLib " + ordName(key)
	if stable {
		call = "KStableBig" // sorted by key, permutation, and (tags increase along the input) stable
	}
	obs := obsList(out, 0, 0)
	if panicked {
		obs = "OPanic"
	}
	add(len(in)+1, label, call, in, obs, len(in) >= 2, extra)
}

// ---------- family 1: ascending (or descending) input with ONE or TWO displaced elements ----------
func moved(base []int64, src, dst int) []int64 {
	out := make([]int64, 0, len(base))
	v := base[src]
	rest := append(append([]int64(nil), base[:src]...), base[src+1:]...)
	out = append(out, rest[:dst]...)
	out = append(out, v)
	out = append(out, rest[dst:]...)
	return out
}

func doDisplaced(rng *vhlib.Rng, thorough bool, runSortOrdered func(string, []int64), runSortFunc func(string, []int64, bool)) {
	lengths := []int{50, 51, 64, 100, 300}
	if thorough {
		lengths = append(lengths, 52, 63, 65, 128, 200, 299, 500, 1000)
	}
	k := 0
	for li, L := range lengths {
		asc := make([]int64, L)
		for i := range asc {
			asc[i] = int64(i)
		}
		type mv struct{ src, dst int }
		var mvs []mv
		for dst := 0; dst <= 8; dst++ { // to each small offset, from its neighbourhood, the middle and the end
			for _, src := range []int{0, 1, 2, 3, 4, 5, 6, 7, 8, 9, 10, L / 2, L - 1} {
				if src != dst {
					mvs = append(mvs, mv{src, dst})
				}
			}
		}
		for d := 1; d <= 8; d++ { // to each offset near the end
			dst := L - d
			for _, src := range []int{0, L / 2, L - 1, L - 2, L - 3, L - 5, L - 9, L - 10} {
				if src != dst && src >= 0 {
					mvs = append(mvs, mv{src, dst})
				}
			}
		}
		for _, m := range mvs {
			in := moved(asc, m.src, m.dst)
			name := fmt.Sprintf("one-displaced(len %d)", L)
			// every move through Sort (the Ordered copy) at the two shortest lengths, a rotating share elsewhere
			// (quick tier: the longest length gets every sixth move)
			stride := 3
			if L >= 300 && !thorough {
				stride = 6
			}
			if li < 2 || k%stride == 0 {
				runSortOrdered(name, in)
			}
			if k%(2*stride) == 1 {
				runSortFunc(name, in, false)
			}
			if k%(2*stride) == 2 {
				runSortFunc(name, in, true)
			}
			if k%(2*stride) == 5 { // descending mirror
				rev := make([]int64, L)
				for i, v := range in {
					rev[L-1-i] = v
				}
				if k%(4*stride) == 5 {
					runSortOrdered(name+" descending", rev)
				} else {
					runSortFunc(name+" descending", rev, false)
				}
			}
			if k%8 == 4 { // through the Ordered wrappers' Sort()
				runWrapperSort(rng, name, in)
			}
			k++
		}
		two := 24
		if thorough {
			two = 120
		}
		for t := 0; t < two; t++ { // two displaced elements
			in := moved(asc, rng.Intn(L), rng.Intn(9))
			s2, d2 := rng.Intn(L), rng.Intn(L)
			if rng.Bool() {
				d2 = rng.Intn(12)
			}
			in = moved(in, s2, d2)
			name := fmt.Sprintf("two-displaced(len %d)", L)
			if t%2 == 0 {
				runSortOrdered(name, in)
			} else {
				runSortFunc(name, in, t%4 == 1)
			}
		}
	}
}

// Sort() of the Ordered / Calculable wrappers (they call bslice.Sort, the Ordered copy of pdqsort)
func runWrapperSort(rng *vhlib.Rng, gname string, in []int64) {
	type flavour struct {
		name string
		mk   func([]int64) bslice.OrderedBSlice[int64]
	}
	fl := []flavour{
		{"UnsafeOrderedBSlice", func(s []int64) bslice.OrderedBSlice[int64] { return bslice.NewUnsafeOrderedBSliceBySlice(s) }},
		{"SafeOrderedBSlice", func(s []int64) bslice.OrderedBSlice[int64] { return bslice.NewSafeOrderedBSliceBySlice(s) }},
		{"UnsafeCalculableBSlice", func(s []int64) bslice.OrderedBSlice[int64] { return bslice.NewUnsafeCalculableBSliceBySlice(s) }},
		{"SafeCalculableBSlice", func(s []int64) bslice.OrderedBSlice[int64] { return bslice.NewSafeCalculableBSliceBySlice(s) }},
	}
	f := fl[rng.Intn(len(fl))]
	var out []int64
	p, _ := vhlib.Recover(func() {
		b := f.mk(append([]int64(nil), in...))
		b.Sort()
		out = b.ToMetaSlice()
	})
	emitSorted(f.name+".Sort/"+gname, in, out, p, false, false, nil)
}

// ---------- family 2: every permutation of every size 0..6 through the stdlib-backed sorts ----------
func permutations(n int, visit func([]int)) {
	p := make([]int, n)
	for i := range p {
		p[i] = i
	}
	var rec func(k int)
	rec = func(k int) {
		if k == n {
			visit(p)
			return
		}
		for i := k; i < n; i++ {
			p[k], p[i] = p[i], p[k]
			rec(k + 1)
			p[k], p[i] = p[i], p[k]
		}
	}
	rec(0)
}

type smallSort struct {
	name string
	f    func(vals []int64) []int64 // vals in the order the container is to hold them
}

func smallSorts(w *vhlib.Writer) []smallSort {
	checkUntouched := func(name string, got, want []int64) {
		if !bslice.Equal(got, want) {
			w.Violation("containers.GetSortedValues("+name+")", "container order changed", map[string]interface{}{"before": want, "after": got})
		}
	}
	return []smallSort{
		{"containers.GetSortedValues(arraylist)", func(v []int64) []int64 {
			l := arraylist.New(v...)
			r := containers.GetSortedValues[int64](l, keyCmpF)
			checkUntouched("arraylist", l.Values(), v)
			return r
		}},
		{"containers.GetSortedValues(linkedhashset)", func(v []int64) []int64 {
			s := linkedhashset.New(v...)
			r := containers.GetSortedValues[int64](s, keyCmpF)
			checkUntouched("linkedhashset", s.Values(), v)
			return r
		}},
		{"containers.GetSortedValues(treeset)", func(v []int64) []int64 {
			// the set is ordered by the position in v, so that Values() yields exactly v
			rank := map[int64]int{}
			for i, x := range v {
				rank[x] = i
			}
			s := treeset.NewWith(func(a, b int64) int { return bcomparator.IntComparator()(rank[a], rank[b]) }, v...)
			if !bslice.Equal(s.Values(), v) {
				panic("harness bug: treeset order")
			}
			return containers.GetSortedValues[int64](s, keyCmpF)
		}},
		{"containers.GetSortedValues(hashset)", func(v []int64) []int64 { // iteration order is Go's map order
			return containers.GetSortedValues[int64](hashset.New(v...), keyCmpF)
		}},
		{"containers.GetSortedValues(doublylinkedlist)", func(v []int64) []int64 {
			return containers.GetSortedValues[int64](doublylinkedlist.New(v...), keyCmpF)
		}},
		{"arraylist.Sort", func(v []int64) []int64 { l := arraylist.New(v...); l.Sort(keyCmpF); return l.Values() }},
		{"doublylinkedlist.Sort", func(v []int64) []int64 { l := doublylinkedlist.New(v...); l.Sort(keyCmpF); return l.Values() }},
		{"singlylinkedlist.Sort", func(v []int64) []int64 { l := singlylinkedlist.New(v...); l.Sort(keyCmpF); return l.Values() }},
		{"bcomparator.Sort", func(v []int64) []int64 { x := append([]int64(nil), v...); bcomparator.Sort(x, keyCmpF); return x }},
		{"AnyBSlice.SortComparator", func(v []int64) []int64 {
			b := bslice.NewUnsafeAnyBSliceBySlice(append([]int64(nil), v...))
			b.SortComparator(keyCmpF)
			return b.ToMetaSlice()
		}},
	}
}

func doSmallPermutations(rng *vhlib.Rng, w *vhlib.Writer) {
	sorts := smallSorts(w)
	rest := len(sorts) - 4
	pi := 0 // permutation counter (drives the rotation of containers / entry points)
	for n := 0; n <= 6; n++ {
		permutations(n, func(p []int) {
			pi++
			// distinct keys, and (for a quarter of the permutations of size >= 3) a variant with ties (key = p/2);
			// the tag makes the elements distinct for the sets
			for variant := 0; variant < 2; variant++ {
				if variant == 1 && (n < 3 || pi%4 != 0) {
					continue
				}
				vals := make([]int64, n)
				for i, x := range p {
					key := int64(x)
					if variant == 1 {
						key = int64(x / 2)
					}
					vals[i] = key<<tagBits | int64(i)
				}
				run := func(s smallSort) {
					var out []int64
					pn, _ := vhlib.Recover(func() { out = s.f(append([]int64(nil), vals...)) })
					emitSorted(fmt.Sprintf("%s/perm(%d)", s.name, n), vals, out, pn, false, true, nil)
				}
				switch {
				case n <= 4: // every permutation through every entry point
					for _, s := range sorts {
						run(s)
					}
				case n == 5: // every permutation through the four GetSortedValues containers, the others rotating
					for i := 0; i < 4; i++ {
						run(sorts[i])
					}
					run(sorts[4+pi%rest])
				default: // size 6: every permutation, containers and entry points rotating
					run(sorts[pi%4])
					run(sorts[4+(pi/4)%rest])
				}
			}
		})
	}
}

// ---------- family 3: every sort entry point of every bslice wrapper flavour, on tagged pairs with many ties ----------
type anyFlavour struct {
	name string
	mk   func([]int64) bslice.AnyBSlice[int64]
}

var anyFlavours = []anyFlavour{
	{"UnsafeAnyBSlice", func(s []int64) bslice.AnyBSlice[int64] { return bslice.NewUnsafeAnyBSliceBySlice(s) }},
	{"SafeAnyBSlice", func(s []int64) bslice.AnyBSlice[int64] { return bslice.NewSafeAnyBSliceBySlice(s) }},
	{"UnsafeComparableBSlice", func(s []int64) bslice.AnyBSlice[int64] { return bslice.NewUnsafeComparableBSliceBySlice(s) }},
	{"SafeComparableBSlice", func(s []int64) bslice.AnyBSlice[int64] { return bslice.NewSafeComparableBSliceBySlice(s) }},
	{"UnsafeOrderedBSlice", func(s []int64) bslice.AnyBSlice[int64] { return bslice.NewUnsafeOrderedBSliceBySlice(s) }},
	{"SafeOrderedBSlice", func(s []int64) bslice.AnyBSlice[int64] { return bslice.NewSafeOrderedBSliceBySlice(s) }},
	{"UnsafeCalculableBSlice", func(s []int64) bslice.AnyBSlice[int64] { return bslice.NewUnsafeCalculableBSliceBySlice(s) }},
	{"SafeCalculableBSlice", func(s []int64) bslice.AnyBSlice[int64] { return bslice.NewSafeCalculableBSliceBySlice(s) }},
}

type entryPoint struct {
	name   string
	stable bool
	f      func(b bslice.AnyBSlice[int64]) []int64
}

var entryPoints = []entryPoint{
	{"SortFunc", false, func(b bslice.AnyBSlice[int64]) []int64 { b.SortFunc(keyLess); return b.ToMetaSlice() }},
	{"SortFuncToSlice", false, func(b bslice.AnyBSlice[int64]) []int64 { return b.SortFuncToSlice(keyLess) }},
	{"SortFuncToBSlice", false, func(b bslice.AnyBSlice[int64]) []int64 { return b.SortFuncToBSlice(keyLess).ToMetaSlice() }},
	{"SortStableFunc", true, func(b bslice.AnyBSlice[int64]) []int64 { b.SortStableFunc(keyLess); return b.ToMetaSlice() }},
	{"SortStableFuncToSlice", true, func(b bslice.AnyBSlice[int64]) []int64 { return b.SortStableFuncToSlice(keyLess) }},
	{"SortStableFuncToBSlice", true, func(b bslice.AnyBSlice[int64]) []int64 { return b.SortStableFuncToBSlice(keyLess).ToMetaSlice() }},
	{"SortComparator", false, func(b bslice.AnyBSlice[int64]) []int64 { b.SortComparator(keyCmpF); return b.ToMetaSlice() }},
	{"SortComparatorToSlice", false, func(b bslice.AnyBSlice[int64]) []int64 { return b.SortComparatorToSlice(keyCmpF) }},
	{"SortComparatorToBSlice", false, func(b bslice.AnyBSlice[int64]) []int64 { return b.SortComparatorToBSlice(keyCmpF).ToMetaSlice() }},
}

func doWrappers(rng *vhlib.Rng, thorough bool) {
	// key sequences with many ties
	tieGens := []gen{}
	for _, g := range gens {
		switch g.name {
		case "few-distinct", "dup-blocks", "sawtooth", "all-equal", "organ-pipe":
			tieGens = append(tieGens, g)
		}
	}
	tieGens = append(tieGens, gen{"ties-random", func(r *vhlib.Rng, n int) []int64 {
		k := make([]int64, n)
		d := 2 + r.Intn(1+n/6)
		for i := range k {
			k[i] = int64(r.Intn(d))
		}
		return k
	}})
	lens := []int{13, 21, 40, 120, 300}
	if thorough {
		lens = []int{2, 12, 13, 14, 20, 21, 40, 41, 64, 100, 200, 300, 700}
	}
	for _, fl := range anyFlavours {
		for _, ep := range entryPoints {
			for li, n0 := range lens {
				n := n0
				if li > 0 && !thorough && rng.Chance(1, 3) {
					n = rng.Range(13, 300)
				}
				g := tieGens[rng.Intn(len(tieGens))]
				in := tagged(g.f(rng, n))
				var out []int64
				p, _ := vhlib.Recover(func() { out = ep.f(fl.mk(append([]int64(nil), in...))) })
				emitSorted(fl.name+"."+ep.name+"/"+g.name, in, out, p, ep.stable, true, nil)
			}
		}
	}
	// Sort() of the four flavours that offer it, on duplicate-heavy plain values
	for i := 0; i < 4*len(lens); i++ {
		g := tieGens[rng.Intn(len(tieGens))]
		runWrapperSort(rng, g.name, g.f(rng, lens[i%len(lens)]))
	}
}
