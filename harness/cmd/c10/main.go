// C10 harness: comparators, sorts and searches of base/bcomparator, base/bslice, structure/containers and the
// lists' Sort, run on generated inputs; writes Coq cases (input slice, call, observation, and for the sorts that
// take a less function the count and rolling hash of the less(x, y) call sequence).
package main

import (
	"fmt"
	"math/bits"
	"os"
	"path/filepath"
	"regexp"
	"sort"
	"strings"

	"github.com/songzhibin97/go-baseutils/base/bcomparator"
	"github.com/songzhibin97/go-baseutils/base/bslice"
	"github.com/songzhibin97/go-baseutils/structure/containers"
	"github.com/songzhibin97/go-baseutils/structure/lists/arraylist"
	"github.com/songzhibin97/go-baseutils/structure/lists/doublylinkedlist"
	"github.com/songzhibin97/go-baseutils/structure/lists/singlylinkedlist"

	"vh/vhlib"
)

const (
	hp       = 1000003
	hm       = 1<<31 - 1
	tagBits  = 20
)

// ---------- recording less ----------
type recorder struct {
	cnt, hash int64
	key       bool // compare key = value >> 20 only
}

func modm(x int64) int64 { return ((x % hm) + hm) % hm }
func (r *recorder) less(a, b int64) bool {
	r.cnt++
	r.hash = (r.hash*hp + modm(a)*31 + modm(b) + 7) % hm
	if r.key {
		return a>>tagBits < b>>tagBits
	}
	return a < b
}

// ---------- generators of key sequences ----------
type gen struct {
	name string
	f    func(r *vhlib.Rng, n int) []int64
}

func sortedKeys(r *vhlib.Rng, n int, span int) []int64 {
	k := make([]int64, n)
	for i := range k {
		k[i] = int64(r.Intn(span))
	}
	sort.Slice(k, func(i, j int) bool { return k[i] < k[j] })
	return k
}

var gens = []gen{
	{"random", func(r *vhlib.Rng, n int) []int64 {
		k := make([]int64, n)
		for i := range k {
			k[i] = int64(r.Intn(4*n+4)) - int64(2*n)
		}
		return k
	}},
	{"random-wide", func(r *vhlib.Rng, n int) []int64 {
		k := make([]int64, n)
		for i := range k {
			k[i] = int64(r.U64()>>24) - 1<<39
		}
		return k
	}},
	{"sorted", func(r *vhlib.Rng, n int) []int64 { return sortedKeys(r, n, 3*n+3) }},
	{"sorted-distinct", func(r *vhlib.Rng, n int) []int64 {
		k := make([]int64, n)
		for i := range k {
			k[i] = int64(i) - int64(n/2)
		}
		return k
	}},
	{"reversed", func(r *vhlib.Rng, n int) []int64 {
		k := sortedKeys(r, n, 3*n+3)
		for i, j := 0, n-1; i < j; i, j = i+1, j-1 {
			k[i], k[j] = k[j], k[i]
		}
		return k
	}},
	{"reversed-distinct", func(r *vhlib.Rng, n int) []int64 {
		k := make([]int64, n)
		for i := range k {
			k[i] = int64(n - i)
		}
		return k
	}},
	{"few-distinct", func(r *vhlib.Rng, n int) []int64 {
		d := 1 + r.Intn(5)
		k := make([]int64, n)
		for i := range k {
			k[i] = int64(r.Intn(d))
		}
		return k
	}},
	{"all-equal", func(r *vhlib.Rng, n int) []int64 { return make([]int64, n) }},
	{"organ-pipe", func(r *vhlib.Rng, n int) []int64 {
		k := make([]int64, n)
		for i := range k {
			if i < n/2 {
				k[i] = int64(i)
			} else {
				k[i] = int64(n - i)
			}
		}
		return k
	}},
	{"nearly-sorted", func(r *vhlib.Rng, n int) []int64 { // sorted, then 1..4 adjacent or distant transpositions
		k := sortedKeys(r, n, 3*n+3)
		if n >= 2 {
			for t := 1 + r.Intn(4); t > 0; t-- {
				i := r.Intn(n - 1)
				j := i + 1
				if r.Chance(1, 3) {
					j = r.Intn(n)
				}
				k[i], k[j] = k[j], k[i]
			}
		}
		return k
	}},
	{"sorted-then-small", func(r *vhlib.Rng, n int) []int64 { // sorted with a few small elements appended (push-front pattern)
		k := sortedKeys(r, n, 3*n+3)
		for t := 0; t < 1+r.Intn(3) && t < n; t++ {
			k[n-1-t] = -int64(r.Intn(5)) - 1
		}
		return k
	}},
	{"sawtooth", func(r *vhlib.Rng, n int) []int64 {
		p := 2 + r.Intn(9)
		k := make([]int64, n)
		for i := range k {
			k[i] = int64(i % p)
		}
		return k
	}},
	{"two-runs", func(r *vhlib.Rng, n int) []int64 { // two sorted runs: exercises symMerge and partition on already partitioned data
		a := sortedKeys(r, n/2, 2*n+3)
		b := sortedKeys(r, n-n/2, 2*n+3)
		return append(a, b...)
	}},
	{"dup-blocks", func(r *vhlib.Rng, n int) []int64 { // long runs of equal keys in random order of runs: partitionEqual
		k := make([]int64, 0, n)
		for len(k) < n {
			v := int64(r.Intn(6))
			for t := 1 + r.Intn(1+n/4); t > 0 && len(k) < n; t-- {
				k = append(k, v)
			}
		}
		return k
	}},
}

func tagged(keys []int64) []int64 {
	out := make([]int64, len(keys))
	for i, k := range keys {
		out[i] = k<<tagBits | int64(i)
	}
	return out
}

// ---------- buffered cases (heavy ones are spread evenly over the shards) ----------
type pending struct {
	term, label string
	nontrivial  bool
	replay      interface{}
	weight      int
}

var cases []pending

func add(weight int, label, call string, in []int64, obs string, nontrivial bool, replay map[string]interface{}) {
	term := fmt.Sprintf("{| k_call := %s; k_in := %s; k_obs := %s |}", call, zlist(in), obs)
	if replay == nil {
		replay = map[string]interface{}{}
	}
	replay["call"] = call
	if len(in) <= 2000 { // full input in the replay (only the 10^4..10^5 checker-only inputs are clipped)
		replay["input"] = in
	} else {
		replay["input_len"] = len(in)
		replay["input_head"] = in[:50]
	}
	if len(obs) <= 4000 {
		replay["observed"] = obs
	}
	cases = append(cases, pending{term, label, nontrivial, replay, weight})
	if strings.HasPrefix(call, "KSortFunc") || strings.HasPrefix(call, "KSortStable") || call == "KSortOrdered" {
		sortSeen++
		if strings.Contains(label, "[targeted]") && strings.HasPrefix(call, "KSortFunc") {
			pathAdv = append(pathAdv, term)
		} else if len(in) >= 13 && len(in) <= 300 && sortSeen%6 == 0 && len(pathOthers) < 40 {
			pathOthers = append(pathOthers, term)
		}
	}
}

var sortSeen int

// zlist: long lists are written as a concatenation of chunks (a flat 10^5-element list literal overflows coqc's parser stack)
func zlist(vs []int64) string {
	if len(vs) <= 2000 {
		return vhlib.ZList(vs)
	}
	var chunks []string
	for i := 0; i < len(vs); i += 500 {
		j := i + 500
		if j > len(vs) {
			j = len(vs)
		}
		chunks = append(chunks, vhlib.ZList(vs[i:j]))
	}
	return "(List.concat " + vhlib.List(chunks) + ")"
}

func obsList(ys []int64, cnt, hash int64) string {
	return fmt.Sprintf("OList %s %d %d", zlist(ys), cnt, hash)
}
func ordName(key bool) string {
	if key {
		return "OKey"
	}
	return "OFull"
}

func main() {
	o := vhlib.ParseOpts()
	rng := vhlib.NewRng(o.Seed)
	w := vhlib.NewWriter(o.Out, "From VF Require Import C10.Model C10.SortModel C10.Spec C10.CmpSel C10.Check.\nLocal Open Scope Z_scope.", "case", "mismatches", 150)
	thorough := o.Thorough()

	// ---------- 0. zsortordered.go must be zsortfunc.go with less(x, y) replaced by x < y ----------
	same, why := diffOrdered(os.Getenv("VERIF_REPO"))
	w.Notes["zsortordered_vs_zsortfunc"] = why
	add(1, "zsortordered.go == zsortfunc.go up to less", fmt.Sprintf("KDiffOrdered %s", vhlib.Bool(same)), nil, "ONone", true, map[string]interface{}{"why": why})

	// ---------- 1. sorts ----------
	runSortFunc := func(gname string, keys []int64, key bool) {
		in := keys
		if key {
			in = tagged(keys)
		}
		xs := append([]int64(nil), in...)
		rec := &recorder{key: key}
		p, pv := vhlib.Recover(func() { bslice.SortFunc(xs, rec.less) })
		obs := obsList(xs, rec.cnt, rec.hash)
		if p {
			obs = "OPanic"
		}
		n := len(in)
		add(n*(bits.Len(uint(n))+1)*n/64+n+1, "SortFunc/"+gname, "KSortFunc "+ordName(key), in, obs, n >= 2, map[string]interface{}{"generator": gname, "panic": fmt.Sprint(pv)})
	}
	runSortOrdered := func(gname string, keys []int64) {
		xs := append([]int64(nil), keys...)
		p, _ := vhlib.Recover(func() { bslice.Sort(xs) })
		obs := obsList(xs, 0, 0)
		if p {
			obs = "OPanic"
		}
		n := len(keys)
		add(n*(bits.Len(uint(n))+1)*n/64+n+1, "Sort/"+gname, "KSortOrdered", keys, obs, n >= 2, map[string]interface{}{"generator": gname})
	}
	runStable := func(gname string, keys []int64, key bool) {
		in := keys
		if key {
			in = tagged(keys)
		}
		xs := append([]int64(nil), in...)
		rec := &recorder{key: key}
		p, pv := vhlib.Recover(func() { bslice.SortStableFunc(xs, rec.less) })
		obs := obsList(xs, rec.cnt, rec.hash)
		if p {
			obs = "OPanic"
		}
		n := len(in)
		add(n*(bits.Len(uint(n))+1)*n/32+n+1, "SortStableFunc/"+gname, "KSortStable "+ordName(key), in, obs, n >= 2, map[string]interface{}{"generator": gname, "panic": fmt.Sprint(pv)})
	}
	// the stdlib-backed sorts: bcomparator.Sort, AnyBSlice.SortComparator(+ToSlice), list.Sort x3, GetSortedValues
	keyCmp := bcomparator.Comparator[int64](func(a, b int64) int {
		return bcomparator.Int64Comparator()(a>>tagBits, b>>tagBits)
	})
	runLib := func(gname string, keys []int64) {
		in := tagged(keys)
		n := len(in)
		type variant struct {
			name string
			f    func(xs []int64) []int64
		}
		vs := []variant{
			{"bcomparator.Sort", func(xs []int64) []int64 { bcomparator.Sort(xs, keyCmp); return xs }},
			{"AnyBSlice.SortComparator", func(xs []int64) []int64 {
				b := bslice.NewUnsafeAnyBSliceBySlice(xs)
				b.SortComparator(keyCmp)
				return b.ToMetaSlice()
			}},
			{"AnyBSlice.SortComparatorToSlice", func(xs []int64) []int64 {
				return bslice.NewUnsafeAnyBSliceBySlice(xs).SortComparatorToSlice(keyCmp)
			}},
			{"arraylist.Sort", func(xs []int64) []int64 { l := arraylist.New(xs...); l.Sort(keyCmp); return l.Values() }},
			{"doublylinkedlist.Sort", func(xs []int64) []int64 { l := doublylinkedlist.New(xs...); l.Sort(keyCmp); return l.Values() }},
			{"singlylinkedlist.Sort", func(xs []int64) []int64 { l := singlylinkedlist.New(xs...); l.Sort(keyCmp); return l.Values() }},
			{"containers.GetSortedValues", func(xs []int64) []int64 {
				l := arraylist.New(xs...)
				r := containers.GetSortedValues[int64](l, keyCmp)
				if !bslice.Equal(l.Values(), xs) { // "does not affect the ordering of elements within the container"
					w.Violation("containers.GetSortedValues", "container order changed", map[string]interface{}{"input": xs})
				}
				return r
			}},
		}
		v := vs[rng.Intn(len(vs))]
		xs := append([]int64(nil), in...)
		var ys []int64
		p, _ := vhlib.Recover(func() { ys = v.f(xs) })
		obs := obsList(ys, 0, 0)
		if p {
			obs = "OPanic"
		}
		add(n+1, v.name+"/"+gname, "KSortLib OKey", in, obs, n >= 2, map[string]interface{}{"generator": gname})
	}
	runBig := func(gname string, keys []int64, stable bool) {
		in := make([]int64, len(keys)) // small numbers: key * 2^20 + index, keys < 1000
		for i, k := range keys {
			in[i] = (((k%1000)+1000)%1000)<<tagBits | int64(i)
		}
		xs := append([]int64(nil), in...)
		lessKey := func(a, b int64) bool { return a>>tagBits < b>>tagBits }
		call, label := "KSortBig OKey", "SortFunc(big)/"
		var p bool
		if stable {
			call, label = "KStableBig", "SortStableFunc(big)/"
			p, _ = vhlib.Recover(func() { bslice.SortStableFunc(xs, lessKey) })
		} else if rng.Bool() {
			p, _ = vhlib.Recover(func() { bslice.SortFunc(xs, lessKey) })
		} else {
			call, label = "KSortBig OFull", "Sort(big)/"
			p, _ = vhlib.Recover(func() { bslice.Sort(xs) })
		}
		obs := obsList(xs, 0, 0)
		if p {
			obs = "OPanic"
		}
		add(len(in)*40, label+gname, call, in, obs, true, map[string]interface{}{"generator": gname})
	}

	pickLen := func(max int) int {
		switch rng.Intn(12) {
		case 0:
			return rng.Intn(3)
		case 1:
			return 12 + rng.Intn(2) // maxInsertion boundary
		case 2:
			return 49 + rng.Intn(3) // shortestNinther / shortestShifting boundary
		case 3, 4:
			return rng.Range(13, 60)
		case 5:
			return max
		default:
			return rng.Range(0, max)
		}
	}
	maxModel, sortReps, bigs, bigMax := 300, 6, 2, 6000
	if thorough {
		maxModel, sortReps, bigs, bigMax = 2000, 14, 3, 100000
	}
	// exhaustive-ish: every generator at every small length
	for n := 0; n <= 16; n++ {
		for gi, g := range gens {
			keys := g.f(rng, n)
			switch (n + gi) % 3 {
			case 0:
				runSortFunc(g.name, keys, true)
				runStable(g.name, keys, false)
			case 1:
				runSortFunc(g.name, keys, false)
				runStable(g.name, keys, true)
			default:
				runSortOrdered(g.name, keys)
				runStable(g.name, keys, true)
			}
		}
	}
	// all permutations of 0..n-1 for n <= 5 through SortFunc and SortStableFunc (n <= 12 is the insertion sort path)
	for n := 2; n <= 5; n++ {
		perm := make([]int64, n)
		for i := range perm {
			perm[i] = int64(i / 2) // duplicates
		}
		var rec func(k int)
		rec = func(k int) {
			if k == n {
				runSortFunc("perm", append([]int64(nil), perm...), true)
				return
			}
			for i := k; i < n; i++ {
				perm[k], perm[i] = perm[i], perm[k]
				rec(k + 1)
				perm[k], perm[i] = perm[i], perm[k]
			}
		}
		rec(0)
	}
	for rep := 0; rep < sortReps; rep++ {
		for _, g := range gens {
			n := pickLen(maxModel)
			keys := g.f(rng, n)
			switch rng.Intn(4) {
			case 0:
				runSortFunc(g.name, keys, true)
			case 1:
				runSortFunc(g.name, keys, false)
			case 2:
				runSortOrdered(g.name, keys)
			default:
				runSortFunc(g.name, keys, rng.Bool())
			}
			if rng.Chance(1, 2) {
				runStable(g.name, g.f(rng, pickLen(maxModel)), rng.Chance(3, 4))
			}
			runLib(g.name, g.f(rng, pickLen(maxModel)))
		}
	}
	// targeted: adversary-built killers (heapsort fallback) and one input family per pdqsort branch, through every entry point
	doTargeted(rng, thorough, maxModel, runSortOrdered, runSortFunc)
	// long inputs through the verified output checkers only
	for i := 0; i < bigs; i++ {
		n := bigMax
		if i > 0 {
			n = rng.Range(bigMax/10, bigMax/2)
		}
		g := gens[rng.Intn(len(gens))]
		runBig(g.name, g.f(rng, n), i%2 == 0)
	}
	if thorough {
		runBig("killer", adversary(20000, 1, false, rng.Fork()), false)
	}

	// ---------- 1b. families added after the seeded-change rounds ----------
	doDisplaced(rng, thorough, runSortOrdered, runSortFunc) // nearly sorted with one / two displaced elements
	doSmallPermutations(rng, w)                             // every permutation of sizes 0..6 through the stdlib-backed sorts
	doWrappers(rng, thorough)                               // every sort entry point of every bslice wrapper flavour

	// ---------- 2. searches and predicates ----------
	doSearches(rng, thorough)
	doCmpShapes(rng, thorough, w) // user comparisons of non-unit magnitude, asymmetric predicates, recorded calls
	doElements(rng, thorough)     // NaN / +-0 elements, structs with float fields, aliased operands
	doComparePairs(rng, thorough) // prefixes with every length difference, both directions; through the wrappers too
	// ---------- 3. comparators ----------
	doComparators(rng, thorough)

	// ---------- branch coverage of the targeted inputs, decided by the Coq model ----------
	notes, evaluated, missing := evalPaths(o.Out)
	w.Notes["model_branches"] = notes
	if evaluated {
		add(1, "coverage: the targeted inputs reach every pdqsort branch (heapsort fallback, breakPatterns, partitionEqual, partialInsertionSort true/false, reverseRange)",
			fmt.Sprintf("KDiffOrdered %s", vhlib.Bool(len(missing) == 0)), nil, "ONone", true, map[string]interface{}{"branches_not_reached": missing})
	}

	// ---------- emit, spreading the heavy cases over the shards ----------
	sort.SliceStable(cases, func(i, j int) bool { return cases[i].weight > cases[j].weight })
	nsh := (len(cases) + 149) / 150
	shards := make([][]pending, nsh)
	load := make([]int, nsh)
	capOf := func(s int) int { // the writer cuts a shard every 150 cases: fill exactly so that its boundaries are ours
		if s < nsh-1 {
			return 150
		}
		return len(cases) - 150*(nsh-1)
	}
	for _, c := range cases { // greedy: heaviest first into the least loaded shard that still has room
		best := -1
		for s := 0; s < nsh; s++ {
			if len(shards[s]) < capOf(s) && (best < 0 || load[s] < load[best]) {
				best = s
			}
		}
		shards[best] = append(shards[best], c)
		load[best] += c.weight
	}
	for _, sh := range shards {
		for _, c := range sh {
			w.Case(c.term, c.label, c.nontrivial, nil, c.replay)
		}
	}
	w.Close(o, "one case = one call of a comparator / sort / search of the anchored files on a generated input (14 slice generators incl. sorted, reversed, few-distinct, organ-pipe, nearly-sorted, duplicate blocks, two runs, plus a targeted family: McIlroy-style adversaries (candidate rule with a pre-frozen sample, first-argument, second-argument and randomised freezing) run once per run against the real SortFunc, sizes 50..2000, whose killer VALUES are replayed through Sort on int64 / int / int32 / float64 / string, SortFunc, SortStableFunc and the BSlice methods, together with one input per remaining pdqsort branch (partitionEqual, partialInsertionSort true/false, reverseRange); the branches the model-replayed ones take are counted in Coq (notes.model_branches, heapsort_fallback_cases) and a run in which a required branch is not reached reports a kind-1 coverage case, ascending/descending inputs of length 50..300 with one or two displaced elements at every small offset and near the end (Sort, SortFunc, Ordered wrappers), every permutation of sizes 0..6 (distinct keys and ties) through GetSortedValues on arraylist / linkedhashset / treeset / hashset / doublylinkedlist, the lists' Sort, bcomparator.Sort and SortComparator, and every sort entry point (SortFunc, SortStableFunc, SortComparator and their ToSlice / ToBSlice variants, Sort) of all eight bslice wrapper flavours on tagged pairs with many ties, the Stable ones judged for stability; lengths 0..300 quick / 0..2000 thorough through the Coq model with the less-call sequence compared by count and rolling hash, up to 2*10^4 / 10^5 through the verified output checker only; comparators on type extremes and random pairs; CompareFunc / EqualFunc / BinarySearchFunc (package functions and the method of every bslice wrapper flavour), ReverseComparator and the comparator-taking sorts driven with comparison functions of six shapes (unit, a-b, b-a, 10*sign, (b-a)*1000003, clamped) and five predicates (three asymmetric), the (first, second) arguments of every call recorded and judged; Equal / EqualFunc(==) / Compare / CompareFunc(native) / Index / Contains / IsSorted on float64, float32 and struct{float64,int} elements with NaN, +0/-0 and infinities (sent as class codes, NaN = -1, judged with the partial element relations of CmpSel.v) and on ALIASED operands: the same slice twice, capped / shorter / shifted / suffix views of one array, a wrapper against its own ToMetaSlice()); distinct = distinct case terms; non-trivial = length >= 2 for slices, any comparator pair")
}

// diffOrdered: transform zsortfunc.go textually into what zsortordered.go must be and compare
func diffOrdered(repo string) (bool, string) {
	if repo == "" {
		return false, "VERIF_REPO not set"
	}
	fb, err1 := os.ReadFile(filepath.Join(repo, "base/bslice/zsortfunc.go"))
	ob, err2 := os.ReadFile(filepath.Join(repo, "base/bslice/zsortordered.go"))
	if err1 != nil || err2 != nil {
		return false, fmt.Sprint("cannot read the two files: ", err1, err2)
	}
	f, od := string(fb), string(ob)
	f = strings.ReplaceAll(f, "LessFunc", "Ordered")
	f = strings.ReplaceAll(f, "[E any]", "[E btype.Ordered]")
	f = strings.ReplaceAll(f, ", less func(a, b E) bool", "")
	f = strings.ReplaceAll(f, ", less)", ")")
	f = regexp.MustCompile(`less\(([^()]*(?:\[[^\]]*\])?[^()]*), (data\[[^\]]*\])\)`).ReplaceAllString(f, "($1 < $2)")
	// the generator writes a comparison that is a whole if-condition without parentheses
	f = regexp.MustCompile(`if \((data\[[^\]]*\] < data\[[^\]]*\])\) \{`).ReplaceAllString(f, "if $1 {")
	od = strings.Replace(od, "import (\n\t\"github.com/songzhibin97/go-baseutils/base/btype\"\n)\n\n", "", 1)
	norm := func(s string) []string {
		var out []string
		for _, l := range strings.Split(s, "\n") {
			t := strings.TrimSpace(l)
			if t == "" || strings.HasPrefix(t, "//") {
				continue
			}
			out = append(out, t)
		}
		return out
	}
	a, b := norm(f), norm(od)
	if len(a) != len(b) {
		return false, fmt.Sprintf("different number of code lines: %d vs %d", len(a), len(b))
	}
	for i := range a {
		if a[i] != b[i] {
			return false, fmt.Sprintf("code line %d differs: transformed zsortfunc.go has %q, zsortordered.go has %q", i, a[i], b[i])
		}
	}
	return true, fmt.Sprintf("identical up to less (%d code lines compared)", len(a))
}
