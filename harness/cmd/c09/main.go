// C09 harness: hashmap, linkedhashmap, hashset, linkedhashset, treeset, hashbidimap, treebidimap (plain and Safe*)
// driven by operation sequences over small universes of int, string and pointer keys; after every mutation the
// container is snapshotted through its public methods (plus the verif accessors of the linked containers) and the
// snapshots are written as Coq cases for C09/Check.v.
package main

import (
	"encoding/json"
	"fmt"
	"math"
	"sort"
	"strings"

	"github.com/songzhibin97/go-baseutils/base/bcomparator"
	"github.com/songzhibin97/go-baseutils/structure/maps/hashbidimap"
	"github.com/songzhibin97/go-baseutils/structure/maps/hashmap"
	"github.com/songzhibin97/go-baseutils/structure/maps/linkedhashmap"
	"github.com/songzhibin97/go-baseutils/structure/maps/treebidimap"
	"github.com/songzhibin97/go-baseutils/structure/sets/hashset"
	"github.com/songzhibin97/go-baseutils/structure/sets/linkedhashset"
	"github.com/songzhibin97/go-baseutils/structure/sets/treeset"

	"vh/vhlib"
)

// T is the pointee of pointer keys: two distinct pointers to equal structs are != but reflect.DeepEqual.
type T struct{ X int }

// ---------- key domains: a universe of keys, numbered 0..u-1 (for ordered types: in key order) ----------

type dom[K comparable] struct {
	tname string
	univ  []K
	ids   map[K]int64
	desc  []string
}

func newDom[K comparable](tname string, univ []K, desc []string) *dom[K] {
	d := &dom[K]{tname: tname, univ: univ, ids: map[K]int64{}, desc: desc}
	for i, k := range univ {
		d.ids[k] = int64(i)
	}
	return d
}
func (d *dom[K]) id(k K) int64 {
	if v, ok := d.ids[k]; ok {
		return v
	}
	return -7 // a key that was never put in: cannot match anything the reference holds
}
func (d *dom[K]) list(ks []K) string {
	it := make([]string, len(ks))
	for i, k := range ks {
		it[i] = vhlib.Z(d.id(k))
	}
	return vhlib.List(it)
}
func (d *dom[K]) univList() string {
	it := make([]string, len(d.univ))
	for i := range d.univ {
		it[i] = fmt.Sprint(i)
	}
	return vhlib.List(it)
}

var strPool = []string{"", "a", "b", "ab", "ba", "a\"b", "\\", "é", "日本", "a b", "A", "0", "10", "9"}

func intDom(rng *vhlib.Rng, u int) *dom[int] {
	var univ []int
	switch rng.Intn(4) {
	case 0: // extremes
		pool := []int{math.MinInt64, math.MinInt64 + 1, -1 << 32, -1, 0, 1, 1 << 32, math.MaxInt64 - 1, math.MaxInt64}
		p := rng.Perm(len(pool))
		for i := 0; i < u && i < len(pool); i++ {
			univ = append(univ, pool[p[i]])
		}
	case 1:
		x := rng.Intn(2000) - 1000
		for i := 0; i < u; i++ {
			univ = append(univ, x)
			x += 1 + rng.Intn(3)
		}
	default:
		for i := 0; i < u; i++ {
			univ = append(univ, i)
		}
	}
	sort.Ints(univ)
	desc := make([]string, len(univ))
	for i, k := range univ {
		desc[i] = fmt.Sprint(k)
	}
	return newDom("int", univ, desc)
}
func strDom(rng *vhlib.Rng, u int) *dom[string] {
	p := rng.Perm(len(strPool))
	var univ []string
	for i := 0; i < u && i < len(strPool); i++ {
		univ = append(univ, strPool[p[i]])
	}
	sort.Strings(univ)
	desc := make([]string, len(univ))
	for i, k := range univ {
		desc[i] = fmt.Sprintf("%q", k)
	}
	return newDom("string", univ, desc)
}

// pointer universe: p0,p1 point to equal structs, p2,p3 too, ...
func ptrDom(u int) *dom[*T] {
	var univ []*T
	var desc []string
	for i := 0; i < u; i++ {
		univ = append(univ, &T{X: i / 2})
		desc = append(desc, fmt.Sprintf("p%d=&T{%d}", i, i/2))
	}
	return newDom("ptr", univ, desc)
}

// ---------- comparator shapes for the tree-backed containers ----------
// A user comparator only has to return <0 / 0 / >0; the built-in ones return -1/0/+1, user ones typically a-b, (b-a)*k, ...
// coq is the cmpsel term of C09/Check.v: its sign on the key NUMBERS is the sign of f on the keys (ordered key types are
// numbered in ascending key order).
type cmpShape[K any] struct {
	name, coq string
	f         bcomparator.Comparator[K]
}

func intShapes() []cmpShape[int] {
	return []cmpShape[int]{
		{"a-b", "(CLin 1)", func(a, b int) int { return a - b }},
		{"b-a", "(CLin (-1))", func(a, b int) int { return b - a }},
		{"(b-a)*7", "(CLin (-7))", func(a, b int) int { return (b - a) * 7 }},
		{"(a-b)*3", "(CLin 3)", func(a, b int) int { return (a - b) * 3 }},
	}
}
func strShapes() []cmpShape[string] {
	return []cmpShape[string]{
		{"5*Compare", "(CLin 5)", func(a, b string) int { return 5 * strings.Compare(a, b) }},
		{"-2*Compare", "(CLin (-2))", func(a, b string) int { return -2 * strings.Compare(a, b) }},
	}
}
func ptrShapes() []cmpShape[*T] {
	return []cmpShape[*T]{
		{"a.X-b.X", "(CLin 1)", func(a, b *T) int { return a.X - b.X }},
		{"(b.X-a.X)*7", "(CLin (-7))", func(a, b *T) int { return (b.X - a.X) * 7 }},
	}
}

// int universe for the subtracting comparators: no overflow, gaps of varying size (so the magnitudes vary)
func smallIntDom(rng *vhlib.Rng, u int) *dom[int] {
	var univ []int
	x := rng.Intn(4000) - 2000
	for i := 0; i < u; i++ {
		univ = append(univ, x)
		x += 1 + rng.Intn(60)
	}
	desc := make([]string, len(univ))
	for i, k := range univ {
		desc[i] = fmt.Sprint(k)
	}
	return newDom("int", univ, desc)
}

// pointer universe ordered by a struct field: distinct field values, numbered in field order
func ptrFieldDom(rng *vhlib.Rng, u int) *dom[*T] {
	var univ []*T
	var desc []string
	x := rng.Intn(100) - 50
	for i := 0; i < u; i++ {
		univ = append(univ, &T{X: x})
		desc = append(desc, fmt.Sprintf("p%d=&T{%d}", i, x))
		x += 1 + rng.Intn(40)
	}
	return newDom("ptr", univ, desc)
}

// ---------- printing ----------

func optZ(ok bool, v int64) string { return vhlib.Opt(ok, vhlib.Z(v)) }
func boolList(bs []bool) string {
	it := make([]string, len(bs))
	for i, b := range bs {
		it[i] = vhlib.Bool(b)
	}
	return vhlib.List(it)
}
func idxList(d []int) string {
	it := make([]string, len(d))
	for i, v := range d {
		it[i] = fmt.Sprint(v)
	}
	return vhlib.List(it)
}

// ---------- operation generators ----------

type op struct {
	kind  int      // 0 Put/Add, 1 Remove, 2 Clear, 3 UnmarshalJSON of a document into the container as it is
	k, v  int      // universe indexes (maps / bidi)
	items []int    // sets: the variadic batch; kind 3: the elements of the document
	doc   [][2]int // kind 3, maps / bidi: the members of the document, in document order
	null  bool     // kind 3: the document is the JSON value null
}

// Some operations become "UnmarshalJSON(document)": the container, in whatever state it is, loads a document that was NOT written by
// its own MarshalJSON: members in any order, distinct member names, values that may repeat (for a bidi-map: several keys carrying one
// value, so only one of them can survive), set documents with repeated and unsorted elements, the empty document and null.  The code
// decodes, clears and re-inserts, so the container must then hold exactly what Clear followed by those insertions leaves.
func injectLoads(rng *vhlib.Rng, ops []op, u, vu int) []op {
	for i := range ops {
		if rng.Intn(10) != 0 {
			continue
		}
		n := rng.Intn(u + 1)
		ks := rng.Perm(u)
		o := op{kind: 3}
		distinct := rng.Intn(3) == 0 && n <= vu
		vs := rng.Perm(vu)
		for j := 0; j < n; j++ {
			v := rng.Intn(vu)
			if distinct {
				v = vs[j]
			}
			o.doc = append(o.doc, [2]int{ks[j], v})
			o.items = append(o.items, ks[j])
		}
		for r := rng.Intn(3); r > 0 && len(o.items) > 0; r-- { // a set document may repeat elements, anywhere
			at := rng.Intn(len(o.items) + 1)
			o.items = append(o.items[:at], append([]int{o.items[rng.Intn(len(o.items))]}, o.items[at:]...)...)
		}
		o.null = n == 0 && rng.Bool()
		ops[i] = o
	}
	return ops
}

type unmarshaler interface{ UnmarshalJSON([]byte) error }

func jtext(v interface{}) string {
	b, err := json.Marshal(v)
	if err != nil {
		panic(err)
	}
	return string(b)
}

// member name of a key in a hashmap / linkedhashmap / hashbidimap document: the key's text as a JSON string
func hashName(k interface{}) string {
	t := jtext(k)
	if t[0] == '"' {
		return t
	}
	return jtext(t)
}
func load(c interface{}, doc string) {
	if err := c.(unmarshaler).UnmarshalJSON([]byte(doc)); err != nil {
		panic(fmt.Sprint("UnmarshalJSON(", doc, "): ", err))
	}
}
func pairList(doc [][2]int) string {
	it := make([]string, len(doc))
	for i, kv := range doc {
		it[i] = fmt.Sprintf("(%d, %d)", kv[0], kv[1])
	}
	return vhlib.List(it)
}

var profiles = []string{"churn", "putheavy", "delheavy", "dup", "asc", "desc", "zigzag", "readd"}

func genOps(rng *vhlib.Rng, u, vu, n int, profile string, batch bool) []op {
	var ops []op
	mkItems := func(k int) []int {
		if !batch {
			return nil
		}
		switch rng.Intn(6) {
		case 0:
			return []int{} // empty batch
		case 1:
			return []int{k, rng.Intn(u)}
		case 2:
			return []int{k, k, rng.Intn(u)} // duplicate inside the batch
		default:
			return []int{k}
		}
	}
	for i := 0; i < n; i++ {
		k, v := rng.Intn(u), rng.Intn(vu)
		kind := 0
		switch profile {
		case "churn":
			switch r := rng.Intn(20); {
			case r < 10:
				kind = 0
			case r < 19:
				kind = 1
			default:
				kind = 2
			}
		case "putheavy":
			if rng.Intn(8) == 0 {
				kind = 1
			}
		case "delheavy":
			if rng.Intn(5) < 3 {
				kind = 1
			}
			if rng.Intn(25) == 0 {
				kind = 2
			}
		case "dup":
			k = rng.Intn(2) % u
			kind = rng.Intn(3) % 2
		case "asc":
			k = i % u
			if (i/u)%2 == 1 {
				kind = 1
			}
		case "desc":
			k = u - 1 - i%u
			if (i/u)%2 == 1 {
				kind = 1
			}
		case "zigzag":
			if i%2 == 0 {
				k = (i / 2) % u
			} else {
				k = u - 1 - (i/2)%u
			}
			if rng.Intn(4) == 0 {
				kind = 1
			}
		case "readd": // remove a key and put it back: it must move to the end of a linked container
			if i%3 == 1 && len(ops) > 0 {
				k, kind = ops[len(ops)-1].k, 1
			} else if i%3 == 2 && len(ops) > 0 {
				k, kind = ops[len(ops)-1].k, 0
			}
		}
		ops = append(ops, op{kind: kind, k: k, v: v, items: mkItems(k)})
	}
	return ops
}

// all words of length n over an alphabet of a symbols
func words(a, n int, f func(w []int)) {
	w := make([]int, n)
	var rec func(i int)
	rec = func(i int) {
		if i == n {
			f(w)
			return
		}
		for s := 0; s < a; s++ {
			w[i] = s
			rec(i + 1)
		}
	}
	rec(0)
}

// ---------- maps ----------

type mapAPI[K comparable] interface {
	Put(K, int)
	Get(K) (int, bool)
	Remove(K)
	Keys() []K
	Values() []int
	Size() int
	Empty() bool
	Clear()
}
type linkedExtra[K comparable] interface {
	VerifTableKeys() []K
	VerifRevKeys() []K
}
type mapMaker[K comparable] struct {
	cname, kind string
	mk          func(safe bool) mapAPI[K]
}

func hashmapMaker[K comparable]() mapMaker[K] {
	return mapMaker[K]{"hashmap", "KHash", func(safe bool) mapAPI[K] {
		if safe {
			return hashmap.NewSafe[K, int]()
		}
		return hashmap.New[K, int]()
	}}
}
func linkedmapMaker[K comparable]() mapMaker[K] {
	return mapMaker[K]{"linkedhashmap", "KLinked", func(safe bool) mapAPI[K] {
		if safe {
			return linkedhashmap.NewSafe[K, int]()
		}
		return linkedhashmap.New[K, int]()
	}}
}

func zs(vs []int) string {
	it := make([]string, len(vs))
	for i, v := range vs {
		it[i] = vhlib.Z(int64(v))
	}
	return vhlib.List(it)
}

const panicMS = "MS true 0 false [] [] [] [] []"

func snapMap[K comparable](d *dom[K], m mapAPI[K]) (s string) {
	p, _ := vhlib.Recover(func() {
		gets := make([]string, len(d.univ))
		for i, k := range d.univ {
			v, ok := m.Get(k)
			gets[i] = optZ(ok, int64(v))
		}
		table, rev := "[]", "[]"
		if x, ok := m.(linkedExtra[K]); ok {
			table, rev = d.list(x.VerifTableKeys()), d.list(x.VerifRevKeys())
		}
		s = fmt.Sprintf("MS false %d %s %s %s %s %s %s", m.Size(), vhlib.Bool(m.Empty()), d.list(m.Keys()), zs(m.Values()),
			vhlib.List(gets), table, rev)
	})
	if p {
		return panicMS
	}
	return s
}

func label(cname, tname string, safe bool) string {
	if safe {
		return cname + ".Safe[" + tname + "]"
	}
	return cname + "[" + tname + "]"
}

func runMap[K comparable](w *vhlib.Writer, d *dom[K], mm mapMaker[K], safe bool, ops []op, gen string) {
	m := mm.mk(safe)
	var steps, labels, hist []string
	nontrivial := false
	for _, o := range ops {
		var term, lab, h string
		if m.Size() > 0 {
			nontrivial = true
		}
		p, _ := vhlib.Recover(func() {
			switch o.kind {
			case 0:
				term, lab, h = fmt.Sprintf("MPut %d %s", o.k, vhlib.Z(int64(o.v))), "Put", fmt.Sprintf("Put(%s,%d)", d.desc[o.k], o.v)
				m.Put(d.univ[o.k], o.v)
			case 1:
				term, lab, h = fmt.Sprintf("MRemove %d", o.k), "Remove", fmt.Sprintf("Remove(%s)", d.desc[o.k])
				m.Remove(d.univ[o.k])
			case 3:
				var ms []string
				for _, kv := range o.doc {
					ms = append(ms, hashName(d.univ[kv[0]])+":"+fmt.Sprint(kv[1]))
				}
				doc := "{" + strings.Join(ms, ",") + "}"
				if o.null {
					doc = "null"
				}
				term, lab, h = "MLoad "+pairList(o.doc), "UnmarshalJSON", "UnmarshalJSON("+doc+")"
				load(m, doc)
			default:
				term, lab, h = "MClear", "Clear", "Clear()"
				m.Clear()
			}
		})
		if o.kind != 3 {
			term = "MOp (" + term + ")"
		}
		snap := panicMS
		if !p {
			snap = snapMap(d, m)
		}
		steps = append(steps, "("+term+", "+snap+")")
		labels = append(labels, lab)
		hist = append(hist, h)
		if snap == panicMS {
			break
		}
	}
	term := fmt.Sprintf("CMap %s %s %s", mm.kind, d.univList(), vhlib.List(steps))
	w.Case(term, label(mm.cname, d.tname, safe), nontrivial, labels,
		map[string]interface{}{"container": label(mm.cname, d.tname, safe), "keys": d.desc, "ops": hist, "generator": gen})
}

// ---------- sets ----------

type setAPI[K any] interface {
	Add(...K)
	Remove(...K)
	Contains(...K) bool
	Values() []K
	Size() int
	Empty() bool
	Clear()
}
type algAPI[S any] interface {
	Union(S) S
	Intersection(S) S
	Difference(S) S
}

func doAlg[S any](opk int, a algAPI[S], b S) S {
	switch opk {
	case 0:
		return a.Union(b)
	case 1:
		return a.Intersection(b)
	default:
		return a.Difference(b)
	}
}

type setMaker[K comparable] struct {
	cname, kind string
	mk          func(safe bool, init []K) setAPI[K]
	alg         func(opk int, a, b setAPI[K]) setAPI[K] // b is always the plain type
}

func hashsetMaker[K comparable]() setMaker[K] {
	return setMaker[K]{"hashset", "SHash", func(safe bool, init []K) setAPI[K] {
		if safe {
			return hashset.VerifNewSafe[K](init...)
		}
		return hashset.New[K](init...)
	}, func(opk int, a, b setAPI[K]) setAPI[K] {
		return doAlg[*hashset.Set[K]](opk, a.(algAPI[*hashset.Set[K]]), b.(*hashset.Set[K]))
	}}
}
func linkedsetMaker[K comparable]() setMaker[K] {
	return setMaker[K]{"linkedhashset", "SLinked", func(safe bool, init []K) setAPI[K] {
		if safe {
			return linkedhashset.NewSafe[K](init...)
		}
		return linkedhashset.New[K](init...)
	}, func(opk int, a, b setAPI[K]) setAPI[K] {
		return doAlg[*linkedhashset.Set[K]](opk, a.(algAPI[*linkedhashset.Set[K]]), b.(*linkedhashset.Set[K]))
	}}
}
func treesetMaker[K comparable](cmp bcomparator.Comparator[K]) setMaker[K] {
	return treesetShape(cmpShape[K]{"", "CBuiltin", cmp})
}
func shapeName(base, shape string) string {
	if shape == "" {
		return base
	}
	return base + "{cmp " + shape + "}"
}
func treesetShape[K comparable](sh cmpShape[K]) setMaker[K] {
	cmp := sh.f
	return setMaker[K]{shapeName("treeset", sh.name), "(STree " + sh.coq + ")", func(safe bool, init []K) setAPI[K] {
		if safe {
			return treeset.NewSafeWith[K](cmp, init...)
		}
		return treeset.NewWith[K](cmp, init...)
	}, func(opk int, a, b setAPI[K]) setAPI[K] {
		return doAlg[*treeset.Set[K]](opk, a.(algAPI[*treeset.Set[K]]), b.(*treeset.Set[K]))
	}}
}

const panicSS = "SS true 0 false [] [] [] false [] []"

func pick[K any](d []K, idx []int) []K {
	r := make([]K, len(idx))
	for i, x := range idx {
		r[i] = d[x]
	}
	return r
}

func snapSet[K comparable](d *dom[K], s setAPI[K], query []int) (out string) {
	p, _ := vhlib.Recover(func() {
		has := make([]bool, len(d.univ))
		for i, k := range d.univ {
			has[i] = s.Contains(k)
		}
		table, rev := "[]", "[]"
		if x, ok := s.(linkedExtra[K]); ok {
			table, rev = d.list(x.VerifTableKeys()), d.list(x.VerifRevKeys())
		}
		out = fmt.Sprintf("SS false %d %s %s %s %s %s %s %s", s.Size(), vhlib.Bool(s.Empty()), d.list(s.Values()), boolList(has),
			idxList(query), vhlib.Bool(s.Contains(pick(d.univ, query)...)), table, rev)
	})
	if p {
		return panicSS
	}
	return out
}

func descList[K comparable](d *dom[K], idx []int) string {
	it := make([]string, len(idx))
	for i, x := range idx {
		it[i] = d.desc[x]
	}
	return strings.Join(it, ",")
}

// applies one set operation; returns Coq term, step label, history text
func applySetOp[K comparable](d *dom[K], s setAPI[K], o op) (term, lab, h string) {
	switch o.kind {
	case 0:
		term, lab, h = "SAdd "+idxList(o.items), "Add", "Add("+descList(d, o.items)+")"
		s.Add(pick(d.univ, o.items)...)
	case 1:
		term, lab, h = "SRemove "+idxList(o.items), "Remove", "Remove("+descList(d, o.items)+")"
		s.Remove(pick(d.univ, o.items)...)
	default:
		term, lab, h = "SClear", "Clear", "Clear()"
		s.Clear()
	}
	return
}

func runSet[K comparable](w *vhlib.Writer, rng *vhlib.Rng, d *dom[K], sm setMaker[K], safe bool, ops []op, gen string) {
	s := sm.mk(safe, nil)
	var steps, labels, hist []string
	nontrivial := false
	for _, o := range ops {
		var term, lab, h string
		if s.Size() > 0 {
			nontrivial = true
		}
		p, _ := vhlib.Recover(func() {
			if o.kind == 3 {
				var es []string
				for _, x := range o.items {
					es = append(es, jtext(d.univ[x]))
				}
				doc := "[" + strings.Join(es, ",") + "]"
				if o.null {
					doc = "null"
				}
				term, lab, h = "SLoad "+idxList(o.items), "UnmarshalJSON", "UnmarshalJSON("+doc+")"
				load(s, doc)
				return
			}
			term, lab, h = applySetOp(d, s, o)
			term = "SOp (" + term + ")"
		})
		snap := panicSS
		if !p {
			q := make([]int, rng.Intn(4))
			for i := range q {
				q[i] = rng.Intn(len(d.univ))
			}
			snap = snapSet(d, s, q)
		}
		if term == "" {
			term, lab, h = "SOp SClear", "panic", "panic before the call"
		}
		steps = append(steps, "("+term+", "+snap+")")
		labels = append(labels, lab)
		hist = append(hist, h)
		if snap == panicSS {
			break
		}
	}
	term := fmt.Sprintf("CSet %s %s %s", sm.kind, d.univList(), vhlib.List(steps))
	w.Case(term, label(sm.cname, d.tname, safe), nontrivial, labels,
		map[string]interface{}{"container": label(sm.cname, d.tname, safe), "keys": d.desc, "ops": hist, "generator": gen})
}

var algNames = []string{"Union", "Intersection", "Difference"}
var algCoq = []string{"AUnion", "AInter", "ADiff"}

func runAlg[K comparable](w *vhlib.Writer, rng *vhlib.Rng, d *dom[K], sm setMaker[K], safe bool, opk int, aops, bops []op) {
	var aterms, bterms, hist []string
	u := len(d.univ)
	var snap string
	nontrivial := false
	p, pv := vhlib.Recover(func() {
		a := sm.mk(safe, nil)
		b := sm.mk(false, nil)
		for _, o := range aops {
			t, _, h := applySetOp(d, a, o)
			aterms = append(aterms, t)
			hist = append(hist, "a."+h)
		}
		for _, o := range bops {
			t, _, h := applySetOp(d, b, o)
			bterms = append(bterms, t)
			hist = append(hist, "b."+h)
		}
		a0, b0 := d.list(a.Values()), d.list(b.Values())
		nontrivial = a.Size() > 0 && b.Size() > 0
		r := sm.alg(opk, a, b)
		rv := d.list(r.Values())
		rt := "[]"
		if x, ok := r.(linkedExtra[K]); ok {
			rt = d.list(x.VerifTableKeys())
		}
		a1, b1 := d.list(a.Values()), d.list(b.Values())
		// a second result of the same call is mutated: neither the operands nor the first result may change
		rr := sm.alg(opk, a, b)
		rr.Add(d.univ[rng.Intn(u)])
		if vs := rr.Values(); len(vs) > 0 {
			rr.Remove(vs[0])
		}
		rr.Add(d.univ[rng.Intn(u)], d.univ[rng.Intn(u)])
		if rng.Bool() {
			rr.Clear()
		}
		a2, b2, r2 := d.list(a.Values()), d.list(b.Values()), d.list(r.Values())
		// both operands are mutated: the first result may not change
		a.Add(d.univ[rng.Intn(u)])
		if vs := a.Values(); len(vs) > 0 {
			a.Remove(vs[len(vs)-1])
		}
		b.Add(d.univ[rng.Intn(u)])
		if vs := b.Values(); len(vs) > 0 {
			b.Remove(vs[0])
		}
		if rng.Bool() {
			a.Clear()
		} else {
			b.Clear()
		}
		r3 := d.list(r.Values())
		snap = fmt.Sprintf("AS false %s %s %s %s %s %s %s %s %s %s", a0, b0, rv, rt, a1, b1, a2, b2, r2, r3)
	})
	if p {
		snap = "AS true [] [] [] [] [] [] [] [] [] []"
		hist = append(hist, fmt.Sprint("panic: ", pv))
	}
	lab := label(sm.cname, d.tname, safe) + "." + algNames[opk]
	term := fmt.Sprintf("CAlg %s %s %s %s (%s)", sm.kind, algCoq[opk], vhlib.List(aterms), vhlib.List(bterms), snap)
	w.Case(term, lab, nontrivial, []string{algNames[opk]},
		map[string]interface{}{"container": lab, "keys": d.desc, "ops": hist, "op": "a." + algNames[opk] + "(b)"})
}

// ---------- bidirectional maps ----------

type bidiAPI[K comparable, V comparable] interface {
	Put(K, V)
	Get(K) (V, bool)
	GetKey(V) (K, bool)
	Remove(K)
	Keys() []K
	Values() []V
	Size() int
	Empty() bool
	Clear()
}
type bidiMaker[K comparable, V comparable] struct {
	cname, kind string
	mk          func(safe bool) bidiAPI[K, V]
}

func hashbidiMaker[K comparable, V comparable]() bidiMaker[K, V] {
	return bidiMaker[K, V]{"hashbidimap", "BHash", func(safe bool) bidiAPI[K, V] {
		if safe {
			return hashbidimap.NewSafe[K, V]()
		}
		return hashbidimap.New[K, V]()
	}}
}
func treebidiMaker[K comparable, V comparable](kc bcomparator.Comparator[K], vc bcomparator.Comparator[V]) bidiMaker[K, V] {
	return treebidiShape(cmpShape[K]{"", "CBuiltin", kc}, cmpShape[V]{"", "CBuiltin", vc})
}
func treebidiShape[K comparable, V comparable](ks cmpShape[K], vs cmpShape[V]) bidiMaker[K, V] {
	kc, vc := ks.f, vs.f
	name := "treebidimap"
	if ks.name != "" || vs.name != "" {
		name = "treebidimap{cmp " + ks.name + " / " + vs.name + "}"
	}
	return bidiMaker[K, V]{name, "(BTree " + ks.coq + " " + vs.coq + ")", func(safe bool) bidiAPI[K, V] {
		if safe {
			return treebidimap.NewSafeWith[K, V](kc, vc)
		}
		return treebidimap.NewWith[K, V](kc, vc)
	}}
}

const panicBS = "BS true 0 false [] [] [] []"

func snapBidi[K comparable, V comparable](dk *dom[K], dv *dom[V], m bidiAPI[K, V]) (out string) {
	p, _ := vhlib.Recover(func() {
		gets := make([]string, len(dk.univ))
		for i, k := range dk.univ {
			v, ok := m.Get(k)
			gets[i] = optZ(ok, dv.id(v))
		}
		getkeys := make([]string, len(dv.univ))
		for i, v := range dv.univ {
			k, ok := m.GetKey(v)
			getkeys[i] = optZ(ok, dk.id(k))
		}
		out = fmt.Sprintf("BS false %d %s %s %s %s %s", m.Size(), vhlib.Bool(m.Empty()), dk.list(m.Keys()), dv.list(m.Values()),
			vhlib.List(gets), vhlib.List(getkeys))
	})
	if p {
		return panicBS
	}
	return out
}

func runBidi[K comparable, V comparable](w *vhlib.Writer, dk *dom[K], dv *dom[V], bm bidiMaker[K, V], safe bool, ops []op, gen string) {
	m := bm.mk(safe)
	var steps, labels, hist []string
	nontrivial := false
	for _, o := range ops {
		var term, lab, h string
		if m.Size() > 0 {
			nontrivial = true
		}
		p, _ := vhlib.Recover(func() {
			switch o.kind {
			case 0:
				term, lab, h = fmt.Sprintf("BPut %d %d", o.k, o.v), "Put", fmt.Sprintf("Put(%s,%s)", dk.desc[o.k], dv.desc[o.v])
				m.Put(dk.univ[o.k], dv.univ[o.v])
			case 1:
				term, lab, h = fmt.Sprintf("BRemove %d", o.k), "Remove", fmt.Sprintf("Remove(%s)", dk.desc[o.k])
				m.Remove(dk.univ[o.k])
			case 3:
				var ms []string
				for _, kv := range o.doc {
					if strings.HasPrefix(bm.cname, "treebidimap") { // treebidimap: member name = the key's JSON text, value = the value's JSON text as a string
						ms = append(ms, jtext(jtext(dk.univ[kv[0]]))+":"+jtext(jtext(dv.univ[kv[1]])))
					} else {
						ms = append(ms, hashName(dk.univ[kv[0]])+":"+jtext(dv.univ[kv[1]]))
					}
				}
				doc := "{" + strings.Join(ms, ",") + "}"
				if o.null {
					doc = "null"
				}
				term, lab, h = "BLoad "+pairList(o.doc), "UnmarshalJSON", "UnmarshalJSON("+doc+")"
				load(m, doc)
			default:
				term, lab, h = "BClear", "Clear", "Clear()"
				m.Clear()
			}
		})
		if o.kind != 3 {
			term = "BOp (" + term + ")"
		}
		snap := panicBS
		if !p {
			snap = snapBidi(dk, dv, m)
		}
		steps = append(steps, "("+term+", "+snap+")")
		labels = append(labels, lab)
		hist = append(hist, h)
		if snap == panicBS {
			break
		}
	}
	tn := dk.tname
	if dv.tname != dk.tname {
		tn += "," + dv.tname
	}
	term := fmt.Sprintf("CBidi %s %s %s %s", bm.kind, dk.univList(), dv.univList(), vhlib.List(steps))
	w.Case(term, label(bm.cname, tn, safe), nontrivial, labels,
		map[string]interface{}{"container": label(bm.cname, tn, safe), "keys": dk.desc, "values": dv.desc, "ops": hist, "generator": gen})
}

// ---------- drivers per key type ----------

func randomMaps[K comparable](w *vhlib.Writer, rng *vhlib.Rng, mkDom func() *dom[K], makers []mapMaker[K], reps int) {
	for _, mm := range makers {
		for _, safe := range []bool{false, true} {
			for i := 0; i < reps; i++ {
				d := mkDom()
				prof := profiles[rng.Intn(len(profiles))]
				ops := genOps(rng, len(d.univ), 4, 1+rng.Intn(22), prof, false)
				if d.tname != "ptr" { // pointer keys have no JSON form
					ops = injectLoads(rng, ops, len(d.univ), 4)
				}
				runMap(w, d, mm, safe, ops, prof)
			}
		}
	}
}
func randomSets[K comparable](w *vhlib.Writer, rng *vhlib.Rng, mkDom func() *dom[K], makers []setMaker[K], reps, areps int) {
	for _, sm := range makers {
		for _, safe := range []bool{false, true} {
			for i := 0; i < reps; i++ {
				d := mkDom()
				prof := profiles[rng.Intn(len(profiles))]
				ops := genOps(rng, len(d.univ), 1, 1+rng.Intn(20), prof, true)
				if d.tname != "ptr" {
					ops = injectLoads(rng, ops, len(d.univ), len(d.univ))
				}
				runSet(w, rng, d, sm, safe, ops, prof)
			}
			for i := 0; i < areps; i++ {
				d := mkDom()
				u := len(d.univ)
				for opk := 0; opk < 3; opk++ {
					aops := genOps(rng, u, 1, rng.Intn(9), profiles[rng.Intn(3)], true)
					bops := genOps(rng, u, 1, rng.Intn(9), profiles[rng.Intn(3)], true)
					if rng.Intn(6) == 0 {
						bops = aops // equal operands
					}
					runAlg(w, rng, d, sm, safe, opk, aops, bops)
				}
			}
		}
	}
}
func randomBidi[K comparable, V comparable](w *vhlib.Writer, rng *vhlib.Rng, mkK func() *dom[K], mkV func() *dom[V], makers []bidiMaker[K, V], reps int) {
	for _, bm := range makers {
		for _, safe := range []bool{false, true} {
			for i := 0; i < reps; i++ {
				dk, dv := mkK(), mkV()
				prof := profiles[rng.Intn(len(profiles))]
				ops := genOps(rng, len(dk.univ), len(dv.univ), 1+rng.Intn(24), prof, false)
				if dk.tname != "ptr" && dv.tname != "ptr" {
					ops = injectLoads(rng, ops, len(dk.univ), len(dv.univ))
				}
				runBidi(w, dk, dv, bm, safe, ops, prof)
			}
		}
	}
}

func main() {
	o := vhlib.ParseOpts()
	rng := vhlib.NewRng(o.Seed)
	w := vhlib.NewWriter(o.Out, "From VF Require Import Common.Base C09.Model C09.Check.\nLocal Open Scope Z_scope.", "case", "mismatches", 300)

	reps, areps, wl := 40, 8, 4
	if o.Thorough() {
		reps, areps, wl = 500, 80, 5
	}
	usize := func() int { return 2 + rng.Intn(5) }

	// ---- bounded-exhaustive streams: every word of length wl over a tiny universe ----
	// linked containers with pointer keys {p0,p1 (equal structs), p2}: Put/Add x3, Remove x3, Clear
	words(7, wl, func(wd []int) {
		var ops []op
		for i, s := range wd {
			switch {
			case s < 3:
				ops = append(ops, op{kind: 0, k: s, v: i + 1, items: []int{s}})
			case s < 6:
				ops = append(ops, op{kind: 1, k: s - 3, items: []int{s - 3}})
			default:
				ops = append(ops, op{kind: 2})
			}
		}
		runMap(w, ptrDom(3), linkedmapMaker[*T](), false, ops, "exhaustive")
		runSet(w, rng, ptrDom(3), linkedsetMaker[*T](), false, ops, "exhaustive")
	})
	// bidi maps over keys {0,1} x values {0,1}: Put x4, Remove x2, Clear
	words(7, wl, func(wd []int) {
		var ops []op
		for _, s := range wd {
			switch {
			case s < 4:
				ops = append(ops, op{kind: 0, k: s / 2, v: s % 2})
			case s < 6:
				ops = append(ops, op{kind: 1, k: s - 4})
			default:
				ops = append(ops, op{kind: 2})
			}
		}
		dk, dv := newDom("int", []int{0, 1}, []string{"0", "1"}), newDom("int", []int{0, 1}, []string{"0", "1"})
		runBidi(w, dk, dv, hashbidiMaker[int, int](), false, ops, "exhaustive")
		runBidi(w, dk, dv, treebidiMaker[int, int](bcomparator.IntComparator(), bcomparator.IntComparator()), false, ops, "exhaustive")
		// the same words with user comparators whose results are not -1/0/+1, over universes with gaps
		dk2, dv2 := newDom("int", []int{10, 15}, []string{"10", "15"}), newDom("int", []int{-3, 9}, []string{"-3", "9"})
		runBidi(w, dk2, dv2, treebidiShape(intShapes()[2], intShapes()[0]), false, ops, "exhaustive")
	})

	// ---- profiled random streams ----
	randomMaps(w, rng, func() *dom[int] { return intDom(rng, usize()) }, []mapMaker[int]{hashmapMaker[int](), linkedmapMaker[int]()}, reps)
	randomMaps(w, rng, func() *dom[string] { return strDom(rng, usize()) }, []mapMaker[string]{hashmapMaker[string](), linkedmapMaker[string]()}, reps)
	randomMaps(w, rng, func() *dom[*T] { return ptrDom(usize()) }, []mapMaker[*T]{hashmapMaker[*T](), linkedmapMaker[*T]()}, reps)

	randomSets(w, rng, func() *dom[int] { return intDom(rng, usize()) },
		[]setMaker[int]{hashsetMaker[int](), linkedsetMaker[int](), treesetMaker[int](bcomparator.IntComparator())}, reps, areps)
	randomSets(w, rng, func() *dom[string] { return strDom(rng, usize()) },
		[]setMaker[string]{hashsetMaker[string](), linkedsetMaker[string](), treesetMaker[string](bcomparator.StringComparator())}, reps, areps)
	randomSets(w, rng, func() *dom[*T] { return ptrDom(usize()) },
		[]setMaker[*T]{hashsetMaker[*T](), linkedsetMaker[*T]()}, reps, areps)

	vsize := func() int { return 2 + rng.Intn(3) }
	randomBidi(w, rng, func() *dom[int] { return intDom(rng, usize()) }, func() *dom[int] { return intDom(rng, vsize()) },
		[]bidiMaker[int, int]{hashbidiMaker[int, int](), treebidiMaker[int, int](bcomparator.IntComparator(), bcomparator.IntComparator())}, reps)
	randomBidi(w, rng, func() *dom[string] { return strDom(rng, usize()) }, func() *dom[string] { return strDom(rng, vsize()) },
		[]bidiMaker[string, string]{hashbidiMaker[string, string](), treebidiMaker[string, string](bcomparator.StringComparator(), bcomparator.StringComparator())}, reps)
	randomBidi(w, rng, func() *dom[*T] { return ptrDom(usize()) }, func() *dom[*T] { return ptrDom(vsize()) },
		[]bidiMaker[*T, *T]{hashbidiMaker[*T, *T]()}, reps)
	randomBidi(w, rng, func() *dom[string] { return strDom(rng, usize()) }, func() *dom[int] { return intDom(rng, vsize()) },
		[]bidiMaker[string, int]{hashbidiMaker[string, int](), treebidiMaker[string, int](bcomparator.StringComparator(), bcomparator.IntComparator())}, reps)

	// ---- tree-backed containers built with user comparators (NewWith): a-b, b-a, scaled, struct field of a pointer key ----
	sreps, sareps := reps/2, areps/2+1
	var intSets []setMaker[int]
	for _, sh := range intShapes() {
		intSets = append(intSets, treesetShape(sh))
	}
	randomSets(w, rng, func() *dom[int] { return smallIntDom(rng, usize()) }, intSets, sreps, sareps)
	var strSets []setMaker[string]
	for _, sh := range strShapes() {
		strSets = append(strSets, treesetShape(sh))
	}
	randomSets(w, rng, func() *dom[string] { return strDom(rng, usize()) }, strSets, sreps, sareps)
	var ptrSets []setMaker[*T]
	for _, sh := range ptrShapes() {
		ptrSets = append(ptrSets, treesetShape(sh))
	}
	randomSets(w, rng, func() *dom[*T] { return ptrFieldDom(rng, usize()) }, ptrSets, sreps, sareps)
	is, ss, ps := intShapes(), strShapes(), ptrShapes()
	randomBidi(w, rng, func() *dom[int] { return smallIntDom(rng, usize()) }, func() *dom[int] { return smallIntDom(rng, vsize()) },
		[]bidiMaker[int, int]{treebidiShape(is[0], is[2]), treebidiShape(is[1], is[0]), treebidiShape(is[2], is[3]), treebidiShape(is[3], is[1])}, sreps)
	randomBidi(w, rng, func() *dom[string] { return strDom(rng, usize()) }, func() *dom[int] { return smallIntDom(rng, vsize()) },
		[]bidiMaker[string, int]{treebidiShape(ss[0], is[2]), treebidiShape(ss[1], is[0])}, sreps)
	randomBidi(w, rng, func() *dom[*T] { return ptrFieldDom(rng, usize()) }, func() *dom[*T] { return ptrFieldDom(rng, vsize()) },
		[]bidiMaker[*T, *T]{treebidiShape(ps[0], ps[1]), treebidiShape(ps[1], ps[0])}, sreps)

	w.Close(o, "one case = one operation sequence (Put/Add/Remove/Clear, batches of 0-3 items for sets) on one container kind, key type (int, string, "+
		"pointer with pairs of pointers to equal structs) and plain/Safe variant, snapshotted after every mutation (Size, Empty, Keys, Values, Get/Contains/GetKey over "+
		"the whole universe, table dump and backward walk of the linked containers), or one set-algebra call with operands built by such sequences and re-read after "+
		"the call and after mutating result and operands; one operation in ten (int / string keys) is UnmarshalJSON, into the container as it is, of a document NOT written by MarshalJSON "+
		"(members in any order, repeated values - several keys of a bidi-map document carrying one value -, repeated and unsorted set elements, {} / [] / null; the code clears and "+
		"re-inserts: the reference is Clear followed by the Puts / the Add, for a bidi-map in any order of the members); streams: all words of length 4 (thorough 5) over a 3-key pointer universe (linked map/set) and a 2x2 universe "+
		"(bidi maps, built-in and subtracting comparators), plus tree-backed sets / bidi-maps built with user comparators a-b, b-a, (b-a)*7, (a-b)*3, k*strings.Compare and a struct-field "+
		"comparator on pointer keys over universes with gaps of varying size, plus profiled random sequences (churn, put-heavy, delete-heavy, duplicates, ascending, descending, zig-zag, remove-and-re-add); distinct = distinct "+
		"case terms; non-trivial = some mutation was applied to a non-empty container (algebra: both operands non-empty)")
}
