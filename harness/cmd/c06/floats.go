// C06 harness, float instantiations: Ordered / Calculable wrappers over float64 and float32 with the IEEE special values.
// The reference is computed HERE, in Go, by a plain loop over a plain slice (the pure left fold with the same bmath
// function); values travel to Coq as bit patterns, Coq only checks bit equality with the reference on every wrapper
// (unsafe and safe) and every capacity variant, and that nothing panicked.
package main

import (
	"fmt"
	"math"

	"github.com/songzhibin97/go-baseutils/base/bmath"
	"github.com/songzhibin97/go-baseutils/base/bslice"

	"vh/vhlib"
)

type flt interface{ ~float32 | ~float64 }

func bitsZ[E flt](v E) string {
	switch x := any(v).(type) {
	case float32:
		return vhlib.ZU(uint64(math.Float32bits(x)))
	case float64:
		return vhlib.ZU(math.Float64bits(x))
	}
	return "0"
}
func bitsList[E flt](vs []E) string {
	it := make([]string, len(vs))
	for i, v := range vs {
		it[i] = bitsZ(v)
	}
	return vhlib.List(it)
}
func b2z(b bool) string {
	if b {
		return "1"
	}
	return "0"
}

type fop struct {
	Name string    `json:"m"`
	T    float64   `json:"t,omitempty"`  // target / probe value
	Es   []float64 `json:"es,omitempty"` // argument slice
}

// reference: plain loops on a plain slice; returns (result as Coq list of Z, contents afterwards)
func refFloat[E flt](o fop, c []E) (string, []E) {
	s := append([]E{}, c...)
	es := make([]E, len(o.Es))
	for i, v := range o.Es {
		es[i] = E(v)
	}
	t := E(o.T)
	one := func(v E) string { return "[" + bitsZ(v) + "]" }
	switch o.Name {
	case "Min":
		var r E
		for i, v := range s {
			if i == 0 {
				r = v
			} else {
				r = bmath.Min(r, v)
			}
		}
		return one(r), s
	case "Max":
		var r E
		for i, v := range s {
			if i == 0 {
				r = v
			} else {
				r = bmath.Max(r, v)
			}
		}
		return one(r), s
	case "Sum":
		var r E
		for _, v := range s {
			r += v
		}
		return one(r), s
	case "Avg":
		var r E
		for _, v := range s {
			r += v
		}
		d := E(1)
		if len(s) != 0 {
			d = E(len(s))
		}
		return one(r / d), s
	case "Sort": // stable insertion sort by <: on NaN-free contents without mixed zeros the sorted order is unique bit for bit
		for i := 1; i < len(s); i++ {
			for j := i; j > 0 && s[j] < s[j-1]; j-- {
				s[j], s[j-1] = s[j-1], s[j]
			}
		}
		return "[]", s
	case "IsSorted":
		ok := true
		for i := 1; i < len(s); i++ {
			if s[i] < s[i-1] {
				ok = false
			}
		}
		return "[" + b2z(ok) + "]", s
	case "BinarySearch": // sorted NaN-free receiver: position = number of elements below the target
		pos := 0
		for _, v := range s {
			if v < t {
				pos++
			}
		}
		found := pos < len(s) && s[pos] == t
		return fmt.Sprintf("[%d; %s]", pos, b2z(found)), s
	case "Contains":
		f := false
		for _, v := range s {
			if v == t {
				f = true
			}
		}
		return "[" + b2z(f) + "]", s
	case "IndexNaN": // IndexFunc(v != v)
		idx := -1
		for i, v := range s {
			if v != v && idx < 0 {
				idx = i
			}
		}
		return "[" + vhlib.Z(int64(idx)) + "]", s
	case "Equal":
		eq := len(s) == len(es)
		for i := 0; eq && i < len(s); i++ {
			if s[i] != es[i] {
				eq = false
			}
		}
		return "[" + b2z(eq) + "]", s
	case "Compare":
		r := 0
		for i := 0; r == 0 && i < len(s); i++ {
			switch {
			case i >= len(es):
				r = 1
			case s[i] < es[i]:
				r = -1
			case s[i] > es[i]:
				r = 1
			}
		}
		if r == 0 && len(s) < len(es) {
			r = -1
		}
		return "[" + vhlib.Z(int64(r)) + "]", s
	case "Compact":
		var out []E
		for i, v := range s {
			if i == 0 || v != s[i-1] {
				out = append(out, v)
			}
		}
		return "[]", out
	}
	panic("floats: unknown method " + o.Name)
}

func execFloat[E flt](o fop, x bslice.CalculableBSlice[E]) string {
	es := make([]E, len(o.Es))
	for i, v := range o.Es {
		es[i] = E(v)
	}
	t := E(o.T)
	one := func(v E) string { return "[" + bitsZ(v) + "]" }
	switch o.Name {
	case "Min":
		return one(x.Min())
	case "Max":
		return one(x.Max())
	case "Sum":
		return one(x.Sum())
	case "Avg":
		return one(x.Avg())
	case "Sort":
		x.Sort()
		return "[]"
	case "IsSorted":
		return "[" + b2z(x.IsSorted()) + "]"
	case "BinarySearch":
		p, f := x.BinarySearch(t)
		return fmt.Sprintf("[%d; %s]", p, b2z(f))
	case "Contains":
		return "[" + b2z(x.Contains(t)) + "]"
	case "IndexNaN":
		return "[" + vhlib.Z(int64(x.IndexFunc(func(v E) bool { return v != v }))) + "]"
	case "Equal":
		return "[" + b2z(x.Equal(es)) + "]"
	case "Compare":
		return "[" + vhlib.Z(int64(x.Compare(es))) + "]"
	case "Compact":
		x.Compact()
		return "[]"
	}
	panic("floats: unknown method " + o.Name)
}

func runFloatCase[E flt](wr *vhlib.Writer, tname string, content []float64, o fop) {
	c := make([]E, len(content))
	for i, v := range content {
		c[i] = E(v)
	}
	refVal, refAfter := refFloat(o, c)
	var obs []string
	var seen []interface{}
	nan := E(math.NaN())
	for _, safe := range []bool{false, true} {
		for _, v := range variantsFor(len(c)) {
			var s []E
			if !v.Nil {
				s = make([]E, len(c), len(c)+v.Spare)
				copy(s, c)
				full := s[:cap(s)]
				for i := len(c); i < len(full); i++ {
					full[i] = nan // spare capacity is poisoned with NaN
				}
			}
			var x bslice.CalculableBSlice[E]
			if safe {
				x = bslice.NewSafeCalculableBSliceBySlice(s)
			} else {
				x = bslice.NewUnsafeCalculableBSliceBySlice(s)
			}
			val := "[]"
			p, pv := vhlib.Recover(func() { val = execFloat(o, x) })
			after := x.ToMetaSlice()
			obs = append(obs, fmt.Sprintf("{| f_panic := %s; f_val := %s; f_after := %s |}", vhlib.Bool(p), val, bitsList(after)))
			seen = append(seen, map[string]interface{}{"safe": safe, "spare": v.Spare, "nil": v.Nil, "result_bits": val, "after": fmt.Sprint(after), "panic": fmt.Sprint(pv)})
		}
	}
	term := fmt.Sprintf("FL {| fl_ref_val := %s; fl_ref_after := %s; fl_obs := %s |}", refVal, bitsList(refAfter), vhlib.List(obs))
	wr.Case(term, "float:"+o.Name, true, []string{tname + "." + o.Name}, map[string]interface{}{
		"type": "bslice-float", "element": tname, "content": fmt.Sprint(content), "content_bits64": bitsList(content),
		"op": map[string]string{"m": o.Name, "t": fmt.Sprint(o.T), "t_bits64": bitsZ(o.T), "es": fmt.Sprint(o.Es), "es_bits64": bitsList(o.Es)}, "reference_bits": refVal,
		"reference_after": fmt.Sprint(refAfter), "observed_unsafe_then_safe_per_variant": seen})
}

func hasNaN(c []float64) bool {
	for _, v := range c {
		if v != v {
			return true
		}
	}
	return false
}
func mixedZeros(c []float64) bool {
	pos, neg := false, false
	for _, v := range c {
		if v == 0 {
			if math.Signbit(v) {
				neg = true
			} else {
				pos = true
			}
		}
	}
	return pos && neg
}

func genFloats(wr *vhlib.Writer, rng *vhlib.Rng, thorough bool) {
	nan, inf := math.NaN(), math.Inf(1)
	negz := math.Copysign(0, -1)
	sub := math.SmallestNonzeroFloat64
	contents := [][]float64{
		{}, {nan}, {negz}, {1, nan, 5}, {nan, 3, 1}, {0, negz}, {negz, 0}, {3, nan}, {nan, nan}, {1, 2, nan, -1, nan, 0},
		{inf, -inf, 1}, {-inf, inf}, {inf, inf}, {sub, 0, -sub}, {math.MaxFloat64, math.MaxFloat64}, {math.MaxFloat64, -math.MaxFloat64, 1},
		{1.5, -2.25, 0, 7}, {-1, -3, -2}, {0.1, 0.2, 0.3}, {negz, negz, 0, 0, 1, 1}, {nan, negz, 0, inf, -inf, sub, math.MaxFloat64, 2.5},
		{math.MaxFloat32, math.MaxFloat32}, {math.SmallestNonzeroFloat32, 0, -math.SmallestNonzeroFloat32}, {math.MaxFloat32, nan, -math.MaxFloat32},
		{-inf, -2.25, negz, 1.5, 7, inf}, {-inf, -2.25, 0, 1.5, 7, inf}, {1, 1, 2, 2, 2, 3}, {5, 4, 3, 2, 1},
	}
	specials := []float64{nan, 0, negz, inf, -inf, sub, math.MaxFloat64, 1, 1.5, -2.25, 7, -3}
	nrand := 10
	if thorough {
		nrand = 400
	}
	for i := 0; i < nrand; i++ {
		n := 1 + rng.Intn(7)
		c := make([]float64, n)
		for j := range c {
			c[j] = specials[rng.Intn(len(specials))]
		}
		contents = append(contents, c)
	}
	for _, c := range contents {
		var ops []fop
		for _, n := range []string{"Min", "Max", "Sum", "Avg", "IsSorted", "IndexNaN", "Compact"} {
			ops = append(ops, fop{Name: n})
		}
		probes := []float64{nan, 0, negz, inf, 1.5}
		if len(c) > 0 {
			probes = append(probes, c[0], c[len(c)-1])
		}
		for _, t := range probes {
			ops = append(ops, fop{Name: "Contains", T: t})
		}
		alt := append([]float64{}, c...)
		if len(alt) > 0 {
			if alt[len(alt)-1] == 0 { // flip the sign of a trailing zero, else nudge
				alt[len(alt)-1] = -alt[len(alt)-1]
			} else {
				alt[len(alt)-1] = alt[len(alt)-1] + 1
			}
		}
		for _, es := range [][]float64{c, alt, append(append([]float64{}, c...), nan), {}} {
			ops = append(ops, fop{Name: "Equal", Es: es}, fop{Name: "Compare", Es: es})
		}
		if !hasNaN(c) && !mixedZeros(c) && len(c) <= 12 {
			ops = append(ops, fop{Name: "Sort"})
		}
		sorted := !hasNaN(c)
		for i := 1; i < len(c); i++ {
			if c[i] < c[i-1] {
				sorted = false
			}
		}
		if sorted {
			for _, t := range probes {
				ops = append(ops, fop{Name: "BinarySearch", T: t})
			}
		}
		for oi, o := range ops {
			runFloatCase[float64](wr, "float64", c, o)
			if !thorough && oi%2 == 1 && o.Name != "Min" && o.Name != "Max" {
				continue
			}
			// float32: the same values where they are exactly representable or special
			ok := true
			for _, v := range append(append([]float64{}, c...), append(o.Es, o.T)...) {
				if v == v && !math.IsInf(v, 0) && float64(float32(v)) != v {
					ok = false
				}
			}
			if ok {
				runFloatCase[float32](wr, "float32", c, o)
			}
		}
	}
}
