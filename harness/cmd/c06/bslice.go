// C06 harness, bslice half: runs every bslice method of the REAL package on capacity variants of a
// logical content and records result, error flag, panic flag, receiver (nil-ness, len, every cell of the
// capacity window), receiver array identity and an alias probe of the returned storage.
package main

import (
	"fmt"
	"strconv"
	"strings"

	"github.com/songzhibin97/go-baseutils/base/bslice"

	"vh/vhlib"
)

// ---------- function arguments (names are Coq constants of C06/Check.v) ----------
var preds = map[string]func(int) bool{
	"p_true":  func(v int) bool { return true },
	"p_false": func(v int) bool { return false },
	"p_ne1":   func(v int) bool { return v != 1 },
	"p_even":  func(v int) bool { return v%2 == 0 },
	"p_pos":   func(v int) bool { return v > 0 },
}
var eqs = map[string]func(int, int) bool{
	"eq_std":   func(a, b int) bool { return a == b },
	"eq_mod2":  func(a, b int) bool { return a%2 == b%2 },
	"eq_true":  func(a, b int) bool { return true },
	"eq_false": func(a, b int) bool { return false },
	"eq_le":    func(a, b int) bool { return a <= b },
}
var lesses = map[string]func(int, int) bool{
	"lt_asc":  func(a, b int) bool { return a < b },
	"lt_desc": func(a, b int) bool { return a > b },
	"lt_half": func(a, b int) bool { return a/2 < b/2 },
}
var cmps = map[string]func(int, int) int{
	"cmp_std": func(a, b int) int {
		if a < b {
			return -1
		} else if a > b {
			return 1
		}
		return 0
	},
	"cmp_rev": func(a, b int) int {
		if b < a {
			return -1
		} else if b > a {
			return 1
		}
		return 0
	},
	"cmp_diff": func(a, b int) int { return a - b },
}

// ---------- receivers: the four flavours, unsafe and safe ----------
var wrapperNames = []string{"UnsafeAny", "SafeAny", "UnsafeComparable", "SafeComparable", "UnsafeOrdered", "SafeOrdered", "UnsafeCalculable", "SafeCalculable"}

type recv struct {
	any  bslice.AnyBSlice[int]
	cmp  bslice.ComparableBSlice[int]
	ord  bslice.OrderedBSlice[int]
	calc bslice.CalculableBSlice[int]
	// every slice handed over so far, at full capacity: the slice the wrapper was built from, then every returned slice
	ret  *[][]int
	safe bool
}

// newRecvOn builds the wrapper on s and retains s
func newRecvOn(w int, s []int) recv {
	r := newRecv(w, s)
	r.ret = &[][]int{s[:cap(s)]}
	r.safe = w%2 == 1
	return r
}

func newRecv(w int, s []int) recv {
	switch w {
	case 0:
		x := bslice.NewUnsafeAnyBSliceBySlice(s)
		return recv{any: x}
	case 1:
		x := bslice.NewSafeAnyBSliceBySlice(s)
		return recv{any: x}
	case 2:
		x := bslice.NewUnsafeComparableBSliceBySlice(s)
		return recv{any: x, cmp: x}
	case 3:
		x := bslice.NewSafeComparableBSliceBySlice(s)
		return recv{any: x, cmp: x}
	case 4:
		x := bslice.NewUnsafeOrderedBSliceBySlice(s)
		return recv{any: x, cmp: x, ord: x}
	case 5:
		x := bslice.NewSafeOrderedBSliceBySlice(s)
		return recv{any: x, cmp: x, ord: x}
	case 6:
		x := bslice.NewUnsafeCalculableBSliceBySlice(s)
		return recv{any: x, cmp: x, ord: x, calc: x}
	default:
		x := bslice.NewSafeCalculableBSliceBySlice(s)
		return recv{any: x, cmp: x, ord: x, calc: x}
	}
}

// ---------- callbacks that look at the receiver while the method runs ----------
// view: the receiver as the callback can reach it: through ToMetaSlice on an unsafe wrapper; on a Safe wrapper (whose
// ToMetaSlice would take the lock the running method holds) through the slice header captured just before the call.
type spyState struct {
	view func() []int
	seen [][]int
}

var curSpy *spyState

func spyLook(o op) {
	if !o.Spy || curSpy == nil {
		return
	}
	v := append([]int{}, curSpy.view()...)
	if n := len(curSpy.seen); n > 0 && sameInts(curSpy.seen[n-1], v) {
		return
	}
	if len(curSpy.seen) < 12 {
		curSpy.seen = append(curSpy.seen, v)
	}
}
func spyPred(o op) func(int) bool {
	f := preds[o.Fn]
	return func(v int) bool { spyLook(o); return f(v) }
}
func spyEq(o op) func(int, int) bool {
	f := eqs[o.Fn]
	return func(a, b int) bool { spyLook(o); return f(a, b) }
}
func spyLess(o op) func(int, int) bool {
	f := lesses[o.Fn]
	return func(a, b int) bool { spyLook(o); return f(a, b) }
}
func spyCmp(o op) func(int, int) int {
	f := cmps[o.Fn]
	return func(a, b int) int { spyLook(o); return f(a, b) }
}

// ---------- one call ----------
type op struct {
	Name string `json:"m"`
	I    int    `json:"i,omitempty"`
	J    int    `json:"j,omitempty"`
	Vals []int  `json:"vals,omitempty"`
	Fn   string `json:"fn,omitempty"`
	Data string `json:"data,omitempty"` // Unmarshal: raw bytes
	Spy  bool   `json:"spy,omitempty"`  // the callback also looks at the receiver and records what it sees
}

// minimal flavour: 0 any, 1 comparable, 2 ordered, 3 calculable
func (o op) level() int {
	switch o.Name {
	case "Contains", "Equal", "Compact":
		return 1
	case "Compare", "Sort", "IsSorted", "BinarySearch":
		return 2
	case "Sum", "Avg", "Max", "Min":
		return 3
	}
	return 0
}

func zl(v []int) string { return vhlib.IntList(v) }
func zi(v int) string   { return vhlib.Z(int64(v)) }

// parse the JSON argument of Unmarshal the way the model sees it
func jdata(data string) string {
	t := strings.TrimSpace(data)
	if t == "null" {
		return "JNull"
	}
	if l, ok := parseIntArray(t, true); ok {
		return "(JArr " + zl(l) + ")"
	}
	return "JBad"
}

// parseIntArray: "[1,2,3]" (loose = JSON whitespace allowed); anything else is rejected
func parseIntArray(t string, loose bool) ([]int, bool) {
	if len(t) < 2 || t[0] != '[' || t[len(t)-1] != ']' {
		return nil, false
	}
	body := t[1 : len(t)-1]
	if loose {
		body = strings.TrimSpace(body)
	}
	res := []int{}
	if body == "" {
		return res, true
	}
	for _, f := range strings.Split(body, ",") {
		if loose {
			f = strings.TrimSpace(f)
		}
		if f == "" || (f[0] != '-' && (f[0] < '0' || f[0] > '9')) || (len(f) > 1 && f[0] == '0') || (len(f) > 2 && f[0] == '-' && f[1] == '0') {
			return nil, false
		}
		v, err := strconv.Atoi(f)
		if err != nil {
			return nil, false
		}
		res = append(res, v)
	}
	return res, true
}

func (o op) coq() string {
	b := func(x bool) string { return vhlib.Bool(x) }
	n := o.Name
	e := strings.HasSuffix(n, "E") && n != "Reverse" && n != "Compare"
	switch n {
	case "EqualFunc":
		return fmt.Sprintf("MEqualFunc %s %s", zl(o.Vals), o.Fn)
	case "CompareFunc":
		return fmt.Sprintf("MCompareFunc %s %s", zl(o.Vals), o.Fn)
	case "IndexFunc":
		return "MIndexFunc " + o.Fn
	case "Insert", "InsertE":
		return fmt.Sprintf("MInsert %s %s %s", b(e), zi(o.I), zl(o.Vals))
	case "Delete", "DeleteE":
		return fmt.Sprintf("MDelete %s %s %s", b(e), zi(o.I), zi(o.J))
	case "DeleteToSlice", "DeleteToSliceE":
		return fmt.Sprintf("MDeleteTo %s false %s %s", b(e), zi(o.I), zi(o.J))
	case "DeleteToBSlice", "DeleteToBSliceE":
		return fmt.Sprintf("MDeleteTo %s true %s %s", b(e), zi(o.I), zi(o.J))
	case "Replace", "ReplaceE":
		return fmt.Sprintf("MReplace %s %s %s %s", b(e), zi(o.I), zi(o.J), zl(o.Vals))
	case "CloneToSlice":
		return "MClone false"
	case "CloneToBSlice":
		return "MClone true"
	case "CompactFunc":
		return "MCompactFunc " + o.Fn
	case "Grow", "GrowE":
		return fmt.Sprintf("MGrow %s %s", b(e), zi(o.I))
	case "Clip":
		return "MClip"
	case "ForEach":
		return "MForEach"
	case "SortFunc":
		return "MSortFunc " + o.Fn
	case "SortFuncToSlice":
		return "MSortFuncTo false " + o.Fn
	case "SortFuncToBSlice":
		return "MSortFuncTo true " + o.Fn
	case "SortComparator":
		return "MSortComparator " + o.Fn
	case "SortComparatorToSlice":
		return "MSortComparatorTo false " + o.Fn
	case "SortComparatorToBSlice":
		return "MSortComparatorTo true " + o.Fn
	case "SortStableFunc":
		return "MSortStableFunc " + o.Fn
	case "SortStableFuncToSlice":
		return "MSortStableFuncTo false " + o.Fn
	case "SortStableFuncToBSlice":
		return "MSortStableFuncTo true " + o.Fn
	case "IsSortedFunc":
		return "MIsSortedFunc " + o.Fn
	case "BinarySearchFunc":
		return fmt.Sprintf("MBinarySearchFunc %s %s", zi(o.I), o.Fn)
	case "Filter":
		return "MFilter " + o.Fn
	case "FilterToSlice":
		return "MFilterTo false " + o.Fn
	case "FilterToBSlice":
		return "MFilterTo true " + o.Fn
	case "Reverse":
		return "MReverse"
	case "ReverseToSlice":
		return "MReverseTo false"
	case "ReverseToBSlice":
		return "MReverseTo true"
	case "Marshal":
		return "MMarshal"
	case "Unmarshal":
		return "MUnmarshal " + jdata(o.Data)
	case "Len":
		return "MLen"
	case "Cap":
		return "MCap"
	case "ToInterfaceSlice":
		return "MToInterfaceSlice"
	case "ToMetaSlice":
		return "MToMetaSlice"
	case "Swap":
		return fmt.Sprintf("MSwap %s %s", zi(o.I), zi(o.J))
	case "Clear":
		return "MClear"
	case "Append":
		return "MAppend " + zl(o.Vals)
	case "AppendToSlice":
		return "MAppendTo false " + zl(o.Vals)
	case "AppendToBSlice":
		return "MAppendTo true " + zl(o.Vals)
	case "CopyToSlice":
		return "MCopyTo false"
	case "CopyToBSlice":
		return "MCopyTo true"
	case "GetByIndex", "GetByIndexE":
		return fmt.Sprintf("MGetByIndex %s %s", b(e), zi(o.I))
	case "GetByIndexOrDefault":
		return fmt.Sprintf("MGetByIndexOrDefault %s %s", zi(o.I), zi(o.J))
	case "GetByRange", "GetByRangeE":
		return fmt.Sprintf("MGetByRange %s %s %s", b(e), zi(o.I), zi(o.J))
	case "SetByIndex", "SetByIndexE":
		return fmt.Sprintf("MSetByIndex %s %s %s", b(e), zi(o.I), zi(o.J))
	case "SetByRange", "SetByRangeE":
		return fmt.Sprintf("MSetByRange %s %s %s", b(e), zi(o.I), zl(o.Vals))
	case "Contains":
		return "MContains " + zi(o.I)
	case "Equal":
		return "MEqual " + zl(o.Vals)
	case "Compact":
		return "MCompact"
	case "Compare":
		return "MCompare " + zl(o.Vals)
	case "Sort":
		return "MSort"
	case "IsSorted":
		return "MIsSorted"
	case "BinarySearch":
		return "MBinarySearch " + zi(o.I)
	case "Sum":
		return "MSum"
	case "Avg":
		return "MAvg"
	case "Max":
		return "MMax"
	case "Min":
		return "MMin"
	}
	panic("unknown method " + n)
}

// result of a call
type val struct {
	kind string // none int bool intbool list slice
	i    int
	b    bool
	l    []int
	s    []int // returned storage (kind slice)
}

func vslice(s []int) val              { return val{kind: "slice", s: s} }
func vbs(x bslice.AnyBSlice[int]) val { return val{kind: "slice", s: x.ToMetaSlice()} }

// exec runs the method on the real code; err = the error result was non-nil
func exec(o op, r recv) (v val, err bool) {
	a := r.any
	v = val{kind: "none"}
	switch o.Name {
	case "EqualFunc":
		v = val{kind: "bool", b: a.EqualFunc(o.Vals, spyEq(o))}
	case "CompareFunc":
		v = val{kind: "int", i: a.CompareFunc(o.Vals, spyCmp(o))}
	case "IndexFunc":
		v = val{kind: "int", i: a.IndexFunc(spyPred(o))}
	case "Insert":
		a.Insert(o.I, o.Vals...)
	case "InsertE":
		err = a.InsertE(o.I, o.Vals...) != nil
	case "Delete":
		a.Delete(o.I, o.J)
	case "DeleteE":
		err = a.DeleteE(o.I, o.J) != nil
	case "DeleteToSlice":
		v = vslice(a.DeleteToSlice(o.I, o.J))
	case "DeleteToSliceE":
		s, e := a.DeleteToSliceE(o.I, o.J)
		v, err = vslice(s), e != nil
	case "DeleteToBSlice":
		v = vbs(a.DeleteToBSlice(o.I, o.J))
	case "DeleteToBSliceE":
		s, e := a.DeleteToBSliceE(o.I, o.J)
		v, err = vbs(s), e != nil
	case "Replace":
		a.Replace(o.I, o.J, o.Vals...)
	case "ReplaceE":
		err = a.ReplaceE(o.I, o.J, o.Vals...) != nil
	case "CloneToSlice":
		v = vslice(a.CloneToSlice())
	case "CloneToBSlice":
		v = vbs(a.CloneToBSlice())
	case "CompactFunc":
		a.CompactFunc(spyEq(o))
	case "Grow":
		a.Grow(o.I)
	case "GrowE":
		err = a.GrowE(o.I) != nil
	case "Clip":
		a.Clip()
	case "ForEach":
		l := []int{}
		a.ForEach(func(i, e int) { spyLook(o); l = append(l, i, e) })
		v = val{kind: "list", l: l}
	case "SortFunc":
		a.SortFunc(spyLess(o))
	case "SortFuncToSlice":
		v = vslice(a.SortFuncToSlice(spyLess(o)))
	case "SortFuncToBSlice":
		v = vbs(a.SortFuncToBSlice(spyLess(o)))
	case "SortComparator":
		a.SortComparator(spyCmp(o))
	case "SortComparatorToSlice":
		v = vslice(a.SortComparatorToSlice(spyCmp(o)))
	case "SortComparatorToBSlice":
		v = vbs(a.SortComparatorToBSlice(spyCmp(o)))
	case "SortStableFunc":
		a.SortStableFunc(spyLess(o))
	case "SortStableFuncToSlice":
		v = vslice(a.SortStableFuncToSlice(spyLess(o)))
	case "SortStableFuncToBSlice":
		v = vbs(a.SortStableFuncToBSlice(spyLess(o)))
	case "IsSortedFunc":
		v = val{kind: "bool", b: a.IsSortedFunc(spyLess(o))}
	case "BinarySearchFunc":
		p, f := a.BinarySearchFunc(o.I, spyCmp(o))
		v = val{kind: "intbool", i: p, b: f}
	case "Filter":
		a.Filter(spyPred(o))
	case "FilterToSlice":
		v = vslice(a.FilterToSlice(spyPred(o)))
	case "FilterToBSlice":
		v = vbs(a.FilterToBSlice(spyPred(o)))
	case "Reverse":
		a.Reverse()
	case "ReverseToSlice":
		v = vslice(a.ReverseToSlice())
	case "ReverseToBSlice":
		v = vbs(a.ReverseToBSlice())
	case "Marshal":
		bs, e := a.Marshal()
		err = e != nil
		if l, ok := parseIntArray(string(bs), false); ok {
			v = val{kind: "list", l: l}
		} else {
			v = val{kind: "garbage"}
		}
	case "Unmarshal":
		err = a.Unmarshal([]byte(o.Data)) != nil
	case "Len":
		v = val{kind: "int", i: a.Len()}
	case "Cap":
		v = val{kind: "int", i: a.Cap()}
	case "ToInterfaceSlice":
		l := []int{}
		ok := true
		for _, e := range a.ToInterfaceSlice() {
			x, isInt := e.(int)
			ok = ok && isInt
			l = append(l, x)
		}
		v = val{kind: "list", l: l}
		if !ok {
			v = val{kind: "garbage"}
		}
	case "ToMetaSlice":
		v = vslice(a.ToMetaSlice())
	case "Swap":
		a.Swap(o.I, o.J)
	case "Clear":
		a.Clear()
	case "Append":
		a.Append(o.Vals...)
	case "AppendToSlice":
		v = vslice(a.AppendToSlice(o.Vals...))
	case "AppendToBSlice":
		v = vbs(a.AppendToBSlice(o.Vals...))
	case "CopyToSlice":
		v = vslice(a.CopyToSlice())
	case "CopyToBSlice":
		v = vbs(a.CopyToBSlice())
	case "GetByIndex":
		v = val{kind: "int", i: a.GetByIndex(o.I)}
	case "GetByIndexE":
		x, e := a.GetByIndexE(o.I)
		v, err = val{kind: "int", i: x}, e != nil
	case "GetByIndexOrDefault":
		v = val{kind: "int", i: a.GetByIndexOrDefault(o.I, o.J)}
	case "GetByRange":
		v = vslice(a.GetByRange(o.I, o.J))
	case "GetByRangeE":
		s, e := a.GetByRangeE(o.I, o.J)
		v, err = vslice(s), e != nil
	case "SetByIndex":
		a.SetByIndex(o.I, o.J)
	case "SetByIndexE":
		err = a.SetByIndexE(o.I, o.J) != nil
	case "SetByRange":
		a.SetByRange(o.I, o.Vals)
	case "SetByRangeE":
		err = a.SetByRangeE(o.I, o.Vals) != nil
	case "Contains":
		v = val{kind: "bool", b: r.cmp.Contains(o.I)}
	case "Equal":
		v = val{kind: "bool", b: r.cmp.Equal(o.Vals)}
	case "Compact":
		r.cmp.Compact()
	case "Compare":
		v = val{kind: "int", i: r.ord.Compare(o.Vals)}
	case "Sort":
		r.ord.Sort()
	case "IsSorted":
		v = val{kind: "bool", b: r.ord.IsSorted()}
	case "BinarySearch":
		p, f := r.ord.BinarySearch(o.I)
		v = val{kind: "intbool", i: p, b: f}
	case "Sum":
		v = val{kind: "int", i: r.calc.Sum()}
	case "Avg":
		v = val{kind: "int", i: r.calc.Avg()}
	case "Max":
		v = val{kind: "int", i: r.calc.Max()}
	case "Min":
		v = val{kind: "int", i: r.calc.Min()}
	default:
		panic("unknown method " + o.Name)
	}
	return
}

// ---------- capacity variants ----------
type variant struct {
	Nil   bool `json:"nil"`
	Spare int  `json:"spare"`
}

const poison = 99
const sentinel = -7777777

func mkVariant(content []int, v variant) []int {
	if v.Nil {
		return nil
	}
	s := make([]int, len(content), len(content)+v.Spare)
	copy(s, content)
	full := s[:cap(s)]
	for i := len(content); i < len(full); i++ {
		full[i] = poison
	}
	return s
}

func variantsFor(n int) []variant {
	if n == 0 {
		return []variant{{true, 0}, {false, 0}, {false, 1}, {false, 8}}
	}
	return []variant{{false, 0}, {false, 1}, {false, n + 8}}
}

func base(s []int) *int {
	if cap(s) == 0 {
		return nil
	}
	return &s[:1][0]
}

// observe runs one call on one receiver and prints the Coq record of what was seen
func observe(o op, r recv) (term string, panicked bool, summary map[string]interface{}) {
	before := r.any.ToMetaSlice()
	beforeFull := before[:cap(before)]
	var v val
	var err bool
	curSpy = nil
	if o.Spy {
		if r.safe {
			curSpy = &spyState{view: func() []int { return before }}
		} else {
			curSpy = &spyState{view: func() []int { return r.any.ToMetaSlice() }}
		}
	}
	p, pv := vhlib.Recover(func() { v, err = exec(o, r) })
	seenT := []string{}
	if curSpy != nil {
		for _, sn := range curSpy.seen {
			seenT = append(seenT, zl(sn))
		}
	}
	curSpy = nil
	after := r.any.ToMetaSlice()
	afterFull := append([]int{}, after[:cap(after)]...)
	same := base(before) != nil && base(before) == base(after)
	vt := "ONone"
	summary = map[string]interface{}{"err": err, "recv": append([]int{}, after...), "cap": cap(after)}
	if p {
		summary["panic"] = fmt.Sprint(pv)
		v = val{kind: "none"}
	}
	switch v.kind {
	case "int":
		vt = "OInt " + zi(v.i)
		summary["val"] = v.i
	case "bool":
		vt = "OBool " + vhlib.Bool(v.b)
		summary["val"] = v.b
	case "intbool":
		vt = fmt.Sprintf("OIntBool %s %s", zi(v.i), vhlib.Bool(v.b))
		summary["val"] = []interface{}{v.i, v.b}
	case "list":
		vt = "OList " + zl(v.l)
		summary["val"] = v.l
	case "garbage":
		vt = "OBool false" // never matches a list-valued specification
		summary["val"] = "unparsable"
	case "slice":
		rs := v.s[:cap(v.s)]
		rwin := append([]int{}, rs...)
		// alias probe: write a sentinel through every cell of the returned storage, re-read the receiver
		// (its current window and the window it had before the call), restore
		snapA := append([]int{}, after[:cap(after)]...)
		snapB := append([]int{}, beforeFull...)
		for i := range rs {
			rs[i] = sentinel
		}
		alias := false
		cur := r.any.ToMetaSlice()
		curFull := cur[:cap(cur)]
		for i := range curFull {
			if i < len(snapA) && curFull[i] != snapA[i] {
				alias = true
			}
		}
		for i := range beforeFull {
			if beforeFull[i] != snapB[i] {
				alias = true
			}
		}
		copy(rs, rwin)
		vt = fmt.Sprintf("OSlice %s %s %s %s", vhlib.Bool(v.s == nil), vhlib.Nat(len(v.s)), zl(rwin), vhlib.Bool(alias))
		summary["val"] = append([]int{}, v.s...)
		summary["val_cap"] = cap(v.s)
		summary["alias"] = alias
	}
	if v.kind == "slice" {
		*r.ret = append(*r.ret, v.s[:cap(v.s)])
	}
	rets := make([]string, len(*r.ret))
	retSum := make([][]int, len(*r.ret))
	for i, hnd := range *r.ret {
		rets[i] = zl(hnd)
		retSum[i] = append([]int{}, hnd...)
	}
	summary["retained"] = retSum
	if len(seenT) > 0 {
		summary["callback_saw"] = seenT
	}
	term = fmt.Sprintf("{| o_panic := %s; o_err := %s; o_val := %s; o_nil := %s; o_len := %s; o_win := %s; o_same := %s; o_ret := %s; o_seen := %s |}",
		vhlib.Bool(p), vhlib.Bool(err), vt, vhlib.Bool(after == nil), vhlib.Nat(len(after)), zl(afterFull), vhlib.Bool(same), vhlib.List(rets), vhlib.List(seenT))
	return term, p, summary
}

// runCase executes a sequence of calls on every capacity variant of a content, through wrapper w
func runCase(wr *vhlib.Writer, stream string, w int, content []int, ops []op) {
	if len(ops) == 0 {
		return
	}
	for _, o := range ops { // pick a wrapper that has every method of the sequence
		for w/2 < o.level() {
			w += 2
		}
	}
	vars := variantsFor(len(content))
	rs := make([]recv, len(vars))
	for k, v := range vars {
		rs[k] = newRecvOn(w, mkVariant(content, v))
	}
	var steps, labels []string
	var seen []interface{}
	for _, o := range ops {
		obs := make([]string, len(vars))
		anyPanic := false
		sums := make([]interface{}, len(vars))
		for k := range vars {
			t, p, s := observe(o, rs[k])
			obs[k], sums[k] = t, s
			anyPanic = anyPanic || p
		}
		steps = append(steps, fmt.Sprintf("{| st_m := %s; st_obs := %s |}", o.coq(), vhlib.List(obs)))
		labels = append(labels, o.Name)
		seen = append(seen, sums)
		if anyPanic {
			break // the state after a panic is not modelled; the panic itself is the finding
		}
	}
	vt := make([]string, len(vars))
	for k, v := range vars {
		vt[k] = vhlib.Pair(vhlib.Bool(v.Nil), vhlib.Nat(v.Spare))
	}
	term := fmt.Sprintf("BS {| c_init := %s; c_vars := %s; c_steps := %s |}", zl(content), vhlib.List(vt), vhlib.List(steps))
	label := stream
	if len(ops) == 1 {
		label = stream + ":" + ops[0].Name
	}
	nontrivial := len(content) > 0
	for _, o := range ops {
		if len(o.Vals) > 0 || o.Data != "" {
			nontrivial = true
		}
	}
	wr.Case(term, label, nontrivial, labels, map[string]interface{}{
		"type": "bslice", "wrapper": wrapperNames[w], "content": content, "variants": vars, "ops": ops[:len(labels)], "observed_per_step_per_variant": seen})
}
