package main

import (
	"encoding/json"
	"fmt"
	"os"
)

// replayFile re-runs the case stored in a replay file (as written by bin/check, or a bare "replay" object)
// on the real code and prints what each capacity variant shows.
func replayFile(path string) {
	raw, err := os.ReadFile(path)
	if err != nil {
		fmt.Println("cannot read", path, err)
		os.Exit(2)
	}
	var top map[string]json.RawMessage
	json.Unmarshal(raw, &top)
	if c, ok := top["case"]; ok {
		var cs map[string]json.RawMessage
		json.Unmarshal(c, &cs)
		raw = cs["replay"]
	}
	var r struct {
		Type     string    `json:"type"`
		Wrapper  string    `json:"wrapper"`
		Content  []int     `json:"content"`
		Variants []variant `json:"variants"`
		Ops      []op      `json:"ops"`
	}
	if err := json.Unmarshal(raw, &r); err != nil || r.Type != "bslice" {
		fmt.Println("only bslice replays are supported here:", err)
		os.Exit(2)
	}
	w := 0
	for i, n := range wrapperNames {
		if n == r.Wrapper {
			w = i
		}
	}
	for _, v := range r.Variants {
		x := newRecvOn(w, mkVariant(r.Content, v))
		fmt.Printf("variant nil=%v cap=len+%d wrapper=%s content=%v\n", v.Nil, v.Spare, r.Wrapper, r.Content)
		for _, o := range r.Ops {
			_, _, s := observe(o, x)
			js, _ := json.Marshal(s)
			oj, _ := json.Marshal(o)
			fmt.Printf("   %s -> %s\n", oj, js)
		}
	}
}
