package main

import (
	"fmt"

	"vh/vhlib"
)

var bmMethods = []string{"ToMetaMap", "Keys", "Values", "EqualFuncByMap", "EqualFuncByBMap", "Clear", "CloneToMap", "CloneToBMap",
	"CopyByMap", "CopyByBMap", "DeleteFunc", "Marshal", "Unmarshal", "Size", "IsEmpty", "IsExist", "ContainsKey", "ContainsValue",
	"ForEach", "Get", "GetOrDefault", "Put", "PuTIfAbsent", "Delete", "DeleteIfPresent", "MergeByMap", "MergeByBMap", "Replace",
	"EqualByMap", "EqualByBMap"}
var kvNames = []string{"kv_true", "kv_false", "kv_keven", "kv_vpos", "kv_klt_v"}

func randMap(rng *vhlib.Rng, maxN int) map[int]int {
	m := map[int]int{}
	n := rng.Intn(maxN + 1)
	for i := 0; i < n; i++ {
		m[rng.Range(-1, 6)] = rng.Range(-2, 3)
	}
	return m
}

// argument maps: nil, empty, equal to the receiver, a perturbation of it, unrelated
func argMap(rng *vhlib.Rng, cur map[int]int) (map[int]int, bool) {
	switch rng.Intn(6) {
	case 0:
		return nil, false
	case 1:
		return map[int]int{}, true
	case 2:
		return cloneMap(cur), true
	case 3:
		m := cloneMap(cur)
		if m == nil {
			m = map[int]int{}
		}
		m[rng.Range(-1, 6)] = rng.Range(-2, 3)
		return m, true
	case 4:
		m := cloneMap(cur)
		for k := range m {
			delete(m, k)
			break
		}
		if m == nil {
			m = map[int]int{}
		}
		return m, true
	}
	return randMap(rng, 4), true
}

func randMop(rng *vhlib.Rng, name string, cur map[int]int) mop {
	o := mop{Name: name, K: rng.Range(-1, 6), V: rng.Range(-2, 3), V2: rng.Range(-2, 3)}
	switch name {
	case "EqualFuncByMap", "EqualFuncByBMap":
		o.Fn = eqNames[rng.Intn(len(eqNames))]
		o.Arg, o.ArgOK = argMap(rng, cur)
	case "EqualByMap", "EqualByBMap", "CopyByMap", "CopyByBMap":
		o.Arg, o.ArgOK = argMap(rng, cur)
	case "MergeByMap", "MergeByBMap":
		o.Arg, o.ArgOK = argMap(rng, cur)
		if rng.Chance(3, 4) {
			o.Fn = kvNames[rng.Intn(len(kvNames))]
		}
	case "DeleteFunc":
		o.Fn = kvNames[rng.Intn(len(kvNames))]
		if rng.Chance(1, 3) {
			o.Fn = liveNames[rng.Intn(len(liveNames))]
		}
	case "ForEach":
		if rng.Bool() {
			o.Fn = "live"
		}
	case "Unmarshal":
		switch rng.Intn(5) {
		case 0:
			o.Data = "{}"
		case 1:
			o.Data = `{"1":`
		case 2:
			o.Data = "[1]x"
		default:
			m := randMap(rng, 3)
			s := "{"
			for i, k := range sortedKeys(m) {
				if i > 0 {
					s += ","
				}
				s += fmt.Sprintf(`"%d":%d`, k, m[k])
			}
			o.Data = s + "}"
		}
	case "Replace":
		if v, ok := cur[o.K]; ok && rng.Bool() {
			o.V = v
		}
	}
	return o
}

func genBMap(w *vhlib.Writer, rng *vhlib.Rng, thorough bool) {
	reps := 6
	nseq := 1200
	if thorough {
		reps, nseq = 60, 30000
	}
	inits := func(i int) map[int]int {
		switch i % 4 {
		case 0:
			return nil
		case 1:
			return map[int]int{}
		}
		return randMap(rng, 5)
	}
	// single calls: every method x every wrapper x nil / empty / populated receivers
	// (the same call goes through all four wrappers: a Safe method has its own body and is never assumed equal)
	for _, name := range bmMethods {
		for r := 0; r < reps; r++ {
			init := inits(r)
			o := randMop(rng, name, init)
			for wi := 0; wi < 4; wi++ {
				runMapCase(w, "bmap", wi, init, []mop{o})
			}
		}
	}
	// argument order of the callback: eq_le is not symmetric, the argument map is pointwise larger / smaller / mixed
	for _, pair := range [][2]map[int]int{
		{{1: 1, 2: 5}, {1: 2, 2: 6}}, {{1: 2, 2: 6}, {1: 1, 2: 5}}, {{0: 0}, {0: 1}}, {{0: 1}, {0: 0}}, {{3: -1, 4: 2, 5: 0}, {3: -1, 4: 3, 5: 0}},
	} {
		for _, name := range []string{"EqualFuncByMap", "EqualFuncByBMap"} {
			for wi := 0; wi < 4; wi++ {
				runMapCase(w, "bmap", wi, pair[0], []mop{{Name: name, Fn: "eq_le", Arg: pair[1], ArgOK: true}})
			}
		}
	}
	// the merge callback sees the STORED value; a key missing on one side whose partner holds the zero value
	for wi := 0; wi < 4; wi++ {
		for _, fn := range []string{"kv_vpos", "kv_klt_v", "kv_keven"} {
			for _, pair := range [][2]map[int]int{{{1: -1, 2: 3}, {1: 5, 2: -4}}, {{1: 5, 2: -4}, {1: -1, 2: 3, 7: 0}}, {{0: 1, 4: 2}, {0: -3, 4: 9}}} {
				runMapCase(w, "bmap", wi, pair[0], []mop{{Name: "MergeByMap", Fn: fn, Arg: pair[1], ArgOK: true}})
				runMapCase(w, "bmap", wi, pair[0], []mop{{Name: "MergeByBMap", Fn: fn, Arg: pair[1], ArgOK: true}})
			}
		}
		for _, pair := range [][2]map[int]int{{{1: 0}, {2: 0}}, {{1: 0, 3: 4}, {3: 4, 5: 0}}, {{2: 0}, {2: 0}}, {{}, {0: 0}}} {
			for _, name := range []string{"EqualByMap", "EqualByBMap", "EqualFuncByMap", "EqualFuncByBMap"} {
				runMapCase(w, "bmap", wi, pair[0], []mop{{Name: name, Fn: "eq_std", Arg: pair[1], ArgOK: true}})
			}
		}
	}
	// callbacks that look at the live map: every live-size callback on maps of every size 0..6, through all four wrappers
	for n := 0; n <= 6; n++ {
		m := map[int]int{}
		for k := 0; k < n; k++ {
			m[k*3-2] = k - 2
		}
		for _, fn := range liveNames {
			for wi := 0; wi < 4; wi++ {
				runMapCase(w, "bmap-live", wi, m, []mop{{Name: "DeleteFunc", Fn: fn}, {Name: "Size"}, {Name: "ForEach", Fn: "live"}})
			}
		}
	}
	// sequences (the harness tracks nothing: arguments are drawn around the initial map)
	for i := 0; i < nseq; i++ {
		init := inits(rng.Intn(8))
		k := 2 + rng.Intn(5)
		var ops []mop
		for s := 0; s < k; s++ {
			ops = append(ops, randMop(rng, bmMethods[rng.Intn(len(bmMethods))], init))
		}
		runMapCase(w, "bmap-seq", rng.Intn(4), init, ops)
	}
}
