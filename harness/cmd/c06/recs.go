// C06 harness, struct elements: AnyBSlice[rec] with an omitempty field. An element {ID, Name} is shown to Coq as the
// code ID*16 + index(Name). Sequences that shrink / reset the receiver and then Unmarshal documents that omit fields:
// what is decoded may merge with the CONTENTS only, never with removed elements or spare capacity.
package main

import (
	"encoding/json"
	"fmt"
	"strings"

	"github.com/songzhibin97/go-baseutils/base/bslice"

	"vh/vhlib"
)

type rec struct {
	ID   int    `json:"id"`
	Name string `json:"name,omitempty"`
}

var recNames = []string{"", "alice", "bob", "carol", "dave", "eve", "frank", "grace", "heidi", "ivan", "judy", "mallory", "niaj", "olivia", "peggy", "rupert"}

func encRec(r rec) int {
	for i, n := range recNames {
		if n == r.Name {
			return r.ID*16 + i
		}
	}
	return r.ID*16 + 15
}
func decRec(c int) rec {
	m := ((c % 16) + 16) % 16
	return rec{ID: (c - m) / 16, Name: recNames[m]}
}
func encRecs(rs []rec) []int {
	out := make([]int, len(rs))
	for i, r := range rs {
		out[i] = encRec(r)
	}
	return out
}
func decRecs(cs []int) []rec {
	out := make([]rec, len(cs))
	for i, c := range cs {
		out[i] = decRec(c)
	}
	return out
}

// jdataRec: the Coq view of a JSON document for []rec
func jdataRec(data string) string {
	var raw []map[string]json.RawMessage
	if strings.TrimSpace(data) == "null" {
		return "JNull"
	}
	if err := json.Unmarshal([]byte(data), &raw); err != nil {
		return "JBad"
	}
	docs := make([]string, len(raw))
	for i, m := range raw {
		id, name := "None", "None"
		if v, ok := m["id"]; ok {
			var x int
			json.Unmarshal(v, &x)
			id = "(Some " + zi(x) + ")"
		}
		if v, ok := m["name"]; ok {
			var x string
			json.Unmarshal(v, &x)
			name = "(Some " + zi(encRec(rec{0, x})) + ")"
		}
		docs[i] = fmt.Sprintf("DRec %s %s", id, name)
	}
	return "(JDocs " + vhlib.List(docs) + ")"
}

func recCoq(o op) string {
	if o.Name == "Unmarshal" {
		return "MUnmarshal " + jdataRec(o.Data)
	}
	return o.coq()
}

// execRec: the subset of methods used in the struct-element sequences
func execRec(o op, a bslice.AnyBSlice[rec]) (kind string, res []rec, ival int, err bool) {
	kind = "none"
	switch o.Name {
	case "Clear":
		a.Clear()
	case "Filter":
		a.Filter(func(r rec) bool { return preds[o.Fn](encRec(r)) })
	case "DeleteE":
		err = a.DeleteE(o.I, o.J) != nil
	case "Delete":
		a.Delete(o.I, o.J)
	case "InsertE":
		err = a.InsertE(o.I, decRecs(o.Vals)...) != nil
	case "Append":
		a.Append(decRecs(o.Vals)...)
	case "ReplaceE":
		err = a.ReplaceE(o.I, o.J, decRecs(o.Vals)...) != nil
	case "SetByRangeE":
		err = a.SetByRangeE(o.I, decRecs(o.Vals)) != nil
	case "CompactFunc":
		a.CompactFunc(func(x, y rec) bool { return eqs[o.Fn](encRec(x), encRec(y)) })
	case "Clip":
		a.Clip()
	case "Grow":
		a.Grow(o.I)
	case "Reverse":
		a.Reverse()
	case "Unmarshal":
		err = a.Unmarshal([]byte(o.Data)) != nil
	case "ToMetaSlice":
		kind, res = "slice", a.ToMetaSlice()
	case "CopyToSlice":
		kind, res = "slice", a.CopyToSlice()
	case "DeleteToSliceE":
		s, e := a.DeleteToSliceE(o.I, o.J)
		kind, res, err = "slice", s, e != nil
	case "Len":
		kind, ival = "int", a.Len()
	default:
		panic("recs: unsupported method " + o.Name)
	}
	return
}

type recRecv struct {
	a   bslice.AnyBSlice[rec]
	ret [][]rec
}

func baseRec(s []rec) *rec {
	if cap(s) == 0 {
		return nil
	}
	return &s[:1][0]
}

func observeRec(o op, r *recRecv) (string, bool, map[string]interface{}) {
	before := r.a.ToMetaSlice()
	beforeFull := before[:cap(before)]
	var kind string
	var res []rec
	var ival int
	var err bool
	p, pv := vhlib.Recover(func() { kind, res, ival, err = execRec(o, r.a) })
	after := r.a.ToMetaSlice()
	afterFull := encRecs(after[:cap(after)])
	same := baseRec(before) != nil && baseRec(before) == baseRec(after)
	sum := map[string]interface{}{"err": err, "recv": fmt.Sprint(after), "cap": cap(after)}
	vt := "ONone"
	if p {
		sum["panic"] = fmt.Sprint(pv)
		kind = "none"
	}
	switch kind {
	case "int":
		vt = "OInt " + zi(ival)
	case "slice":
		rs := res[:cap(res)]
		saved := append([]rec{}, rs...)
		snapA := append([]rec{}, after[:cap(after)]...)
		snapB := append([]rec{}, beforeFull...)
		for i := range rs {
			rs[i] = rec{-424242, "rupert"}
		}
		alias := false
		cur := r.a.ToMetaSlice()
		curFull := cur[:cap(cur)]
		for i := range curFull {
			if i < len(snapA) && curFull[i] != snapA[i] {
				alias = true
			}
		}
		for i := range beforeFull {
			if beforeFull[i] != snapB[i] {
				alias = true
			}
		}
		copy(rs, saved)
		vt = fmt.Sprintf("OSlice %s %s %s %s", vhlib.Bool(res == nil), vhlib.Nat(len(res)), zl(encRecs(saved)), vhlib.Bool(alias))
		sum["val"] = fmt.Sprint(res)
		r.ret = append(r.ret, rs)
	}
	rets := make([]string, len(r.ret))
	for i, h := range r.ret {
		rets[i] = zl(encRecs(h))
	}
	term := fmt.Sprintf("{| o_panic := %s; o_err := %s; o_val := %s; o_nil := %s; o_len := %s; o_win := %s; o_same := %s; o_ret := %s; o_seen := [] |}",
		vhlib.Bool(p), vhlib.Bool(err), vt, vhlib.Bool(after == nil), vhlib.Nat(len(after)), zl(afterFull), vhlib.Bool(same), vhlib.List(rets))
	return term, p, sum
}

// runRecCase: content and arguments are element codes; safe = through SafeAnyBSlice
func runRecCase(wr *vhlib.Writer, stream string, safe bool, content []int, ops []op) {
	vars := variantsFor(len(content))
	rs := make([]*recRecv, len(vars))
	for k, v := range vars {
		var s []rec
		if !v.Nil {
			s = make([]rec, len(content), len(content)+v.Spare)
			copy(s, decRecs(content))
			full := s[:cap(s)]
			for i := len(content); i < len(full); i++ {
				full[i] = decRec(poison) // {6 carol}: a stale element in the spare capacity
			}
		}
		var a bslice.AnyBSlice[rec]
		if safe {
			a = bslice.NewSafeAnyBSliceBySlice(s)
		} else {
			a = bslice.NewUnsafeAnyBSliceBySlice(s)
		}
		rs[k] = &recRecv{a: a, ret: [][]rec{s[:cap(s)]}}
	}
	var steps, labels []string
	var seen []interface{}
	for _, o := range ops {
		obs := make([]string, len(vars))
		sums := make([]interface{}, len(vars))
		anyPanic := false
		for k := range vars {
			t, p, s := observeRec(o, rs[k])
			obs[k], sums[k] = t, s
			anyPanic = anyPanic || p
		}
		steps = append(steps, fmt.Sprintf("{| st_m := %s; st_obs := %s |}", recCoq(o), vhlib.List(obs)))
		labels = append(labels, o.Name)
		seen = append(seen, sums)
		if anyPanic {
			break
		}
	}
	vt := make([]string, len(vars))
	for k, v := range vars {
		vt[k] = vhlib.Pair(vhlib.Bool(v.Nil), vhlib.Nat(v.Spare))
	}
	term := fmt.Sprintf("BS {| c_init := %s; c_vars := %s; c_steps := %s |}", zl(content), vhlib.List(vt), vhlib.List(steps))
	w := "UnsafeAny[rec]"
	if safe {
		w = "SafeAny[rec]"
	}
	wr.Case(term, stream, true, labels, map[string]interface{}{
		"type": "bslice-rec", "wrapper": w, "element": "struct{ID int `json:\"id\"`; Name string `json:\"name,omitempty\"`} shown as ID*16+nameIndex",
		"content": fmt.Sprint(decRecs(content)), "content_codes": content, "variants": vars, "ops": ops[:len(labels)], "observed_per_step_per_variant": seen})
}

// genRecs: shrink / reset, then Unmarshal documents that omit fields
func genRecs(wr *vhlib.Writer, rng *vhlib.Rng, thorough bool) {
	contents := [][]int{
		{}, {1*16 + 1}, {1*16 + 1, 2*16 + 2}, {1*16 + 1, 2*16 + 2, 3*16 + 3}, {4 * 16, 5*16 + 5, 5*16 + 5, 7*16 + 4},
	}
	shrinkers := [][]op{
		{}, {{Name: "Clear"}}, {{Name: "DeleteE", I: 0, J: 1}}, {{Name: "DeleteE", I: 1, J: 3}}, {{Name: "Filter", Fn: "p_false"}},
		{{Name: "Filter", Fn: "p_even"}}, {{Name: "Delete", I: 0, J: 2}, {Name: "Clip"}}, {{Name: "ReplaceE", I: 0, J: 2, Vals: []int{9*16 + 9}}},
		{{Name: "CompactFunc", Fn: "eq_true"}}, {{Name: "ToMetaSlice"}, {Name: "Clear"}, {Name: "Append", Vals: []int{8*16 + 8}}},
		{{Name: "Grow", I: 3}}, {{Name: "Unmarshal", Data: `[{"id":40,"name":"dave"}]`}}, {{Name: "CopyToSlice"}, {Name: "DeleteE", I: 0, J: 1}},
	}
	docs := []string{
		`[{"id":7},{"id":8}]`, `[{"id":7,"name":"eve"},{"id":8},{"name":"frank"},{}]`, `[{"name":"grace"}]`, `[]`,
		`[{"id":21},{"id":22},{"id":23},{"id":24},{"id":25},{"id":26},{"id":27},{"id":28},{"id":29},{"id":30},{"id":31},{"id":32},{"id":33}]`,
		`[{"id":1}`,
	}
	for ci, c := range contents {
		for si, sh := range shrinkers {
			for di, d := range docs {
				if !thorough && (ci+si+di)%2 == 1 && di > 1 {
					continue
				}
				ops := append(append([]op{}, sh...), op{Name: "Unmarshal", Data: d}, op{Name: "Len"})
				if (si+di)%3 == 0 {
					ops = append(ops, op{Name: "Unmarshal", Data: docs[(di+1)%3]})
				}
				runRecCase(wr, "recs", (ci+si+di)%2 == 1, c, ops)
			}
		}
	}
	_ = rng
}
